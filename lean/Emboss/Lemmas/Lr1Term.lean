/-
Soundness of the termination analysis `summ` / `TermOK` (Model/Lr1Term.lean): over a table that
passes, `Parser.parse` halts on every token list — accepted or rejected.  Measure: (tokens left,
stack height) lexicographically; a summary `stop` leads to a Shift (fewer tokens left) or to the
end of the run, a summary `pend` to a Reduce after which the stack is strictly lower than it was
when the summary was taken.
-/
import Emboss.Model.Lr1Term
import Emboss.Lemmas.Lr1Complete
import Emboss.Lemmas.Lr1Bisim
namespace Emboss.Lr1

variable {A : Automaton}

theorem nextAction_eq (w : List Token) (s i : Nat) :
    nextAction A w s i = A.actionAt s (keyAt A w i) := by
  by_cases h : clientEoi A w i = true <;> simp [nextAction, keyAt, h, Automaton.actionAt]

theorem step_ne_outOfFuel (w : List Token) (c : Config) : step A w c ≠ .done .outOfFuel := by
  intro h
  unfold step at h
  simp only [] at h
  repeat' split at h
  all_goals cases h

/-- what one iteration of the loop of `parse` can do -/
theorem step_cases (w : List Token) (c : Config) :
    (∃ r, step A w c = .done r ∧ r ≠ .outOfFuel) ∨
    (∃ s' t, nextAction A w (topState c.stack) c.cursor = .shift s' ∧ w[c.cursor]? = some t ∧
        step A w c = .next ⟨(s', .leaf t) :: c.stack, c.cursor + 1⟩) ∨
    (∃ pi p s', nextAction A w (topState c.stack) c.cursor = .reduce pi ∧ A.prods[pi]? = some p ∧
        p.rhs.length ≤ c.stack.length ∧
        A.gotoOf (topState (c.stack.drop p.rhs.length)) p.lhs = some s' ∧
        step A w c = .next ⟨(s', .node p (((c.stack.take p.rhs.length).map (·.2)).reverse)) ::
          c.stack.drop p.rhs.length, c.cursor⟩) := by
  cases hs : step A w c with
  | done r =>
    refine Or.inl ⟨r, rfl, ?_⟩
    intro hr; subst hr; exact step_ne_outOfFuel w c hs
  | next c' =>
    right
    have hs0 := hs
    unfold step at hs
    simp only [] at hs
    split at hs
    · rename_i s' hact
      split at hs
      · rename_i t hw
        cases hs
        exact Or.inl ⟨s', t, hact, hw, rfl⟩
      · cases hs
    · split at hs
      · split at hs <;> cases hs
      · cases hs
    · rename_i pi hact
      split at hs
      · cases hs
      · rename_i p hp
        split at hs
        · rename_i hle
          split at hs
          · rename_i s' hg
            cases hs
            exact Or.inr ⟨pi, p, s', hact, hp, hle, hg, rfl⟩
          · cases hs
        · cases hs
    · split at hs
      · cases hs
      · split at hs <;> cases hs

/-! ### every stack entry is a table successor of the entry below it -/

def AdjStack (A : Automaton) : List (Nat × Tree) → Prop
  | [] => True
  | (s, _) :: rest => s ∈ A.succs (topState rest) ∧ AdjStack A rest

theorem AdjStack.drop : ∀ {st : List (Nat × Tree)} (n : Nat), AdjStack A st → AdjStack A (st.drop n)
  | _, 0, h => by simpa using h
  | [], _ + 1, _ => by simp [AdjStack]
  | _ :: rest, n + 1, h => by
    simp only [List.drop_succ_cons]
    exact AdjStack.drop n h.2

theorem mem_succs_of_shift {u a s' : Nat} (h : A.entry u a = some (.shift s')) : s' ∈ A.succs u := by
  unfold Automaton.entry at h
  unfold Automaton.succs
  split at h
  · rename_i r hr
    rw [hr]
    refine List.mem_append_left _ (List.mem_filterMap.mpr ⟨(a, .shift s'), lookup_mem h, rfl⟩)
  · cases h

theorem mem_succs_of_goto {u x s' : Nat} (h : A.gotoOf u x = some s') : s' ∈ A.succs u := by
  unfold Automaton.succs
  exact List.mem_append_right _ (List.mem_map.mpr ⟨(x, s'), (Automaton.gotoOf_mem h).2, rfl⟩)

theorem succs_lt {u s : Nat} (h : s ∈ A.succs u) : u < A.nStates := by
  unfold Automaton.succs at h
  unfold Automaton.nStates
  rcases List.mem_append.mp h with h | h
  · have : u < A.action.size := by
      by_cases hu : u < A.action.size
      · exact hu
      · simp [Automaton.row, Array.getElem?_eq_none (Nat.le_of_not_lt hu)] at h
    omega
  · have : u < A.goto.size := by
      by_cases hu : u < A.goto.size
      · exact hu
      · simp [Array.getElem?_eq_none (Nat.le_of_not_lt hu)] at h
    omega

theorem adj_step {w : List Token} {c c' : Config} (h : step A w c = .next c') (ha : AdjStack A c.stack) :
    AdjStack A c'.stack := by
  rcases step_cases (A := A) w c with ⟨r, hr, _⟩ | ⟨s', t, hact, _, hs⟩ | ⟨pi, p, s', _, _, _, hg, hs⟩
  · rw [hr] at h; cases h
  · rw [hs] at h; cases h
    exact ⟨mem_succs_of_shift (nextAction_nonerror hact rfl).2, ha⟩
  · rw [hs] at h; cases h
    exact ⟨mem_succs_of_goto hg, ha.drop _⟩

theorem adj_stepsTo {w : List Token} : ∀ {n : Nat} {c c' : Config}, stepsTo A w n c c' →
    AdjStack A c.stack → AdjStack A c'.stack
  | 0, _, _, h, ha => by cases h; exact ha
  | _ + 1, _, _, ⟨_, hs, h⟩, ha => adj_stepsTo h (adj_step hs ha)

/-! ### what a summary means -/

/-- from `c` the run reaches, at the same cursor, a configuration whose step ends the run or
shifts a token -/
def Halts (A : Automaton) (w : List Token) (c : Config) : Prop :=
  ∃ n c', stepsTo A w n c c' ∧
    ((∃ r, step A w c' = .done r ∧ r ≠ .outOfFuel) ∨
     (∃ c'', step A w c' = .next c'' ∧ c''.cursor = c.cursor + 1 ∧ c.cursor < w.length))

def SummOK (A : Automaton) (w : List Token) (c : Config) (base : List (Nat × Tree)) : Summ → Prop
  | .stop => Halts A w c
  | .diverge => True
  | .pend pi r => ∃ p above, A.prods[pi]? = some p ∧ above.length + r = p.rhs.length ∧ 1 ≤ r ∧
      (∃ n, stepsTo A w n c ⟨above ++ base, c.cursor⟩) ∧
      nextAction A w (topState (above ++ base)) c.cursor = .reduce pi

theorem Halts.of_step {w : List Token} {c c1 : Config} (hs : step A w c = .next c1)
    (hc : c1.cursor = c.cursor) (h : Halts A w c1) : Halts A w c := by
  obtain ⟨n, c', hn, hd⟩ := h
  refine ⟨n + 1, c', ⟨c1, hs, hn⟩, ?_⟩
  rw [hc] at hd; exact hd

theorem SummOK.of_stepsTo {w : List Token} {c c1 : Config} {base : List (Nat × Tree)} {r : Summ} {m : Nat}
    (hs : stepsTo A w m c c1) (hc : c1.cursor = c.cursor) (h : SummOK A w c1 base r) :
    SummOK A w c base r := by
  cases r with
  | stop =>
    obtain ⟨n, c', hn, hd⟩ := h
    refine ⟨m + n, c', stepsTo_trans hs hn, ?_⟩
    rw [hc] at hd; exact hd
  | diverge => trivial
  | pend pi r =>
    obtain ⟨p, above, hp, hl, hr, ⟨n, hn⟩, hact⟩ := h
    rw [hc] at hn hact
    exact ⟨p, above, hp, hl, hr, ⟨m + n, stepsTo_trans hs hn⟩, hact⟩

theorem SummOK.of_step {w : List Token} {c c1 : Config} {base : List (Nat × Tree)} {r : Summ}
    (hs : step A w c = .next c1) (hc : c1.cursor = c.cursor) (h : SummOK A w c1 base r) :
    SummOK A w c base r :=
  SummOK.of_stepsTo (m := 1) ⟨c1, hs, rfl⟩ hc h

theorem halts_of_done {w : List Token} {c : Config} {r : Result} (h : step A w c = .done r)
    (hr : r ≠ .outOfFuel) : Halts A w c :=
  ⟨0, c, rfl, Or.inl ⟨r, h, hr⟩⟩

/-- a non-Reduce action ends the run or shifts -/
theorem halts_of_nonreduce {w : List Token} {c : Config}
    (h : ∀ pi, nextAction A w (topState c.stack) c.cursor ≠ .reduce pi) : Halts A w c := by
  rcases step_cases (A := A) w c with ⟨r, hr, hne⟩ | ⟨s', t, _, hw, hs⟩ | ⟨pi, _, _, hact, _⟩
  · exact halts_of_done hr hne
  · refine ⟨0, c, rfl, Or.inr ⟨_, hs, rfl, ?_⟩⟩
    by_cases hlt : c.cursor < w.length
    · exact hlt
    · simp [List.getElem?_eq_none (Nat.le_of_not_lt hlt)] at hw
  · exact absurd hact (h pi)

theorem summ_sound (w : List Token) (i : Nat) : ∀ (f : Nat),
    (∀ s st, topState st = s → SummOK A w ⟨st, i⟩ st (summ A (keyAt A w i) f none s)) ∧
    (∀ u s t st, topState st = u →
      SummOK A w ⟨(s, t) :: st, i⟩ st (summ A (keyAt A w i) f (some u) s))
  | 0 => ⟨fun _ _ _ => by simp [summ, SummOK], fun _ _ _ _ _ => by simp [summ, SummOK]⟩
  | f + 1 => by
    obtain ⟨ihE, ihF⟩ := summ_sound w i f
    constructor
    · intro s st hs
      subst hs
      have hact := nextAction_eq (A := A) w (topState st) i
      rcases step_cases (A := A) w ⟨st, i⟩ with ⟨r, hr, hne⟩ | ⟨s', t, hsh, hw, hstep⟩ |
          ⟨pi, p, s', hred, hp, hle, hg, hstep⟩
      · -- the step ends the run: whatever the summary says, it is consistent
        have hH : Halts A w ⟨st, i⟩ := halts_of_done hr hne
        simp only [summ]
        cases ha : A.actionAt (topState st) (keyAt A w i) with
        | reduce pi =>
          simp only []
          cases hp : A.prods[pi]? with
          | none => exact hH
          | some p =>
            simp only []
            by_cases h0 : p.rhs.length = 0
            · simp only [h0, if_true]
              cases hg : A.gotoOf (topState st) p.lhs with
              | none => exact hH
              | some s1 =>
                -- impossible: then the step would not be `done`
                exfalso
                have hna : nextAction A w (topState st) i = .reduce pi := by rw [hact, ha]
                have : step A w ⟨st, i⟩ = .next ⟨(s1, .node p []) :: st, i⟩ := by
                  simp [step, hna, hp, h0, hg]
                rw [this] at hr; cases hr
            · simp only [h0, if_false]
              refine ⟨p, [], hp, by simp, by omega, ⟨0, rfl⟩, ?_⟩
              simp only [List.nil_append]; rw [hact, ha]
        | shift _ => exact hH
        | accept => exact hH
        | error _ => exact hH
      · have hH : Halts A w ⟨st, i⟩ := halts_of_nonreduce (by
          intro pi h; rw [hsh] at h; cases h)
        have ha : A.actionAt (topState st) (keyAt A w i) = .shift s' := by rw [← hact]; exact hsh
        simp only [summ, ha]
        exact hH
      · have ha : A.actionAt (topState st) (keyAt A w i) = .reduce pi := by rw [← hact]; exact hred
        simp only [summ, ha, hp]
        by_cases h0 : p.rhs.length = 0
        · simp only [h0, if_true]
          have hg' : A.gotoOf (topState st) p.lhs = some s' := by simpa [h0] using hg
          simp only [hg']
          have hstep' : step A w ⟨st, i⟩ = .next ⟨(s', .node p []) :: st, i⟩ := by
            rw [hstep]; simp [h0]
          exact SummOK.of_step hstep' rfl (ihF (topState st) s' _ st rfl)
        · simp only [h0, if_false]
          refine ⟨p, [], hp, by simp, by omega, ⟨0, rfl⟩, ?_⟩
          simp only [List.nil_append]; exact hred
    · intro u s t st hu
      subst hu
      have hE := ihE s ((s, t) :: st) rfl
      simp only [summ]
      cases hres : summ A (keyAt A w i) f none s with
      | stop => rw [hres] at hE; exact hE
      | diverge => trivial
      | pend pi r =>
        rw [hres] at hE
        obtain ⟨p, above, hp, hl, hr1, ⟨n, hn⟩, hact⟩ := hE
        simp only []
        by_cases h1 : r = 1
        · subst h1
          simp only [if_true, hp]
          -- the pending reduce pops `above` and the entry of `s`; the goto is taken from below
          have hlen : p.rhs.length ≤ (above ++ (s, t) :: st).length := by simp; omega
          have hdrop : (above ++ (s, t) :: st).drop p.rhs.length = st := by
            rw [← hl]; simp
          simp only [] at hn hact
          cases hg : A.gotoOf (topState st) p.lhs with
          | none =>
            have hstep : step A w ⟨above ++ (s, t) :: st, i⟩ = .done (.internal "KeyError: goto") := by
              simp [step, hact, hp, hdrop, hg]; omega
            exact ⟨n, _, hn, Or.inl ⟨_, hstep, by simp⟩⟩
          | some s2 =>
            have hstep : step A w ⟨above ++ (s, t) :: st, i⟩ =
                .next ⟨(s2, .node p (((above ++ (s, t) :: st).take p.rhs.length).map (·.2)).reverse) :: st, i⟩ := by
              simp [step, hact, hp, hdrop, hg]; omega
            have h2 := ihF (topState st) s2
              (.node p (((above ++ (s, t) :: st).take p.rhs.length).map (·.2)).reverse) st rfl
            have h1s : stepsTo A w 1 ⟨above ++ (s, t) :: st, i⟩
                ⟨(s2, .node p (((above ++ (s, t) :: st).take p.rhs.length).map (·.2)).reverse) :: st, i⟩ :=
              ⟨_, hstep, rfl⟩
            exact SummOK.of_stepsTo (stepsTo_trans hn h1s) rfl h2
        · simp only [h1, if_false]
          refine ⟨p, above ++ [(s, t)], hp, by simp; omega, by omega, ⟨n, ?_⟩, ?_⟩
          · simpa using hn
          · simpa using hact

/-! ### keys without a table entry -/

theorem defaultAction_error (s : Nat) : ∃ c, A.defaultAction s = .error c := by
  unfold Automaton.defaultAction; split <;> exact ⟨_, rfl⟩

theorem actionAt_error_of_not_key {o : Option Nat} {s : Nat} (h : ∀ a, o = some a → a ∉ A.keysOf s) :
    ∃ c, A.actionAt s o = .error c := by
  cases o with
  | none => exact defaultAction_error s
  | some a =>
    have hk := h a rfl
    have he : A.entry s a = none := by
      unfold Automaton.entry
      unfold Automaton.keysOf at hk
      cases hr : A.row s with
      | none => rfl
      | some r => rw [hr] at hk; exact lookup_none_of_not_mem hk
    simp only [Automaton.actionAt, Automaton.actionOf, he]
    exact defaultAction_error s

theorem summ_F_eq (o : Option Nat) (f u s : Nat) :
    summ A o (f + 1) (some u) s =
      match summ A o f none s with
      | .pend pi r =>
        if r = 1 then
          match A.prods[pi]? with
          | none => .stop
          | some p =>
            match A.gotoOf u p.lhs with
            | none => .stop
            | some s2 => summ A o f (some u) s2
        else .pend pi (r - 1)
      | x => x := by
  simp only [summ]
  cases summ A o f none s <;> rfl

theorem summ_stop_of_not_key {o : Option Nat} {s : Nat} (h : ∀ a, o = some a → a ∉ A.keysOf s) (f : Nat) :
    summ A o (f + 1) none s = .stop ∧ ∀ u, summ A o (f + 2) (some u) s = .stop := by
  obtain ⟨c, hc⟩ := actionAt_error_of_not_key h
  have h1 : ∀ f, summ A o (f + 1) none s = .stop := by intro f; simp [summ, hc]
  refine ⟨h1 f, fun u => ?_⟩
  rw [summ_F_eq, h1 f]

theorem termFuel_eq (A : Automaton) : A.termFuel = (2 * A.nStates + 62) + 2 := by
  unfold Automaton.termFuel; omega

/-! ### progress and termination -/

/-- from `c` the run ends, or shifts a token, or gets to a strictly lower stack at the same
cursor -/
def Progress (A : Automaton) (w : List Token) (c : Config) : Prop :=
  ∃ n c', stepsTo A w n c c' ∧
    ((∃ r, step A w c' = .done r ∧ r ≠ .outOfFuel) ∨
     (∃ c'', step A w c' = .next c'' ∧
        (w.length - c''.cursor < w.length - c.cursor ∨
         (c''.cursor = c.cursor ∧ c''.stack.length < c.stack.length))))

theorem progress (hT : TermOK A) (w : List Token) (c : Config) (ha : AdjStack A c.stack) :
    Progress A w c := by
  obtain ⟨st, i⟩ := c
  have ofHalts : Halts A w ⟨st, i⟩ → Progress A w ⟨st, i⟩ := fun ⟨n, c', hn, hd⟩ => by
    refine ⟨n, c', hn, ?_⟩
    rcases hd with hd | ⟨c'', hs, hcur, hlt⟩
    · exact Or.inl hd
    · refine Or.inr ⟨c'', hs, Or.inl ?_⟩
      simp only [] at hcur hlt ⊢
      omega
  -- the pending reduce either ends the run or lowers the stack to `base` minus `r` plus one
  have ofPend : ∀ (base : List (Nat × Tree)) (pi r : Nat), base.length < st.length ∨ base = [] →
      SummOK A w ⟨st, i⟩ base (.pend pi r) → Progress A w ⟨st, i⟩ := by
    intro base pi r hb ⟨p, above, hp, hl, hr, ⟨n, hn⟩, hact⟩
    refine ⟨n, _, hn, ?_⟩
    simp only [] at hact
    rcases step_cases (A := A) w ⟨above ++ base, i⟩ with hd | ⟨s', t, hsh, _, _⟩ |
        ⟨pi', p', s', hred, hp', hle, _, hs⟩
    · exact Or.inl hd
    · simp only [] at hsh; rw [hact] at hsh; cases hsh
    · simp only [] at hred hle
      rw [hact] at hred; cases hred
      rw [hp] at hp'; cases hp'
      refine Or.inr ⟨_, hs, Or.inr ⟨rfl, ?_⟩⟩
      simp only [List.length_append] at hle
      rcases hb with hb | hb
      · simp only [List.length_cons, List.length_drop, List.length_append]; omega
      · subst hb; simp only [List.length_nil] at hle; omega
  cases st with
  | nil =>
    have hE := (summ_sound (A := A) w i A.termFuel).1 0 [] rfl
    cases hres : summ A (keyAt A w i) A.termFuel none 0 with
    | stop => rw [hres] at hE; exact ofHalts hE
    | pend pi r => rw [hres] at hE; exact ofPend [] pi r (Or.inr rfl) hE
    | diverge =>
      exfalso
      by_cases hk : ∀ a, keyAt A w i = some a → a ∉ A.keysOf 0
      · have := (summ_stop_of_not_key (A := A) hk (2 * A.nStates + 63)).1
        rw [show 2 * A.nStates + 63 + 1 = A.termFuel by unfold Automaton.termFuel; omega, hres] at this
        cases this
      · have : ∃ a, keyAt A w i = some a ∧ a ∈ A.keysOf 0 := by
          apply Classical.byContradiction
          intro hn
          exact hk (fun a ha hmem => hn ⟨a, ha, hmem⟩)
        obtain ⟨a, hka, hmem⟩ := this
        rw [hka] at hres
        exact hT.1 a hmem hres
  | cons e rest =>
    obtain ⟨s, t⟩ := e
    have hF := (summ_sound (A := A) w i A.termFuel).2 (topState rest) s t rest rfl
    cases hres : summ A (keyAt A w i) A.termFuel (some (topState rest)) s with
    | stop => rw [hres] at hF; exact ofHalts hF
    | pend pi r => rw [hres] at hF; exact ofPend rest pi r (Or.inl (by simp)) hF
    | diverge =>
      exfalso
      by_cases hk : ∀ a, keyAt A w i = some a → a ∉ A.keysOf s
      · have := (summ_stop_of_not_key (A := A) hk (2 * A.nStates + 62)).2 (topState rest)
        rw [show 2 * A.nStates + 62 + 2 = A.termFuel by unfold Automaton.termFuel; omega, hres] at this
        cases this
      · have : ∃ a, keyAt A w i = some a ∧ a ∈ A.keysOf s := by
          apply Classical.byContradiction
          intro hn
          exact hk (fun a ha hmem => hn ⟨a, ha, hmem⟩)
        obtain ⟨a, hka, hmem⟩ := this
        rw [hka] at hres
        exact hT.2 _ (succs_lt ha.1) s ha.1 a hmem hres

theorem terminates_aux (hT : TermOK A) (w : List Token) : ∀ (k l : Nat) (c : Config),
    w.length - c.cursor ≤ k → c.stack.length ≤ l → AdjStack A c.stack →
    ∃ fuel, runFrom A w fuel c ≠ .outOfFuel := by
  intro k
  induction k with
  | zero =>
    intro l
    induction l with
    | zero =>
      intro c hk hl ha
      obtain ⟨n, c', hn, hd⟩ := progress hT w c ha
      rcases hd with ⟨r, hr, hne⟩ | ⟨c'', _, hm | hm⟩
      · exact ⟨n + 1, by rw [runFrom_stepsTo 1 hn]; simpa [runFrom, hr] using hne⟩
      · omega
      · omega
    | succ l ihl =>
      intro c hk hl ha
      obtain ⟨n, c', hn, hd⟩ := progress hT w c ha
      rcases hd with ⟨r, hr, hne⟩ | ⟨c'', hs, hm | hm⟩
      · exact ⟨n + 1, by rw [runFrom_stepsTo 1 hn]; simpa [runFrom, hr] using hne⟩
      · omega
      · obtain ⟨f, hf⟩ := ihl c'' (by omega) (by omega) (adj_step hs (adj_stepsTo hn ha))
        exact ⟨n + (f + 1), by rw [runFrom_stepsTo (f + 1) hn]; simpa [runFrom, hs] using hf⟩
  | succ k ihk =>
    intro l
    induction l with
    | zero =>
      intro c hk hl ha
      obtain ⟨n, c', hn, hd⟩ := progress hT w c ha
      rcases hd with ⟨r, hr, hne⟩ | ⟨c'', hs, hm | hm⟩
      · exact ⟨n + 1, by rw [runFrom_stepsTo 1 hn]; simpa [runFrom, hr] using hne⟩
      · obtain ⟨f, hf⟩ := ihk c''.stack.length c'' (by omega) (Nat.le_refl _)
          (adj_step hs (adj_stepsTo hn ha))
        exact ⟨n + (f + 1), by rw [runFrom_stepsTo (f + 1) hn]; simpa [runFrom, hs] using hf⟩
      · omega
    | succ l ihl =>
      intro c hk hl ha
      obtain ⟨n, c', hn, hd⟩ := progress hT w c ha
      rcases hd with ⟨r, hr, hne⟩ | ⟨c'', hs, hm | hm⟩
      · exact ⟨n + 1, by rw [runFrom_stepsTo 1 hn]; simpa [runFrom, hr] using hne⟩
      · obtain ⟨f, hf⟩ := ihk c''.stack.length c'' (by omega) (Nat.le_refl _)
          (adj_step hs (adj_stepsTo hn ha))
        exact ⟨n + (f + 1), by rw [runFrom_stepsTo (f + 1) hn]; simpa [runFrom, hs] using hf⟩
      · obtain ⟨f, hf⟩ := ihl c'' (by omega) (by omega) (adj_step hs (adj_stepsTo hn ha))
        exact ⟨n + (f + 1), by rw [runFrom_stepsTo (f + 1) hn]; simpa [runFrom, hs] using hf⟩

/-- over a table that passes the termination analysis `parse` halts on every token list -/
theorem run_terminates (hT : TermOK A) (w : List Token) : ∃ fuel, run A fuel w ≠ .outOfFuel :=
  terminates_aux hT w (w.length - init.cursor) init.stack.length init (Nat.le_refl _) (Nat.le_refl _) trivial

end Emboss.Lr1
