/-
C11 helper lemmas, part 6: the comparison loop of `sanity_check_format_result`, and
layout leaves.
-/
import Emboss.Lemmas.FmtTree
namespace Emboss.Fmt

/-- Two tokens the self-check regards as equal. -/
def tokEq (a b : Tok) : Prop := a.sym = b.sym ∧ strip a.text = strip b.text

instance (a b : Tok) : Decidable (tokEq a b) := by unfold tokEq; exact inferInstance

/-- The collapsed streams agree: same length, pairwise `tokEq`. -/
inductive StreamsAgree : List Tok → List Tok → Prop
  | nil : StreamsAgree [] []
  | cons {a b : Tok} {os fs : List Tok} : tokEq a b → StreamsAgree os fs → StreamsAgree (a :: os) (b :: fs)

theorem sanityLoop_ok_iff : ∀ (o f : List Tok) (i : Nat),
    sanityLoop i o f = .ok ↔ ∃ f1 f2, f = f1 ++ f2 ∧ StreamsAgree o f1 := by
  intro o
  induction o with
  | nil =>
    intro f i
    simp only [sanityLoop, true_iff]
    exact ⟨[], f, rfl, StreamsAgree.nil⟩
  | cons a os ih =>
    intro f i
    cases f with
    | nil =>
      simp only [sanityLoop]
      constructor
      · intro h; cases h
      · rintro ⟨f1, f2, h, hag⟩
        cases hag with
        | cons _ _ => simp at h
    | cons b fs =>
      simp only [sanityLoop]
      split
      · rename_i hne
        constructor
        · intro h; cases h
        · rintro ⟨f1, f2, h, hag⟩
          cases hag with
          | cons hab _ =>
            simp only [List.cons_append, List.cons.injEq] at h
            obtain ⟨rfl, _⟩ := h
            rcases hne with h1 | h1
            · exact absurd hab.1 h1
            · exact absurd hab.2 h1
      · rename_i heq
        have hab : tokEq a b := by
          simp only [not_or, Decidable.not_not] at heq
          exact heq
        rw [ih fs (i + 1)]
        constructor
        · rintro ⟨f1, f2, rfl, hag⟩
          exact ⟨b :: f1, f2, rfl, StreamsAgree.cons hab hag⟩
        · rintro ⟨f1, f2, h, hag⟩
          cases hag with
          | cons _ hrest =>
            simp only [List.cons_append, List.cons.injEq] at h
            exact ⟨_, f2, h.2, hrest⟩

theorem StreamsAgree.length_eq {o f : List Tok} (h : StreamsAgree o f) : o.length = f.length := by
  induction h with
  | nil => rfl
  | cons _ _ ih => simp [ih]

mutual
  theorem leaves_content_eq : ∀ (t : Tree), layoutBlank t = true →
      despace (leaves t).flatten = despace (contentLeaves t).flatten
    | .tok sym text, h => by
      simp only [layoutBlank, Bool.or_eq_true, Bool.not_eq_true', List.isEmpty_iff] at h
      simp only [leaves, contentLeaves]
      split
      · rename_i hs
        rcases h with h | h
        · rw [h] at hs; cases hs
        · simp [h]
      · rfl
    | .node _ cs, h => by
      simp only [layoutBlank] at h
      simp only [leaves, contentLeaves]
      exact leavesList_content_eq cs h
  theorem leavesList_content_eq : ∀ (ts : List Tree), layoutBlankList ts = true →
      despace (leavesList ts).flatten = despace (contentLeavesList ts).flatten
    | [], _ => rfl
    | t :: ts, h => by
      simp only [layoutBlankList, Bool.and_eq_true] at h
      simp only [leavesList, contentLeavesList, List.flatten_append, despace_append,
        leaves_content_eq t h.1, leavesList_content_eq ts h.2]
end

end Emboss.Fmt
