/-
C11 helper lemmas, part 6: the comparison loop of `sanity_check_format_result`, and
layout leaves.
-/
import Emboss.Lemmas.FmtTree
namespace Emboss.Fmt

/-- Two tokens the self-check regards as equal. -/
def tokEq (a b : Tok) : Prop := a.sym = b.sym ∧ strip a.text = strip b.text

instance (a b : Tok) : Decidable (tokEq a b) := by unfold tokEq; exact inferInstance

/-- The collapsed streams agree: same length, pairwise `tokEq`. -/
inductive StreamsAgree : List Tok → List Tok → Prop
  | nil : StreamsAgree [] []
  | cons {a b : Tok} {os fs : List Tok} : tokEq a b → StreamsAgree os fs → StreamsAgree (a :: os) (b :: fs)

theorem StreamsAgree.length_eq {o f : List Tok} (h : StreamsAgree o f) : o.length = f.length := by
  induction h with
  | nil => rfl
  | cons _ _ ih => simp [ih]

/-- The self-check answers `[]` exactly when the collapsed streams agree. -/
theorem sanityLoop_ok_iff : ∀ (o f : List Tok) (i : Nat),
    sanityLoop i o f = .ok ↔ StreamsAgree o f := by
  intro o
  induction o with
  | nil =>
    intro f i
    cases f with
    | nil => simp only [sanityLoop, true_iff]; exact StreamsAgree.nil
    | cons b fs =>
      simp only [sanityLoop]
      constructor
      · intro h; cases h
      · intro h; cases h
  | cons a os ih =>
    intro f i
    cases f with
    | nil =>
      simp only [sanityLoop]
      constructor
      · intro h; cases h
      · intro h; cases h
    | cons b fs =>
      simp only [sanityLoop]
      split
      · rename_i hne
        constructor
        · intro h; cases h
        · intro hag
          cases hag with
          | cons hab _ =>
            rcases hne with h1 | h1
            · exact absurd hab.1 h1
            · exact absurd hab.2 h1
      · rename_i heq
        have hab : tokEq a b := by
          simp only [not_or, Decidable.not_not] at heq
          exact heq
        rw [ih fs (i + 1)]
        constructor
        · intro hag; exact StreamsAgree.cons hab hag
        · intro hag
          cases hag with
          | cons _ hrest => exact hrest

/-- Position `j` is the first one at which the streams differ: they agree before it and
both have a token at `j`, which the self-check regards as different. -/
def FirstDiff (o f : List Tok) (j : Nat) : Prop :=
  ∃ o1 a o2 f1 b f2, o = o1 ++ a :: o2 ∧ f = f1 ++ b :: f2 ∧ StreamsAgree o1 f1 ∧
    o1.length = j ∧ ¬ tokEq a b

/-- The self-check answers "Symbol k differs" exactly for the first differing position. -/
theorem sanityLoop_differs_iff : ∀ (o f : List Tok) (i k : Nat),
    sanityLoop i o f = .differs k ↔ ∃ j, k = i + j ∧ FirstDiff o f j := by
  intro o
  induction o with
  | nil =>
    intro f i k
    constructor
    · intro h; cases f <;> simp [sanityLoop] at h
    · rintro ⟨j, _, o1, a, o2, f1, b, f2, ho, _⟩
      cases o1 <;> simp at ho
  | cons a os ih =>
    intro f i k
    cases f with
    | nil =>
      constructor
      · intro h; simp [sanityLoop] at h
      · rintro ⟨j, _, o1, a', o2, f1, b, f2, _, hf, _⟩
        cases f1 <;> simp at hf
    | cons b fs =>
      simp only [sanityLoop]
      split
      · rename_i hne
        have hnab : ¬ tokEq a b := by
          intro hab
          rcases hne with h1 | h1
          · exact h1 hab.1
          · exact h1 hab.2
        constructor
        · intro h
          cases h
          exact ⟨0, rfl, [], a, os, [], b, fs, rfl, rfl, StreamsAgree.nil, rfl, hnab⟩
        · rintro ⟨j, hk, o1, a', o2, f1, b', f2, ho, hf, hag, hlen, hn⟩
          cases hag with
          | nil =>
            simp at hlen; subst hlen; simp at hk; subst hk; rfl
          | cons hab' _ =>
            simp only [List.cons_append, List.cons.injEq] at ho hf
            obtain ⟨rfl, _⟩ := ho
            obtain ⟨rfl, _⟩ := hf
            exact absurd hab' hnab
      · rename_i heq
        have hab : tokEq a b := by
          simp only [not_or, Decidable.not_not] at heq
          exact heq
        rw [ih fs (i + 1) k]
        constructor
        · rintro ⟨j, hk, o1, a', o2, f1, b', f2, ho, hf, hag, hlen, hn⟩
          refine ⟨j + 1, by omega, a :: o1, a', o2, b :: f1, b', f2, ?_, ?_, StreamsAgree.cons hab hag, ?_, hn⟩
          · simp [ho]
          · simp [hf]
          · simp [hlen]
        · rintro ⟨j, hk, o1, a', o2, f1, b', f2, ho, hf, hag, hlen, hn⟩
          cases hag with
          | nil =>
            simp only [List.nil_append, List.cons.injEq] at ho hf
            obtain ⟨rfl, _⟩ := ho
            obtain ⟨rfl, _⟩ := hf
            exact absurd hab hn
          | @cons a0 b0 os0 fs0 _ hrest =>
            simp only [List.cons_append, List.cons.injEq] at ho hf
            simp only [List.length_cons] at hlen
            exact ⟨os0.length, by omega, os0, a', o2, fs0, b', f2, ho.2, hf.2, hrest, rfl, hn⟩

mutual
  theorem leaves_content_eq : ∀ (t : Tree), layoutBlank t = true →
      despace (leaves t).flatten = despace (contentLeaves t).flatten
    | .tok sym text, h => by
      simp only [layoutBlank, Bool.or_eq_true, Bool.not_eq_true', List.isEmpty_iff] at h
      simp only [leaves, contentLeaves]
      split
      · rename_i hs
        rcases h with h | h
        · rw [h] at hs; cases hs
        · simp [h]
      · rfl
    | .node _ cs, h => by
      simp only [layoutBlank] at h
      simp only [leaves, contentLeaves]
      exact leavesList_content_eq cs h
  theorem leavesList_content_eq : ∀ (ts : List Tree), layoutBlankList ts = true →
      despace (leavesList ts).flatten = despace (contentLeavesList ts).flatten
    | [], _ => rfl
    | t :: ts, h => by
      simp only [layoutBlankList, Bool.and_eq_true] at h
      simp only [leavesList, contentLeavesList, List.flatten_append, despace_append,
        leaves_content_eq t h.1, leavesList_content_eq ts h.2]
end

end Emboss.Fmt
