/-
C10: leading blanks are one gap; texts joined by single blanks tokenize piecewise.
-/
import Emboss.Lemmas.TokBlankLine
namespace Emboss.Tok
open Emboss.Regex Emboss.Tok.Class Emboss.Generated

theorem space_sym_none : tokTable.pats.all (fun p => p.re != reSpace || p.sym == none) = true := by
  decide +kernel

/-- Only `\s+` has a non-empty match that starts with a blank. -/
theorem blank_head_only_space {q : Pat} (hq : q ∈ tokTable.pats) {c : Char} {pre rest : List Char}
    (hc : isSpaceChar c = true) (hl : Lang q.re (c :: pre) rest) : q.re = reSpace := by
  have word : WordOnly q.re → False := by
    intro hw
    have hall := lang_wordOnly hl hw
    simp only [List.all_cons, Bool.and_eq_true] at hall
    rw [word_not_space c hall.1] at hc; cases hc
  have lit : ∀ (x : Char) (l : List Char) (R : Regex), isSpaceChar x = false →
      Lang (litThen (x :: l) R) (c :: pre) rest → False := by
    intro x l R hx h
    obtain ⟨qq, hqq, _⟩ := lang_litThen_inv (x :: l) h
    simp only [List.cons_append, List.cons.injEq] at hqq
    rw [hqq.1, hx] at hc; cases hc
  rw [tokTable_pats, List.mem_append, List.mem_map] at hq
  rcases hq with ⟨l, hl', rfl⟩ | hq
  · rw [List.mem_append] at hl'
    rcases hl' with hl' | hl'
    · exfalso
      have hh := List.all_eq_true.mp punct_heads2 l hl'
      have := lang_litRegex_inv _ hl
      rw [← this] at hh
      simp only [Bool.and_eq_true, Bool.not_eq_true'] at hh
      rw [hh.2] at hc; cases hc
    · exact (word (wordOnly_litRegex _ (List.all_eq_true.mp keywords_words l hl'))).elim
  · simp only [expectedRegexes, List.mem_cons, List.not_mem_nil, or_false] at hq
    rcases hq with rfl | rfl | rfl | rfl | rfl | rfl | rfl | rfl | rfl | rfl | rfl | rfl | rfl | rfl |
      rfl | rfl | rfl | rfl | rfl | rfl | rfl | rfl | rfl
    · exact (word (wordOnly_litThen _ _ (by decide) wo_resCamelTail)).elim
    · exact (word (wordOnly_litThen _ _ (by decide) wo_resSnakeTail)).elim
    · exact (word (wordOnly_litThen _ _ (by decide) wo_resShoutyTail)).elim
    · exfalso
      obtain ⟨qq, hqq⟩ := string_head hl
      simp only [List.cons.injEq] at hqq
      rw [hqq.1] at hc; revert hc; decide
    · exact (word wo_digit).elim
    · exact (word (wordOnly_grouped wo_digit 3 3)).elim
    · exact (word (wordOnly_litThen _ _ (by decide) wo_hex)).elim
    · exact (word (wordOnly_litThen _ _ (by decide) ⟨wo_us, wordOnly_grouped wo_hex 4 4⟩)).elim
    · exact (word (wordOnly_litThen _ _ (by decide) ⟨wo_us, wordOnly_grouped wo_hex 8 8⟩)).elim
    · exact (word (wordOnly_litThen _ _ (by decide) wo_bin)).elim
    · exact (word (wordOnly_litThen _ _ (by decide) ⟨wo_us, wordOnly_grouped wo_bin 4 4⟩)).elim
    · exact (word (wordOnly_litThen _ _ (by decide) ⟨wo_us, wordOnly_grouped wo_bin 8 8⟩)).elim
    · exact (word ⟨wordOnly_litRegex _ (by decide), wordOnly_litRegex _ (by decide)⟩).elim
    · exact (word ⟨wo_lower, wo_snakeTail⟩).elim
    · exact (word ⟨wo_upper, wo_shoutyTail, wo_shoutyMid, wo_shoutyTail⟩).elim
    · exact (word ⟨wo_upper, wo_camelTail, wo_lower, wo_camelTail⟩).elim
    · exact (lit '-' _ _ (by decide) hl).elim
    · exact (lit '-' _ _ (by decide) hl).elim
    · exact (lit '-' _ _ (by decide) hl).elim
    · rfl
    · exact (lit '#' _ _ (by decide) hl).elim
    · exact (word ⟨wo_digit, wo_radix, wo_hexUs⟩).elim
    · exact (word wo_word).elim

/-- **Leading blanks are one gap**: in front of a non-blank character (or the end of the line)
a non-empty run of blanks is the best match, without a symbol. -/
theorem isBest_blanks {c : Char} {ws b : List Char} (hws : (c :: ws).all isSpaceChar = true)
    (hb : ∀ y, b.head? = some y → isSpaceChar y = false) :
    IsBest tokTable.pats (c :: ws ++ b) (c :: ws).length none := by
  have hc : isSpaceChar c = true := by
    simp only [List.all_cons, Bool.and_eq_true] at hws; exact hws.1
  have hpl := priority_is_longest_all _ space_mem
  -- `\s+` matches exactly the run
  have hM : MatchesLen reSpace (c :: ws ++ b) (c :: ws).length := by
    refine ⟨by simp, ?_⟩
    rw [List.take_left', List.drop_left']
    · exact lang_plus_of_all cSpace b c ws (by
        rw [List.all_eq_true] at hws ⊢
        intro y hy; rw [cSpace_mem]; exact hws y hy)
    · rfl
    · rfl
  have hsp : matchLen reSpace (c :: ws ++ b) = .ok (c :: ws).length := by
    obtain ⟨m, hm, hle⟩ := pl_bound hpl hM
    have hs := matchLen_sound _ _ _ hm
    have hall := lang_rep_chr hs.2 cSpace 1 none rfl
    have : m ≤ (c :: ws).length := by
      apply Nat.le_of_not_lt
      intro hlt
      cases b with
      | nil => have := hs.1; simp only [List.append_nil] at this; omega
      | cons y b' =>
        have := List.all_eq_true.mp hall y (mem_take_append_cons hlt).1
        rw [cSpace_mem, hb y rfl] at this; cases this
    rw [hm, show m = (c :: ws).length by omega]
  cases hbm : bestMatch tokTable.pats (c :: ws ++ b) 0 none with
  | none => exact absurd hbm (bestMatch_ne_none _ _ _ _)
  | some r =>
    obtain ⟨n', sy'⟩ := r
    rcases bestMatch_spec _ _ _ _ _ _ hbm with ⟨_, _, h3⟩ | ⟨hpos, hbest⟩
    · have := h3 _ space_mem _ hsp
      simp at this
    · obtain ⟨pre, p, post, hp, hm, hs, _, _⟩ := hbest
      have hbest' : IsBest tokTable.pats (c :: ws ++ b) n' sy' := ⟨pre, p, post, hp, hm, hs, ‹_›, ‹_›⟩
      have hpm : p ∈ tokTable.pats := by rw [hp]; simp
      have hsound := matchLen_sound _ _ _ hm
      have hre : p.re = reSpace := by
        have hl := hsound.2
        rw [show n' = (n' - 1) + 1 by omega] at hl
        simp only [List.cons_append, List.take_succ_cons] at hl
        exact blank_head_only_space hpm hc hl
      have hsy : sy' = none := by
        have := List.all_eq_true.mp space_sym_none p hpm
        rw [hre] at this
        simp only [bne_self_eq_false, Bool.false_or, beq_iff_eq] at this
        rw [← hs, this]
      rw [hre, hsp] at hm
      simp only [MRes.ok.injEq] at hm
      rw [hm, ← hsy]
      exact hbest'

theorem covers_blank_prefix {ln : Nat} {c : Char} {ws b : List Char} {off : Nat} {segs : List Seg}
    (hws : (c :: ws).all isSpaceChar = true) (hb : ∀ y, b.head? = some y → isSpaceChar y = false)
    (hB : Covers tokTable.pats ln b (off + (c :: ws).length) segs) :
    Covers tokTable.pats ln (c :: ws ++ b) off (.gap (c :: ws) :: segs) := by
  have := Covers.gap (ln := ln) (off := off) (s := c :: ws ++ b) (n := (c :: ws).length) (by simp)
    (by simp) (isBest_blanks hws hb) (by rw [List.drop_left']; exact hB; rfl)
  rw [List.take_left'] at this
  exact this
  rfl

theorem stuck_blank_prefix {c : Char} {ws b : List Char} {off k : Nat}
    (hws : (c :: ws).all isSpaceChar = true) (hb : ∀ y, b.head? = some y → isSpaceChar y = false)
    (hB : StuckAt tokTable.pats b (off + (c :: ws).length) k) :
    StuckAt tokTable.pats (c :: ws ++ b) off k :=
  .step (n := (c :: ws).length) (by simp) (isBest_blanks hws hb) (by rw [List.drop_left']; exact hB; rfl)

theorem Token.shift_shift (a b : Nat) (t : Token) : (t.shift a).shift b = t.shift (a + b) := by
  simp only [Token.shift, Token.mk.injEq, true_and]; omega

theorem Token.shift_zero (t : Token) : t.shift 0 = t := by
  simp [Token.shift]

/-- `tokLine` form of `covers_blank_prefix` / `stuck_blank_prefix`. -/
theorem tokLine_blank_prefix (ln : Nat) {c : Char} {ws b : List Char}
    (hws : (c :: ws).all isSpaceChar = true) (hb : ∀ y, b.head? = some y → isSpaceChar y = false) :
    (∀ tb, tokLine tokTable.pats ln b.length b 0 = .ok tb →
      tokLine tokTable.pats ln (c :: ws ++ b).length (c :: ws ++ b) 0 =
        .ok (tb.map (Token.shift (c :: ws).length))) ∧
    (∀ k, tokLine tokTable.pats ln b.length b 0 = .err k →
      tokLine tokTable.pats ln (c :: ws ++ b).length (c :: ws ++ b) 0 = .err (k + (c :: ws).length)) := by
  constructor
  · intro tb h
    have h' : tokLine tokTable.pats ln b.length b (0 + (c :: ws).length) =
        .ok (tb.map (Token.shift (c :: ws).length)) := by rw [tokLine_shift, h]; rfl
    obtain ⟨segs, hB, hB2⟩ := tokLine_covers _ _ _ _ _ _ h'
    rw [(covers_blank_prefix hws hb hB).tokLine_eq _ (Nat.le_refl _), hB2]
    rfl
  · intro k h
    have h' : tokLine tokTable.pats ln b.length b (0 + (c :: ws).length) = .err (k + (c :: ws).length) := by
      rw [tokLine_shift, h]; rfl
    exact (stuck_blank_prefix hws hb (tokLine_err_stuck _ _ _ _ _ _ h')).tokLine_eq ln _ (Nat.le_refl _)

/-- `tokLine` form of `covers_append_blank` / `stuck_append_blank`. -/
theorem tokLine_concat_blank (ln : Nat) (a b : List Char) (c : Char) (ta : List Token)
    (ha : tokLine tokTable.pats ln a.length a 0 = .ok ta)
    (hopen : ∀ t ∈ ta, ¬ OpenEnded t.sym)
    (hlast : ∀ y, a.getLast? = some y → isSpaceChar y = false)
    (hc : isSpaceChar c = true) :
    (∀ tb, tokLine tokTable.pats ln (c :: b).length (c :: b) 0 = .ok tb →
      tokLine tokTable.pats ln (a ++ c :: b).length (a ++ c :: b) 0 =
        .ok (ta ++ tb.map (Token.shift a.length))) ∧
    (∀ k, tokLine tokTable.pats ln (c :: b).length (c :: b) 0 = .err k →
      tokLine tokTable.pats ln (a ++ c :: b).length (a ++ c :: b) 0 = .err (k + a.length)) := by
  obtain ⟨segsA, hA, rfl⟩ := tokLine_covers _ _ _ _ _ _ ha
  constructor
  · intro tb hb
    have hb' : tokLine tokTable.pats ln (c :: b).length (c :: b) (0 + a.length) =
        .ok (tb.map (Token.shift a.length)) := by
      rw [tokLine_shift, hb]; rfl
    obtain ⟨segsB, hB, hB2⟩ := tokLine_covers _ _ _ _ _ _ hb'
    have := (covers_append_blank hA hc hopen hlast hB).tokLine_eq _ (Nat.le_refl _)
    rw [this, hB2]
    simp [tokensOf]
  · intro k hb
    have hb' : tokLine tokTable.pats ln (c :: b).length (c :: b) (0 + a.length) = .err (k + a.length) := by
      rw [tokLine_shift, hb]; rfl
    exact (stuck_append_blank hA hc hopen hlast (tokLine_err_stuck _ _ _ _ _ _ hb')).tokLine_eq ln _
      (Nat.le_refl _)

/-! ### Pieces joined by single blanks -/

/-- The pieces, joined by the blank `c`. -/
def joinWith (c : Char) : List (List Char) → List Char
  | [] => []
  | [w] => w
  | w :: w' :: rest => w ++ c :: joinWith c (w' :: rest)

/-- The pieces' own token lists, each shifted to the column where its piece starts. -/
def joinToks : List (List Char × List Token) → List Token
  | [] => []
  | [p] => p.2
  | p :: p' :: rest => p.2 ++ (joinToks (p' :: rest)).map (Token.shift (p.1.length + 1))

theorem joinWith_head (c : Char) (w : List Char) (rest : List (List Char)) (hw : w ≠ []) :
    (joinWith c (w :: rest)).head? = w.head? := by
  cases rest with
  | nil => rfl
  | cons w' rest' => simp only [joinWith]; exact head_append_ne hw

/-- A piece that tokenizes on its own, starts and ends with a non-blank character. -/
def GoodPiece (ln : Nat) (p : List Char × List Token) : Prop :=
  p.1 ≠ [] ∧ (∀ y, p.1.head? = some y → isSpaceChar y = false) ∧
    (∀ y, p.1.getLast? = some y → isSpaceChar y = false) ∧
    tokLine tokTable.pats ln p.1.length p.1 0 = .ok p.2

theorem tokLine_join (ln : Nat) (c : Char) (hc : isSpaceChar c = true) :
    ∀ ps : List (List Char × List Token), (∀ p ∈ ps, GoodPiece ln p) →
      (∀ p ∈ ps.dropLast, ∀ t ∈ p.2, ¬ OpenEnded t.sym) →
      tokLine tokTable.pats ln (joinWith c (ps.map Prod.fst)).length (joinWith c (ps.map Prod.fst)) 0 =
        .ok (joinToks ps) := by
  intro ps
  induction ps with
  | nil => intro _ _; rfl
  | cons p rest ih =>
    intro hg ho
    cases rest with
    | nil => exact (hg p (by simp)).2.2.2
    | cons p' rest' =>
      have hgp := hg p (by simp)
      have hgp' := hg p' (by simp)
      have hrec := ih (fun q hq => hg q (by simp [hq]))
        (fun q hq => ho q (by
          show q ∈ p :: List.dropLast (p' :: rest')
          exact List.mem_cons_of_mem _ hq))
      have hhead : ∀ y, (joinWith c ((p' :: rest').map Prod.fst)).head? = some y → isSpaceChar y = false := by
        intro y hy
        rw [List.map_cons, joinWith_head c _ _ hgp'.1] at hy
        exact hgp'.2.1 y hy
      have h1 := (tokLine_blank_prefix ln (c := c) (ws := []) (by simp [hc]) hhead).1 _ hrec
      have h2 := (tokLine_concat_blank ln p.1 _ c p.2 hgp.2.2.2
        (ho p (by show p ∈ p :: List.dropLast (p' :: rest'); simp)) hgp.2.2.1 hc).1 _ h1
      simp only [List.map_cons, joinWith, joinToks] at h2 ⊢
      refine h2.trans ?_
      simp only [List.map_map, List.length_cons, List.length_nil, Nat.zero_add,
        LineRes.ok.injEq, List.append_cancel_left_eq]
      apply List.map_congr_left
      intro t _
      simp only [Function.comp, Token.shift_shift]
      rw [Nat.add_comm]

end Emboss.Tok
