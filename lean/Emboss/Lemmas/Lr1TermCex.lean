/-
A hand-built witness that `Valid` alone does not give termination of rejected inputs (why
`C08_terminates` has the separate, checked hypothesis `TermOK`).

Grammar `S → a | A c ; A → B A ; B → ε` (A is unproductive).  The certificate's FIRST table is
closed but not least: it puts `c` into FIRST(A).  Then `[B → ., c]` belongs to the closure of
`[A → . B A, c]`, the state reached over `B` reduces `B → ε` on `c` and its goto on `B` is the
state itself: on the input `c` the (validated!) table pushes `B` forever.  The real generator
computes least FIRST sets (FIRST(A) = ∅, no such item), so this table is not an output of
`Grammar.parser()`; it shows what the validator's conditions do not exclude.

symbols: 0 = $, 1 = S', 2 = S, 3 = A, 4 = B, 5 = a, 6 = c
-/
import Emboss.Model.Lr1Valid
import Emboss.Model.Lr1Term
namespace Emboss.Lr1.TermCex

def G : Grammar := ⟨2, [⟨2, [5]⟩, ⟨2, [3, 6]⟩, ⟨3, [4, 3]⟩, ⟨4, []⟩], 1, 0⟩

def A : Automaton where
  prods := [⟨2, [5]⟩, ⟨2, [3, 6]⟩, ⟨3, [4, 3]⟩, ⟨4, []⟩, ⟨1, [2]⟩]
  action := #[some [(5, .shift 4), (6, .reduce 3)], some [(0, .accept)], some [(6, .shift 5)],
    some [(6, .reduce 3)], some [(0, .reduce 0)], some [(0, .reduce 1)], some [(6, .reduce 2)]]
  goto := #[[(2, 1), (3, 2), (4, 3)], [], [], [(3, 6), (4, 3)], [], [], []]
  defaultErrors := []
  strict := false
  eoi := 0

def C : Cert where
  items := #[[⟨4, 0, 0⟩, ⟨0, 0, 0⟩, ⟨1, 0, 0⟩, ⟨2, 0, 6⟩, ⟨3, 0, 6⟩],
    [⟨4, 1, 0⟩], [⟨1, 1, 0⟩], [⟨2, 1, 6⟩, ⟨2, 0, 6⟩, ⟨3, 0, 6⟩], [⟨0, 1, 0⟩], [⟨1, 2, 0⟩], [⟨2, 2, 6⟩]]
  rules := #[⟨2, [5]⟩, ⟨2, [3, 6]⟩, ⟨3, [4, 3]⟩, ⟨4, []⟩, ⟨1, [2]⟩]
  prodsOf := #[[], [4], [0, 1], [2], [3], [], []]
  first := #[[], [5, 6], [5, 6], [6], [], [], []]
  nullable := #[false, false, false, false, true, false, false]
  nt := #[false, true, true, true, true, false, false]

theorem valid : Valid G A C := by decide
theorem notTermOK : ¬ TermOK A := by decide
-- test: 200 steps on the input `c` and still running
theorem loops : run A 200 [⟨6, 0⟩] = .outOfFuel := by decide +kernel

end Emboss.Lr1.TermCex
