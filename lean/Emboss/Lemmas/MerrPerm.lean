/-
Order independence of the table writes of `mark_error`: `putAll` over a permutation of a list
of (slot, code) pairs succeeds iff it does in the original order, and the two resulting tables
are observationally equal (`TableEqv`: same productions, gotos, flags, the same entry for every
(state, symbol), the same default error for every state, the same rows present).
-/
import Emboss.Lemmas.Merr
namespace Emboss.Lr1

/-- what is stored at a slot, as an action -/
def val (A : Automaton) : Slot → Option Action
  | .dflt s => (A.defaultErrors.lookup s).map fun c => .error (some c)
  | .entry s a => A.entry s a

def slotRow : Slot → Option Nat
  | .dflt _ => none
  | .entry s _ => some s

structure TableEqv (A B : Automaton) : Prop where
  prods : A.prods = B.prods
  goto : A.goto = B.goto
  eoi : A.eoi = B.eoi
  strict : A.strict = B.strict
  val : ∀ sl, val A sl = val B sl
  row : ∀ s, (A.row s).isSome = (B.row s).isSome

theorem TableEqv.refl (A : Automaton) : TableEqv A A := ⟨rfl, rfl, rfl, rfl, fun _ => rfl, fun _ => rfl⟩

theorem TableEqv.trans {A B D : Automaton} (h1 : TableEqv A B) (h2 : TableEqv B D) : TableEqv A D :=
  ⟨h1.prods.trans h2.prods, h1.goto.trans h2.goto, h1.eoi.trans h2.eoi, h1.strict.trans h2.strict,
    fun sl => (h1.val sl).trans (h2.val sl), fun s => (h1.row s).trans (h2.row s)⟩

theorem TableEqv.entry {A B : Automaton} (h : TableEqv A B) (s a : Nat) : A.entry s a = B.entry s a :=
  h.val (.entry s a)

theorem TableEqv.dflt {A B : Automaton} (h : TableEqv A B) (s : Nat) :
    A.defaultErrors.lookup s = B.defaultErrors.lookup s := by
  have := h.val (.dflt s)
  simp only [Emboss.Lr1.val] at this
  cases ha : A.defaultErrors.lookup s <;> cases hb : B.defaultErrors.lookup s <;> simp_all

/-- observationally equal tables run alike (up to the order of the expected list) -/
theorem TableEqv.errExt {A B : Automaton} (h : TableEqv A B) : ErrExt A B where
  prods := h.prods.symm
  goto := h.goto.symm
  eoi := h.eoi.symm
  strict := h.strict.symm
  entry := fun s a x hx => by rw [← h.entry]; exact hx
  entryNew := fun s a x hn hx => by rw [← h.entry, hn] at hx; cases hx
  row := fun s hs => by rw [← h.row]; exact hs
  rowStrict := fun _ s hs => by rw [h.row]; exact hs

/-! ### what `put` does, in terms of `val` -/

def StrictOK (A : Automaton) : Slot → Prop
  | .dflt _ => True
  | .entry s _ => A.strict = true → (A.row s).isSome = true

def Free (A : Automaton) (sl : Slot) (c : Nat) : Prop :=
  (val A sl = none ∧ StrictOK A sl) ∨ val A sl = some (.error (some c))

theorem entry_some_row {A : Automaton} {s a : Nat} {x : Action} (h : A.entry s a = some x) :
    (A.row s).isSome = true := by
  unfold Automaton.entry at h
  cases hr : A.row s with
  | none => simp [hr] at h
  | some r => rfl

theorem put_spec {A B : Automaton} {sl : Slot} {c : Nat} (h : put A sl c = some B) :
    Free A sl c ∧ B.prods = A.prods ∧ B.goto = A.goto ∧ B.eoi = A.eoi ∧ B.strict = A.strict ∧
    (∀ sl', val B sl' = if sl' = sl then some (.error (some c)) else val A sl') ∧
    (∀ s, (B.row s).isSome = ((A.row s).isSome || (slotRow sl == some s))) := by
  unfold put at h
  cases sl with
  | dflt s =>
    simp only [] at h
    cases hl : A.defaultErrors.lookup s with
    | some c0 =>
      simp only [hl] at h
      by_cases hc : c0 = c
      · simp only [hc, if_true, Option.some.injEq] at h
        subst h; subst hc
        refine ⟨Or.inr (by simp [val, hl]), rfl, rfl, rfl, rfl, ?_, by simp [slotRow]⟩
        intro sl'
        by_cases he : sl' = .dflt s
        · subst he; simp [val, hl]
        · simp [he]
      · simp [hc] at h
    | none =>
      simp only [hl, Option.some.injEq] at h
      subst h
      refine ⟨Or.inl ⟨by simp [val, hl], trivial⟩, rfl, rfl, rfl, rfl, ?_, by
        intro s'
        show (A.row s').isSome = ((A.row s').isSome || (slotRow (.dflt s) == some s'))
        simp [slotRow]⟩
      intro sl'
      cases sl' with
      | entry s' a' => simp only [val, reduceCtorEq, if_false]; rfl
      | dflt s' =>
        simp only [val, Slot.dflt.injEq]
        rw [lookup_append_single]
        by_cases hs : s' = s
        · subst hs; simp [hl]
        · simp only [hs, if_false]
          cases A.defaultErrors.lookup s' <;> rfl
  | entry s a =>
    simp only [] at h
    cases he : A.entry s a with
    | some x =>
      simp only [he] at h
      cases x with
      | error c0 =>
        simp only [] at h
        by_cases hc : c0 = some c
        · simp only [hc, if_true, Option.some.injEq] at h
          subst h; subst hc
          refine ⟨Or.inr (by simp [val, he]), rfl, rfl, rfl, rfl, ?_, ?_⟩
          · intro sl'
            by_cases hs : sl' = .entry s a
            · subst hs; simp [val, he]
            · simp [hs]
          · intro s'
            by_cases hs : s = s'
            · subst hs; simp [slotRow, entry_some_row he]
            · simp [slotRow, hs]
        · simp [hc] at h
      | shift _ => cases h
      | reduce _ => cases h
      | accept => cases h
    | none =>
      simp only [he] at h
      split at h
      · cases h
      · rename_i hst
        simp only [Option.some.injEq] at h
        subst h
        have hrow : ∀ s', ({ A with action := setEntry A.action s (a, .error (some c)) } : Automaton).row s' =
            if s' = s then some ((A.row s).getD [] ++ [(a, .error (some c))]) else A.row s' := by
          intro s'
          exact row_setEntry A.action s _ s'
        refine ⟨Or.inl ⟨by simp [val, he], ?_⟩, rfl, rfl, rfl, rfl, ?_, ?_⟩
        · intro hs
          simp only [hs, Bool.true_and, Bool.not_eq_true, Option.isNone_eq_false_iff] at hst
          exact hst
        · intro sl'
          cases sl' with
          | dflt s' => simp only [val, reduceCtorEq, if_false]
          | entry s' a' =>
            simp only [val, Slot.entry.injEq]
            unfold Automaton.entry
            rw [hrow s']
            by_cases hs : s' = s
            · subst hs
              simp only [if_true, true_and]
              rw [lookup_append_single]
              have he' : A.entry s' a = none := he
              unfold Automaton.entry at he'
              cases hr : A.row s' with
              | none => simp [List.lookup]
              | some r =>
                rw [hr] at he'
                simp only [Option.getD_some]
                by_cases ha : a' = a
                · subst ha; simp [he']
                · simp only [ha, if_false]
                  cases List.lookup a' r <;> rfl
            · simp only [hs, if_false, false_and]
        · intro s'
          rw [hrow]
          by_cases hs : s' = s
          · subst hs; simp [slotRow]
          · have hs' : ¬ s = s' := fun h => hs h.symm
            simp [hs, slotRow, hs']

theorem put_of_free {A : Automaton} {sl : Slot} {c : Nat} (h : Free A sl c) : ∃ B, put A sl c = some B := by
  apply Option.isSome_iff_exists.mp
  cases sl with
  | dflt s =>
    simp only [Free, val] at h
    cases hl : A.defaultErrors.lookup s with
    | none => simp [put, hl]
    | some c0 =>
      rcases h with ⟨h, _⟩ | h
      · simp [hl] at h
      · simp only [hl, Option.map_some, Option.some.injEq, Action.error.injEq] at h
        subst h
        simp [put, hl]
  | entry s a =>
    simp only [Free, val, StrictOK] at h
    cases he : A.entry s a with
    | none =>
      rcases h with ⟨_, hs⟩ | h
      · by_cases hst : A.strict = true
        · have := hs hst
          cases hr : A.row s with
          | none => rw [hr] at this; cases this
          | some r => simp [put, he, hst, hr]
        · have : A.strict = false := by simpa using hst
          simp [put, he, this]
      · rw [he] at h; cases h
    | some x =>
      rcases h with ⟨h, _⟩ | h
      · rw [he] at h; cases h
      · rw [he] at h; cases h
        simp [put, he]

theorem Free.congr {A A' : Automaton} (h : TableEqv A A') {sl : Slot} {c : Nat} (hf : Free A sl c) :
    Free A' sl c := by
  unfold Free at hf ⊢
  rw [← h.val]
  rcases hf with ⟨h1, h2⟩ | h1
  · refine Or.inl ⟨h1, ?_⟩
    cases sl with
    | dflt _ => trivial
    | entry s a =>
      intro hs
      rw [← h.row]; exact h2 (by rw [h.strict]; exact hs)
  · exact Or.inr h1

theorem put_congr {A A' B : Automaton} (h : TableEqv A A') {sl : Slot} {c : Nat} (hp : put A sl c = some B) :
    ∃ B', put A' sl c = some B' ∧ TableEqv B B' := by
  obtain ⟨hf, p1, p2, p3, p4, p5, p6⟩ := put_spec hp
  obtain ⟨B', hB'⟩ := put_of_free (hf.congr h)
  obtain ⟨_, q1, q2, q3, q4, q5, q6⟩ := put_spec hB'
  refine ⟨B', hB', ⟨by rw [p1, q1, h.prods], by rw [p2, q2, h.goto], by rw [p3, q3, h.eoi],
    by rw [p4, q4, h.strict], fun sl' => by rw [p5, q5, h.val], fun s => by rw [p6, q6, h.row]⟩⟩

theorem putAll_congr : ∀ (ps : List (Slot × Nat)) {A A' B : Automaton}, TableEqv A A' →
    putAll A ps = some B → ∃ B', putAll A' ps = some B' ∧ TableEqv B B'
  | [], A, A', B, h, hp => by
    simp only [putAll, Option.some.injEq] at hp; subst hp; exact ⟨A', rfl, h⟩
  | p :: ps, A, A', B, h, hp => by
    simp only [putAll] at hp
    cases h1 : put A p.1 p.2 with
    | none => simp [h1] at hp
    | some A1 =>
      simp only [h1, Option.bind_some] at hp
      obtain ⟨A1', h1', he⟩ := put_congr h h1
      obtain ⟨B', hB', heB⟩ := putAll_congr ps he hp
      exact ⟨B', by simp [putAll, h1', hB'], heB⟩

/-- two writes commute -/
theorem put_swap {A A1 A2 : Automaton} {p q : Slot × Nat} (h1 : put A q.1 q.2 = some A1)
    (h2 : put A1 p.1 p.2 = some A2) :
    ∃ B1 B2, put A p.1 p.2 = some B1 ∧ put B1 q.1 q.2 = some B2 ∧ TableEqv A2 B2 := by
  obtain ⟨fq, a1, a2, a3, a4, a5, a6⟩ := put_spec h1
  obtain ⟨fp, b1, b2, b3, b4, b5, b6⟩ := put_spec h2
  -- `p` is free in `A` already
  have hrowA : ∀ s, slotRow q.1 = some s → A.strict = true → (A.row s).isSome = true := by
    intro s hs hst
    rcases fq with ⟨_, hso⟩ | hv
    · cases hq : q.1 with
      | dflt _ => rw [hq] at hs; cases hs
      | entry s' a' =>
        rw [hq] at hs hso
        simp only [slotRow, Option.some.injEq] at hs
        subst hs; exact hso hst
    · cases hq : q.1 with
      | dflt _ => rw [hq] at hs; cases hs
      | entry s' a' =>
        rw [hq] at hs hv
        simp only [slotRow, Option.some.injEq] at hs
        subst hs; exact entry_some_row hv
  have fpA : Free A p.1 p.2 := by
    unfold Free at fp ⊢
    rw [a5] at fp
    by_cases hpq : p.1 = q.1
    · simp only [hpq, if_true] at fp
      rcases fp with ⟨h, _⟩ | h
      · cases h
      · simp only [Option.some.injEq, Action.error.injEq] at h
        rw [hpq, ← h]; exact fq
    · simp only [hpq, if_false] at fp
      rcases fp with ⟨h, hso⟩ | h
      · refine Or.inl ⟨h, ?_⟩
        cases hp : p.1 with
        | dflt _ => trivial
        | entry s a =>
          rw [hp] at hso
          intro hst
          have := hso (by rw [a4]; exact hst)
          rw [a6] at this
          cases hrow : (A.row s).isSome with
          | true => rfl
          | false =>
            rw [hrow] at this
            simp only [Bool.false_or, beq_iff_eq] at this
            have h' := hrowA s this hst
            rw [hrow] at h'; cases h'
      · exact Or.inr h
  obtain ⟨B1, hB1⟩ := put_of_free fpA
  obtain ⟨_, c1, c2, c3, c4, c5, c6⟩ := put_spec hB1
  have fqB : Free B1 q.1 q.2 := by
    unfold Free at fq ⊢
    rw [c5]
    by_cases hqp : q.1 = p.1
    · simp only [hqp, if_true]
      -- same slot: the codes agree
      have : val A1 p.1 = some (.error (some q.2)) := by rw [a5, hqp]; simp
      unfold Free at fp
      rw [this] at fp
      rcases fp with ⟨h, _⟩ | h
      · cases h
      · simp only [Option.some.injEq, Action.error.injEq] at h
        exact Or.inr (by rw [h])
    · simp only [hqp, if_false]
      rcases fq with ⟨h, hso⟩ | h
      · refine Or.inl ⟨h, ?_⟩
        cases hq : q.1 with
        | dflt _ => trivial
        | entry s a =>
          rw [hq] at hso
          intro hst
          rw [c6]
          have := hso (by rw [← c4]; exact hst)
          simp [this]
      · exact Or.inr h
  obtain ⟨B2, hB2⟩ := put_of_free fqB
  obtain ⟨_, d1, d2, d3, d4, d5, d6⟩ := put_spec hB2
  refine ⟨B1, B2, hB1, hB2, ⟨by rw [b1, a1, d1, c1], by rw [b2, a2, d2, c2], by rw [b3, a3, d3, c3],
    by rw [b4, a4, d4, c4], ?_, ?_⟩⟩
  · intro sl
    rw [b5, a5, d5, c5]
    by_cases hp : sl = p.1
    · by_cases hq : sl = q.1
      · -- same slot: the codes agree
        have hpq : p.1 = q.1 := hp.symm.trans hq
        have hv : val A1 p.1 = some (.error (some q.2)) := by rw [a5, hpq]; simp
        unfold Free at fp
        rw [hv] at fp
        rcases fp with ⟨h, _⟩ | h
        · cases h
        · simp only [Option.some.injEq, Action.error.injEq] at h
          rw [if_pos hp, if_pos hq, h]
      · rw [if_pos hp, if_neg hq, if_pos hp]
    · by_cases hq : sl = q.1
      · rw [if_neg hp, if_pos hq, if_pos hq]
      · rw [if_neg hp, if_neg hq, if_neg hq, if_neg hp]
  · intro s
    rw [b6, a6, d6, c6]
    cases (A.row s).isSome <;> cases (slotRow q.1 == some s) <;> cases (slotRow p.1 == some s) <;> rfl

/-- **Order independence of the table writes.** -/
theorem putAll_perm {ps ps' : List (Slot × Nat)} (hperm : ps.Perm ps') : ∀ {A A' B : Automaton},
    TableEqv A A' → putAll A ps = some B → ∃ B', putAll A' ps' = some B' ∧ TableEqv B B' := by
  induction hperm with
  | nil =>
    intro A A' B h hp
    simp only [putAll, Option.some.injEq] at hp; subst hp; exact ⟨A', rfl, h⟩
  | cons p _ ih =>
    intro A A' B h hp
    simp only [putAll] at hp
    cases h1 : put A p.1 p.2 with
    | none => simp [h1] at hp
    | some A1 =>
      simp only [h1, Option.bind_some] at hp
      obtain ⟨A1', h1', he⟩ := put_congr h h1
      obtain ⟨B', hB', heB⟩ := ih he hp
      exact ⟨B', by simp [putAll, h1', hB'], heB⟩
  | swap p q l =>
    -- the original list is `q :: p :: l`, the permuted one `p :: q :: l`
    intro A A' B h hp
    simp only [putAll] at hp
    cases h1 : put A q.1 q.2 with
    | none => simp [h1] at hp
    | some A1 =>
      simp only [h1, Option.bind_some] at hp
      cases h2 : put A1 p.1 p.2 with
      | none => simp [h2] at hp
      | some A2 =>
        simp only [h2, Option.bind_some] at hp
        obtain ⟨B1, B2, g1, g2, he⟩ := put_swap h1 h2
        obtain ⟨B1', g1', he1⟩ := put_congr h g1
        obtain ⟨B2', g2', he2⟩ := put_congr he1 g2
        obtain ⟨B', hB', heB⟩ := putAll_congr l (he.trans he2) hp
        exact ⟨B', by simp [putAll, g1', g2', hB'], heB⟩
  | trans _ _ ih1 ih2 =>
    intro A A' B h hp
    obtain ⟨B1, hB1, he1⟩ := ih1 h hp
    obtain ⟨B2, hB2, he2⟩ := ih2 (TableEqv.refl A') hB1
    exact ⟨B2, hB2, he1.trans he2⟩

theorem slotsOf_cons {A : Automaton} {fuel : Nat} {e : ErrExample} {es : List ErrExample}
    {ps : List (Slot × Nat)} (h : slotsOf A fuel (e :: es) = some ps) :
    ∃ sl ps0, slotOf A fuel e = some sl ∧ slotsOf A fuel es = some ps0 ∧ ps = (sl, e.code) :: ps0 := by
  simp only [slotsOf] at h
  cases h1 : slotOf A fuel e with
  | none => simp [h1] at h
  | some sl =>
    cases h2 : slotsOf A fuel es with
    | none => simp [h1, h2] at h
    | some ps0 =>
      simp only [h1, h2, Option.some.injEq] at h
      exact ⟨sl, ps0, rfl, rfl, h.symm⟩

theorem slotsOf_cons_some {A : Automaton} {fuel : Nat} {e : ErrExample} {es : List ErrExample}
    {sl : Slot} {ps0 : List (Slot × Nat)} (h1 : slotOf A fuel e = some sl) (h2 : slotsOf A fuel es = some ps0) :
    slotsOf A fuel (e :: es) = some ((sl, e.code) :: ps0) := by
  simp only [slotsOf, h1, h2]

theorem slotsOf_perm {A : Automaton} {fuel : Nat} {es es' : List ErrExample} (hperm : es.Perm es') :
    ∀ {ps : List (Slot × Nat)}, slotsOf A fuel es = some ps →
      ∃ ps', slotsOf A fuel es' = some ps' ∧ ps.Perm ps' := by
  induction hperm with
  | nil => intro ps h; exact ⟨ps, h, List.Perm.refl _⟩
  | cons e _ ih =>
    intro ps h
    obtain ⟨sl, ps0, h1, h2, rfl⟩ := slotsOf_cons h
    obtain ⟨ps0', h2', hp⟩ := ih h2
    exact ⟨_, slotsOf_cons_some h1 h2', hp.cons _⟩
  | swap e1 e2 l =>
    intro ps h
    obtain ⟨sl2, ps1, g2, h', rfl⟩ := slotsOf_cons h
    obtain ⟨sl1, ps0, g1, h0, rfl⟩ := slotsOf_cons h'
    exact ⟨_, slotsOf_cons_some g1 (slotsOf_cons_some g2 h0), List.Perm.swap _ _ _⟩
  | trans _ _ ih1 ih2 =>
    intro ps h
    obtain ⟨ps1, h1, p1⟩ := ih1 h
    obtain ⟨ps2, h2, p2⟩ := ih2 h1
    exact ⟨ps2, h2, p1.trans p2⟩

/-- the marked table does not depend on the order of the examples -/
theorem markAll_perm {A B : Automaton} {fuel : Nat} {es es' : List ErrExample} (hperm : es.Perm es')
    (h : markAll A fuel es = some B) : ∃ B', markAll A fuel es' = some B' ∧ TableEqv B B' := by
  rw [markAll_eq_putAll fuel es A (ErrExt.refl A)] at h
  cases hs : slotsOf A fuel es with
  | none => simp [hs] at h
  | some ps =>
    simp only [hs, Option.bind_some] at h
    obtain ⟨ps', hs', hp⟩ := slotsOf_perm hperm hs
    obtain ⟨B', hB', he⟩ := putAll_perm hp (TableEqv.refl A) h
    exact ⟨B', by rw [markAll_eq_putAll fuel es' A (ErrExt.refl A), hs']; exact hB', he⟩

end Emboss.Lr1
