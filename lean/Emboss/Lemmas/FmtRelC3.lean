/-
C11 helper lemmas, part 16: the relation on handler results (`VRel`) and one lemma per
handler that takes a comment or rows/blocks: related arguments give related results.
-/
import Emboss.Lemmas.FmtRelC2
import Emboss.Lemmas.FmtTree
namespace Emboss.Fmt

/-- Results of handlers on two trees that differ in trailing blanks of comments. -/
def VRel : Fmt → Fmt → Prop
  | .str a, .str b => a = b
  | .strs a, .strs b => a = b
  | .nil, .nil => True
  | .rows a, .rows b => RowsRel a b
  | .blocks a, .blocks b => BlocksRel a b
  | .sections a, .sections b => All₂ RowsRel a b
  | .inlineBody h f, .inlineBody h' f' => RowsRel h h' ∧ BlocksRel f f'
  | _, _ => False

/-- A comment argument. -/
def CArg (v v' : Fmt) : Prop := ∃ c c', v = .str c ∧ v' = .str c' ∧ CRel c c'

theorem vrel_str {a a' : Fmt} (hk : HasKind a .str) (h : VRel a a') : ∃ s, a = .str s ∧ a' = .str s := by
  obtain ⟨s, rfl⟩ := hk
  cases a' <;> simp only [VRel] at h
  exact ⟨s, rfl, by rw [h]⟩

theorem vrel_strs2 {a a' : Fmt} (hk : HasKind a .strs2) (h : VRel a a') :
    ∃ x y, a = .strs [x, y] ∧ a' = .strs [x, y] := by
  obtain ⟨x, y, rfl⟩ := hk
  cases a' <;> simp only [VRel] at h
  exact ⟨x, y, rfl, by rw [h]⟩

theorem vrel_rows {a a' : Fmt} {l : List Row} (hl : asRows a = some l) (h : VRel a a') :
    ∃ l', asRows a' = some l' ∧ RowsRel l l' := by
  cases a <;> cases a' <;> simp only [VRel] at h <;> simp only [asRows] at hl <;>
    first
    | (cases hl; exact ⟨_, rfl, h⟩)
    | (cases hl; exact ⟨[], rfl, All₂.nil⟩)
    | cases hl

theorem vrel_blocks {a a' : Fmt} {l : List Block} (hl : asBlocks a = some l) (h : VRel a a') :
    ∃ l', asBlocks a' = some l' ∧ BlocksRel l l' := by
  cases a <;> cases a' <;> simp only [VRel] at h <;> simp only [asBlocks] at hl <;>
    first
    | (cases hl; exact ⟨_, rfl, h⟩)
    | (cases hl; exact ⟨[], rfl, All₂.nil⟩)
    | cases hl

theorem vrel_sections {a a' : Fmt} {l : List (List Row)} (hl : asSections a = some l) (h : VRel a a') :
    ∃ l', asSections a' = some l' ∧ All₂ RowsRel l l' := by
  cases a <;> cases a' <;> simp only [VRel] at h <;> simp only [asSections] at hl <;>
    first
    | (cases hl; exact ⟨_, rfl, h⟩)
    | (cases hl; exact ⟨[], rfl, All₂.nil⟩)
    | cases hl

theorem CRel.pre (p : Str) {c c' : Str} (h : CRel c c') : CRel (p ++ c) (p ++ c') :=
  ⟨rstrip_append_congr p h.1, by
    simp only [List.append_eq_nil_iff]
    exact ⟨fun ⟨a, b⟩ => ⟨a, h.2.1 b⟩, fun ⟨a, b⟩ => ⟨a, h.2.2 b⟩⟩⟩

theorem CRel.isEmpty_eq {c c' : Str} (h : CRel c c') : c.isEmpty = c'.isEmpty := by
  have := h.2
  cases c <;> cases c' <;> simp_all

theorem concatWith_two_rel (j x : Str) {c c' : Str} (h : CRel c c') :
    CRel (concatWith j [x, c]) (concatWith j [x, c']) := by
  unfold concatWith
  have he := h.isEmpty_eq
  simp only [List.filter_cons, List.filter_nil, ← he]
  cases hx : x.isEmpty <;> cases hc : c.isEmpty <;>
    simp only [Bool.not_true, Bool.not_false, Bool.false_eq_true, if_false, if_true, joinWith]
  · exact h.pre _
  · exact CRel.refl _
  · exact h
  · exact CRel.refl _

theorem plainRow_rel (n : RowName) {c c' : Str} (h : CRel c c') :
    RowRel { name := n, columns := [c] } { name := n, columns := [c'] } := ⟨rfl, rfl, h⟩

/-! ### handlers that build rows -/

theorem hDocLine_rel {d c c' : Str} {e e' : Fmt} {le le' : List Row} (hc : CRel c c')
    (he : asRows e = some le) (he' : asRows e' = some le') (hr : RowsRel le le') {v : Fmt}
    (hv : hDocLine [.str d, .str c, e] = some v) :
    ∃ v', hDocLine [.str d, .str c', e'] = some v' ∧ VRel v v' := by
  have hem := hc.isEmpty_eq
  simp only [hDocLine, asStr, he, Option.pure_def, Option.bind_eq_bind, Option.bind_some] at hv
  split at hv
  · rename_i hce
    cases hv
    refine ⟨_, by simp only [hDocLine, asStr, he', Option.pure_def, Option.bind_eq_bind, Option.bind_some,
      ← hem, hce, if_true]; rfl, ?_⟩
    exact All₂.cons (RowRel.refl _) hr
  · cases hv

theorem hImportLine_rel {a b c d x x' : Str} {e e' : Fmt} {le le' : List Row} (hc : CRel x x')
    (he : asRows e = some le) (he' : asRows e' = some le') (hr : RowsRel le le') :
    ∃ v v', hImportLine [.str a, .str b, .str c, .str d, .str x, e] = some v ∧
      hImportLine [.str a, .str b, .str c, .str d, .str x', e'] = some v' ∧ VRel v v' := by
  refine ⟨_, _, by simp [hImportLine, asStr, he]; rfl, by simp [hImportLine, asStr, he']; rfl, ?_⟩
  exact All₂.cons ⟨rfl, rfl, by
    show CRel _ _
    repeat (first | exact hc | apply CRel.pre)⟩ hr

theorem hAttributeLine_rel {a x x' : Str} {e e' : Fmt} {le le' : List Row} (hc : CRel x x')
    (he : asRows e = some le) (he' : asRows e' = some le') (hr : RowsRel le le') :
    ∃ v v', hAttributeLine [.str a, .str x, e] = some v ∧
      hAttributeLine [.str a, .str x', e'] = some v' ∧ VRel v v' := by
  refine ⟨_, _, by simp [hAttributeLine, asStr, he]; rfl, by simp [hAttributeLine, asStr, he']; rfl, ?_⟩
  exact All₂.cons ⟨rfl, rfl, by
    show CRel _ _
    repeat (first | exact hc | apply CRel.pre)⟩ hr

theorem hStructureType_rel {a b c d x x' : Str} {e e' f f' : Fmt} {le le' lf lf' : List Row} (hc : CRel x x')
    (he : asRows e = some le) (he' : asRows e' = some le') (hr : RowsRel le le')
    (hf : asRows f = some lf) (hf' : asRows f' = some lf') (hrf : RowsRel lf lf') :
    ∃ v v', hStructureType [.str a, .str b, .str c, .str d, .str x, e, f] = some v ∧
      hStructureType [.str a, .str b, .str c, .str d, .str x', e', f'] = some v' ∧ VRel v v' := by
  refine ⟨_, _, by simp [hStructureType, asStr, he, hf]; rfl, by simp [hStructureType, asStr, he', hf']; rfl, ?_⟩
  exact All₂.cons ⟨rfl, rfl, by
    show CRel _ _
    repeat (first | exact hc | apply CRel.pre)⟩ (hr.append hrf)

theorem hType_rel {a b c x x' : Str} {e e' f f' : Fmt} {le le' lf lf' : List Row} (hc : CRel x x')
    (he : asRows e = some le) (he' : asRows e' = some le') (hr : RowsRel le le')
    (hf : asRows f = some lf) (hf' : asRows f' = some lf') (hrf : RowsRel lf lf') :
    ∃ v v', hType [.str a, .str b, .str c, .str x, e, f] = some v ∧
      hType [.str a, .str b, .str c, .str x', e', f'] = some v' ∧ VRel v v' := by
  refine ⟨_, _, by simp [hType, asStr, he, hf]; rfl, by simp [hType, asStr, he', hf']; rfl, ?_⟩
  exact All₂.cons ⟨rfl, rfl, by
    show CRel _ _
    repeat (first | exact hc | apply CRel.pre)⟩ (hr.append hrf)

theorem hCommentLine_rel {x x' : Str} {e e' : Fmt} (hc : CRel x x') :
    ∃ v v', hCommentLine [.str x, e] = some v ∧ hCommentLine [.str x', e'] = some v' ∧ VRel v v' := by
  by_cases hx : x = []
  · have hx' : x' = [] := hc.2.1 hx
    subst hx; subst hx'
    exact ⟨_, _, rfl, rfl, All₂.cons (RowRel.refl _) All₂.nil⟩
  · have hx' : x' ≠ [] := fun h => hx (hc.2.2 h)
    refine ⟨_, _, by simp [hCommentLine, asStr, hx]; rfl, by simp [hCommentLine, asStr, hx']; rfl, ?_⟩
    exact All₂.cons (plainRow_rel _ hc) All₂.nil

/-! ### handlers that build blocks -/

theorem hVirtualField_rel {a b c d x x' : Str} {e e' f f' : Fmt} {le le' lf lf' : List Row} (hc : CRel x x')
    (he : asRows e = some le) (he' : asRows e' = some le') (hr : RowsRel le le')
    (hf : asRows f = some lf) (hf' : asRows f' = some lf') (hrf : RowsRel lf lf') :
    ∃ v v', hVirtualField [.str a, .str b, .str c, .str d, .str x, e, f] = some v ∧
      hVirtualField [.str a, .str b, .str c, .str d, .str x', e', f'] = some v' ∧ VRel v v' := by
  refine ⟨_, _, by simp [hVirtualField, asStr, he, hf]; rfl, by simp [hVirtualField, asStr, he', hf']; rfl, ?_⟩
  exact All₂.cons ⟨All₂.nil, ⟨rfl, rfl, concatWith_two_rel _ _ hc⟩, hr.append hrf, rfl⟩ All₂.nil

theorem hUnconditionalField_rel {l0 l1 a b c d g x x' : Str} {e e' f f' : Fmt} {le le' lf lf' : List Row}
    (hc : CRel x x')
    (he : asRows e = some le) (he' : asRows e' = some le') (hr : RowsRel le le')
    (hf : asRows f = some lf) (hf' : asRows f' = some lf') (hrf : RowsRel lf lf') :
    ∃ v v', hUnconditionalField [.strs [l0, l1], .str a, .str b, .str c, .str d, .str g, .str x, e, f] = some v ∧
      hUnconditionalField [.strs [l0, l1], .str a, .str b, .str c, .str d, .str g, .str x', e', f'] = some v' ∧
      VRel v v' := by
  refine ⟨_, _, by simp [hUnconditionalField, asStr, asStrs, he, hf]; rfl,
    by simp [hUnconditionalField, asStr, asStrs, he', hf']; rfl, ?_⟩
  exact All₂.cons ⟨All₂.nil, ⟨rfl, rfl, ⟨rfl, rfl, rfl, rfl, rfl, rfl, hc⟩⟩, hr.append hrf, rfl⟩ All₂.nil

theorem hInlineType_rel {l0 l1 a b c d x x' : Str} {e e' f f' : Fmt} {le le' lf lf' : List Row}
    (hc : CRel x x')
    (he : asRows e = some le) (he' : asRows e' = some le') (hr : RowsRel le le')
    (hf : asRows f = some lf) (hf' : asRows f' = some lf') (hrf : RowsRel lf lf') :
    ∃ v v', hInlineType [.strs [l0, l1], .str a, .str b, .str c, .str d, .str x, e, f] = some v ∧
      hInlineType [.strs [l0, l1], .str a, .str b, .str c, .str d, .str x', e', f'] = some v' ∧
      VRel v v' := by
  refine ⟨_, _, by simp [hInlineType, asStr, asStrs, he, hf]; rfl,
    by simp [hInlineType, asStr, asStrs, he', hf']; rfl, ?_⟩
  exact All₂.cons ⟨All₂.nil, ⟨rfl, rfl, ⟨rfl, rfl, rfl, rfl, rfl, rfl, hc⟩⟩, hr.append hrf, rfl⟩ All₂.nil

theorem hInlineBits_rel {l0 l1 a b x x' : Str} {e e' : Fmt} {le le' hl hl' : List Row} {fb fb' : List Block}
    (hc : CRel x x')
    (he : asRows e = some le) (he' : asRows e' = some le') (hr : RowsRel le le')
    (hh : RowsRel hl hl') (hfb : BlocksRel fb fb') :
    ∃ v v', hInlineBits [.strs [l0, l1], .str a, .str b, .str x, e, .inlineBody hl fb] = some v ∧
      hInlineBits [.strs [l0, l1], .str a, .str b, .str x', e', .inlineBody hl' fb'] = some v' ∧
      VRel v v' := by
  refine ⟨_, _, by simp [hInlineBits, asStr, asStrs, he]; rfl,
    by simp [hInlineBits, asStr, asStrs, he']; rfl, ?_⟩
  exact All₂.cons ⟨All₂.nil, ⟨rfl, rfl, ⟨rfl, rfl, rfl, rfl, rfl, rfl, hc⟩⟩, hr.append hh, rfl⟩ hfb

theorem hEnumValue_rel {a b c d g x x' : Str} {e e' f f' : Fmt} {le le' lf lf' : List Row}
    (hc : CRel x x')
    (he : asRows e = some le) (he' : asRows e' = some le') (hr : RowsRel le le')
    (hf : asRows f = some lf) (hf' : asRows f' = some lf') (hrf : RowsRel lf lf') :
    ∃ v v', hEnumValue [.str a, .str b, .str c, .str d, .str g, .str x, e, f] = some v ∧
      hEnumValue [.str a, .str b, .str c, .str d, .str g, .str x', e', f'] = some v' ∧ VRel v v' := by
  refine ⟨_, _, by simp [hEnumValue, asStr, he, hf]; rfl, by simp [hEnumValue, asStr, he', hf']; rfl, ?_⟩
  exact All₂.cons ⟨All₂.nil, ⟨rfl, rfl, ⟨rfl, rfl, rfl, rfl, rfl, hc⟩⟩, hr.append hrf, rfl⟩ All₂.nil

theorem hConditionalField_rel {a b c x x' : Str} {e e' i i' g g' d d' : Fmt} {le le' : List Row}
    {lb lb' : List Block} (hc : CRel x x')
    (he : asRows e = some le) (he' : asRows e' = some le') (hr : RowsRel le le')
    (hg : asBlocks g = some lb) (hg' : asBlocks g' = some lb') (hrb : BlocksRel lb lb') {v : Fmt}
    (hv : hConditionalField [.str a, .str b, .str c, .str x, e, i, g, d] = some v) :
    ∃ v', hConditionalField [.str a, .str b, .str c, .str x', e', i', g', d'] = some v' ∧ VRel v v' := by
  simp only [hConditionalField, asStr, he, hg, Option.pure_def, Option.bind_eq_bind, Option.bind_some] at hv
  have hib := hrb.indentBlocks
  generalize hi1 : indentBlocks lb = ib at hv hib
  generalize hi2 : indentBlocks lb' = ib' at hib
  cases hib with
  | nil => cases hv
  | @cons b0 b0' rest rest' hb0 hrest =>
    cases hv
    refine ⟨_, by simp only [hConditionalField, asStr, he', hg', Option.pure_def, Option.bind_eq_bind,
      Option.bind_some, hi2]; rfl, ?_⟩
    refine All₂.cons ⟨All₂.cons ⟨rfl, rfl, ?_⟩ (hr.append hb0.pre), hb0.header, hb0.body, hb0.nc⟩ hrest
    show CRel _ _
    repeat (first | exact hc | apply CRel.pre)

end Emboss.Fmt
