/-
C11 helper lemmas, part 12: the kernel evaluation of the separability certificate over the
regenerated (interned) registry and the regenerated tables of Generated/FmtGlue.lean
(a file of its own: re-elaborated whenever one of the generated files changes).
-/
import Emboss.Lemmas.FmtSeparable
import Emboss.Generated.FmtGlue
namespace Emboss.Fmt
open Emboss.Generated.FmtTable Emboss.Generated.FmtGlue

/-- The index of the terminal `"-"` in `symbols`. -/
def minusN : Nat := symbols.idxOf minusSym

/-- The interned audited list. -/
def allowedN : List (Nat × Nat) := allowedGluedN.filterMap id

theorem minusN_ok : symbols[minusN]? = some minusSym := by decide +kernel

theorem allowed_aligned : alignedOK symbols allowedGlued allowedGluedN = true := by decide +kernel

theorem allowed_small : ∀ q ∈ allowedN, q.2 < 65536 := by decide +kernel

theorem glue_cert_ok :
    glueCertOK minusN (resolvedN formattersN) nsN fsN lsN leadN allowedN = true := by decide +kernel

theorem render_separable_nonvacuous :
    (minusN, symbols.idxOf "Number") ∈ pairsFrom minusN (resolvedN formattersN) nsN fsN lsN leadN ∧
    (minusN, minusN) ∉ pairsFrom minusN (resolvedN formattersN) nsN fsN lsN leadN := by decide +kernel

/-- Statement and meaning: `C11_render_separable` in Properties/C11.lean. -/
theorem render_separable :
    symbols[minusN]? = some minusSym ∧
    nullableClosed ((resolvedN formattersN).map (fun e => (e.1, e.2.1))) nsN = true ∧
    edgeClosed ((resolvedN formattersN).map (fun e => (e.1, e.2.1))) nsN false fsN = true ∧
    edgeClosed ((resolvedN formattersN).map (fun e => (e.1, e.2.1))) nsN true lsN = true ∧
    leadSound (resolvedN formattersN) nsN leadN = true ∧
    ∀ p ∈ pairsFrom minusN (resolvedN formattersN) nsN fsN lsN leadN,
      ∃ a b, symbols[p.1]? = some a ∧ symbols[p.2]? = some b ∧ (a, b) ∈ allowedGlued := by
  have h := glue_cert_ok
  simp only [glueCertOK, Bool.and_eq_true, List.all_eq_true, decide_eq_true_eq] at h
  obtain ⟨⟨⟨⟨h1, h2⟩, h3⟩, h4⟩, h5⟩ := h
  refine ⟨minusN_ok, h1, h2, h3, h4, fun p hp => ?_⟩
  obtain ⟨hlt, hc⟩ := h5 p hp
  have hm : p ∈ allowedN := pairCode_mem allowedN allowed_small p hlt hc
  have hm' : some p ∈ allowedGluedN := by
    simp only [allowedN, List.mem_filterMap, id] at hm
    obtain ⟨x, hx, rfl⟩ := hm
    exact hx
  exact alignedOK_sound symbols allowedGlued _ allowed_aligned p hm'

end Emboss.Fmt
