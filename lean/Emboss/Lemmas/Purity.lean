/-
C17 — invariants of the cache/counter state machine.
-/
import Emboss.Model.Purity
namespace Emboss.Purity

/-! ### one `parse_module_text` call -/

theorem step_cases (P : Parser) (σ : St) (t f : String) :
    (∃ m, cacheGet σ.cache (t, f) = some m ∧ step P σ t f = (σ, .ok m)) ∨
    (cacheGet σ.cache (t, f) = none ∧ ∃ d, P t f = .error d ∧ step P σ t f = (σ, .error d)) ∨
    (cacheGet σ.cache (t, f) = none ∧ ∃ sk, P t f = .ok sk ∧
      step P σ t f = (⟨((t, f), ⟨t, f, σ.counter, sk⟩) :: σ.cache, σ.counter + sk.anon⟩,
                      .ok ⟨t, f, σ.counter, sk⟩)) := by
  unfold step
  cases h : cacheGet σ.cache (t, f) with
  | some m => exact .inl ⟨m, rfl, rfl⟩
  | none =>
    cases hp : P t f with
    | error d => exact .inr (.inl ⟨rfl, d, rfl, rfl⟩)
    | ok sk => exact .inr (.inr ⟨rfl, sk, rfl, rfl⟩)

/-- `σ'` knows everything `σ` knows (entries are never changed or evicted). -/
def Ext (σ σ' : St) : Prop := ∀ k m, cacheGet σ.cache k = some m → cacheGet σ'.cache k = some m

theorem Ext.refl (σ : St) : Ext σ σ := fun _ _ h => h
theorem Ext.trans {a b c : St} (h₁ : Ext a b) (h₂ : Ext b c) : Ext a c :=
  fun k m h => h₂ k m (h₁ k m h)

/-- Every cached IR is what parsing its key gives. -/
def Genuine (P : Parser) (σ : St) : Prop :=
  ∀ t f m, cacheGet σ.cache (t, f) = some m → P t f = .ok m.skel ∧ m.text = t ∧ m.file = f

theorem genuine_init (P : Parser) : Genuine P St.init := by
  intro t f m h; simp [St.init, cacheGet] at h

theorem cacheGet_cons (k k' : Key) (m : ModIR) (c : List (Key × ModIR)) :
    cacheGet ((k', m) :: c) k = if k = k' then some m else cacheGet c k := rfl

theorem step_ext (P : Parser) (σ σ' : St) (t f : String) (r) (h : step P σ t f = (σ', r)) :
    Ext σ σ' := by
  rcases step_cases P σ t f with ⟨m, _, hs⟩ | ⟨_, d, _, hs⟩ | ⟨hn, sk, _, hs⟩
  · rw [hs] at h; cases h; exact Ext.refl _
  · rw [hs] at h; cases h; exact Ext.refl _
  · rw [hs] at h; cases h
    intro k m hk
    simp only [cacheGet_cons]
    split
    · rename_i heq; subst heq; rw [hn] at hk; cases hk
    · exact hk

theorem step_genuine (P : Parser) (σ σ' : St) (t f : String) (r) (hg : Genuine P σ)
    (h : step P σ t f = (σ', r)) : Genuine P σ' := by
  rcases step_cases P σ t f with ⟨m, _, hs⟩ | ⟨_, d, _, hs⟩ | ⟨hn, sk, hp, hs⟩
  · rw [hs] at h; cases h; exact hg
  · rw [hs] at h; cases h; exact hg
  · rw [hs] at h; cases h
    intro t' f' m hk
    simp only [cacheGet_cons] at hk
    split at hk
    · rename_i heq; cases heq; cases hk; exact ⟨hp, rfl, rfl⟩
    · exact hg t' f' m hk

/-- Once a call has been made, the same call in any later (genuine) state is a pure
lookup with the same answer. -/
theorem step_stable (P : Parser) (σ σ' : St) (t f : String) (r) (h : step P σ t f = (σ', r))
    (σ'' : St) (hg : Genuine P σ'') (he : Ext σ' σ'') : step P σ'' t f = (σ'', r) := by
  rcases step_cases P σ t f with ⟨m, hm, hs⟩ | ⟨_, d, hp, hs⟩ | ⟨hn, sk, hp, hs⟩
  · rw [hs] at h; cases h
    have := he _ _ hm
    rcases step_cases P σ'' t f with ⟨m', hm', hs'⟩ | ⟨hn', _⟩ | ⟨hn', _⟩
    · rw [this] at hm'; cases hm'; exact hs'
    · rw [this] at hn'; cases hn'
    · rw [this] at hn'; cases hn'
  · rw [hs] at h; cases h
    rcases step_cases P σ'' t f with ⟨m', hm', _⟩ | ⟨_, d', hp', hs'⟩ | ⟨_, sk', hp', _⟩
    · have := (hg t f m' hm').1; rw [hp] at this; cases this
    · rw [hp] at hp'; cases hp'; exact hs'
    · rw [hp] at hp'; cases hp'
  · rw [hs] at h; cases h
    have : cacheGet σ''.cache (t, f) = some ⟨t, f, σ.counter, sk⟩ := by
      apply he; simp [cacheGet_cons]
    rcases step_cases P σ'' t f with ⟨m', hm', hs'⟩ | ⟨hn', _⟩ | ⟨hn', _⟩
    · rw [this] at hm'; cases hm'; exact hs'
    · rw [this] at hn'; cases hn'
    · rw [this] at hn'; cases hn'

/-! ### a whole compilation -/

theorem compileAux_succ_cons (P : Parser) (read : Reader) (fuel : Nat) (σ : St) (f : String)
    (q seen : List String) (acc : List ModIR) :
    compileAux P read (fuel + 1) σ (f :: q) seen acc =
      match read f with
      | .error e => (σ, .error ("Unable to read file. " ++ f ++ ": " ++ e))
      | .ok text =>
        match step P σ text f with
        | (σ', .error d) => (σ', .error d)
        | (σ', .ok m) =>
          compileAux P read fuel σ' (enqueue q seen m.skel.imports).1
            (enqueue q seen m.skel.imports).2 (acc ++ [m]) := by
  rw [compileAux]
  cases read f with
  | error e => rfl
  | ok text =>
    simp only
    rcases hs : step P σ text f with ⟨σ', r⟩
    cases r <;> rfl

theorem compileAux_stable (P : Parser) (read : Reader) :
    ∀ (fuel : Nat) (σ : St) (q seen : List String) (acc : List ModIR) (σ₁ : St) (o : Outcome),
      Genuine P σ → compileAux P read fuel σ q seen acc = (σ₁, o) →
      Ext σ σ₁ ∧ Genuine P σ₁ ∧
        ∀ σ₂, Genuine P σ₂ → Ext σ₁ σ₂ → compileAux P read fuel σ₂ q seen acc = (σ₂, o) := by
  intro fuel
  induction fuel with
  | zero =>
    intro σ q seen acc σ₁ o hg h
    simp only [compileAux] at h; cases h
    exact ⟨Ext.refl _, hg, fun σ₂ _ _ => by simp [compileAux]⟩
  | succ fuel ih =>
    intro σ q seen acc σ₁ o hg h
    cases q with
    | nil =>
      simp only [compileAux] at h; cases h
      exact ⟨Ext.refl _, hg, fun σ₂ _ _ => by simp [compileAux]⟩
    | cons f q =>
      rw [compileAux_succ_cons] at h
      cases hr : read f with
      | error e =>
        rw [hr] at h; simp only at h; cases h
        refine ⟨Ext.refl _, hg, fun σ₂ _ _ => ?_⟩
        rw [compileAux_succ_cons, hr]
      | ok text =>
        rw [hr] at h; simp only at h
        rcases hs : step P σ text f with ⟨σ', r⟩
        rw [hs] at h
        have hext := step_ext P σ σ' text f r hs
        have hgen := step_genuine P σ σ' text f r hg hs
        cases r with
        | error d =>
          simp only at h; cases h
          refine ⟨hext, hgen, fun σ₂ hg₂ he₂ => ?_⟩
          rw [compileAux_succ_cons, hr]; simp only
          rw [step_stable P σ _ text f _ hs σ₂ hg₂ he₂]
        | ok m =>
          simp only at h
          obtain ⟨he₁, hg₁, hst⟩ := ih σ' _ _ _ σ₁ o hgen h
          refine ⟨hext.trans he₁, hg₁, fun σ₂ hg₂ he₂ => ?_⟩
          rw [compileAux_succ_cons, hr]; simp only
          rw [step_stable P σ σ' text f _ hs σ₂ hg₂ (he₁.trans he₂)]
          simp only
          exact hst σ₂ hg₂ he₂

theorem compile_genuine (P : Parser) (read : Reader) (fuel : Nat) (σ : St) (main : String)
    (hg : Genuine P σ) : Genuine P (compile P read fuel σ main).1 := by
  rcases h : compile P read fuel σ main with ⟨σ₁, o⟩
  exact (compileAux_stable P read fuel σ _ _ _ σ₁ o hg h).2.1

theorem runHistory_genuine (P : Parser) : ∀ (hist : List Job) (σ : St), Genuine P σ →
    Genuine P (runHistory P σ hist)
  | [], _, hg => hg
  | j :: r, σ, hg => runHistory_genuine P r _ (compile_genuine P j.read j.fuel σ j.main hg)

/-! ### two compilations of the same files from different process states -/

/-- Same module up to the numbering of its anonymous names. -/
def Similar (m₀ m : ModIR) : Prop := m.text = m₀.text ∧ m.file = m₀.file ∧ m.skel = m₀.skel

/-- Pointwise relation of two lists of the same length. -/
inductive Pairs (R : α → β → Prop) : List α → List β → Prop
  | nil : Pairs R [] []
  | cons {a b l₁ l₂} : R a b → Pairs R l₁ l₂ → Pairs R (a :: l₁) (b :: l₂)

inductive SimilarO : Outcome → Outcome → Prop
  | ok {ms₀ ms} : Pairs Similar ms₀ ms → SimilarO (.ok ms₀) (.ok ms)
  | error (d) : SimilarO (.error d) (.error d)
  | outOfFuel : SimilarO .outOfFuel .outOfFuel

theorem pairs_snoc {R : α → β → Prop} {l₁ : List α} {l₂ : List β} {a : α} {b : β}
    (h : Pairs R l₁ l₂) (hab : R a b) : Pairs R (l₁ ++ [a]) (l₂ ++ [b]) := by
  induction h with
  | nil => exact .cons hab .nil
  | cons h _ ih => exact .cons h ih

theorem step_similar (P : Parser) (σa σb : St) (t f : String) (ha : Genuine P σa) (hb : Genuine P σb) :
    (∃ d, (step P σa t f).2 = .error d ∧ (step P σb t f).2 = .error d) ∨
    (∃ ma mb, (step P σa t f).2 = .ok ma ∧ (step P σb t f).2 = .ok mb ∧ Similar ma mb) := by
  -- in every state the answer is determined by `P t f`
  have key : ∀ σ, Genuine P σ →
      (∃ d, P t f = .error d ∧ (step P σ t f).2 = .error d) ∨
      (∃ m, P t f = .ok m.skel ∧ m.text = t ∧ m.file = f ∧ (step P σ t f).2 = .ok m) := by
    intro σ hg
    rcases step_cases P σ t f with ⟨m, hm, hs⟩ | ⟨_, d, hp, hs⟩ | ⟨_, sk, hp, hs⟩
    · obtain ⟨h1, h2, h3⟩ := hg t f m hm
      exact .inr ⟨m, h1, h2, h3, by rw [hs]⟩
    · exact .inl ⟨d, hp, by rw [hs]⟩
    · exact .inr ⟨_, hp, rfl, rfl, by rw [hs]⟩
  rcases key σa ha with ⟨d, hp, hsa⟩ | ⟨ma, hp, ht, hf, hsa⟩
  · rcases key σb hb with ⟨d', hp', hsb⟩ | ⟨mb, hp', _, _, _⟩
    · rw [hp] at hp'; cases hp'; exact .inl ⟨d, hsa, hsb⟩
    · rw [hp] at hp'; cases hp'
  · rcases key σb hb with ⟨d', hp', _⟩ | ⟨mb, hp', ht', hf', hsb⟩
    · rw [hp] at hp'; cases hp'
    · rw [hp] at hp'
      have : ma.skel = mb.skel := by injection hp'
      exact .inr ⟨ma, mb, hsa, hsb, by rw [ht, ht'], by rw [hf, hf'], this.symm⟩

theorem compileAux_similar (P : Parser) (read : Reader) :
    ∀ (fuel : Nat) (σa σb : St) (q seen : List String) (acca accb : List ModIR),
      Genuine P σa → Genuine P σb → Pairs Similar acca accb →
      SimilarO (compileAux P read fuel σa q seen acca).2 (compileAux P read fuel σb q seen accb).2 := by
  intro fuel
  induction fuel with
  | zero => intro σa σb q seen acca accb _ _ _; simp only [compileAux]; exact .outOfFuel
  | succ fuel ih =>
    intro σa σb q seen acca accb ha hb hacc
    cases q with
    | nil => simp only [compileAux]; exact .ok hacc
    | cons f q =>
      rw [compileAux_succ_cons, compileAux_succ_cons]
      cases hr : read f with
      | error e => exact .error _
      | ok text =>
        simp only
        rcases hsa : step P σa text f with ⟨σa', ra⟩
        rcases hsb : step P σb text f with ⟨σb', rb⟩
        have hga := step_genuine P σa σa' text f ra ha hsa
        have hgb := step_genuine P σb σb' text f rb hb hsb
        rcases step_similar P σa σb text f ha hb with ⟨d, h1, h2⟩ | ⟨ma, mb, h1, h2, hsim⟩
        · rw [hsa] at h1; rw [hsb] at h2; simp only at h1 h2; subst h1; subst h2
          exact .error d
        · rw [hsa] at h1; rw [hsb] at h2; simp only at h1 h2; subst h1; subst h2
          simp only
          rw [hsim.2.2]
          exact ih σa' σb' _ _ _ _ hga hgb (pairs_snoc hacc hsim)

/-! ### numbering: ranges of anonymous names never overlap -/

def InCache (σ : St) (m : ModIR) : Prop := cacheGet σ.cache (m.text, m.file) = some m

/-- Every cached module's names lie below the counter and the ranges of different
entries are disjoint. -/
def Numbered (σ : St) : Prop :=
  (∀ k m, cacheGet σ.cache k = some m → m.base + m.skel.anon ≤ σ.counter) ∧
  (∀ k₁ k₂ m₁ m₂, cacheGet σ.cache k₁ = some m₁ → cacheGet σ.cache k₂ = some m₂ → k₁ ≠ k₂ →
      m₁.base + m₁.skel.anon ≤ m₂.base ∨ m₂.base + m₂.skel.anon ≤ m₁.base)

theorem numbered_init : Numbered St.init := by
  constructor <;> intros <;> simp_all [St.init, cacheGet]

theorem step_numbered (P : Parser) (σ σ' : St) (t f : String) (r) (hn : Numbered σ)
    (h : step P σ t f = (σ', r)) : Numbered σ' := by
  rcases step_cases P σ t f with ⟨m, _, hs⟩ | ⟨_, d, _, hs⟩ | ⟨hnone, sk, hp, hs⟩
  · rw [hs] at h; cases h; exact hn
  · rw [hs] at h; cases h; exact hn
  · rw [hs] at h; cases h
    obtain ⟨hb, hd⟩ := hn
    constructor
    · intro k m hk
      simp only [cacheGet_cons] at hk
      split at hk
      · cases hk; simp
      · have := hb k m hk; simp only; omega
    · intro k₁ k₂ m₁ m₂ h₁ h₂ hne
      simp only [cacheGet_cons] at h₁ h₂
      split at h₁ <;> split at h₂
      · rename_i e₁ e₂; exact absurd (e₁.trans e₂.symm) hne
      · cases h₁; have := hb k₂ m₂ h₂; right; simpa using this
      · cases h₂; have := hb k₁ m₁ h₁; left; simpa using this
      · exact hd k₁ k₂ m₁ m₂ h₁ h₂ hne

theorem step_inCache (P : Parser) (σ σ' : St) (t f : String) (m : ModIR) (hg : Genuine P σ)
    (h : step P σ t f = (σ', .ok m)) : InCache σ' m := by
  rcases step_cases P σ t f with ⟨m', hm, hs⟩ | ⟨_, d, _, hs⟩ | ⟨_, sk, _, hs⟩
  · rw [hs] at h; cases h
    obtain ⟨_, h2, h3⟩ := hg t f m hm
    unfold InCache; rw [h2, h3]; exact hm
  · rw [hs] at h; cases h
  · rw [hs] at h; cases h
    simp [InCache, cacheGet_cons]

theorem compileAux_numbered (P : Parser) (read : Reader) :
    ∀ (fuel : Nat) (σ : St) (q seen : List String) (acc : List ModIR) (σ₁ : St) (o : Outcome),
      Genuine P σ → Numbered σ → (∀ m ∈ acc, InCache σ m) →
      compileAux P read fuel σ q seen acc = (σ₁, o) →
      Numbered σ₁ ∧ ∀ ms, o = .ok ms → ∀ m ∈ ms, InCache σ₁ m := by
  intro fuel
  induction fuel with
  | zero =>
    intro σ q seen acc σ₁ o _ hn _ h
    simp only [compileAux] at h; cases h
    exact ⟨hn, fun ms h => by cases h⟩
  | succ fuel ih =>
    intro σ q seen acc σ₁ o hg hn hacc h
    cases q with
    | nil =>
      simp only [compileAux] at h; cases h
      exact ⟨hn, fun ms h => by cases h; exact hacc⟩
    | cons f q =>
      rw [compileAux_succ_cons] at h
      cases hr : read f with
      | error e =>
        rw [hr] at h; simp only at h; cases h
        exact ⟨hn, fun ms h => by cases h⟩
      | ok text =>
        rw [hr] at h; simp only at h
        rcases hs : step P σ text f with ⟨σ', r⟩
        rw [hs] at h
        have hext := step_ext P σ σ' text f r hs
        have hgen := step_genuine P σ σ' text f r hg hs
        have hnum := step_numbered P σ σ' text f r hn hs
        cases r with
        | error d =>
          simp only at h; cases h
          exact ⟨hnum, fun ms h => by cases h⟩
        | ok m =>
          simp only at h
          refine ih σ' _ _ _ σ₁ o hgen hnum ?_ h
          intro m' hm'
          rcases List.mem_append.1 hm' with hm' | hm'
          · exact hext _ _ (hacc m' hm')
          · simp only [List.mem_singleton] at hm'; subst hm'
            exact step_inCache P σ σ' text f _ hg hs

theorem compile_numbered (P : Parser) (read : Reader) (fuel : Nat) (σ : St) (main : String)
    (hg : Genuine P σ) (hn : Numbered σ) : Numbered (compile P read fuel σ main).1 := by
  rcases h : compile P read fuel σ main with ⟨σ₁, o⟩
  exact (compileAux_numbered P read fuel σ _ _ _ σ₁ o hg hn (by simp) h).1

theorem runHistory_numbered (P : Parser) : ∀ (hist : List Job) (σ : St), Genuine P σ → Numbered σ →
    Numbered (runHistory P σ hist)
  | [], _, _, hn => hn
  | j :: r, σ, hg, hn =>
    runHistory_numbered P r _ (compile_genuine P j.read j.fuel σ j.main hg)
      (compile_numbered P j.read j.fuel σ j.main hg hn)

/-- Holes of a skeleton are below its `anon` count. -/
theorem hole_lt_anon : ∀ (body : List Tok) (i : Nat), Tok.hole i ∈ body → i < holesBound body
  | [], _, h => by cases h
  | .lit _ :: r, i, h => by
    simp only [List.mem_cons] at h
    rcases h with h | h
    · cases h
    · simpa [holesBound] using hole_lt_anon r i h
  | .hole j :: r, i, h => by
    simp only [List.mem_cons] at h
    rcases h with h | h
    · cases h; simp only [holesBound]; omega
    · have := hole_lt_anon r i h; simp only [holesBound]; omega

end Emboss.Purity
