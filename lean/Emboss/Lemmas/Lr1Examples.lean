/- Helper lemmas about the regenerated example grammars (used by Properties/C08, C09). -/
import Emboss.Lemmas.Lr1Error
import Emboss.Generated.Lr1Examples
import Emboss.Model.Lr1Bisim
namespace Emboss.Lr1
open Examples

theorem leaf_of_terminal_root {G : Grammar} {t : Tree} (ht : ParseTree G t)
    (h : G.isNT t.root = false) : ∃ tok, t = .leaf tok := by
  cases ht with
  | leaf tok _ => exact ⟨tok, rfl⟩
  | node p cs hp _ _ =>
    exfalso
    have : G.isNT p.lhs = true := Grammar.isNT_iff.mpr ⟨p, List.mem_append_left _ hp, rfl⟩
    simp only [Tree.root] at h
    rw [this] at h; cases h

theorem map_root_pair {cs : List Tree} {x y : Nat} (h : cs.map Tree.root = [x, y]) :
    ∃ c1 c2, cs = [c1, c2] ∧ c1.root = x ∧ c2.root = y := by
  match cs, h with
  | [c1, c2], h =>
    simp only [List.map_cons, List.map_nil, List.cons.injEq, and_true] at h
    exact ⟨c1, c2, rfl, h.1, h.2⟩
  | [], h => simp at h
  | [_], h => simp at h
  | _ :: _ :: _ :: _, h => simp at h

/-- In `S → a B | a c ; B → b B` the nonterminal `B` (code 4) derives no terminal string. -/
theorem f10_no_tree_for_B : ∀ {t : Tree}, ParseTree f10G t → t.root ≠ 4 := by
  intro t ht
  induction ht with
  | leaf tok hnt =>
    intro h
    simp only [Tree.root] at h
    rw [h] at hnt
    revert hnt; decide
  | node p cs hp hcs hroots ih =>
    intro h
    simp only [Tree.root] at h
    simp only [f10G, List.mem_cons, List.mem_nil_iff, or_false] at hp
    rcases hp with rfl | rfl | rfl
    · cases h
    · cases h
    · obtain ⟨c1, c2, rfl, _, h2⟩ := map_root_pair hroots
      exact ih c2 (by simp) h2


/-- parse trees only depend on the production *set* -/
theorem ParseTree.congr {G G' : Grammar} (hs : G'.start = G.start) (hp : G'.startPrime = G.startPrime)
    (hr : SameRules G.prods G'.prods) : ∀ {t : Tree}, ParseTree G t → ParseTree G' t := by
  have hnt : ∀ x, G'.isNT x = G.isNT x := by
    intro x
    rw [Bool.eq_iff_iff, Grammar.isNT_iff, Grammar.isNT_iff]
    simp only [Grammar.all, Grammar.seed, hs, hp, List.mem_append, List.mem_singleton]
    constructor
    · rintro ⟨p, h | h, rfl⟩
      · exact ⟨p, Or.inl (hr.2 p h), rfl⟩
      · exact ⟨p, Or.inr h, rfl⟩
    · rintro ⟨p, h | h, rfl⟩
      · exact ⟨p, Or.inl (hr.1 p h), rfl⟩
      · exact ⟨p, Or.inr h, rfl⟩
  intro t ht
  induction ht with
  | leaf tok h => exact ParseTree.leaf tok (by rw [hnt]; exact h)
  | node p cs hp' _ hroots ih => exact ParseTree.node p cs (hr.1 p hp') ih hroots

end Emboss.Lr1
