import Emboss.Lemmas.TarjanVisit
namespace Emboss.Deps

/-- The state after popping the component `seg ++ [v]`, with the new component list. -/
def popped (t : TState) (old : List Nat) (cs : List (List Nat)) : TState :=
  { t with stack := old, onStack := old, comps := cs }

/-- Facts available when the loop of `v` is finished and `lowlink[v] == index[v]`. -/
structure PopFacts (g : Graph) (v : Nat) (t : TState) (seg old : List Nat) : Prop where
  gt : ∀ y ∈ seg, ix t v < ix t y
  lt : ∀ y ∈ old, ix t y < ix t v
  vseg : v ∉ seg
  vold : v ∉ old
  disj : ∀ y ∈ seg, y ∉ old
  nodup : (seg ++ [v]).Nodup
  toV : ∀ b ∈ seg, Reach g b v
  fromV : ∀ b ∈ seg, Reach g v b
  edges : ∀ w ∈ seg ++ [v], ∀ d, Edge g w d → indexed t d = true ∧ d ∉ old
  scc : ∀ b, b ∈ seg ++ [v] ↔ Mutual g v b

theorem popFacts {g : Graph} {v : Nat} {s0 t : TState} {seg : List Nat}
    (hL : LoopInv g v s0 t (fun d => Edge g v d)) (hstk : t.stack = seg ++ v :: s0.stack)
    (hseg : ∀ w ∈ seg, indexed s0 w = false ∧ w ≠ v ∧ Reach g v w ∧ lw t w < ix t w ∧
      lw t v ≤ lw t w ∧ ∀ y ∈ t.stack, Edge g w y → lw t v ≤ ix t y)
    (heq : lw t v = ix t v) : PopFacts g v t seg s0.stack := by
  have hsorted := hL.inv.sorted
  rw [hstk] at hsorted
  obtain ⟨hs1, hs2, hs3⟩ := List.pairwise_append.mp hsorted
  obtain ⟨hs4, hs5⟩ := List.pairwise_cons.mp hs2
  have gt : ∀ y ∈ seg, ix t v < ix t y := fun y hy => hs3 y hy v (by simp)
  have lt : ∀ y ∈ s0.stack, ix t y < ix t v := fun y hy => hs4 y hy
  have vseg : v ∉ seg := fun h => (hseg v h).2.1 rfl
  have vold : v ∉ s0.stack := fun h => by have := lt v h; omega
  have disj : ∀ y ∈ seg, y ∉ s0.stack := fun y hy h => by
    have := gt y hy; have := lt y h; omega
  have nodup : (seg ++ [v]).Nodup := by
    rw [List.nodup_append]
    refine ⟨?_, by simp, ?_⟩
    · refine hs1.imp ?_
      intro a b hab e; subst e; omega
    · intro a ha b hb e
      simp only [List.mem_singleton] at hb
      subst hb; subst e; exact vseg ha
  have toV : ∀ n, ∀ b ∈ seg, ix t b ≤ n → Reach g b v := by
    intro n
    induction n with
    | zero =>
      intro b hb hle
      have := gt b hb; omega
    | succ n ih =>
      intro b hb hle
      obtain ⟨_, _, _, b4, b5, _⟩ := hseg b hb
      obtain ⟨_, y, hy1, hy2, hy3⟩ := hL.inv.low b (by simp [hstk, hb])
      rw [hstk] at hy1
      simp only [List.mem_append, List.mem_cons] at hy1
      rcases hy1 with hy1 | rfl | hy1
      · exact hy3.trans (ih y hy1 (by omega))
      · exact hy3
      · have := lt y hy1; omega
  have edges : ∀ w ∈ seg ++ [v], ∀ d, Edge g w d → indexed t d = true ∧ d ∉ s0.stack := by
    intro w hw d he
    simp only [List.mem_append, List.mem_singleton] at hw
    rcases hw with hw | rfl
    · obtain ⟨b1, b2, _, _, _, b6⟩ := hseg w hw
      have hwt : indexed t w = true := hL.inv.stkIdx w (by simp [hstk, hw])
      refine ⟨hL.succIdx w d hwt b1 b2 he, fun hd => ?_⟩
      have := b6 d (by simp [hstk, hd]) he
      have := lt d hd
      omega
    · obtain ⟨c1, c2⟩ := hL.proc d he
      refine ⟨c1, fun hd => ?_⟩
      have := c2 (by simp [hstk, hd])
      have := lt d hd
      omega
  have fromV : ∀ b ∈ seg, Reach g v b := fun b hb => (hseg b hb).2.2.1
  refine { gt := gt, lt := lt, vseg := vseg, vold := vold, disj := disj, nodup := nodup,
           toV := fun b hb => toV _ b hb (Nat.le_refl _), fromV := fromV, edges := edges, scc := ?_ }
  intro b
  constructor
  · intro hb
    simp only [List.mem_append, List.mem_singleton] at hb
    rcases hb with hb | rfl
    · exact ⟨fromV b hb, toV _ b hb (Nat.le_refl _)⟩
    · exact Mutual.refl _ _
  · intro ⟨h1, h2⟩
    -- everything reachable from v is in the component or already done
    have hcl : ∀ a b, (a ∈ seg ++ [v] ∨ (indexed t a = true ∧ a ∉ t.stack)) → Edge g a b →
        (b ∈ seg ++ [v] ∨ (indexed t b = true ∧ b ∉ t.stack)) := by
      intro a b ha he
      rcases ha with ha | ha
      · obtain ⟨e1, e2⟩ := edges a ha b he
        by_cases hb : b ∈ seg ++ [v]
        · exact .inl hb
        · refine .inr ⟨e1, ?_⟩
          rw [hstk]
          simp only [List.mem_append, List.mem_singleton, not_or] at hb
          simp only [List.mem_append, List.mem_cons, not_or]
          exact ⟨hb.1, hb.2, e2⟩
      · exact .inr (hL.inv.doneClosed a b ha.1 ha.2 he)
    have hb := Reach.closed (S := fun a => a ∈ seg ++ [v] ∨ (indexed t a = true ∧ a ∉ t.stack))
      hcl h1 (.inl (by simp))
    rcases hb with hb | hb
    · exact hb
    · have hv := Reach.closed (S := fun a => indexed t a = true ∧ a ∉ t.stack)
        (fun a b ha he => hL.inv.doneClosed a b ha.1 ha.2 he) h2 hb
      exact absurd hL.v_mem hv.2

end Emboss.Deps
