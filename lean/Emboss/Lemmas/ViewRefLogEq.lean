/-
C20: the generated `Equals` is the recursive logical equality `LogEq` of the reference semantics
(structures whose fields are scalars or structures / `bits`, nested at any depth).
-/
import Emboss.Lemmas.ViewRefArray
namespace Emboss.ViewRef
open Emboss.View

/-- the view a structure-typed accessor returns when it returns real storage -/
def realSub (o : Oracle) (m : Module) (w : SView) (f : Field) (start size : Expr) (name : String)
    (bits : Nat) (args : Exprs) (bo : ByteOrder) : Option SView :=
  match m.find name, evalArgs (envOf o w none) args, physStorage o w f start size with
  | some sd', some vs, some st =>
    some { sd := sd', params := some vs, st := st.adaptFor w.sd.unit sd'.unit bo bits }
  | _, _, _ => none

theorem realSub_subView {o : Oracle} {m : Module} {w : SView} {f : Field} {start size : Expr}
    {name : String} {bits : Nat} {args : Exprs} {bo : ByteOrder} {w' : SView}
    (h : realSub o m w f start size name bits args bo = some w') :
    subView o m w f start size name bits args bo = some w' := by
  unfold realSub at h
  unfold subView
  cases hfind : m.find name with
  | none => rw [hfind] at h; cases h
  | some sd' =>
    rw [hfind] at h
    cases ha : evalArgs (envOf o w none) args with
    | none => rw [ha] at h; cases h
    | some vs =>
      cases hp : physStorage o w f start size with
      | none => rw [ha, hp] at h; cases h
      | some st => rw [ha, hp] at h; exact h

/-- the struct clause of the generated `Equals` in terms of the two accessor results -/
theorem fieldEquals_struct (o : Oracle) (m : Module) (eqv : SView → SView → Bool) (wa wb : SView)
    (f : Field) {start size : Expr} {name : String} {bits : Nat} {args : Exprs} {bo : ByteOrder}
    (hk : f.kind = .phys start size (.struct name bits args) bo) :
    fieldEquals o m eqv wa wb f =
      match hasField o wa f, hasField o wb f with
      | some ha, some hb =>
        ha == hb && (!ha ||
          (match realSub o m wa f start size name bits args bo,
                 realSub o m wb f start size name bits args bo with
           | some wa', some wb' => eqv wa' wb'
           | _, _ => false))
      | _, _ => false := by
  simp only [fieldEquals, hk, realSub, typeEquals]
  have hka : argsKnown (envOf o wa none) (.struct name bits args) =
      (evalArgs (envOf o wa none) args).isSome := rfl
  have hkb : argsKnown (envOf o wb none) (.struct name bits args) =
      (evalArgs (envOf o wb none) args).isSome := rfl
  generalize argsKnown (envOf o wa none) (.struct name bits args) = ka at hka ⊢
  generalize argsKnown (envOf o wb none) (.struct name bits args) = kb at hkb ⊢
  generalize hasField o wa f = ha
  generalize hasField o wb f = hb
  generalize physStorage o wa f start size = pa
  generalize physStorage o wb f start size = pb
  generalize evalArgs (envOf o wa none) args = ea at hka ⊢
  generalize evalArgs (envOf o wb none) args = eb at hkb ⊢
  generalize m.find name = fd
  subst hka hkb
  cases ha <;> cases hb <;> cases pa <;> cases pb <;> cases ea <;> cases eb <;> cases fd <;> simp

/-- soundness: the accessor's view is the view R assigns to the field -/
theorem realSub_sound {m : Module} {P : StructDef → Prop} (hm : Closed m P) {o : Oracle} {w : SView}
    (hP : P w.sd) (hwf : viewWF w = true) (hfacts : FactsOf m o w)
    {x : String} {f : Field} (hf : w.sd.field x = some f)
    {start size : Expr} {name : String} {bits : Nat} {args : Exprs} {bo : ByteOrder}
    (hk : f.kind = .phys start size (.struct name bits args) bo) {w' : SView}
    (h : realSub o m w f start size name bits args bo = some w') :
    SubViewR m w x w' ∧ viewWF w' = true ∧ m.find name = some w'.sd ∧ P w'.sd := by
  have href := hm.ref _ hP
  have hff := ref_of_field href hf
  unfold refField at hff
  rw [hk] at hff
  simp only [Bool.and_eq_true] at hff
  obtain ⟨_, ⟨⟨hfstart, hfsize⟩, hfargs⟩, hchild⟩ := hff
  unfold realSub at h
  cases hfind : m.find name with
  | none => rw [hfind] at h; cases h
  | some sd' =>
    rw [hfind] at h hchild
    simp only at hchild
    cases hargs : evalArgs (envOf o w none) args with
    | none => rw [hargs] at h; cases h
    | some vs =>
      cases hst : physStorage o w f start size with
      | none => rw [hargs, hst] at h; cases h
      | some st =>
        rw [hargs, hst] at h
        simp only [Option.some.injEq] at h
        obtain ⟨off, s, hhas, hsize, hstart, hs0, hoff0, hsteq⟩ := physStorage_some hst
        have hlit : ∀ zl, size = .const (.int zl) → zl.toNat = s.toNat := by
          intro zl hzl; subst hzl
          have := evalInt_some hsize
          simp only [eval, Option.some.injEq, Val.int.injEq] at this
          rw [this]
        obtain ⟨hwin, hwf'⟩ := window_bridge hwf hchild bo off.toNat s.toNat hlit (some vs)
        rw [hsteq, hwin] at h
        subst h
        refine ⟨?_, hwf', rfl, hm.step _ hP x f hf _ _ _ _ _ _ _ hk hfind⟩
        refine SubViewR.mk (s := off) (z := s) (envOf o w none) hf hk hfind hfacts.1 hfacts.2
          (fun _ _ h => h) rfl ?_ ?_ hoff0 hs0 ?_
        · rw [evalR_eq_eval _ _ hfstart]; exact evalInt_some hstart
        · rw [evalR_eq_eval _ _ hfsize]; exact evalInt_some hsize
        · rw [evalArgsR_eq _ _ hfargs]; exact hargs

/-- completeness: the view R assigns to a present field is the accessor's view -/
theorem realSub_complete (m : Module) {P : StructDef → Prop} (hm : Closed m P) (hwfm : moduleWF m = true)
    (n : Nat) (w : SView) (hP : P w.sd) (hwf : viewWF w = true) {x : String} {f : Field}
    (hf : w.sd.field x = some f) {start size : Expr} {name : String} {bits : Nat} {args : Exprs}
    {bo : ByteOrder} (hk : f.kind = .phys start size (.struct name bits args) bo)
    (hn : need m (n + 1) w.sd [x] = true) (hpres : RFact m w (.pres [x] true)) {w' : SView}
    (h : SubViewR m w x w') :
    realSub (G m n) m w f start size name bits args bo = some w' := by
  have href := hm.ref _ hP
  cases h with
  | mk ρ hf' hk' hfind hr hh hp hl hs hz hs0 hz0 hargs =>
    rename_i f' start' size' name' bits' args' bo' sd' s z vs
    rw [hf] at hf'; cases hf'
    rw [hk] at hk'; cases hk'
    have hff := ref_of_field href hf
    unfold refField at hff
    rw [hk] at hff
    simp only [Bool.and_eq_true] at hff
    obtain ⟨_, ⟨⟨hfstart, hfsize⟩, hfargs⟩, hchild⟩ := hff
    rw [hfind] at hchild
    simp only at hchild
    have hrefs := need_refs hf hn
    rw [evalR_eq_eval _ _ hfstart] at hs
    rw [evalR_eq_eval _ _ hfsize] at hz
    rw [evalArgsR_eq _ _ hfargs] at hargs
    have hle := fun refs hn' => env_le_of_facts m hm hwfm n w hP hwf ρ refs hr hh hp hl hn'
    have hs' := eval_le_on start (hle _
      (fun r hr' => hrefs r (by
        simp only [fieldRefs, hk, List.mem_append]; exact Or.inr (Or.inl (Or.inl hr'))))) _ hs
    have hz' := eval_le_on size (hle _
      (fun r hr' => hrefs r (by
        simp only [fieldRefs, hk, List.mem_append]; exact Or.inr (Or.inl (Or.inr hr'))))) _ hz
    have hargs' := evalArgs_le_on args vs (hle _
      (fun r hr' => hrefs r (by
        simp only [fieldRefs, hk, ptypeRefs, List.mem_append]; exact Or.inr (Or.inr hr')))) hargs
    have hhas := presence_complete m hm hwfm n w hP hwf hf hpres hn
    have hst := physStorage_of hhas (evalInt_of_eval hz') (evalInt_of_eval hs') hz0 hs0
    have hlit : ∀ zl, size = .const (.int zl) → zl.toNat = z.toNat := by
      intro zl hzl; subst hzl
      simp only [eval, Option.some.injEq, Val.int.injEq] at hz
      rw [hz]
    obtain ⟨hwin, _⟩ := window_bridge hwf hchild bo s.toNat z.toNat hlit (some vs)
    simp only [realSub, hfind, hargs', hst, hwin]

theorem paramsAgree_iff (wa wb : SView) :
    (wa.sd.params.isEmpty ||
      (match wa.params, wb.params with
       | some pa, some pb => pa == pb
       | none, none => true
       | _, _ => false)) = true ↔ ParamsAgree wa wb := by
  unfold ParamsAgree
  simp only [Bool.or_eq_true, List.isEmpty_iff]
  constructor
  · rintro (h | h)
    · exact Or.inl h
    · right
      cases ha : wa.params <;> cases hb : wb.params <;> simp [ha, hb] at h ⊢
      exact h
  · rintro (h | h)
    · exact Or.inl h
    · right
      rw [h]
      cases wb.params <;> simp

/-- the scalar clause of the generated `Equals` is R's "same presence, and if present the same
value" -/
theorem scalarClause_iff (m : Module) {P : StructDef → Prop} (hm : Closed m P) (hwfm : moduleWF m = true)
    (n : Nat) (wa wb : SView) (hsd : wb.sd = wa.sd) (hP : P wa.sd)
    (hwa : viewWF wa = true) (hwb : viewWF wb = true) {f : Field}
    (hf : wa.sd.field f.name = some f) {start size : Expr} {k : ScalarKind} {bits : Nat}
    {req : Option Expr} {bo : ByteOrder} (hk : f.kind = .phys start size (.scalar k bits req) bo)
    (hn : need m (n + 1) wa.sd [f.name] = true) (eqv : SView → SView → Bool) :
    fieldEquals (G m n) m eqv wa wb f = true ↔
      ∃ c, RFact m wa (.pres [f.name] c) ∧ RFact m wb (.pres [f.name] c) ∧
        (c = true → ∃ v, RFact m wa (.val [f.name] v) ∧ RFact m wb (.val [f.name] v)) := by
  have hPb : P wb.sd := by rw [hsd]; exact hP
  have href := hm.ref _ hP
  have hrefb := hm.ref _ hPb
  have hnb : need m (n + 1) wb.sd [f.name] = true := by rw [hsd]; exact hn
  rw [fieldEquals_scalar m n wa wb hsd _ hf hk]
  constructor
  · intro hfe
    cases hA : (G m (n + 1)).has wa [f.name] with
    | none => rw [hA] at hfe; simp at hfe
    | some ha =>
      cases hB : (G m (n + 1)).has wb [f.name] with
      | none => rw [hA, hB] at hfe; simp at hfe
      | some hb =>
        rw [hA, hB] at hfe
        simp only [Bool.and_eq_true, beq_iff_eq, Bool.or_eq_true, Bool.not_eq_true'] at hfe
        obtain ⟨hab, hval⟩ := hfe
        subst hab
        refine ⟨ha, (G_sound m hm (n + 1) wa hP hwa).2 _ _ hA, (G_sound m hm (n + 1) wb hPb hwb).2 _ _ hB, ?_⟩
        intro hc
        subst hc
        rcases hval with hval | hval
        · cases hval
        · cases hRA : (G m (n + 1)).read wa [f.name] with
          | none => rw [hRA] at hval; simp at hval
          | some x =>
            cases hRB : (G m (n + 1)).read wb [f.name] with
            | none => rw [hRA, hRB] at hval; simp at hval
            | some y =>
              rw [hRA, hRB] at hval
              simp only [beq_iff_eq] at hval
              subst hval
              exact ⟨x, (G_sound m hm (n + 1) wa hP hwa).1 _ _ hRA,
                (G_sound m hm (n + 1) wb hPb hwb).1 _ _ hRB⟩
  · intro ⟨c, fa, fb, hv⟩
    have hA := G_complete m hm hwfm (n + 1) wa _ fa hP hwa hn
    have hB := G_complete m hm hwfm (n + 1) wb _ fb hPb hwb hnb
    rw [hA, hB]
    cases c with
    | false => simp
    | true =>
      obtain ⟨v, va, vb⟩ := hv rfl
      have hRA := G_complete m hm hwfm (n + 1) wa _ va hP hwa hn
      have hRB := G_complete m hm hwfm (n + 1) wb _ vb hPb hwb hnb
      rw [hRA, hRB]
      simp

/-- the clause of the generated `Equals` for a field of structure / `bits` type: same presence,
and if present the two views R assigns to the field are related by whatever `Equals` of the
inner type decides -/
theorem structClause_iff (m : Module) {P : StructDef → Prop} (hm : Closed m P) (hwfm : moduleWF m = true)
    (n : Nat) (wa wb : SView) (hsd : wb.sd = wa.sd) (hP : P wa.sd)
    (hwa : viewWF wa = true) (hwb : viewWF wb = true) {f : Field}
    (hf : wa.sd.field f.name = some f) {start size : Expr} {name : String} {bits : Nat} {args : Exprs}
    {bo : ByteOrder} (hk : f.kind = .phys start size (.struct name bits args) bo)
    (hn : need m (n + 1) wa.sd [f.name] = true) (eqv : SView → SView → Bool)
    (Q : SView → SView → Prop)
    (ih : ∀ wa' wb', P wa'.sd → wb'.sd = wa'.sd → viewWF wa' = true → viewWF wb' = true →
      (eqv wa' wb' = true ↔ Q wa' wb')) :
    fieldEquals (G m n) m eqv wa wb f = true ↔
      ∃ c, RFact m wa (.pres [f.name] c) ∧ RFact m wb (.pres [f.name] c) ∧
        (c = true → ∃ wa' wb', SubViewR m wa f.name wa' ∧ SubViewR m wb f.name wb' ∧ Q wa' wb') := by
  have hPb : P wb.sd := by rw [hsd]; exact hP
  have href := hm.ref _ hP
  have hrefb := hm.ref _ hPb
  have hnb : need m (n + 1) wb.sd [f.name] = true := by rw [hsd]; exact hn
  have hfb : wb.sd.field f.name = some f := by rw [hsd]; exact hf
  have FA := G_sound m hm n wa hP hwa
  have FB := G_sound m hm n wb hPb hwb
  -- what the accessor results are related by, once both are real
  have hsubs : ∀ wa' wb', realSub (G m n) m wa f start size name bits args bo = some wa' →
      realSub (G m n) m wb f start size name bits args bo = some wb' →
      SubViewR m wa f.name wa' ∧ SubViewR m wb f.name wb' ∧ (eqv wa' wb' = true ↔ Q wa' wb') := by
    intro wa' wb' ha hb
    obtain ⟨sa, wfa, fda, pa⟩ := realSub_sound hm hP hwa FA hf hk ha
    obtain ⟨sb, wfb, fdb, _⟩ := realSub_sound hm hPb hwb FB hfb hk hb
    have hsd' : wb'.sd = wa'.sd := by
      rw [fda] at fdb
      exact (Option.some.inj fdb).symm
    exact ⟨sa, sb, ih wa' wb' pa hsd' wfa wfb⟩
  rw [fieldEquals_struct _ _ _ _ _ _ hk]
  constructor
  · intro hfe
    cases hA : hasField (G m n) wa f with
    | none => rw [hA] at hfe; simp at hfe
    | some ha =>
      cases hB : hasField (G m n) wb f with
      | none => rw [hA, hB] at hfe; simp at hfe
      | some hb =>
        rw [hA, hB] at hfe
        simp only [Bool.and_eq_true, beq_iff_eq, Bool.or_eq_true, Bool.not_eq_true'] at hfe
        obtain ⟨hab, hval⟩ := hfe
        subst hab
        refine ⟨ha, pres_sound href FA hf hA, pres_sound hrefb FB hfb hB, ?_⟩
        intro hc
        subst hc
        rcases hval with hval | hval
        · cases hval
        · cases hRA : realSub (G m n) m wa f start size name bits args bo with
          | none => rw [hRA] at hval; simp at hval
          | some wa' =>
            cases hRB : realSub (G m n) m wb f start size name bits args bo with
            | none => rw [hRA, hRB] at hval; simp at hval
            | some wb' =>
              rw [hRA, hRB] at hval
              simp only at hval
              obtain ⟨sa, sb, hiff⟩ := hsubs wa' wb' hRA hRB
              exact ⟨wa', wb', sa, sb, hiff.mp hval⟩
  · intro ⟨c, fa, fb, hv⟩
    have hA := presence_complete m hm hwfm n wa hP hwa hf fa hn
    have hB := presence_complete m hm hwfm n wb hPb hwb hfb fb hnb
    rw [hA, hB]
    cases c with
    | false => simp
    | true =>
      obtain ⟨wa', wb', sa, sb, hQ⟩ := hv rfl
      have hRA := realSub_complete m hm hwfm n wa hP hwa hf hk hn fa sa
      have hRB := realSub_complete m hm hwfm n wb hPb hwb hfb hk hnb fb sb
      obtain ⟨_, _, hiff⟩ := hsubs wa' wb' hRA hRB
      rw [hRA, hRB]
      simp [hiff.mpr hQ]

/-- side conditions of `viewEquals_iff_logEq`, for a family `P` of structures closed under "type
of a field" (`Closed`): the decidable per-structure hypotheses of the refinement, plus unique
field names, no array fields, and fuel covering every field.  Instances: all structures of a
module (`ModOK.ofModule`), or the structures reachable from one structure. -/
structure ModOK (m : Module) (n : Nat) (P : StructDef → Prop) : Prop where
  closed : Closed m P
  wf : moduleWF m = true
  uniq : ∀ sd, P sd → namesUnique sd
  noarr : ∀ sd, P sd → noArrayFields sd = true
  fuel : ∀ sd, P sd → ∀ f ∈ sd.fields, need m (n + 1) sd [f.name] = true

/-- **`Equals` is recursive logical equality.** -/
theorem viewEquals_iff_logEq (m : Module) (n : Nat) {P : StructDef → Prop} (h : ModOK m n P) :
    ∀ (k : Nat) (wa wb : SView), P wa.sd → wb.sd = wa.sd → viewWF wa = true →
      viewWF wb = true → (viewEquals (G m n) m k wa wb = true ↔ LogEq m k wa wb)
  | 0, wa, wb, _, _, _, _ => by simp [viewEquals, LogEq]
  | k + 1, wa, wb, hP, hsd, hwa, hwb => by
    have ih := viewEquals_iff_logEq m n h k
    simp only [viewEquals, LogEq, Bool.and_eq_true, List.all_eq_true]
    refine and_congr ?_ (forall_congr' (fun f => forall_congr' (fun hfm => ?_)))
    · unfold ParamsAgree
      simp only [Bool.or_eq_true, List.isEmpty_iff]
      refine or_congr Iff.rfl ?_
      cases wa.params <;> cases wb.params <;> simp
    have hf := h.uniq _ hP f hfm
    have hn := h.fuel _ hP f hfm
    cases hk : f.kind with
    | alias t => simp [fieldEquals, hk, isPhys]
    | virt v r => simp [fieldEquals, hk, isPhys]
    | phys start size ty bo =>
      have hphys : isPhys f = true := by simp [isPhys, hk]
      simp only [hphys, forall_const]
      cases ty with
      | array el es =>
        have := List.all_eq_true.mp (h.noarr _ hP) f hfm
        rw [hk] at this
        cases this
      | scalar kk bits req =>
        exact scalarClause_iff m h.closed h.wf n wa wb hsd hP hwa hwb hf hk hn _
      | struct name bits args =>
        exact structClause_iff m h.closed h.wf n wa wb hsd hP hwa hwb hf hk hn _ _ ih

end Emboss.ViewRef
