/-
Symmetry of the per-type and per-field clauses of the generated `Equals` (helper lemmas for C20).
-/
import Emboss.Model.ViewObs
namespace Emboss.View

theorem typeEquals_symm (o : Oracle) (m : Module) (eqView : SView → SView → Bool)
    (hsym : ∀ a b : SView, a.sd = b.sd → eqView a b = eqView b a) (wa wb : SView) (bo : ByteOrder) :
    ∀ (ty : PType) (sa sb : Storage),
      typeEquals o m eqView wa wb bo ty sa sb = typeEquals o m eqView wb wa bo ty sb sa
  | .scalar k bits req, sa, sb => by
    simp only [typeEquals]
    cases leafRead o wa k bits req (sa.adaptFor wa.sd.unit 1 bo bits) <;>
      cases leafRead o wb k bits req (sb.adaptFor wb.sd.unit 1 bo bits) <;>
      first | rfl | exact BEq.comm
  | .struct name bits args, sa, sb => by
    simp only [typeEquals]
    cases m.find name with
    | none => rfl
    | some sd =>
      cases evalArgs (envOf o wa none) args <;> cases evalArgs (envOf o wb none) args <;>
        first | rfl | exact hsym _ _ rfl
  | .array elem es, sa, sb => by
    simp only [typeEquals]
    have hf : (fun i => typeEquals o m eqView wa wb bo elem (sa.sub (es * i) es) (sb.sub (es * i) es)) =
        (fun i => typeEquals o m eqView wb wa bo elem (sb.sub (es * i) es) (sa.sub (es * i) es)) := by
      funext i
      exact typeEquals_symm o m eqView hsym wa wb bo elem _ _
    rw [hf]
    by_cases hn : sa.size / es = sb.size / es
    · rw [hn]
    · have h1 : (sa.size / es == sb.size / es) = false := by simp [hn]
      have h2 : (sb.size / es == sa.size / es) = false := by
        simp only [beq_eq_false_iff_ne, ne_eq]; exact fun e => hn e.symm
      rw [h1, h2]; simp

theorem fieldEquals_symm (o : Oracle) (m : Module) (eqView : SView → SView → Bool)
    (hsym : ∀ a b : SView, a.sd = b.sd → eqView a b = eqView b a) (wa wb : SView) (f : Field) :
    fieldEquals o m eqView wa wb f = fieldEquals o m eqView wb wa f := by
  unfold fieldEquals
  cases f.kind with
  | virt v r => rfl
  | alias t => rfl
  | phys start size ty bo =>
    simp only
    cases hasField o wa f with
    | none => cases hasField o wb f <;> rfl
    | some ha =>
      cases hasField o wb f with
      | none => rfl
      | some hb =>
        simp only
        cases ha <;> cases hb <;> try rfl
        simp only [Bool.not_true, Bool.false_or, beq_self_eq_true, Bool.true_and]
        cases (if argsKnown (envOf o wa none) ty = true then physStorage o wa f start size else none) <;>
          cases (if argsKnown (envOf o wb none) ty = true then physStorage o wb f start size else none) <;>
          first | rfl | exact typeEquals_symm o m eqView hsym wa wb bo ty _ _

end Emboss.View
