/-
`mark_error` only *adds* `Error` entries and default error codes (`ErrExt`): the marked parser
takes the same steps as the unmarked one on every input, up to the error code it reports.
Hence the place where an example's code goes (`slotOf`) is the same on the unmarked table and
on any table marked so far, and the loop over the examples is a plain sequence of table writes
`putAll` of (slot, code) pairs that depend only on the unmarked table.
-/
import Emboss.Model.Merr
import Emboss.Lemmas.Lr1Bisim
namespace Emboss.Lr1

/-- `B` is `A` plus `Error` entries / default error codes -/
structure ErrExt (A B : Automaton) : Prop where
  prods : B.prods = A.prods
  goto : B.goto = A.goto
  eoi : B.eoi = A.eoi
  strict : B.strict = A.strict
  entry : ∀ s a x, A.entry s a = some x → B.entry s a = some x
  entryNew : ∀ s a x, A.entry s a = none → B.entry s a = some x → x.isError = true
  row : ∀ s, (A.row s).isSome = true → (B.row s).isSome = true
  rowStrict : A.strict = true → ∀ s, (B.row s).isSome = true → (A.row s).isSome = true

theorem ErrExt.refl (A : Automaton) : ErrExt A A where
  prods := rfl
  goto := rfl
  eoi := rfl
  strict := rfl
  entry := fun _ _ _ h => h
  entryNew := fun _ _ _ h1 h2 => by rw [h1] at h2; cases h2
  row := fun _ h => h
  rowStrict := fun _ _ h => h

theorem ErrExt.trans {A B D : Automaton} (h1 : ErrExt A B) (h2 : ErrExt B D) : ErrExt A D where
  prods := h2.prods.trans h1.prods
  goto := h2.goto.trans h1.goto
  eoi := h2.eoi.trans h1.eoi
  strict := h2.strict.trans h1.strict
  entry := fun s a x h => h2.entry s a x (h1.entry s a x h)
  entryNew := fun s a x hn hd => by
    cases hb : B.entry s a with
    | none => exact h2.entryNew s a x hb hd
    | some y =>
      have := h2.entry s a y hb
      rw [hd] at this; cases this
      exact h1.entryNew s a x hn hb
  row := fun s h => h2.row s (h1.row s h)
  rowStrict := fun hs s h => h1.rowStrict hs s (h2.rowStrict (by rw [h1.strict]; exact hs) s h)

/-- results equal up to the error code and the order of the expected list -/
def RunSame : Result → Result → Prop
  | .accept t, .accept t' => t = t'
  | .error _ i s e, .error _ i' s' e' => i = i' ∧ s = s' ∧ ∀ x, x ∈ e ↔ x ∈ e'
  | .internal m, .internal m' => m = m'
  | .outOfFuel, .outOfFuel => True
  | _, _ => False

def StepSame : StepOut → StepOut → Prop
  | .next c, .next c' => c = c'
  | .done r, .done r' => RunSame r r'
  | _, _ => False

theorem RunSame.refl : ∀ r, RunSame r r
  | .accept _ => rfl
  | .error _ _ _ _ => ⟨rfl, rfl, fun _ => Iff.rfl⟩
  | .internal _ => rfl
  | .outOfFuel => trivial

theorem StepSame.refl : ∀ r, StepSame r r
  | .next _ => rfl
  | .done r => RunSame.refl r

section
variable {A B : Automaton}

theorem ErrExt.gotoOf_eq (h : ErrExt A B) (s x : Nat) : B.gotoOf s x = A.gotoOf s x := by
  unfold Automaton.gotoOf; rw [h.goto]

theorem ErrExt.clientEoi_eq (h : ErrExt A B) (w : List Token) (i : Nat) : clientEoi B w i = clientEoi A w i := by
  unfold Emboss.Lr1.clientEoi; rw [h.eoi]

theorem ErrExt.lookahead_eq (h : ErrExt A B) (w : List Token) (i : Nat) : lookahead B w i = lookahead A w i := by
  unfold Emboss.Lr1.lookahead; rw [h.eoi]

theorem ErrExt.next_nonerror (h : ErrExt A B) {w : List Token} {s i : Nat} {x : Action}
    (hx : nextAction A w s i = x) (hne : x.isError = false) : nextAction B w s i = x := by
  obtain ⟨hc, he⟩ := nextAction_nonerror hx hne
  have hb := h.entry _ _ _ he
  unfold nextAction
  rw [h.clientEoi_eq, hc, h.lookahead_eq]
  simp [Automaton.actionOf, hb]

theorem ErrExt.next_error (h : ErrExt A B) {w : List Token} {s i : Nat} {c : Option Nat}
    (hx : nextAction A w s i = .error c) : ∃ c', nextAction B w s i = .error c' := by
  cases hy : nextAction B w s i with
  | error c' => exact ⟨c', rfl⟩
  | shift _ | reduce _ | accept =>
    exfalso
    obtain ⟨hc, he⟩ := nextAction_nonerror hy rfl
    rw [h.clientEoi_eq] at hc
    rw [h.lookahead_eq] at he
    cases ha : A.entry s (lookahead A w i) with
    | none => have := h.entryNew _ _ _ ha he; simp [Action.isError] at this
    | some z =>
      have := h.entry _ _ _ ha
      rw [he] at this; cases this
      have hz : nextAction A w s i = A.actionOf s (lookahead A w i) := nextAction_of_not_client hc
      simp only [Automaton.actionOf, ha] at hz
      rw [hz] at hx; cases hx

theorem ErrExt.expected (h : ErrExt A B) (s x : Nat) : x ∈ A.expectedOf s ↔ x ∈ B.expectedOf s := by
  rw [mem_expectedOf, mem_expectedOf]
  constructor
  · rintro ⟨a, ha, hne⟩
    exact ⟨a, h.entry _ _ _ ha, hne⟩
  · rintro ⟨b, hb, hne⟩
    cases ha : A.entry s x with
    | none => have := h.entryNew _ _ _ ha hb; rw [hne] at this; cases this
    | some a =>
      have := h.entry _ _ _ ha
      rw [hb] at this; cases this
      exact ⟨b, rfl, hne⟩

theorem ext_step (h : ErrExt A B) (w : List Token) (c : Config) : StepSame (step A w c) (step B w c) := by
  cases hx : nextAction A w (topState c.stack) c.cursor with
  | shift s' =>
    have hb := h.next_nonerror hx rfl
    have : step B w c = step A w c := by simp only [step, hx, hb]
    rw [this]; exact StepSame.refl _
  | accept =>
    have hb := h.next_nonerror hx rfl
    have : step B w c = step A w c := by simp only [step, hx, hb, h.lookahead_eq, h.eoi]
    rw [this]; exact StepSame.refl _
  | reduce pi =>
    have hb := h.next_nonerror hx rfl
    have : step B w c = step A w c := by simp only [step, hx, hb, h.prods, h.gotoOf_eq]
    rw [this]; exact StepSame.refl _
  | error code =>
    obtain ⟨code', hb⟩ := h.next_error hx
    have hexp := h.expected (topState c.stack)
    simp only [step, hx, hb]
    cases hra : A.row (topState c.stack) with
    | some r =>
      cases hrb : B.row (topState c.stack) with
      | some r' =>
        refine ⟨rfl, rfl, fun x => ?_⟩
        have := hexp x
        simpa [Automaton.expectedOf, hra, hrb] using this
      | none =>
        have := h.row (topState c.stack) (by rw [hra]; rfl)
        rw [hrb] at this; cases this
    | none =>
      cases hrb : B.row (topState c.stack) with
      | some r' =>
        have hs : A.strict = false := by
          cases hst : A.strict with
          | false => rfl
          | true =>
            have := h.rowStrict hst (topState c.stack) (by rw [hrb]; rfl)
            rw [hra] at this; cases this
        simp only [hs, Bool.false_eq_true, if_false]
        refine ⟨rfl, rfl, fun x => ?_⟩
        have := hexp x
        simpa [Automaton.expectedOf, hra, hrb] using this
      | none =>
        rw [h.strict]
        cases A.strict with
        | true => exact rfl
        | false => exact ⟨rfl, rfl, fun _ => Iff.rfl⟩

theorem ext_runFrom (h : ErrExt A B) (w : List Token) : ∀ (f : Nat) (c : Config),
    RunSame (runFrom A w f c) (runFrom B w f c)
  | 0, _ => trivial
  | f + 1, c => by
    have hs := ext_step h w c
    simp only [runFrom]
    cases h1 : step A w c <;> cases h2 : step B w c <;> rw [h1, h2] at hs <;> simp only [StepSame] at hs
    · subst hs; exact ext_runFrom h w f _
    · exact hs

/-- the place where an example's code goes is the same on an extended table -/
theorem ext_slotOf (h : ErrExt A B) (fuel : Nat) (e : ErrExample) : slotOf B fuel e = slotOf A fuel e := by
  have hr := ext_runFrom h e.tokens fuel init
  unfold slotOf run
  cases h1 : runFrom A e.tokens fuel init <;> cases h2 : runFrom B e.tokens fuel init <;>
    rw [h1, h2] at hr <;> simp only [RunSame] at hr <;> try rfl
  obtain ⟨rfl, rfl, _⟩ := hr
  simp only [h.lookahead_eq, h.eoi]

end

/-! ### `put` extends the table -/

theorem row_setEntry (rows : Array (Option Row)) (s : Nat) (e : Nat × Action) (s' : Nat) :
    ((setEntry rows s e)[s']?).join =
      if s' = s then some (((rows[s]?).join).getD [] ++ [e]) else (rows[s']?).join := by
  unfold setEntry
  rw [Array.getElem?_ofFn]
  by_cases hlt : s' < max rows.size (s + 1)
  · simp only [hlt, dite_true, Option.join_some]
    by_cases hs : s' = s
    · simp [hs]
    · simp [hs]
  · simp only [hlt, dite_false, Option.join_none]
    have h1 : rows.size ≤ s' := by omega
    have h2 : s' ≠ s := by omega
    simp [h2, Array.getElem?_eq_none h1]

theorem lookup_append_single {β} (r : List (Nat × β)) (a : Nat) (v : β) (a' : Nat) :
    (r ++ [(a, v)]).lookup a' = match r.lookup a' with
      | some x => some x
      | none => if a' = a then some v else none := by
  induction r with
  | nil => simp [List.lookup]; split <;> simp_all
  | cons kv r ih =>
    obtain ⟨k, x⟩ := kv
    simp only [List.cons_append, List.lookup]
    cases h : a' == k <;> simp [ih]

theorem put_ext {A B : Automaton} {sl : Slot} {code : Nat} (h : put A sl code = some B) : ErrExt A B := by
  unfold put at h
  cases sl with
  | dflt s =>
    simp only [] at h
    cases hl : A.defaultErrors.lookup s with
    | some c =>
      simp only [hl] at h
      split at h
      · cases h; exact ErrExt.refl A
      · cases h
    | none =>
      simp only [hl, Option.some.injEq] at h
      subst h
      exact {
        prods := rfl, goto := rfl, eoi := rfl, strict := rfl
        entry := fun _ _ _ h => h
        entryNew := fun s' a' x h1 h2 => by
          have h2' : A.entry s' a' = some x := h2
          rw [h1] at h2'; cases h2'
        row := fun _ h => h
        rowStrict := fun _ _ h => h }
  | entry s a =>
    simp only [] at h
    cases he : A.entry s a with
    | some x =>
      simp only [he] at h
      cases x with
      | error c =>
        simp only [] at h
        split at h
        · cases h; exact ErrExt.refl A
        · cases h
      | shift _ => cases h
      | reduce _ => cases h
      | accept => cases h
    | none =>
      simp only [he] at h
      split at h
      · cases h
      · rename_i hst
        simp only [Option.some.injEq] at h
        subst h
        -- rows of the new table
        have hrow : ∀ s', ({ A with action := setEntry A.action s (a, .error (some code)) } : Automaton).row s' =
            if s' = s then some ((A.row s).getD [] ++ [(a, .error (some code))]) else A.row s' := by
          intro s'
          exact row_setEntry A.action s _ s'
        have hentry : ∀ s' a', ({ A with action := setEntry A.action s (a, .error (some code)) } : Automaton).entry s' a' =
            if s' = s then (match A.entry s a' with
              | some x => some x
              | none => if a' = a then some (.error (some code)) else none) else A.entry s' a' := by
          intro s' a'
          unfold Automaton.entry
          rw [hrow s']
          by_cases hs : s' = s
          · subst hs
            simp only [if_true]
            rw [lookup_append_single]
            cases hr : A.row s' with
            | none => simp [List.lookup]
            | some r => simp only [Option.getD_some]; cases List.lookup a' r <;> rfl
          · simp only [hs, if_false]
        refine ⟨rfl, rfl, rfl, rfl, ?_, ?_, ?_, ?_⟩
        · intro s' a' x hx
          rw [hentry]
          by_cases hs : s' = s
          · subst hs; simp [hx]
          · simp [hs, hx]
        · intro s' a' x hn hx
          rw [hentry] at hx
          by_cases hs : s' = s
          · subst hs
            simp only [if_true, hn] at hx
            split at hx
            · cases hx; rfl
            · cases hx
          · simp only [hs, if_false, hn] at hx; cases hx
        · intro s' hs'
          rw [hrow]
          by_cases hs : s' = s
          · simp [hs]
          · simp [hs, hs']
        · intro hstrict s' hs'
          rw [hrow] at hs'
          by_cases hs : s' = s
          · subst hs
            simp only [hstrict, Bool.true_and, Bool.not_eq_true, Option.isNone_eq_false_iff] at hst
            cases hr : A.row s' with
            | some _ => rfl
            | none => simp [hr] at hst
          · simpa [hs] using hs'

/-! ### the loop over the examples -/

theorem markAll_eq_putAll {A0 : Automaton} (fuel : Nat) : ∀ (es : List ErrExample) (A : Automaton),
    ErrExt A0 A → markAll A fuel es = (slotsOf A0 fuel es).bind (putAll A)
  | [], A, _ => by simp [markAll, slotsOf, putAll]
  | e :: es, A, hA => by
    simp only [markAll, markError, slotsOf, ext_slotOf hA]
    cases hs : slotOf A0 fuel e with
    | none => simp
    | some sl =>
      simp only [Option.bind_some]
      cases hp : put A sl e.code with
      | none =>
        cases slotsOf A0 fuel es <;> simp [putAll, hp]
      | some B =>
        have ih := markAll_eq_putAll fuel es B (hA.trans (put_ext hp))
        simp only [Option.bind_some, ih]
        cases slotsOf A0 fuel es <;> simp [putAll, hp]

theorem markError_ext {A B : Automaton} {fuel : Nat} {e : ErrExample} (h : markError A fuel e = some B) :
    ErrExt A B := by
  unfold markError at h
  cases hs : slotOf A fuel e with
  | none => simp [hs] at h
  | some sl => simp only [hs, Option.bind_some] at h; exact put_ext h

theorem markAll_ext {fuel : Nat} : ∀ {es : List ErrExample} {A B : Automaton}, markAll A fuel es = some B → ErrExt A B
  | [], A, B, h => by simp only [markAll, Option.some.injEq] at h; subst h; exact ErrExt.refl A
  | e :: es, A, B, h => by
    simp only [markAll] at h
    cases hm : markError A fuel e with
    | none => simp [hm] at h
    | some A1 =>
      simp only [hm, Option.bind_some] at h
      exact (markError_ext hm).trans (markAll_ext h)

end Emboss.Lr1
