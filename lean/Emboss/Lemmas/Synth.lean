/-
The synthesized `$size_in_*` expression computes the reference size (helper lemmas for
`C01_size_is_max_end`).
-/
import Emboss.Model.Synth
import Emboss.Spec.View
namespace Emboss.View
open Emboss.ViewSpec

/-- what the reference needs to know about the physical fields, as the view sees them -/
def extents (env : Env) : List Field → List Extent
  | [] => []
  | f :: fs =>
    match f.kind with
    | .phys start size _ _ => (evalBool env f.cond, evalInt env start, evalInt env size) :: extents env fs
    | _ => extents env fs

/-- `sizeFrom` with absent fields contributing a `0` clause (what `$max(0, c ? e : 0, …)` does) -/
def sizeFrom0 (acc : Int) : List Extent → Option Int
  | [] => some acc
  | (none, _, _) :: _ => none
  | (some false, _, _) :: rest => sizeFrom0 (imax acc 0) rest
  | (some true, some s, some z) :: rest => sizeFrom0 (imax acc (s + z)) rest
  | (some true, _, _) :: _ => none

theorem imax_assoc (a e x : Int) : imax a (imax e x) = imax (imax a e) x := by
  unfold imax; repeat' split
  all_goals omega

theorem sizeFrom0_map (a : Int) : ∀ (l : List Extent) (e : Int),
    (sizeFrom0 e l).map (imax a) = sizeFrom0 (imax a e) l
  | [], e => rfl
  | (none, _, _) :: _, e => rfl
  | (some false, _, _) :: rest, e => by
    simp only [sizeFrom0]; rw [sizeFrom0_map a rest, imax_assoc]
  | (some true, some s, some z) :: rest, e => by
    simp only [sizeFrom0]; rw [sizeFrom0_map a rest, imax_assoc]
  | (some true, none, _) :: _, e => rfl
  | (some true, some _, none) :: _, e => rfl

theorem sizeFrom0_eq : ∀ (l : List Extent) (a : Int), 0 ≤ a → sizeFrom0 a l = sizeFrom a l
  | [], _, _ => rfl
  | (none, _, _) :: _, _, _ => rfl
  | (some false, _, _) :: rest, a, h => by
    simp only [sizeFrom0, sizeFrom]
    have : imax a 0 = a := by unfold imax; split <;> omega
    rw [this]; exact sizeFrom0_eq rest a h
  | (some true, some s, some z) :: rest, a, h => by
    simp only [sizeFrom0, sizeFrom]
    exact sizeFrom0_eq rest _ (by unfold imax; split <;> omega)
  | (some true, none, _) :: _, _, _ => rfl
  | (some true, some _, none) :: _, _, _ => rfl

theorem maybeMax_cons (a : Int) (x : Option Val) (l : List (Option Val)) :
    maybeMax (some (.int a) :: x :: l) = (maybeMax (x :: l)).map (imax a) := by
  simp only [maybeMax]
  cases maybeMax (x :: l) <;> rfl

theorem eval_sizeClause (env : Env) (c s z : Expr) :
    eval env (sizeClause c s z) =
      maybeChoice (eval env c) (maybeInt2 (fun x y => .int (x + y)) (eval env s) (eval env z))
        (some (.int 0)) := by
  simp [sizeClause, eval, evalList, applyFn]

theorem maybeMax_clauses (env : Env) : ∀ (fs : List Field) (a : Int),
    maybeMax (some (.int a) :: evalList env (sizeClauses fs)) = sizeFrom0 a (extents env fs)
  | [], a => by simp [sizeClauses, evalList, maybeMax, extents, sizeFrom0]
  | f :: fs, a => by
    cases hk : f.kind with
    | virt v r => simp only [sizeClauses, extents, hk]; exact maybeMax_clauses env fs a
    | alias t => simp only [sizeClauses, extents, hk]; exact maybeMax_clauses env fs a
    | phys start size ty bo =>
      simp only [sizeClauses, extents, hk, evalList]
      rw [maybeMax_cons, eval_sizeClause]
      cases hc : eval env f.cond with
      | none => simp [maybeChoice, maybeMax, evalBool, hc, sizeFrom0]
      | some cv =>
        cases cv with
        | int i => simp [maybeChoice, maybeMax, evalBool, hc, sizeFrom0]
        | bool b =>
          cases b with
          | false =>
            simp only [maybeChoice, evalBool, hc, sizeFrom0]
            rw [maybeMax_clauses env fs 0, sizeFrom0_map]
          | true =>
            simp only [maybeChoice, evalBool, hc]
            cases hs : eval env start with
            | none => simp [maybeInt2, maybeMax, evalInt, hs, sizeFrom0]
            | some sv =>
              cases sv with
              | bool q => simp [maybeInt2, maybeMax, evalInt, hs, sizeFrom0]
              | int s =>
                cases hz : eval env size with
                | none => simp [maybeInt2, maybeMax, evalInt, hs, hz, sizeFrom0]
                | some zv =>
                  cases zv with
                  | bool q => simp [maybeInt2, maybeMax, evalInt, hs, hz, sizeFrom0]
                  | int z =>
                    simp only [maybeInt2, evalInt, hs, hz, sizeFrom0]
                    rw [maybeMax_clauses env fs (s + z), sizeFrom0_map]

theorem eval_synthSize (env : Env) (fs : List Field) :
    eval env (synthSize fs) = (ViewSpec.size (extents env fs)).map Val.int := by
  simp only [synthSize, eval, evalList, applyFn, ViewSpec.size]
  rw [maybeMax_clauses env fs 0, sizeFrom0_eq _ 0 (Int.le_refl 0)]

end Emboss.View

namespace Emboss.View
open Emboss.ViewSpec

theorem sizeFrom_ge : ∀ (l : List Extent) (acc r : Int), sizeFrom acc l = some r → acc ≤ r
  | [], acc, r, h => by simp [sizeFrom] at h; omega
  | (none, _, _) :: _, _, _, h => by simp [sizeFrom] at h
  | (some false, _, _) :: rest, acc, r, h => by
    simp only [sizeFrom] at h; exact sizeFrom_ge rest acc r h
  | (some true, some s, some z) :: rest, acc, r, h => by
    simp only [sizeFrom] at h
    have := sizeFrom_ge rest _ r h
    unfold imax at this; split at this <;> omega
  | (some true, none, _) :: _, _, _, h => by simp [sizeFrom] at h
  | (some true, some _, none) :: _, _, _, h => by simp [sizeFrom] at h

/-- every present field with a known location ends at or before the reference size -/
theorem sizeFrom_covers : ∀ (l : List Extent) (acc r : Int), sizeFrom acc l = some r →
    ∀ s z : Int, (some true, some s, some z) ∈ l → s + z ≤ r
  | [], _, _, _, _, _, hm => by cases hm
  | (none, _, _) :: _, _, _, h, _, _, _ => by simp [sizeFrom] at h
  | (some false, a, b) :: rest, acc, r, h, s, z, hm => by
    simp only [sizeFrom] at h
    cases hm with
    | tail _ hm' => exact sizeFrom_covers rest acc r h s z hm'
  | (some true, some s0, some z0) :: rest, acc, r, h, s, z, hm => by
    simp only [sizeFrom] at h
    cases hm with
    | head =>
      have := sizeFrom_ge rest _ r h
      unfold imax at this; split at this <;> omega
    | tail _ hm' => exact sizeFrom_covers rest _ r h s z hm'
  | (some true, none, _) :: _, _, _, h, _, _, _ => by simp [sizeFrom] at h
  | (some true, some _, none) :: _, _, _, h, _, _, _ => by simp [sizeFrom] at h

theorem C01_size_covers_present_fields_aux (env : Env) (fs : List Field) (r : Int)
    (h : eval env (synthSize fs) = some (.int r)) :
    0 ≤ r ∧ ∀ s z : Int, (some true, some s, some z) ∈ extents env fs → s + z ≤ r := by
  rw [eval_synthSize] at h
  cases hs : ViewSpec.size (extents env fs) with
  | none => rw [hs] at h; cases h
  | some r' =>
    rw [hs] at h
    have hr : r' = r := by simpa using h
    subst hr
    unfold ViewSpec.size at hs
    exact ⟨sizeFrom_ge _ _ _ hs, sizeFrom_covers _ _ _ hs⟩

theorem constInt_eval' {env : Env} {e : Expr} {k : Int} (hk : constInt? e = some k) :
    eval env e = some (.int k) := by
  cases e with
  | const v => cases v <;> simp_all [constInt?, eval]
  | fold v e => cases v <;> simp_all [constInt?, eval]
  | _ => simp [constInt?] at hk

end Emboss.View
