/-
C11 helper lemmas, part 13: the global row passes of the module handler are projections
(applying one twice is applying it once).
-/
import Emboss.Model.Fmt
namespace Emboss.Fmt

/-! ### `_indent_blanks_and_comments` -/

theorem indentBlanksRev_idem : ∀ (l : List Row) (prev : Nat),
    indentBlanksRev prev (indentBlanksRev prev l) = indentBlanksRev prev l := by
  intro l
  induction l with
  | nil => intro prev; rfl
  | cons r rest ih =>
    intro prev
    by_cases h : (rowBlank r || r.name = .comment) = true
    · have h' : (rowBlank { r with indent := prev } || ({ r with indent := prev } : Row).name = .comment) = true := h
      simp only [indentBlanksRev, h, if_true, h', ih]
    · simp only [indentBlanksRev, h, if_false, ih, Bool.false_eq_true]

theorem indentBlanksAndComments_idem (rows : List Row) :
    indentBlanksAndComments (indentBlanksAndComments rows) = indentBlanksAndComments rows := by
  simp only [indentBlanksAndComments, List.reverse_reverse, indentBlanksRev_idem]

/-! ### `_add_blank_rows_on_dedent` -/

theorem addBlankRowsAux_idem : ∀ (l : List Row) (pi : Nat) (pb : Bool),
    addBlankRowsAux pi pb (addBlankRowsAux pi pb l) = addBlankRowsAux pi pb l := by
  intro l
  induction l with
  | nil => intro pi pb; rfl
  | cons r rest ih =>
    intro pi pb
    by_cases h : (decide (pi > r.indent) && !pb && !rowBlank r) = true
    · let d : Row := { name := .dedentSpace, columns := [], indent := r.indent }
      have e1 : addBlankRowsAux pi pb (r :: rest) =
          d :: r :: addBlankRowsAux r.indent (rowBlank r) rest := by
        simp only [addBlankRowsAux, h, if_true, d]
      have hd : (decide (pi > d.indent) && !pb && !rowBlank d) = false := by
        have : rowBlank d = true := rfl
        simp [this]
      have hr : (decide (d.indent > r.indent) && !rowBlank d && !rowBlank r) = false := by
        have : d.indent = r.indent := rfl
        simp [this]
      have e2 : addBlankRowsAux pi pb (d :: r :: addBlankRowsAux r.indent (rowBlank r) rest) =
          d :: r :: addBlankRowsAux r.indent (rowBlank r) (addBlankRowsAux r.indent (rowBlank r) rest) := by
        rw [addBlankRowsAux]
        simp only [hd, Bool.false_eq_true, if_false]
        rw [addBlankRowsAux]
        simp only [hr, Bool.false_eq_true, if_false]
      rw [e1, e2, ih]
    · have e1 : addBlankRowsAux pi pb (r :: rest) = r :: addBlankRowsAux r.indent (rowBlank r) rest := by
        simp only [addBlankRowsAux, h, if_false, Bool.false_eq_true]
      rw [e1]
      simp only [addBlankRowsAux, h, if_false, Bool.false_eq_true, ih]

theorem addBlankRowsOnDedent_idem (rows : List Row) :
    addBlankRowsOnDedent (addBlankRowsOnDedent rows) = addBlankRowsOnDedent rows :=
  addBlankRowsAux_idem rows 0 true

/-! ### `_strip_empty_leading_trailing_comment_lines` -/

/-- Drop the longest suffix whose elements satisfy `p`. -/
def dropEnd {α : Type} (p : α → Bool) (l : List α) : List α := (l.reverse.dropWhile p).reverse

theorem dropWhile_append_singleton_of_not {α : Type} (p : α → Bool) (a : α) (h : p a = false) :
    ∀ (x : List α), ∃ y, (x ++ [a]).dropWhile p = y ++ [a] := by
  intro x
  induction x with
  | nil => exact ⟨[], by simp [List.dropWhile_cons, h]⟩
  | cons b x ih =>
    by_cases hb : p b = true
    · obtain ⟨y, hy⟩ := ih
      exact ⟨y, by simp only [List.cons_append, List.dropWhile_cons, hb, if_true, hy]⟩
    · exact ⟨b :: x, by simp only [List.cons_append, List.dropWhile_cons, hb, if_false, Bool.false_eq_true]⟩

/-- Dropping a suffix keeps the head. -/
theorem dropEnd_cons_of_not {α : Type} (p : α → Bool) (a : α) (l : List α) (h : p a = false) :
    ∃ l', dropEnd p (a :: l) = a :: l' := by
  obtain ⟨y, hy⟩ := dropWhile_append_singleton_of_not p a h l.reverse
  exact ⟨y.reverse, by simp only [dropEnd, List.reverse_cons, hy, List.reverse_append, List.reverse_nil,
    List.nil_append, List.singleton_append, List.cons_append]⟩

theorem length_dropWhile_le' {α : Type} (p : α → Bool) (l : List α) : (l.dropWhile p).length ≤ l.length := by
  induction l with
  | nil => simp
  | cons a l ih =>
    simp only [List.dropWhile_cons]
    split
    · simp only [List.length_cons]; omega
    · simp

theorem dropWhile_dropEnd_of_dropWhile {α : Type} (p : α → Bool) (m : List α)
    (h : m.dropWhile p = m) : (dropEnd p m).dropWhile p = dropEnd p m := by
  cases m with
  | nil => rfl
  | cons a m' =>
    have ha : p a = false := by
      cases hp : p a with
      | false => rfl
      | true =>
        simp only [List.dropWhile_cons, hp, if_true] at h
        have := length_dropWhile_le' p m'
        rw [h] at this
        simp only [List.length_cons] at this
        omega
    obtain ⟨l', hl'⟩ := dropEnd_cons_of_not p a m' ha
    rw [hl']
    simp [List.dropWhile_cons, ha]

theorem dropWhile_idem {α : Type} (p : α → Bool) (l : List α) :
    (l.dropWhile p).dropWhile p = l.dropWhile p := by
  induction l with
  | nil => rfl
  | cons a l ih =>
    simp only [List.dropWhile_cons]
    split
    · exact ih
    · rename_i h
      simp [List.dropWhile_cons, h]

theorem dropEnd_idem {α : Type} (p : α → Bool) (l : List α) : dropEnd p (dropEnd p l) = dropEnd p l := by
  simp only [dropEnd, List.reverse_reverse, dropWhile_idem]

theorem stripEmptyRows_idem (l : List Row) : stripEmptyRows (stripEmptyRows l) = stripEmptyRows l := by
  have e : ∀ x : List Row, stripEmptyRows x =
      dropEnd (fun r => r.columns.isEmpty) (x.dropWhile (fun r => r.columns.isEmpty)) := fun _ => rfl
  rw [e (stripEmptyRows l), e l,
    dropWhile_dropEnd_of_dropWhile _ _ (dropWhile_idem _ l), dropEnd_idem]

/-! ### `rstrip` (every rendered line) -/

theorem rstrip_idem (s : Str) : rstrip (rstrip s) = rstrip s := by
  have : ∀ x : Str, rstrip x = dropEnd isPySpace x := fun _ => rfl
  rw [this (rstrip s), this s, dropEnd_idem]

theorem renderRow_trimmed (iw : Nat) (r : Row) (t : Str) (h : renderRow iw r = some t) : rstrip t = t := by
  unfold renderRow at h
  split at h
  · cases h; exact rstrip_idem _
  · cases h

end Emboss.Fmt
