/-
C14 lemmas, part 3: per-field, per-type and per-module equivalences, and the assembly
`check p = [] ↔ Realisable p`.
-/
import Emboss.Lemmas.ConstraintsFields
import Emboss.Lemmas.ConstraintsOrder
namespace Emboss.Constraints
open Emboss.Generated

/-- Side conditions on a type definition under which the iff is proved ("resolved,
type-correct"): structures are byte- or bit-addressed; the size of a scalar field has finite
bounds (C05 guarantees it for every realisable module; an unbounded one is rejected by the
64-bit gate in the same pass); `is_signed`, when present, is a constant boolean (established by
the attribute pass). -/
structure TypeWF (t : TypeInfo) : Prop where
  unit : ∀ fs, t.kind = .structure fs → (t.unit = .bit ∨ t.unit = .byte)
  bounds : ∀ f ∈ t.fields, f.isVirtual = false → f.ty.isAtomic = true →
    ∃ mn mx, f.sizeMin = .fin mn ∧ f.sizeMax = .fin mx
  signedLit : ∀ v, getAttr t.attrs "is_signed" = some v → ∃ b, v.boolValue = some b

theorem reserved_nil (n : String) (e : EK) :
    (if isReserved n = true then [e] else []) = [] ↔ isReserved n = false := by
  cases isReserved n <;> simp

theorem fieldOK_iff (p : Program) (d : Option AVal) (t : TypeInfo) (f : Field)
    (hu : effUnit t = .bit ∨ effUnit t = .byte)
    (hb : f.isVirtual = false → f.ty.isAtomic = true →
      ∃ mn mx, f.sizeMin = .fin mn ∧ f.sizeMax = .fin mx) :
    (checkAttrList (fieldSpecs f) [] f.attrs = [] ∧
      (verifyByteOrder p d t f ++ verifyRequires p f) = [] ∧ fieldConstraints p t f = []) ↔
    FieldOK p d t f := by
  rw [checkAttrList_ok, List.append_eq_nil_iff]
  cases hv : f.isVirtual with
  | true =>
    have hn : needsByteOrder p t f = some false := by simp [needsByteOrder, hv]
    have hbo : verifyByteOrder p d t f = [] ↔ getAttr f.attrs "byte_order" = none := by
      unfold verifyByteOrder
      rw [hn]
      simp only [effByteOrder, hn]
      cases getAttr f.attrs "byte_order" <;> simp
    rw [hbo, verifyRequires_virt_nil p f hv]
    simp only [fieldConstraints, hv, ↓reduceIte, reserved_nil]
    constructor
    · rintro ⟨a, ⟨b1, b2⟩, n⟩
      exact ⟨a, n, (fun h => by rw [hv] at h; cases h), fun _ => ⟨b1, b2⟩⟩
    · intro h
      exact ⟨h.attrs, h.virt hv, h.name⟩
  | false =>
    simp only [fieldConstraints, hv, Bool.false_eq_true, ↓reduceIte, List.append_eq_nil_iff,
      reserved_nil]
    cases hrt : findType p f.ty.leaf.1 with
    | none =>
      have : verifyByteOrder p d t f ≠ [] := by
        simp [verifyByteOrder, needsByteOrder, hv, hrt]
      constructor
      · rintro ⟨_, ⟨h, _⟩, _⟩; exact absurd h this
      · intro h
        obtain ⟨rt, h1, _⟩ := h.phys hv
        rw [hrt] at h1; cases h1
    | some rt =>
      have key := physField_iff p d t f rt hv hrt hu (hb hv)
      constructor
      · rintro ⟨a, ⟨b1, b2⟩, ⟨⟨c1, c2⟩, c3⟩, n⟩
        refine ⟨a, n, fun _ => ⟨rt, hrt, key.1 ⟨b1, b2, c1, c2, c3⟩⟩, (fun h => by rw [hv] at h; cases h)⟩
      · intro h
        obtain ⟨rt', h1, h2⟩ := h.phys hv
        rw [hrt] at h1; cases h1
        obtain ⟨b1, b2, c1, c2, c3⟩ := key.2 h2
        exact ⟨h.attrs, ⟨b1, b2⟩, ⟨⟨c1, c2⟩, c3⟩, h.name⟩

theorem boundsFit_iff (lo hi : Bound) : boundsFit lo hi = true ↔ FitsIn64 lo hi := by
  unfold boundsFit FitsIn64
  cases lo <;> cases hi <;> simp
  rename_i a b
  constructor
  · rintro (⟨h1, h2⟩ | ⟨h1, h2⟩)
    · left; exact ⟨h1, by omega⟩
    · right; exact ⟨h1, by omega⟩
  · rintro (⟨h1, h2⟩ | ⟨h1, h2⟩)
    · left; exact ⟨h1, by omega⟩
    · right; exact ⟨h1, by omega⟩

theorem paramOK_iff (p : Program) (q : Param) :
    (earlyParam q = [] ∧ paramReq p q = []) ↔ ParamOK p q := by
  unfold earlyParam paramReq ParamOK
  cases hi : q.isInt with
  | false => cases q.explicitSize <;> simp
  | true =>
    simp only [↓reduceIte]
    cases hs : q.explicitSize with
    | none => simp
    | some s =>
      by_cases hf : boundsFit q.lo q.hi = true
      · have hf' := (boundsFit_iff _ _).1 hf
        cases hrt : findType p q.ref with
        | none => simp [hf]
        | some rt => simp [hf, hf', physReq_nil]
      · have hf' : ¬ FitsIn64 q.lo q.hi := fun h => hf ((boundsFit_iff _ _).2 h)
        simp [hf, hf']

theorem signed_unique (t : TypeInfo) (vs : List EnumValue)
    (hl : ∀ v, getAttr t.attrs "is_signed" = some v → ∃ b, v.boolValue = some b) :
    ∃ s0, effSigned t vs = some s0 ∧ ∀ s, Signed t vs s ↔ s = s0 := by
  unfold effSigned Signed
  cases ha : getAttr t.attrs "is_signed" with
  | none =>
    refine ⟨vs.any (fun v => decide (v.value < 0)), rfl, fun s => ?_⟩
    cases s <;> simp [List.any_eq_true]
  | some v =>
    obtain ⟨b, hb⟩ := hl v ha
    obtain ⟨l, rfl⟩ := AVal.boolValue_spec hb
    refine ⟨b, hb, fun s => ?_⟩
    simp
    constructor
    · intro h; exact h.symm
    · intro h; exact h.symm

theorem enumOK_iff (t : TypeInfo) (vs : List EnumValue) (hk : t.kind = .enum vs)
    (hl : ∀ v, getAttr t.attrs "is_signed" = some v → ∃ b, v.boolValue = some b) :
    (verifyEnumWidth t = [] ∧ enumValues t = [] ∧
      vs.flatMap (fun v => checkAttrList AttrTable.enumValueAttrs [] v.attrs) = [] ∧
      vs.flatMap (fun v => if isReserved v.name then [EK.reservedEnum] else []) = []) ↔
    EnumOK t vs := by
  obtain ⟨s0, hs0, hs⟩ := signed_unique t vs hl
  have hw : verifyEnumWidth t = [] ↔ (1 ≤ effMaxBits t ∧ effMaxBits t ≤ 64) := by
    simp only [verifyEnumWidth, hk]
    by_cases h : effMaxBits t > 64 ∨ effMaxBits t < 1
    · simp only [h, ↓reduceIte]; constructor
      · intro hh; cases hh
      · intro hh; omega
    · simp only [h, ↓reduceIte]; constructor
      · intro _; omega
      · intro _; trivial
  have hv : enumValues t = [] ↔ ∀ v ∈ vs,
      (if s0 then -(2 ^ (effMaxBits t - 1).toNat) ≤ v.value ∧ v.value < 2 ^ (effMaxBits t - 1).toNat
       else 0 ≤ v.value ∧ v.value < 2 ^ (effMaxBits t).toNat) := by
    simp only [enumValues, hk, hs0, List.flatMap_eq_nil_iff]
    refine forall_congr' fun v => forall_congr' fun _ => ?_
    generalize (2 : Int) ^ (effMaxBits t - 1).toNat = P
    generalize (2 : Int) ^ (effMaxBits t).toNat = Q
    cases s0 <;> simp <;> omega
  rw [hw, hv, List.flatMap_eq_nil_iff, List.flatMap_eq_nil_iff]
  simp only [checkAttrList_ok, reserved_nil]
  constructor
  · rintro ⟨h1, h2, h3, h4⟩
    exact ⟨h1, fun s hsg => by rw [(hs s).1 hsg]; exact h2, h3, h4⟩
  · intro h
    exact ⟨h.maxBits, h.representable s0 ((hs s0).2 rfl), h.valueAttrs, h.valueNames⟩

theorem params_iff (p : Program) (ps : List Param) :
    (ps.flatMap earlyParam = [] ∧ ps.flatMap (paramReq p) = []) ↔ ∀ q ∈ ps, ParamOK p q := by
  simp only [List.flatMap_eq_nil_iff]
  constructor
  · rintro ⟨h1, h2⟩ q hq; exact (paramOK_iff p q).1 ⟨h1 q hq, h2 q hq⟩
  · intro h
    exact ⟨fun q hq => ((paramOK_iff p q).2 (h q hq)).1, fun q hq => ((paramOK_iff p q).2 (h q hq)).2⟩

theorem verifySize_struct (t : TypeInfo) (fs : List Field) (hk : t.kind = .structure fs) :
    verifySize t = [] ↔ ∀ v, getAttr t.attrs "fixed_size_in_bits" = some v →
      ∃ sz, structFixedSize t fs = some sz ∧ v = .int (some sz) := by
  simp only [verifySize, hk]
  cases ha : getAttr t.attrs "fixed_size_in_bits" with
  | none => simp
  | some v =>
    cases hs : structFixedSize t fs with
    | none => simp
    | some sz =>
      by_cases hv : v = .int (some sz) <;> simp [hv]

theorem sizeOfBits_struct (t : TypeInfo) (fs : List Field) (hk : t.kind = .structure fs) :
    sizeOfBits t = [] ↔ (t.unit = .bit → ∃ n, effFixedSize t = some n ∧ n ≤ 64) := by
  simp only [sizeOfBits, hk]
  by_cases hu : t.unit = .bit
  · simp only [hu, ↓reduceIte, forall_const]
    cases effFixedSize t with
    | none => simp
    | some n =>
      by_cases h : n > 64
      · simp [h] <;> omega
      · simp [h] <;> omega
  · simp [hu]

theorem typeOK_iff (p : Program) (d : Option AVal) (t : TypeInfo) (wf : TypeWF t) :
    (t.params.flatMap earlyParam = [] ∧ attrsOfType t = [] ∧ verifyOfType p (d, t) = [] ∧
      constraintsOfType p (d, t) = []) ↔ TypeOK p d t := by
  have hp := params_iff p t.params
  simp only [attrsOfType, verifyOfType, constraintsOfType, List.append_eq_nil_iff, reserved_nil,
    checkAttrList_ok]
  cases hk : t.kind with
  | external =>
    have hf : t.fields = [] := by simp [TypeInfo.fields, hk]
    have hvs : t.values = [] := by simp [TypeInfo.values, hk]
    have hunit : verifyUnit t = [] ↔
        ∃ n, getInt t.attrs "addressable_unit_size" = some n ∧ (n = 1 ∨ n = 8) := by
      simp only [verifyUnit, hk]
      cases getInt t.attrs "addressable_unit_size" with
      | none => simp
      | some n => by_cases h : n = 1 ∨ n = 8 <;> simp [h]
    simp only [hf, hvs, List.flatMap_nil, verifySize, verifyEnumWidth, sizeOfBits, enumValues, hk,
      hunit, true_and, and_true]
    constructor
    · rintro ⟨e, a, u, n, pr⟩
      exact ⟨a, n, hp.1 ⟨e, pr⟩, (fun vs h => by rw [hk] at h; cases h),
        (fun fs h => by rw [hk] at h; cases h), fun _ => u⟩
    · intro h
      have := hp.2 h.params
      exact ⟨this.1, h.attrs, h.external hk, h.name, this.2⟩
  | enum vs =>
    have hf : t.fields = [] := by simp [TypeInfo.fields, hk]
    have hvs : t.values = vs := by simp [TypeInfo.values, hk]
    have he := enumOK_iff t vs hk wf.signedLit
    simp only [hf, hvs, List.flatMap_nil, verifySize, verifyUnit, sizeOfBits, hk, true_and, and_true]
    constructor
    · rintro ⟨e, ⟨a, va⟩, w, ⟨⟨vn, n⟩, ev⟩, pr⟩
      refine ⟨a, n, hp.1 ⟨e, pr⟩, ?_, (fun fs h => by rw [hk] at h; cases h),
        (fun h => by rw [hk] at h; cases h)⟩
      intro vs' h
      rw [hk] at h; cases h
      exact he.1 ⟨w, ev, va, vn⟩
    · intro h
      have := hp.2 h.params
      obtain ⟨w, ev, va, vn⟩ := he.2 (h.enum vs hk)
      exact ⟨this.1, ⟨h.attrs, va⟩, w, ⟨⟨vn, h.name⟩, ev⟩, this.2⟩
  | «structure» fs =>
    have hf : t.fields = fs := by simp [TypeInfo.fields, hk]
    have hvs : t.values = [] := by simp [TypeInfo.values, hk]
    have hu : effUnit t = .bit ∨ effUnit t = .byte := by
      have : effUnit t = t.unit := by simp [effUnit, hk]
      rw [this]; exact wf.unit fs hk
    have hsz := verifySize_struct t fs hk
    have hbits := sizeOfBits_struct t fs hk
    have hfield : ∀ f ∈ fs, _ := fun f hfm =>
      fieldOK_iff p d t f hu (wf.bounds f (by rw [hf]; exact hfm))
    simp only [List.flatMap_eq_nil_iff] at hp
    simp only [hf, hvs, List.flatMap_nil, verifyEnumWidth, verifyUnit, enumValues, hk,
      and_true, List.flatMap_eq_nil_iff, hsz, hbits]
    constructor
    · rintro ⟨e, ⟨a, fa⟩, ⟨sz, fv⟩, ⟨⟨fc, b⟩, n⟩, pr⟩
      refine ⟨a, n, hp.1 ⟨e, pr⟩, (fun vs h => by rw [hk] at h; cases h), ?_,
        (fun h => by rw [hk] at h; cases h)⟩
      intro fs' h
      rw [hk] at h; cases h
      exact ⟨fun f hfm => (hfield f hfm).1 ⟨fa f hfm, fv f hfm, fc f hfm⟩, sz, b⟩
    · intro h
      have := hp.2 h.params
      have hs := h.struct fs hk
      refine ⟨this.1, ⟨h.attrs, fun f hfm => ((hfield f hfm).2 (hs.fieldsOK f hfm)).1⟩,
        ⟨hs.declaredSize, fun f hfm => ((hfield f hfm).2 (hs.fieldsOK f hfm)).2.1⟩,
        ⟨⟨fun f hfm => ((hfield f hfm).2 (hs.fieldsOK f hfm)).2.2, hs.bits⟩, h.name⟩, this.2⟩

theorem backEndErrs_nil (exp : List String) (attrs : List Attr) :
    backEndErrs exp attrs = [] ↔ ∀ a ∈ attrs, a.backEnd ∈ exp := by
  simp only [backEndErrs, List.flatMap_eq_nil_iff]
  refine forall_congr' fun a => forall_congr' fun _ => ?_
  by_cases h : a.backEnd ∈ exp <;> simp [h]

theorem backEndsOfType_nil (exp : List String) (t : TypeInfo) :
    backEndsOfType exp t = [] ↔ ∀ a ∈ attrsOfTypeInfo t, a.backEnd ∈ exp := by
  simp only [backEndsOfType, attrsOfTypeInfo, List.append_eq_nil_iff, backEndErrs_nil,
    List.flatMap_eq_nil_iff, List.mem_append, List.mem_flatMap]
  constructor
  · rintro ⟨⟨h2, h3⟩, h1⟩ a (( ha | ⟨f, hf, ha⟩) | ⟨v, hv, ha⟩)
    · exact h1 a ha
    · exact h2 f hf a ha
    · exact h3 v hv a ha
  · intro h
    exact ⟨⟨fun f hf a ha => h a (Or.inl (Or.inr ⟨f, hf, ha⟩)),
      fun v hv a ha => h a (Or.inr ⟨v, hv, ha⟩)⟩, fun a ha => h a (Or.inl (Or.inl ha))⟩

theorem moduleOK_iff (m : Module) :
    (checkAttrList AttrTable.moduleAttrs [] m.attrs = [] ∧ verifyBackEnds m = [] ∧
      staticRefErrs m = [] ∧ gateErrs false m = [] ∧ gateErrs true m = []) ↔ ModuleOK m := by
  rw [gateErrs_nil]
  simp only [checkAttrList_ok, verifyBackEnds, List.append_eq_nil_iff, backEndErrs_nil,
    staticRefErrs, List.flatMap_eq_nil_iff, walk_nil, backEndsOfType_nil, noVisit,
    and_true]
  have hb : (∀ b ∈ m.staticRefs, (if b = true then ([] : List EK) else [EK.staticRef]) = []) ↔
      ∀ b ∈ m.staticRefs, b = true := by
    refine forall_congr' fun b => forall_congr' fun _ => ?_
    cases b <;> simp
  rw [hb]
  constructor
  · rintro ⟨a, ⟨b1, b2⟩, r, g⟩; exact ⟨a, ⟨b1, b2⟩, r, g⟩
  · intro h; exact ⟨h.attrs, h.backEnds, h.staticRefs, h.gated⟩

theorem check_nil_iff (p : Program) :
    check p = [] ↔
      (passEarly p = [] ∧ passAttrs p = [] ∧ passVerify p = [] ∧ passConstraints p = [] ∧
        passDeferred p = []) := by
  unfold check
  by_cases h1 : passEarly p = []
  · by_cases h2 : passAttrs p = []
    · by_cases h3 : passVerify p = []
      · by_cases h4 : passConstraints p = []
        · simp [h1, h2, h3, h4]
        · simp [h1, h2, h3, h4]
      · simp [h1, h2, h3]
    · simp [h1, h2]
  · simp [h1]

theorem check_iff_realisable (p : Program) (wf : ∀ c ∈ allTypes p, TypeWF c.2) :
    check p = [] ↔ Realisable p := by
  rw [check_nil_iff, passEarly_nil, passAttrs_nil, passVerify_nil, passConstraints_nil]
  simp only [earlyByEntity, attrsByEntity, verifyByEntity, constraintsByEntity, passDeferred,
    List.append_eq_nil_iff, List.flatMap_eq_nil_iff]
  constructor
  · rintro ⟨e, ⟨ma, ta⟩, ⟨mb, tv⟩, ⟨⟨tc, sr⟩, g⟩, gd⟩
    refine ⟨fun m hm => (moduleOK_iff m).1 ⟨ma m hm, mb m hm, sr m hm, g m hm, gd m hm⟩,
      fun c hc => ?_⟩
    exact (typeOK_iff p c.1 c.2 (wf c hc)).1 ⟨by simpa [List.flatMap_eq_nil_iff] using e c hc,
      ta c hc, tv c hc, tc c hc⟩
  · rintro ⟨hm, ht⟩
    have T := fun c hc => (typeOK_iff p c.1 c.2 (wf c hc)).2 (ht c hc)
    have M := fun m hmm => (moduleOK_iff m).2 (hm m hmm)
    exact ⟨fun c hc => by simpa [List.flatMap_eq_nil_iff] using (T c hc).1,
      ⟨fun m hmm => (M m hmm).1, fun c hc => (T c hc).2.1⟩,
      ⟨fun m hmm => (M m hmm).2.1, fun c hc => (T c hc).2.2.1⟩,
      ⟨⟨fun c hc => (T c hc).2.2.2, fun m hmm => (M m hmm).2.2.1⟩,
        fun m hmm => (M m hmm).2.2.2.1⟩, fun m hmm => (M m hmm).2.2.2.2⟩

end Emboss.Constraints
