/-
C10: tokens separated by a blank are tokenized independently.

For the regenerated table: at a position where a token other than an open-ended one
(Comment / Documentation / BadDocumentation, which run to the end of the line) or an inner gap
starts, appending `blank :: anything` to the line changes the answer of *no* pattern
(`table_local`); hence covers compose across a blank (`covers_append_blank`).
-/
import Emboss.Lemmas.TokLineSpec
namespace Emboss.Tok
open Emboss.Regex Emboss.Tok.Class Emboss.Generated

/-! ### Generic: when appending text does not change `matchLen` -/

/-- The pattern contains no `$`. -/
def noEol : Regex → Bool
  | .eps => true
  | .chr _ => true
  | .seq a b => noEol a && noEol b
  | .alt a b => noEol a && noEol b
  | .rep r _ _ => noEol r
  | .eol => false

/-- Without `$` the language does not look at the context. -/
theorem lang_noEol {r pre rest} (h : Lang r pre rest) : noEol r = true → ∀ rest', Lang r pre rest' := by
  induction h with
  | eps rest => intro _ rest'; exact .eps rest'
  | chr c x rest hm => intro _ rest'; exact .chr c x rest' hm
  | seq _ _ iha ihb =>
    intro hn rest'
    simp only [noEol, Bool.and_eq_true] at hn
    exact .seq (iha hn.1 _) (ihb hn.2 _)
  | altL _ ih =>
    intro hn rest'
    simp only [noEol, Bool.and_eq_true] at hn
    exact .altL (ih hn.1 _)
  | altR _ ih =>
    intro hn rest'
    simp only [noEol, Bool.and_eq_true] at hn
    exact .altR (ih hn.2 _)
  | repStop => intro _ rest'; exact .repStop
  | repIter hmx _ _ iha ihb =>
    intro hn rest'
    simp only [noEol] at hn
    exact .repIter hmx (iha hn _) (ihb (by simpa only [noEol] using hn) _)
  | eol => intro hn; simp [noEol] at hn

/-- Equal sets of match lengths ⇒ equal answers (for patterns where backtracking = longest). -/
theorem matchLen_congr {r : Regex} {s s' : List Char} (h : PriorityIsLongest r)
    (e : ∀ m, MatchesLen r s m ↔ MatchesLen r s' m) : matchLen r s' = matchLen r s := by
  cases hr : matchLen r s with
  | ok n =>
    obtain ⟨h1, h2⟩ := (pl_ok h).mp hr
    exact (pl_ok h).mpr ⟨(e n).mp h1, fun m hm => h2 m ((e m).mpr hm)⟩
  | fail =>
    have hl := h s
    rw [hr] at hl
    cases hr' : matchLen r s' with
    | ok n' => exact absurd ((e n').mpr ((pl_ok h).mp hr').1) (hl n')
    | fail => rfl
    | fuel => exact absurd hr' (matchLen_no_fuel _ _)
  | fuel => exact absurd hr (matchLen_no_fuel _ _)

/-- No match at all on either string ⇒ both fail. -/
theorem matchLen_both_fail {r : Regex} {s s' : List Char} (h : PriorityIsLongest r)
    (h1 : ∀ m, ¬ MatchesLen r s m) (h2 : ∀ m, ¬ MatchesLen r s' m) : matchLen r s' = matchLen r s :=
  matchLen_congr h (fun m => ⟨fun x => absurd x (h1 m), fun x => absurd x (h2 m)⟩)

/-- If no match of `r` on `u ++ v` reaches beyond `u`, the answer on `u ++ v` is the answer on `u`. -/
theorem matchLen_append_local {r : Regex} {u v : List Char} (hn : noEol r = true)
    (h : PriorityIsLongest r) (hx : ∀ m, u.length < m → ¬ MatchesLen r (u ++ v) m) :
    matchLen r (u ++ v) = matchLen r u := by
  apply matchLen_congr h
  intro m
  constructor
  · rintro ⟨hle, hl⟩
    refine ⟨by simp only [List.length_append]; omega, ?_⟩
    rw [List.take_append_of_le_length hle]
    exact lang_noEol hl hn _
  · intro hm
    by_cases hlt : u.length < m
    · exact absurd hm (hx m hlt)
    · obtain ⟨_, hl⟩ := hm
      have hle : m ≤ u.length := by omega
      rw [List.take_append_of_le_length hle] at hl
      exact ⟨hle, lang_noEol hl hn _⟩

/-- Every match of the pattern consists of non-blank characters. -/
def BlankFree (r : Regex) : Prop :=
  ∀ pre rest, Lang r pre rest → pre.all (fun y => !isSpaceChar y) = true

theorem cSpace_mem (y : Char) : cSpace.mem y = isSpaceChar y := by
  simp [cSpace, CClass.mem, CItem.mem, isSpaceChar]

theorem word_not_space (y : Char) (h : isWordChar y = true) : isSpaceChar y = false := by
  rw [← cSpace_mem]; exact space_not_word y h

theorem blankFree_wordOnly {r : Regex} (hw : WordOnly r) : BlankFree r := by
  intro pre rest hl
  have h := lang_wordOnly hl hw
  rw [List.all_eq_true] at h ⊢
  intro y hy
  rw [word_not_space y (h y hy)]; rfl

theorem mem_take_append_cons {u : List Char} {c : Char} {b : List Char} {m : Nat} (h : u.length < m) :
    c ∈ (u ++ c :: b).take m ∧ ∀ y ∈ u, y ∈ (u ++ c :: b).take m := by
  rw [List.take_append, List.take_of_length_le (Nat.le_of_lt h),
    show m - u.length = (m - u.length - 1) + 1 by omega, List.take_succ_cons]
  constructor
  · simp
  · intro y hy; simp [hy]

theorem no_cross_blankFree {r : Regex} {u : List Char} {c : Char} {b : List Char} (hb : BlankFree r)
    (hc : isSpaceChar c = true) : ∀ m, u.length < m → ¬ MatchesLen r (u ++ c :: b) m := by
  rintro m hlt ⟨_, hl⟩
  have h := List.all_eq_true.mp (hb _ _ hl) c (mem_take_append_cons hlt).1
  rw [hc] at h; cases h

theorem noEol_litRegex : ∀ l : List Char, noEol (litRegex l) = true := by
  intro l
  induction l with
  | nil => rfl
  | cons c cs ih =>
    cases cs with
    | nil => rfl
    | cons d ds => simp only [litRegex, noEol, Bool.true_and]; exact ih

/-! ### The table -/

theorem punct_noblank : punctLiterals.all (fun l => l.toList.all (fun c => !isSpaceChar c)) = true := by
  decide

theorem blankFree_punct {l : String} (hl : l ∈ punctLiterals) : BlankFree (litRegex l.toList) := by
  intro pre rest h
  rw [lang_litRegex_inv _ h]
  exact List.all_eq_true.mp punct_noblank l hl

/-- All of `pre` is in a match of `plus c` / `star c`. -/
theorem lang_star_of_all (c : CClass) (rest : List Char) : ∀ l : List Char, l.all c.mem = true →
    Lang (star c) l rest := by
  intro l
  induction l with
  | nil => intro _; exact .repStop
  | cons y l ih =>
    intro h
    simp only [List.all_cons, Bool.and_eq_true] at h
    have := Lang.repIter (r := .chr c) (mn := 0) (mx := none) (u := [y]) (v := l) (rest := rest)
      (by simp) (.chr c y _ h.1) (ih h.2)
    simpa [star] using this

theorem lang_plus_of_all (c : CClass) (rest : List Char) (y : Char) (l : List Char)
    (h : (y :: l).all c.mem = true) : Lang (plus c) (y :: l) rest := by
  simp only [List.all_cons, Bool.and_eq_true] at h
  have := Lang.repIter (r := .chr c) (mn := 1) (mx := none) (u := [y]) (v := l) (rest := rest)
    (by simp) (.chr c y _ h.1) (lang_star_of_all c rest l h.2)
  simpa [plus] using this

theorem lang_plus_ne {c : CClass} {pre rest : List Char} (h : Lang (plus c) pre rest) : pre ≠ [] := by
  unfold plus at h
  cases h with
  | repIter _ hu _ =>
    obtain ⟨x, rfl, _⟩ := lang_chr_inv hu
    simp

theorem string_head {pre rest : List Char} (h : Lang reString pre rest) : ∃ q, pre = '"' :: q := by
  unfold reString at h
  obtain ⟨a, b, rfl, h1, _⟩ := lang_seq_inv h
  obtain ⟨x, rfl, hx⟩ := lang_chr_inv h1
  have : x = '"' := by simpa using hx
  subst this
  exact ⟨b, rfl⟩

/-- A match of the String pattern determines the answer (its language is prefix-free). -/
theorem string_unique {s : List Char} {m : Nat} (hm : MatchesLen reString s m) :
    matchLen reString s = .ok m := by
  obtain ⟨p, hp, hlen, hl⟩ := matches_prefix hm
  have hre : reString = .seq (.chr (litC '"')) (.seq (.rep strItem 0 none) (.chr (litC '"'))) := rfl
  rw [hre] at hl
  obtain ⟨a, b, rfl, h1, h2⟩ := lang_seq_inv hl
  obtain ⟨x, rfl, hx⟩ := lang_chr_inv h1
  obtain ⟨T, c, rfl, h3, h4⟩ := lang_seq_inv h2
  obtain ⟨y, rfl, hy⟩ := lang_chr_inv h4
  have hx' : x = '"' := by simpa using hx
  have hy' : y = '"' := by simpa using hy
  subst hx' hy'
  have hT := lang_strItems h3 0 none rfl
  obtain ⟨r, hr⟩ := hp
  rw [← hr, string_value]
  simp only [List.cons_append, List.nil_append, List.append_assoc, beq_self_eq_true, if_true]
  rw [strScan_items hT]
  simp only [List.length_cons, List.length_append, List.length_nil] at hlen
  show MRes.ok (1 + (T.length + 1)) = MRes.ok m
  rw [← hlen, MRes.ok.injEq]

/-- What must hold at the front of `u` for `table_local`. -/
structure LocalCond (u : List Char) : Prop where
  notHash : u.head? ≠ some '#'
  notDashes : ¬ ['-', '-'] <+: u
  str : u.head? = some '"' → ∃ n, matchLen reString u = .ok n
  nonblank : ∃ y ∈ u, isSpaceChar y = false

theorem prefix_of_litThen {l : List Char} {R : Regex} {s : List Char} {m : Nat}
    (h : MatchesLen (litThen l R) s m) : l <+: s := by
  obtain ⟨q, hq, _⟩ := lang_litThen_inv l h.2
  have : l <+: s.take m := ⟨q, hq.symm⟩
  exact this.trans (List.take_prefix _ _)

theorem dashes_append {u : List Char} {c : Char} {b : List Char} (hne : u ≠ [])
    (hc : isSpaceChar c = true) (h : ['-', '-'] <+: u ++ c :: b) : ['-', '-'] <+: u := by
  cases u with
  | nil => exact absurd rfl hne
  | cons x t =>
    cases t with
    | nil =>
      obtain ⟨r, hr⟩ := h
      simp only [List.cons_append, List.nil_append, List.cons.injEq] at hr
      have : isSpaceChar '-' = true := by rw [hr.2.1]; exact hc
      exact absurd this (by decide)
    | cons y t' =>
      obtain ⟨r, hr⟩ := h
      simp only [List.cons_append, List.nil_append, List.cons.injEq] at hr
      exact ⟨t', by rw [← hr.1, ← hr.2.1]; rfl⟩

theorem head_append_ne {u v : List Char} (hne : u ≠ []) : (u ++ v).head? = u.head? := by
  cases u with
  | nil => exact absurd rfl hne
  | cons x t => rfl

theorem head_of_prefix {l s : List Char} {x : Char} (h : (x :: l) <+: s) : s.head? = some x := by
  obtain ⟨r, hr⟩ := h
  rw [← hr]; rfl

/-- **Locality.**  Under `LocalCond u`, appending a blank and anything else changes the answer
of no pattern of the table. -/
theorem table_local {u : List Char} {c : Char} {b : List Char} (hu : LocalCond u) (hne : u ≠ [])
    (hc : isSpaceChar c = true) :
    ∀ q ∈ tokTable.pats, matchLen q.re (u ++ c :: b) = matchLen q.re u := by
  intro q hq
  have hpl := priority_is_longest_all q hq
  have k1 : ∀ {r : Regex}, PriorityIsLongest r → BlankFree r → noEol r = true →
      matchLen r (u ++ c :: b) = matchLen r u :=
    fun hp hb hn => matchLen_append_local hn hp (no_cross_blankFree hb hc)
  have kw : ∀ {r : Regex}, PriorityIsLongest r → WordOnly r → noEol r = true →
      matchLen r (u ++ c :: b) = matchLen r u :=
    fun hp hw hn => k1 hp (blankFree_wordOnly hw) hn
  -- patterns `l R` with a literal head `l` that is a prefix of neither string
  have nopre : ∀ {l : List Char} {R : Regex}, PriorityIsLongest (litThen l R) →
      ¬ l <+: u → ¬ l <+: u ++ c :: b → matchLen (litThen l R) (u ++ c :: b) = matchLen (litThen l R) u :=
    fun hp h1 h2 => matchLen_both_fail hp (fun m hm => h1 (prefix_of_litThen hm))
      (fun m hm => h2 (prefix_of_litThen hm))
  have ndash : ¬ ['-', '-'] <+: u ++ c :: b := fun h => hu.notDashes (dashes_append hne hc h)
  have ndash3 : ∀ s : List Char, ¬ ['-', '-'] <+: s → ¬ ['-', '-', ' '] <+: s := by
    intro s h h3
    exact h ((List.prefix_append ['-', '-'] [' ']).trans h3)
  rw [tokTable_pats, List.mem_append, List.mem_map] at hq
  rcases hq with ⟨l, hl, rfl⟩ | hq
  · rw [List.mem_append] at hl
    rcases hl with hl | hl
    · exact k1 hpl (blankFree_punct hl) (noEol_litRegex _)
    · exact kw hpl (wordOnly_litRegex _ (List.all_eq_true.mp keywords_words l hl)) (noEol_litRegex _)
  · simp only [expectedRegexes, List.mem_cons, List.not_mem_nil, or_false] at hq
    rcases hq with rfl | rfl | rfl | rfl | rfl | rfl | rfl | rfl | rfl | rfl | rfl | rfl | rfl | rfl |
      rfl | rfl | rfl | rfl | rfl | rfl | rfl | rfl | rfl
    · exact kw hpl (wordOnly_litThen _ _ (by decide) wo_resCamelTail) (by decide)
    · exact kw hpl (wordOnly_litThen _ _ (by decide) wo_resSnakeTail) (by decide)
    · exact kw hpl (wordOnly_litThen _ _ (by decide) wo_resShoutyTail) (by decide)
    · -- String
      by_cases hq : u.head? = some '"'
      · obtain ⟨n0, hn0⟩ := hu.str hq
        apply matchLen_append_local (by decide) hpl
        intro m hlt hm
        have h1 : MatchesLen reString (u ++ c :: b) n0 := by
          obtain ⟨hle, hl⟩ := matchLen_sound _ _ _ hn0
          refine ⟨by simp only [List.length_append]; omega, ?_⟩
          rw [List.take_append_of_le_length hle]
          exact lang_noEol hl (by decide) _
        have e1 := string_unique h1
        have e2 := string_unique hm
        rw [e1] at e2
        simp only [MRes.ok.injEq] at e2
        have := matchLen_le _ _ _ hn0
        omega
      · have nohead : ∀ s : List Char, s.head? = u.head? → ∀ m, ¬ MatchesLen reString s m := by
          intro s hs m hm
          obtain ⟨qq, hqq⟩ := string_head hm.2
          have : s.head? = some '"' := by
            have hp : ('"' :: qq) <+: s := by rw [← hqq]; exact List.take_prefix _ _
            exact head_of_prefix hp
          exact hq (by rw [← hs, this])
        exact matchLen_both_fail hpl (nohead u rfl) (nohead _ (head_append_ne hne))
    · exact kw hpl wo_digit (by decide)
    · exact kw hpl (wordOnly_grouped wo_digit 3 3) (by decide)
    · exact kw hpl (wordOnly_litThen _ _ (by decide) wo_hex) (by decide)
    · exact kw hpl (wordOnly_litThen _ _ (by decide) ⟨wo_us, wordOnly_grouped wo_hex 4 4⟩) (by decide)
    · exact kw hpl (wordOnly_litThen _ _ (by decide) ⟨wo_us, wordOnly_grouped wo_hex 8 8⟩) (by decide)
    · exact kw hpl (wordOnly_litThen _ _ (by decide) wo_bin) (by decide)
    · exact kw hpl (wordOnly_litThen _ _ (by decide) ⟨wo_us, wordOnly_grouped wo_bin 4 4⟩) (by decide)
    · exact kw hpl (wordOnly_litThen _ _ (by decide) ⟨wo_us, wordOnly_grouped wo_bin 8 8⟩) (by decide)
    · exact kw hpl ⟨wordOnly_litRegex _ (by decide), wordOnly_litRegex _ (by decide)⟩ (by decide)
    · exact kw hpl ⟨wo_lower, wo_snakeTail⟩ (by decide)
    · exact kw hpl ⟨wo_upper, wo_shoutyTail, wo_shoutyMid, wo_shoutyTail⟩ (by decide)
    · exact kw hpl ⟨wo_upper, wo_camelTail, wo_lower, wo_camelTail⟩ (by decide)
    · exact nopre hpl (ndash3 _ hu.notDashes) (ndash3 _ ndash)
    · exact nopre hpl hu.notDashes ndash
    · exact nopre hpl hu.notDashes ndash
    · -- whitespace: some character of `u` is not blank
      apply matchLen_append_local (by decide) hpl
      rintro m hlt ⟨_, hl⟩
      obtain ⟨y, hy, hyb⟩ := hu.nonblank
      have hall := lang_rep_chr hl cSpace 1 none rfl
      have := List.all_eq_true.mp hall y ((mem_take_append_cons hlt).2 y hy)
      rw [cSpace_mem, hyb] at this; cases this
    · -- comment
      have h1 : ¬ ['#'] <+: u := fun h => hu.notHash (head_of_prefix h)
      have h2 : ¬ ['#'] <+: u ++ c :: b := fun h => hu.notHash (by rw [← head_append_ne hne]; exact head_of_prefix h)
      exact nopre hpl h1 h2
    · exact kw hpl ⟨wo_digit, wo_radix, wo_hexUs⟩ (by decide)
    · exact kw hpl wo_word (by decide)

/-- Hence the best match is unchanged. -/
theorem isBest_append_blank {u : List Char} {n : Nat} {sy : Option String} {c : Char} {b : List Char}
    (h : IsBest tokTable.pats u n sy) (hu : LocalCond u) (hne : u ≠ []) (hc : isSpaceChar c = true) :
    IsBest tokTable.pats (u ++ c :: b) n sy := by
  obtain ⟨pre, p, post, hp, hm, hs, hpre, hpost⟩ := h
  have key := table_local (b := b) hu hne hc
  refine ⟨pre, p, post, hp, ?_, hs, ?_, ?_⟩
  · rw [key p (by rw [hp]; simp)]; exact hm
  · intro q hq m hqm
    rw [key q (by rw [hp]; simp [hq])] at hqm
    exact hpre q hq m hqm
  · intro q hq m hqm
    rw [key q (by rw [hp]; simp [hq])] at hqm
    exact hpost q hq m hqm

end Emboss.Tok
