/- Lemmas for C07's static_assert obligations. -/
import Emboss.Model.StaticAsserts
import Emboss.Lemmas.CppInt
namespace Emboss.StaticAsserts
open Emboss.CppInt

theorem coprime_two_of_odd (d : Nat) (h : ¬ 2 ∣ d) : Nat.Coprime d 2 := by
  have h1 : Nat.gcd d 2 ∣ 2 := Nat.gcd_dvd_right d 2
  have h2 : Nat.gcd d 2 ∣ d := Nat.gcd_dvd_left d 2
  have : Nat.gcd d 2 ≤ 2 := Nat.le_of_dvd (by decide) h1
  have hpos : 0 < Nat.gcd d 2 := Nat.gcd_pos_of_pos_right d (by decide)
  by_cases h3 : Nat.gcd d 2 = 2
  · rw [h3] at h2; exact absurd h2 h
  · show Nat.gcd d 2 = 1
    omega

/-- a divisor of a power of two is a power of two -/
theorem dvd_two_pow (k d : Nat) (h : d ∣ 2 ^ k) : ∃ j, j ≤ k ∧ d = 2 ^ j := by
  induction k generalizing d with
  | zero =>
    have : d = 1 := Nat.dvd_one.mp (by simpa using h)
    exact ⟨0, Nat.le_refl _, by simp [this]⟩
  | succ k ih =>
    by_cases hd : 2 ∣ d
    · obtain ⟨e, rfl⟩ := hd
      have : e ∣ 2 ^ k := by
        rw [Nat.pow_succ, Nat.mul_comm (2 ^ k) 2] at h
        exact Nat.dvd_of_mul_dvd_mul_left (k := 2) (by decide) h
      obtain ⟨j, hj, rfl⟩ := ih e this
      exact ⟨j + 1, by omega, by rw [Nat.pow_succ, Nat.mul_comm]⟩
    · have hc : Nat.Coprime d (2 ^ (k + 1)) := Nat.Coprime.pow_right _ (coprime_two_of_odd d hd)
      have : d ∣ 1 := hc.dvd_of_dvd_mul_left (by simpa using h)
      exact ⟨0, by omega, by simpa using Nat.dvd_one.mp this⟩

/-- `ContiguousBuffer`'s two assertions are invariant under `OffsetStorageType`: starting
from a power-of-two alignment (1 for `Make…View`, the caller's for `MakeAligned…View`), every
buffer type the generated accessors form has a power-of-two alignment and an offset below it. -/
theorem offsetStorage_ok (k off subAl subOff : Nat) :
    (∃ j, (offsetStorage (2 ^ k) off subAl subOff).1 = 2 ^ j) ∧
    (offsetStorage (2 ^ k) off subAl subOff).2 < (offsetStorage (2 ^ k) off subAl subOff).1 := by
  simp only [offsetStorage]
  obtain ⟨j, _, hj⟩ := dvd_two_pow k _ (Nat.gcd_dvd_left (2 ^ k) subAl)
  refine ⟨⟨j, hj⟩, ?_⟩
  apply Nat.mod_lt
  rw [hj]
  exact Nat.pow_pos (by decide)

theorem leastWidth_ok (b : Nat) (h : b ≤ 64) : ∃ w, leastWidth b = some w ∧ b ≤ w ∧ w ≤ 64 := by
  unfold leastWidth
  by_cases h1 : b ≤ 8
  · exact ⟨8, by simp [h1], h1, by decide⟩
  · by_cases h2 : b ≤ 16
    · exact ⟨16, by simp [h1, h2], h2, by decide⟩
    · by_cases h3 : b ≤ 32
      · exact ⟨32, by simp [h1, h2, h3], h3, by decide⟩
      · exact ⟨64, by simp [h1, h2, h3, h], h, by decide⟩

end Emboss.StaticAsserts

/-! ## intermediate type of arithmetic / comparison operations -/
namespace Emboss.StaticAsserts
open Emboss.CppInt

theorem hullOf_bounds (cs : List (Int × Int)) : ∀ h : Int × Int,
    ((hullOf h cs).1 ≤ h.1 ∧ h.2 ≤ (hullOf h cs).2) ∧
    (∀ c ∈ cs, (hullOf h cs).1 ≤ c.1 ∧ c.2 ≤ (hullOf h cs).2) ∧
    (∀ lo : Int, lo ≤ h.1 → (∀ c ∈ cs, lo ≤ c.1) → lo ≤ (hullOf h cs).1) ∧
    (∀ hi : Int, h.2 ≤ hi → (∀ c ∈ cs, c.2 ≤ hi) → (hullOf h cs).2 ≤ hi) := by
  induction cs with
  | nil => intro h; simp [hullOf]
  | cons c cs ih =>
    intro h
    obtain ⟨⟨i1, i2⟩, i3, i4, i5⟩ := ih (min h.1 c.1, max h.2 c.2)
    simp only [hullOf]
    simp only at i1 i2
    refine ⟨⟨by omega, by omega⟩, ?_, ?_, ?_⟩
    · intro d hd
      rcases List.mem_cons.mp hd with rfl | hd
      · constructor <;> omega
      · exact i3 d hd
    · intro lo h1 h2
      apply i4 lo
      · have := h2 c (List.mem_cons_self ..); simp only; omega
      · intro d hd; exact h2 d (List.mem_cons_of_mem _ hd)
    · intro hi h1 h2
      apply i5 hi
      · have := h2 c (List.mem_cons_self ..); simp only; omega
      · intro d hd; exact h2 d (List.mem_cons_of_mem _ hd)

theorem typeForRange_holds (lo hi : Int) (ty : IntTy) (h : typeForRange lo hi = some ty) (v : Int)
    (hv : lo ≤ v ∧ v ≤ hi) : ty.holds v = true := by
  unfold typeForRange at h
  split at h
  · cases h; exact holds_i32 v (by omega)
  · split at h
    · cases h; exact holds_u32 v (by omega)
    · split at h
      · cases h; exact holds_i64 v (by omega)
      · split at h
        · cases h; exact holds_u64 v (by omega)
        · cases h

/-- Accepted by the front end ⇒ all clauses fit `int64_t`, or all fit `uint64_t`. -/
theorem frontAcceptsOp_uniform (cl : List (Int × Int)) (h : frontAcceptsOp cl = true) :
    (∀ c ∈ cl, fitsI64 c = true) ∨ (∀ c ∈ cl, fitsU64 c = true) := by
  simp only [frontAcceptsOp, mixedSignedness, Bool.and_eq_true, List.all_eq_true, Bool.or_eq_true,
    Bool.not_eq_true', Bool.and_eq_false_iff, List.any_eq_false, Bool.not_eq_true,
    Bool.not_eq_false'] at h
  obtain ⟨hfit, hmix⟩ := h
  rcases hmix with h1 | h2
  · left
    intro c hc
    have := h1 c hc
    simpa using this
  · right
    intro c hc
    have := h2 c hc
    rcases hfit c hc with hu | hi
    · exact hu
    · cases hu : fitsU64 c
      · simp [hi, hu] at this
      · rfl

end Emboss.StaticAsserts
