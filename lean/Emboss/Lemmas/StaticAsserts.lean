/- Lemmas for C07's static_assert obligations. -/
import Emboss.Model.StaticAsserts
import Emboss.Lemmas.CppInt
namespace Emboss.StaticAsserts
open Emboss.CppInt

theorem coprime_two_of_odd (d : Nat) (h : ¬ 2 ∣ d) : Nat.Coprime d 2 := by
  have h1 : Nat.gcd d 2 ∣ 2 := Nat.gcd_dvd_right d 2
  have h2 : Nat.gcd d 2 ∣ d := Nat.gcd_dvd_left d 2
  have : Nat.gcd d 2 ≤ 2 := Nat.le_of_dvd (by decide) h1
  have hpos : 0 < Nat.gcd d 2 := Nat.gcd_pos_of_pos_right d (by decide)
  by_cases h3 : Nat.gcd d 2 = 2
  · rw [h3] at h2; exact absurd h2 h
  · show Nat.gcd d 2 = 1
    omega

/-- a divisor of a power of two is a power of two -/
theorem dvd_two_pow (k d : Nat) (h : d ∣ 2 ^ k) : ∃ j, j ≤ k ∧ d = 2 ^ j := by
  induction k generalizing d with
  | zero =>
    have : d = 1 := Nat.dvd_one.mp (by simpa using h)
    exact ⟨0, Nat.le_refl _, by simp [this]⟩
  | succ k ih =>
    by_cases hd : 2 ∣ d
    · obtain ⟨e, rfl⟩ := hd
      have : e ∣ 2 ^ k := by
        rw [Nat.pow_succ, Nat.mul_comm (2 ^ k) 2] at h
        exact Nat.dvd_of_mul_dvd_mul_left (k := 2) (by decide) h
      obtain ⟨j, hj, rfl⟩ := ih e this
      exact ⟨j + 1, by omega, by rw [Nat.pow_succ, Nat.mul_comm]⟩
    · have hc : Nat.Coprime d (2 ^ (k + 1)) := Nat.Coprime.pow_right _ (coprime_two_of_odd d hd)
      have : d ∣ 1 := hc.dvd_of_dvd_mul_left (by simpa using h)
      exact ⟨0, by omega, by simpa using Nat.dvd_one.mp this⟩

/-- `ContiguousBuffer`'s two assertions are invariant under `OffsetStorageType`: starting
from a power-of-two alignment (1 for `Make…View`, the caller's for `MakeAligned…View`), every
buffer type the generated accessors form has a power-of-two alignment and an offset below it. -/
theorem offsetStorage_ok (k off subAl subOff : Nat) :
    (∃ j, (offsetStorage (2 ^ k) off subAl subOff).1 = 2 ^ j) ∧
    (offsetStorage (2 ^ k) off subAl subOff).2 < (offsetStorage (2 ^ k) off subAl subOff).1 := by
  simp only [offsetStorage]
  obtain ⟨j, _, hj⟩ := dvd_two_pow k _ (Nat.gcd_dvd_left (2 ^ k) subAl)
  refine ⟨⟨j, hj⟩, ?_⟩
  apply Nat.mod_lt
  rw [hj]
  exact Nat.pow_pos (by decide)

theorem leastWidth_ok (b : Nat) (h : b ≤ 64) : ∃ w, leastWidth b = some w ∧ b ≤ w ∧ w ≤ 64 := by
  unfold leastWidth
  by_cases h1 : b ≤ 8
  · exact ⟨8, by simp [h1], h1, by decide⟩
  · by_cases h2 : b ≤ 16
    · exact ⟨16, by simp [h1, h2], h2, by decide⟩
    · by_cases h3 : b ≤ 32
      · exact ⟨32, by simp [h1, h2, h3], h3, by decide⟩
      · exact ⟨64, by simp [h1, h2, h3, h], h, by decide⟩

end Emboss.StaticAsserts
