/-
C14 — the located attribute check erases to the proven one, and its locations are attributes
of the list.
-/
import Emboss.Model.ConstraintsLoc
namespace Emboss.Constraints

theorem seenAt_none (key : String × Bool) (seen : List ((String × Bool) × Nat)) :
    seenAt key seen = none ↔ key ∉ seen.map (·.1) := by
  induction seen with
  | nil => simp [seenAt]
  | cons h t ih =>
    obtain ⟨k, j⟩ := h
    simp only [seenAt, List.map_cons, List.mem_cons, not_or]
    by_cases hk : k = key
    · simp [hk]
    · simp only [hk, if_false, ih]
      constructor
      · intro h; exact ⟨fun e => hk e.symm, h⟩
      · intro h; exact h.2

theorem seenAt_some {key : String × Bool} {seen : List ((String × Bool) × Nat)} {j : Nat}
    (h : seenAt key seen = some j) : key ∈ seen.map (·.1) ∧ (key, j) ∈ seen := by
  induction seen with
  | nil => simp [seenAt] at h
  | cons hd t ih =>
    obtain ⟨k, j'⟩ := hd
    simp only [seenAt] at h
    by_cases hk : k = key
    · simp only [hk, if_true, Option.some.injEq] at h
      subst h; subst hk
      simp
    · simp only [hk, if_false] at h
      have := ih h
      simp [this.1, this.2]

/-- Forgetting the locations gives exactly `checkAttrList`. -/
theorem checkAttrListL_kinds (specs : List (String × Bool)) (attrs : List Attr) :
    ∀ (seen : List ((String × Bool) × Nat)) (i : Nat),
      (checkAttrListL specs seen i attrs).map (·.k) = checkAttrList specs (seen.map (·.1)) attrs := by
  induction attrs with
  | nil => intro seen i; rfl
  | cons a rest ih =>
    intro seen i
    simp only [checkAttrListL, checkAttrList]
    by_cases hb : a.backEnd ≠ ""
    · rw [if_pos hb, if_pos hb]; exact ih seen (i + 1)
    · rw [if_neg hb, if_neg hb]
      cases hs : seenAt (a.name, a.isDefault) seen with
      | some j =>
        have hm := (seenAt_some hs).1
        simp only [hm, if_true, List.map_cons]
        rw [ih seen (i + 1)]
      | none =>
        have hm := (seenAt_none _ _).1 hs
        simp only [hm, if_false, List.map_append]
        have := ih (((a.name, a.isDefault), i) :: seen) (i + 1)
        simp only [List.map_cons] at this
        rw [this]
        congr 1
        by_cases hsp : (a.name, a.isDefault) ∈ specs
        · simp [hsp, Function.comp_def]
        · cases hd : a.isDefault with
          | true =>
            have hsp' : ¬ (a.name, true) ∈ specs := by rw [← hd]; exact hsp
            simp [hsp']
          | false =>
            have hsp' : ¬ (a.name, false) ∈ specs := by rw [← hd]; exact hsp
            simp [hsp']

/-- Every located error points at an attribute of the list (`i ≤ idx < i + length`), a
duplicate's note at an earlier one that was seen, and the spans follow the kind. -/
theorem checkAttrListL_where (specs : List (String × Bool)) (attrs : List Attr) :
    ∀ (seen : List ((String × Bool) × Nat)) (i : Nat), (∀ s ∈ seen, s.2 < i) →
      ∀ e ∈ checkAttrListL specs seen i attrs,
        i ≤ e.idx ∧ e.idx < i + attrs.length ∧ (∀ j, e.note = some j → j < e.idx) := by
  induction attrs with
  | nil => intro seen i _ e he; simp [checkAttrListL] at he
  | cons a rest ih =>
    intro seen i hseen e he
    simp only [checkAttrListL] at he
    have hrest : ∀ seen', (∀ s ∈ seen', s.2 < i + 1) → e ∈ checkAttrListL specs seen' (i + 1) rest →
        i ≤ e.idx ∧ e.idx < i + (a :: rest).length ∧ (∀ j, e.note = some j → j < e.idx) := by
      intro seen' hs' h
      have := ih seen' (i + 1) hs' e h
      simp only [List.length_cons]
      exact ⟨by omega, by omega, this.2.2⟩
    have hseen1 : ∀ s ∈ seen, s.2 < i + 1 := fun s hs => Nat.lt_succ_of_lt (hseen s hs)
    by_cases hb : a.backEnd ≠ ""
    · rw [if_pos hb] at he; exact hrest seen hseen1 he
    · rw [if_neg hb] at he
      cases hs : seenAt (a.name, a.isDefault) seen with
      | some j =>
        simp only [hs, List.mem_cons] at he
        rcases he with rfl | he
        · have hj := hseen _ (seenAt_some hs).2
          simp only [List.length_cons]
          refine ⟨Nat.le_refl _, by omega, ?_⟩
          intro j' hj'; cases hj'; exact hj
        · exact hrest seen hseen1 he
      | none =>
        simp only [hs, List.mem_append] at he
        rcases he with he | he
        · have hi : e.idx = i ∧ e.note = none := by
            split at he
            · simp only [List.mem_map] at he
              obtain ⟨k, _, rfl⟩ := he; exact ⟨rfl, rfl⟩
            · split at he <;>
                (simp only [List.mem_singleton] at he; rw [he]; exact ⟨rfl, rfl⟩)
          simp only [List.length_cons]
          refine ⟨by omega, by omega, ?_⟩
          intro j hj; rw [hi.2] at hj; cases hj
        · refine hrest _ ?_ he
          intro s hs'
          simp only [List.mem_cons] at hs'
          rcases hs' with rfl | hs'
          · exact Nat.lt_succ_self _
          · exact hseen1 s hs'

/-! ### field attribute errors -/

theorem attrIdxFrom_none (n : String) (attrs : List Attr) : ∀ i,
    attrIdxFrom n i attrs = none ↔ attrs.find? (fun a => a.named n) = none := by
  induction attrs with
  | nil => intro i; simp [attrIdxFrom]
  | cons a rest ih =>
    intro i
    simp only [attrIdxFrom, List.find?_cons]
    cases h : a.named n with
    | true => simp
    | false => simpa using ih (i + 1)

theorem attrIdxFrom_lt (n : String) (attrs : List Attr) : ∀ i j,
    attrIdxFrom n i attrs = some j → i ≤ j ∧ j < i + attrs.length := by
  induction attrs with
  | nil => intro i j h; simp [attrIdxFrom] at h
  | cons a rest ih =>
    intro i j h
    simp only [attrIdxFrom] at h
    cases hn : a.named n with
    | true =>
      simp only [hn, if_true, Option.some.injEq] at h
      subst h; simp only [List.length_cons]; omega
    | false =>
      simp only [hn] at h
      have := ih (i + 1) j (by simpa using h)
      simp only [List.length_cons]; omega

/-- forgetting the locations gives the proven per-field checks -/
theorem verifyFieldL_kinds (p : Program) (d : Option AVal) (t : TypeInfo) (f : Field) :
    (verifyFieldL p d t f).map (·.1) = verifyByteOrder p d t f ++ verifyRequires p f := by
  simp [verifyFieldL, List.map_map, Function.comp_def]

/-- a `[requires]` placement error points at the field's own `[requires]` attribute -/
theorem requires_located (p : Program) (f : Field) (k : EK) (hk : k ∈ verifyRequires p f)
    (hr : k = .requiresArray ∨ k = .requiresType) :
    ∃ i, fieldErrAt f k = .attrValue i ∧ i < f.attrs.length := by
  have hsome : attrIdxFrom "requires" 0 f.attrs ≠ none := by
    intro hnone
    have hf := (attrIdxFrom_none "requires" f.attrs 0).1 hnone
    have hg : getAttr f.attrs "requires" = none := by simp [getAttr, hf]
    simp [verifyRequires, hg] at hk
  cases hi : attrIdxFrom "requires" 0 f.attrs with
  | none => exact absurd hi hsome
  | some i =>
    have hlt := (attrIdxFrom_lt "requires" f.attrs 0 i hi).2
    refine ⟨i, ?_, by omega⟩
    rcases hr with rfl | rfl <;> simp [fieldErrAt, ownAt, hi]

end Emboss.Constraints
