/-
Helper lemmas for C12: `_construct_symbol_tables` (insertion with duplicate detection) and
lookup by canonical name.
-/
import Emboss.Spec.Scope
namespace Emboss.Scope

def keys (T : Table) : List Path := T.map (·.key)

theorem lookup_eq_none_iff (T : Table) (k : Path) : lookup T k = none ↔ k ∉ keys T := by
  unfold lookup keys
  rw [List.find?_eq_none]
  simp only [decide_eq_true_eq, List.mem_map, not_exists, not_and]

theorem insertAll_nil (st : Table × List Err) : insertAll st [] = st := rfl

theorem insertAll_cons (st : Table × List Err) (d : Decl) (ds : List Decl) :
    insertAll st (d :: ds) = insertAll (insert st d) ds := rfl

/-- the error accumulator is only ever appended to -/
theorem insertAll_acc (T : Table) (errs : List Err) (ds : List Decl) :
    insertAll (T, errs) ds = ((insertAll (T, []) ds).1, errs ++ (insertAll (T, []) ds).2) := by
  induction ds generalizing T errs with
  | nil => simp [insertAll_nil]
  | cons d ds ih =>
    rw [insertAll_cons, insertAll_cons]
    unfold insert
    cases h : lookup T d.key with
    | some o =>
      simp only [List.nil_append]
      rw [ih T (errs ++ [Err.duplicate d.name d.loc o.loc]), ih T [Err.duplicate d.name d.loc o.loc]]
      simp
    | none =>
      simp only
      rw [ih (T ++ [d.entry]) errs]

/-- no duplicate error ⇔ the new keys are pairwise distinct and not yet in the table; the table
then grows by exactly the new entries -/
theorem insertAll_ok_iff (T : Table) (ds : List Decl) :
    (insertAll (T, []) ds).2 = [] ↔
      (ds.map Decl.key).Nodup ∧ ∀ d ∈ ds, d.key ∉ keys T := by
  induction ds generalizing T with
  | nil => simp [insertAll_nil]
  | cons d ds ih =>
    rw [insertAll_cons]
    unfold insert
    cases h : lookup T d.key with
    | some o =>
      simp only [List.nil_append]
      rw [insertAll_acc]
      have hk : d.key ∈ keys T := by
        apply Classical.byContradiction
        intro hn
        rw [(lookup_eq_none_iff T d.key).2 hn] at h
        cases h
      constructor
      · intro he
        simp at he
      · intro ⟨_, hd⟩
        exact absurd hk (hd d (by simp))
    | none =>
      simp only
      have hk := (lookup_eq_none_iff T d.key).1 h
      rw [ih (T ++ [d.entry])]
      have hkeys : keys (T ++ [d.entry]) = keys T ++ [d.key] := by simp [keys, Decl.entry]
      rw [hkeys, List.map_cons, List.nodup_cons]
      constructor
      · intro ⟨hnd, hall⟩
        refine ⟨⟨?_, hnd⟩, ?_⟩
        · intro hmem
          obtain ⟨x, hx, hxk⟩ := List.mem_map.1 hmem
          exact hall x hx (List.mem_append.2 (Or.inr (by simp [hxk])))
        · intro x hx
          rcases List.mem_cons.1 hx with rfl | hx
          · exact hk
          · intro hm
            exact hall x hx (List.mem_append.2 (Or.inl hm))
      · intro ⟨⟨hnot, hnd⟩, hall⟩
        refine ⟨hnd, ?_⟩
        intro x hx hm
        rcases List.mem_append.1 hm with hm | hm
        · exact hall x (List.mem_cons_of_mem _ hx) hm
        · have : x.key = d.key := by simpa using hm
          exact hnot (List.mem_map.2 ⟨x, hx, this⟩)

theorem insertAll_ok_table (T : Table) (ds : List Decl)
    (h : (insertAll (T, []) ds).2 = []) :
    (insertAll (T, []) ds).1 = T ++ ds.map Decl.entry := by
  induction ds generalizing T with
  | nil => simp [insertAll_nil]
  | cons d ds ih =>
    rw [insertAll_cons] at h ⊢
    unfold insert at h ⊢
    cases hl : lookup T d.key with
    | some o =>
      simp only [hl, List.nil_append] at h
      rw [insertAll_acc] at h
      simp at h
    | none =>
      simp only [hl] at h ⊢
      rw [ih _ h]
      simp

theorem keys_map_entry (ds : List Decl) : keys (ds.map Decl.entry) = ds.map Decl.key := by
  simp [keys, Decl.entry, Function.comp_def]

/-- `_construct_symbol_tables` reports no error iff no scope gets the same name twice -/
theorem construct_ok_iff (M : ModuleDesc) :
    (construct M).2 = [] ↔ ((stage1 M ++ stage2 M).map Decl.key).Nodup := by
  unfold construct
  simp only
  by_cases h1 : (insertAll ([], []) (stage1 M)).2 = []
  · have ht := insertAll_ok_table [] (stage1 M) h1
    have hs1 := (insertAll_ok_iff [] (stage1 M)).1 h1
    rw [if_neg (fun hne => hne h1)]
    have hst : insertAll ([], []) (stage1 M) = ((stage1 M).map Decl.entry, []) := by
      rw [Prod.ext_iff]; simp [ht, h1]
    rw [hst, insertAll_ok_iff, keys_map_entry, List.map_append, List.nodup_append]
    constructor
    · intro ⟨hnd, hdis⟩
      refine ⟨hs1.1, hnd, ?_⟩
      intro a ha b hb hab
      obtain ⟨d, hd, hdk⟩ := List.mem_map.1 hb
      exact hdis d hd (by rw [hdk, ← hab]; exact ha)
    · intro ⟨_, hnd, hdis⟩
      refine ⟨hnd, ?_⟩
      intro d hd hmem
      exact hdis _ hmem _ (List.mem_map.2 ⟨d, hd, rfl⟩) rfl
  · rw [if_pos h1]
    constructor
    · intro h
      exact absurd h h1
    · intro hnd
      rw [List.map_append, List.nodup_append] at hnd
      exact absurd ((insertAll_ok_iff [] (stage1 M)).2 ⟨hnd.1, by simp [keys]⟩) h1

/-! ### canonical names of the definitions -/

theorem fieldDecls_cons (f : FieldDecl) : ∃ tl, fieldDecls f = fieldNameDecl f :: tl := by
  unfold fieldDecls
  exact ⟨_, rfl⟩

theorem fields_sublist (fs : List FieldDecl) :
    List.Sublist (fs.map (fun f => f.scope ++ [f.name])) ((fs.flatMap fieldDecls).map Decl.key) := by
  induction fs with
  | nil => simp
  | cons f fs ih =>
    have hk : (fieldNameDecl f).key = f.scope ++ [f.name] := rfl
    obtain ⟨tl, htl⟩ := fieldDecls_cons f
    rw [List.map_cons, List.flatMap_cons, htl, List.cons_append, List.map_cons, hk]
    apply List.cons_sublist_cons.2
    rw [List.map_append]
    exact List.sublist_append_of_sublist_right ih

theorem sub_of_eq {α : Type} {l l' : List α} (h : l = l') : l.Sublist l' := h ▸ List.Sublist.refl l

theorem objects_canon_sublist (M : ModuleDesc) :
    List.Sublist ((objects M).map (·.canon)) ((stage1 M ++ stage2 M).map Decl.key) := by
  unfold objects stage1 stage2
  simp only [List.map_append, List.map_map, List.append_assoc]
  refine List.Sublist.append ?_ (List.Sublist.append ?_ (List.Sublist.append ?_
    (List.Sublist.append ?_ ?_)))
  · exact sub_of_eq (List.map_congr_left (fun m _ => by simp [moduleDecl, Decl.key]))
  · exact sub_of_eq (List.map_congr_left (fun t _ => by simp [typeDecl, Decl.key]))
  · exact sub_of_eq (List.map_congr_left (fun v _ => by simp [valueDecl, Decl.key]))
  · have := fields_sublist M.fields
    simpa [List.map_map, Function.comp_def] using this
  · exact sub_of_eq (List.map_congr_left (fun p _ => by simp [paramDecl, Decl.key]))

theorem find_of_nodup (os : List Obj) (hn : (os.map (·.canon)).Nodup) (o : Obj) (ho : o ∈ os) :
    findObject os o.canon = some o := by
  unfold findObject
  induction os with
  | nil => cases ho
  | cons a os ih =>
    rw [List.map_cons, List.nodup_cons] at hn
    by_cases ha : a.canon = o.canon
    · rcases List.mem_cons.1 ho with h | h
      · subst h
        simp
      · exact absurd (List.mem_map.2 ⟨o, h, ha.symm⟩) hn.1
    · rcases List.mem_cons.1 ho with h | h
      · subst h
        exact absurd rfl ha
      · rw [List.find?_cons_of_neg (by simpa using ha)]
        exact ih hn.2 h

end Emboss.Scope
