/-
What an accepting 64-bit gate implies: every integer clause of a run-time operation is
finite and all of them fit one C++ type together.
-/
import Emboss.Lemmas.BoundsSound
import Emboss.Model.CppArith
namespace Emboss.Bounds
open ExtInt

/-- a type whose integer range (if any) is finite and fits int64 or uint64 -/
def OwnOk (ty : AType) : Prop :=
  ∀ a, ty = .int a → ∃ lo hi, a.min = .fin lo ∧ a.max = .fin hi ∧ fitsAny64 lo hi = true

theorem boundsErrors_nil {a : AVal} (hc : boundsCrash a = false) (h : boundsErrors a = []) :
    ∃ lo hi, a.min = .fin lo ∧ a.max = .fin hi ∧ fitsAny64 lo hi = true := by
  unfold boundsErrors at h
  unfold boundsCrash at hc
  split at h
  · cases h
  · cases h
  · rename_i lo hi h1 h2
    refine ⟨lo, hi, h1, h2, ?_⟩
    split at h
    · assumption
    · split at h <;> cases h
  · rename_i h1 h2 h3
    cases hmin : a.min <;> cases hmax : a.max <;> simp_all

theorem gateArgs_nil : ∀ {args : List ATree}, gateArgs args = some [] → ∀ t ∈ args, gate t = some []
  | [], _, t, ht => by cases ht
  | a :: as, h, t, ht => by
    simp only [gateArgs] at h
    split at h <;> try cases h
    rename_i e es he hes
    simp only [Option.some.injEq, List.append_eq_nil_iff] at h
    obtain ⟨rfl, rfl⟩ := h
    rcases List.mem_cons.mp ht with rfl | hm
    · exact he
    · exact gateArgs_nil hes t hm

/-- what an accepting gate says about one node -/
theorem gate_node {isFn : Bool} {ty : AType} {args : List ATree}
    (h : gate (.node isFn ty args) = some []) :
    OwnOk ty ∧
    ((isFn && !isConstType ty) = true →
      gateArgs args = some [] ∧
      ∃ cls, clauseClasses (ty :: argTys args) = some cls ∧ ¬ (cls.contains 1 = true ∧ cls.contains 2 = true)) := by
  simp only [gate] at h
  split at h
  · cases h
  · cases h
  · rename_i hargs
    split at h
    · cases h
    · cases h
    · rename_i hown
      have hown' : OwnOk ty := by
        intro a ha
        subst ha
        simp only at hown
        split at hown
        · cases hown
        · rename_i hc
          simp only [Option.some.injEq] at hown
          exact boundsErrors_nil (by simpa using hc) hown
      refine ⟨hown', ?_⟩
      intro hrt
      simp only [hrt, if_true] at hargs h
      refine ⟨hargs, ?_⟩
      split at h
      · cases h
      · rename_i cls hcls
        refine ⟨cls, hcls, ?_⟩
        split at h
        · cases h
        · rename_i hh; simpa using hh

theorem gate_own {t : ATree} (h : gate t = some []) : OwnOk t.ty := by
  cases t with
  | node isFn ty args => exact (gate_node h).1

theorem cppTypeForRange_contains {lo hi : Int} {t : CType} (h : cppTypeForRange lo hi = some t) :
    t.lo ≤ lo ∧ hi ≤ t.hi := by
  unfold cppTypeForRange at h
  simp only [two63, two64, Bool.and_eq_true, decide_eq_true_eq, Int.reduceSub, Int.reduceNeg] at h
  by_cases h1 : lo ≥ -2147483648 ∧ hi ≤ 2147483647
  · rw [if_pos h1] at h; cases h; simp only [CType.lo, CType.hi]; omega
  · rw [if_neg h1] at h
    by_cases h2 : lo ≥ 0 ∧ hi ≤ 4294967295
    · rw [if_pos h2] at h; cases h; simp only [CType.lo, CType.hi]; omega
    · rw [if_neg h2] at h
      by_cases h3 : lo ≥ -9223372036854775808 ∧ hi ≤ 9223372036854775807
      · rw [if_pos h3] at h; cases h; simp only [CType.lo, CType.hi, two63]; omega
      · rw [if_neg h3] at h
        by_cases h4 : lo ≥ 0 ∧ hi ≤ 18446744073709551615
        · rw [if_pos h4] at h; cases h; simp only [CType.lo, CType.hi, two64]; omega
        · rw [if_neg h4] at h; cases h

theorem cppTypeForRange_exists {lo hi : Int} (h : fitsAny64 lo hi = true) :
    ∃ t, cppTypeForRange lo hi = some t := by
  unfold cppTypeForRange
  simp only [fitsAny64, fitsU64, fitsI64, two63, two64, Bool.or_eq_true, Bool.and_eq_true,
    decide_eq_true_eq, Int.reduceSub, Int.reduceNeg] at h
  simp only [two63, two64, Bool.and_eq_true, decide_eq_true_eq, Int.reduceSub, Int.reduceNeg]
  by_cases h1 : lo ≥ -2147483648 ∧ hi ≤ 2147483647
  · rw [if_pos h1]; exact ⟨_, rfl⟩
  · rw [if_neg h1]
    by_cases h2 : lo ≥ 0 ∧ hi ≤ 4294967295
    · rw [if_pos h2]; exact ⟨_, rfl⟩
    · rw [if_neg h2]
      by_cases h3 : lo ≥ -9223372036854775808 ∧ hi ≤ 9223372036854775807
      · rw [if_pos h3]; exact ⟨_, rfl⟩
      · rw [if_neg h3]
        by_cases h4 : lo ≥ 0 ∧ hi ≤ 18446744073709551615
        · rw [if_pos h4]; exact ⟨_, rfl⟩
        · exfalso; omega

/-- all ranges fit one signedness -/
def AllFit (f : Int → Int → Bool) (rs : List (Int × Int)) : Prop := ∀ p ∈ rs, f p.1 p.2 = true

theorem hullOf_contains : ∀ {rs : List (Int × Int)} {lo hi : Int},
    hullOf rs = some (lo, hi) → ∀ p ∈ rs, lo ≤ p.1 ∧ p.2 ≤ hi
  | [], _, _, h, _, _ => by simp [hullOf] at h
  | q :: r, lo, hi, h, p, hp => by
    simp only [hullOf] at h
    split at h
    · rename_i hr
      cases h
      rcases List.mem_cons.mp hp with rfl | hm
      · omega
      · cases r with
        | nil => cases hm
        | cons x xs => simp [hullOf] at hr; split at hr <;> simp at hr
    · rename_i q' hr
      simp only [Option.some.injEq, Prod.mk.injEq] at h
      obtain ⟨rfl, rfl⟩ := h
      rcases List.mem_cons.mp hp with rfl | hm
      · constructor <;> split <;> omega
      · have := hullOf_contains (lo := q'.1) (hi := q'.2) hr p hm
        constructor <;> split <;> omega

theorem hullOf_mem : ∀ {rs : List (Int × Int)} {lo hi : Int},
    hullOf rs = some (lo, hi) → (∃ p ∈ rs, p.1 = lo) ∧ (∃ p ∈ rs, p.2 = hi)
  | [], _, _, h => by simp [hullOf] at h
  | q :: r, lo, hi, h => by
    simp only [hullOf] at h
    split at h
    · cases h
      exact ⟨⟨_, List.mem_cons_self, rfl⟩, ⟨_, List.mem_cons_self, rfl⟩⟩
    · rename_i q' hr
      simp only [Option.some.injEq, Prod.mk.injEq] at h
      obtain ⟨rfl, rfl⟩ := h
      obtain ⟨⟨p1, hp1, e1⟩, ⟨p2, hp2, e2⟩⟩ := hullOf_mem (lo := q'.1) (hi := q'.2) hr
      constructor
      · split
        · exact ⟨_, List.mem_cons_self, rfl⟩
        · exact ⟨p1, List.mem_cons_of_mem _ hp1, e1⟩
      · split
        · exact ⟨p2, List.mem_cons_of_mem _ hp2, e2⟩
        · exact ⟨_, List.mem_cons_self, rfl⟩

/-- ranges that all fit int64 (or all fit uint64) have a hull that a single C++ type holds -/
theorem one_type_of_allfit {rs : List (Int × Int)} {lo hi : Int}
    (h : AllFit fitsI64 rs ∨ AllFit fitsU64 rs) (hh : hullOf rs = some (lo, hi)) :
    ∃ it, cppTypeForRange lo hi = some it ∧ ∀ p ∈ rs, it.lo ≤ p.1 ∧ p.2 ≤ it.hi := by
  obtain ⟨⟨p1, hp1, e1⟩, ⟨p2, hp2, e2⟩⟩ := hullOf_mem hh
  have hc := hullOf_contains hh
  have hfit : fitsAny64 lo hi = true := by
    simp only [fitsAny64, Bool.or_eq_true]
    rcases h with h | h
    · right
      have a1 := h p1 hp1; have a2 := h p2 hp2
      simp only [fitsI64, Bool.and_eq_true, decide_eq_true_eq] at a1 a2 ⊢
      omega
    · left
      have a1 := h p1 hp1; have a2 := h p2 hp2
      simp only [fitsU64, Bool.and_eq_true, decide_eq_true_eq] at a1 a2 ⊢
      omega
  obtain ⟨it, hit⟩ := cppTypeForRange_exists hfit
  refine ⟨it, hit, ?_⟩
  intro p hp
  have := hc p hp
  have := cppTypeForRange_contains hit
  omega

theorem clauseClass_spec {ty : AType} {c : Nat} (h : clauseClass ty = some c) :
    (∀ a, ty = .int a → ∃ lo hi, rangeOf a = some (lo, hi) ∧
      (c ≠ 1 → fitsI64 lo hi = true) ∧ (c ≠ 2 → fitsAny64 lo hi = true → fitsU64 lo hi = true)) := by
  intro a ha
  subst ha
  simp only [clauseClass] at h
  split at h
  · rename_i lo hi h1 h2
    refine ⟨lo, hi, by simp [rangeOf, h1, h2], ?_, ?_⟩
    · intro hc
      split at h
      · cases h; simp at hc
      · rename_i hh; simpa using hh
    · intro hc hany
      split at h
      · rename_i hh
        simp only [fitsAny64, Bool.or_eq_true] at hany
        rcases hany with h' | h'
        · exact h'
        · simp [h'] at hh
      · split at h
        · cases h; simp at hc
        · rename_i hh; simpa using hh
  · cases h

/-- the clause classification of an accepted node: all integer ranges are finite and
    either all fit int64 or all fit uint64 -/
theorem classes_ranges : ∀ {tys : List AType} {cls : List Nat},
    (∀ ty ∈ tys, OwnOk ty) → clauseClasses tys = some cls →
    ∃ rs, intRanges tys = some rs ∧
      (cls.contains 1 = false → AllFit fitsI64 rs) ∧ (cls.contains 2 = false → AllFit fitsU64 rs)
  | [], cls, _, h => by
    simp only [clauseClasses, Option.some.injEq] at h
    subst h
    exact ⟨[], rfl, (fun _ p hp => by cases hp), (fun _ p hp => by cases hp)⟩
  | ty :: r, cls, hown, h => by
    simp only [clauseClasses] at h
    split at h <;> try cases h
    rename_i c l hc hl
    obtain ⟨rs, hrs, h1, h2⟩ := classes_ranges (fun t ht => hown t (List.mem_cons_of_mem _ ht)) hl
    cases ty with
    | int a =>
      obtain ⟨lo, hi, hr, f1, f2⟩ := clauseClass_spec hc a rfl
      obtain ⟨lo', hi', e1, e2, hany⟩ := hown (.int a) List.mem_cons_self a rfl
      have : lo' = lo ∧ hi' = hi := by
        simp only [rangeOf, e1, e2, Option.some.injEq, Prod.mk.injEq] at hr; exact hr
      obtain ⟨rfl, rfl⟩ := this
      refine ⟨(lo', hi') :: rs, by simp [intRanges, hr, hrs], ?_, ?_⟩
      · intro hn p hp
        simp only [List.contains_cons, Bool.or_eq_false_iff] at hn
        rcases List.mem_cons.mp hp with rfl | hm
        · exact f1 (by intro hh; subst hh; simp at hn)
        · exact h1 hn.2 p hm
      · intro hn p hp
        simp only [List.contains_cons, Bool.or_eq_false_iff] at hn
        rcases List.mem_cons.mp hp with rfl | hm
        · exact f2 (by intro hh; subst hh; simp at hn) hany
        · exact h2 hn.2 p hm
    | bool b =>
      simp only [clauseClass, Option.some.injEq] at hc
      subst hc
      refine ⟨rs, by simp [intRanges, hrs], ?_, ?_⟩
      · intro hn; simp only [List.contains_cons, Bool.or_eq_false_iff] at hn; exact h1 hn.2
      · intro hn; simp only [List.contains_cons, Bool.or_eq_false_iff] at hn; exact h2 hn.2
    | enum b =>
      simp only [clauseClass, Option.some.injEq] at hc
      subst hc
      refine ⟨rs, by simp [intRanges, hrs], ?_, ?_⟩
      · intro hn; simp only [List.contains_cons, Bool.or_eq_false_iff] at hn; exact h1 hn.2
      · intro hn; simp only [List.contains_cons, Bool.or_eq_false_iff] at hn; exact h2 hn.2

theorem argTys_mem : ∀ {args : List ATree} {ty : AType}, ty ∈ argTys args → ∃ t ∈ args, t.ty = ty
  | [], _, h => by simp [argTys] at h
  | a :: as, ty, h => by
    simp only [argTys, List.mem_cons] at h
    rcases h with rfl | h
    · exact ⟨a, List.mem_cons_self, rfl⟩
    · obtain ⟨t, ht, e⟩ := argTys_mem h
      exact ⟨t, List.mem_cons_of_mem _ ht, e⟩

/-- gate accepts a run-time function node ⇒ one C++ type holds result and operands -/
theorem gate_one_type {ty : AType} {args : List ATree}
    (h : gate (.node true ty args) = some []) (hnc : isConstType ty = false) :
    (∀ t ∈ args, gate t = some []) ∧
    ∃ rs, intRanges (ty :: argTys args) = some rs ∧
      (hullOf rs = none ∨
       ∃ lo hi it, hullOf rs = some (lo, hi) ∧ cppTypeForRange lo hi = some it ∧
         ∀ p ∈ rs, it.lo ≤ p.1 ∧ p.2 ≤ it.hi) := by
  obtain ⟨hown, hrt⟩ := gate_node h
  obtain ⟨hargs, cls, hcls, hmix⟩ := hrt (by simp [hnc])
  have hall := gateArgs_nil hargs
  refine ⟨hall, ?_⟩
  have hown' : ∀ t ∈ ty :: argTys args, OwnOk t := by
    intro t ht
    rcases List.mem_cons.mp ht with rfl | hm
    · exact hown
    · obtain ⟨t', ht', rfl⟩ := argTys_mem hm
      exact gate_own (hall t' ht')
  obtain ⟨rs, hrs, h1, h2⟩ := classes_ranges hown' hcls
  refine ⟨rs, hrs, ?_⟩
  cases hh : hullOf rs with
  | none => exact Or.inl rfl
  | some p =>
    obtain ⟨lo, hi⟩ := p
    right
    have hfit : AllFit fitsI64 rs ∨ AllFit fitsU64 rs := by
      cases c1 : cls.contains 1
      · exact Or.inl (h1 c1)
      · cases c2 : cls.contains 2
        · exact Or.inr (h2 c2)
        · exact absurd ⟨c1, c2⟩ hmix
    obtain ⟨it, hit, hc⟩ := one_type_of_allfit hfit hh
    exact ⟨lo, hi, it, rfl, hit, hc⟩

end Emboss.Bounds
