/-
Level B, part 6: the breadth-first construction terminates within its fuel.

Every state is a *sorted duplicate-free* list of items with production index `< |rules|`, dot
`≤ maxrhs`, lookahead `< n`; such a list is one of the `2 ^ itemBound` sublists of the sorted list
of all these items (`subl (univ C)`); states are pairwise different; every step of `bfs` finishes
one state.  Hence `2 ^ itemBound + 2` steps suffice (`bfsFuel`), and `gen G` never runs out of
fuel (`gen_some`).
-/
import Emboss.Lemmas.Lr1GenFuel
import Emboss.Lemmas.Lr1GenValid
namespace Emboss.Lr1
namespace Gen

/-! ### the item order -/

theorem lt_iff (a b : Item) : Item.lt a b = true ↔
    a.pi < b.pi ∨ (a.pi = b.pi ∧ (a.dot < b.dot ∨ (a.dot = b.dot ∧ a.la < b.la))) := by
  simp [Item.lt]

theorem lt_irrefl (a : Item) : ¬ Item.lt a a = true := by
  rw [lt_iff]; omega

theorem lt_trans {a b c : Item} (h1 : Item.lt a b = true) (h2 : Item.lt b c = true) : Item.lt a c = true := by
  rw [lt_iff] at *; omega

theorem lt_of_not {a b : Item} (hne : a ≠ b) (h : ¬ Item.lt a b = true) : Item.lt b a = true := by
  rw [lt_iff] at *
  obtain ⟨p, d, l⟩ := a
  obtain ⟨p', d', l'⟩ := b
  simp only [ne_eq, Item.mk.injEq, not_and] at hne
  simp only at h ⊢
  omega

def Sorted (l : List Item) : Prop := List.Pairwise (fun a b => Item.lt a b = true) l

theorem insertS_sorted {x : Item} : ∀ {l : List Item}, Sorted l → Sorted (insertS x l)
  | [], _ => by simp [insertS, Sorted]
  | y :: ys, h => by
    unfold insertS
    have hy := List.pairwise_cons.mp h
    split
    · exact h
    · rename_i hne
      split
      · rename_i hlt
        refine List.pairwise_cons.mpr ⟨?_, h⟩
        intro z hz
        rcases List.mem_cons.mp hz with rfl | hz
        · exact hlt
        · exact lt_trans hlt (hy.1 z hz)
      · rename_i hnlt
        refine List.pairwise_cons.mpr ⟨?_, insertS_sorted hy.2⟩
        intro z hz
        rcases mem_insertS.mp hz with rfl | hz
        · exact lt_of_not hne hnlt
        · exact hy.1 z hz

theorem norm_sorted : ∀ (l : List Item), Sorted (norm l)
  | [] => by simp [norm, Sorted]
  | x :: xs => by
    have := norm_sorted xs
    simp only [norm, List.foldr_cons] at this ⊢
    exact insertS_sorted this

/-! ### sublists of a sorted list -/

def subl : List Item → List (List Item)
  | [] => [[]]
  | x :: xs => subl xs ++ (subl xs).map (x :: ·)

theorem length_subl : ∀ (U : List Item), (subl U).length = 2 ^ U.length
  | [] => rfl
  | x :: xs => by
    simp only [subl, List.length_append, List.length_map, length_subl xs, List.length_cons, Nat.pow_succ]
    omega

theorem mem_subl : ∀ {U l : List Item}, Sorted U → Sorted l → (∀ z ∈ l, z ∈ U) → l ∈ subl U
  | [], l, _, _, hm => by
    cases l with
    | nil => simp [subl]
    | cons a _ => exact absurd (hm a List.mem_cons_self) (by simp)
  | u :: us, [], hU, _, _ => by
    have := mem_subl (l := []) (List.pairwise_cons.mp hU).2 (by simp [Sorted]) (by simp)
    simp only [subl, List.mem_append]
    exact Or.inl this
  | u :: us, a :: as, hU, hl, hm => by
    have hu := List.pairwise_cons.mp hU
    have ha := List.pairwise_cons.mp hl
    simp only [subl, List.mem_append, List.mem_map]
    rcases List.mem_cons.mp (hm a List.mem_cons_self) with rfl | hau
    · refine Or.inr ⟨as, mem_subl hu.2 ha.2 ?_, rfl⟩
      intro z hz
      rcases List.mem_cons.mp (hm z (List.mem_cons_of_mem _ hz)) with rfl | h
      · exact absurd (ha.1 z hz) (lt_irrefl z)
      · exact h
    · refine Or.inl (mem_subl hu.2 hl ?_)
      intro z hz
      have hlt : Item.lt u z = true := by
        rcases List.mem_cons.mp hz with rfl | hz
        · exact hu.1 z hau
        · exact lt_trans (hu.1 a hau) (ha.1 z hz)
      rcases List.mem_cons.mp (hm z hz) with rfl | h
      · exact absurd hlt (lt_irrefl z)
      · exact h

/-! ### all items -/

def univ (C : Cert) : List Item :=
  (List.range C.rules.size).flatMap fun pi => (List.range (maxRhs C + 1)).flatMap fun dot =>
    (List.range C.nt.size).map fun la => (⟨pi, dot, la⟩ : Item)

theorem length_univ (C : Cert) : (univ C).length = itemBound C := by
  unfold univ itemBound
  rw [length_flatMap_const ((maxRhs C + 1) * C.nt.size)]
  · simp [Nat.mul_assoc]
  · intro a
    rw [length_flatMap_const C.nt.size _ (by intro b; simp)]
    simp

theorem mem_univ {C : Cert} {it : Item} (h1 : it.pi < C.rules.size) (h2 : it.dot ≤ maxRhs C)
    (h3 : it.la < C.nt.size) : it ∈ univ C := by
  refine List.mem_flatMap.mpr ⟨it.pi, List.mem_range.mpr h1, List.mem_flatMap.mpr
    ⟨it.dot, List.mem_range.mpr (by omega), List.mem_map.mpr ⟨it.la, List.mem_range.mpr h3, rfl⟩⟩⟩

theorem univ_sorted (C : Cert) : Sorted (univ C) := by
  unfold univ Sorted
  refine List.pairwise_flatMap.mpr ⟨?_, ?_⟩
  · intro pi _
    refine List.pairwise_flatMap.mpr ⟨?_, ?_⟩
    · intro dot _
      refine List.pairwise_map.mpr (List.pairwise_lt_range.imp ?_)
      intro a b hab
      exact (lt_iff _ _).mpr (Or.inr ⟨rfl, Or.inr ⟨rfl, hab⟩⟩)
    · refine List.pairwise_lt_range.imp ?_
      intro a b hab x hx y hy
      obtain ⟨_, _, rfl⟩ := List.mem_map.mp hx
      obtain ⟨_, _, rfl⟩ := List.mem_map.mp hy
      exact (lt_iff _ _).mpr (Or.inr ⟨rfl, Or.inl hab⟩)
  · refine List.pairwise_lt_range.imp ?_
    intro a b hab x hx y hy
    obtain ⟨_, _, hx⟩ := List.mem_flatMap.mp hx
    obtain ⟨_, _, rfl⟩ := List.mem_map.mp hx
    obtain ⟨_, _, hy⟩ := List.mem_flatMap.mp hy
    obtain ⟨_, _, rfl⟩ := List.mem_map.mp hy
    exact (lt_iff _ _).mpr (Or.inl hab)

theorem rhs_le_maxRhs {C : Cert} {j : Nat} {p : Rule} (h : C.ruleAt j = some p) : p.rhs.length ≤ maxRhs C := by
  unfold maxRhs
  unfold Cert.ruleAt at h
  rw [← Array.getElem?_toList] at h
  exact (le_foldl_max _ 0).2 _ (List.mem_map.mpr ⟨p, List.mem_of_getElem? h, rfl⟩)

variable {G : Grammar} {C : Cert}

theorem ItemOK.mem_univ {it : Item} (h : ItemOK G C it) (hs : Small C it) : it ∈ univ C := by
  obtain ⟨p, hp, hd⟩ := h.rule
  refine Gen.mem_univ ?_ (Nat.le_trans hd (rhs_le_maxRhs hp)) hs
  unfold Cert.ruleAt at hp
  exact (Array.getElem?_eq_some_iff.mp hp).1

/-! ### the measure -/

def freeS (C : Cert) (st : St) : Nat := (subl (univ C)).countP fun J => decide (J ∉ st.states.toList)

theorem freeS_le (C : Cert) (st : St) : freeS C st ≤ 2 ^ itemBound C := by
  have h : freeS C st ≤ (subl (univ C)).length := List.countP_le_length
  rw [length_subl, length_univ] at h
  exact h

theorem stateIndex_none {st : St} {J : List Item} (h : stateIndex st J = none) : J ∉ st.states.toList := by
  unfold stateIndex at h
  intro hm
  have := Array.findIdx?_eq_none_iff.mp h J (Array.mem_toList_iff.mp hm)
  simp at this

def AllSmall (C : Cert) (st : St) : Prop :=
  ∀ (i : Nat) (I : List Item), st.states[i]? = some I → ∀ it ∈ I, Small C it

theorem gotoSet_some (hC : InvC C) {I : List Item} (hI : ∀ it ∈ I, Small C it) (x : Nat) :
    ∃ J, gotoSet C I x = some J ∧ ∀ y ∈ J, Small C y := by
  have hseed : ∀ y ∈ (I.filter (fun it => C.nextSyms it == [x])).map advance, Small C y := by
    intro y hy
    obtain ⟨it, hf, rfl⟩ := List.mem_map.mp hy
    exact hI it (List.mem_filter.mp hf).1
  obtain ⟨J, hJ⟩ := closure_some hC hseed
  exact ⟨J, hJ, closure_all (fun it hit y hy => (succs_univ hC hit hy).2) hJ hseed⟩

theorem expand_some (hT : TabOK G C) (hW : WfG G) (hC : InvC C) {I : List Item} {i : Nat} :
    ∀ (xs : List Nat) (st : St) (row : List (Nat × Nat)),
    Inv G C st → AllSmall C st → st.states[i]? = some I →
    (∀ x ∈ xs, ∃ it ∈ I, C.nextSyms it = [x]) →
    ∃ st' row', expand C I xs st row = some (st', row') ∧ AllSmall C st' ∧
      st'.states.size + freeS C st' ≤ st.states.size + freeS C st
  | [], st, row, _, hs, _, _ => ⟨st, row, rfl, hs, Nat.le_refl _⟩
  | x :: xs, st, row, hinv, hs, hI, hxs => by
    simp only [expand]
    obtain ⟨J, hg, hJs⟩ := gotoSet_some hC (hs i I hI) x
    obtain ⟨_, e2, e3, e4⟩ := gotoSet_edge hT hW hg (hinv.ok i I hI) (hxs x List.mem_cons_self)
    have hxs' : ∀ x ∈ xs, ∃ it ∈ I, C.nextSyms it = [x] := fun y hy => hxs y (List.mem_cons_of_mem _ hy)
    simp only [hg]
    cases hi : stateIndex st (norm J) with
    | some k => exact expand_some hT hW hC xs st _ hinv hs hI hxs'
    | none =>
      simp only []
      have hs' : AllSmall C { st with states := st.states.push (norm J), just := st.just.push J.reverse } := by
        intro k K hK it hit
        rcases of_push_some hK with hK | ⟨_, rfl⟩
        · exact hs k K hK it hit
        · exact hJs it (mem_norm.mp hit)
      obtain ⟨st', row', h1, h2, h3⟩ := expand_some hT hW hC xs _ (row ++ [(x, st.states.size)])
        (hinv.push e2 e3 e4) hs' (push_some hI) hxs'
      refine ⟨st', row', h1, h2, ?_⟩
      have hdec : freeS C { st with states := st.states.push (norm J), just := st.just.push J.reverse } + 1 ≤
          freeS C st := by
        unfold freeS
        refine countP_succ_le ?_ (a := norm J) ?_ ?_ ?_
        · intro K _ hq
          simp only [decide_eq_true_eq, Array.toList_push, List.mem_append, not_or] at hq ⊢
          exact hq.1
        · refine mem_subl (univ_sorted C) (norm_sorted J) ?_
          intro z hz
          exact (e3 z hz).mem_univ (hJs z (mem_norm.mp hz))
        · simpa using stateIndex_none hi
        · simp
      simp only [Array.size_push] at h3
      omega

theorem bfs_some (hT : TabOK G C) (hW : WfG G) (hC : InvC C) : ∀ (f i : Nat) (st : St),
    Inv G C st → AllSmall C st → st.trans.size = i →
    (st.states.size - i) + freeS C st + 1 ≤ f → ∃ st', bfs C f i st = some st'
  | 0, _, _, _, _, _, hf => by omega
  | f + 1, i, st, hinv, hs, hi, hf => by
    simp only [bfs]
    cases hI : st.states[i]? with
    | none => exact ⟨st, rfl⟩
    | some I =>
      simp only []
      have hxs : ∀ x ∈ normN (I.flatMap C.nextSyms), ∃ it ∈ I, C.nextSyms it = [x] := by
        intro x hx
        obtain ⟨it, hit, hx⟩ := List.mem_flatMap.mp (mem_normN.mp hx)
        exact ⟨it, hit, nextSyms_singleton.mp hx⟩
      obtain ⟨st1, row, he, hs1, hm⟩ := expand_some hT hW hC (i := i) _ st [] hinv hs hI hxs
      obtain ⟨r1, r2, r3, _, r4, r5⟩ := expand_inv hT hW (i := i) _ _ _ _ _ he hinv hI hxs
        (by intro e he; cases he)
      have hI1 := r3 i I hI
      have hts : st1.trans.size = i := by rw [r2]; exact hi
      have hlt : i < st.states.size := (Array.getElem?_eq_some_iff.mp hI).1
      have hlt1 : i < st1.states.size := (Array.getElem?_eq_some_iff.mp hI1).1
      simp only [he]
      refine bfs_some hT hW hC f (i + 1) _
        (r1.pushRow hI1 hts r4 (fun it hit y hy =>
          r5 y (Or.inr (mem_normN.mpr (List.mem_flatMap.mpr ⟨it, hit, hy⟩))))) hs1 (by simp [hts]) ?_
      have : freeS C { st1 with trans := st1.trans.push row } = freeS C st1 := rfl
      rw [this]
      show st1.states.size - (i + 1) + freeS C st1 + 1 ≤ f
      omega

end Gen

open Gen in
/-- **The generator model never runs out of fuel.** -/
theorem gen_some {G : Grammar} (hW : WfG G) : ∃ o, gen G = some o := by
  obtain ⟨C, hC⟩ := tables_some G
  have hT := tables_ok hC
  have hIC := tables_invC hC
  have hseedS : ∀ x ∈ [(⟨C.seedIdx, 0, G.eoi⟩ : Item)], Small C x := by
    intro x hx
    simp only [List.mem_singleton] at hx
    rw [hx]
    show G.eoi < C.nt.size
    rw [hT.ntSize]; exact eoi_lt_nsym G
  obtain ⟨I0, hI⟩ := closure_some hIC hseedS
  have hinv0 := inv_init hT hW hI
  have hs0 : AllSmall C ⟨#[norm I0], #[I0.reverse], #[]⟩ := by
    intro i I hI' it hit
    have : I = norm I0 := by
      cases i with
      | zero => simp at hI'; exact hI'.symm
      | succ n => simp at hI'
    subst this
    exact closure_all (fun it hit y hy => (succs_univ hIC hit hy).2) hI hseedS it (mem_norm.mp hit)
  obtain ⟨st, hb⟩ := bfs_some hT hW hIC (bfsFuel C) 0 _ hinv0 hs0 rfl (by
    have := freeS_le C ⟨#[norm I0], #[I0.reverse], #[]⟩
    unfold bfsFuel
    simp only [List.size_toArray, List.length_cons, List.length_nil]
    omega)
  unfold gen
  simp only [hC, hI, hb]
  exact ⟨_, rfl⟩

end Emboss.Lr1
