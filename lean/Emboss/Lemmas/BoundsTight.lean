/-
Tightness of the inferred interval on the single-occurrence fragment `LinOnce`
(Spec/BoundsInv.lean): by induction over the expression, an environment attaining the
inferred minimum and one attaining the inferred maximum are constructed; the operands of
an operator mention disjoint leaves, so their witness environments can be merged.
-/
import Emboss.Lemmas.BoundsInvTree
import Emboss.Lemmas.BoundsNodes
namespace Emboss.Bounds
open ExtInt

theorem disjoint_spec {l r : List Nat} (h : disjoint l r = true) : ∀ x ∈ l, x ∉ r := by
  intro x hx hr
  simp only [disjoint, List.all_eq_true] at h
  have := h x hx
  simp [hr] at this

theorem merge_left (vs : List Nat) (ρ1 ρ2 : Env) {id : Nat} (h : id ∈ vs) :
    (mergeEnv vs ρ1 ρ2).i id = ρ1.i id := by
  simp [mergeEnv, h]

theorem merge_right (vs : List Nat) (ρ1 ρ2 : Env) {id : Nat} (h : id ∉ vs) :
    (mergeEnv vs ρ1 ρ2).i id = ρ2.i id := by
  simp [mergeEnv, h]

/-! ### evaluation only reads the integer leaves that occur -/

mutual
theorem lin_congr : (e : Expr) → LinOnce e = true → ∀ ρ ρ' : Env,
    (∀ id ∈ ivars e, ρ.i id = ρ'.i id) →
    eval ρ e = eval ρ' e ∧ (EnvOk ρ e → EnvOk ρ' e)
  | .const _, _ => by intro ρ ρ' _; simp [eval, EnvOk]
  | .ileaf id k size, _ => by
    intro ρ ρ' h
    have := h id (by simp [ivars])
    simp [eval, EnvOk, this]
  | .bin op l r, h => by
    simp only [LinOnce, Bool.and_eq_true] at h
    intro ρ ρ' hag
    have h1 := lin_congr l h.1.1.2 ρ ρ' (fun id hid => hag id (by simp [ivars, hid]))
    have h2 := lin_congr r h.1.2 ρ ρ' (fun id hid => hag id (by simp [ivars, hid]))
    refine ⟨by simp only [eval, h1.1, h2.1], ?_⟩
    intro hok
    simp only [EnvOk] at hok ⊢
    exact ⟨h1.2 hok.1, h2.2 hok.2⟩
  | .max args, h => by
    simp only [LinOnce, Bool.and_eq_true] at h
    intro ρ ρ' hag
    have h1 := linList_congr args h.2 ρ ρ' (fun id hid => hag id (by simpa [ivars] using hid))
    refine ⟨by simp only [eval, h1.1], ?_⟩
    intro hok
    simp only [EnvOk] at hok ⊢
    exact h1.2 hok
  | .bconst _, h => by simp [LinOnce] at h
  | .econst _, h => by simp [LinOnce] at h
  | .ssize _, h => by simp [LinOnce] at h
  | .given _ _, h => by simp [LinOnce] at h
  | .bleaf _, h => by simp [LinOnce] at h
  | .eleaf _, h => by simp [LinOnce] at h
  | .choice _ _ _, h => by simp [LinOnce] at h
  | .upper _, h => by simp [LinOnce] at h
  | .lower _, h => by simp [LinOnce] at h
  | .cref _, h => by simp [LinOnce] at h
  | .vref _, h => by simp [LinOnce] at h
  | .present _ _, h => by simp [LinOnce] at h
theorem linList_congr : (es : List Expr) → LinOnceList es = true → ∀ ρ ρ' : Env,
    (∀ id ∈ ivarsList es, ρ.i id = ρ'.i id) →
    evalList ρ es = evalList ρ' es ∧ (EnvOkList ρ es → EnvOkList ρ' es)
  | [], _ => by intro ρ ρ' _; simp [evalList, EnvOkList]
  | e :: es, h => by
    simp only [LinOnceList, Bool.and_eq_true] at h
    intro ρ ρ' hag
    have h1 := lin_congr e h.1.1 ρ ρ' (fun id hid => hag id (by simp [ivarsList, hid]))
    have h2 := linList_congr es h.1.2 ρ ρ' (fun id hid => hag id (by simp [ivarsList, hid]))
    refine ⟨by simp only [evalList, h1.1, h2.1], ?_⟩
    intro hok
    simp only [EnvOkList] at hok ⊢
    exact ⟨h1.2 hok.1, h2.2 hok.2⟩
end

/-- witnesses of two operands over disjoint leaves combine into one environment -/
theorem merge_bin {op : BinOp} {l r : Expr} (hl : LinOnce l = true) (hr : LinOnce r = true)
    (hd : disjoint (ivars l) (ivars r) = true) {ρ1 ρ2 : Env} {x y : Int}
    (ok1 : EnvOk ρ1 l) (ev1 : eval ρ1 l = some (.int x))
    (ok2 : EnvOk ρ2 r) (ev2 : eval ρ2 r = some (.int y)) :
    ∃ ρ, EnvOk ρ (.bin op l r) ∧ eval ρ (.bin op l r) = evalBin op (.int x) (.int y) := by
  refine ⟨mergeEnv (ivars l) ρ1 ρ2, ?_, ?_⟩
  · have h1 := lin_congr l hl ρ1 (mergeEnv (ivars l) ρ1 ρ2)
      (fun id hid => (merge_left _ _ _ hid).symm)
    have h2 := lin_congr r hr ρ2 (mergeEnv (ivars l) ρ1 ρ2)
      (fun id hid => (merge_right _ _ _ (fun hin => disjoint_spec hd id hin hid)).symm)
    exact ⟨h1.2 ok1, h2.2 ok2⟩
  · have h1 := lin_congr l hl ρ1 (mergeEnv (ivars l) ρ1 ρ2)
      (fun id hid => (merge_left _ _ _ hid).symm)
    have h2 := lin_congr r hr ρ2 (mergeEnv (ivars l) ρ1 ρ2)
      (fun id hid => (merge_right _ _ _ (fun hin => disjoint_spec hd id hin hid)).symm)
    simp only [eval, ← h1.1, ← h2.1, ev1, ev2]

/-! ### extrema of lists of finite numbers -/

theorem emin2_negInf {a b : ExtInt} (h : emin2 a b = .negInf) : a = .negInf ∨ b = .negInf := by
  cases a <;> cases b <;> simp [emin2] at h ⊢

theorem foldl_emin2_negInf (l : List ExtInt) (acc : ExtInt)
    (h : l.foldl emin2 acc = .negInf) : acc = .negInf ∨ .negInf ∈ l := by
  induction l generalizing acc with
  | nil => left; simpa using h
  | cons x xs ih =>
    simp only [List.foldl_cons] at h
    rcases ih _ h with h1 | h1
    · rcases emin2_negInf h1 with h2 | h2
      · left; exact h2
      · right; rw [h2]; exact List.mem_cons_self
    · right; exact List.mem_cons_of_mem _ h1

theorem eminL_negInf {l : List ExtInt} (h : eminL l = .negInf) : .negInf ∈ l := by
  rcases foldl_emin2_negInf l _ h with h1 | h1
  · cases h1
  · exact h1

/-- the tightness statement at one node -/
@[reducible] def TightAt (e : Expr) (a : AVal) : Prop :=
  ∃ lo hi, a.min = .fin lo ∧ a.max = .fin hi ∧
    (∃ ρ, EnvOk ρ e ∧ eval ρ e = some (.int lo)) ∧
    (∃ ρ, EnvOk ρ e ∧ eval ρ e = some (.int hi))

theorem leaf_tight (id : Nat) (k : LeafKind) (s : Int) (hs : 1 ≤ s) :
    TightAt (.ileaf id k (some s)) (leafRange k (some s)) := by
  have hn : ¬ s < 1 := by omega
  have h2 := two_pow_ge_two s.toNat (by omega)
  have h3 : (1 : Int) ≤ 2 ^ (s.toNat - 1) := Int.pow_pos (by omega)
  have h4 : (1 : Int) ≤ 10 ^ (s.toNat / 4) * 2 ^ (s.toNat % 4) :=
    Int.mul_pos (Int.pow_pos (by omega)) (Int.pow_pos (by omega))
  have key : ∃ lo hi, (leafRange k (some s)).min = .fin lo ∧ (leafRange k (some s)).max = .fin hi ∧
      InPhys k (some s) lo ∧ InPhys k (some s) hi := by
    cases k <;> simp only [leafRange, InPhys, hn, if_false] <;>
      refine ⟨_, _, rfl, rfl, ?_, ?_⟩ <;> constructor <;> omega
  obtain ⟨lo, hi, e1, e2, p1, p2⟩ := key
  refine ⟨lo, hi, e1, e2, ⟨⟨fun _ => lo, fun _ => false, fun _ => 0⟩, ?_, rfl⟩,
    ⟨⟨fun _ => hi, fun _ => false, fun _ => 0⟩, ?_, rfl⟩⟩
  · exact p1
  · exact p2

theorem bin_tight {op : BinOp} {l r : Expr} (hop : isArith op = true)
    (hl : LinOnce l = true) (hr : LinOnce r = true)
    (hd : disjoint (ivars l) (ivars r) = true) {al ar : AVal}
    (habl : abs l = some (.int al)) (hil : InvS al) (htl : TightAt l al)
    (habr : abs r = some (.int ar)) (hir : InvS ar) (htr : TightAt r ar) :
    ∃ a, abs (.bin op l r) = some (.int a) ∧ InvS a ∧ TightAt (.bin op l r) a := by
  obtain ⟨llo, lhi, hlmin, hlmax, ⟨ρl1, okl1, evl1⟩, ⟨ρl2, okl2, evl2⟩⟩ := htl
  obtain ⟨rlo, rhi, hrmin, hrmax, ⟨ρr1, okr1, evr1⟩, ⟨ρr2, okr2, evr2⟩⟩ := htr
  have mg := fun (ρ1 ρ2 : Env) (x y : Int) => merge_bin (op := op) hl hr hd (ρ1 := ρ1) (ρ2 := ρ2) (x := x) (y := y)
  cases op <;> simp [isArith] at hop
  · -- +
    obtain ⟨a, ha, hia⟩ := additive_inv false hil hir
    have habs : abs (.bin .add l r) = some (.int a) := by
      simp [abs, habl, habr, absBin, isArith, absArith, ha]
    obtain ⟨_, hmn, hmx⟩ := additive_shape ha
    simp [hlmin, hrmin, hlmax, hrmax, eadd] at hmn hmx
    refine ⟨a, habs, hia, llo + rlo, lhi + rhi, hmn.symm, hmx.symm, ?_, ?_⟩
    · obtain ⟨ρ, ok, ev⟩ := mg ρl1 ρr1 llo rlo okl1 evl1 okr1 evr1
      exact ⟨ρ, ok, by simpa [evalBin] using ev⟩
    · obtain ⟨ρ, ok, ev⟩ := mg ρl2 ρr2 lhi rhi okl2 evl2 okr2 evr2
      exact ⟨ρ, ok, by simpa [evalBin] using ev⟩
  · -- -
    obtain ⟨a, ha, hia⟩ := additive_inv true hil hir
    have habs : abs (.bin .sub l r) = some (.int a) := by
      simp [abs, habl, habr, absBin, isArith, absArith, ha]
    obtain ⟨_, hmn, hmx⟩ := additive_shape ha
    simp [hlmin, hrmin, hlmax, hrmax, eadd, esub, ExtInt.neg] at hmn hmx
    refine ⟨a, habs, hia, llo + -rhi, lhi + -rlo, hmn.symm, hmx.symm, ?_, ?_⟩
    · obtain ⟨ρ, ok, ev⟩ := mg ρl1 ρr2 llo rhi okl1 evl1 okr2 evr2
      exact ⟨ρ, ok, by simpa [evalBin, Int.sub_eq_add_neg] using ev⟩
    · obtain ⟨ρ, ok, ev⟩ := mg ρl2 ρr1 lhi rlo okl2 evl2 okr1 evr1
      exact ⟨ρ, ok, by simpa [evalBin, Int.sub_eq_add_neg] using ev⟩
  · -- *
    obtain ⟨a, ha, hia⟩ := multiplicative_inv hil hir
    have habs : abs (.bin .mul l r) = some (.int a) := by
      simp [abs, habl, habr, absBin, isArith, absArith, ha]
    obtain ⟨hmn, hmx⟩ := multiplicative_ends ha
    simp only [hlmin, hrmin, hlmax, hrmax, emul] at hmn hmx
    -- every corner product is attained
    have corner : ∀ z, ExtInt.fin z ∈ [ExtInt.fin (lhi * rhi), .fin (llo * rhi), .fin (lhi * rlo), .fin (llo * rlo)] →
        ∃ ρ, EnvOk ρ (.bin .mul l r) ∧ eval ρ (.bin .mul l r) = some (.int z) := by
      intro z hz
      simp only [List.mem_cons, List.not_mem_nil, or_false, ExtInt.fin.injEq] at hz
      rcases hz with rfl | rfl | rfl | rfl
      · obtain ⟨ρ, ok, ev⟩ := mg ρl2 ρr2 lhi rhi okl2 evl2 okr2 evr2
        exact ⟨ρ, ok, by simpa [evalBin] using ev⟩
      · obtain ⟨ρ, ok, ev⟩ := mg ρl1 ρr2 llo rhi okl1 evl1 okr2 evr2
        exact ⟨ρ, ok, by simpa [evalBin] using ev⟩
      · obtain ⟨ρ, ok, ev⟩ := mg ρl2 ρr1 lhi rlo okl2 evl2 okr1 evr1
        exact ⟨ρ, ok, by simpa [evalBin] using ev⟩
      · obtain ⟨ρ, ok, ev⟩ := mg ρl1 ρr1 llo rlo okl1 evl1 okr1 evr1
        exact ⟨ρ, ok, by simpa [evalBin] using ev⟩
    have hlo : ∃ lo, a.min = .fin lo := by
      cases hm : a.min with
      | fin z => exact ⟨z, rfl⟩
      | posInf => exact absurd hm hia.minNe
      | negInf =>
        rw [hm] at hmn
        have := eminL_negInf hmn.symm
        simp at this
    have hhi : ∃ hi, a.max = .fin hi := by
      cases hm : a.max with
      | fin z => exact ⟨z, rfl⟩
      | negInf => exact absurd hm hia.maxNe
      | posInf =>
        rw [hm] at hmx
        have := emaxL_posInf hmx.symm
        simp at this
    obtain ⟨lo, hlo⟩ := hlo
    obtain ⟨hi, hhi⟩ := hhi
    refine ⟨a, habs, hia, lo, hi, hlo, hhi, ?_, ?_⟩
    · rw [hlo] at hmn; exact corner lo (eminL_mem hmn.symm)
    · rw [hhi] at hmx; exact corner hi (emaxL_mem hmx.symm)

/-! ### `$max` and argument lists -/

theorem maxFn_ends {args : List AVal} {a : AVal} (h : maxFn args = some a) :
    a.min = emaxL (args.map (·.min)) ∧ a.max = emaxL (args.map (·.max)) := by
  cases args with
  | nil => cases h
  | cons a0 as =>
    simp only [maxFn] at h
    split at h
    · rename_i heq
      cases h
      exact ⟨rfl, rfl⟩
    · split at h
      · cases h
      · cases h; exact ⟨rfl, rfl⟩

theorem listMax_some : ∀ {l : List Int}, l ≠ [] → ∃ m, listMax l = some m
  | [], h => absurd rfl h
  | [a], _ => ⟨a, rfl⟩
  | a :: b :: r, _ => by
    obtain ⟨m, hm⟩ := listMax_some (l := b :: r) (by simp)
    exact ⟨if a ≤ m then m else a, by simp [listMax, hm]⟩

theorem emaxL_fins {l : List Int} {m : Int} (h : IsMaxOf l m) : emaxL (l.map .fin) = .fin m := by
  obtain ⟨hmem, hge⟩ := h
  have h1 : LowOk (emaxL (l.map .fin)) m := emaxL_low (fun x hx => by
    obtain ⟨y, hy, rfl⟩ := List.mem_map.mp hx
    exact hge y hy)
  have h2 : HighOk (emaxL (l.map .fin)) m :=
    emaxL_high (x := .fin m) (List.mem_map.mpr ⟨m, hmem, rfl⟩) (Int.le_refl m)
  cases he : emaxL (l.map .fin) with
  | negInf => rw [he] at h2; exact h2.elim
  | posInf => rw [he] at h1; exact h1.elim
  | fin z =>
    rw [he] at h1 h2
    simp only [LowOk, HighOk] at h1 h2
    have : z = m := by omega
    rw [this]

theorem valsInts_map (l : List Int) : valsInts (l.map .int) = some l := by
  induction l with
  | nil => rfl
  | cons a as ih => simp [valsInts, ih]

theorem atypeInts_map (l : List AVal) : atypeInts (l.map .int) = some l := by
  induction l with
  | nil => rfl
  | cons a as ih => simp [atypeInts, ih]

/-- the tightness statement for an argument list: one environment puts every argument at
    its minimum, one puts every argument at its maximum -/
@[reducible] def TightList (es : List Expr) (avs : List AVal) : Prop :=
  ∃ los his : List Int, avs.map (·.min) = los.map .fin ∧ avs.map (·.max) = his.map .fin ∧
    (∃ ρ, EnvOkList ρ es ∧ evalList ρ es = some (los.map .int)) ∧
    (∃ ρ, EnvOkList ρ es ∧ evalList ρ es = some (his.map .int))

theorem merge_cons {e : Expr} {es : List Expr} (he : LinOnce e = true) (hes : LinOnceList es = true)
    (hd : disjoint (ivars e) (ivarsList es) = true) {ρ1 ρ2 : Env} {x : Int} {vs : List CVal}
    (ok1 : EnvOk ρ1 e) (ev1 : eval ρ1 e = some (.int x))
    (ok2 : EnvOkList ρ2 es) (ev2 : evalList ρ2 es = some vs) :
    ∃ ρ, EnvOkList ρ (e :: es) ∧ evalList ρ (e :: es) = some (.int x :: vs) := by
  have h1 := lin_congr e he ρ1 (mergeEnv (ivars e) ρ1 ρ2)
    (fun id hid => (merge_left _ _ _ hid).symm)
  have h2 := linList_congr es hes ρ2 (mergeEnv (ivars e) ρ1 ρ2)
    (fun id hid => (merge_right _ _ _ (fun hin => disjoint_spec hd id hin hid)).symm)
  refine ⟨mergeEnv (ivars e) ρ1 ρ2, ⟨h1.2 ok1, h2.2 ok2⟩, ?_⟩
  simp only [evalList, ← h1.1, ← h2.1, ev1, ev2]

theorem max_tight {args : List Expr} {avs : List AVal} (hne : avs ≠ [])
    (habs : absList args = some (avs.map .int)) (hinv : ∀ a ∈ avs, InvS a)
    (ht : TightList args avs) :
    ∃ a, abs (.max args) = some (.int a) ∧ InvS a ∧ TightAt (.max args) a := by
  obtain ⟨los, his, hlos, hhis, ⟨ρ1, ok1, ev1⟩, ⟨ρ2, ok2, ev2⟩⟩ := ht
  obtain ⟨a, ha, hia⟩ := maxFn_inv hne hinv
  have habs' : abs (.max args) = some (.int a) := by
    simp [abs, habs, absMax, atypeInts_map, ha]
  obtain ⟨hmn, hmx⟩ := maxFn_ends ha
  rw [hlos] at hmn
  rw [hhis] at hmx
  have hlne : los ≠ [] := by
    intro e; rw [e] at hlos; simp at hlos; exact hne hlos
  have hhne : his ≠ [] := by
    intro e; rw [e] at hhis; simp at hhis; exact hne hhis
  obtain ⟨lo, hlo⟩ := listMax_some hlne
  obtain ⟨hi, hhi⟩ := listMax_some hhne
  rw [emaxL_fins (listMax_isMax hlo)] at hmn
  rw [emaxL_fins (listMax_isMax hhi)] at hmx
  refine ⟨a, habs', hia, lo, hi, hmn, hmx, ⟨ρ1, ok1, ?_⟩, ⟨ρ2, ok2, ?_⟩⟩
  · simp [eval, ev1, valsInts_map, hlo]
  · simp [eval, ev2, valsInts_map, hhi]

mutual
/-- on the single-occurrence fragment the analysis returns, its result satisfies the
    invariant, both inferred ends are finite and each is attained by an environment whose
    leaves hold values of their physical types -/
theorem tight_aux : (e : Expr) → LinOnce e = true →
    ∃ a, abs e = some (.int a) ∧ InvS a ∧ TightAt e a
  | .const c, _ =>
    ⟨constRange c, rfl, Or.inl ⟨c, rfl⟩, c, c, rfl, rfl,
      ⟨⟨fun _ => 0, fun _ => false, fun _ => 0⟩, trivial, rfl⟩,
      ⟨⟨fun _ => 0, fun _ => false, fun _ => 0⟩, trivial, rfl⟩⟩
  | .ileaf id k size, h => by
    cases size with
    | none => simp [LinOnce] at h
    | some s =>
      simp only [LinOnce, decide_eq_true_eq] at h
      exact ⟨leafRange k (some s), rfl, InvS_of_InvOk (leafRange_invOk k (some s)), leaf_tight id k s h⟩
  | .bin op l r, h => by
    simp only [LinOnce, Bool.and_eq_true] at h
    obtain ⟨⟨⟨hop, hl⟩, hr⟩, hd⟩ := h
    obtain ⟨al, habl, hil, htl⟩ := tight_aux l hl
    obtain ⟨ar, habr, hir, htr⟩ := tight_aux r hr
    exact bin_tight hop hl hr hd habl hil htl habr hir htr
  | .max args, h => by
    simp only [LinOnce, Bool.and_eq_true] at h
    obtain ⟨hne, hl⟩ := h
    obtain ⟨avs, habs, hinv, ht⟩ := tightList_aux args hl
    have hne' : avs ≠ [] := by
      intro e
      subst e
      cases args with
      | nil => simp at hne
      | cons x xs =>
        simp only [absList] at habs
        split at habs <;> simp at habs
    exact max_tight hne' habs hinv ht
  | .bconst _, h => by simp [LinOnce] at h
  | .econst _, h => by simp [LinOnce] at h
  | .ssize _, h => by simp [LinOnce] at h
  | .given _ _, h => by simp [LinOnce] at h
  | .bleaf _, h => by simp [LinOnce] at h
  | .eleaf _, h => by simp [LinOnce] at h
  | .choice _ _ _, h => by simp [LinOnce] at h
  | .upper _, h => by simp [LinOnce] at h
  | .lower _, h => by simp [LinOnce] at h
  | .cref _, h => by simp [LinOnce] at h
  | .vref _, h => by simp [LinOnce] at h
  | .present _ _, h => by simp [LinOnce] at h
theorem tightList_aux : (es : List Expr) → LinOnceList es = true →
    ∃ avs, absList es = some (avs.map .int) ∧ (∀ a ∈ avs, InvS a) ∧ TightList es avs
  | [], _ =>
    ⟨[], rfl, (fun a ha => nomatch ha), [], [], rfl, rfl,
      ⟨⟨fun _ => 0, fun _ => false, fun _ => 0⟩, trivial, rfl⟩,
      ⟨⟨fun _ => 0, fun _ => false, fun _ => 0⟩, trivial, rfl⟩⟩
  | e :: es, h => by
    simp only [LinOnceList, Bool.and_eq_true] at h
    obtain ⟨⟨he, hes⟩, hd⟩ := h
    obtain ⟨a, habs, hia, lo, hi, hmin, hmax, ⟨ρ1, ok1, ev1⟩, ⟨ρ2, ok2, ev2⟩⟩ := tight_aux e he
    obtain ⟨avs, habss, hinv, los, his, hlos, hhis, ⟨ρs1, oks1, evs1⟩, ⟨ρs2, oks2, evs2⟩⟩ :=
      tightList_aux es hes
    refine ⟨a :: avs, by simp [absList, habs, habss], ?_, lo :: los, hi :: his,
      by simp [hmin, hlos], by simp [hmax, hhis], ?_, ?_⟩
    · intro b hb
      rcases List.mem_cons.mp hb with rfl | hm
      · exact hia
      · exact hinv b hm
    · exact merge_cons he hes hd ok1 ev1 oks1 evs1
    · exact merge_cons he hes hd ok2 ev2 oks2 evs2
end

end Emboss.Bounds
