/-
Order / gcd lemmas on the extended integers and moduli of Model/Bounds.lean.
-/
import Emboss.Spec.Bounds
namespace Emboss.Bounds
open ExtInt

/-! ### `_add` / `_sub` -/

theorem eadd_low {a b c : ExtInt} {x y : Int} (h : eadd a b = some c)
    (ha : LowOk a x) (hb : LowOk b y) : LowOk c (x + y) := by
  cases a <;> cases b <;> simp_all [eadd, LowOk] <;> subst h <;> simp [LowOk] <;> omega

theorem eadd_high {a b c : ExtInt} {x y : Int} (h : eadd a b = some c)
    (ha : HighOk a x) (hb : HighOk b y) : HighOk c (x + y) := by
  cases a <;> cases b <;> simp_all [eadd, HighOk] <;> subst h <;> simp [HighOk] <;> omega

theorem neg_low {b : ExtInt} {y : Int} (hb : HighOk b y) : LowOk b.neg (-y) := by
  cases b <;> simp_all [ExtInt.neg, LowOk, HighOk]

theorem neg_high {b : ExtInt} {y : Int} (hb : LowOk b y) : HighOk b.neg (-y) := by
  cases b <;> simp_all [ExtInt.neg, LowOk, HighOk]

theorem esub_low {a b c : ExtInt} {x y : Int} (h : esub a b = some c)
    (ha : LowOk a x) (hb : HighOk b y) : LowOk c (x - y) := by
  have := eadd_low h ha (neg_low hb)
  rwa [Int.sub_eq_add_neg]

theorem esub_high {a b c : ExtInt} {x y : Int} (h : esub a b = some c)
    (ha : HighOk a x) (hb : LowOk b y) : HighOk c (x - y) := by
  have := eadd_high h ha (neg_high hb)
  rwa [Int.sub_eq_add_neg]

/-! ### `_max` / `_min` -/

theorem emax2_high_left {a b : ExtInt} {v : Int} (h : HighOk a v) : HighOk (emax2 a b) v := by
  cases a <;> cases b <;> simp_all [emax2, HighOk] <;> split <;> omega

theorem emax2_high_right {a b : ExtInt} {v : Int} (h : HighOk b v) : HighOk (emax2 a b) v := by
  cases a <;> cases b <;> simp_all [emax2, HighOk] <;> split <;> omega

theorem emax2_low {a b : ExtInt} {v : Int} (ha : LowOk a v) (hb : LowOk b v) :
    LowOk (emax2 a b) v := by
  cases a <;> cases b <;> simp_all [emax2, LowOk] <;> split <;> omega

theorem emin2_low_left {a b : ExtInt} {v : Int} (h : LowOk a v) : LowOk (emin2 a b) v := by
  cases a <;> cases b <;> simp_all [emin2, LowOk] <;> split <;> omega

theorem emin2_low_right {a b : ExtInt} {v : Int} (h : LowOk b v) : LowOk (emin2 a b) v := by
  cases a <;> cases b <;> simp_all [emin2, LowOk] <;> split <;> omega

theorem emin2_high {a b : ExtInt} {v : Int} (ha : HighOk a v) (hb : HighOk b v) :
    HighOk (emin2 a b) v := by
  cases a <;> cases b <;> simp_all [emin2, HighOk] <;> split <;> omega

theorem foldl_emax2_high_acc (l : List ExtInt) (acc : ExtInt) (v : Int) (h : HighOk acc v) :
    HighOk (l.foldl emax2 acc) v := by
  induction l generalizing acc with
  | nil => simpa
  | cons x xs ih => exact ih _ (emax2_high_left h)

theorem foldl_emax2_high_mem (l : List ExtInt) (acc x : ExtInt) (v : Int) (hx : x ∈ l)
    (h : HighOk x v) : HighOk (l.foldl emax2 acc) v := by
  induction l generalizing acc with
  | nil => cases hx
  | cons y ys ih =>
    simp only [List.foldl_cons]
    rcases List.mem_cons.mp hx with rfl | hm
    · exact foldl_emax2_high_acc _ _ _ (emax2_high_right h)
    · exact ih _ hm

/-- `v ≤ x ≤ _max(l)` for a member x. -/
theorem emaxL_high {l : List ExtInt} {x : ExtInt} {v : Int} (hx : x ∈ l) (h : HighOk x v) :
    HighOk (emaxL l) v := foldl_emax2_high_mem l _ x v hx h

theorem foldl_emax2_low (l : List ExtInt) (acc : ExtInt) (v : Int) (hacc : LowOk acc v)
    (h : ∀ x ∈ l, LowOk x v) : LowOk (l.foldl emax2 acc) v := by
  induction l generalizing acc with
  | nil => simpa
  | cons y ys ih =>
    simp only [List.foldl_cons]
    exact ih _ (emax2_low hacc (h y (List.mem_cons_self))) (fun x hx => h x (List.mem_cons_of_mem _ hx))

/-- `_max(l) ≤ v` when every member is. -/
theorem emaxL_low {l : List ExtInt} {v : Int} (h : ∀ x ∈ l, LowOk x v) : LowOk (emaxL l) v :=
  foldl_emax2_low l _ v (by simp [LowOk]) h

theorem foldl_emin2_low_acc (l : List ExtInt) (acc : ExtInt) (v : Int) (h : LowOk acc v) :
    LowOk (l.foldl emin2 acc) v := by
  induction l generalizing acc with
  | nil => simpa
  | cons x xs ih => exact ih _ (emin2_low_left h)

theorem foldl_emin2_low_mem (l : List ExtInt) (acc x : ExtInt) (v : Int) (hx : x ∈ l)
    (h : LowOk x v) : LowOk (l.foldl emin2 acc) v := by
  induction l generalizing acc with
  | nil => cases hx
  | cons y ys ih =>
    simp only [List.foldl_cons]
    rcases List.mem_cons.mp hx with rfl | hm
    · exact foldl_emin2_low_acc _ _ _ (emin2_low_right h)
    · exact ih _ hm

theorem eminL_low {l : List ExtInt} {x : ExtInt} {v : Int} (hx : x ∈ l) (h : LowOk x v) :
    LowOk (eminL l) v := foldl_emin2_low_mem l _ x v hx h

theorem foldl_emin2_high (l : List ExtInt) (acc : ExtInt) (v : Int) (hacc : HighOk acc v)
    (h : ∀ x ∈ l, HighOk x v) : HighOk (l.foldl emin2 acc) v := by
  induction l generalizing acc with
  | nil => simpa
  | cons y ys ih =>
    simp only [List.foldl_cons]
    exact ih _ (emin2_high hacc (h y (List.mem_cons_self))) (fun x hx => h x (List.mem_cons_of_mem _ hx))

theorem eminL_high {l : List ExtInt} {v : Int} (h : ∀ x ∈ l, HighOk x v) : HighOk (eminL l) v :=
  foldl_emin2_high l _ v (by simp [HighOk]) h

/-! ### `_greatest_common_divisor` is `Nat.gcd` once "infinity" is read as 0 -/

theorem gcdM_toNat (a b : Modulus) : (gcdM a b).toNat = Nat.gcd a.toNat b.toNat := by
  cases a with
  | inf =>
    cases b with
    | inf => simp [gcdM, Modulus.toNat]
    | fin m => cases m <;> simp [gcdM, Modulus.toNat]
  | fin n =>
    cases b with
    | inf => cases n <;> simp [gcdM, Modulus.toNat]
    | fin m => cases n <;> cases m <;> simp [gcdM, Modulus.toNat]

theorem gcdM_dvd_left (a b : Modulus) : (((gcdM a b).toNat : Nat) : Int) ∣ ((a.toNat : Nat) : Int) := by
  rw [gcdM_toNat]; exact Int.ofNat_dvd.mpr (Nat.gcd_dvd_left _ _)

theorem gcdM_dvd_right (a b : Modulus) : (((gcdM a b).toNat : Nat) : Int) ∣ ((b.toNat : Nat) : Int) := by
  rw [gcdM_toNat]; exact Int.ofNat_dvd.mpr (Nat.gcd_dvd_right _ _)

/-- `k ∣ v − v % k` -/
theorem dvd_sub_emod (k v : Int) : k ∣ v - v % k := by
  refine ⟨v / k, ?_⟩
  have := Int.emod_add_mul_ediv v k
  omega

/-- replacing the remainder by its canonical representative keeps the congruence -/
theorem dvd_sub_emod_of_dvd {k x c : Int} (h : k ∣ x - c) : k ∣ x - c % k := by
  have h2 := dvd_sub_emod k c
  have : x - c % k = (x - c) + (c - c % k) := by omega
  rw [this]; exact Int.dvd_add h h2

theorem CongOk.weaken {m m' : Modulus} {c : Int} {v : Int}
    (hd : ((m'.toNat : Nat) : Int) ∣ ((m.toNat : Nat) : Int)) (h : CongOk m (.fin c) v) :
    CongOk m' (.fin c) v := by
  obtain ⟨c', hc, hdv⟩ := h
  exact ⟨c', hc, Int.dvd_trans hd hdv⟩

end Emboss.Bounds
