/-
`step` preserves the information order; hence `G` is monotone in the view and in the fuel.
-/
import Emboss.Lemmas.ViewMono
namespace Emboss.View

theorem step_read_mono {m : Module} (hm : moduleWF m = true) {o1 o2 : Oracle} (ho : OrLe m o1 o2)
    {w1 w2 : SView} (h : VLe w1 w2) (hwf : structWF m w1.sd = true) (p : List String) :
    OLe ((step m o1).read w1 p) ((step m o2).read w2 p) := by
  cases p with
  | nil => exact OLe.none _
  | cons x rest =>
    simp only [step]
    rw [← h.sd]
    cases hf : w1.sd.field x with
    | none => exact OLe.none _
    | some f =>
      simp only
      have hfw := field_wf hwf hf
      cases hk : f.kind with
      | virt value req =>
        cases rest with
        | nil => exact virtRead_mono ho h hwf value req
        | cons y ys => exact OLe.none _
      | alias target =>
        simp only
        intro v hv
        by_cases hh : hasField o1 w1 f = some true
        · rw [if_pos hh] at hv
          rw [if_pos (hasField_mono ho h hwf f true hh)]
          exact (ho w1 w2 h hwf).1 _ v hv
        · rw [if_neg hh] at hv; cases hv
      | phys start size ty bo =>
        cases ty with
        | array e es => cases rest <;> exact OLe.none _
        | scalar k bits req =>
          cases rest with
          | cons y ys => exact OLe.none _
          | nil =>
            simp only
            have hsz : w1.sd.unit ≠ 8 ∨ (1 : Nat) = 8 ∨
                ∃ k : Int, constInt? size = some k ∧ 0 ≤ k ∧ k.toNat * 8 = bits := by
              unfold fieldWF at hfw
              rw [hk] at hfw
              simp only [Bool.or_eq_true, bne_iff_ne, ne_eq] at hfw
              rcases hfw with h1 | h3
              · exact Or.inl h1
              · right; right
                cases hc : constInt? size with
                | none => simp [hc] at h3
                | some k =>
                  simp only [hc, Bool.and_eq_true, decide_eq_true_eq, beq_iff_eq] at h3
                  exact ⟨k, rfl, h3.1, h3.2⟩
            have hst := physStorage_adaptFor_mono ho h hwf f start size 1 bo bits hsz
            cases h1 : physStorage o1 w1 f start size with
            | none => exact OLe.none _
            | some s1 =>
              cases h2 : physStorage o2 w2 f start size with
              | none => rw [h1, h2] at hst; simp [OStLe] at hst
              | some s2 =>
                rw [h1, h2] at hst
                simp only [Option.map, OStLe] at hst
                have hu : w2.sd.unit = w1.sd.unit := by rw [h.sd]
                rw [hu] at hst
                exact leafRead_mono ho h hwf k bits req hst
        | struct name bits args =>
          cases rest with
          | nil => exact OLe.none _
          | cons y ys =>
            simp only
            have hsv := subView_mono hm ho h hwf f start size name bits args bo hfw hk
            cases h1 : subView o1 m w1 f start size name bits args bo with
            | none => exact OLe.none _
            | some a =>
              cases h2 : subView o2 m w2 f start size name bits args bo with
              | none => rw [h1, h2] at hsv; exact absurd hsv (by simp)
              | some b =>
                rw [h1, h2] at hsv
                exact (ho a b hsv.1 hsv.2).1 _

theorem step_has_mono {m : Module} (hm : moduleWF m = true) {o1 o2 : Oracle} (ho : OrLe m o1 o2)
    {w1 w2 : SView} (h : VLe w1 w2) (hwf : structWF m w1.sd = true) (p : List String) :
    OLe ((step m o1).has w1 p) ((step m o2).has w2 p) := by
  cases p with
  | nil => exact OLe.none _
  | cons x rest =>
    simp only [step]
    rw [← h.sd]
    cases hf : w1.sd.field x with
    | none => exact OLe.none _
    | some f =>
      simp only
      have hfw := field_wf hwf hf
      cases rest with
      | nil => exact hasField_mono ho h hwf f
      | cons y ys =>
        simp only
        cases hk : f.kind with
        | virt value req => exact OLe.none _
        | alias target =>
          simp only
          intro v hv
          by_cases hh : hasField o1 w1 f = some true
          · rw [if_pos hh] at hv
            rw [if_pos (hasField_mono ho h hwf f true hh)]
            exact (ho w1 w2 h hwf).2 _ v hv
          · rw [if_neg hh] at hv; cases hv
        | phys start size ty bo =>
          cases ty with
          | array e es => exact OLe.none _
          | scalar k bits req => exact OLe.none _
          | struct name bits args =>
            simp only
            have hsv := subView_mono hm ho h hwf f start size name bits args bo hfw hk
            cases h1 : subView o1 m w1 f start size name bits args bo with
            | none => exact OLe.none _
            | some a =>
              cases h2 : subView o2 m w2 f start size name bits args bo with
              | none => rw [h1, h2] at hsv; exact absurd hsv (by simp)
              | some b =>
                rw [h1, h2] at hsv
                exact (ho a b hsv.1 hsv.2).2 _

theorem step_mono {m : Module} (hm : moduleWF m = true) {o1 o2 : Oracle} (ho : OrLe m o1 o2) :
    OrLe m (step m o1) (step m o2) :=
  fun _ _ h hwf => ⟨step_read_mono hm ho h hwf, step_has_mono hm ho h hwf⟩

theorem bottom_le (m : Module) (o : Oracle) : OrLe m Oracle.bottom o :=
  fun _ _ _ _ => ⟨fun _ => OLe.none _, fun _ => OLe.none _⟩

/-- `G` is monotone in the view at every fuel. -/
theorem G_mono {m : Module} (hm : moduleWF m = true) : ∀ n, OrLe m (G m n) (G m n)
  | 0 => bottom_le m _
  | n + 1 => step_mono hm (G_mono hm n)

/-- `G` is monotone in the fuel. -/
theorem G_fuel_mono {m : Module} (hm : moduleWF m = true) : ∀ n, OrLe m (G m n) (G m (n + 1))
  | 0 => bottom_le m _
  | n + 1 => step_mono hm (G_fuel_mono hm n)

theorem rootView_le (sd : StructDef) (ps : List Val) (b c : List Nat) :
    VLe (rootView sd ps b) (rootView sd ps (b ++ c)) :=
  ⟨rfl, OLe.refl _, by simp only [rootView, StLe]; exact List.prefix_append b c⟩

end Emboss.View
