/-
Completeness of the shift-reduce driver over a validated table: for every parse tree `t` of
`G` whose yield is the next part of the input, the parser — sitting in a state that has an
item with `t.root` after the dot, and whose lookahead after `t` is compatible — pushes
exactly `t` (standard LR(1) argument, by induction on the tree; the FIRST table only needs
to be closed).
-/
import Emboss.Lemmas.Lr1Sound
namespace Emboss.Lr1

variable {G : Grammar} {A : Automaton} {C : Cert}

/-! ### multi-step runs -/

def stepsTo (A : Automaton) (w : List Token) : Nat → Config → Config → Prop
  | 0, c, c' => c = c'
  | n + 1, c, c' => ∃ c1, step A w c = .next c1 ∧ stepsTo A w n c1 c'

def Reaches (A : Automaton) (w : List Token) (c c' : Config) : Prop := ∃ n, stepsTo A w n c c'

theorem stepsTo_trans {w : List Token} : ∀ {n m : Nat} {c c1 c2 : Config},
    stepsTo A w n c c1 → stepsTo A w m c1 c2 → stepsTo A w (n + m) c c2
  | 0, m, c, c1, c2, h1, h2 => by cases h1; simpa using h2
  | n + 1, m, c, c1, c2, ⟨c', hs, h1⟩, h2 => by
    rw [Nat.add_right_comm]
    exact ⟨c', hs, stepsTo_trans h1 h2⟩

theorem Reaches.refl {w : List Token} (c : Config) : Reaches A w c c := ⟨0, rfl⟩
theorem Reaches.trans {w : List Token} {c c1 c2 : Config} (h1 : Reaches A w c c1) (h2 : Reaches A w c1 c2) :
    Reaches A w c c2 := by
  obtain ⟨n, h1⟩ := h1; obtain ⟨m, h2⟩ := h2; exact ⟨n + m, stepsTo_trans h1 h2⟩
theorem Reaches.step {w : List Token} {c c1 : Config} (h : step A w c = .next c1) : Reaches A w c c1 :=
  ⟨1, c1, h, rfl⟩

theorem runFrom_stepsTo {w : List Token} : ∀ {n : Nat} {c c' : Config} (f : Nat),
    stepsTo A w n c c' → runFrom A w (n + f) c = runFrom A w f c'
  | 0, c, c', f, h => by cases h; simp
  | n + 1, c, c', f, ⟨c1, hs, h⟩ => by
    rw [Nat.add_right_comm]
    simp only [runFrom, hs]
    exact runFrom_stepsTo f h

/-! ### FIRST is complete for parse trees -/

def headSym (ys : List Token) (dflt : Nat) : Nat :=
  match ys with
  | [] => dflt
  | t :: _ => t.sym

def FirstOK (C : Cert) (t : Tree) : Prop :=
  (t.yield = [] → C.nullableOf t.root = true) ∧
  (∀ tok ys, t.yield = tok :: ys → tok.sym ∈ C.firstOf t.root)

theorem first_list (C : Cert) : ∀ (cs : List Tree), (∀ c ∈ cs, FirstOK C c) → ∀ tail : List Nat,
    (∀ tok ys, Tree.yieldL cs = tok :: ys → tok.sym ∈ C.firstSeq (cs.map Tree.root) tail) ∧
    (Tree.yieldL cs = [] → (cs.map Tree.root).all C.nullableOf = true ∧
      ∀ x ∈ tail, x ∈ C.firstSeq (cs.map Tree.root) tail)
  | [], _, tail => by simp [Tree.yieldL, Cert.firstSeq]
  | c :: cs, h, tail => by
    have hc := h c List.mem_cons_self
    have ih := first_list C cs (fun c' hc' => h c' (List.mem_cons_of_mem _ hc')) tail
    simp only [Tree.yieldL, List.map_cons, Cert.firstSeq]
    cases hy : c.yield with
    | nil =>
      have hn := hc.1 hy
      simp only [List.nil_append, hn, if_true, List.all_cons, Bool.true_and]
      refine ⟨?_, ?_⟩
      · intro tok ys h'
        exact List.mem_append_right _ (ih.1 tok ys h')
      · intro h'
        exact ⟨(ih.2 h').1, fun x hx => List.mem_append_right _ ((ih.2 h').2 x hx)⟩
    | cons tok' ys' =>
      refine ⟨?_, by intro h'; simp at h'⟩
      intro tok ys h'
      simp only [List.cons_append, List.cons.injEq] at h'
      rw [← h'.1]
      exact List.mem_append_left _ (hc.2 tok' ys' hy)

theorem first_tree (hv : Valid G A C) : ∀ {t : Tree}, ParseTree G t → FirstOK C t := by
  intro t ht
  induction ht with
  | leaf tok hnt =>
    refine ⟨by simp [Tree.yield], ?_⟩
    intro tok' ys h
    simp only [Tree.yield, List.cons.injEq] at h
    rw [← h.1]
    simp [Cert.firstOf, hv.isNT, Tree.root, hnt]
  | node p cs hp _ hroots ih =>
    have hpa : p ∈ C.rules.toList := by rw [hv.rules_eq]; exact List.mem_append_left _ hp
    have hf := hv.first p hpa
    have hl := first_list C cs ih []
    rw [hroots] at hl
    refine ⟨?_, ?_⟩
    · intro hy
      exact hf.1 (hl.2 hy).1
    · intro tok ys hy
      exact hf.2 _ (hl.1 tok ys hy)

theorem lookahead_head {w : List Token} {j : Nat} {ys rest : List Token} {a : Nat}
    (hd : w.drop j = ys ++ rest) (ha : lookahead A w (j + ys.length) = a) :
    lookahead A w j = headSym ys a := by
  cases ys with
  | nil => simpa [headSym] using ha
  | cons tok ys' =>
    have : w[j]? = some tok := by
      have := congrArg (fun l => l[0]?) hd
      simpa [List.getElem?_drop] using this
    simp [lookahead, this, headSym]

theorem first_forest (hv : Valid G A C) {w : List Token} {cs : List Tree} (hcs : ∀ c ∈ cs, ParseTree G c)
    {j : Nat} {rest : List Token} {a : Nat} (hd : w.drop j = Tree.yieldL cs ++ rest)
    (ha : lookahead A w (j + (Tree.yieldL cs).length) = a) :
    lookahead A w j ∈ C.firstSeq (cs.map Tree.root) [a] := by
  rw [lookahead_head hd ha]
  have hl := first_list C cs (fun c hc => first_tree hv (hcs c hc)) [a]
  cases hy : Tree.yieldL cs with
  | nil => exact (hl.2 hy).2 a (by simp)
  | cons tok ys => exact hl.1 tok ys hy

/-! ### the parser pushes exactly the tree -/

def PB (A : Automaton) (C : Cert) (w : List Token) (t : Tree) : Prop :=
  ∀ (st : List (Nat × Tree)) (k pi d la : Nat) (q : Rule) (rest : List Token),
    (⟨pi, d, la⟩ : Item) ∈ C.itemsOf (topState st) → C.ruleAt pi = some q → q.rhs[d]? = some t.root →
    w.drop k = t.yield ++ rest →
    lookahead A w (k + t.yield.length) ∈ C.firstSeq (q.rhs.drop (d + 1)) [la] →
    ∃ s', Reaches A w ⟨st, k⟩ ⟨(s', t) :: st, k + t.yield.length⟩ ∧
      (⟨pi, d + 1, la⟩ : Item) ∈ C.itemsOf s'

theorem drop_eq_cons {α} {l : List α} {d : Nat} {x : α} {xs : List α} (h : l.drop d = x :: xs) :
    l[d]? = some x ∧ l.drop (d + 1) = xs := by
  constructor
  · have := congrArg (fun l => l[0]?) h
    simpa [List.getElem?_drop] using this
  · have := congrArg (fun l => l.drop 1) h
    simpa [List.drop_drop, Nat.add_comm] using this

theorem parse_children (hv : Valid G A C) (w : List Token) : ∀ (cs : List Tree),
    (∀ c ∈ cs, ParseTree G c ∧ PB A C w c) →
    ∀ (st : List (Nat × Tree)) (k pi d la : Nat) (q : Rule) (rest : List Token),
      (⟨pi, d, la⟩ : Item) ∈ C.itemsOf (topState st) → C.ruleAt pi = some q →
      cs.map Tree.root = q.rhs.drop d → w.drop k = Tree.yieldL cs ++ rest →
      lookahead A w (k + (Tree.yieldL cs).length) = la →
      ∃ st', Reaches A w ⟨st, k⟩ ⟨st' ++ st, k + (Tree.yieldL cs).length⟩ ∧
        st'.map (·.2) = cs.reverse ∧
        (⟨pi, d + cs.length, la⟩ : Item) ∈ C.itemsOf (topState (st' ++ st))
  | [], _, st, k, pi, d, la, q, rest, hit, _, _, _, _ =>
    ⟨[], by simpa [Tree.yieldL] using Reaches.refl _, rfl, by simpa using hit⟩
  | c :: cs, hcs, st, k, pi, d, la, q, rest, hit, hq, hroots, hd, hla => by
    obtain ⟨hpc, hbc⟩ := hcs c List.mem_cons_self
    have hcs' : ∀ c' ∈ cs, ParseTree G c' ∧ PB A C w c' := fun c' h => hcs c' (List.mem_cons_of_mem _ h)
    simp only [List.map_cons] at hroots
    obtain ⟨hx, hdrop⟩ := drop_eq_cons hroots.symm
    simp only [Tree.yieldL, List.append_assoc, List.length_append] at hd hla ⊢
    have hd2 : w.drop (k + c.yield.length) = Tree.yieldL cs ++ rest := by
      rw [← List.drop_drop, hd, List.drop_left]
    have hla2 : lookahead A w (k + c.yield.length + (Tree.yieldL cs).length) = la := by
      rw [Nat.add_assoc]; exact hla
    have hfirst : lookahead A w (k + c.yield.length) ∈ C.firstSeq (q.rhs.drop (d + 1)) [la] := by
      rw [hdrop]
      exact first_forest hv (fun c' h => (hcs' c' h).1) hd2 hla2
    obtain ⟨s1, hr1, hit1⟩ := hbc st k pi d la q _ hit hq hx hd hfirst
    have hit1' : (⟨pi, d + 1, la⟩ : Item) ∈ C.itemsOf (topState ((s1, c) :: st)) := hit1
    obtain ⟨st2, hr2, hm2, hit2⟩ :=
      parse_children hv w cs hcs' ((s1, c) :: st) (k + c.yield.length) pi (d + 1) la q rest hit1' hq
        hdrop.symm hd2 hla2
    refine ⟨st2 ++ [(s1, c)], ?_, ?_, ?_⟩
    · rw [List.append_assoc, ← Nat.add_assoc]
      exact hr1.trans hr2
    · simp [hm2]
    · rw [List.append_assoc]
      have : d + (c :: cs).length = d + 1 + cs.length := by simp; omega
      rw [this]; exact hit2

theorem parse_tree (hv : Valid G A C) (w : List Token) (hw : ∀ t ∈ w, t.sym ≠ A.eoi) :
    ∀ {t : Tree}, ParseTree G t → PB A C w t := by
  intro t ht
  induction ht with
  | leaf tok hnt =>
    intro st k pi d la q rest hit hq hx hd _
    have hs := Cert.lt_of_mem hit
    have hns : tok.sym ∈ C.nextSyms ⟨pi, d, la⟩ := by
      simp only [Cert.nextSyms, hq]
      simpa [Tree.root] using hx
    have htr := (hv.trans _ hs _ hit _ hns).2 (by rw [hv.isNT]; exact hnt)
    obtain ⟨a, ha, s', hs', hadv⟩ := htr
    have ha' : A.entry (topState st) tok.sym = some a := ha
    have : a = .shift s' := by
      cases a <;> simp [Action.shiftTarget] at hs'
      subst hs'; rfl
    subst this
    have hwk : w[k]? = some tok := by
      have := congrArg (fun l => l[0]?) hd
      simpa [List.getElem?_drop, Tree.yield] using this
    have hla : lookahead A w k = tok.sym := by simp [lookahead, hwk]
    refine ⟨s', Reaches.step ?_, hadv⟩
    simp only [step, nextAction_of_not_client (clientEoi_false_of_forall hw _), hla, Automaton.actionOf, ha',
      hwk, Tree.yield, List.length_singleton]
  | node p cs hp hcs hroots ih =>
    intro st k pi d la q rest hit hq hx hd hfirst
    have hs := Cert.lt_of_mem hit
    simp only [Tree.root] at hx
    simp only [Tree.yield] at hd hfirst ⊢
    -- the index of p among the user productions
    obtain ⟨j, hjlt, hj⟩ := List.getElem_of_mem hp
    have hjall : G.all[j]? = some p := by
      simp only [Grammar.all]
      rw [List.getElem?_append_left hjlt, List.getElem?_eq_getElem hjlt, hj]
    have hjr : C.ruleAt j = some p := by rw [hv.ruleAt]; exact hjall
    have hjz : (p, j) ∈ G.all.zipIdx := List.mem_zipIdx_iff_getElem?.mpr hjall
    have hjp : j ∈ C.prodsFor p.lhs := hv.wf.2.2.2.2.2.2.2.2.1 _ hjz
    -- closure: the dot-0 item of p with the right lookahead is in the state
    have hcl := hv.closure _ hs _ hit q hq p.lhs hx j hjp _ hfirst
    have hcl' : (⟨j, 0, lookahead A w (k + (Tree.yieldL cs).length)⟩ : Item) ∈ C.itemsOf (topState st) := hcl
    obtain ⟨st', hr, hm, hit'⟩ :=
      parse_children hv w cs (fun c hc => ⟨hcs c hc, ih c hc⟩) st k j 0 _ p rest hcl' hjr
        (by simpa using hroots) hd rfl
    -- the complete item reduces on exactly this lookahead
    have hlen : cs.length = p.rhs.length := by rw [← hroots]; simp
    have hst'len : st'.length = p.rhs.length := by
      have := congrArg List.length hm; simpa [hlen] using this
    have hs' := Cert.lt_of_mem hit'
    have hcomp := hv.complete _ hs' _ hit' p hjr (by simp [hlen])
    have hjne : j ≠ C.seedIdx := by rw [hv.seedIdx]; exact Nat.ne_of_lt hjlt
    simp only [hjne, if_false] at hcomp
    -- goto from the state below
    have hns : p.lhs ∈ C.nextSyms ⟨pi, d, la⟩ := by
      simp only [Cert.nextSyms, hq]; simpa using hx
    obtain ⟨s2, hg, hadv⟩ := (hv.trans _ hs _ hit _ hns).1 (hv.isNT_lhs (hv.ruleAt_mem hjr))
    have hg' : A.gotoOf (topState st) p.lhs = some s2 := hg
    refine ⟨s2, hr.trans (Reaches.step ?_), hadv⟩
    have hAp : A.prods[j]? = some p := by rw [hv.prods_eq]; exact hjall
    have htake : List.take p.rhs.length (st' ++ st) = st' := by
      rw [← hst'len]; simp
    have hdropst : List.drop p.rhs.length (st' ++ st) = st := by
      rw [← hst'len]; simp
    have hle : p.rhs.length ≤ (st' ++ st).length := by simp [hst'len]
    simp only [step, nextAction_of_not_client (clientEoi_false_of_forall hw _), Automaton.actionOf, hcomp,
      hAp, hle, if_true, htake, hdropst, hg', hm, List.reverse_reverse]

end Emboss.Lr1

namespace Emboss.Lr1
variable {G : Grammar} {A : Automaton} {C : Cert}

/-- the leaves of a parse tree whose root is not the end-of-input marker are not client
end-of-input tokens (no production mentions the marker) -/
theorem yield_no_eoi (hv : Valid G A C) : ∀ {t : Tree}, ParseTree G t → t.root ≠ G.eoi →
    ∀ tok ∈ t.yield, tok.sym ≠ G.eoi := by
  intro t ht
  induction ht with
  | leaf tok _ =>
    intro hr tok' h
    simp only [Tree.yield, List.mem_singleton] at h
    subst h; exact hr
  | node p cs hp _ hroots ih =>
    intro _ tok h
    have hrhs : ∀ x ∈ p.rhs, x ≠ G.eoi := (hv.wf.2.2.2.2.2.1 p (List.mem_append_left _ hp)).2
    simp only [Tree.yield] at h
    have key : ∀ (l : List Tree), (∀ c ∈ l, c ∈ cs) → tok ∈ Tree.yieldL l → tok.sym ≠ G.eoi := by
      intro l
      induction l with
      | nil => intro _ h'; simp [Tree.yieldL] at h'
      | cons c l ihl =>
        intro hsub h'
        simp only [Tree.yieldL, List.mem_append] at h'
        rcases h' with h' | h'
        · have hc := hsub c List.mem_cons_self
          refine ih c hc (hrhs _ ?_) tok h'
          rw [← hroots]; exact List.mem_map_of_mem hc
        · exact ihl (fun c' hc' => hsub c' (List.mem_cons_of_mem _ hc')) h'
    exact key cs (fun _ h' => h') h

/-- From the initial configuration the parser reaches the accepting configuration of `t`. -/
theorem reaches_accept (hv : Valid G A C) {t : Tree} {w : List Token} (hd : Derives G t w) :
    ∃ s', Reaches A w init ⟨[(s', t)], w.length⟩ ∧ step A w ⟨[(s', t)], w.length⟩ = .done (.accept t) := by
  obtain ⟨hp, hr, hy⟩ := hd
  have hw : ∀ t ∈ w, t.sym ≠ A.eoi := by
    rw [hv.eoi_eq, ← hy]
    exact yield_no_eoi hv hp (by rw [hr]; exact hv.wf.2.2.2.2.1)
  have hpb := parse_tree (A := A) hv w hw hp
  have hit : (⟨C.seedIdx, 0, G.eoi⟩ : Item) ∈ C.itemsOf (topState []) := hv.start.1
  have hla : lookahead A w w.length = G.eoi := by simp [lookahead, hv.eoi_eq]
  obtain ⟨s', hreach, hit'⟩ := hpb [] 0 C.seedIdx 0 G.eoi G.seed [] hit hv.ruleAt_seed
    (by simp [Grammar.seed, hr]) (by simp [hy])
    (by rw [hy]; simp [Grammar.seed, Cert.firstSeq, hla])
  rw [hy] at hreach
  simp only [Nat.zero_add] at hreach hit'
  refine ⟨s', hreach, ?_⟩
  have hs' := Cert.lt_of_mem hit'
  have hcomp := hv.complete _ hs' _ hit' G.seed hv.ruleAt_seed (by simp [Grammar.seed])
  simp only [if_true] at hcomp
  have hla' : lookahead A w w.length = A.eoi := by rw [hv.eoi_eq]; exact hla
  simp only [step, topState, nextAction_of_not_client (clientEoi_false_of_forall hw _), hla,
    Automaton.actionOf, hcomp]
  simp [← hv.eoi_eq]

theorem run_complete (hv : Valid G A C) {t : Tree} {w : List Token} (hd : Derives G t w) :
    ∃ f0, ∀ fuel, f0 ≤ fuel → run A fuel w = .accept t := by
  obtain ⟨s', ⟨n, hn⟩, hstep⟩ := reaches_accept hv hd
  refine ⟨n + 1, fun fuel hf => ?_⟩
  obtain ⟨f, rfl⟩ : ∃ f, fuel = n + (f + 1) := ⟨fuel - n - 1, by omega⟩
  unfold run
  rw [runFrom_stepsTo _ hn]
  simp [runFrom, hstep]

end Emboss.Lr1
