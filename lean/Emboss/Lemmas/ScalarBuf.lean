/-
BitBlock / OffsetBitBlock lemmas: reads return the documented bits, writes replace exactly
the field's bits (read-modify-write with `MaskInValue`).
-/
import Emboss.Lemmas.ScalarMem
namespace Emboss.Scalar
open Emboss.Bits Emboss.Scalar.Spec

variable {bb : BitBlock} {o w : Nat}

theorem placed_bytes (h : Placed bb o w) : Bytes bb.bytes := h.bytes_ok

theorem placed_W_ge (h : Placed bb o w) : bb.c ≤ bb.W := le_leastWidth h.c_hi

theorem containerValue_lt (h : Placed bb o w) : containerValue bb.order bb.bytes < 2 ^ bb.c := by
  have hl := h.len
  have h1 := leValue_lt (placed_bytes h)
  have h2 := leValue_lt (placed_bytes h).reverse
  rw [List.length_reverse] at h2
  rw [show 8 * bb.bytes.length = bb.c by omega] at h1 h2
  unfold containerValue; split <;> assumption

theorem bitBlock_ok_of_placed (h : Placed bb o w) : bb.ok = true := by
  unfold BitBlock.ok
  simp [h.len]

theorem bitBlock_readUInt_eq (h : Placed bb o w) :
    bb.readUInt = some (containerValue bb.order bb.bytes) := by
  unfold BitBlock.readUInt
  rw [if_neg (by simp [h.len])]
  unfold containerValue
  cases hord : bb.order <;> simp only
  · rw [loadLE_eq _ (placed_bytes h) h.len h.c_hi]
  · rw [loadBE_eq _ (placed_bytes h) h.len h.c_hi]
  · rw [loadLE_eq _ (placed_bytes h) h.len h.c_hi]

theorem offsetStorage_eq (h : Placed bb o w) :
    bb.offsetStorage o w = { bb := bb, offset := o, size := w, okFlag := true } := by
  have h1 := h.fits; have h2 := h.c_hi
  unfold BitBlock.offsetStorage
  rw [wrap_of_lt (show o < 2 ^ 8 by omega), wrap_of_lt (show w < 2 ^ 8 by omega)]
  simp [bitBlock_ok_of_placed h, h.fits]

/-- `OffsetBitBlock::ReadUInt` returns bits `[o, o+w)` of the container value. -/
theorem OffsetbitBlock_readUInt_eq (h : Placed bb o w) :
    (bb.offsetStorage o w).readUInt = some (fieldBits bb o w) := by
  rw [offsetStorage_eq h]
  unfold OffsetBitBlock.readUInt
  have hlt := containerValue_lt h
  have hW := (placed_W_ge h)
  have hx : containerValue bb.order bb.bytes < 2 ^ bb.W := lt_pow_of_lt_of_le hlt hW
  simp only [bitBlock_readUInt_eq h]
  rw [if_neg (by have := h.fits; simp; omega)]
  rw [maskToNBits_eq hx (by have := h.fits; omega), mod_shiftRight]
  unfold fieldBits bits
  rw [wrap_of_lt]
  exact Nat.lt_of_le_of_lt (Nat.le_trans (Nat.mod_le _ _) (Nat.div_le_self _ _)) hx

/-- What the view's buffer returns: the covered bits, for fields of structs (`direct`)
and of `bits` alike. -/
theorem fieldBuf_readUInt (h : Placed bb o w) (direct : Bool)
    (hd : direct = true → o = 0 ∧ w = bb.c) :
    (fieldBuf direct bb o w).readUInt = some (fieldBits bb o w) := by
  unfold fieldBuf
  cases direct
  · simp only [Bool.false_eq_true, if_false, Buf.readUInt]; exact OffsetbitBlock_readUInt_eq h
  · obtain ⟨rfl, rfl⟩ := hd rfl
    simp only [if_true, Buf.readUInt, bitBlock_readUInt_eq h, fieldBits, bits]
    rw [Nat.pow_zero, Nat.div_one, Nat.mod_eq_of_lt (containerValue_lt h)]

theorem fieldBits_lt (bb : BitBlock) (o w : Nat) : fieldBits bb o w < 2 ^ w :=
  Nat.mod_lt _ (two_pow_pos' w)

theorem fieldBuf_ok (h : Placed bb o w) (direct : Bool) : (fieldBuf direct bb o w).ok = true := by
  unfold fieldBuf
  cases direct
  · simp [Buf.ok, offsetStorage_eq h]
  · simp [Buf.ok, bitBlock_ok_of_placed h]

theorem fieldBuf_sizeInBits (h : Placed bb o w) (direct : Bool)
    (hd : direct = true → o = 0 ∧ w = bb.c) : (fieldBuf direct bb o w).sizeInBits = w := by
  unfold fieldBuf
  cases direct
  · simp [Buf.sizeInBits, offsetStorage_eq h]
  · simp [Buf.sizeInBits, (hd rfl).2]

theorem fieldBuf_W (direct : Bool) (bb : BitBlock) (o w : Nat) : (fieldBuf direct bb o w).W = bb.W := by
  unfold fieldBuf; cases direct <;> simp [Buf.W, Buf.bitBlock, BitBlock.offsetStorage]

/-! ### Writes -/

theorem pow_sub_one_mod {s W : Nat} (h : s ≤ W) : (2 ^ W - 1) % 2 ^ s = 2 ^ s - 1 := by
  apply Nat.eq_of_testBit_eq; intro i
  rw [Nat.testBit_mod_two_pow, Nat.testBit_two_pow_sub_one, Nat.testBit_two_pow_sub_one]
  by_cases hi : i < s <;> simp [hi]; omega

/-- Bit-level characterisation of `MaskInValue`: bits `[o, o+s)` come from `new`, every
other bit from `orig`. -/
theorem maskInValue_testBit {W o s orig new : Nat} (horig : orig < 2 ^ W) (hnew : new < 2 ^ s)
    (hfit : o + s ≤ W) (i : Nat) :
    (OffsetBitBlock.maskInValue W o s orig new).testBit i =
      if o ≤ i ∧ i < o + s then new.testBit (i - o) else orig.testBit i := by
  unfold OffsetBitBlock.maskInValue
  have hA := le_arithW W
  have hones : wrap W (notW (arithW W) 0) = 2 ^ W - 1 := by
    rw [notW_eq (two_pow_pos' _), Nat.sub_zero]
    apply Nat.eq_of_testBit_eq; intro j
    unfold wrap
    rw [Nat.testBit_mod_two_pow, Nat.testBit_two_pow_sub_one, Nat.testBit_two_pow_sub_one]
    by_cases hj : j < W <;> simp [hj]; omega
  have hWpos : 2 ^ W - 1 < 2 ^ W := Nat.sub_lt (two_pow_pos' W) (by decide)
  have hmask : maskToNBits W (2 ^ W - 1) s = 2 ^ s - 1 := by
    rw [maskToNBits_eq hWpos (by omega), pow_sub_one_mod (by omega)]
  have hshlt : (2 ^ s - 1) * 2 ^ o < 2 ^ arithW W := by
    have h1 : (2 ^ s - 1) * 2 ^ o < 2 ^ s * 2 ^ o :=
      Nat.mul_lt_mul_of_pos_right (Nat.sub_lt (two_pow_pos' s) (by decide)) (two_pow_pos' o)
    rw [← Nat.pow_add] at h1
    exact lt_pow_of_lt_of_le h1 (by omega)
  have hnewlt : new * 2 ^ o < 2 ^ arithW W := by
    have h1 : new * 2 ^ o < 2 ^ s * 2 ^ o := Nat.mul_lt_mul_of_pos_right hnew (two_pow_pos' o)
    rw [← Nat.pow_add] at h1
    exact lt_pow_of_lt_of_le h1 (by omega)
  simp only [hones, hmask, shl_eq hshlt, shl_eq hnewlt, notW_eq hshlt]
  rw [show 2 ^ arithW W - 1 - (2 ^ s - 1) * 2 ^ o = 2 ^ arithW W - ((2 ^ s - 1) * 2 ^ o + 1) by omega]
  unfold wrap
  simp only [Nat.testBit_mod_two_pow, Nat.testBit_or, Nat.testBit_and,
    Nat.testBit_two_pow_sub_succ hshlt, Nat.testBit_mul_two_pow, Nat.testBit_two_pow_sub_one]
  have horig_hi : W ≤ i → orig.testBit i = false := fun hi =>
    Nat.testBit_lt_two_pow (lt_pow_of_lt_of_le horig hi)
  have hnew_hi : s ≤ i - o → new.testBit (i - o) = false := fun hi =>
    Nat.testBit_lt_two_pow (lt_pow_of_lt_of_le hnew hi)
  by_cases h1 : o ≤ i
  · by_cases h2 : i < o + s
    · have h3 : i < W := by omega
      have h4 : i < arithW W := by omega
      have h5 : i - o < s := by omega
      simp [h1, h2, h3, h4, h5]
    · have h5 : ¬ (i - o < s) := by omega
      rw [if_neg (by omega)]
      by_cases h3 : i < W
      · have h4 : i < arithW W := by omega
        simp [h1, h3, h4, h5, hnew_hi (by omega)]
      · simp [h3, horig_hi (by omega)]
  · rw [if_neg (by omega)]
    by_cases h3 : i < W
    · have h4 : i < arithW W := by omega
      simp [h1, h3, h4]
    · simp [h3, horig_hi (by omega)]

theorem bits_of_updated {o w old new r : Nat} (h : Updated o w old new r) (hnew : new < 2 ^ w) :
    bits o w r = new := by
  apply Nat.eq_of_testBit_eq; intro j
  unfold bits
  rw [Nat.testBit_mod_two_pow, Nat.testBit_div_two_pow, h (j + o)]
  by_cases hj : j < w
  · rw [if_pos (by omega)]; simp [hj]
  · simp [hj, Nat.testBit_lt_two_pow (lt_pow_of_lt_of_le hnew (by omega : w ≤ j))]

theorem updated_lt {o w c old new r : Nat} (h : Updated o w old new r) (hold : old < 2 ^ c)
    (hfit : o + w ≤ c) : r < 2 ^ c := by
  apply Nat.lt_pow_two_of_testBit; intro i hi
  rw [h i, if_neg (by omega)]
  exact Nat.testBit_lt_two_pow (lt_pow_of_lt_of_le hold hi)

/-- Bits of the result outside the field are the old ones: the other fields of the same
`bits` container read the same value as before. -/
theorem bits_disjoint_of_updated {o w o' w' old new r : Nat} (h : Updated o w old new r)
    (hdis : o' + w' ≤ o ∨ o + w ≤ o') : bits o' w' r = bits o' w' old := by
  apply Nat.eq_of_testBit_eq; intro j
  unfold bits
  rw [Nat.testBit_mod_two_pow, Nat.testBit_div_two_pow, Nat.testBit_mod_two_pow,
    Nat.testBit_div_two_pow, h (j + o')]
  by_cases hj : j < w'
  · rw [if_neg (by omega)]
  · simp [hj]

theorem bitBlock_writeUInt_eq (h : Placed bb o w) {v : Nat} (hv : v < 2 ^ bb.c) :
    ∃ bytes', bb.writeUInt v = some { bb with bytes := bytes' } ∧
      Placed { bb with bytes := bytes' } o w ∧
      containerValue bb.order bytes' = v := by
  have hW := placed_W_ge h
  have hcm := h.c_mult
  have hmask : v = maskToNBits bb.W v bb.c := by
    rw [maskToNBits_eq (lt_pow_of_lt_of_le hv hW) hW, Nat.mod_eq_of_lt hv]
  have hv8 : v < 2 ^ (8 * (bb.c / 8)) := by rw [show 8 * (bb.c / 8) = bb.c by omega]; exact hv
  unfold BitBlock.writeUInt
  rw [if_neg (by simp [h.len, ← hmask])]
  have mk : ∀ (ord : ByteOrder) bytes', (ord = .null → bb.c = 8) → bytes'.length = bb.c / 8 →
      Bytes bytes' →
      Placed { order := ord, path := bb.path, c := bb.c, bytes := bytes' } o w :=
    fun ord bytes' hn hl hb =>
    { c_mult := h.c_mult, c_lo := h.c_lo, c_hi := h.c_hi, w_pos := h.w_pos, fits := h.fits,
      len := by show bytes'.length * 8 = bb.c; omega, bytes_ok := hb, null_ok := hn }
  cases hord : bb.order <;> simp only
  · refine ⟨_, rfl, mk _ _ (by simp) ?_ ?_, ?_⟩
    · rw [storeLE_eq _ h.c_hi, nativeStore_length]
    · rw [storeLE_eq _ h.c_hi]; exact nativeStore_bytes _ _
    · simp only [containerValue]
      rw [storeLE_eq _ h.c_hi, leValue_nativeStore, Nat.mod_eq_of_lt hv8]
  · refine ⟨_, rfl, mk _ _ (by simp) ?_ ?_, ?_⟩
    · rw [storeBE_eq _ h.c_hi h.c_mult hv, List.length_reverse, nativeStore_length]
    · rw [storeBE_eq _ h.c_hi h.c_mult hv]; exact (nativeStore_bytes _ _).reverse
    · simp only [containerValue]
      rw [storeBE_eq _ h.c_hi h.c_mult hv, List.reverse_reverse, leValue_nativeStore,
        Nat.mod_eq_of_lt hv8]
  · have hc8 := h.null_ok hord
    refine ⟨_, rfl, mk _ _ (fun _ => hc8) ?_ ?_, ?_⟩
    · rw [storeBE_eq _ h.c_hi h.c_mult hv, List.length_reverse, nativeStore_length]
    · rw [storeBE_eq _ h.c_hi h.c_mult hv]; exact (nativeStore_bytes _ _).reverse
    · simp only [containerValue]
      rw [storeBE_eq _ h.c_hi h.c_mult hv, hc8]
      rw [hc8] at hv
      simp only [Nat.reduceDiv, nativeStore, List.reverse_cons, List.reverse_nil, List.nil_append,
        leValue]
      omega

/-- **Write through the view's buffer**: succeeds, keeps the block well-formed, and the new
container value is the old one with exactly the field's bits replaced. -/
theorem fieldBuf_writeUInt (h : Placed bb o w) (direct : Bool)
    (hd : direct = true → o = 0 ∧ w = bb.c) {v : Nat} (hv : v < 2 ^ w) :
    ∃ bytes', (fieldBuf direct bb o w).writeUInt v =
        some (fieldBuf direct { bb with bytes := bytes' } o w) ∧
      Placed { bb with bytes := bytes' } o w ∧
      Updated o w (containerValue bb.order bb.bytes) v (containerValue bb.order bytes') := by
  have hcv := containerValue_lt h
  have hW := placed_W_ge h
  cases direct
  · -- field of a `bits`: read-modify-write
    have hupd : Updated o w (containerValue bb.order bb.bytes) v
        (OffsetBitBlock.maskInValue bb.W o w (containerValue bb.order bb.bytes) v) :=
      fun i => maskInValue_testBit (lt_pow_of_lt_of_le hcv hW) hv (by have := h.fits; omega) i
    have hnewlt := updated_lt hupd hcv h.fits
    obtain ⟨bytes', hw, hp, hcv'⟩ := bitBlock_writeUInt_eq h hnewlt
    refine ⟨bytes', ?_, hp, by rw [hcv']; exact hupd⟩
    simp only [fieldBuf, Bool.false_eq_true, if_false, Buf.writeUInt]
    rw [offsetStorage_eq h, offsetStorage_eq hp]
    unfold OffsetBitBlock.writeUInt
    have hmask : v = maskToNBits bb.W v w := by
      have hvW : v < 2 ^ bb.W := lt_pow_of_lt_of_le hv (by have := h.fits; omega)
      rw [maskToNBits_eq hvW (by have := h.fits; omega), Nat.mod_eq_of_lt hv]
    simp only [bitBlock_readUInt_eq h]
    rw [if_neg (by simp [← hmask])]
    simp only [hw, Option.map]
  · obtain ⟨rfl, rfl⟩ := hd rfl
    obtain ⟨bytes', hw, hp, hcv'⟩ := bitBlock_writeUInt_eq h hv
    refine ⟨bytes', ?_, hp, ?_⟩
    · simp only [fieldBuf, if_true, Buf.writeUInt, hw, Option.map]
    · rw [hcv']; intro i
      by_cases hi : i < bb.c
      · rw [if_pos (by omega)]; simp
      · rw [if_neg (by omega), Nat.testBit_lt_two_pow (lt_pow_of_lt_of_le hv (by omega)),
          Nat.testBit_lt_two_pow (lt_pow_of_lt_of_le hcv (by omega))]

end Emboss.Scalar
