/-
Arrays of scalars: what the model reports about element counts and elements (`arrCount`,
`arrElem`, Model/ViewObs.lean) vs. the reference's `count` / `elem` facts.
-/
import Emboss.Lemmas.ViewRefEquals
namespace Emboss.ViewRef
open Emboss.View

theorem slice_slice (d : List Nat) (s z k e : Nat) (h : k + e ≤ z) :
    (((d.drop s).take z).drop k).take e = (d.drop (s + k)).take e := by
  rw [List.drop_take, List.drop_drop, List.take_take]
  congr 1
  omega

/-- an element's bytes inside the (clamped) storage of the array are the message's bytes at the
element's absolute position -/
theorem fieldRaw_slice (d : List Nat) (bo : ByteOrder) (s z k e bits : Nat) (he : 0 < e)
    (hke : k + e ≤ z) :
    fieldRaw (.bytes (some ((d.drop s).take z))) bo k e bits =
      fieldRaw (.bytes (some d)) bo (s + k) e bits := by
  simp only [fieldRaw, List.length_take, List.length_drop, slice_slice d s z k e hke]
  by_cases hb : e * 8 = bits
  · by_cases hin : s + k + e ≤ d.length
    · rw [if_pos ⟨hb, by omega⟩, if_pos ⟨hb, hin⟩]
    · rw [if_neg (by intro h; omega), if_neg (by intro h; omega)]
  · rw [if_neg (by intro h; exact hb h.1), if_neg (by intro h; exact hb h.1)]

theorem lt_div_mul {i a es : Nat} (hes : 0 < es) (h : i < a / es) : es * i + es ≤ a := by
  have h1 : i + 1 ≤ a / es := h
  have h2 := (Nat.le_div_iff_mul_le hes).mp h1
  rw [Nat.add_mul, Nat.one_mul, Nat.mul_comm] at h2
  exact h2

theorem div_mul_lt {i a es : Nat} (hes : 0 < es) (h : es * i + es ≤ a) : i < a / es := by
  have h2 : (i + 1) * es ≤ a := by rw [Nat.add_mul, Nat.one_mul, Nat.mul_comm]; exact h
  exact (Nat.le_div_iff_mul_le hes).mpr h2

/-- array fields of the fragment sit in byte structures with `es * 8 = bits` -/
theorem ref_array_inv {m : Module} {w : SView} (href : refStruct m w.sd = true) {x : String} {f : Field}
    (hf : w.sd.field x = some f) {start size : Expr} {k : ScalarKind} {bits : Nat} {req : Option Expr}
    {es : Nat} {bo : ByteOrder} (hk : f.kind = .phys start size (.array (.scalar k bits req) es) bo) :
    foldFree f.cond = true ∧ okKind k = true ∧ foldFree start = true ∧ foldFree size = true ∧
      foldFreeOpt req = true ∧ 0 < bits ∧ w.sd.unit = 8 ∧ es * 8 = bits := by
  have hff := ref_of_field href hf
  unfold refField at hff
  rw [hk] at hff
  simp only [Bool.and_eq_true, decide_eq_true_eq, beq_iff_eq] at hff
  obtain ⟨hc, ⟨⟨⟨⟨⟨h1, h2⟩, h3⟩, h4⟩, h5⟩, h6⟩, h7⟩ := hff
  exact ⟨hc, h1, h2, h3, h4, h5, h6, h7⟩

/-- **Soundness for array elements**: an element the model reads is an `elem` fact of R. -/
theorem arrElem_sound {m : Module} {o : Oracle} {w : SView} (href : refStruct m w.sd = true)
    (hwf : viewWF w = true) (hfacts : FactsOf m o w) {x : String} {f : Field}
    (hf : w.sd.field x = some f) {i : Nat} {v : Val} (h : arrElem o w f i = some v) :
    RFact m w (.elem x i v) := by
  unfold arrElem at h
  cases hk : f.kind with
  | alias t => rw [hk] at h; cases h
  | virt a b => rw [hk] at h; cases h
  | phys start size ty bo =>
    rw [hk] at h
    cases ty with
    | scalar a b c => cases h
    | struct a b c => cases h
    | array el es =>
      cases el with
      | struct a b c => cases h
      | array a b => cases h
      | scalar k bits req =>
        simp only at h
        obtain ⟨hcond, hkk, hfstart, hfsize, hfreq, hbits, hu, hes⟩ := ref_array_inv href hf hk
        cases hst : physStorage o w f start size with
        | none => rw [hst] at h; cases h
        | some st =>
          rw [hst] at h
          simp only at h
          obtain ⟨off, s, hhas, hsize, hstart, hs0, hoff0, hsteq⟩ := physStorage_some hst
          by_cases hi : es ≠ 0 ∧ i < st.size / es
          · rw [if_pos hi] at h
            rcases viewWF_unit hwf with ⟨_, d, hd⟩ | ⟨hu', _⟩
            · cases d with
              | none =>
                rw [hd] at hsteq
                simp only [Storage.sub] at hsteq
                rw [hsteq] at hi
                simp [Storage.size] at hi
              | some d =>
                rw [hd] at hsteq
                simp only [Storage.sub] at hsteq
                have hespos : 0 < es := Nat.pos_of_ne_zero hi.1
                have hin := lt_div_mul hespos hi.2
                rw [hsteq] at hin h
                simp only [Storage.size, List.length_take, List.length_drop] at hin
                have hone : (w.sd.unit = 8 ∧ (1 : Nat) ≠ 8) := ⟨hu, by decide⟩
                simp only [Storage.adaptFor, hone, and_self, ↓reduceIte] at h
                rw [adapt_sub_bytes _ bo (es * i) es bits hes hbits,
                  fieldRaw_slice d bo off.toNat s.toNat (es * i) es bits hespos (by omega)] at h
                obtain ⟨raw, hraw, _, hdec, hok⟩ := leafRead_bits h
                refine RFact.elem (s := off) (z := s) (envOf o w none) hf hk
                  (pres_sound href hfacts hf hhas) hfacts.1 hfacts.2 (fun _ _ h => h) rfl ?_ ?_ hoff0 hs0
                  (by omega) (by rw [hd]; exact hraw) ?_ (requiresOk_of_valueIsOk hfreq hok)
                · rw [evalR_eq_eval _ _ hfstart]; exact evalInt_some hstart
                · rw [evalR_eq_eval _ _ hfsize]; exact evalInt_some hsize
                · rw [specDecode_eq k bits _ hkk hbits]; exact hdec
            · exact absurd hu hu'
          · rw [if_neg hi] at h; cases h

/-- **Soundness for the element count**: when the accessor's storage was not clamped (the whole
extent is inside the window) the model's `ElementCount()` is R's `count` fact. -/
theorem arrCount_sound {m : Module} {o : Oracle} {w : SView} (href : refStruct m w.sd = true)
    (hwf : viewWF w = true) (hfacts : FactsOf m o w) {x : String} {f : Field}
    (hf : w.sd.field x = some f) {start size : Expr} {k : ScalarKind} {bits : Nat} {req : Option Expr}
    {es : Nat} {bo : ByteOrder} (hk : f.kind = .phys start size (.array (.scalar k bits req) es) bo)
    {c : Nat} (h : arrCount o w f = some c) {st : Storage} {z : Int}
    (hst : physStorage o w f start size = some st) (hz : evalInt (envOf o w none) size = some z)
    (hfull : st.ok = true ∧ st.size = z.toNat) :
    RFact m w (.count x c) := by
  obtain ⟨hcond, hkk, hfstart, hfsize, hfreq, hbits, hu, hes⟩ := ref_array_inv href hf hk
  have hespos : 0 < es := by omega
  simp only [arrCount, hk, hst, Option.some.injEq] at h
  rw [if_neg (by omega)] at h
  obtain ⟨off, s, hhas, hsize, hstart, hs0, hoff0, hsteq⟩ := physStorage_some hst
  rw [hz] at hsize
  cases hsize
  subst h
  rw [hfull.2]
  refine RFact.count (s := off) (z := z) (envOf o w none) hf hk (pres_sound href hfacts hf hhas)
    hfacts.1 hfacts.2 (fun _ _ h => h) rfl ?_ ?_ hoff0 hs0 hespos ?_
  · rw [evalR_eq_eval _ _ hfstart]; exact evalInt_some hstart
  · rw [evalR_eq_eval _ _ hfsize]; exact evalInt_some hz
  · rcases viewWF_unit hwf with ⟨_, d, hd⟩ | ⟨hu', _⟩
    · rw [hd] at hsteq ⊢
      cases d with
      | none => rw [hsteq] at hfull; simp [Storage.sub, Storage.ok] at hfull
      | some d =>
        rw [hsteq] at hfull
        simp only [Storage.sub, Storage.size, List.length_take, List.length_drop] at hfull
        simp only [extentIn, decide_eq_true_eq]
        have := hfull.2
        omega
    · exact absurd hu hu'

/-! ### completeness -/

/-- an assignment made of R-facts is below the model's environment on statically covered refs -/
theorem env_le_of_facts (m : Module) {P : StructDef → Prop} (hm : Closed m P) (hwfm : moduleWF m = true)
    (n : Nat) (w : SView) (hP : P w.sd) (hwf : viewWF w = true) (ρ : Env) (refs : List (List String))
    (hr : ∀ p v, ρ.read p = some v → RFact m w (.val p v))
    (hh : ∀ p c, ρ.has p = some c → RFact m w (.pres p c))
    (hp : ∀ k v, ρ.param k = some v → w.param k = some v) (hl : ρ.lv = none)
    (hn : ∀ r ∈ refs, need m n w.sd r = true) : LeOn refs ρ (envOf (G m n) w none) := by
  refine ⟨?_, ?_, ?_, ?_⟩
  · intro p hp' v hv
    exact G_complete m hm hwfm n w _ (hr p v hv) hP hwf (hn p hp')
  · intro p hp' c hc
    exact G_complete m hm hwfm n w _ (hh p c hc) hP hwf (hn p hp')
  · intro k v hv
    exact hp k v hv
  · rw [hl]; exact OLe.none _

theorem presence_complete (m : Module) {P : StructDef → Prop} (hm : Closed m P) (hwfm : moduleWF m = true)
    (n : Nat) (w : SView) (hP : P w.sd) (hwf : viewWF w = true) {x : String} {f : Field} {b : Bool}
    (hf : w.sd.field x = some f) (h : RFact m w (.pres [x] b)) (hn : need m (n + 1) w.sd [x] = true) :
    hasField (G m n) w f = some b := by
  have := G_complete m hm hwfm (n + 1) w _ h hP hwf hn
  simp only [G] at this
  rw [step_has_nil m _ w hf] at this
  exact this

/-- what the accessor of an array field computes once the field's references are covered -/
theorem array_storage_complete (m : Module) {P : StructDef → Prop} (hm : Closed m P) (hwfm : moduleWF m = true)
    (n : Nat) (w : SView) (hP : P w.sd) (hwf : viewWF w = true) {x : String} {f : Field}
    (hf : w.sd.field x = some f) {start size : Expr} {el : PType} {es : Nat} {bo : ByteOrder}
    (hk : f.kind = .phys start size (.array el es) bo)
    (hfstart : foldFree start = true) (hfsize : foldFree size = true)
    (hn : need m (n + 1) w.sd [x] = true) (hpres : RFact m w (.pres [x] true)) (ρ : Env)
    (hr : ∀ p v, ρ.read p = some v → RFact m w (.val p v))
    (hh : ∀ p c, ρ.has p = some c → RFact m w (.pres p c))
    (hp : ∀ k v, ρ.param k = some v → w.param k = some v) (hl : ρ.lv = none) {s z : Int}
    (hs : evalR ρ start = some (.int s)) (hz : evalR ρ size = some (.int z)) (hs0 : 0 ≤ s) (hz0 : 0 ≤ z) :
    physStorage (G m n) w f start size = some (w.st.sub s.toNat z.toNat) := by
  have hrefs := need_refs hf hn
  rw [evalR_eq_eval _ _ hfstart] at hs
  rw [evalR_eq_eval _ _ hfsize] at hz
  have hle := fun refs hn' => env_le_of_facts m hm hwfm n w hP hwf ρ refs hr hh hp hl hn'
  have hs' := eval_le_on start (hle _
    (fun r hr' => hrefs r (by
      simp only [fieldRefs, hk, List.mem_append]; exact Or.inr (Or.inl (Or.inl hr'))))) _ hs
  have hz' := eval_le_on size (hle _
    (fun r hr' => hrefs r (by
      simp only [fieldRefs, hk, List.mem_append]; exact Or.inr (Or.inl (Or.inr hr'))))) _ hz
  have hhas := presence_complete m hm hwfm n w hP hwf hf hpres hn
  exact physStorage_of hhas (evalInt_of_eval hz') (evalInt_of_eval hs') hz0 hs0

/-- **Completeness for arrays**: R's `count` and `elem` facts are reported by the model. -/
theorem array_complete (m : Module) {P : StructDef → Prop} (hm : Closed m P) (hwfm : moduleWF m = true)
    (n : Nat) (w : SView) (hP : P w.sd) (hwf : viewWF w = true) {x : String} {f : Field}
    (hf : w.sd.field x = some f) (hn : need m (n + 1) w.sd [x] = true) :
    (∀ c, RFact m w (.count x c) → arrCount (G m n) w f = some c) ∧
    (∀ i v, RFact m w (.elem x i v) → arrElem (G m n) w f i = some v) := by
  have href := hm.ref _ hP
  have hloc := hm.loc _ hP
  constructor
  · intro c h
    cases h with
    | sub ρ hf' hk hfind hpres hr hh hp hl hs hz hs0 hz0 hargs hsub hout =>
      rename_i inner; cases inner <;> simp [Fact.under] at hout
    | nullsub hf' hk hfind hsub hout =>
      rename_i inner; cases inner <;> simp [Fact.under] at hout
    | count ρ hf' hk hpres hr hh hp hl hs hz hs0 hz0 hes hin =>
      rename_i f' start size el es bo s z
      rw [hf] at hf'; cases hf'
      cases el with
      | struct a b c =>
        have hff := ref_of_field href hf
        unfold refField at hff; rw [hk] at hff; simp at hff
      | array a b =>
        have hff := ref_of_field href hf
        unfold refField at hff; rw [hk] at hff; simp at hff
      | scalar k bits req =>
        obtain ⟨hcond, hkk, hfstart, hfsize, hfreq, hbits, hu, hes8⟩ := ref_array_inv href hf hk
        have hst := array_storage_complete m hm hwfm n w hP hwf hf hk hfstart hfsize hn
          hpres ρ hr hh hp hl hs hz hs0 hz0
        simp only [arrCount, hk, hst, Option.some.injEq]
        rw [if_neg (by omega)]
        rcases viewWF_unit hwf with ⟨_, d, hd⟩ | ⟨hu', _⟩
        · rw [hd] at hin ⊢
          cases d with
          | none => simp [extentIn] at hin
          | some d =>
            simp only [extentIn, decide_eq_true_eq] at hin
            simp only [Storage.sub, Storage.size, List.length_take, List.length_drop]
            congr 1
            omega
        · exact absurd hu hu'
  · intro i v h
    cases h with
    | sub ρ hf' hk hfind hpres hr hh hp hl hs hz hs0 hz0 hargs hsub hout =>
      rename_i inner; cases inner <;> simp [Fact.under] at hout
    | nullsub hf' hk hfind hsub hout =>
      rename_i inner; cases inner <;> simp [Fact.under] at hout
    | elem ρ hf' hk hpres hr hh hp hl hs hz hs0 hz0 hi hraw hv hreq =>
      rename_i f' start size k bits req es bo s z raw
      rw [hf] at hf'; cases hf'
      obtain ⟨hcond, hkk, hfstart, hfsize, hfreq, hbits, hu, hes8⟩ := ref_array_inv href hf hk
      have hespos : 0 < es := by omega
      have hst := array_storage_complete m hm hwfm n w hP hwf hf hk hfstart hfsize hn
        hpres ρ hr hh hp hl hs hz hs0 hz0
      have hlf := reqLocal_of_field hloc hf
      unfold reqLocalField at hlf
      rw [hk] at hlf
      have hok : valueIsOk (G m n) w req v = true :=
        valueIsOk_of_requiresOk hfreq hlf (fun k y hy => hp k y hy) hl hreq
      rw [specDecode_eq k bits _ hkk hbits] at hv
      rcases viewWF_unit hwf with ⟨_, d, hd⟩ | ⟨hu', _⟩
      · rw [hd] at hraw hst
        cases d with
        | none => simp [fieldRaw] at hraw
        | some d =>
          have hinside : s.toNat + es * i + es ≤ d.length := by
            simp only [fieldRaw] at hraw
            by_cases hc : es * 8 = bits ∧ s.toNat + es * i + es ≤ d.length
            · exact hc.2
            · rw [if_neg hc] at hraw; cases hraw
          simp only [Storage.sub] at hst
          have hcnt : i < (Storage.bytes (some ((d.drop s.toNat).take z.toNat))).size / es := by
            apply div_mul_lt hespos
            simp only [Storage.size, List.length_take, List.length_drop]
            omega
          have hone : (w.sd.unit = 8 ∧ (1 : Nat) ≠ 8) := ⟨hu, by decide⟩
          simp only [arrElem, hk, hst]
          rw [if_pos ⟨by omega, hcnt⟩]
          simp only [Storage.adaptFor, hone, and_self, ↓reduceIte]
          rw [adapt_sub_bytes _ bo (es * i) es bits hes8 hbits,
            fieldRaw_slice d bo s.toNat z.toNat (es * i) es bits hespos hi, hraw]
          exact leafRead_of (leafSizeOk_self k bits hbits) hv hok
      · exact absurd hu hu'

end Emboss.ViewRef
