/-
C11 helper lemmas, part 1: blank erasure commutes with the string primitives and the
global passes of the formatter; the passes keep rows renderable.
-/
import Emboss.Spec.Fmt
namespace Emboss.Fmt

theorem mem_takeWhile_imp {α} {p : α → Bool} {l : List α} {x : α} (h : x ∈ l.takeWhile p) : p x = true :=
  List.all_eq_true.mp (List.all_takeWhile (l := l) (p := p)) x h

/-! ### despace -/

@[simp] theorem despace_nil : despace [] = [] := rfl

@[simp] theorem despace_append (a b : Str) : despace (a ++ b) = despace a ++ despace b := by
  simp [despace]

@[simp] theorem despace_spaces (n : Nat) : despace (spaces n) = [] := by
  simp [despace, spaces, isPySpace]

@[simp] theorem despace_sp : despace sp = [] := by decide
@[simp] theorem despace_sp2 : despace sp2 = [] := by decide

@[simp] theorem despace_cons_space (s : Str) : despace (' ' :: s) = despace s := by
  simp [despace, isPySpace]

@[simp] theorem despace_cons_nl (s : Str) : despace ('\n' :: s) = despace s := by
  simp [despace, isPySpace]

@[simp] theorem despace_ljust (s : Str) (n : Int) : despace (ljust s n) = despace s := by
  simp [ljust]

theorem despace_eq_nil_of_all {s : Str} (h : ∀ c ∈ s, isPySpace c = true) : despace s = [] := by
  simp only [despace, List.filter_eq_nil_iff]
  intro c hc; simp [h c hc]

@[simp] theorem despace_rstrip (s : Str) : despace (rstrip s) = despace s := by
  have h := List.takeWhile_append_dropWhile (p := isPySpace) (l := s.reverse)
  have hs : s = (s.reverse.dropWhile isPySpace).reverse ++ (s.reverse.takeWhile isPySpace).reverse := by
    rw [← List.reverse_append, h, List.reverse_reverse]
  have ht : despace (s.reverse.takeWhile isPySpace).reverse = [] := by
    apply despace_eq_nil_of_all
    intro c hc
    rw [List.mem_reverse] at hc
    exact mem_takeWhile_imp hc
  conv => rhs; rw [hs]
  simp [rstrip, ht]

theorem despace_flatten (l : List Str) : despace l.flatten = (l.map despace).flatten := by
  induction l with
  | nil => rfl
  | cons a r ih => simp [ih]

theorem despace_joinWith (j : Str) (hj : despace j = []) (l : List Str) :
    despace (joinWith j l) = despace l.flatten := by
  induction l with
  | nil => rfl
  | cons a r ih =>
    cases r with
    | nil => simp [joinWith]
    | cons b r' => simp only [joinWith, despace_append, hj, ih, List.flatten_cons]; simp

theorem despace_filter_nonempty (l : List Str) :
    despace (l.filter (fun s => !s.isEmpty)).flatten = despace l.flatten := by
  induction l with
  | nil => rfl
  | cons a r ih =>
    cases a with
    | nil => simpa using ih
    | cons c cs =>
      have : List.filter (fun s : Str => !s.isEmpty) ((c :: cs) :: r) =
          (c :: cs) :: List.filter (fun s : Str => !s.isEmpty) r := rfl
      rw [this]
      simp only [List.flatten_cons, despace_append, ih]

@[simp] theorem despace_concatWith (j : Str) (hj : despace j = []) (l : List Str) :
    despace (concatWith j l) = despace l.flatten := by
  simp [concatWith, despace_joinWith j hj, despace_filter_nonempty]

@[simp] theorem despace_concatPrefixSpaces (l : List Str) :
    despace (concatPrefixSpaces l) = despace l.flatten := by
  unfold concatPrefixSpaces
  rw [← despace_filter_nonempty l]
  generalize l.filter (fun s => !s.isEmpty) = m
  induction m with
  | nil => rfl
  | cons a r ih => simp [ih]

/-! ### rows -/

@[simp] theorem rowsContent_nil : rowsContent [] = [] := rfl
@[simp] theorem rowsContent_cons (r : Row) (l : List Row) :
    rowsContent (r :: l) = r.content ++ rowsContent l := by simp [rowsContent]
@[simp] theorem rowsContent_append (a b : List Row) :
    rowsContent (a ++ b) = rowsContent a ++ rowsContent b := by simp [rowsContent]

theorem rowsContent_congr {a b : List Row} (h : a.map (·.columns) = b.map (·.columns)) :
    rowsContent a = rowsContent b := by
  have : ∀ l : List Row, rowsContent l = ((l.map (·.columns)).map (fun c => despace c.flatten)).flatten := by
    intro l; simp only [rowsContent, List.map_map]; rfl
  rw [this a, this b, h]

theorem PlainRows.congr {a b : List Row} (h : a.map (·.columns) = b.map (·.columns))
    (ha : PlainRows a) : PlainRows b := by
  intro r hr
  have : r.columns ∈ b.map (·.columns) := List.mem_map_of_mem hr
  rw [← h] at this
  obtain ⟨r', hr', he⟩ := List.mem_map.mp this
  rw [← he]; exact ha r' hr'

theorem PlainRows.nil : PlainRows [] := by intro r hr; cases hr
theorem PlainRows.cons {r : Row} {l : List Row} (hr : r.columns.length < 2) (hl : PlainRows l) :
    PlainRows (r :: l) := by
  intro x hx
  cases hx with
  | head => exact hr
  | tail _ h => exact hl x h
theorem PlainRows.append {a b : List Row} (ha : PlainRows a) (hb : PlainRows b) : PlainRows (a ++ b) := by
  intro x hx
  rcases List.mem_append.mp hx with h | h
  · exact ha x h
  · exact hb x h
theorem PlainRows.of_sublist {a b : List Row} (h : a.Sublist b) (hb : PlainRows b) : PlainRows a :=
  fun r hr => hb r (h.subset hr)
theorem PlainRows.tail {r : Row} {l : List Row} (h : PlainRows (r :: l)) : PlainRows l :=
  fun x hx => h x (List.mem_cons_of_mem _ hx)
theorem PlainRows.head {r : Row} {l : List Row} (h : PlainRows (r :: l)) : r.columns.length < 2 :=
  h r (List.mem_cons_self ..)

@[simp] theorem indentRows_columns (l : List Row) : (indentRows l).map (·.columns) = l.map (·.columns) := by
  simp [indentRows, indentRow, Function.comp_def]

@[simp] theorem rowsContent_indentRows (l : List Row) : rowsContent (indentRows l) = rowsContent l :=
  rowsContent_congr (indentRows_columns l)

theorem PlainRows.indent {l : List Row} (h : PlainRows l) : PlainRows (indentRows l) :=
  PlainRows.congr (indentRows_columns l).symm h

/-! ### `_strip_empty_leading_trailing_comment_lines` -/

theorem rowsContent_dropWhile_empty (l : List Row) :
    rowsContent (l.dropWhile (fun r => r.columns.isEmpty)) = rowsContent l := by
  induction l with
  | nil => rfl
  | cons r rest ih =>
    by_cases h : r.columns.isEmpty = true
    · have : r.columns = [] := by simpa using h
      simp [List.dropWhile, h, ih, Row.content, this]
    · simp [List.dropWhile, h]

theorem rowsContent_eq_nil_of_empty {m : List Row} (h : ∀ r ∈ m, r.columns = []) : rowsContent m = [] := by
  induction m with
  | nil => rfl
  | cons r rest ih =>
    have h1 : r.columns = [] := h r (List.mem_cons_self ..)
    have h2 := ih (fun x hx => h x (List.mem_cons_of_mem _ hx))
    simp [Row.content, h1, h2]

theorem rowsContent_reverse_dropWhile_empty (l : List Row) :
    rowsContent ((l.reverse.dropWhile (fun r => r.columns.isEmpty)).reverse) = rowsContent l := by
  have h := List.takeWhile_append_dropWhile (p := fun r : Row => r.columns.isEmpty) (l := l.reverse)
  have hs : l = (l.reverse.dropWhile (fun r => r.columns.isEmpty)).reverse ++
      (l.reverse.takeWhile (fun r => r.columns.isEmpty)).reverse := by
    rw [← List.reverse_append, h, List.reverse_reverse]
  have ht : rowsContent (l.reverse.takeWhile (fun r => r.columns.isEmpty)).reverse = [] := by
    apply rowsContent_eq_nil_of_empty
    intro r hr
    rw [List.mem_reverse] at hr
    simpa using mem_takeWhile_imp hr
  conv => rhs; rw [hs]
  simp [ht]

@[simp] theorem rowsContent_stripEmptyRows (l : List Row) : rowsContent (stripEmptyRows l) = rowsContent l := by
  unfold stripEmptyRows
  rw [rowsContent_reverse_dropWhile_empty, rowsContent_dropWhile_empty]

theorem PlainRows.stripEmpty {l : List Row} (h : PlainRows l) : PlainRows (stripEmptyRows l) := by
  unfold stripEmptyRows
  intro r hr
  rw [List.mem_reverse] at hr
  have h1 := (List.dropWhile_sublist (fun r : Row => r.columns.isEmpty)).subset hr
  rw [List.mem_reverse] at h1
  exact h r ((List.dropWhile_sublist _).subset h1)

end Emboss.Fmt
