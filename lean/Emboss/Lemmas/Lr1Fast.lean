/-
The compiled validator `validFast` (hash-set membership) implies `Valid` (list membership):
the item-membership test occurs only positively in every conjunct.
-/
import Emboss.Lemmas.Lr1Basic
namespace Emboss.Lr1

variable {G : Grammar} {A : Automaton} {C : Cert} {m₁ m₂ : Mem}

theorem TransOK.mono (h : ∀ s it, m₁ s it → m₂ s it) {s it x} (ht : TransOK m₁ A C s it x) :
    TransOK m₂ A C s it x := by
  refine ⟨fun hx => ?_, fun hx => ?_⟩
  · obtain ⟨s', hs', hm⟩ := ht.1 hx; exact ⟨s', hs', h _ _ hm⟩
  · obtain ⟨a, ha, s', hs', hm⟩ := ht.2 hx; exact ⟨a, ha, s', hs', h _ _ hm⟩

theorem TargetOK.mono (h : ∀ s it, m₁ s it → m₂ s it) {s x s'} (ht : TargetOK m₁ A C s x s') :
    TargetOK m₂ A C s x s' := by
  refine ⟨ht.1, ht.2.1, fun it hit => ⟨(ht.2.2 it hit).1, fun h0 => ?_⟩⟩
  obtain ⟨hp, hm⟩ := (ht.2.2 it hit).2 h0
  exact ⟨hp, h _ _ hm⟩

theorem ActOK.mono (h : ∀ s it, m₁ s it → m₂ s it) {s a} : ∀ {x : Action}, ActOK m₁ G C s a x → ActOK m₂ G C s a x
  | .shift _, hx => hx
  | .reduce _, ⟨h1, p, hp, hm⟩ => ⟨h1, p, hp, h _ _ hm⟩
  | .accept, ⟨h1, hm⟩ => ⟨h1, h _ _ hm⟩
  | .error _, _ => trivial

theorem ValidM.mono (h : ∀ s it, m₁ s it → m₂ s it) (hv : ValidM m₁ G A C) : ValidM m₂ G A C := by
  obtain ⟨hwf, hstart, htrans, hclos, hcomp, hker, hord, hact, hfirst⟩ := hv
  refine ⟨hwf, ⟨h _ _ hstart.1, hstart.2⟩, ?_, ?_, hcomp, ⟨?_, ?_⟩, hord, ?_, hfirst⟩
  · intro s hs it hit x hx; exact (htrans s hs it hit x hx).mono h
  · intro s hs it hit p hp x hx j hj c hc; exact h _ _ (hclos s hs it hit p hp x hx j hj c hc)
  · intro s hs r hr e he s' hs'; exact (hker.1 s hs r hr e he s' hs').mono h
  · intro s hs e he; exact (hker.2 s hs e he).mono h
  · intro s hs r hr e he; exact ⟨(hact s hs r hr e he).1, (hact s hs r hr e he).2.mono h⟩

theorem fastMem_sound (C : Cert) (s : Nat) (it : Item) (h : fastMem C.sets s it) : listMem C s it := by
  obtain ⟨hs, hmem, hc⟩ := h
  simp only [Cert.sets, Array.getElem?_map, Option.mem_def, Option.map_eq_some_iff] at hmem
  obtain ⟨l, hl, rfl⟩ := hmem
  rw [Std.HashSet.contains_ofList] at hc
  simp only [listMem, Cert.itemsOf, hl, Option.getD_some]
  simpa using hc

/-- The compiled checker is sound for `Valid`. -/
theorem validFast_sound (h : validFast G A C = true) : Valid G A C :=
  ValidM.mono (fastMem_sound C) (of_decide_eq_true h)

end Emboss.Lr1
