/-
C11 helper lemmas (round 3): the fold does not see blank lines at the ends of the
comment-line chains under `eol` nodes and at the head of the module (`EquivB`).
-/
import Emboss.Spec.FmtEquivB
import Emboss.Lemmas.FmtIdem
namespace Emboss.Fmt

/-! ### `_strip_empty_leading_trailing_comment_lines` forgets empty rows at both ends -/

def AllEmpty (l : List Row) : Prop := ∀ r ∈ l, r.columns.isEmpty = true

theorem AllEmpty.nil : AllEmpty [] := by intro r hr; cases hr

theorem AllEmpty.cons {r : Row} {l : List Row} (hr : r.columns.isEmpty = true) (hl : AllEmpty l) :
    AllEmpty (r :: l) := by
  intro x hx
  rcases List.mem_cons.mp hx with rfl | hx
  · exact hr
  · exact hl x hx

theorem dropWhile_append_all {α : Type} (p : α → Bool) (a l : List α) (h : ∀ x ∈ a, p x = true) :
    (a ++ l).dropWhile p = l.dropWhile p := by
  induction a with
  | nil => rfl
  | cons x a ih =>
    simp only [List.cons_append, List.dropWhile_cons, h x (by simp), if_true]
    exact ih (fun y hy => h y (by simp [hy]))

theorem dropWhile_all {α : Type} (p : α → Bool) (a : List α) (h : ∀ x ∈ a, p x = true) :
    a.dropWhile p = [] := by
  have := dropWhile_append_all p a [] h
  simpa using this

theorem dropEnd_append_all {α : Type} (p : α → Bool) (l b : List α) (h : ∀ x ∈ b, p x = true) :
    dropEnd p (l ++ b) = dropEnd p l := by
  simp only [dropEnd, List.reverse_append]
  rw [dropWhile_append_all p b.reverse l.reverse (fun x hx => h x (by simpa using hx))]

theorem stripEmptyRows_eq (l : List Row) : stripEmptyRows l =
    dropEnd (fun r => r.columns.isEmpty) (l.dropWhile (fun r => r.columns.isEmpty)) := rfl

theorem stripEmptyRows_append_empty (l b : List Row) (hb : AllEmpty b) :
    stripEmptyRows (l ++ b) = stripEmptyRows l := by
  induction l with
  | nil =>
    simp only [List.nil_append, stripEmptyRows_eq, dropWhile_all _ b hb]
    rfl
  | cons x l ih =>
    cases hx : x.columns.isEmpty with
    | true =>
      simp only [stripEmptyRows_eq, List.cons_append, List.dropWhile_cons, hx, if_true] at ih ⊢
      exact ih
    | false =>
      simp only [stripEmptyRows_eq, List.cons_append, List.dropWhile_cons, hx, Bool.false_eq_true,
        if_false]
      exact dropEnd_append_all _ (x :: l) b hb

theorem stripEmptyRows_pad (a l b : List Row) (ha : AllEmpty a) (hb : AllEmpty b) :
    stripEmptyRows (a ++ l ++ b) = stripEmptyRows l := by
  rw [stripEmptyRows_append_empty _ b hb]
  simp only [stripEmptyRows_eq, dropWhile_append_all _ a l ha]

/-! ### Folding comment-line chains -/

/-- The rows a value stands for (`[]` for the `[]` of `_empty_list`). -/
def rowsOf : Option Fmt → Option (List Row)
  | some v => asRows v
  | none => none

theorem handlerAt_fold {tbl : Table} {p : Nat} {h : Handler} (hh : handlerAt tbl p = some h)
    (iw : Nat) (cs : List Tree) :
    fold tbl iw (.node p cs) = (foldList tbl iw cs).bind (h.run iw) := by
  simp only [handlerAt] at hh
  cases he : tbl[p]? with
  | none => simp [he] at hh
  | some e =>
    simp only [he, Option.bind_some] at hh
    simp only [fold, he, hh]
    cases foldList tbl iw cs <;> rfl

theorem foldList_two (tbl : Table) (iw : Nat) (a b : Tree) :
    foldList tbl iw [a, b] =
      (fold tbl iw a).bind (fun x => (fold tbl iw b).bind (fun y => some [x, y])) := by
  simp only [foldList]
  cases fold tbl iw a <;> cases fold tbl iw b <;> rfl

def blankRow : Row := { name := .comment }

theorem fold_blankLine {tbl : Table} (iw : Nat) {e : Tree} (h : isBlankLineTree tbl e = true) :
    fold tbl iw e = some (.rows [blankRow]) := by
  match e, h with
  | .node p [.node q [], .tok s x], h =>
    simp only [isBlankLineTree, Bool.and_eq_true, beq_iff_eq] at h
    rw [handlerAt_fold h.1, foldList_two, handlerAt_fold h.2]
    simp only [foldList, fold, Option.bind_some, Handler.run, hEmptyString, hCommentLine, asStr,
      Option.pure_def, Option.bind_eq_bind, List.isEmpty_nil, if_true]
    rfl

/-- A comment line folds to one row, or the fold is undefined. -/
theorem fold_commentLine {tbl : Table} (iw : Nat) {l : Tree} (h : isCommentLineTree tbl l = true) :
    fold tbl iw l = none ∨ ∃ r, fold tbl iw l = some (.rows [r]) := by
  match l, h with
  | .node p [a, b], h =>
    simp only [isCommentLineTree, beq_iff_eq] at h
    rw [handlerAt_fold h, foldList_two]
    cases fold tbl iw a with
    | none => left; rfl
    | some x =>
      cases fold tbl iw b with
      | none => left; rfl
      | some y =>
        simp only [Option.bind_some, Handler.run, hCommentLine]
        cases hx : asStr x with
        | none => left; simp
        | some s =>
          right
          simp only [Option.pure_def, Option.bind_eq_bind, Option.bind_some]
          split
          · exact ⟨_, rfl⟩
          · exact ⟨_, rfl⟩

/-- `_concatenate_lists` with one row in front of a list of rows. -/
theorem pyAdd_row {r : Row} {v : Fmt} {R : List Row} (h : asRows v = some R) :
    ∃ w, pyAdd (.rows [r]) v = some w ∧ asRows w = some (r :: R) := by
  cases v <;> first
    | (simp only [asRows, Option.some.injEq] at h; subst h; exact ⟨_, rfl, rfl⟩)
    | (simp [asRows] at h)

theorem pyAdd_row_none {r : Row} {v : Fmt} (h : asRows v = none) : pyAdd (.rows [r]) v = none := by
  cases v <;> simp only [asRows] at h <;> first | rfl | cases h

/-- Folding `x* -> x x*` (`_concatenate_lists`) whose head folds to one row. -/
theorem fold_cons_row {tbl : Table} (iw : Nat) {p : Nat} {l c : Tree} {r : Row}
    (hp : handlerAt tbl p = some .concatenateLists) (hl : fold tbl iw l = some (.rows [r])) :
    rowsOf (fold tbl iw (.node p [l, c])) = (rowsOf (fold tbl iw c)).map (r :: ·) := by
  rw [handlerAt_fold hp, foldList_two, hl]
  simp only [Option.bind_some]
  cases hc : fold tbl iw c with
  | none => rfl
  | some v =>
    simp only [Option.bind_some, Handler.run, hAdd, rowsOf]
    cases hv : asRows v with
    | none => rw [pyAdd_row_none hv]; rfl
    | some R =>
      obtain ⟨w, hw, hw2⟩ := pyAdd_row (r := r) hv
      rw [hw]; exact hw2

theorem fold_cons_none {tbl : Table} (iw : Nat) {p : Nat} {l c : Tree}
    (hp : handlerAt tbl p = some .concatenateLists) (hl : fold tbl iw l = none) :
    fold tbl iw (.node p [l, c]) = none := by
  rw [handlerAt_fold hp, foldList_two, hl]; rfl

theorem allBlank_fold {tbl : Table} (iw : Nat) {c : Tree} (h : AllBlank tbl c) :
    ∃ b, rowsOf (fold tbl iw c) = some b ∧ AllEmpty b := by
  induction h with
  | nil hp =>
    refine ⟨[], ?_, AllEmpty.nil⟩
    rw [handlerAt_fold hp]; rfl
  | cons hp he _ ih =>
    obtain ⟨b, hb, hbe⟩ := ih
    refine ⟨blankRow :: b, ?_, AllEmpty.cons rfl hbe⟩
    rw [fold_cons_row iw hp (fold_blankLine iw he), hb]; rfl

/-- Blank lines appended at the end of a chain: the rows gain empty rows at the end (or
the fold is undefined on both chains). -/
theorem trailExt_fold {tbl : Table} (iw : Nat) {c c' : Tree} (h : TrailExt tbl c c') :
    (rowsOf (fold tbl iw c) = none ∧ rowsOf (fold tbl iw c') = none) ∨
    ∃ R b, rowsOf (fold tbl iw c) = some R ∧ rowsOf (fold tbl iw c') = some (R ++ b) ∧ AllEmpty b := by
  induction h with
  | atNil hp hb =>
    obtain ⟨b, hb1, hb2⟩ := allBlank_fold iw hb
    right
    refine ⟨[], b, ?_, by simpa using hb1, hb2⟩
    rw [handlerAt_fold hp]; rfl
  | cons hp hl _ ih =>
    rcases fold_commentLine iw hl with hn | ⟨r, hr⟩
    · left; rw [fold_cons_none iw hp hn, fold_cons_none iw hp hn]; exact ⟨rfl, rfl⟩
    · rw [fold_cons_row iw hp hr, fold_cons_row iw hp hr]
      rcases ih with ⟨h1, h2⟩ | ⟨R, b, h1, h2, h3⟩
      · left; rw [h1, h2]; exact ⟨rfl, rfl⟩
      · right; exact ⟨r :: R, b, by rw [h1]; rfl, by rw [h2]; rfl, h3⟩

theorem blankExt_fold {tbl : Table} (iw : Nat) {c c' : Tree} (h : BlankExt tbl c c') :
    (rowsOf (fold tbl iw c) = none ∧ rowsOf (fold tbl iw c') = none) ∨
    ∃ a R b, rowsOf (fold tbl iw c) = some R ∧ rowsOf (fold tbl iw c') = some (a ++ R ++ b) ∧
      AllEmpty a ∧ AllEmpty b := by
  induction h with
  | trail ht =>
    rcases trailExt_fold iw ht with h | ⟨R, b, h1, h2, h3⟩
    · left; exact h
    · right; exact ⟨[], R, b, h1, by simpa using h2, AllEmpty.nil, h3⟩
  | lead hp he _ ih =>
    rw [fold_cons_row iw hp (fold_blankLine iw he)]
    rcases ih with ⟨h1, h2⟩ | ⟨a, R, b, h1, h2, h3, h4⟩
    · left; rw [h2]; exact ⟨h1, rfl⟩
    · right
      exact ⟨blankRow :: a, R, b, h1, (by rw [h2]; rfl), AllEmpty.cons rfl h3, h4⟩

/-- Chains that differ in the blank lines at their ends have the same stripped rows. -/
theorem blankEq_fold {tbl : Table} (iw : Nat) {c c' : Tree} (h : BlankEq tbl c c') :
    (rowsOf (fold tbl iw c)).map stripEmptyRows = (rowsOf (fold tbl iw c')).map stripEmptyRows := by
  obtain ⟨c0, h1, h2⟩ := h
  rcases blankExt_fold iw h1 with ⟨n0, n1⟩ | ⟨a, R, b, r0, r1, ha, hb⟩
  · rcases blankExt_fold iw h2 with ⟨_, n2⟩ | ⟨_, R', _, r0', _⟩
    · rw [n1, n2]
    · rw [n0] at r0'; cases r0'
  · rcases blankExt_fold iw h2 with ⟨n0, _⟩ | ⟨a', R', b', r0', r2, ha', hb'⟩
    · rw [n0] at r0; cases r0
    · rw [r0] at r0'; cases r0'
      rw [r1, r2]
      simp only [Option.map_some, stripEmptyRows_pad _ _ _ ha hb, stripEmptyRows_pad _ _ _ ha' hb']

/-! ### The fold of `EquivB` trees -/

theorem foldList_congr_idx (tbl : Table) (iw : Nat) : ∀ (cs cs' : List Tree),
    cs.length = cs'.length →
    (∀ (i : Nat) (h : i < cs.length) (h' : i < cs'.length),
      fold tbl iw cs'[i] = fold tbl iw cs[i]) →
    foldList tbl iw cs' = foldList tbl iw cs
  | [], [], _, _ => rfl
  | [], _ :: _, hl, _ => by simp at hl
  | _ :: _, [], hl, _ => by simp at hl
  | t :: ts, t' :: ts', hl, h => by
    have h0 := h 0 (by simp) (by simp)
    simp only [List.getElem_cons_zero] at h0
    have hr := foldList_congr_idx tbl iw ts ts' (by simpa using hl) (fun i hi hi' => by
      have := h (i + 1) (by simpa using hi) (by simpa using hi')
      simpa using this)
    simp only [foldList, h0, hr]

theorem fold_node_congr (tbl : Table) (iw : Nat) (p : Nat) (cs cs' : List Tree)
    (h : foldList tbl iw cs' = foldList tbl iw cs) :
    fold tbl iw (.node p cs') = fold tbl iw (.node p cs) := by
  simp only [fold, h]

theorem hEol_rows (x v v' : Fmt) (h : (asRows v).map stripEmptyRows = (asRows v').map stripEmptyRows) :
    hEol [x, v] = hEol [x, v'] := by
  simp only [hEol, Option.pure_def, Option.bind_eq_bind]
  cases h1 : asRows v <;> cases h2 : asRows v' <;> simp only [h1, h2, Option.map_some, Option.map_none,
    Option.some.injEq, reduceCtorEq] at h <;> simp [h]

theorem hModule_rows (iw : Nat) (v v' : Fmt) (rest : List Fmt)
    (h : (asRows v).map stripEmptyRows = (asRows v').map stripEmptyRows) :
    hModule iw (v :: rest) = hModule iw (v' :: rest) := by
  match rest with
  | [d, i, a, t] =>
    simp only [hModule, Option.pure_def, Option.bind_eq_bind]
    cases h1 : asRows v <;> cases h2 : asRows v' <;> simp only [h1, h2, Option.map_some, Option.map_none,
      Option.some.injEq, reduceCtorEq] at h <;> simp [h]
  | [] => rfl
  | [_] => rfl
  | [_, _] => rfl
  | [_, _, _] => rfl
  | _ :: _ :: _ :: _ :: _ :: _ => rfl

/-- **The fold does not see blank lines at the ends of comment blocks.** -/
theorem fold_equivB (tbl : Table) (iw : Nat) {t t' : Tree} (h : EquivB tbl t t') :
    fold tbl iw t' = fold tbl iw t := by
  induction h with
  | refl t => rfl
  | node p cs cs' hl _ ih =>
    exact fold_node_congr tbl iw p cs cs' (foldList_congr_idx tbl iw cs cs' hl ih)
  | eol p nl c c' hp hb =>
    rw [handlerAt_fold hp, handlerAt_fold hp, foldList_two, foldList_two]
    cases fold tbl iw nl with
    | none => rfl
    | some x =>
      have := blankEq_fold iw hb
      simp only [Option.bind_some]
      cases hc : fold tbl iw c <;> cases hc' : fold tbl iw c' <;>
        simp only [hc, hc', rowsOf, Option.map_none, Option.bind_none, Option.bind_some] at this ⊢
      · simp only [Handler.run, hEol, Option.pure_def, Option.bind_eq_bind]
        cases h2 : asRows _ <;> simp [h2] at this ⊢
      · simp only [Handler.run, hEol, Option.pure_def, Option.bind_eq_bind]
        cases h2 : asRows _ <;> simp [h2] at this ⊢
      · exact (hEol_rows x _ _ this).symm
  | module p c c' rest rest' hp hb hl _ ih =>
    have hr := foldList_congr_idx tbl iw rest rest' hl ih
    rw [handlerAt_fold hp, handlerAt_fold hp]
    simp only [foldList, hr]
    have := blankEq_fold iw hb
    cases hc : fold tbl iw c <;> cases hc' : fold tbl iw c' <;>
      simp only [hc, hc', rowsOf, Option.map_none] at this ⊢
    · cases hrest : foldList tbl iw rest with
      | none => rfl
      | some vs =>
        simp only [Option.bind_some, Handler.run]
        rename_i v'
        cases h2 : asRows v' with
        | some _ => simp [h2] at this
        | none =>
          match vs with
          | [d, i, a, t] => simp [hModule, h2]
          | [] => rfl
          | [_] => rfl
          | [_, _] => rfl
          | [_, _, _] => rfl
          | _ :: _ :: _ :: _ :: _ :: _ => rfl
    · cases hrest : foldList tbl iw rest with
      | none => rfl
      | some vs =>
        simp only [Option.bind_some, Handler.run]
        rename_i v
        cases h2 : asRows v with
        | some _ => simp [h2] at this
        | none =>
          match vs with
          | [d, i, a, t] => simp [hModule, h2]
          | [] => rfl
          | [_] => rfl
          | [_, _] => rfl
          | [_, _, _] => rfl
          | _ :: _ :: _ :: _ :: _ :: _ => rfl
    · cases hrest : foldList tbl iw rest with
      | none => rfl
      | some vs =>
        simp only [Option.bind_some, Handler.run]
        exact (hModule_rows iw _ _ vs this).symm

end Emboss.Fmt
