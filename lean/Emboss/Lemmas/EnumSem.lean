/-
Helper lemmas for C19: meaning of the generated `strcmp` chain and `switch`es in terms of
the declared values.
-/
import Emboss.Lemmas.EnumLoop
namespace Emboss.Enum
open Emboss.CppInt

theorem lookup_of_mem_nodup (es : List (Name × Int)) (x : Name) (v : Int)
    (hn : (es.map (·.1)).Nodup) (hm : (x, v) ∈ es) : lookup es x = some v := by
  induction es with
  | nil => cases hm
  | cons e es ih =>
    simp only [List.map_cons, List.nodup_cons] at hn
    simp only [lookup, List.find?_cons]
    rcases List.mem_cons.mp hm with h | h
    · subst h; simp
    · have hne : e.1 ≠ x := by
        intro he
        apply hn.1
        rw [he]
        exact List.mem_map.mpr ⟨(x, v), h, rfl⟩
      have : (e.1 == x) = false := by simpa using hne
      simp only [this]
      exact ih hn.2 h

/-- every spelling of every value resolves to that value's number -/
def Resolves (es : List (Name × Int)) (nm : Value → List Name) (vs : List Value) : Prop :=
  ∀ v ∈ vs, ∀ y ∈ nm v, lookup es y = some v.value

theorem resolves_of_nodup (nm : Value → List Name) (vs : List Value)
    (hn : ((enumsOf nm vs).map (·.1)).Nodup) : Resolves (enumsOf nm vs) nm vs := by
  intro v hv y hy
  apply lookup_of_mem_nodup _ _ _ hn
  exact List.mem_flatMap.mpr ⟨v, hv, List.mem_map.mpr ⟨y, hy, rfl⟩⟩

theorem fromOf_find (es : List (Name × Int)) (nm : Value → List Name) (vs : List Value)
    (hne : ∀ v ∈ vs, nm v ≠ []) (hr : Resolves es nm vs) (n : Name) :
    ((fromOf nm vs).find? (fun p => p.1 == n)).bind (fun p => lookup es p.2) =
      (vs.find? (fun v => v.name == n)).map (·.value) := by
  induction vs with
  | nil => simp [fromOf]
  | cons v vs ih =>
    have hvs : ∀ w ∈ vs, nm w ≠ [] := fun w hw => hne w (List.mem_cons_of_mem _ hw)
    have hrs : Resolves es nm vs := fun w hw => hr w (List.mem_cons_of_mem _ hw)
    have ih' := ih hvs hrs
    simp only [fromOf, List.flatMap_cons, List.find?_append, List.find?_cons] at ih' ⊢
    by_cases hv : v.name = n
    · obtain ⟨x, xs, hx⟩ : ∃ x xs, nm v = x :: xs := by
        cases hnm : nm v with
        | nil => exact absurd hnm (hne v (List.mem_cons_self ..))
        | cons x xs => exact ⟨x, xs, rfl⟩
      have hl := hr v (List.mem_cons_self ..) x (by rw [hx]; exact List.mem_cons_self ..)
      simp [hx, hv, hl]
    · have h1 : ((nm v).map (fun x => (v.name, x))).find? (fun p => p.1 == n) = none := by
        apply List.find?_eq_none.mpr
        intro p hp
        obtain ⟨y, _, rfl⟩ := List.mem_map.mp hp
        simpa using hv
      have h2 : (v.name == n) = false := by simpa using hv
      simp only [h1, h2, Option.none_or]
      exact ih'

theorem toOf_find (es : List (Name × Int)) (nm : Value → List Name) (vs : List Value)
    (hne : ∀ v ∈ vs, nm v ≠ []) (hr : Resolves es nm vs) (x : Int) (seen : List Int) :
    ((toOf nm seen vs).find? (fun p => lookup es p.1 == some x)).map (·.2) =
      if x ∈ seen then none else (vs.find? (fun v => v.value == x)).map (·.name) := by
  induction vs generalizing seen with
  | nil => simp [toOf]
  | cons v vs ih =>
    have hvs : ∀ w ∈ vs, nm w ≠ [] := fun w hw => hne w (List.mem_cons_of_mem _ hw)
    have hrs : Resolves es nm vs := fun w hw => hr w (List.mem_cons_of_mem _ hw)
    by_cases hs : v.value ∈ seen
    · simp only [toOf, hs, if_true, ih hvs hrs]
      by_cases hx : x ∈ seen
      · simp [hx]
      · have : (v.value == x) = false := by
          simp only [beq_eq_false_iff_ne, ne_eq]
          intro h; rw [h] at hs; exact hx hs
        simp [hx, List.find?_cons, this]
    · obtain ⟨y, ys, hy⟩ : ∃ y ys, nm v = y :: ys := by
        cases hnm : nm v with
        | nil => exact absurd hnm (hne v (List.mem_cons_self ..))
        | cons y ys => exact ⟨y, ys, rfl⟩
      have hl := hr v (List.mem_cons_self ..) y (by rw [hy]; exact List.mem_cons_self ..)
      simp only [toOf, hs, if_false, hy, List.find?_cons, hl]
      by_cases hvx : v.value = x
      · subst hvx
        simp [hs]
      · have h1 : (some v.value == some x) = false := by simpa using hvx
        have h2 : (v.value == x) = false := by simpa using hvx
        simp only [h1, h2, ih hvs hrs]
        have : x ∈ seen ++ [v.value] ↔ x ∈ seen := by
          simp only [List.mem_append, List.mem_singleton]
          constructor
          · rintro (h | h)
            · exact h
            · exact absurd h.symm hvx
          · exact Or.inl
        simp only [this]

/-- the numbers attached to the `case` labels: each declared number once, in order of first
appearance, none of them in `seen` -/
theorem toOf_labels (es : List (Name × Int)) (nm : Value → List Name) (vs : List Value)
    (hne : ∀ v ∈ vs, nm v ≠ []) (hr : Resolves es nm vs) (seen : List Int) :
    ∃ ws : List Int, (toOf nm seen vs).map (fun p => lookup es p.1) = ws.map some ∧ ws.Nodup ∧
      (∀ w ∈ ws, w ∉ seen) ∧ (∀ w, w ∈ ws ↔ (w ∉ seen ∧ ∃ v ∈ vs, v.value = w)) := by
  induction vs generalizing seen with
  | nil => exact ⟨[], by simp [toOf]⟩
  | cons v vs ih =>
    have hvs : ∀ w ∈ vs, nm w ≠ [] := fun w hw => hne w (List.mem_cons_of_mem _ hw)
    have hrs : Resolves es nm vs := fun w hw => hr w (List.mem_cons_of_mem _ hw)
    by_cases hs : v.value ∈ seen
    · obtain ⟨ws, h1, h2, h3, h4⟩ := ih hvs hrs seen
      refine ⟨ws, by simp [toOf, hs, h1], h2, h3, ?_⟩
      intro w
      rw [h4 w]
      constructor
      · rintro ⟨a, u, hu, rfl⟩; exact ⟨a, u, List.mem_cons_of_mem _ hu, rfl⟩
      · rintro ⟨a, u, hu, rfl⟩
        rcases List.mem_cons.mp hu with h | h
        · subst h; exact absurd hs a
        · exact ⟨a, u, h, rfl⟩
    · obtain ⟨y, ys, hy⟩ : ∃ y ys, nm v = y :: ys := by
        cases hnm : nm v with
        | nil => exact absurd hnm (hne v (List.mem_cons_self ..))
        | cons y ys => exact ⟨y, ys, rfl⟩
      have hl := hr v (List.mem_cons_self ..) y (by rw [hy]; exact List.mem_cons_self ..)
      obtain ⟨ws, h1, h2, h3, h4⟩ := ih hvs hrs (seen ++ [v.value])
      refine ⟨v.value :: ws, by simp [toOf, hs, hy, hl, h1], ?_, ?_, ?_⟩
      · refine List.nodup_cons.mpr ⟨?_, h2⟩
        intro hm
        exact h3 _ hm (by simp)
      · intro w hw
        rcases List.mem_cons.mp hw with h | h
        · subst h; exact hs
        · intro hws; exact h3 w h (List.mem_append_left _ hws)
      · intro w
        simp only [List.mem_cons]
        constructor
        · rintro (h | h)
          · subst h; exact ⟨hs, v, Or.inl rfl, rfl⟩
          · obtain ⟨a, u, hu, rfl⟩ := (h4 w).mp h
            exact ⟨fun hws => a (List.mem_append_left _ hws), u, Or.inr hu, rfl⟩
        · rintro ⟨a, u, hu, rfl⟩
          rcases hu with h | h
          · subst h; exact Or.inl rfl
          · by_cases hvu : u.value = v.value
            · exact Or.inl hvu
            · refine Or.inr ((h4 _).mpr ⟨?_, u, h, rfl⟩)
              simp only [List.mem_append, List.mem_singleton, not_or]
              exact ⟨a, hvu⟩

end Emboss.Enum
