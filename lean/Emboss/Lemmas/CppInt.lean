/-
Lemmas about the rendered integer literals and fixed-width conversions.
-/
import Emboss.Model.CppInt
namespace Emboss.CppInt

theorem pow2_7 : pow2 7 = 128 := by decide
theorem pow2_8 : pow2 8 = 256 := by decide
theorem pow2_15 : pow2 15 = 32768 := by decide
theorem pow2_16 : pow2 16 = 65536 := by decide
theorem pow2_31 : pow2 31 = 2147483648 := by decide
theorem pow2_32 : pow2 32 = 4294967296 := by decide
theorem pow2_63 : pow2 63 = 9223372036854775808 := by decide
theorem pow2_64 : pow2 64 = 18446744073709551616 := by decide

theorem pow2_pos (n : Nat) : 0 < pow2 n := by
  unfold pow2
  exact Int.pow_pos (by decide)

theorem pow2_succ (n : Nat) : pow2 (n + 1) = 2 * pow2 n := by
  unfold pow2
  rw [Int.pow_succ]; omega

theorem pow2_mono {a b : Nat} (h : a ≤ b) : pow2 a ≤ pow2 b := by
  induction h with
  | refl => exact Int.le_refl _
  | step _ ih => rw [pow2_succ]; have := pow2_pos a; omega

/-- A value the type holds is unchanged by conversion to it. -/
theorem wrap_of_holds (t : IntTy) (v : Int) (hb : 0 < t.bits) (h : t.holds v = true) : wrap t v = v := by
  unfold IntTy.holds IntTy.minVal IntTy.maxVal at h
  unfold wrap
  have hp := pow2_pos t.bits
  have hs : pow2 t.bits = 2 * pow2 (t.bits - 1) := by
    have : t.bits = (t.bits - 1) + 1 := by omega
    rw [this, pow2_succ]; simp
  cases hsg : t.signed with
  | false =>
    simp only [hsg, Bool.false_eq_true, if_false, Bool.and_eq_true, decide_eq_true_eq] at h
    simp only [Bool.false_and, Bool.false_eq_true, if_false]
    exact Int.emod_eq_of_lt h.1 (by omega)
  | true =>
    simp only [hsg, if_true, Bool.and_eq_true, decide_eq_true_eq] at h
    simp only [Bool.true_and, decide_eq_true_eq]
    by_cases hv : 0 ≤ v
    · have : v % pow2 t.bits = v := Int.emod_eq_of_lt hv (by omega)
      rw [this]
      have : ¬ (v ≥ pow2 (t.bits - 1)) := by omega
      simp [this]
    · have h1 : (v + pow2 t.bits) % pow2 t.bits = v + pow2 t.bits :=
        Int.emod_eq_of_lt (by omega) (by omega)
      have h2 : v % pow2 t.bits = v + pow2 t.bits := by
        rw [← h1, Int.add_emod_right]
      rw [h2]
      have : v + pow2 t.bits ≥ pow2 (t.bits - 1) := by omega
      simp only [this, if_true]
      omega

theorem holds_i32 (v : Int) (h : -2147483648 ≤ v ∧ v ≤ 2147483647) : i32.holds v = true := by
  have e : pow2 (32 - 1) = 2147483648 := by decide
  simp only [IntTy.holds, IntTy.minVal, IntTy.maxVal, i32, if_true, e, Bool.and_eq_true, decide_eq_true_eq]
  omega

theorem holds_u32 (v : Int) (h : 0 ≤ v ∧ v ≤ 4294967295) : u32.holds v = true := by
  simp only [IntTy.holds, IntTy.minVal, IntTy.maxVal, u32, Bool.false_eq_true, if_false, pow2_32,
    Bool.and_eq_true, decide_eq_true_eq]
  omega

theorem holds_i64 (v : Int) (h : -9223372036854775808 ≤ v ∧ v ≤ 9223372036854775807) : i64.holds v = true := by
  have e : pow2 (64 - 1) = 9223372036854775808 := by decide
  simp only [IntTy.holds, IntTy.minVal, IntTy.maxVal, i64, if_true, e, Bool.and_eq_true, decide_eq_true_eq]
  omega

theorem holds_u64 (v : Int) (h : 0 ≤ v ∧ v ≤ 18446744073709551615) : u64.holds v = true := by
  simp only [IntTy.holds, IntTy.minVal, IntTy.maxVal, u64, Bool.false_eq_true, if_false, pow2_64,
    Bool.and_eq_true, decide_eq_true_eq]
  omega

/-- `C07_constants_equal_front_end`, core: inside `[-2^63, 2^64)` the back end renders a
literal, and the C++ expression it renders denotes exactly the front end's value. -/
theorem render_eval (v : Int) (h1 : -9223372036854775808 ≤ v) (h2 : v ≤ 18446744073709551615) :
    ∃ r, renderInteger v = some r ∧ evalRendered r = some v := by
  unfold renderInteger typeForRange
  by_cases c1 : v ≥ -2147483648 ∧ v ≤ 2147483647
  · simp only [c1, and_self, if_true]
    have hne : v ≠ -9223372036854775808 := by omega
    simp only [hne, if_false]
    refine ⟨_, rfl, ?_⟩
    have hw : wrap i32 v = v := wrap_of_holds i32 v (by decide) (holds_i32 v (by omega))
    simp only [evalRendered, i32, Bool.not_true, Bool.false_eq_true, if_false]
    have hm : (v.natAbs : Int) ≤ 9223372036854775807 := by omega
    simp only [hm, if_true]
    by_cases hn : v < 0
    · simp only [hn, decide_true, if_true]
      have : -(v.natAbs : Int) = v := by omega
      rw [this]; exact congrArg some hw
    · simp only [hn, decide_false, Bool.false_eq_true, if_false]
      have : (v.natAbs : Int) = v := by omega
      rw [this]; exact congrArg some hw
  · simp only [c1, if_false]
    by_cases c2 : v ≥ 0 ∧ v ≤ 4294967295
    · simp only [c2, and_self, if_true]
      have hne : v ≠ -9223372036854775808 := by omega
      simp only [hne, if_false]
      refine ⟨_, rfl, ?_⟩
      have hw : wrap u32 v = v := wrap_of_holds u32 v (by decide) (holds_u32 v (by omega))
      simp only [evalRendered, u32, Bool.not_false, if_true]
      have hm : (v.natAbs : Int) ≤ 18446744073709551615 := by omega
      have hn : ¬ v < 0 := by omega
      simp only [hm, if_true, hn, decide_false, Bool.false_eq_true, if_false]
      have : (v.natAbs : Int) = v := by omega
      rw [this]; exact congrArg some hw
    · simp only [c2, if_false]
      by_cases c3 : v ≥ -9223372036854775808 ∧ v ≤ 9223372036854775807
      · simp only [c3, and_self, if_true]
        have hw : wrap i64 v = v := wrap_of_holds i64 v (by decide) (holds_i64 v (by omega))
        by_cases hmin : v = -9223372036854775808
        · simp only [hmin, if_true]
          refine ⟨_, rfl, ?_⟩
          simp only [evalRendered, Bool.false_eq_true, if_false]
          subst hmin
          simpa using hw
        · simp only [hmin, if_false]
          refine ⟨_, rfl, ?_⟩
          simp only [evalRendered, i64, Bool.not_true, Bool.false_eq_true, if_false]
          have hm : (v.natAbs : Int) ≤ 9223372036854775807 := by omega
          simp only [hm, if_true]
          by_cases hn : v < 0
          · simp only [hn, decide_true, if_true]
            have : -(v.natAbs : Int) = v := by omega
            rw [this]; exact congrArg some hw
          · simp only [hn, decide_false, Bool.false_eq_true, if_false]
            have : (v.natAbs : Int) = v := by omega
            rw [this]; exact congrArg some hw
      · simp only [c3, if_false]
        have c4 : v ≥ 0 ∧ v ≤ 18446744073709551615 := by omega
        simp only [c4, and_self, if_true]
        have hne : v ≠ -9223372036854775808 := by omega
        simp only [hne, if_false]
        refine ⟨_, rfl, ?_⟩
        have hw : wrap u64 v = v := wrap_of_holds u64 v (by decide) (holds_u64 v (by omega))
        simp only [evalRendered, u64, Bool.not_false, if_true]
        have hm : (v.natAbs : Int) ≤ 18446744073709551615 := by omega
        have hn : ¬ v < 0 := by omega
        simp only [hm, if_true, hn, decide_false, Bool.false_eq_true, if_false]
        have : (v.natAbs : Int) = v := by omega
        rw [this]; exact congrArg some hw

/-- Outside `[-2^63, 2^64)` the Python assertion fires. -/
theorem render_none (v : Int) (h : v < -9223372036854775808 ∨ v > 18446744073709551615) :
    renderInteger v = none := by
  unfold renderInteger typeForRange
  have c1 : ¬ (v ≥ -2147483648 ∧ v ≤ 2147483647) := by omega
  have c2 : ¬ (v ≥ 0 ∧ v ≤ 4294967295) := by omega
  have c3 : ¬ (v ≥ -9223372036854775808 ∧ v ≤ 9223372036854775807) := by omega
  have c4 : ¬ (v ≥ 0 ∧ v ≤ 18446744073709551615) := by omega
  simp [c1, c2, c3, c4]

end Emboss.CppInt
