/-
C18 helper lemmas, part 3: the mutual induction over values.
-/
import Emboss.Lemmas.JsonRt
namespace Emboss.Json

/-- Round-trip statement for one single (non-`None`, non-list) value. -/
def RtVal (S : Schema) (v : Val) : Prop :=
  ∀ t, wfVal S t v = true →
    ∃ d, encVal S v = some d ∧ decVal S t d = some v ∧ d.isNull = false ∧ d.isList = false

/-- Round-trip statement for the items of a list value. -/
def RtItems (S : Schema) (v : Val) : Prop :=
  ∀ t xs, v = .list xs → wfList S t xs = true →
    ∃ ds, encList S xs = some ds ∧ decList S t ds = some xs

theorem decKvs_single (S : Schema) (F : List FieldSpec) (f : FieldSpec) (d : Dv) (v : Val)
    (rest : List (String × Dv)) (r : List (String × Val))
    (hfind : findField F f.name = some f) (hc : (f.container != .list) = true)
    (hn : d.isNull = false) (hl : d.isList = false)
    (hd : decVal S f.dtype d = some v) (hr : decKvs S F rest = some r) :
    decKvs S F ((f.name, d) :: rest) = some ((f.name, v) :: r) := by
  cases d with
  | null => cases hn
  | list _ => cases hl
  | str s => simp only [decKvs, hfind, hc, if_true, hd, hr]
  | int i => simp only [decKvs, hfind, hc, if_true, hd, hr]
  | bool b => simp only [decKvs, hfind, hc, if_true, hd, hr]
  | dict kvs => simp only [decKvs, hfind, hc, if_true, hd, hr]

mutual
theorem rtAny (S : Schema) (hS : SchemaOk S) : ∀ v : Val, RtVal S v ∧ RtItems S v
  | .none => ⟨fun t h => by simp [wfVal] at h, fun _ _ h => by cases h⟩
  | .str s => ⟨fun t h => by
      simp only [wfVal, beq_iff_eq] at h
      subst h
      exact ⟨.str s, by simp [encVal], by simp [decVal], rfl, rfl⟩, fun _ _ h => by cases h⟩
  | .int i => ⟨fun t h => by
      simp only [wfVal, beq_iff_eq] at h
      subst h
      exact ⟨.int i, by simp [encVal], by simp [decVal], rfl, rfl⟩, fun _ _ h => by cases h⟩
  | .bool b => ⟨fun t h => by
      simp only [wfVal, beq_iff_eq] at h
      subst h
      exact ⟨.bool b, by simp [encVal], by simp [decVal], rfl, rfl⟩, fun _ _ h => by cases h⟩
  | .enum n => ⟨fun t h => by
      cases t <;> simp only [wfVal] at h <;> try cases h
      exact ⟨.int n, by simp [encVal], by simp [decVal, h], rfl, rfl⟩, fun _ _ h => by cases h⟩
  | .loc l => ⟨fun t h => by
      simp only [wfVal, Bool.and_eq_true, beq_iff_eq] at h
      obtain ⟨ht, hl⟩ := h
      subst ht
      exact ⟨.str l.toStr, by simp [encVal], by simp [decVal, Loc.fromStr_toStr l hl], rfl, rfl⟩,
      fun _ _ h => by cases h⟩
  | .list xs => ⟨fun t h => by simp [wfVal] at h, fun t xs' h hw => by
      cases h
      exact rtList S hS t xs hw⟩
  | .msg c vs => ⟨fun t h => by
      simp only [wfVal, Bool.and_eq_true, beq_iff_eq] at h
      obtain ⟨ht, h⟩ := h
      subst ht
      cases hc : S.findClass c with
      | none => simp [hc] at h
      | some cs =>
        simp only [hc, Bool.and_eq_true] at h
        obtain ⟨hw, ho⟩ := h
        have hcls := classOk_of_find hS hc
        simp only [classOk, Bool.and_eq_true] at hcls
        obtain ⟨⟨hdist, hfok⟩, _⟩ := hcls
        obtain ⟨kvs, henc, hdec⟩ := rtFields S hS cs.fields cs.fields vs hw
          (findField_self cs.fields hdist) hfok
        refine ⟨.dict kvs, ?_, ?_, rfl, rfl⟩
        · simp only [encVal, hc, henc, Option.map_some]
        · simp only [decVal, hc, hdec]
          exact finish_expected S c cs.fields vs hw ho hfok hdist, fun _ _ h => by cases h⟩
theorem rtFields (S : Schema) (hS : SchemaOk S) : ∀ (F fs : List FieldSpec) (vs : List Val),
    wfFields S fs vs = true → (∀ f ∈ fs, findField F f.name = some f) → fs.all fieldOk = true →
    ∃ kvs, encFields S fs vs = some kvs ∧ decKvs S F kvs = some (expected fs vs)
  | F, [], [], _, _, _ => ⟨[], by simp [encFields], by simp [decKvs, expected]⟩
  | F, [], _ :: _, h, _, _ => by simp [wfFields] at h
  | F, _ :: _, [], h, _, _ => by simp [wfFields] at h
  | F, f :: fs, v :: vs, h, hfind, hok => by
    have ihV := rtAny S hS v
    have ihF := rtFields S hS F fs vs
    have hfind' : ∀ g ∈ fs, findField F g.name = some g :=
      fun g hg => hfind g (List.mem_cons_of_mem _ hg)
    have hff : findField F f.name = some f := hfind f List.mem_cons_self
    simp only [List.all_cons, Bool.and_eq_true] at hok
    have hf := hok.1
    simp only [fieldOk, Bool.and_eq_true] at hf
    have hcont := hf.1.1
    cases v with
    | none =>
      simp only [wfFields, Bool.and_eq_true] at h
      obtain ⟨kvs, henc, hdec⟩ := ihF h.2 hfind' hok.2
      exact ⟨kvs, by simp only [encFields, henc], by simp only [expected, dropped, if_true, hdec]⟩
    | list xs =>
      simp only [wfFields, Bool.and_eq_true, beq_iff_eq] at h
      obtain ⟨⟨hcl, hwl⟩, hw2⟩ := h
      obtain ⟨kvs, henc, hdec⟩ := ihF hw2 hfind' hok.2
      cases xs with
      | nil =>
        exact ⟨kvs, by simp [encFields, henc], by simp only [expected, dropped, if_true, hdec]⟩
      | cons x xs =>
        simp only [hcl, Bool.and_eq_true, beq_iff_eq] at hcont
        have hle := hcont.2
        obtain ⟨ds, hel, hdl⟩ := ihV.2 f.dtype (x :: xs) rfl hwl
        have hk := kindOk_of_wfList S f.dtype (x :: xs) hwl
        refine ⟨(f.name, .list ds) :: kvs, ?_, ?_⟩
        · simp only [encFields, List.isEmpty_cons, Bool.false_eq_true, if_false, hcl, beq_self_eq_true,
            hle, hk, Bool.and_self, if_true, hel, henc]
        · simp only [decKvs, hff, hcl, beq_self_eq_true, hle, Bool.and_self, if_true, hdl, hdec,
            expected, dropped, Bool.false_eq_true, if_false]
    | str s =>
      simp only [wfFields, Bool.and_eq_true] at h
      obtain ⟨⟨hcl, hwv⟩, hw2⟩ := h
      obtain ⟨kvs, henc, hdec⟩ := ihF hw2 hfind' hok.2
      obtain ⟨d, he, hd, hn, hl⟩ := ihV.1 f.dtype hwv
      have hk := kindOk_of_wfVal S f.dtype _ hwv
      refine ⟨(f.name, d) :: kvs, ?_, ?_⟩
      · simp only [encFields, hcl, hk, Bool.and_self, if_true, he, henc]
      · simp only [expected, dropped, Bool.false_eq_true, if_false]
        exact decKvs_single S F f d _ kvs _ hff hcl hn hl hd hdec
    | int i =>
      simp only [wfFields, Bool.and_eq_true] at h
      obtain ⟨⟨hcl, hwv⟩, hw2⟩ := h
      obtain ⟨kvs, henc, hdec⟩ := ihF hw2 hfind' hok.2
      obtain ⟨d, he, hd, hn, hl⟩ := ihV.1 f.dtype hwv
      have hk := kindOk_of_wfVal S f.dtype _ hwv
      refine ⟨(f.name, d) :: kvs, ?_, ?_⟩
      · simp only [encFields, hcl, hk, Bool.and_self, if_true, he, henc]
      · simp only [expected, dropped, Bool.false_eq_true, if_false]
        exact decKvs_single S F f d _ kvs _ hff hcl hn hl hd hdec
    | bool b =>
      simp only [wfFields, Bool.and_eq_true] at h
      obtain ⟨⟨hcl, hwv⟩, hw2⟩ := h
      obtain ⟨kvs, henc, hdec⟩ := ihF hw2 hfind' hok.2
      obtain ⟨d, he, hd, hn, hl⟩ := ihV.1 f.dtype hwv
      have hk := kindOk_of_wfVal S f.dtype _ hwv
      refine ⟨(f.name, d) :: kvs, ?_, ?_⟩
      · simp only [encFields, hcl, hk, Bool.and_self, if_true, he, henc]
      · simp only [expected, dropped, Bool.false_eq_true, if_false]
        exact decKvs_single S F f d _ kvs _ hff hcl hn hl hd hdec
    | enum n =>
      simp only [wfFields, Bool.and_eq_true] at h
      obtain ⟨⟨hcl, hwv⟩, hw2⟩ := h
      obtain ⟨kvs, henc, hdec⟩ := ihF hw2 hfind' hok.2
      obtain ⟨d, he, hd, hn, hl⟩ := ihV.1 f.dtype hwv
      have hk := kindOk_of_wfVal S f.dtype _ hwv
      refine ⟨(f.name, d) :: kvs, ?_, ?_⟩
      · simp only [encFields, hcl, hk, Bool.and_self, if_true, he, henc]
      · simp only [expected, dropped, Bool.false_eq_true, if_false]
        exact decKvs_single S F f d _ kvs _ hff hcl hn hl hd hdec
    | loc l =>
      simp only [wfFields, Bool.and_eq_true] at h
      obtain ⟨⟨hcl, hwv⟩, hw2⟩ := h
      obtain ⟨kvs, henc, hdec⟩ := ihF hw2 hfind' hok.2
      obtain ⟨d, he, hd, hn, hl⟩ := ihV.1 f.dtype hwv
      have hk := kindOk_of_wfVal S f.dtype _ hwv
      refine ⟨(f.name, d) :: kvs, ?_, ?_⟩
      · simp only [encFields, hcl, hk, Bool.and_self, if_true, he, henc]
      · simp only [expected, dropped, Bool.false_eq_true, if_false]
        exact decKvs_single S F f d _ kvs _ hff hcl hn hl hd hdec
    | msg c ws =>
      simp only [wfFields, Bool.and_eq_true] at h
      obtain ⟨⟨hcl, hwv⟩, hw2⟩ := h
      obtain ⟨kvs, henc, hdec⟩ := ihF hw2 hfind' hok.2
      obtain ⟨d, he, hd, hn, hl⟩ := ihV.1 f.dtype hwv
      have hk := kindOk_of_wfVal S f.dtype _ hwv
      refine ⟨(f.name, d) :: kvs, ?_, ?_⟩
      · simp only [encFields, hcl, hk, Bool.and_self, if_true, he, henc]
      · simp only [expected, dropped, Bool.false_eq_true, if_false]
        exact decKvs_single S F f d _ kvs _ hff hcl hn hl hd hdec
theorem rtList (S : Schema) (hS : SchemaOk S) : ∀ (t : DType) (xs : List Val), wfList S t xs = true →
    ∃ ds, encList S xs = some ds ∧ decList S t ds = some xs
  | t, [], _ => ⟨[], by simp [encList], by simp [decList]⟩
  | t, x :: xs, h => by
    simp only [wfList, Bool.and_eq_true] at h
    obtain ⟨d, he, hd, _, _⟩ := (rtAny S hS x).1 t h.1
    obtain ⟨ds, hes, hds⟩ := rtList S hS t xs h.2
    exact ⟨d :: ds, by simp only [encList, he, hes], by simp only [decList, hd, hds]⟩
end

end Emboss.Json
