/-
C18 helper lemmas, part 4: whatever `_from_dict` builds is a well-formed message
(so the back end, in the split pipeline, only ever sees well-formed IR).
-/
import Emboss.Lemmas.JsonRt
namespace Emboss.Json

/-- A decoded keyword argument fits its field spec. -/
def fits (S : Schema) (f : FieldSpec) : Val → Bool
  | .none => f.container == .optional
  | .list xs => f.container == .list && wfList S f.dtype xs
  | v => f.container != .list && wfVal S f.dtype v

theorem wfFields_cons_fits (S : Schema) (f : FieldSpec) (fs : List FieldSpec) (v : Val) (vs : List Val) :
    wfFields S (f :: fs) (v :: vs) = (fits S f v && wfFields S fs vs) := by
  cases v <;> simp only [wfFields, fits]

theorem enumMember_of_byName {S : Schema} {e s : String} {n : Int} (h : enumByName S e s = some n) :
    enumMember S e n = true := by
  unfold enumByName at h
  unfold enumMember
  cases he : S.findEnum e with
  | none => simp [he] at h
  | some es =>
    simp only [he] at h ⊢
    split at h
    · cases hf : es.members.find? (fun m => m.1 == s) with
      | none => simp [hf] at h
      | some m =>
        simp only [hf, Option.map_some, Option.some.injEq] at h
        have hm := List.mem_of_find?_eq_some hf
        exact List.any_eq_true.mpr ⟨m, hm, by simp [h]⟩
    · cases h

/-! ### the constructor establishes the oneof invariant -/

theorem laterSet_construct (g : String) : ∀ (fs : List FieldSpec) (vs : List Val),
    laterSet g fs (construct fs vs) = laterSet g fs vs
  | [], _ => by simp [laterSet]
  | _ :: _, [] => by simp [laterSet, construct]
  | f :: fs, v :: vs => by
    simp only [construct, laterSet, laterSet_construct g fs vs]
    cases hf : f.oneof with
    | none => simp
    | some g' =>
      by_cases hg : g' = g
      · subst hg
        by_cases hl : laterSet g' fs vs = true
        · simp [hl, Val.isNone]
        · simp [hl]
      · have : (some g' == some g) = false := by simp [hg]
        simp only [this, Bool.false_and, Bool.false_or]

theorem oneofOk_construct : ∀ (fs : List FieldSpec) (vs : List Val), oneofOk fs (construct fs vs) = true
  | [], _ => by simp [oneofOk]
  | _ :: _, [] => by simp [oneofOk, construct]
  | f :: fs, v :: vs => by
    simp only [construct, oneofOk, oneofOk_construct fs vs, Bool.and_true, laterSet_construct]
    cases hf : f.oneof with
    | none => rfl
    | some g =>
      by_cases hl : laterSet g fs vs = true
      · simp [hl, Val.isNone]
      · simp [hl]

theorem wfFields_construct (S : Schema) : ∀ (fs : List FieldSpec) (vs : List Val),
    fs.all fieldOk = true → wfFields S fs vs = true → wfFields S fs (construct fs vs) = true
  | [], [], _, _ => by simp [construct, wfFields]
  | [], _ :: _, _, h => by simp [wfFields] at h
  | _ :: _, [], _, h => by simp [wfFields] at h
  | f :: fs, v :: vs, hok, h => by
    simp only [List.all_cons, Bool.and_eq_true] at hok
    rw [wfFields_cons_fits, Bool.and_eq_true] at h
    simp only [construct]
    rw [wfFields_cons_fits, Bool.and_eq_true]
    refine ⟨?_, wfFields_construct S fs vs hok.2 h.2⟩
    cases hf : f.oneof with
    | none => exact h.1
    | some g =>
      simp only
      split
      · have hfo := hok.1
        simp only [fieldOk, hf, Bool.and_eq_true] at hfo
        simpa [fits] using hfo.1.2
      · exact h.1

/-! ### keyword arguments -/

/-- Every decoded `(key, value)` belongs to a field of that name which it fits. -/
def DecOk (S : Schema) (F : List FieldSpec) (dec : List (String × Val)) : Prop :=
  ∀ p ∈ dec, ∃ f, findField F p.1 = some f ∧ fits S f p.2 = true

theorem lookup_mem {k : String} {v : Val} : ∀ {l : List (String × Val)}, lookup k l = some v → (k, v) ∈ l
  | [], h => by simp [lookup] at h
  | (k', v') :: rest, h => by
    simp only [lookup] at h
    split at h
    · rename_i hk
      simp only [beq_iff_eq] at hk
      cases h
      subst hk
      exact List.mem_cons_self
    · exact List.mem_cons_of_mem _ (lookup_mem h)

theorem fits_default (S : Schema) (f : FieldSpec) (v : Val) (hok : fieldOk f = true) (hdf : defaultFits f = true)
    (h : defaultOf f = some v) : fits S f v = true := by
  simp only [fieldOk, Bool.and_eq_true] at hok
  have h1 := hok.1.1
  unfold defaultOf at h
  unfold defaultFits at hdf
  cases hd : f.default with
  | none =>
    rw [hd] at h
    cases h
    cases hc : f.container with
    | none => simp [hc, hd] at hdf
    | optional => simp [fits, hc]
    | list => simp [hc, hd] at h1
  | str s =>
    rw [hd] at h
    cases h
    cases hc : f.container with
    | none =>
      simp only [hc, hd] at hdf
      simp [fits, hc, wfVal, hdf]
    | optional => simp [hc, hd] at h1
    | list => simp [hc, hd] at h1
  | emptyList =>
    rw [hd] at h
    cases h
    cases hc : f.container with
    | none => simp [hc, hd] at hdf
    | optional => simp [hc, hd] at h1
    | list => simp [fits, hc, wfList]
  | required =>
    rw [hd] at h
    cases h
  | other w =>
    rw [hd] at h
    cases h

theorem wfFields_buildArgs (S : Schema) (F : List FieldSpec) (dec : List (String × Val)) (hdec : DecOk S F dec) :
    ∀ (fs : List FieldSpec) (args : List Val), (∀ f ∈ fs, findField F f.name = some f) →
      fs.all fieldOk = true → fs.all defaultFits = true →
      buildArgs dec fs = some args → wfFields S fs args = true
  | [], args, _, _, _, h => by
    simp only [buildArgs, Option.some.injEq] at h
    subst h
    simp [wfFields]
  | f :: fs, args, hfind, hok, hdf, h => by
    simp only [List.all_cons, Bool.and_eq_true] at hok hdf
    simp only [buildArgs] at h
    split at h
    · rename_i v vs hv hvs
      cases h
      rw [wfFields_cons_fits, Bool.and_eq_true]
      refine ⟨?_, wfFields_buildArgs S F dec hdec fs vs
        (fun g hg => hfind g (List.mem_cons_of_mem _ hg)) hok.2 hdf.2 hvs⟩
      split at hv
      · rename_i w hw
        cases hv
        obtain ⟨f', hf', hfit⟩ := hdec _ (lookup_mem hw)
        have : findField F f.name = some f := hfind f List.mem_cons_self
        simp only at hf'
        rw [this] at hf'
        cases hf'
        exact hfit
      · exact fits_default S f v hok.1 hdf.1 hv
    · cases h


theorem fits_of_wfVal (S : Schema) (f : FieldSpec) (v : Val) (hc : (f.container != .list) = true)
    (h : wfVal S f.dtype v = true) : fits S f v = true := by
  cases v <;> simp only [fits, hc, h, Bool.and_self] <;> simp [wfVal] at h

/-- Statement for one JSON value. -/
def WfDec (S : Schema) (d : Dv) : Prop :=
  ∀ t v, decVal S t d = some v → wfVal S t v = true

def WfDecItems (S : Schema) (d : Dv) : Prop :=
  ∀ t ds vs, d = .list ds → decList S t ds = some vs → wfList S t vs = true

theorem strict_parts {S : Schema} (hS : SchemaOkStrict S) {c : String} {cs : ClassSpec}
    (h : S.findClass c = some cs) :
    namesDistinct cs.fields = true ∧ cs.fields.all fieldOk = true ∧ cs.fields.all defaultFits = true := by
  simp only [SchemaOkStrict, schemaOkStrict, Bool.and_eq_true] at hS
  have hm : cs ∈ S.classes := List.mem_of_find?_eq_some h
  have h1 := List.all_eq_true.mp hS.1 cs hm
  have h2 := List.all_eq_true.mp hS.2 cs hm
  simp only [classOk, Bool.and_eq_true] at h1
  exact ⟨h1.1.1, h1.1.2, h2⟩

theorem wfDec_str (S : Schema) (s : String) : WfDec S (.str s) := by
  intro t v h
  cases t with
  | str =>
    simp only [decVal, Option.some.injEq] at h
    subst h
    simp [wfVal]
  | enum e =>
    simp only [decVal] at h
    cases hb : enumByName S e s with
    | none => simp [hb] at h
    | some n =>
      simp only [hb, Option.map_some, Option.some.injEq] at h
      subst h
      simp only [wfVal]
      exact enumMember_of_byName hb
  | loc =>
    simp only [decVal] at h
    cases hl : Loc.fromStr s with
    | none => simp [hl] at h
    | some l =>
      simp only [hl, Option.map_some, Option.some.injEq] at h
      subst h
      simp only [wfVal, beq_self_eq_true, Bool.true_and]
      exact Loc.ok_of_fromChars hl
  | int => simp [decVal] at h
  | bool => simp [decVal] at h
  | msg c => simp [decVal] at h
  | other n => simp [decVal] at h

theorem wfDec_int (S : Schema) (i : Int) : WfDec S (.int i) := by
  intro t v h
  cases t with
  | int =>
    simp only [decVal, Option.some.injEq] at h
    subst h
    simp [wfVal]
  | enum e =>
    simp only [decVal] at h
    split at h
    · rename_i hm
      simp only [Option.some.injEq] at h
      subst h
      simpa [wfVal] using hm
    · cases h
  | str => simp [decVal] at h
  | loc => simp [decVal] at h
  | bool => simp [decVal] at h
  | msg c => simp [decVal] at h
  | other n => simp [decVal] at h

theorem wfDec_bool (S : Schema) (b : Bool) : WfDec S (.bool b) := by
  intro t v h
  cases t with
  | bool =>
    simp only [decVal, Option.some.injEq] at h
    subst h
    simp [wfVal]
  | str => simp [decVal] at h
  | int => simp [decVal] at h
  | enum e => simp [decVal] at h
  | loc => simp [decVal] at h
  | msg c => simp [decVal] at h
  | other n => simp [decVal] at h

/-- One step of `decKvs` for a single (non-null, non-list) JSON value. -/
theorem decOk_single (S : Schema) (F : List FieldSpec) (k : String) (d : Dv) (rest : List (String × Dv))
    (dec : List (String × Val)) (hn : d.isNull = false) (hl : d.isList = false)
    (ihD : WfDec S d) (ihR : ∀ dec, decKvs S F rest = some dec → DecOk S F dec)
    (h : decKvs S F ((k, d) :: rest) = some dec) : DecOk S F dec := by
  have key : ∀ f, findField F k = some f →
      (if (f.container != .list) = true then
        match decVal S f.dtype d, decKvs S F rest with
        | some v, some r => some ((k, v) :: r)
        | _, _ => none
      else none) = some dec → DecOk S F dec := by
    intro f hf h
    split at h
    · rename_i hcond
      split at h
      · rename_i v r hv hr
        cases h
        intro p hp
        rcases List.mem_cons.mp hp with rfl | hp
        · exact ⟨f, hf, fits_of_wfVal S f v hcond (ihD f.dtype v hv)⟩
        · exact ihR r hr p hp
      · cases h
    · cases h
  cases d with
  | null => cases hn
  | list _ => cases hl
  | str s =>
    cases hf : findField F k with
    | none => simp only [decKvs, hf] at h; exact ihR dec h
    | some f => simp only [decKvs, hf] at h; exact key f hf h
  | int i =>
    cases hf : findField F k with
    | none => simp only [decKvs, hf] at h; exact ihR dec h
    | some f => simp only [decKvs, hf] at h; exact key f hf h
  | bool b =>
    cases hf : findField F k with
    | none => simp only [decKvs, hf] at h; exact ihR dec h
    | some f => simp only [decKvs, hf] at h; exact key f hf h
  | dict kvs =>
    cases hf : findField F k with
    | none => simp only [decKvs, hf] at h; exact ihR dec h
    | some f => simp only [decKvs, hf] at h; exact key f hf h

mutual
theorem wfDecAny (S : Schema) (hS : SchemaOkStrict S) : ∀ d : Dv, WfDec S d ∧ WfDecItems S d
  | .null => ⟨fun t v h => by simp [decVal] at h, fun _ _ _ h => by cases h⟩
  | .str s => ⟨wfDec_str S s, fun _ _ _ h => by cases h⟩
  | .int i => ⟨wfDec_int S i, fun _ _ _ h => by cases h⟩
  | .bool b => ⟨wfDec_bool S b, fun _ _ _ h => by cases h⟩
  | .list ds => ⟨fun t v h => by simp [decVal] at h, fun t ds' vs h hd => by
      cases h
      exact wfDecList S hS ds t vs hd⟩
  | .dict kvs => ⟨fun t v h => by
      cases t with
      | msg c =>
        simp only [decVal] at h
        cases hc : S.findClass c with
        | none => simp [hc] at h
        | some cs =>
          simp only [hc] at h
          cases hk : decKvs S cs.fields kvs with
          | none => simp [hk] at h
          | some dec =>
            simp only [hk, finish] at h
            cases hb : buildArgs dec cs.fields with
            | none => simp [hb] at h
            | some args =>
              simp only [hb, Option.map_some, Option.some.injEq] at h
              subst h
              obtain ⟨hdist, hfok, hdf⟩ := strict_parts hS hc
              have hdec := wfDecKvs S hS kvs cs.fields dec hk
              have hw := wfFields_buildArgs S cs.fields dec hdec cs.fields args
                (findField_self cs.fields hdist) hfok hdf hb
              simp only [wfVal, beq_self_eq_true, Bool.true_and, hc, Bool.and_eq_true]
              exact ⟨wfFields_construct S cs.fields args hfok hw, oneofOk_construct cs.fields args⟩
      | str => simp [decVal] at h
      | int => simp [decVal] at h
      | bool => simp [decVal] at h
      | enum e => simp [decVal] at h
      | loc => simp [decVal] at h
      | other n => simp [decVal] at h,
      fun _ _ _ h => by cases h⟩
theorem wfDecKvs (S : Schema) (hS : SchemaOkStrict S) : ∀ (kvs : List (String × Dv)) (F : List FieldSpec)
    (dec : List (String × Val)), decKvs S F kvs = some dec → DecOk S F dec
  | [], F, dec, h => by
    simp only [decKvs, Option.some.injEq] at h
    subst h
    intro p hp
    cases hp
  | (k, d) :: rest, F, dec, h => by
    have ihD := wfDecAny S hS d
    have ihR := wfDecKvs S hS rest F
    cases d with
    | null =>
      cases hf : findField F k with
      | none => simp only [decKvs, hf] at h; exact ihR dec h
      | some f => simp only [decKvs, hf] at h; exact ihR dec h
    | list ds =>
      cases hf : findField F k with
      | none => simp only [decKvs, hf] at h; exact ihR dec h
      | some f =>
        simp only [decKvs, hf] at h
        split at h
        · rename_i hcond
          split at h
          · rename_i vs r hvs hr
            cases h
            simp only [Bool.and_eq_true, beq_iff_eq] at hcond
            intro p hp
            rcases List.mem_cons.mp hp with rfl | hp
            · refine ⟨f, hf, ?_⟩
              simp only [fits, hcond.1, beq_self_eq_true, Bool.true_and]
              exact ihD.2 f.dtype ds vs rfl hvs
            · exact ihR r hr p hp
          · cases h
        · cases h
    | str s => exact decOk_single S F k _ rest dec rfl rfl ihD.1 ihR h
    | int i => exact decOk_single S F k _ rest dec rfl rfl ihD.1 ihR h
    | bool b => exact decOk_single S F k _ rest dec rfl rfl ihD.1 ihR h
    | dict kvs' => exact decOk_single S F k _ rest dec rfl rfl ihD.1 ihR h
theorem wfDecList (S : Schema) (hS : SchemaOkStrict S) : ∀ (ds : List Dv) (t : DType) (vs : List Val),
    decList S t ds = some vs → wfList S t vs = true
  | [], t, vs, h => by
    simp only [decList, Option.some.injEq] at h
    subst h
    rfl
  | d :: ds, t, vs, h => by
    simp only [decList] at h
    split at h
    · rename_i v vs' hv hvs
      cases h
      simp only [wfList, Bool.and_eq_true]
      exact ⟨(wfDecAny S hS d).1 t v hv, wfDecList S hS ds t vs' hvs⟩
    · cases h
end

end Emboss.Json
