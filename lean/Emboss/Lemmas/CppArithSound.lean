/-
C04 (arithmetic half): the C++ evaluation model agrees with unbounded-ℤ evaluation on
every gate-accepted expression — mutual induction over expressions / argument lists.
-/
import Emboss.Lemmas.CppArithOps
namespace Emboss.Bounds
open ExtInt

abbrev Good (r : CRes) (v : CVal) : Prop := r = .ok v ∨ r = .staticAssert

/-- a bound function is a constant or (infinite bound) the unbounded annotation -/
theorem boundFn_const_or_unbounded (up : Bool) (a : AVal) :
    (boundFn up a).modulus = .inf ∨ (boundFn up a).min = .negInf := by
  unfold boundFn
  generalize (if up = true then a.max else a.min) = v
  dsimp only
  by_cases h : v.isInf = true
  · right; simp [h]
  · left; simp [h]

theorem withType_ok {oty : Option AType} {ty : AType} {k : AType → CRes} {v : CVal}
    (habs : oty = some ty) (hown : OwnOk ty) (hg : GammaT ty v)
    (hk : isConstType ty = false → Good (k ty) v) : Good (withType oty k) v := by
  subst habs
  simp only [withType]
  cases hc : isConstType ty
  · simpa using hk hc
  · simp only [if_true]; exact Or.inl (cppLiteral_ok hg hc hown)

theorem annotList_abs : ∀ {es : List Expr} {ts : List ATree},
    annotList es = some ts → absList es = some (argTys ts)
  | [], ts, h => by simp only [annotList, Option.some.injEq] at h; subst h; rfl
  | e :: es, ts, h => by
    simp only [annotList] at h
    split at h <;> try cases h
    rename_i a l ha hl
    simp [absList, annot_abs ha, annotList_abs hl, argTys]

theorem cvInts_map_val : ∀ (vs : List CVal), cvInts (vs.map .val) = valsInts vs
  | [] => rfl
  | v :: vs => by
    cases v <;> simp [cvInts, valsInts, cvInts_map_val vs]

theorem maxVals_eq {vs : List CVal} {l : List Int} {m : Int}
    (hl : valsInts vs = some l) (hm : listMax l = some m) : maxVals vs = some (.int m) := by
  simp only [maxVals, cvInts_map_val, hl]
  cases l with
  | nil => simp [listMax] at hm
  | cons a r =>
    have : maxInts (a :: r) = some _ := rfl
    rw [this]
    simp only [Option.map_some, Option.some.injEq, CVal.int.injEq]
    exact isMax_unique (maxInts_isMax this) (listMax_isMax hm)

mutual
theorem no_overflow_aux (ρ : Env) : (e : Expr) → ∀ (t : ATree) (v : CVal),
    annot e = some t → gate t = some [] → EnvOk ρ e → eval ρ e = some v →
    vrefsGated e = true → Good (cppEval ρ e) v
  | .const c, t, v, hann, hg, henv, hev, hv => by
    have habs := annot_abs hann
    have hgam := (sound_aux ρ _ henv).1 _ _ habs hev
    have hown := gate_own hg
    simp only [abs, Option.some.injEq] at habs
    rw [← habs] at hgam hown
    exact Or.inl (cppLiteral_ok hgam (by simp [isConstType, constRange]) hown)
  | .bconst b, t, v, hann, hg, henv, hev, hv => by
    simp only [eval, Option.some.injEq] at hev; subst hev; exact Or.inl rfl
  | .econst b, t, v, hann, hg, henv, hev, hv => by
    simp only [eval, Option.some.injEq] at hev; subst hev; exact Or.inl rfl
  | .ileaf id k size, t, v, hann, hg, henv, hev, hv => by
    have habs := annot_abs hann
    have hgam := (sound_aux ρ _ henv).1 _ _ habs hev
    simp only [cppEval]
    refine withType_ok habs (gate_own hg) hgam (fun _ => ?_)
    simp only [eval, Option.some.injEq] at hev; subst hev; exact Or.inl rfl
  | .ssize id, t, v, hann, hg, henv, hev, hv => by
    simp only [eval, Option.some.injEq] at hev; subst hev; exact Or.inl rfl
  | .given id a, t, v, hann, hg, henv, hev, hv => by
    have habs := annot_abs hann
    have hgam := (sound_aux ρ _ henv).1 _ _ habs hev
    simp only [cppEval]
    simp only [abs] at habs
    refine withType_ok habs (gate_own hg) hgam (fun _ => ?_)
    simp only [eval, Option.some.injEq] at hev; subst hev; exact Or.inl rfl
  | .bleaf id, t, v, hann, hg, henv, hev, hv => by
    simp only [eval, Option.some.injEq] at hev; subst hev; exact Or.inl rfl
  | .eleaf id, t, v, hann, hg, henv, hev, hv => by
    simp only [eval, Option.some.injEq] at hev; subst hev; exact Or.inl rfl
  | .upper e, t, v, hann, hg, henv, hev, hv => by
    have habs := annot_abs hann
    have hgam := (sound_aux ρ _ henv).1 _ _ habs hev
    simp only [cppEval]
    refine withType_ok habs (gate_own hg) hgam (fun hnc => ?_)
    exfalso
    simp only [abs] at habs
    split at habs <;> try cases habs
    rename_i a _
    cases a <;> simp only [absBound, Option.some.injEq] at habs <;> try cases habs
    rw [← habs] at hnc
    have hown := gate_own hg
    rw [← habs] at hown
    obtain ⟨lo, hi, h1, -, -⟩ := hown _ rfl
    rcases boundFn_const_or_unbounded true ‹AVal› with h | h
    · simp [isConstType, h] at hnc
    · rw [h] at h1; cases h1
  | .lower e, t, v, hann, hg, henv, hev, hv => by
    have habs := annot_abs hann
    have hgam := (sound_aux ρ _ henv).1 _ _ habs hev
    simp only [cppEval]
    refine withType_ok habs (gate_own hg) hgam (fun hnc => ?_)
    exfalso
    simp only [abs] at habs
    split at habs <;> try cases habs
    rename_i a _
    cases a <;> simp only [absBound, Option.some.injEq] at habs <;> try cases habs
    rw [← habs] at hnc
    have hown := gate_own hg
    rw [← habs] at hown
    obtain ⟨lo, hi, h1, -, -⟩ := hown _ rfl
    rcases boundFn_const_or_unbounded false ‹AVal› with h | h
    · simp [isConstType, h] at hnc
    · rw [h] at h1; cases h1
  | .cref e, t, v, hann, hg, henv, hev, hv => by
    have habs := annot_abs hann
    have hgam := (sound_aux ρ _ henv).1 _ _ habs hev
    simp only [cppEval]
    simp only [abs] at habs
    refine withType_ok habs (gate_own hg) hgam (fun hnc => ?_)
    exfalso
    simp only [annot] at hann
    split at hann <;> try cases hann
    split at hann <;> try cases hann
    rename_i ty hty hc
    rw [hty] at habs; cases habs
    simp [ATree.ty, hc] at hnc
  | .bin op l r, t, v, hann, hg, henv, hev, hv => by
    simp only [vrefsGated, Bool.and_eq_true] at hv
    have habs := annot_abs hann
    have hgam := (sound_aux ρ _ henv).1 _ _ habs hev
    have hown := gate_own hg
    simp only [cppEval]
    refine withType_ok habs hown hgam (fun hnc => ?_)
    simp only [annot] at hann
    split at hann <;> try cases hann
    rename_i ty a b hty ha hb
    simp only [ATree.ty] at hnc hgam hown
    obtain ⟨hgates, h1⟩ := gate_one_type hg hnc
    simp only [eval] at hev
    split at hev <;> try cases hev
    rename_i vl vr hvl hvr
    have ihl := no_overflow_aux ρ l a vl ha (hgates a (by simp)) henv.1 hvl hv.1
    have ihr := no_overflow_aux ρ r b vr hb (hgates b (by simp)) henv.2 hvr hv.2
    have gl := (sound_aux ρ l henv.1).1 _ _ (annot_abs ha) hvl
    have gr := (sound_aux ρ r henv.2).1 _ _ (annot_abs hb) hvr
    rw [annot_abs ha, annot_abs hb]
    rcases ihl with hl' | hl' <;> rcases ihr with hr' | hr' <;> rw [hl', hr'] <;> simp only []
    · rw [applyBin_eq_evalBin, hev]
      left
      simp only [argTys] at h1
      apply cppOp_ok h1 _ hgam (.cons gl (.cons gr .nil))
      intro t' ht'
      simp only [List.mem_cons, List.not_mem_nil, or_false] at ht'
      rcases ht' with rfl | rfl | rfl
      · exact hown
      · exact gate_own (hgates a (by simp))
      · exact gate_own (hgates b (by simp))
    · exact Or.inr rfl
    · exact Or.inr rfl
    · exact Or.inr rfl
  | .choice c tt ff, t, v, hann, hg, henv, hev, hv => by
    simp only [vrefsGated, Bool.and_eq_true] at hv
    have habs := annot_abs hann
    have hgam := (sound_aux ρ _ henv).1 _ _ habs hev
    have hown := gate_own hg
    simp only [cppEval]
    refine withType_ok habs hown hgam (fun hnc => ?_)
    simp only [annot] at hann
    split at hann <;> try cases hann
    rename_i ty a b d hty ha hb hd
    simp only [ATree.ty] at hnc hgam hown
    obtain ⟨hgates, h1⟩ := gate_one_type hg hnc
    simp only [eval] at hev
    split at hev <;> try cases hev
    rename_i bb x y hc hx hy
    have ihc := no_overflow_aux ρ c a _ ha (hgates a (by simp)) henv.1 hc hv.1.1
    have iht := no_overflow_aux ρ tt b _ hb (hgates b (by simp)) henv.2.1 hx hv.1.2
    have ihf := no_overflow_aux ρ ff d _ hd (hgates d (by simp)) henv.2.2 hy hv.2
    rw [annot_abs ha, annot_abs hb, annot_abs hd]
    rcases ihc with hc' | hc' <;> rcases iht with ht' | ht' <;> rcases ihf with hf' | hf' <;>
      rw [hc', ht', hf'] <;> simp only []
    · simp only [argTys] at h1
      exact cppChoice_ok h1 hown hgam
    all_goals exact Or.inr rfl
  | .max args, t, v, hann, hg, henv, hev, hv => by
    simp only [vrefsGated] at hv
    have habs := annot_abs hann
    have hgam := (sound_aux ρ _ henv).1 _ _ habs hev
    have hown := gate_own hg
    simp only [cppEval]
    refine withType_ok habs hown hgam (fun hnc => ?_)
    simp only [annot] at hann
    split at hann <;> try cases hann
    rename_i ty ts hty hts
    simp only [ATree.ty] at hnc hgam hown
    obtain ⟨hgates, h1⟩ := gate_one_type hg hnc
    simp only [eval] at hev
    split at hev <;> try cases hev
    split at hev <;> try cases hev
    rename_i vs hvs _ l hl
    simp only [Option.map_eq_some_iff] at hev
    obtain ⟨m, hm, rfl⟩ := hev
    have ih := no_overflow_list ρ args ts vs hts hgates henv hvs hv
    have gs := (soundList_aux ρ args henv).1 _ _ (annotList_abs hts) hvs
    rw [annotList_abs hts]
    rcases ih with h' | ⟨h', h''⟩
    · simp only [h', maxVals_eq hl hm]
      left
      apply cppOp_ok h1 _ hgam gs
      intro t' ht'
      rcases List.mem_cons.mp ht' with rfl | hm'
      · exact hown
      · obtain ⟨t'', ht'', rfl⟩ := argTys_mem hm'
        exact gate_own (hgates t'' ht'')
    · simp only [h']
      exact Or.inr h''
  | .vref e, t, v, hann, hg, henv, hev, hv => by
    simp only [vrefsGated, Bool.and_eq_true] at hv
    obtain ⟨hv1, hv2⟩ := hv
    split at hv2
    · rename_i t' ht'
      simp only [decide_eq_true_eq] at hv2
      simp only [eval] at hev
      simp only [cppEval]
      exact no_overflow_aux ρ e t' v ht' hv2 henv hev hv1
    · cases hv2
  | .present a c, t, v, hann, hg, henv, hev, hv => by
    simp only [vrefsGated, Bool.and_eq_true] at hv
    obtain ⟨hv1, hv2⟩ := hv
    split at hv2
    · rename_i t' ht'
      simp only [decide_eq_true_eq] at hv2
      simp only [eval] at hev
      simp only [cppEval]
      exact no_overflow_aux ρ c t' v ht' hv2 henv hev hv1
    · cases hv2
theorem no_overflow_list (ρ : Env) : (es : List Expr) → ∀ (ts : List ATree) (vs : List CVal),
    annotList es = some ts → (∀ t ∈ ts, gate t = some []) → EnvOkList ρ es →
    evalList ρ es = some vs → vrefsGatedList es = true →
    okVals (cppEvalList ρ es) = some vs ∨
      (okVals (cppEvalList ρ es) = none ∧ firstBad (cppEvalList ρ es) = .staticAssert)
  | [], ts, vs, hann, hg, henv, hev, hv => by
    simp only [evalList, Option.some.injEq] at hev; subst hev
    left; rfl
  | e :: es, ts, vs, hann, hg, henv, hev, hv => by
    simp only [vrefsGatedList, Bool.and_eq_true] at hv
    simp only [annotList] at hann
    split at hann <;> try cases hann
    rename_i a l ha hl
    simp only [evalList] at hev
    split at hev <;> try cases hev
    rename_i v vs' hv' hvs
    have ih1 := no_overflow_aux ρ e a v ha (hg a (by simp)) henv.1 hv' hv.1
    have ih2 := no_overflow_list ρ es l vs' hl (fun t ht => hg t (List.mem_cons_of_mem _ ht)) henv.2 hvs hv.2
    simp only [cppEvalList]
    rcases ih1 with h1 | h1
    · rw [h1]
      rcases ih2 with h2 | ⟨h2, h3⟩
      · left; simp [okVals, h2]
      · right; simp [okVals, firstBad, h2, h3]
    · right
      rw [h1]
      simp [okVals, firstBad]
end
end Emboss.Bounds
