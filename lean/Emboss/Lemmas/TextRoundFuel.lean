/-
Helper lemmas for C06: the fuel `updateFromText` grants (twice the text length + 8) covers what
the reader model spends on the writer's output: one unit per value / loop iteration, each of
which is matched by at least one character of the text.
-/
import Emboss.Lemmas.TextRound
namespace Emboss.Text

theorem render_cons_length (p : Piece) (ps : List Piece) :
    (render (p :: ps)).length = p.render.length + (render ps).length := by
  simp [render]

theorem render_append_length (a b : List Piece) :
    (render (a ++ b)).length = (render a).length + (render b).length := by
  simp [render_append]

theorem word_length {w : List Char} (h : ValidWord w) : 1 ≤ w.length := by
  cases w with
  | nil => exact absurd rfl h.1
  | cons _ _ => simp

theorem scalar_length (o : Opts) (s : Scalar) (hs : s.WF) : 1 ≤ (render (writeScalar o s)).length := by
  cases s with
  | int T v =>
    have := word_length (writeInt_validWord T v o.base o.grouping)
    simp only [writeScalar, render_cons_length, Piece.render]; omega
  | bool b =>
    cases b <;> simp [writeScalar, render, Piece.render]
  | float t =>
    have := word_length (show ValidWord t from hs)
    simp only [writeScalar, render_cons_length, Piece.render]; omega
  | enumV n T v =>
    cases n with
    | none =>
      have := word_length (writeInt_validWord T v o.base o.grouping)
      simp only [writeScalar, render_cons_length, Piece.render]; omega
    | some w =>
      have := word_length (hs w rfl)
      simp only [writeScalar, render_cons_length, Piece.render]; omega

mutual
theorem need_val : ∀ (v : TVal) (o : Opts), v.WF → needVal v ≤ (render (writeVal o v)).length
  | .scalar s, o, hv => by
    rw [writeVal, needVal]; exact scalar_length o s hv
  | .arr a vs, o, hv => by
    have hvs : vs.WF := hv
    rw [writeVal, needVal]
    by_cases hml : o.multiline = true
    · have := need_elemsML vs o 0 hvs
      simp only [hml, if_true, render_cons_length, render_append_length, Piece.render, render,
        List.length_cons, List.length_nil, List.length_append]
      omega
    · have := need_elemsSL vs o 0 false hvs
      simp only [(by simpa using hml : o.multiline = false), Bool.false_eq_true, if_false, render_cons_length, render_append_length, Piece.render, render,
        List.length_cons, List.length_nil, List.length_append]
      omega
  | .struct fs, o, hv => by
    have hfs : fs.WF := hv
    have := need_fields fs o false hfs
    rw [writeVal, needVal]
    by_cases hml : o.multiline = true
    · simp only [hml, if_true, render_cons_length, render_append_length, Piece.render, render,
        List.length_cons, List.length_nil, List.length_append]
      omega
    · simp only [(by simpa using hml : o.multiline = false), Bool.false_eq_true, if_false, render_cons_length, render_append_length, Piece.render, render,
        List.length_cons, List.length_nil, List.length_append]
      omega

theorem need_elemsSL : ∀ (vs : TVals) (o : Opts) (i : Nat) (skipped : Bool), vs.WF →
    needElems vs ≤ (render (writeElemsSL o i skipped vs)).length + 1
  | .nil, o, i, skipped, _ => by simp [needElems, writeElemsSL, render]
  | .cons v vs, o, i, skipped, hvs => by
    obtain ⟨hv, hvs'⟩ : v.WF ∧ vs.WF := hvs
    have h1 := need_val v o.plusOne hv
    have h2 := need_elemsSL vs o (i + 1) false hvs'
    rw [writeElemsSL, needElems]
    simp only [render_cons_length, render_append_length, Piece.render, List.length_cons,
      List.length_nil]
    omega
  | .skip vs, o, i, skipped, hvs => by
    have h2 := need_elemsSL vs o (i + 1) true (show vs.WF from hvs)
    rw [writeElemsSL, needElems]
    simp only [render_append_length]
    omega

theorem need_elemsML : ∀ (vs : TVals) (o : Opts) (i : Nat), vs.WF →
    needElems vs ≤ (render (writeElemsML o i vs)).length + 1
  | .nil, o, i, _ => by simp [needElems, writeElemsML, render]
  | .cons v vs, o, i, hvs => by
    obtain ⟨hv, hvs'⟩ : v.WF ∧ vs.WF := hvs
    have h1 := need_val v o.plusOne hv
    have h2 := need_elemsML vs o (i + 1) hvs'
    rw [writeElemsML, needElems]
    simp only [render_cons_length, render_append_length, Piece.render, List.length_cons]
    omega
  | .skip vs, o, i, hvs => by
    have h2 := need_elemsML vs o (i + 1) (show vs.WF from hvs)
    rw [writeElemsML, needElems]
    simp only [render_append_length]
    omega

theorem need_fields : ∀ (fs : TFields) (o : Opts) (wrote : Bool), fs.WF →
    needFields fs ≤ (render (writeFields o wrote fs)).length + 1
  | .nil, o, wrote, _ => by simp [needFields, writeFields, render]
  | .cons name false v fs, o, wrote, hfs => by
    obtain ⟨_, _, hv, hfs'⟩ : ValidWord name ∧ _ ∧ v.WF ∧ fs.WF := hfs
    have h1 := need_val v o.plusOne hv
    have h2 := need_fields fs o true hfs'
    rw [writeFields, needFields]
    simp only [render_cons_length, render_append_length, Piece.render, List.length_cons]
    omega
  | .cons name true v fs, o, wrote, hfs => by
    obtain ⟨_, _, _, hfs'⟩ : ValidWord name ∧ _ ∧ v.WF ∧ fs.WF := hfs
    have h2 := need_fields fs o wrote hfs'
    rw [writeFields, needFields]
    simp only [render_append_length]
    omega
  | .skip name fs, o, wrote, hfs => by
    obtain ⟨_, hfs'⟩ : ValidWord name ∧ fs.WF := hfs
    have h2 := need_fields fs o wrote hfs'
    rw [writeFields, needFields]
    simp only [render_append_length]
    omega
end

/-- The reader model applied to the writer model's text. -/
theorem updateFromText_writeToString (o : Opts) (v : TVal) (s : RShape) (ho : o.Rereadable)
    (hv : v.WF) (hm : Matches s v) (hml : noMultilineArray o v) :
    ∃ rest, updateFromText s (writeToString o v) = .ok (writesVal [] v) rest ∧
      discardWs false rest = [] := by
  have hws := (wellSep_val v o ho hv).1
  have hat : At (render (writeVal o v)) .other (writeVal o v ++ []) := by
    simpa using At.start hws (by decide)
  have hfuel : needVal v ≤ 2 * (writeToString o v).length + 8 := by
    have := need_val v o hv
    simp only [writeToString]; omega
  obtain ⟨r', hr', hat'⟩ := read_val v s o [] _ _ .other [] ho hv hm hml hfuel hat
  refine ⟨r', hr', ?_⟩
  have := hat'.sees
  rw [this]
  cases lastKind Kind.other (writeVal o v) <;> rfl

end Emboss.Text
