/-
More clash classes of the generated identifiers, for every structure / scope of the shape
(round 3): a parameter named like a data member of the view class, a structure named `Storage`
or `ValueType`, an enum nested in a structure of the same name, a structure and an enum of one
name in one C++ namespace (two modules of one `(cpp) namespace`).
-/
import Emboss.Lemmas.Names
namespace Emboss.Names

theorem param_member_mem (st : Struct) (p : Name) (hp : p ∈ st.params) :
    ({ ident := p ++ s "_", what := "parameter member" } : Decl) ∈ scopeParams st := by
  unfold scopeParams
  refine List.mem_flatMap.mpr ⟨p, hp, ?_⟩
  simp

/-- A parameter `<p>` whose data member `<p>_` is named like a member of every view class
(`backing` → `backing_`, `parameters_initialized` → `parameters_initialized_`). -/
theorem param_named_like_member (st : Struct) (p : Name) (hp : p ∈ st.params)
    (hm : p ++ s "_" ∈ fixedMembers st) : clean (classScope st) = false := by
  rw [classScope_eq, List.append_assoc, List.append_assoc]
  refine not_clean_of_split _ _ { ident := p ++ s "_", what := "fixed member" }
    { ident := p ++ s "_", what := "parameter member" } ?_ ?_ (incompatible_of_ident _ _ rfl rfl)
  · exact List.mem_map.mpr ⟨_, hm, rfl⟩
  · exact List.mem_append_left _ (param_member_mem st p hp)

/-- A structure named `Storage`: `Storage::…` inside the view class names the template parameter. -/
theorem struct_named_storage (st : Struct) (h : st.name = s "Storage") : clean (typeRefScope st) = false := by
  unfold typeRefScope
  rw [h]
  exact not_clean_of_mem _ { ident := s "Storage", what := "own namespace reference" }
    { ident := s "Storage", what := "captures reference" } (by simp) (by simp) (by simp)
    (incompatible_of_ident _ _ rfl rfl)

/-- A structure named `ValueType`: `ValueType::…` inside the nested view class of a virtual field
names that class's `using ValueType = …;`. -/
theorem struct_named_valuetype (st : Struct) (h : st.name = s "ValueType") : clean (nestedRefScope st) = false := by
  unfold nestedRefScope
  rw [h]
  exact not_clean_of_mem _ { ident := s "ValueType", what := "own namespace reference" }
    { ident := s "ValueType", what := "captures reference" } (by simp) (by simp) (by simp)
    (incompatible_of_ident _ _ rfl rfl)

/-- An enum nested in a structure and named like the structure. -/
theorem nested_enum_named_like_struct (st : Struct) (h : st.name ∈ st.nestedEnums) :
    clean (typeRefScope st) = false := by
  unfold typeRefScope
  refine not_clean_of_split _ _ { ident := st.name, what := "own namespace reference" }
    { ident := st.name, what := "using <enum>" } (by simp) ?_ (incompatible_of_ident _ _ rfl rfl)
  exact List.mem_map.mpr ⟨_, h, rfl⟩

/-- A structure and an enum of one name in one C++ namespace scope (possible only across
modules: the front end rejects it inside one module). -/
theorem struct_and_enum_of_one_name (sc : Scope) (n : Name) (hs : n ∈ sc.structs) (he : n ∈ sc.enums) :
    clean (namespaceScope sc) = false := by
  obtain ⟨i, hS⟩ := structDecl_mem sc n hs
  have hE := enumDecl_mem sc n he { ident := n, what := "enum" } (by simp [enumDecls])
  refine not_clean_of_mem _ { ident := n, group := some (1000 + i), what := "namespace" } { ident := n, what := "enum" }
    (hS _ (by simp [structDecls])) hE (by simp) (incompatible_of_ident' _ _ rfl rfl)

end Emboss.Names
