/-
C16 (round 2) — lemmas about `_find_in_dirs_and_read`, the executables, and locations.
-/
import Emboss.Spec.PipelineDriver
import Emboss.Lemmas.PipelineFormat
namespace Emboss.Pipeline

def Probe.isText : Probe → Bool
  | .text _ => true
  | _ => false

theorem findLoop_spec (allDirs : List Text) :
    ∀ (ps : List (Text × Probe)) (errs : List Text),
      (∀ p ∈ ps, ∀ n, p.2 ≠ .otherError n) →
      (∃ t pre d post, findLoop allDirs ps errs = .found t ∧ ps = pre ++ (d, .text t) :: post ∧
          ∀ q ∈ pre, q.2.isText = false) ∨
      (∃ es, findLoop allDirs ps errs = .notFound es ∧ es.length = errs.length + ps.length + 1 ∧
          ∀ q ∈ ps, q.2.isText = false) := by
  intro ps
  induction ps with
  | nil =>
    intro errs _
    exact Or.inr ⟨_, rfl, by simp, by simp⟩
  | cons p rest ih =>
    intro errs h
    obtain ⟨d, pr⟩ := p
    have hrest : ∀ p ∈ rest, ∀ n, p.2 ≠ .otherError n := fun q hq => h q (List.mem_cons_of_mem _ hq)
    cases pr with
    | text t => exact Or.inl ⟨t, [], d, rest, rfl, rfl, by simp⟩
    | otherError n => exact absurd rfl (h (d, .otherError n) (by simp) n)
    | osError m =>
      rcases ih (errs ++ [m]) hrest with ⟨t, pre, d', post, h1, h2, h3⟩ | ⟨es, h1, h2, h3⟩
      · refine Or.inl ⟨t, (d, .osError m) :: pre, d', post, by simpa [findLoop] using h1, by simp [h2], ?_⟩
        intro q hq
        rcases List.mem_cons.mp hq with rfl | hq
        · rfl
        · exact h3 q hq
      · refine Or.inr ⟨es, by simpa [findLoop] using h1, by simp [h2]; omega, ?_⟩
        intro q hq
        rcases List.mem_cons.mp hq with rfl | hq
        · rfl
        · exact h3 q hq
    | unicodeError m =>
      rcases ih (errs ++ [m]) hrest with ⟨t, pre, d', post, h1, h2, h3⟩ | ⟨es, h1, h2, h3⟩
      · refine Or.inl ⟨t, (d, .unicodeError m) :: pre, d', post, by simpa [findLoop] using h1, by simp [h2], ?_⟩
        intro q hq
        rcases List.mem_cons.mp hq with rfl | hq
        · rfl
        · exact h3 q hq
      · refine Or.inr ⟨es, by simpa [findLoop] using h1, by simp [h2]; omega, ?_⟩
        intro q hq
        rcases List.mem_cons.mp hq with rfl | hq
        · rfl
        · exact h3 q hq
    | valueError m =>
      rcases ih (errs ++ [m]) hrest with ⟨t, pre, d', post, h1, h2, h3⟩ | ⟨es, h1, h2, h3⟩
      · refine Or.inl ⟨t, (d, .valueError m) :: pre, d', post, by simpa [findLoop] using h1, by simp [h2], ?_⟩
        intro q hq
        rcases List.mem_cons.mp hq with rfl | hq
        · rfl
        · exact h3 q hq
      · refine Or.inr ⟨es, by simpa [findLoop] using h1, by simp [h2]; omega, ?_⟩
        intro q hq
        rcases List.mem_cons.mp hq with rfl | hq
        · rfl
        · exact h3 q hq

theorem showErrors_ok (es : Errors) (sources : List (String × Text)) (color : Bool)
    (h : ∀ g ∈ es, g ≠ []) : ∃ t, showErrors es sources color = .ok t := by
  obtain ⟨r, hr⟩ := formatGroups_ok color sources es h
  exact ⟨joinLines r ++ ['\n'], by simp [showErrors, formatErrors, hr]⟩

theorem processLoop_no_fuel {σ : Type} (stop : Option String) :
    ∀ (ps : List (Pass σ)) (s : σ) (deferred : Errors),
      processLoop stop ps s deferred ≠ .outOfFuel := by
  intro ps
  induction ps with
  | nil =>
    intro s deferred h
    simp only [processLoop] at h
    split at h
    · cases h
    · split at h <;> cases h
  | cons p ps ih =>
    intro s deferred h
    simp only [processLoop] at h
    split at h
    · cases h
    · split at h
      · cases h
      · exact ih _ _ h

/-! ### locations -/

theorem produced_inFile (lines : List Text) (l : Loc) (h : Produced lines l) : InFile l lines := by
  induction h with
  | tok ln off len line h1 h2 h3 =>
    refine ⟨Or.inl ⟨line, h1, h2, by simp [tokLoc], by simp [tokLoc]; omega⟩,
            Or.inl ⟨line, h1, h2, by simp [tokLoc], by simp [tokLoc]; omega⟩, ?_⟩
    simp [tokLoc, posLe]
  | eof =>
    exact ⟨Or.inr ⟨rfl, rfl⟩, Or.inr ⟨rfl, rfl⟩, by simp [eofLoc, posLe]⟩
  | merge a b syn _ _ hle iha ihb =>
    exact ⟨iha.1, ihb.2.1, hle⟩

theorem mem_of_head? {α} {l : List α} {a : α} (h : l.head? = some a) : a ∈ l := by
  cases l with
  | nil => simp at h
  | cons x xs => simp at h; simp [h]

theorem mergeLocs_produced (lines : List Text) (ls : List Loc) (l : Loc)
    (hall : ∀ x ∈ ls, x.sl ≠ 0 → Produced lines x) (h : mergeLocs ls = .ok (some l)) :
    Produced lines l := by
  unfold mergeLocs at h
  simp only at h
  split at h
  · rename_i a b ha hb
    split at h
    · rename_i hle
      have hma := List.mem_filter.mp (mem_of_head? ha)
      have hmb := List.mem_filter.mp (List.mem_of_getLast? hb)
      simp only [Except.ok.injEq, Option.some.injEq] at h
      subst h
      exact Produced.merge a b _ (hall a hma.1 (by simpa using hma.2))
        (hall b hmb.1 (by simpa using hmb.2)) hle
    · cases h
  · cases h

/-- The zero-width location at either endpoint of a produced location is produced. -/
theorem produced_endpoint (lines : List Text) (a : Loc) (h : Produced lines a) (e : End) :
    Produced lines ⟨(a.pos e).1, (a.pos e).2, (a.pos e).1, (a.pos e).2, false⟩ := by
  induction h with
  | tok ln off len line h1 h2 h3 =>
    cases e with
    | start => exact Produced.tok ln off 0 line h1 h2 (by omega)
    | stop =>
      have := Produced.tok (lines := lines) ln (off + len) 0 line h1 h2 (by omega)
      simpa [tokLoc, Loc.pos] using this
  | eof => cases e <;> exact Produced.eof
  | merge a b syn _ _ _ iha ihb =>
    cases e with
    | start => exact iha
    | stop => exact ihb

theorem spanLoc_produced (lines : List Text) (a b : Loc) (ea eb : End) (l : Loc)
    (ha : Produced lines a) (hb : Produced lines b) (h : spanLoc a ea b eb = .ok l) :
    Produced lines l := by
  unfold spanLoc mkLoc at h
  split at h
  · rename_i hc
    simp only [Bool.and_eq_true] at hc
    simp only [Except.ok.injEq] at h
    subst h
    exact Produced.merge _ _ false (produced_endpoint lines a ha ea) (produced_endpoint lines b hb eb) hc.1
  · cases h

theorem produced_line_pos (lines : List Text) (a : Loc) (h : Produced lines a) :
    a.sl ≠ 0 ∧ a.el ≠ 0 := by
  obtain ⟨hs, he, _⟩ := produced_inFile lines a h
  constructor
  · rcases hs with ⟨_, h1, _⟩ | ⟨h1, _⟩ <;> omega
  · rcases he with ⟨_, h1, _⟩ | ⟨h1, _⟩ <;> omega

end Emboss.Pipeline
