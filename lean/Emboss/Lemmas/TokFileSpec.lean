/-
C10, file level: a `FileCover` is what the line loop of `tokenize` computes (completeness;
soundness is `tokLines_cover`).
-/
import Emboss.Lemmas.TokLineSpec
import Emboss.Spec.TokFail
namespace Emboss.Tok
open Emboss.Regex

theorem dedentTo_complete (lw : List Char) :
    ∀ (pp : List (List Char)) (below' : List (List Char)) (k : Nat), lw ∉ pp →
      dedentTo lw (pp ++ lw :: below') k = some (k + pp.length, ⟨lw, below'⟩) := by
  intro pp
  induction pp with
  | nil => intro below' k _; simp [dedentTo]
  | cons t pp ih =>
    intro below' k hn
    simp only [List.mem_cons, not_or] at hn
    simp only [List.cons_append, dedentTo]
    rw [if_neg hn.1, ih below' (k + 1) hn.2]
    simp only [List.length_cons, Option.some.injEq, Prod.mk.injEq, and_true]
    omega

/-- The indentation step of the specification is the one `lineStep` takes. -/
theorem IndentStep.lineStep_eq {pats : List Pat} {ln : Nat} {line : List Char} {segs : List Seg}
    {st st' : IStack} {synth : List Token} (hc : Covers pats ln line 0 segs)
    (hi : IndentStep ln line (tokensOf segs) st synth st') :
    lineStep pats ln line st = .ok (synth ++ tokensOf segs ++ [newlineTok ln line.length]) st' := by
  have hl := hc.tokLine_eq line.length (Nat.le_refl _)
  unfold lineStep
  rw [hl]
  simp only
  cases hi with
  | blank hb =>
    have hb' : (tokensOf segs).all (fun t => t.sym == "Comment") = true := hb
    simp [hb']
  | same hb heq =>
    have hb' : (tokensOf segs).all (fun t => t.sym == "Comment") = false := hb
    simp [hb', heq]
  | indent hb hne hpre =>
    have hb' : (tokensOf segs).all (fun t => t.sym == "Comment") = false := hb
    have hp : st.top.isPrefixOf (leadingWs line) = true := List.isPrefixOf_iff_prefix.mpr hpre
    simp [hb', hne, hp]
  | dedent popped hb hne hpre heq htop hnot =>
    have hb' : (tokensOf segs).all (fun t => t.sym == "Comment") = false := hb
    have hp : st.top.isPrefixOf (leadingWs line) = false := by
      cases h : st.top.isPrefixOf (leadingWs line) with
      | false => rfl
      | true => exact absurd (List.isPrefixOf_iff_prefix.mp h) hpre
    cases popped with
    | nil =>
      simp only [List.nil_append, List.cons.injEq] at heq
      exact absurd (by rw [← htop, ← heq.1]) hne
    | cons t pp =>
      simp only [List.cons_append, List.cons.injEq] at heq
      have hd := dedentTo_complete (leadingWs line) pp st'.below 1
        (fun h => hnot (List.mem_cons_of_mem _ h))
      rw [← htop, ← heq.2] at hd
      obtain ⟨top', below'⟩ := st'
      simp only at htop hd
      subst htop
      simp only [hb', hne, hp, Bool.false_eq_true, if_false, List.length_cons]
      rw [hd]
      simp [Nat.add_comm]

/-- A `FileCover` is what `tokLines` returns. -/
theorem FileCover.tokLines_eq {pats : List Pat} {lines : List (List Char)} {ln : Nat} {st : IStack}
    {toks : List Token} (h : FileCover pats lines ln st toks) : tokLines pats lines ln st = .ok toks := by
  induction h with
  | done => rfl
  | line hc hi _ ih => simp only [tokLines, hi.lineStep_eq hc, ih, TokRes.prepend]

theorem dedentTo_none (lw : List Char) : ∀ (below : List (List Char)) (k : Nat),
    dedentTo lw below k = none ↔ lw ∉ below := by
  intro below
  induction below with
  | nil => intro k; simp [dedentTo]
  | cons t below ih =>
    intro k
    simp only [dedentTo, List.mem_cons, not_or]
    by_cases h : lw = t
    · simp [h]
    · simp [h, ih]

/-- A declared failure is the error the line loop reports. -/
theorem FileFails.tokLines_eq {pats : List Pat} {lines : List (List Char)} {ln : Nat} {st : IStack}
    {msg : String} {a b c d : Nat} (h : FileFails pats lines ln st msg a b c d) :
    tokLines pats lines ln st = .err msg a b c d := by
  induction h with
  | @stuck line rest ln st k hs =>
    have := hs.tokLine_eq ln line.length (Nat.le_refl _)
    simp only [tokLines, lineStep, this]
  | @indent line rest ln st segs hc hb hne hpre hnot =>
    have hl := hc.tokLine_eq line.length (Nat.le_refl _)
    have hb' : (tokensOf segs).all (fun t => t.sym == "Comment") = false := hb
    have hp : st.top.isPrefixOf (leadingWs line) = false := by
      cases h : st.top.isPrefixOf (leadingWs line) with
      | false => rfl
      | true => exact absurd (List.isPrefixOf_iff_prefix.mp h) hpre
    have hd := (dedentTo_none (leadingWs line) st.below 1).mpr hnot
    simp only [tokLines, lineStep, hl, hb', hne, hp, hd, Bool.false_eq_true, if_false]
  | later hc hi _ ih => simp only [tokLines, hi.lineStep_eq hc, ih, TokRes.prepend]

/-- … and every error of the line loop is a declared failure. -/
theorem tokLines_err_fails (pats : List Pat) :
    ∀ lines ln st msg a b c d, tokLines pats lines ln st = .err msg a b c d →
      FileFails pats lines ln st msg a b c d := by
  intro lines
  induction lines with
  | nil => intro ln st msg a b c d h; simp [tokLines] at h
  | cons line rest ih =>
    intro ln st msg a b c d h
    simp only [tokLines] at h
    split at h
    · cases h
    · rename_i m a' b' c' d' hs
      simp only [TokRes.err.injEq] at h
      obtain ⟨rfl, rfl, rfl, rfl, rfl⟩ := h
      unfold lineStep at hs
      split at hs
      · cases hs
      · rename_i off hl
        simp only [StepRes.err.injEq] at hs
        obtain ⟨rfl, rfl, rfl, rfl, rfl⟩ := hs
        exact .stuck (tokLine_err_stuck _ _ _ _ _ _ hl)
      · rename_i lts hl
        obtain ⟨segs, hc, rfl⟩ := tokLine_covers _ _ _ _ _ _ hl
        simp only at hs
        split at hs
        · cases hs
        · rename_i hb
          have hb' : isBlankLine (tokensOf segs) = false := by simpa [isBlankLine] using hb
          split at hs
          · cases hs
          · rename_i hne
            split at hs
            · cases hs
            · rename_i hpre
              split at hs
              · rename_i hd
                simp only [StepRes.err.injEq] at hs
                obtain ⟨rfl, rfl, rfl, rfl, rfl⟩ := hs
                exact .indent hc hb' hne (by simpa using hpre) ((dedentTo_none _ _ _).mp hd)
              · cases hs
    · rename_i em st' hs
      obtain ⟨segs, synth, hc, hi, rfl⟩ := lineStep_ok hs
      cases hr : tokLines pats rest (ln + 1) st' with
      | fuel => simp [hr, TokRes.prepend] at h
      | ok ts => simp [hr, TokRes.prepend] at h
      | err m a' b' c' d' =>
        simp only [hr, TokRes.prepend, TokRes.err.injEq] at h
        obtain ⟨rfl, rfl, rfl, rfl, rfl⟩ := h
        exact .later hc hi (ih _ _ _ _ _ _ _ hr)

end Emboss.Tok
