/-
C11 helper lemmas, part 18: `fold_equivC` — on trees that differ only in layout-token
texts and in trailing blanks of Documentation and Comment tokens the fold yields related
values at every node, hence the same text at the root.
-/
import Emboss.Lemmas.FmtRelC4
import Emboss.Lemmas.FmtNormal
namespace Emboss.Fmt

theorem CArg.refl_str (x : Str) : CArg (.str x) (.str x) := ⟨x, x, rfl, rfl, CRel.refl x⟩

/-- Values of two `equivC` trees. -/
def Res3 (tbl : Table) : Tree → Fmt → Fmt → Prop
  | .tok s _, v, v' =>
    if isLayoutSym s = true then True
    else if s = docSym then ∃ x x', v = .str x ∧ v' = .str x' ∧ rstrip x = rstrip x'
    else if s = commentSym then CArg v v'
    else ∃ x, v = .str x ∧ v' = .str x
  | .node p cs, v, v' =>
    if isCommentSym (rootSym tbl (.node p cs)) = true then CArg v v' else VRel v v'

def Res3L (tbl : Table) : List Tree → List Fmt → List Fmt → Prop
  | [], [], [] => True
  | t :: ts, v :: vs, v' :: vs' => Res3 tbl t v v' ∧ Res3L tbl ts vs vs'
  | _, _, _ => False

theorem res3L_argsRel (tbl : Table) (h : Handler) (hdoc : (h == Handler.docRstrip) = false) :
    ∀ (cs : List Tree) (args args' : List Fmt) (i : Nat),
      normPos h i (cs.map (rootSym tbl)) = true → commentPosOK h i (cs.map (rootSym tbl)) = true →
      Res3L tbl cs args args' → ArgsRel h i args args' := by
  intro cs
  induction cs with
  | nil =>
    intro args args' i _ _ hr
    cases args <;> cases args' <;> simp [Res3L] at hr
    trivial
  | cons c cs ih =>
    intro args args' i hn hcp hr
    cases args with
    | nil => simp [Res3L] at hr
    | cons a as =>
      cases args' with
      | nil => simp [Res3L] at hr
      | cons a' as' =>
        simp only [Res3L] at hr
        simp only [List.map_cons, normPos, Bool.and_eq_true, Bool.or_eq_true, Bool.not_eq_true',
          List.contains_iff_mem, bne_iff_ne, ne_eq, hdoc, Bool.false_eq_true, or_false] at hn
        simp only [List.map_cons, commentPosOK, Bool.and_eq_true, beq_iff_eq] at hcp
        refine ⟨?_, ih as as' (i + 1) hn.2 hcp.2 hr.2⟩
        unfold ArgRel
        by_cases hd : i ∈ h.dropped
        · simp only [hd, if_true]
        · simp only [hd, if_false]
          have hcm : isCommentSym (rootSym tbl c) = h.commentPos.contains i := hcp.1
          cases c with
          | tok s x =>
            simp only [rootSym] at hn hcm
            have hr1 := hr.1
            simp only [Res3] at hr1
            have hl : isLayoutSym s = false := by
              rcases hn.1.1 with hl | hm
              · exact hl
              · exact absurd hm hd
            simp only [hl, Bool.false_eq_true, if_false, hn.1.2] at hr1
            by_cases hc : i ∈ h.commentPos
            · simp only [hc, if_true]
              split at hr1
              · exact hr1
              · obtain ⟨y, rfl, rfl⟩ := hr1; exact CArg.refl_str y
            · simp only [hc, if_false]
              have hcc : h.commentPos.contains i = false := by simpa using hc
              have hns : s ≠ commentSym := by
                intro hs
                rw [hs, hcc] at hcm
                simp [isCommentSym] at hcm
              simp only [hns, if_false] at hr1
              obtain ⟨y, rfl, rfl⟩ := hr1
              exact rfl
          | node p cs0 =>
            have hr1 := hr.1
            simp only [Res3, hcm] at hr1
            by_cases hc : i ∈ h.commentPos
            · have hcc : h.commentPos.contains i = true := by simpa using hc
              simpa only [hc, hcc, if_true] using hr1
            · have hcc : h.commentPos.contains i = false := by simpa using hc
              simpa only [hc, hcc, Bool.false_eq_true, if_false] using hr1

theorem equivCL_nil_left {cs' : List Tree} (h : equivCL [] cs' = true) : cs' = [] := by
  cases cs' with
  | nil => rfl
  | cons _ _ => simp [equivCL] at h

mutual
  theorem fold_equivC (tbl : Table) (iw : Nat) (ht : tableTyped tbl = true) (hn : tableNormal tbl = true)
      (hcm : tableComment tbl = true) :
      ∀ (t t' : Tree), wf tbl t = true → equivC t t' = true →
        ∀ v, fold tbl iw t = some v → ∃ v', fold tbl iw t' = some v' ∧ Res3 tbl t v v'
    | .tok s x, .tok s' x', _, he, v, hv => by
      simp only [equivC, Bool.and_eq_true, beq_iff_eq] at he
      obtain ⟨rfl, hte⟩ := he
      simp only [fold, Option.some.injEq] at hv
      subst hv
      refine ⟨.str x', rfl, ?_⟩
      simp only [Res3]
      simp only [tokEquivC, Bool.or_eq_true] at hte
      split
      · trivial
      · rename_i hl
        rcases hte with hte | hte
        · exact absurd hte hl
        · split
          · rename_i hd
            simp only [hd, beq_self_eq_true, if_true, beq_iff_eq] at hte
            exact ⟨x, x', rfl, rfl, hte⟩
          · rename_i hd
            have hd' : (s == docSym) = false := by simpa using hd
            simp only [hd', Bool.false_eq_true, if_false] at hte
            split
            · rename_i hc
              simp only [hc, beq_self_eq_true, if_true, Bool.and_eq_true, beq_iff_eq] at hte
              refine ⟨x, x', rfl, rfl, hte.1, ?_⟩
              have := hte.2
              cases x <;> cases x' <;> simp_all
            · rename_i hc
              have hc' : (s == commentSym) = false := by simpa using hc
              simp only [hc', Bool.false_eq_true, if_false, beq_iff_eq] at hte
              exact ⟨x, rfl, by rw [hte]⟩
    | .tok _ _, .node _ _, _, he, _, _ => by simp [equivC] at he
    | .node _ _, .tok _ _, _, he, _, _ => by simp [equivC] at he
    | .node p cs, .node p' cs', hw, he, v, hv => by
      simp only [equivC, Bool.and_eq_true, beq_iff_eq] at he
      obtain ⟨rfl, hel⟩ := he
      simp only [wf] at hw
      split at hw
      · cases hw
      · rename_i e he
        simp only [Bool.and_eq_true, beq_iff_eq] at hw
        obtain ⟨⟨hrhs, hwl⟩, hdoc⟩ := hw
        obtain ⟨hce, _, _⟩ := tableTyped_entry ht he
        have hno : normOK e = true := by
          simp only [tableNormal, List.all_eq_true] at hn
          exact hn e (List.mem_of_getElem? he)
        have hco : commentOK e = true := by
          simp only [tableComment, List.all_eq_true] at hcm
          exact hcm e (List.mem_of_getElem? he)
        obtain ⟨args, hargs, hkinds, _⟩ := foldList_ok tbl iw ht cs hwl
        obtain ⟨args', hargs', hres⟩ := foldList_equivC tbl iw ht hn hcm cs cs' hwl hel args hargs
        cases hres' : resolve e with
        | none => simp [hres'] at hdoc
        | some h =>
          have hfold : fold tbl iw (.node p cs) = h.run iw args := by
            simp only [fold, he, hres', hargs]
          have hfold' : fold tbl iw (.node p cs') = h.run iw args' := by
            simp only [fold, he, hres', hargs']
          have hroot : rootSym tbl (.node p cs) = e.1 := by simp only [rootSym, he]
          have hkinds' : HasKinds args (e.2.1.map kindOf) := by
            rw [← hrhs, List.map_map]; exact hkinds
          simp only [normOK, normCore, hres'] at hno
          simp only [commentOK, commentCore, hres'] at hco
          rw [← hrhs] at hno
          rw [hfold] at hv
          rw [hfold']
          simp only [Res3, hroot]
          by_cases hel' : h = .emptyList
          · subst hel'
            simp only [checkEntry, checkCore, hres', Bool.and_eq_true, List.isEmpty_iff] at hce
            have hcs : cs = [] := map_eq_nil_of (hrhs.trans (map_eq_nil_of hce.1))
            subst hcs
            cases equivCL_nil_left hel
            simp only [foldList, Option.some.injEq] at hargs hargs'
            subst hargs; subst hargs'
            simp only [Handler.run, hEmptyList, Option.some.injEq] at hv
            subst hv
            simp only [Bool.and_eq_true, Bool.not_eq_true'] at hco
            exact ⟨.nil, rfl, by simp only [hco.2, Bool.false_eq_true, if_false]; trivial⟩
          · have hce' : ∃ k, h.sig (e.2.1.map kindOf) = some k := by
              simp only [checkEntry, checkCore, hres'] at hce
              cases h <;> first | exact absurd rfl hel' | (
                split at hce
                · rename_i k hk; exact ⟨k, hk⟩
                · cases hce)
            obtain ⟨k, hsig⟩ := hce'
            by_cases hid : h = .identity
            · subst hid
              simp only [Handler.sig] at hsig
              -- one argument, handed through
              cases hks : e.2.1.map kindOf with
              | nil => simp [hks] at hsig
              | cons k0 ks0 =>
                cases ks0 with
                | cons _ _ => simp [hks] at hsig
                | nil =>
                  rw [hks] at hkinds'
                  obtain ⟨a, _, rfl, _, hk⟩ := hasKinds_cons hkinds'
                  cases hasKinds_nil hk
                  cases cs with
                  | nil => simp [Res3L] at hres
                  | cons c cs1 =>
                    cases args' with
                    | nil => simp [Res3L] at hres
                    | cons a' as' =>
                      simp only [Res3L] at hres
                      cases cs1 with
                      | cons _ _ => cases as' <;> simp [Res3L] at hres
                      | nil =>
                        cases as' with
                        | cons _ _ => simp [Res3L] at hres
                        | nil =>
                          simp only [Handler.run, hIdentity, Option.some.injEq] at hv ⊢
                          subst hv
                          refine ⟨a', rfl, ?_⟩
                          have hs1 : e.2.1 = [rootSym tbl c] := by rw [← hrhs]; rfl
                          rw [hs1] at hco
                          simp only [beq_iff_eq] at hco
                          simp only [List.map_cons, List.map_nil, normPos, Handler.dropped, List.contains_nil,
                            Bool.or_false, Bool.and_eq_true, Bool.not_eq_true', Bool.and_true,
                            Bool.or_eq_true, bne_iff_ne, ne_eq] at hno
                          have hr1 := hres.1
                          rw [← hco]
                          cases c with
                          | node q cs0 => exact hr1
                          | tok s x =>
                            simp only [rootSym] at hno hco ⊢
                            simp only [Res3, hno.1] at hr1
                            have hnd : s ≠ docSym := by
                              rcases hno.2 with h1 | h1
                              · exact h1
                              · simp at h1
                            simp only [Bool.false_eq_true, if_false, hnd] at hr1
                            split at hr1
                            · rename_i hc
                              simp only [hc, isCommentSym, beq_self_eq_true, Bool.true_or, if_true]
                              exact hr1
                            · obtain ⟨y, rfl, rfl⟩ := hr1
                              by_cases hcs : isCommentSym s = true
                              · simp only [hcs, if_true]; exact CArg.refl_str y
                              · simp only [hcs, Bool.false_eq_true, if_false]; exact rfl
            · by_cases hes : h = .emptyString
              · subst hes
                simp only [Handler.sig] at hsig
                obtain ⟨hks, _⟩ := ite_some_eq hsig
                rw [hks] at hkinds'
                cases hasKinds_nil hkinds'
                cases cs with
                | cons _ _ => cases args' <;> simp [Res3L] at hres
                | nil =>
                  cases args' with
                  | cons _ _ => simp [Res3L] at hres
                  | nil =>
                    simp only [Handler.run, hEmptyString, Option.some.injEq] at hv ⊢
                    subst hv
                    refine ⟨_, rfl, ?_⟩
                    split
                    · exact CArg.refl_str []
                    · exact rfl
              · have hco' : commentPosOK h 0 e.2.1 = true ∧ isCommentSym e.1 = false := by
                  cases h <;> first | exact absurd rfl hid | exact absurd rfl hes |
                    (simp only [Bool.and_eq_true, Bool.not_eq_true'] at hco; exact hco)
                simp only [hco'.2, Bool.false_eq_true, if_false]
                cases hdr : (h == Handler.docRstrip) with
                | false =>
                  have hra := res3L_argsRel tbl h hdr cs args args' 0 hno (by rw [hrhs]; exact hco'.1) hres
                  exact run_rel iw h args args' _ k hid hra hkinds' hsig hv
                | true =>
                  have hh : h = .docRstrip := by simpa using hdr
                  subst hh
                  simp only [Handler.sig] at hsig
                  obtain ⟨hks, _⟩ := ite_some_eq hsig
                  rw [hks] at hkinds'
                  obtain ⟨a, _, rfl, hka, hk⟩ := hasKinds_cons hkinds'
                  cases hasKinds_nil hk
                  cases cs with
                  | nil => simp [Res3L] at hres
                  | cons c cs1 =>
                    cases args' with
                    | nil => simp [Res3L] at hres
                    | cons a' as' =>
                      simp only [Res3L] at hres
                      cases cs1 with
                      | cons _ _ => cases as' <;> simp [Res3L] at hres
                      | nil =>
                        cases as' with
                        | cons _ _ => simp [Res3L] at hres
                        | nil =>
                          have hs1 : e.2.1 = [rootSym tbl c] := by rw [← hrhs]; rfl
                          have hcp := hco'.1
                          rw [hs1] at hcp
                          simp only [commentPosOK, Handler.commentPos, List.contains_nil, Bool.and_true,
                            beq_iff_eq] at hcp
                          simp only [List.map_cons, List.map_nil, normPos, Handler.dropped, List.contains_nil,
                            Bool.or_false, Bool.and_eq_true, Bool.not_eq_true', Bool.and_true] at hno
                          obtain ⟨sa, rfl⟩ := hka
                          have hr1 := hres.1
                          cases c with
                          | node q cs0 =>
                            simp only [Res3, hcp, Bool.false_eq_true, if_false] at hr1
                            cases a' <;> simp only [VRel] at hr1
                            subst hr1
                            exact ⟨v, hv, by
                              simp only [Handler.run, hDocRstrip, asStr, Option.pure_def, Option.bind_eq_bind,
                                Option.bind_some, Option.some.injEq] at hv
                              subst hv; exact rfl⟩
                          | tok s x =>
                            simp only [rootSym] at hno hcp
                            simp only [Res3, hno.1, Bool.false_eq_true, if_false] at hr1
                            simp only [Handler.run, hDocRstrip, asStr, Option.pure_def, Option.bind_eq_bind,
                              Option.bind_some, Option.some.injEq] at hv
                            subst hv
                            split at hr1
                            · obtain ⟨y, y', hy, rfl, hyy⟩ := hr1
                              cases hy
                              refine ⟨.str (rstrip y'), rfl, ?_⟩
                              show rstrip _ = rstrip y'
                              exact hyy
                            · have hns : s ≠ commentSym := by
                                intro hs; rw [hs] at hcp; simp [isCommentSym] at hcp
                              simp only [hns, if_false] at hr1
                              obtain ⟨y, hy, rfl⟩ := hr1
                              cases hy
                              exact ⟨_, rfl, rfl⟩
  theorem foldList_equivC (tbl : Table) (iw : Nat) (ht : tableTyped tbl = true) (hn : tableNormal tbl = true)
      (hcm : tableComment tbl = true) :
      ∀ (ts ts' : List Tree), wfList tbl ts = true → equivCL ts ts' = true →
        ∀ vs, foldList tbl iw ts = some vs → ∃ vs', foldList tbl iw ts' = some vs' ∧ Res3L tbl ts vs vs'
    | [], [], _, _, vs, hvs => by
      simp only [foldList, Option.some.injEq] at hvs
      subst hvs
      exact ⟨[], rfl, trivial⟩
    | [], _ :: _, _, he, _, _ => by simp [equivCL] at he
    | _ :: _, [], _, he, _, _ => by simp [equivCL] at he
    | t :: ts, t' :: ts', hw, he, vs, hvs => by
      simp only [wfList, Bool.and_eq_true] at hw
      simp only [equivCL, Bool.and_eq_true] at he
      simp only [foldList] at hvs
      split at hvs
      · cases hvs
      · rename_i v hv
        split at hvs
        · cases hvs
        · rename_i vr hvr
          cases hvs
          obtain ⟨v', hv', hr⟩ := fold_equivC tbl iw ht hn hcm t t' hw.1 he.1 v hv
          obtain ⟨vr', hvr', hrr⟩ := foldList_equivC tbl iw ht hn hcm ts ts' hw.2 he.2 vr hvr
          exact ⟨v' :: vr', by simp only [foldList, hv', hvr'], hr, hrr⟩
end

end Emboss.Fmt
