/-
The bounds analysis and `ir_util.constant_value` never raise on a well-typed expression
(`tyOf`, Model/ExprType.lean), comparisons, `&&`, `||`, `?:` on arbitrary conditions
included; the annotation has the expression's type and satisfies the invariant.
-/
import Emboss.Model.ExprType
import Emboss.Lemmas.BoundsTotal
namespace Emboss.Bounds
open ExtInt

theorem applyBin_typed {op : BinOp} {x y : CVal} {τ : Ty} (h : binTy op x.tag y.tag = some τ) :
    ∃ v, applyBin op x y = some v ∧ v.tag = τ := by
  cases op <;> cases x <;> cases y <;> simp [binTy, CVal.tag] at h <;> subst h <;>
    exact ⟨_, rfl, rfl⟩

/-- what is known about a `constant_value` result of an expression of type `τ` -/
def CVOk (c : CV) (τ : Ty) : Prop := c ≠ .crash ∧ ∀ x, c = .val x → x.tag = τ

theorem CVOk_unknown (τ : Ty) : CVOk .unknown τ := ⟨by simp, by simp⟩

theorem cvBin_typed {op : BinOp} {cl cr : CV} {a b τ : Ty} (hl : CVOk cl a) (hr : CVOk cr b)
    (h : binTy op a b = some τ) : CVOk (cvBin op cl cr) τ := by
  have hτ : (op = .and ∨ op = .or) → τ = .bool := by
    rintro (rfl | rfl) <;> cases a <;> cases b <;> simp [binTy] at h <;> exact h.symm
  have table : CVOk (cvTable op cl cr) τ := by
    unfold cvTable
    split
    · rename_i x y
      have hx := hl.2 x rfl
      have hy := hr.2 y rfl
      rw [← hx, ← hy] at h
      obtain ⟨v, hv, hvt⟩ := applyBin_typed h
      simp only [hv]
      exact ⟨by simp, by intro z hz; cases hz; exact hvt⟩
    · exact CVOk_unknown τ
  have hbool : ∀ c : CV, (c = .val (.bool true) ∨ c = .val (.bool false) ∨ c = .unknown) →
      CVOk c .bool := by
    rintro c (rfl | rfl | rfl)
    · exact ⟨by simp, by intro z hz; cases hz; rfl⟩
    · exact ⟨by simp, by intro z hz; cases hz; rfl⟩
    · exact CVOk_unknown _
  unfold cvBin
  rw [if_neg (by simp [hl.1, hr.1])]
  cases op
  case and =>
    rw [hτ (Or.inl rfl)]
    apply hbool
    simp only [cvAnd]
    split
    · right; left; rfl
    · split
      · right; right; rfl
      · left; rfl
  case or =>
    rw [hτ (Or.inr rfl)]
    apply hbool
    simp only [cvOr]
    split
    · left; rfl
    · split
      · right; right; rfl
      · right; left; rfl
  all_goals exact table

theorem absCmp_typed {op : BinOp} {cl cr : CV} {a b : Ty} (hl : CVOk cl a) (hr : CVOk cr b)
    (h : binTy op a b = some .bool) : ∃ ob, absCmp op cl cr = some (.bool ob) := by
  unfold absCmp
  cases cl with
  | crash => exact absurd rfl hl.1
  | unknown => exact ⟨_, rfl⟩
  | val x =>
    cases cr with
    | crash => exact absurd rfl hr.1
    | unknown => exact ⟨_, rfl⟩
    | val y =>
      have hx := hl.2 x rfl
      have hy := hr.2 y rfl
      rw [← hx, ← hy] at h
      obtain ⟨v, hv, hvt⟩ := applyBin_typed h
      cases v <;> simp [CVal.tag] at hvt
      rename_i bb
      exact ⟨some bb, by simp [hv]⟩

theorem tag_int {ty : AType} (h : ty.tag = .int) : ∃ a, ty = .int a := by
  cases ty <;> simp [AType.tag] at h; exact ⟨_, rfl⟩

theorem tag_bool {ty : AType} (h : ty.tag = .bool) : ∃ b, ty = .bool b := by
  cases ty <;> simp [AType.tag] at h; exact ⟨_, rfl⟩

theorem tag_enum {ty : AType} (h : ty.tag = .enum) : ∃ b, ty = .enum b := by
  cases ty <;> simp [AType.tag] at h; exact ⟨_, rfl⟩

theorem absBin_typed {op : BinOp} {tl tr : AType} {cl cr : CV} {a b τ : Ty}
    (htl : tl.tag = a) (htr : tr.tag = b) (hil : InvT tl) (hir : InvT tr)
    (hl : CVOk cl a) (hr : CVOk cr b) (h : binTy op a b = some τ) :
    ∃ ty, absBin op tl tr cl cr = some ty ∧ ty.tag = τ := by
  by_cases hop : isArith op = true
  · have hab : a = .int ∧ b = .int ∧ τ = .int := by
      cases op <;> simp [isArith] at hop <;> cases a <;> cases b <;> simp [binTy] at h <;>
        exact ⟨rfl, rfl, h.symm⟩
    obtain ⟨rfl, rfl, rfl⟩ := hab
    obtain ⟨al, rfl⟩ := tag_int htl
    obtain ⟨ar, rfl⟩ := tag_int htr
    simp only [InvT] at hil hir
    unfold absBin
    rw [if_pos hop]
    cases op <;> simp [isArith] at hop
    · obtain ⟨r, h1, _⟩ := additive_inv false hil hir
      exact ⟨.int r, by simp [absArith, h1], rfl⟩
    · obtain ⟨r, h1, _⟩ := additive_inv true hil hir
      exact ⟨.int r, by simp [absArith, h1], rfl⟩
    · obtain ⟨r, h1, _⟩ := multiplicative_inv hil hir
      exact ⟨.int r, by simp [absArith, h1], rfl⟩
  · have hτ : τ = .bool := by
      cases op <;> simp [isArith] at hop <;> cases a <;> cases b <;> simp [binTy] at h <;>
        exact h.symm
    subst hτ
    obtain ⟨ob, hob⟩ := absCmp_typed hl hr h
    unfold absBin
    rw [if_neg hop]
    exact ⟨_, hob, rfl⟩

theorem cvChoice_typed {c t f : CV} {τ : Ty} (hc : CVOk c .bool) (ht : CVOk t τ) (hf : CVOk f τ) :
    CVOk (cvChoice c t f) τ := by
  cases c with
  | crash => exact absurd rfl hc.1
  | unknown =>
    cases t <;> cases f <;> first
      | exact absurd rfl ht.1
      | exact absurd rfl hf.1
      | (simp only [cvChoice]; exact CVOk_unknown τ)
  | val x =>
    have hx := hc.2 x rfl
    cases x <;> simp [CVal.tag] at hx
    rename_i b
    cases t <;> cases f <;> first
      | exact absurd rfl ht.1
      | exact absurd rfl hf.1
      | (simp only [cvChoice]; cases b <;> simp <;> assumption)

theorem cvInts_typed : ∀ {l : List CV}, (∀ c ∈ l, CVOk c .int) → (∀ c ∈ l, c ≠ .unknown) →
    ∃ vs, cvInts l = some vs ∧ vs.length = l.length
  | [], _, _ => ⟨[], rfl, rfl⟩
  | c :: r, h, hu => by
    obtain ⟨vs, hvs, hlen⟩ := cvInts_typed (l := r) (fun c hc => h c (List.mem_cons_of_mem _ hc))
      (fun c hc => hu c (List.mem_cons_of_mem _ hc))
    have hc := h c List.mem_cons_self
    cases c with
    | crash => exact absurd rfl hc.1
    | unknown => exact absurd rfl (hu _ List.mem_cons_self)
    | val x =>
      have hx := hc.2 x rfl
      cases x <;> simp [CVal.tag] at hx
      rename_i v
      exact ⟨v :: vs, by simp [cvInts, hvs], by simp [hlen]⟩

theorem cvMax_typed {l : List CV} (hne : l ≠ []) (h : ∀ c ∈ l, CVOk c .int) :
    CVOk (cvMax l) .int := by
  unfold cvMax
  have h1 : l.any (· == .crash) = false := by
    rw [List.any_eq_false]
    intro c hc
    have := (h c hc).1
    simpa using this
  rw [h1]
  simp only [Bool.false_eq_true, if_false]
  split
  · exact CVOk_unknown _
  · rename_i hu
    have hu' : ∀ c ∈ l, c ≠ .unknown := by
      intro c hc e
      apply hu
      rw [List.any_eq_true]
      exact ⟨c, hc, by simp [e]⟩
    obtain ⟨vs, hvs, hlen⟩ := cvInts_typed h hu'
    rw [hvs]
    cases vs with
    | nil =>
      cases l with
      | nil => exact absurd rfl hne
      | cons _ _ => simp at hlen
    | cons v vs' =>
      simp only [maxInts]
      exact ⟨by simp, by intro z hz; cases hz; rfl⟩

theorem cvBound_typed (o : Option AType) : CVOk (cvBound o) .int := by
  unfold cvBound
  split
  · exact ⟨by simp, by intro z hz; cases hz; rfl⟩
  · exact CVOk_unknown _

/-- statement at one expression -/
@[reducible] def TypedAt (e : Expr) (τ : Ty) : Prop :=
  (∃ ty, abs e = some ty ∧ ty.tag = τ) ∧ CVOk (cv e) τ

mutual
theorem typed_aux : (e : Expr) → (τ : Ty) → tyOf e = some τ → GivenOk e = true → TypedAt e τ
  | .const _, τ, h, _ => by
    simp only [tyOf, Option.some.injEq] at h; subst h
    exact ⟨⟨_, rfl, rfl⟩, by simp [cv], by intro z hz; simp only [cv] at hz; cases hz; rfl⟩
  | .bconst _, τ, h, _ => by
    simp only [tyOf, Option.some.injEq] at h; subst h
    exact ⟨⟨_, rfl, rfl⟩, by simp [cv], by intro z hz; simp only [cv] at hz; cases hz; rfl⟩
  | .econst _, τ, h, _ => by
    simp only [tyOf, Option.some.injEq] at h; subst h
    exact ⟨⟨_, rfl, rfl⟩, by simp [cv], by intro z hz; simp only [cv] at hz; cases hz; rfl⟩
  | .ileaf _ _ _, τ, h, _ => by
    simp only [tyOf, Option.some.injEq] at h; subst h
    exact ⟨⟨_, rfl, rfl⟩, by simp only [cv]; exact CVOk_unknown _⟩
  | .ssize _, τ, h, _ => by
    simp only [tyOf, Option.some.injEq] at h; subst h
    exact ⟨⟨_, rfl, rfl⟩, by simp only [cv]; exact CVOk_unknown _⟩
  | .given _ _, τ, h, _ => by
    simp only [tyOf, Option.some.injEq] at h; subst h
    exact ⟨⟨_, rfl, rfl⟩, by simp only [cv]; exact CVOk_unknown _⟩
  | .bleaf _, τ, h, _ => by
    simp only [tyOf, Option.some.injEq] at h; subst h
    exact ⟨⟨_, rfl, rfl⟩, by simp only [cv]; exact CVOk_unknown _⟩
  | .eleaf _, τ, h, _ => by
    simp only [tyOf, Option.some.injEq] at h; subst h
    exact ⟨⟨_, rfl, rfl⟩, by simp only [cv]; exact CVOk_unknown _⟩
  | .bin op l r, τ, h, hg => by
    simp only [tyOf] at h
    simp only [GivenOk, Bool.and_eq_true] at hg
    split at h
    · rename_i a b ha hb
      obtain ⟨⟨tl, habl, htl⟩, hcl⟩ := typed_aux l a ha hg.1
      obtain ⟨⟨tr, habr, htr⟩, hcr⟩ := typed_aux r b hb hg.2
      have hil := inv_aux l hg.1 tl habl
      have hir := inv_aux r hg.2 tr habr
      obtain ⟨ty, hty, htag⟩ := absBin_typed htl htr hil hir hcl hcr h
      exact ⟨⟨ty, by simp only [abs, habl, habr, hty], htag⟩,
        by simp only [cv]; exact cvBin_typed hcl hcr h⟩
    · cases h
  | .choice c t f, τ, h, hg => by
    simp only [tyOf] at h
    simp only [GivenOk, Bool.and_eq_true] at hg
    split at h
    · rename_i a b hc ha hb
      split at h
      · rename_i hab
        subst hab
        simp only [Option.some.injEq] at h
        subst h
        obtain ⟨⟨tc, habc, htc⟩, hcc⟩ := typed_aux c .bool hc hg.1.1
        obtain ⟨⟨tt, habt, htt⟩, hct⟩ := typed_aux t a ha hg.1.2
        obtain ⟨⟨tf, habf, htf⟩, hcf⟩ := typed_aux f a hb hg.2
        have hit := inv_aux t hg.1.2 tt habt
        have hif := inv_aux f hg.2 tf habf
        refine ⟨?_, by simp only [cv]; exact cvChoice_typed hcc hct hcf⟩
        obtain ⟨ob, rfl⟩ := tag_bool htc
        cases ob with
        | some bv =>
          cases bv
          · exact ⟨tf, by simp [abs, habc, habt, habf, absChoice], htf⟩
          · exact ⟨tt, by simp [abs, habc, habt, habf, absChoice], htt⟩
        | none =>
          cases a with
          | int =>
            obtain ⟨at', rfl⟩ := tag_int htt
            obtain ⟨af, rfl⟩ := tag_int htf
            simp only [InvT] at hit hif
            obtain ⟨r, hr, _⟩ := choiceHull_inv hit hif
            exact ⟨.int r, by simp [abs, habc, habt, habf, absChoice, hr], rfl⟩
          | bool =>
            obtain ⟨_, rfl⟩ := tag_bool htt
            obtain ⟨_, rfl⟩ := tag_bool htf
            exact ⟨.bool none, by simp [abs, habc, habt, habf, absChoice], rfl⟩
          | enum =>
            obtain ⟨_, rfl⟩ := tag_enum htt
            obtain ⟨_, rfl⟩ := tag_enum htf
            exact ⟨.enum none, by simp [abs, habc, habt, habf, absChoice], rfl⟩
      · cases h
    · cases h
  | .max args, τ, h, hg => by
    simp only [tyOf] at h
    simp only [GivenOk] at hg
    split at h
    · rename_i hcond
      simp only [Option.some.injEq] at h
      subst h
      simp only [Bool.and_eq_true] at hcond
      obtain ⟨⟨avs, habs, hinv⟩, hcvs, hlen⟩ := typedList_aux args hcond.2 hg
      have hne : avs ≠ [] := by
        intro e
        subst e
        cases args with
        | nil => simp at hcond
        | cons x xs =>
          simp only [absList] at habs
          split at habs <;> simp at habs
      obtain ⟨a, ha, _⟩ := maxFn_inv hne hinv
      refine ⟨⟨.int a, by simp [abs, habs, absMax, atypeInts_map, ha], rfl⟩, ?_⟩
      simp only [cv]
      apply cvMax_typed _ hcvs
      intro e
      cases args with
      | nil => simp at hcond
      | cons x xs => simp [cvList] at e
    · cases h
  | .upper e, τ, h, hg => by
    simp only [tyOf] at h
    simp only [GivenOk] at hg
    split at h
    · rename_i he
      simp only [Option.some.injEq] at h
      subst h
      obtain ⟨⟨ty, habs, htag⟩, _⟩ := typed_aux e .int he hg
      obtain ⟨a, rfl⟩ := tag_int htag
      exact ⟨⟨.int (boundFn true a), by simp only [abs, habs, absBound], rfl⟩,
        by simp only [cv]; exact cvBound_typed _⟩
    · cases h
  | .lower e, τ, h, hg => by
    simp only [tyOf] at h
    simp only [GivenOk] at hg
    split at h
    · rename_i he
      simp only [Option.some.injEq] at h
      subst h
      obtain ⟨⟨ty, habs, htag⟩, _⟩ := typed_aux e .int he hg
      obtain ⟨a, rfl⟩ := tag_int htag
      exact ⟨⟨.int (boundFn false a), by simp only [abs, habs, absBound], rfl⟩,
        by simp only [cv]; exact cvBound_typed _⟩
    · cases h
  | .vref e, τ, h, hg => by
    simp only [tyOf] at h
    simp only [GivenOk] at hg
    obtain ⟨⟨ty, habs, htag⟩, _⟩ := typed_aux e τ h hg
    exact ⟨⟨ty, by simp only [abs, habs], htag⟩, by simp only [cv]; exact CVOk_unknown _⟩
  | .present a c, τ, h, hg => by
    simp only [tyOf] at h
    simp only [GivenOk] at hg
    split at h
    · rename_i hc
      simp only [Option.some.injEq] at h
      subst h
      obtain ⟨⟨ty, habs, htag⟩, _⟩ := typed_aux c .bool hc hg
      exact ⟨⟨ty, by simp only [abs, habs], htag⟩, by simp only [cv]; exact CVOk_unknown _⟩
    · cases h
  | .cref _, _, h, _ => by simp [tyOf] at h
theorem typedList_aux : (es : List Expr) → allInt es = true → GivenOkList es = true →
    (∃ avs : List AVal, absList es = some (avs.map .int) ∧ ∀ a ∈ avs, InvS a) ∧
    (∀ c ∈ cvList es, CVOk c .int) ∧ (cvList es).length = es.length
  | [], _, _ => ⟨⟨[], rfl, fun a ha => nomatch ha⟩, by simp [cvList], rfl⟩
  | e :: es, h, hg => by
    simp only [allInt, Bool.and_eq_true] at h
    simp only [GivenOkList, Bool.and_eq_true] at hg
    have he : tyOf e = some .int := by
      have := h.1
      split at this
      · assumption
      · cases this
    obtain ⟨⟨ty, habs, htag⟩, hc⟩ := typed_aux e .int he hg.1
    obtain ⟨a, rfl⟩ := tag_int htag
    have hia : InvS a := inv_aux e hg.1 _ habs
    obtain ⟨⟨avs, habss, hinv⟩, hcs, hlen⟩ := typedList_aux es h.2 hg.2
    refine ⟨⟨a :: avs, by simp [absList, habs, habss], ?_⟩, ?_, by simp [cvList, hlen]⟩
    · intro b hb
      rcases List.mem_cons.mp hb with rfl | hm
      · exact hia
      · exact hinv b hm
    · intro c hcm
      simp only [cvList, List.mem_cons] at hcm
      rcases hcm with rfl | hm
      · exact hc
      · exact hcs c hm
end

end Emboss.Bounds
