/-
Monotonicity of `Maybe`-evaluation in the information order (helper lemmas for C01).
-/
import Emboss.Model.Expr
namespace Emboss.View

/-- Information order on `Maybe`: whatever is known on the left is known, with the same value,
on the right. -/
def OLe {α : Type} (a b : Option α) : Prop := ∀ v, a = some v → b = some v

theorem OLe.refl {α : Type} (a : Option α) : OLe a a := fun _ h => h

theorem OLe.trans {α : Type} {a b c : Option α} (h1 : OLe a b) (h2 : OLe b c) : OLe a c :=
  fun v h => h2 v (h1 v h)

theorem OLe.none {α : Type} (b : Option α) : OLe none b := fun _ h => by cases h

theorem OLe.of_some {α : Type} {v : α} {b : Option α} (h : OLe (some v) b) : b = some v := h v rfl

theorem OLe.map {α β : Type} (f : α → β) {a b : Option α} (h : OLe a b) : OLe (a.map f) (b.map f) := by
  intro v hv
  cases a with
  | none => cases hv
  | some x => rw [h x rfl]; exact hv

/-- Pointwise order on what an expression can see. -/
structure EnvLe (e1 e2 : Env) : Prop where
  read : ∀ p, OLe (e1.read p) (e2.read p)
  param : ∀ n, OLe (e1.param n) (e2.param n)
  has : ∀ p, OLe (e1.has p) (e2.has p)
  lv : OLe e1.lv e2.lv

theorem EnvLe.refl (e : Env) : EnvLe e e :=
  ⟨fun _ => OLe.refl _, fun _ => OLe.refl _, fun _ => OLe.refl _, OLe.refl _⟩

/-- Pointwise order on operand lists. -/
inductive LLe : List (Option Val) → List (Option Val) → Prop
  | nil : LLe [] []
  | cons {a b : Option Val} {l1 l2 : List (Option Val)} : OLe a b → LLe l1 l2 → LLe (a :: l1) (b :: l2)

theorem maybeInt2_mono (g : Int → Int → Val) {a a' b b' : Option Val}
    (ha : OLe a a') (hb : OLe b b') : OLe (maybeInt2 g a b) (maybeInt2 g a' b') := by
  intro v hv
  cases a with
  | none => simp [maybeInt2] at hv
  | some x =>
    cases b with
    | none => cases x <;> simp [maybeInt2] at hv
    | some y =>
      rw [ha x rfl, hb y rfl]; exact hv

theorem maybeEq_mono (n : Bool) {a a' b b' : Option Val}
    (ha : OLe a a') (hb : OLe b b') : OLe (maybeEq n a b) (maybeEq n a' b') := by
  intro v hv
  cases a with
  | none => simp [maybeEq] at hv
  | some x =>
    cases b with
    | none => cases x <;> simp [maybeEq] at hv
    | some y =>
      rw [ha x rfl, hb y rfl]; exact hv

theorem maybeAnd_mono {a a' b b' : Option Val}
    (ha : OLe a a') (hb : OLe b b') : OLe (maybeAnd a b) (maybeAnd a' b') := by
  intro v hv
  cases a with
  | none =>
    cases b with
    | none => simp [maybeAnd] at hv
    | some y =>
      rw [hb y rfl]
      cases y with
      | int i => simp [maybeAnd] at hv
      | bool q =>
        cases q with
        | true => simp [maybeAnd] at hv
        | false =>
          have : v = .bool false := by simp [maybeAnd] at hv; exact hv.symm
          subst this
          cases a' with
          | none => simp [maybeAnd]
          | some z => cases z with
            | int i => simp [maybeAnd]
            | bool q => cases q <;> simp [maybeAnd]
  | some x =>
    rw [ha x rfl]
    cases b with
    | some y => rw [hb y rfl]; exact hv
    | none =>
      cases x with
      | int i => simp [maybeAnd] at hv
      | bool q =>
        cases q with
        | true => simp [maybeAnd] at hv
        | false =>
          have : v = .bool false := by simp [maybeAnd] at hv; exact hv.symm
          subst this
          simp [maybeAnd]

theorem maybeOr_mono {a a' b b' : Option Val}
    (ha : OLe a a') (hb : OLe b b') : OLe (maybeOr a b) (maybeOr a' b') := by
  intro v hv
  cases a with
  | none =>
    cases b with
    | none => simp [maybeOr] at hv
    | some y =>
      rw [hb y rfl]
      cases y with
      | int i => simp [maybeOr] at hv
      | bool q =>
        cases q with
        | false => simp [maybeOr] at hv
        | true =>
          have : v = .bool true := by simp [maybeOr] at hv; exact hv.symm
          subst this
          cases a' with
          | none => simp [maybeOr]
          | some z => cases z with
            | int i => simp [maybeOr]
            | bool q => cases q <;> simp [maybeOr]
  | some x =>
    rw [ha x rfl]
    cases b with
    | some y => rw [hb y rfl]; exact hv
    | none =>
      cases x with
      | int i => simp [maybeOr] at hv
      | bool q =>
        cases q with
        | false => simp [maybeOr] at hv
        | true =>
          have : v = .bool true := by simp [maybeOr] at hv; exact hv.symm
          subst this
          simp [maybeOr]

theorem maybeChoice_mono {c c' t t' e e' : Option Val}
    (hc : OLe c c') (ht : OLe t t') (he : OLe e e') :
    OLe (maybeChoice c t e) (maybeChoice c' t' e') := by
  intro v hv
  cases c with
  | none => simp [maybeChoice] at hv
  | some x =>
    rw [hc x rfl]
    cases x with
    | int i => simp [maybeChoice] at hv
    | bool q =>
      cases q with
      | true => simp [maybeChoice] at hv ⊢; exact ht v hv
      | false => simp [maybeChoice] at hv ⊢; exact he v hv

theorem maybeMax_mono {l1 l2 : List (Option Val)} (h : LLe l1 l2) :
    OLe (maybeMax l1) (maybeMax l2) := by
  induction h with
  | nil => exact OLe.refl _
  | @cons a b t1 t2 hab ht ih =>
    intro v hv
    cases a with
    | none => simp [maybeMax] at hv
    | some x =>
      rw [hab x rfl]
      cases x with
      | bool q => simp [maybeMax] at hv
      | int i =>
        cases ht with
        | nil => exact hv
        | @cons a2 b2 u1 u2 h2 hu =>
          have hrec : ∀ r, maybeMax (a2 :: u1) = some r → maybeMax (b2 :: u2) = some r :=
            fun r hr => ih r hr
          simp only [maybeMax] at hv ⊢
          cases hm : maybeMax (a2 :: u1) with
          | none => rw [hm] at hv; cases hv
          | some r => rw [hm] at hv; rw [hrec r hm]; exact hv

theorem applyFn_mono (f : Fn) {l1 l2 : List (Option Val)} (h : LLe l1 l2) :
    OLe (applyFn f l1) (applyFn f l2) := by
  by_cases hmax : f = .max
  · subst hmax
    simp only [applyFn]
    exact OLe.map _ (maybeMax_mono h)
  · cases h with
    | nil => cases f <;> first | exact OLe.refl _ | (exact absurd rfl hmax)
    | @cons a a' t1 t2 ha h1 =>
      cases h1 with
      | nil => cases f <;> first | exact OLe.refl _ | (exact absurd rfl hmax)
      | @cons b b' u1 u2 hb h2 =>
        cases h2 with
        | nil =>
          cases f
          all_goals first
            | exact maybeInt2_mono _ ha hb
            | exact maybeEq_mono _ ha hb
            | exact maybeAnd_mono ha hb
            | exact maybeOr_mono ha hb
            | exact OLe.refl _
            | (exact absurd rfl hmax)
        | @cons c c' v1 v2 hc h3 =>
          cases h3 with
          | nil =>
            cases f
            all_goals first
              | exact maybeChoice_mono ha hb hc
              | exact OLe.refl _
              | (exact absurd rfl hmax)
          | @cons d d' x1 x2 hd h4 =>
            cases f
            all_goals first
              | exact OLe.refl _
              | (exact absurd rfl hmax)

mutual
  theorem eval_mono {e1 e2 : Env} (h : EnvLe e1 e2) : ∀ e : Expr, OLe (eval e1 e) (eval e2 e)
    | .const v => by simp only [eval]; exact OLe.refl _
    | .fold v _ => by simp only [eval]; exact OLe.refl _
    | .ref p => by simp only [eval]; exact h.read p
    | .param n => by simp only [eval]; exact h.param n
    | .has p => by simp only [eval]; exact OLe.map _ (h.has p)
    | .lv => by simp only [eval]; exact h.lv
    | .op f args => by simp only [eval]; exact applyFn_mono f (evalList_mono h args)
  theorem evalList_mono {e1 e2 : Env} (h : EnvLe e1 e2) :
      ∀ es : Exprs, LLe (evalList e1 es) (evalList e2 es)
    | .nil => by simp only [evalList]; exact LLe.nil
    | .cons e es => by simp only [evalList]; exact LLe.cons (eval_mono h e) (evalList_mono h es)
end

theorem evalBool_mono {e1 e2 : Env} (h : EnvLe e1 e2) (e : Expr) :
    OLe (evalBool e1 e) (evalBool e2 e) := by
  intro v hv
  unfold evalBool at hv ⊢
  cases hx : eval e1 e with
  | none => rw [hx] at hv; cases hv
  | some x => rw [eval_mono h e x hx]; rw [hx] at hv; exact hv

theorem evalInt_mono {e1 e2 : Env} (h : EnvLe e1 e2) (e : Expr) :
    OLe (evalInt e1 e) (evalInt e2 e) := by
  intro v hv
  unfold evalInt at hv ⊢
  cases hx : eval e1 e with
  | none => rw [hx] at hv; cases hv
  | some x => rw [eval_mono h e x hx]; rw [hx] at hv; exact hv

end Emboss.View
