import Emboss.Lemmas.TarjanLoop
namespace Emboss.Deps

/-- The whole `for` loop, given the specification of the recursive call. -/
theorem visitEdges_spec {g : Graph} {fuel : Nat} {rec : Nat → TState → TState}
    (hrec : SCSpec g fuel rec) (hcl : ∀ a b, Edge g a b → b ∈ keys g) (v : Nat) (s0 : TState) :
    ∀ (ds : List Nat) (t : TState) (P : Nat → Prop), LoopInv g v s0 t P →
      (∀ d ∈ ds, Edge g v d) → unvisited g t ≤ fuel →
      LoopInv g v s0 (visitEdges rec v ds t) (fun x => P x ∨ x ∈ ds) := by
  intro ds
  induction ds with
  | nil =>
    intro t P hL _ _
    exact hL.mono (fun d hd => by simpa using hd)
  | cons d ds ih =>
    intro t P hL hE hfuel
    have he : Edge g v d := hE d (by simp)
    have hE' : ∀ d ∈ ds, Edge g v d := fun x hx => hE x (by simp [hx])
    have hshape : ∀ {t'}, LoopInv g v s0 t' (fun x => (P x ∨ x = d) ∨ x ∈ ds) →
        LoopInv g v s0 t' (fun x => P x ∨ x ∈ d :: ds) := by
      intro t' h
      refine h.mono (fun x hx => ?_)
      simp only [List.mem_cons] at hx
      rcases hx with hx | hx | hx
      · exact .inl (.inl hx)
      · exact .inl (.inr hx)
      · exact .inr hx
    unfold visitEdges
    by_cases hd : indexed t d = false
    · simp only [hd, if_true]
      have hP := hrec d t hL.inv hd (hcl v d he) hfuel
      have hA := hL.stepA d he hd hP
      apply hshape
      apply ih _ _ hA hE'
      refine Nat.le_trans (unvisited_mono g (fun w hw => ?_)) hfuel
      simp only [indexed_setLow]
      exact (hP.old w hw).1
    · have hd' : indexed t d = true := by simpa using hd
      simp only [hd', Bool.true_eq_false, if_false]
      by_cases hs : t.onStack.contains d = true
      · simp only [hs, if_true]
        have hs' : d ∈ t.stack := by
          rw [← hL.inv.onst]; simpa using hs
        have hB := hL.stepB d he hd' hs'
        apply hshape
        apply ih _ _ hB hE'
        refine Nat.le_trans (unvisited_mono g (fun w hw => ?_)) hfuel
        simpa using hw
      · simp only [hs]
        have hs' : d ∉ t.stack := by
          rw [← hL.inv.onst]; simpa using hs
        apply hshape
        exact ih _ _ (hL.addProc d hd' (fun h => absurd h hs')) hE' hfuel

end Emboss.Deps
