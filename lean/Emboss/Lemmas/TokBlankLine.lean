/-
C10: covers (and stuck positions) compose across a blank — second half: which positions
satisfy `LocalCond`, the induction over a cover, and the column shift of `tokLine`.
-/
import Emboss.Lemmas.TokBlank
namespace Emboss.Tok
open Emboss.Regex Emboss.Tok.Class Emboss.Generated

/-- Tokens that extend to the end of the line whatever follows. -/
def OpenEnded (sym : String) : Prop :=
  sym = "Comment" ∨ sym = "Documentation" ∨ sym = "BadDocumentation"

theorem punct_heads2 : punctLiterals.all (fun l => match l.toList with
    | x :: _ => x != '#' && x != '"' && !isSpaceChar x
    | [] => false) = true := by decide

theorem punct_no_dashes : punctLiterals.all (fun l => !(['-', '-'].isPrefixOf l.toList)) = true := by
  decide

theorem lang_litThen_intro : ∀ (l : List Char) {R : Regex} {q rest : List Char}, Lang R q rest →
    Lang (litThen l R) (l ++ q) rest := by
  intro l
  induction l with
  | nil => intro R q rest h; exact h
  | cons c cs ih =>
    intro R q rest h
    have := Lang.seq (a := .chr (litC c)) (u := [c]) (.chr (litC c) c _ (by simp)) (ih h)
    simpa [litThen] using this

/-- Which pattern can win with a symbol that is not open-ended. -/
theorem winner_kinds {u : List Char} {n : Nat} {sym : String}
    (h : IsBest tokTable.pats u n (some sym)) (hn : 0 < n) (ho : ¬ OpenEnded sym) :
    (∃ l ∈ punctLiterals, u.take n = l.toList) ∨ (∃ x t, u = x :: t ∧ isWordChar x = true) ∨
      matchLen reString u = .ok n := by
  obtain ⟨pre, p, post, hp, hm, hs, _, _⟩ := h
  have hmem : p ∈ tokTable.pats := by rw [hp]; simp
  have hsound := matchLen_sound _ _ _ hm
  have word : WordOnly p.re → ∃ x t, u = x :: t ∧ isWordChar x = true := by
    intro hw
    have hall := lang_wordOnly hsound.2 hw
    cases u with
    | nil => have := hsound.1; simp at this; omega
    | cons x t =>
      rw [show n = (n - 1) + 1 by omega, List.take_succ_cons, List.all_cons, Bool.and_eq_true] at hall
      exact ⟨x, t, rfl, hall.1⟩
  rw [tokTable_pats, List.mem_append, List.mem_map] at hmem
  rcases hmem with ⟨l, hl, rfl⟩ | hmem
  · rw [List.mem_append] at hl
    rcases hl with hl | hl
    · left
      simp only [mkLit] at hm
      rw [matchLen_litRegex] at hm
      split at hm
      · rename_i hpre
        simp only [MRes.ok.injEq] at hm
        have := List.prefix_iff_eq_take.mp (List.isPrefixOf_iff_prefix.mp hpre)
        rw [hm] at this
        exact ⟨l, hl, this.symm⟩
      · cases hm
    · exact .inr (.inl (word (wordOnly_litRegex _ (List.all_eq_true.mp keywords_words l hl))))
  · simp only [expectedRegexes, List.mem_cons, List.not_mem_nil, or_false] at hmem
    rcases hmem with rfl | rfl | rfl | rfl | rfl | rfl | rfl | rfl | rfl | rfl | rfl | rfl | rfl | rfl |
      rfl | rfl | rfl | rfl | rfl | rfl | rfl | rfl | rfl
    · exact .inr (.inl (word (wordOnly_litThen _ _ (by decide) wo_resCamelTail)))
    · exact .inr (.inl (word (wordOnly_litThen _ _ (by decide) wo_resSnakeTail)))
    · exact .inr (.inl (word (wordOnly_litThen _ _ (by decide) wo_resShoutyTail)))
    · exact .inr (.inr hm)
    · exact .inr (.inl (word wo_digit))
    · exact .inr (.inl (word (wordOnly_grouped wo_digit 3 3)))
    · exact .inr (.inl (word (wordOnly_litThen _ _ (by decide) wo_hex)))
    · exact .inr (.inl (word (wordOnly_litThen _ _ (by decide) ⟨wo_us, wordOnly_grouped wo_hex 4 4⟩)))
    · exact .inr (.inl (word (wordOnly_litThen _ _ (by decide) ⟨wo_us, wordOnly_grouped wo_hex 8 8⟩)))
    · exact .inr (.inl (word (wordOnly_litThen _ _ (by decide) wo_bin)))
    · exact .inr (.inl (word (wordOnly_litThen _ _ (by decide) ⟨wo_us, wordOnly_grouped wo_bin 4 4⟩)))
    · exact .inr (.inl (word (wordOnly_litThen _ _ (by decide) ⟨wo_us, wordOnly_grouped wo_bin 8 8⟩)))
    · exact .inr (.inl (word ⟨wordOnly_litRegex _ (by decide), wordOnly_litRegex _ (by decide)⟩))
    · exact .inr (.inl (word ⟨wo_lower, wo_snakeTail⟩))
    · exact .inr (.inl (word ⟨wo_upper, wo_shoutyTail, wo_shoutyMid, wo_shoutyTail⟩))
    · exact .inr (.inl (word ⟨wo_upper, wo_camelTail, wo_lower, wo_camelTail⟩))
    · have hs' : some "Documentation" = some sym := hs
      cases hs'; exact (ho (.inr (.inl rfl))).elim
    · have hs' : some "Documentation" = some sym := hs
      cases hs'; exact (ho (.inr (.inl rfl))).elim
    · have hs' : some "BadDocumentation" = some sym := hs
      cases hs'; exact (ho (.inr (.inr rfl))).elim
    · have hs' : (none : Option String) = some sym := hs
      cases hs'
    · have hs' : some "Comment" = some sym := hs
      cases hs'; exact (ho (.inl rfl)).elim
    · exact .inr (.inl (word ⟨wo_digit, wo_radix, wo_hexUs⟩))
    · exact .inr (.inl (word wo_word))

theorem badDoc_mem : (⟨reBadDoc, some "BadDocumentation"⟩ : Pat) ∈ tokTable.pats := by
  rw [tokTable_pats]; simp [expectedRegexes]

theorem space_mem : (⟨reSpace, none⟩ : Pat) ∈ tokTable.pats := by
  rw [tokTable_pats]; simp [expectedRegexes]

/-- A token that is not open-ended starts at a position where `table_local` applies. -/
theorem localCond_of_token {u : List Char} {n : Nat} {sym : String}
    (h : IsBest tokTable.pats u n (some sym)) (hn : 0 < n) (ho : ¬ OpenEnded sym) : LocalCond u := by
  have hle := h.le_length
  rcases winner_kinds h hn ho with ⟨l, hl, htake⟩ | ⟨x, t, rfl, hx⟩ | hstr
  · cases u with
    | nil => simp at hle; omega
    | cons x t =>
      have hh := List.all_eq_true.mp punct_heads2 l hl
      have htake' := htake
      rw [show n = (n - 1) + 1 by omega, List.take_succ_cons] at htake'
      rw [← htake'] at hh
      simp only [Bool.and_eq_true, bne_iff_ne, ne_eq, Bool.not_eq_true'] at hh
      refine ⟨?_, ?_, ?_, ⟨x, by simp, hh.2⟩⟩
      · intro hc; cases hc; exact hh.1.1 rfl
      · intro hd
        obtain ⟨r, hr⟩ := hd
        have hM : MatchesLen reBadDoc (x :: t) 2 := by
          rw [← hr]
          refine ⟨by simp, ?_⟩
          have := lang_litThen_intro ['-', '-'] (R := star cAny) (q := []) (rest := r) .repStop
          simpa [reBadDoc] using this
        obtain ⟨m, hm, h2⟩ := pl_bound (priority_is_longest_all _ badDoc_mem) hM
        have hmax := h.max.2 _ badDoc_mem m hm
        have hnd := List.all_eq_true.mp punct_no_dashes l hl
        rw [← htake, ← hr, show n = (n - 2) + 2 by omega] at hnd
        simp [List.isPrefixOf] at hnd
      · intro hq
        simp only [List.head?_cons, Option.some.injEq] at hq
        exact absurd hq hh.1.2
  · refine ⟨?_, ?_, ?_, ⟨x, by simp, word_not_space x hx⟩⟩
    · simp only [List.head?_cons, Option.some.injEq]
      intro hc; cases hc; exact absurd hx (by decide)
    · intro hd
      obtain ⟨r, hr⟩ := hd
      simp only [List.cons_append, List.nil_append, List.cons.injEq] at hr
      rw [← hr.1] at hx; exact absurd hx (by decide)
    · intro hq
      simp only [List.head?_cons, Option.some.injEq] at hq
      subst hq; exact absurd hx (by decide)
  · rw [string_value] at hstr
    cases u with
    | nil => cases hstr
    | cons x t =>
      by_cases hq : (x == '"') = true
      · have hx : x = '"' := by simpa using hq
        subst hx
        refine ⟨by simp, ?_, fun _ => ⟨n, by rw [string_value]; exact hstr⟩, ⟨'"', by simp, by decide⟩⟩
        intro hd
        obtain ⟨r, hr⟩ := hd
        simp only [List.cons_append, List.nil_append, List.cons.injEq] at hr
        exact absurd hr.1 (by decide)
      · simp only [hq, Bool.false_eq_true, if_false] at hstr
        cases hstr

/-- An inner gap (one that does not reach the end of `u`) too. -/
theorem localCond_of_gap {u : List Char} {n : Nat} (h : IsBest tokTable.pats u n none) (hn : 0 < n)
    (hlt : n < u.length) : LocalCond u := by
  have hall := gap_is_whitespace h
  cases u with
  | nil => simp at hlt
  | cons x t =>
    have hx : isSpaceChar x = true := by
      rw [show n = (n - 1) + 1 by omega, List.take_succ_cons, List.all_cons, Bool.and_eq_true] at hall
      exact hall.1
    refine ⟨?_, ?_, ?_, ?_⟩
    · simp only [List.head?_cons, Option.some.injEq]
      intro hc; cases hc; exact absurd hx (by decide)
    · intro hd
      obtain ⟨r, hr⟩ := hd
      simp only [List.cons_append, List.nil_append, List.cons.injEq] at hr
      rw [← hr.1] at hx; exact absurd hx (by decide)
    · intro hq
      simp only [List.head?_cons, Option.some.injEq] at hq
      subst hq; exact absurd hx (by decide)
    · -- otherwise `\s+` would match all of `u`, which is longer than the gap
      apply Classical.byContradiction
      intro hno
      have hallu : (x :: t).all cSpace.mem = true := by
        rw [List.all_eq_true]
        intro y hy
        rw [cSpace_mem]
        cases hb : isSpaceChar y with
        | true => rfl
        | false => exact absurd ⟨y, hy, hb⟩ hno
      have hM : MatchesLen reSpace (x :: t) (x :: t).length := by
        refine ⟨Nat.le_refl _, ?_⟩
        rw [List.take_length, List.drop_length]
        exact lang_plus_of_all cSpace [] x t hallu
      obtain ⟨m, hm, h2⟩ := pl_bound (priority_is_longest_all _ space_mem) hM
      have := h.max.2 _ space_mem m hm
      omega

/-- **Covers compose across a blank.**  If `a` has a cover without open-ended tokens and does
not end in a blank, and `c :: b` (`c` a blank) has a cover at offset `off + |a|`, then
`a ++ c :: b` has the concatenated cover. -/
theorem covers_append_blank {ln : Nat} {a : List Char} {off : Nat} {segsA : List Seg}
    (hA : Covers tokTable.pats ln a off segsA) {c : Char} {b : List Char} {segsB : List Seg}
    (hc : isSpaceChar c = true)
    (hopen : ∀ t ∈ tokensOf segsA, ¬ OpenEnded t.sym)
    (hlast : ∀ y, a.getLast? = some y → isSpaceChar y = false)
    (hB : Covers tokTable.pats ln (c :: b) (off + a.length) segsB) :
    Covers tokTable.pats ln (a ++ c :: b) off (segsA ++ segsB) := by
  induction hA with
  | nil off => simpa using hB
  | @tok s off n name segs hn hle hb hcov ih =>
    have hne : s ≠ [] := by intro h; subst h; simp at hle; omega
    have hloc := localCond_of_token hb hn (hopen ⟨name, s.take n, ln, off + 1, ln, off + n + 1⟩ (by simp))
    have hbest := isBest_append_blank (b := b) hb hloc hne hc
    have hrest := ih (fun t ht => hopen t (by simp [ht]))
      (by intro y hy; rw [List.getLast?_drop] at hy; split at hy
          · cases hy
          · exact hlast y hy)
      (by rw [show off + n + (s.drop n).length = off + s.length by
            simp only [List.length_drop]; omega]; exact hB)
    have := Covers.tok (ln := ln) (off := off) (name := name) hn
      (by simp only [List.length_append]; omega) hbest
      (by rw [List.drop_append_of_le_length hle]; exact hrest)
    rw [List.take_append_of_le_length hle] at this
    exact this
  | @gap s off n segs hn hle hb hcov ih =>
    have hne : s ≠ [] := by intro h; subst h; simp at hle; omega
    have hlt : n < s.length := by
      apply Nat.lt_of_le_of_ne hle
      intro he
      have hall := gap_is_whitespace hb
      rw [he, List.take_length] at hall
      cases hl : s.getLast? with
      | none => exact hne (List.getLast?_eq_none_iff.mp hl)
      | some y =>
        have := List.all_eq_true.mp hall y (List.mem_of_getLast? hl)
        rw [hlast y hl] at this; cases this
    have hloc := localCond_of_gap hb hn hlt
    have hbest := isBest_append_blank (b := b) hb hloc hne hc
    have hrest := ih (fun t ht => hopen t (by simpa using ht))
      (by intro y hy; rw [List.getLast?_drop] at hy; split at hy
          · cases hy
          · exact hlast y hy)
      (by rw [show off + n + (s.drop n).length = off + s.length by
            simp only [List.length_drop]; omega]; exact hB)
    have := Covers.gap (ln := ln) (off := off) hn
      (by simp only [List.length_append]; omega) hbest
      (by rw [List.drop_append_of_le_length hle]; exact hrest)
    rw [List.take_append_of_le_length hle] at this
    exact this

/-- … and so do stuck positions: an unrecognized character after the blank is reported at
the same place. -/
theorem stuck_append_blank {ln : Nat} {a : List Char} {off : Nat} {segsA : List Seg}
    (hA : Covers tokTable.pats ln a off segsA) {c : Char} {b : List Char} {k : Nat}
    (hc : isSpaceChar c = true)
    (hopen : ∀ t ∈ tokensOf segsA, ¬ OpenEnded t.sym)
    (hlast : ∀ y, a.getLast? = some y → isSpaceChar y = false)
    (hB : StuckAt tokTable.pats (c :: b) (off + a.length) k) :
    StuckAt tokTable.pats (a ++ c :: b) off k := by
  induction hA with
  | nil off => simpa using hB
  | @tok s off n name segs hn hle hb hcov ih =>
    have hne : s ≠ [] := by intro h; subst h; simp at hle; omega
    have hloc := localCond_of_token hb hn (hopen ⟨name, s.take n, ln, off + 1, ln, off + n + 1⟩ (by simp))
    have hbest := isBest_append_blank (b := b) hb hloc hne hc
    have hrest := ih (fun t ht => hopen t (by simp [ht]))
      (by intro y hy; rw [List.getLast?_drop] at hy; split at hy
          · cases hy
          · exact hlast y hy)
      (by rw [show off + n + (s.drop n).length = off + s.length by
            simp only [List.length_drop]; omega]; exact hB)
    exact .step hn hbest (by rw [List.drop_append_of_le_length hle]; exact hrest)
  | @gap s off n segs hn hle hb hcov ih =>
    have hne : s ≠ [] := by intro h; subst h; simp at hle; omega
    have hlt : n < s.length := by
      apply Nat.lt_of_le_of_ne hle
      intro he
      have hall := gap_is_whitespace hb
      rw [he, List.take_length] at hall
      cases hl : s.getLast? with
      | none => exact hne (List.getLast?_eq_none_iff.mp hl)
      | some y =>
        have := List.all_eq_true.mp hall y (List.mem_of_getLast? hl)
        rw [hlast y hl] at this; cases this
    have hloc := localCond_of_gap hb hn hlt
    have hbest := isBest_append_blank (b := b) hb hloc hne hc
    have hrest := ih (fun t ht => hopen t (by simpa using ht))
      (by intro y hy; rw [List.getLast?_drop] at hy; split at hy
          · cases hy
          · exact hlast y hy)
      (by rw [show off + n + (s.drop n).length = off + s.length by
            simp only [List.length_drop]; omega]; exact hB)
    exact .step hn hbest (by rw [List.drop_append_of_le_length hle]; exact hrest)

/-! ### The starting offset of `tokLine` only shifts columns -/

def Token.shift (k : Nat) (t : Token) : Token := { t with sc := t.sc + k, ec := t.ec + k }

def LineRes.shift (k : Nat) : LineRes → LineRes
  | .fuel => .fuel
  | .err o => .err (o + k)
  | .ok ts => .ok (ts.map (Token.shift k))

theorem tokLine_shift (pats : List Pat) (ln k : Nat) :
    ∀ fuel s off, tokLine pats ln fuel s (off + k) = (tokLine pats ln fuel s off).shift k := by
  intro fuel
  induction fuel with
  | zero => intro s off; cases s <;> simp [tokLine, LineRes.shift]
  | succ f ih =>
    intro s off
    cases s with
    | nil => simp [tokLine, LineRes.shift]
    | cons c cs =>
      simp only [tokLine]
      split
      · rfl
      · rfl
      · rename_i n sy hb
        rw [show off + k + (n + 1) = off + (n + 1) + k by omega, ih]
        cases hrec : tokLine pats ln f (List.drop (n + 1) (c :: cs)) (off + (n + 1)) with
        | fuel => rfl
        | err o => rfl
        | ok ts =>
          cases sy with
          | none => rfl
          | some name =>
            simp only [LineRes.shift, List.map_cons, Token.shift, LineRes.ok.injEq, List.cons.injEq,
              Token.mk.injEq, true_and, and_true]
            omega

end Emboss.Tok
