/-
C10, table-specific: classification of a maximal word run that starts with a letter,
`_` or `$`: which pattern matches the whole run, in terms of the language reference's
name rules.
-/
import Emboss.Lemmas.TokWords
namespace Emboss.Tok
open Emboss.Regex Emboss.Tok.Class Emboss.Generated

theorem IsBest.find {pats s n sy} (h : IsBest pats s n sy) :
    ∃ p, pats.find? (fun p => matchLen p.re s == .ok n) = some p ∧ p.sym = sy := by
  obtain ⟨pre, p, post, hp, hm, hs, hpre, _⟩ := h
  refine ⟨p, ?_, hs⟩
  rw [hp, List.find?_append]
  have : pre.find? (fun p => matchLen p.re s == .ok n) = none := by
    rw [List.find?_eq_none]
    intro q hq hc
    have : matchLen q.re s = .ok n := by simpa using hc
    have := hpre q hq n this
    omega
  rw [this]
  simp [hm]

/-- Full-match test as a Boolean. -/
def full (r : Regex) (w rest : List Char) : Bool := matchLen r (w ++ rest) == .ok w.length

theorem full_iff {r w rest} : full r w rest = true ↔ matchLen r (w ++ rest) = .ok w.length := by
  simp [full]

theorem full_lit (l w rest : List Char) : full (litRegex l) w rest = (l == w) := by
  rw [Bool.eq_iff_iff, full_iff, matchLen_litRegex]
  simp only [beq_iff_eq]
  rw [← lit_full l w rest]
  constructor
  · intro h
    split at h
    · rename_i hp; simp only [MRes.ok.injEq] at h; exact ⟨hp, h⟩
    · cases h
  · rintro ⟨hp, hl⟩; rw [if_pos hp, hl]

section
variable {w rest : List Char} (h : WordRun w rest)
include h

theorem stop_of_wo {c : CClass} (hc : wordOnlyC c) : ∀ x, rest.head? = some x → c.mem x = false := by
  intro x hx
  cases hm : c.mem x with
  | false => rfl
  | true => have := hc x hm; rw [h.stop x hx] at this; cases this

omit h in
theorem full_of_fail {r : Regex} (hf : matchLen r (w ++ rest) = .fail) : full r w rest = false := by
  simp [full, hf]

theorem full_resCamel : full reResCamel w rest =
    ("EmbossReserved".toList.isPrefixOf w && (w.drop 14).all (fun c => isUpper c || isLower c || isDigit c)) := by
  rw [Bool.eq_iff_iff, full_iff, reResCamel, star, litThen_star_full _ _ _ _ (stop_of_wo h wo_resCamelTail)]
  have hl : "EmbossReserved".toList.length = 14 := by decide
  have hm : cResCamelTail.mem = _ := funext cResCamelTail_mem
  rw [hl, hm, Bool.and_eq_true]

theorem full_resSnake : full reResSnake w rest =
    ("emboss_reserved".toList.isPrefixOf w && (w.drop 15).all (fun c => isUs c || isLower c || isDigit c)) := by
  rw [Bool.eq_iff_iff, full_iff, reResSnake, star, litThen_star_full _ _ _ _ (stop_of_wo h wo_resSnakeTail)]
  have hl : "emboss_reserved".toList.length = 15 := by decide
  have hm : cResSnakeTail.mem = _ := funext cResSnakeTail_mem
  rw [hl, hm, Bool.and_eq_true]

theorem full_resShouty : full reResShouty w rest =
    ("EMBOSS_RESERVED".toList.isPrefixOf w && (w.drop 15).all (fun c => isUs c || isUpper c || isDigit c)) := by
  rw [Bool.eq_iff_iff, full_iff, reResShouty, star, litThen_star_full _ _ _ _ (stop_of_wo h wo_resShoutyTail)]
  have hl : "EMBOSS_RESERVED".toList.length = 15 := by decide
  have hm : cResShoutyTail.mem = _ := funext cResShoutyTail_mem
  rw [hl, hm, Bool.and_eq_true]

theorem full_bool : full reBool w rest = (w == "true".toList || w == "false".toList) := by
  have ht := lit_full "true".toList w rest
  have hf := lit_full "false".toList w rest
  have hv : matchLen reBool (w ++ rest) =
      if "true".toList.isPrefixOf (w ++ rest) then .ok 4
      else if "false".toList.isPrefixOf (w ++ rest) then .ok 5 else .fail := by
    have h1 := matchLen_litRegex "true".toList (w ++ rest)
    have h2 := matchLen_litRegex "false".toList (w ++ rest)
    rw [matchLen_eq] at h1 h2
    rw [reBool, matchLen_eq, matchK_alt, h1, h2]
    split
    · rename_i hx
      split at hx
      · cases hx
      · rename_i hp; rw [if_neg hp]; rfl
    · rename_i x hx
      split
      · rfl
      · rename_i hp; rw [if_neg hp] at hx; exact absurd rfl hx
  rw [Bool.eq_iff_iff, full_iff, hv]
  simp only [Bool.or_eq_true, beq_iff_eq]
  by_cases htp : "true".toList.isPrefixOf (w ++ rest) = true
  · rw [if_pos htp]
    constructor
    · intro hh
      simp only [MRes.ok.injEq] at hh
      exact .inl (ht.mp ⟨htp, hh⟩).symm
    · rintro (hw | hw)
      · subst hw; rfl
      · subst hw; revert htp; simp [List.isPrefixOf]
  · rw [if_neg htp]
    have hnt : w ≠ "true".toList := by
      intro hw; exact htp (ht.mpr hw.symm).1
    by_cases hfp : "false".toList.isPrefixOf (w ++ rest) = true
    · rw [if_pos hfp]
      constructor
      · intro hh
        simp only [MRes.ok.injEq] at hh
        exact .inr (hf.mp ⟨hfp, hh⟩).symm
      · rintro (hw | hw)
        · exact absurd hw hnt
        · subst hw; rfl
    · rw [if_neg hfp]
      constructor
      · intro hh; cases hh
      · rintro (hw | hw)
        · exact absurd hw hnt
        · exact absurd (hf.mpr hw.symm).1 hfp

theorem full_snake : full reSnake w rest = isSnake w := by
  obtain ⟨x, t, rfl, hx⟩ := h.cons
  have hstop := stop_of_wo h wo_snakeTail
  simp only [full, reSnake, star, matchLen_eq, List.cons_append, matchK_seq, matchK_chr_cons, kOff_cons,
    star_end, takeUpTo, cLower_mem, isSnake, List.length_cons]
  by_cases hl : isLower x = true
  · simp only [hl, if_true, Bool.true_and]
    rw [Bool.eq_iff_iff]
    simp only [beq_iff_eq, MRes.ok.injEq]
    have hm : cSnakeTail.mem = _ := funext cSnakeTail_mem
    rw [← hm, ← span_append_full cSnakeTail t rest hstop]
    constructor <;> intro hh <;> omega
  · simp [hl]

/-- `[A-Z] S* U S*` (ShoutyWord, CamelWord): whole run iff upper-case start, tail in `S`,
some tail character in `U`. -/
theorem full_upper_mid (S U : CClass) (hsub : ∀ x, U.mem x = true → S.mem x = true)
    (hS : wordOnlyC S) (x : Char) (t : List Char) (hw : w = x :: t) :
    full (.seq (.chr cUpper) (.seq (star S) (.seq (.chr U) (star S)))) w rest =
      (isUpper x && t.all S.mem && t.any U.mem) := by
  subst hw
  have hstop := stop_of_wo h hS
  simp only [full, star, matchLen_eq, List.cons_append, matchK_seq, matchK_chr_cons, kOff_cons, cUpper_mem,
    List.length_cons]
  by_cases hu : isUpper x = true
  · simp only [hu, if_true, Bool.true_and]
    rw [star_mid_star S U hsub _ (kOff_ne_fail _ _), ← drop_span, kOff_drop _ _ _ (span_le _ _)]
    by_cases hall : t.all S.mem = true
    · have hs := (span_append_full S t rest hstop).mpr hall
      rw [takeWhile_append_full S t rest hall hstop, hs, hall]
      by_cases hany : t.any U.mem = true
      · simp [hany, Nat.add_comm]
      · simp [hany]
    · have hs : span S (t ++ rest) ≠ t.length := fun hh => hall ((span_append_full S t rest hstop).mp hh)
      have hall' : t.all S.mem = false := by simpa using hall
      rw [hall', Bool.false_and]
      split
      · simp only [beq_eq_false_iff_ne, ne_eq, MRes.ok.injEq]; omega
      · rfl
  · simp [hu]

theorem full_shouty : full reShouty w rest = isShouty w := by
  obtain ⟨x, t, hw, _⟩ := h.cons
  rw [reShouty, full_upper_mid h cShoutyTail cShoutyMid ?_ wo_shoutyTail x t hw, hw]
  · have h1 : cShoutyTail.mem = _ := funext cShoutyTail_mem
    have h2 : cShoutyMid.mem = _ := funext cShoutyMid_mem
    rw [h1, h2]; rfl
  · intro y hy; rw [cShoutyMid_mem] at hy; rw [cShoutyTail_mem]
    simp only [Bool.or_eq_true] at hy ⊢
    rcases hy with hy | hy
    · exact .inl (.inl hy)
    · exact .inl (.inr hy)

theorem full_camel : full reCamel w rest = isCamel w := by
  obtain ⟨x, t, hw, _⟩ := h.cons
  rw [reCamel, full_upper_mid h cCamelTail cLower ?_ wo_camelTail x t hw, hw]
  · have h1 : cCamelTail.mem = _ := funext cCamelTail_mem
    have h2 : cLower.mem = _ := funext cLower_mem
    rw [h1, h2]; rfl
  · intro y hy; rw [cLower_mem] at hy; rw [cCamelTail_mem]
    simp [hy]

omit h in
theorem head_fail (c : CClass) (r : Regex) (x : Char) (t rest : List Char) (hc : c.mem x = false) :
    matchLen (.seq (.chr c) r) (x :: t ++ rest) = .fail := by
  simp [matchLen, matchK, hc]

/-- The word starts with a letter, `_` or `$`: none of the number patterns applies. -/
theorem number_patterns_fail (x : Char) (t : List Char) (hw : w = x :: t) (hd : isDigit x = false) :
    full reDec w rest = false ∧ full reDecGrouped w rest = false ∧ full reHex w rest = false ∧
    full reHex4 w rest = false ∧ full reHex8 w rest = false ∧ full reBin w rest = false ∧
    full reBin4 w rest = false ∧ full reBin8 w rest = false ∧ full reBadNumber w rest = false := by
  subst hw
  have h0 : (litC '0').mem x = false := by
    rw [litC_mem]
    cases hx : (x == '0') with
    | false => rfl
    | true =>
      have : x = '0' := by simpa using hx
      subst this; revert hd; decide
  have hdm : cDigit.mem x = false := by rw [cDigit_mem]; exact hd
  refine ⟨?_, ?_, ?_, ?_, ?_, ?_, ?_, ?_, ?_⟩
  · apply full_of_fail
    rw [reDec, plus, matchLen_eq, plus_end, List.cons_append, span_cons, hdm]; simp
  · apply full_of_fail
    rw [reDecGrouped, grouped, matchLen_eq, matchK_seq, List.cons_append, rep_chr_cons_succ, hdm]; simp
  all_goals first
    | exact full_of_fail (head_fail _ _ x t rest h0)
    | exact full_of_fail (head_fail _ _ x t rest hdm)

theorem nonword_patterns_fail :
    full reString w rest = false ∧ full reDoc w rest = false ∧ full reDocEmpty w rest = false ∧
    full reBadDoc w rest = false ∧ full reSpace w rest = false ∧ full reComment w rest = false := by
  refine ⟨?_, ?_, ?_, ?_, ?_, ?_⟩
  · exact full_of_fail (matchLen_head_fail _ _ h (litC_nonword _ (by decide)))
  · exact full_of_fail (matchLen_head_fail _ _ h (litC_nonword _ (by decide)))
  · exact full_of_fail (matchLen_head_fail _ _ h (litC_nonword _ (by decide)))
  · exact full_of_fail (matchLen_head_fail _ _ h (litC_nonword _ (by decide)))
  · exact full_of_fail (plus_head_fail _ h space_not_word)
  · exact full_of_fail (matchLen_head_fail _ _ h (litC_nonword _ (by decide)))

theorem full_badWord : full reBadWord w rest = true := by
  rw [full_iff]; exact badWord_full h

/-- Which literal matches the whole run: exactly the keyword / `$`-word equal to it. -/
theorem literal_find :
    ((punctLiterals ++ keywords).map mkLit).find? (fun p => full p.re w rest) =
      (keywordOf w).map mkLit := by
  rw [List.find?_map]
  have hP : ((fun p : Pat => full p.re w rest) ∘ mkLit) = fun l => l.toList == w := by
    funext l; simp only [Function.comp, mkLit]; exact full_lit _ _ _
  rw [hP, List.find?_append]
  have : punctLiterals.find? (fun l => l.toList == w) = none := by
    rw [List.find?_eq_none]
    intro l hl hc
    have hw : l.toList = w := by simpa using hc
    have := List.all_eq_true.mp punct_heads l hl
    obtain ⟨x, t, rfl, hx⟩ := h.cons
    rw [hw] at this
    simp only [Bool.not_eq_true'] at this
    rw [hx] at this; cases this
  rw [this]; rfl

end

/-- **Names.**  At the start of a maximal word run that begins with a letter, `_` or `$`,
the pattern loop returns the whole run with the symbol the language reference assigns. -/
theorem bestMatch_word {w rest : List Char} (h : WordRun w rest)
    (hd : ∀ x t, w = x :: t → isDigit x = false) :
    bestMatch tokTable.pats (w ++ rest) 0 none = some (w.length, some (classifyWord w)) := by
  obtain ⟨sy, hb, hbest⟩ := word_run_best h
  rw [hb]
  obtain ⟨p, hfind, hsym⟩ := hbest.find
  have hfind' : tokTable.pats.find? (fun p => full p.re w rest) = some p := hfind
  rw [tokTable_pats, List.find?_append, literal_find h] at hfind'
  obtain ⟨x, t, hw, _⟩ := h.cons
  obtain ⟨n1, n2, n3, n4, n5, n6, n7, n8, n9⟩ := number_patterns_fail h x t hw (hd x t hw)
  obtain ⟨m1, m2, m3, m4, m5, m6⟩ := nonword_patterns_fail h
  congr 2
  rw [← hsym]
  unfold classifyWord
  cases hk : keywordOf w with
  | some l =>
    rw [hk] at hfind'
    simp only [Option.map_some, Option.some_or, Option.some.injEq] at hfind'
    rw [← hfind']; rfl
  | none =>
    rw [hk] at hfind'
    simp only [Option.map_none, Option.none_or, expectedRegexes, List.find?_cons, full_resCamel h,
      full_resSnake h, full_resShouty h, full_bool h, full_snake h, full_shouty h, full_camel h,
      full_badWord h, n1, n2, n3, n4, n5, n6, n7, n8, n9, m1, m2, m3, m4, m5, m6] at hfind'
    by_cases c1 : ("EmbossReserved".toList.isPrefixOf w &&
        (w.drop 14).all (fun c => isUpper c || isLower c || isDigit c)) = true
    · rw [c1] at hfind'; simp only [Option.some.injEq] at hfind'
      have hr : isReserved w = true := by simp only [isReserved]; rw [c1]; rfl
      rw [← hfind', if_pos hr]
    have c1' := (Bool.not_eq_true _).mp c1
    rw [c1'] at hfind'
    by_cases c2 : ("emboss_reserved".toList.isPrefixOf w &&
        (w.drop 15).all (fun c => isUs c || isLower c || isDigit c)) = true
    · rw [c2] at hfind'; simp only [Option.some.injEq] at hfind'
      have hr : isReserved w = true := by simp only [isReserved]; rw [c1', c2]; rfl
      rw [← hfind', if_pos hr]
    have c2' := (Bool.not_eq_true _).mp c2
    rw [c2'] at hfind'
    by_cases c3 : ("EMBOSS_RESERVED".toList.isPrefixOf w &&
        (w.drop 15).all (fun c => isUs c || isUpper c || isDigit c)) = true
    · rw [c3] at hfind'; simp only [Option.some.injEq] at hfind'
      have hr : isReserved w = true := by simp only [isReserved]; rw [c1', c2', c3]; rfl
      rw [← hfind', if_pos hr]
    have c3' := (Bool.not_eq_true _).mp c3
    rw [c3'] at hfind'
    have hr : isReserved w = false := by simp only [isReserved]; rw [c1', c2', c3']; rfl
    have hr' : ¬ isReserved w = true := by rw [hr]; simp
    rw [if_neg hr']
    by_cases c4 : (w == "true".toList || w == "false".toList) = true
    · rw [c4] at hfind'; simp only [Option.some.injEq] at hfind'
      have c4' : (w = "true".toList ∨ w = "false".toList) := by simpa using c4
      rw [← hfind', if_pos c4']
    have c4' := (Bool.not_eq_true _).mp c4
    rw [c4'] at hfind'
    have c4'' : ¬ (w = "true".toList ∨ w = "false".toList) := by simpa using c4
    by_cases c5 : isSnake w = true
    · rw [c5] at hfind'; simp only [Option.some.injEq] at hfind'
      rw [← hfind', if_neg c4'', if_pos c5]
    have c5' := (Bool.not_eq_true _).mp c5
    rw [c5'] at hfind'
    by_cases c6 : isShouty w = true
    · rw [c6] at hfind'; simp only [Option.some.injEq] at hfind'
      rw [← hfind', if_neg c4'', if_neg c5, if_pos c6]
    have c6' := (Bool.not_eq_true _).mp c6
    rw [c6'] at hfind'
    by_cases c7 : isCamel w = true
    · rw [c7] at hfind'; simp only [Option.some.injEq] at hfind'
      rw [← hfind', if_neg c4'', if_neg c5, if_neg c6, if_pos c7]
    have c7' := (Bool.not_eq_true _).mp c7
    rw [c7'] at hfind'
    simp only [Option.some.injEq] at hfind'
    rw [← hfind', if_neg c4'', if_neg c5, if_neg c6, if_neg c7]

end Emboss.Tok
