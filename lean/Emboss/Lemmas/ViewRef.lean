/-
Helper lemmas relating the declarative reference `RFact` (Spec/ViewRef.lean) and the generated-
code model `G` (Model/View.lean) on flat structures.
-/
import Emboss.Spec.ViewRef
import Emboss.Lemmas.ViewMono2
namespace Emboss.ViewRef
open Emboss.View

mutual
  theorem evalR_eq_eval (ρ : Env) : ∀ e : Expr, foldFree e = true → evalR ρ e = eval ρ e
    | .const v, _ => by simp only [evalR, eval]
    | .fold _ _, h => by simp [foldFree] at h
    | .ref p, _ => by simp only [evalR, eval]
    | .param n, _ => by simp only [evalR, eval]
    | .has p, _ => by simp only [evalR, eval]
    | .lv, _ => by simp only [evalR, eval]
    | .op f args, h => by
      simp only [foldFree] at h
      simp only [evalR, eval, evalRList_eq_evalList ρ args h]
  theorem evalRList_eq_evalList (ρ : Env) :
      ∀ es : Exprs, foldFreeList es = true → evalRList ρ es = evalList ρ es
    | .nil, _ => by simp only [evalRList, evalList]
    | .cons e es, h => by
      simp only [foldFreeList, Bool.and_eq_true] at h
      simp only [evalRList, evalList, evalR_eq_eval ρ e h.1, evalRList_eq_evalList ρ es h.2]
end

theorem leNumber_eq (d : List Nat) : leNumber d = decodeLE d := by
  induction d with
  | nil => rfl
  | cons b r ih => simp only [leNumber, List.foldr_cons, decodeLE] at *; rw [ih]

theorem number_eq (bo : ByteOrder) (d : List Nat) : number bo d = decodeBytes bo d := by
  cases bo <;> simp only [number, decodeBytes, leNumber_eq]

theorem specDecode_eq (k : ScalarKind) (bits raw : Nat) (hk : (k == .uint || k == .int) = true)
    (hb : 0 < bits) : specDecode k bits raw = scalarDecode k bits raw := by
  cases k <;> simp at hk
  · rfl
  · simp only [specDecode, scalarDecode, toSigned]
    congr 2
    by_cases h : raw < 2 ^ (bits - 1)
    · rw [if_pos h, if_neg (by omega)]
    · rw [if_neg h, if_pos ⟨by omega, by omega⟩]

theorem field_mem {sd : StructDef} {x : String} {f : Field} (h : sd.field x = some f) :
    f ∈ sd.fields := by
  unfold StructDef.field at h
  exact List.mem_of_find?_eq_some h

theorem flat_of_field {sd : StructDef} (hflat : flatStruct sd = true) {x : String} {f : Field}
    (h : sd.field x = some f) : flatField f = true := by
  unfold flatStruct at hflat
  simp only [Bool.and_eq_true, List.all_eq_true] at hflat
  exact hflat.2 f (field_mem h)

end Emboss.ViewRef
