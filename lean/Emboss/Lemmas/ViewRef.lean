/-
Soundness and completeness of the generated-code model `G` (Model/View.lean) w.r.t. the
declarative reference `RFact` (Spec/ViewRef.lean) on the fragment `refModule`: byte structures and
`bits` containers, nested at any depth, scalars (`UInt`/`Int`/`Flag`/unsigned enums), virtual
fields, aliases, conditions, parameters, `[requires]`, arrays of scalars.
-/
import Emboss.Lemmas.ViewRefBase
namespace Emboss.ViewRef
open Emboss.View

theorem requiresOk_of_valueIsOk {o : Oracle} {w : SView} {req : Option Expr} {v : Val}
    (hff : foldFreeOpt req = true) (h : valueIsOk o w req v = true) :
    requiresOk (envOf o w none) req v := by
  intro r hr
  subst hr
  simp only [foldFreeOpt] at hff
  simp only [valueIsOk, beq_iff_eq] at h
  rw [evalR_eq_eval _ _ hff]
  have : ({ envOf o w none with lv := some v } : Env) = envOf o w (some v) := rfl
  rw [this]
  exact evalBool_some h

/-- everything the oracle reports about `w` (values, presences) is a fact of R -/
def FactsOf (m : Module) (o : Oracle) (w : SView) : Prop :=
  (∀ p v, o.read w p = some v → RFact m w (.val p v)) ∧
  (∀ p b, o.has w p = some b → RFact m w (.pres p b))

theorem pres_sound {m : Module} {o : Oracle} {w : SView} (href : refStruct m w.sd = true)
    (hfacts : FactsOf m o w) {x : String} {f : Field} {b : Bool} (hf : w.sd.field x = some f)
    (hb : hasField o w f = some b) : RFact m w (.pres [x] b) := by
  have hff := ref_of_field href hf
  unfold refField at hff
  simp only [Bool.and_eq_true] at hff
  refine RFact.pres (envOf o w none) hf hfacts.1 hfacts.2 (fun _ _ h => h) rfl ?_
  rw [evalR_eq_eval _ _ hff.1]
  exact evalBool_some hb

/-- facts of the view a structure-typed accessor returns are facts of the enclosing view -/
theorem sub_sound {m : Module} {P : StructDef → Prop} (hm : Closed m P) {o : Oracle} {w : SView}
    (hP : P w.sd) (hwf : viewWF w = true) (hfacts : FactsOf m o w)
    {x : String} {f : Field} (hf : w.sd.field x = some f)
    {start size : Expr} {name : String} {bits : Nat} {args : Exprs} {bo : ByteOrder}
    (hk : f.kind = .phys start size (.struct name bits args) bo) {w' : SView}
    (hsv : subView o m w f start size name bits args bo = some w') :
    P w'.sd ∧ viewWF w' = true ∧
      ∀ inner outer, inner.under x = some outer → RFact m w' inner → RFact m w outer := by
  have href := hm.ref _ hP
  have hff := ref_of_field href hf
  unfold refField at hff
  rw [hk] at hff
  simp only [Bool.and_eq_true] at hff
  obtain ⟨_, ⟨⟨hfstart, hfsize⟩, hfargs⟩, hchild⟩ := hff
  obtain ⟨sd', hfind, hcase⟩ := subView_inv hsv
  rw [hfind] at hchild
  simp only at hchild
  have hrefsd' : P sd' := hm.step _ hP x f hf _ _ _ _ _ _ _ hk hfind
  rcases hcase with ⟨vs, st, hargs, hst, hw'⟩ | hw'
  · obtain ⟨off, s, hhas, hsize, hstart, hs0, hoff0, hsteq⟩ := physStorage_some hst
    have hlit : ∀ zl, size = .const (.int zl) → zl.toNat = s.toNat := by
      intro zl hzl; subst hzl
      have := evalInt_some hsize
      simp only [eval, Option.some.injEq, Val.int.injEq] at this
      rw [this]
    obtain ⟨hwin, hwf'⟩ := window_bridge hwf hchild bo off.toNat s.toNat hlit (some vs)
    rw [hsteq, hwin] at hw'
    subst hw'
    refine ⟨hrefsd', hwf', ?_⟩
    intro inner outer hout hin
    refine RFact.sub (s := off) (z := s) (envOf o w none) hf hk hfind (pres_sound href hfacts hf hhas)
      hfacts.1 hfacts.2 (fun _ _ h => h) rfl ?_ ?_ hoff0 hs0 ?_ hin hout
    · rw [evalR_eq_eval _ _ hfstart]; exact evalInt_some hstart
    · rw [evalR_eq_eval _ _ hfsize]; exact evalInt_some hsize
    · rw [evalArgsR_eq _ _ hfargs]; exact hargs
  · subst hw'
    exact ⟨hrefsd', viewWF_null sd', fun inner outer hout hin => RFact.nullsub hf hk hfind hin hout⟩

/-- **Soundness of the generated-code model w.r.t. the reference**: at every fuel, everything
`G` reports as known about any view of the fragment — a readable field's value, a presence, at
any depth — is a fact of R. -/
theorem G_sound (m : Module) {P : StructDef → Prop} (hm : Closed m P) : ∀ n (w : SView), P w.sd →
    viewWF w = true → FactsOf m (G m n) w
  | 0, w, _, _ => by constructor <;> intro p v h <;> simp [G, Oracle.bottom] at h
  | n + 1, w, hP, hwf => by
    have ih := G_sound m hm n
    have ihw := ih w hP hwf
    have href := hm.ref _ hP
    constructor
    · intro p v h
      cases p with
      | nil => simp [G, step] at h
      | cons x rest =>
        simp only [G] at h
        cases hf : w.sd.field x with
        | none => simp [step, hf] at h
        | some f =>
          have hff := ref_of_field href hf
          unfold refField at hff
          simp only [Bool.and_eq_true] at hff
          obtain ⟨hcond, hkind⟩ := hff
          cases hk : f.kind with
          | alias t =>
            rw [step_read_alias m _ w hf hk] at h
            by_cases hh : hasField (G m n) w f = some true
            · rw [if_pos hh] at h
              exact RFact.aliasVal hf hk (pres_sound href ihw hf hh) (ihw.1 _ _ h)
            · rw [if_neg hh] at h; cases h
          | virt value req =>
            rw [hk] at hkind
            simp only [Bool.and_eq_true] at hkind
            cases rest with
            | cons y ys => rw [step_read_virt_deep m _ w hf hk] at h; cases h
            | nil =>
              rw [step_read_virt m _ w hf hk] at h
              unfold virtRead at h
              cases hv : eval (envOf (G m n) w none) value with
              | none => rw [hv] at h; cases h
              | some v' =>
                rw [hv] at h
                simp only at h
                by_cases hok : valueIsOk (G m n) w req v' = true
                · rw [if_pos hok] at h; cases h
                  refine RFact.virt (envOf (G m n) w none) hf hk ihw.1 ihw.2 (fun _ _ h => h) rfl ?_
                    (requiresOk_of_valueIsOk hkind.2 hok)
                  rw [evalR_eq_eval _ _ hkind.1]; exact hv
                · rw [if_neg hok] at h; cases h
          | phys start size ty bo =>
            rw [hk] at hkind
            cases ty with
            | array el es => rw [step_read_array m _ w hf hk] at h; cases h
            | scalar k bits req =>
              simp only [Bool.and_eq_true] at hkind
              obtain ⟨⟨⟨hkk, hfstart⟩, hfreq⟩, hsz⟩ := hkind
              cases rest with
              | cons y ys => rw [step_read_scalar_deep m _ w hf hk] at h; cases h
              | nil =>
                rw [step_read_scalar m _ w hf hk] at h
                cases hst : physStorage (G m n) w f start size with
                | none => rw [hst] at h; cases h
                | some st =>
                  rw [hst] at h
                  simp only at h
                  obtain ⟨off, s, hhas, hsize, hstart, hs0, hoff0, hsteq⟩ := physStorage_some hst
                  obtain ⟨z, hzl, hz0, hbits, h8, h1⟩ := sizeIsBits_inv hsz
                  subst hzl
                  have hsz' : z = s := by
                    have := evalInt_some hsize
                    simp only [eval, Option.some.injEq, Val.int.injEq] at this
                    exact this
                  subst hsz'
                  rw [hsteq, leaf_bridge hwf hbits z.toNat h8 h1 bo off.toNat] at h
                  obtain ⟨raw, hraw, _, hdec, hok⟩ := leafRead_bits h
                  refine RFact.scalar (s := off) (z := z) (envOf (G m n) w none) hf hk
                    (pres_sound href ihw hf hhas) ihw.1 ihw.2 (fun _ _ h => h) rfl ?_ ?_ hoff0 hs0 hraw ?_
                    (requiresOk_of_valueIsOk hfreq hok)
                  · rw [evalR_eq_eval _ _ hfstart]; exact evalInt_some hstart
                  · simp only [evalR]
                  · rw [specDecode_eq k bits _ hkk hbits]; exact hdec
            | struct name bits args =>
              cases rest with
              | nil => rw [step_read_struct_nil m _ w hf hk] at h; cases h
              | cons y ys =>
                rw [step_read_struct m _ w hf hk] at h
                cases hsv : subView (G m n) m w f start size name bits args bo with
                | none => rw [hsv] at h; cases h
                | some w' =>
                  rw [hsv] at h
                  simp only at h
                  obtain ⟨hr', hw', hlift⟩ := sub_sound hm hP hwf ihw hf hk hsv
                  exact hlift _ _ rfl ((ih w' hr' hw').1 _ _ h)
    · intro p b h
      cases p with
      | nil => simp [G, step] at h
      | cons x rest =>
        simp only [G] at h
        cases hf : w.sd.field x with
        | none => simp [step, hf] at h
        | some f =>
          cases rest with
          | nil => rw [step_has_nil m _ w hf] at h; exact pres_sound href ihw hf h
          | cons y ys =>
            cases hk : f.kind with
            | alias t =>
              rw [step_has_alias m _ w hf hk] at h
              by_cases hh : hasField (G m n) w f = some true
              · rw [if_pos hh] at h
                exact RFact.aliasPres hf hk (pres_sound href ihw hf hh) (ihw.2 _ _ h)
              · rw [if_neg hh] at h; cases h
            | virt value req => rw [step_has_virt_deep m _ w hf hk] at h; cases h
            | phys start size ty bo =>
              cases ty with
              | array el es => rw [step_has_array_deep m _ w hf hk] at h; cases h
              | scalar k bits req => rw [step_has_scalar_deep m _ w hf hk] at h; cases h
              | struct name bits args =>
                rw [step_has_struct m _ w hf hk] at h
                cases hsv : subView (G m n) m w f start size name bits args bo with
                | none => rw [hsv] at h; cases h
                | some w' =>
                  rw [hsv] at h
                  simp only at h
                  obtain ⟨hr', hw', hlift⟩ := sub_sound hm hP hwf ihw hf hk hsv
                  exact hlift _ _ rfl ((ih w' hr' hw').2 _ _ h)

end Emboss.ViewRef
