/-
Helper lemmas relating the declarative reference `RFact` (Spec/ViewRef.lean) and the generated-
code model `G` (Model/View.lean) on flat structures.
-/
import Emboss.Spec.ViewRef
import Emboss.Lemmas.ViewMono2
import Emboss.Lemmas.Synth
import Emboss.Model.ViewObs
namespace Emboss.ViewRef
open Emboss.View

mutual
  theorem evalR_eq_eval (ρ : Env) : ∀ e : Expr, foldFree e = true → evalR ρ e = eval ρ e
    | .const v, _ => by simp only [evalR, eval]
    | .fold _ _, h => by simp [foldFree] at h
    | .ref p, _ => by simp only [evalR, eval]
    | .param n, _ => by simp only [evalR, eval]
    | .has p, _ => by simp only [evalR, eval]
    | .lv, _ => by simp only [evalR, eval]
    | .op f args, h => by
      simp only [foldFree] at h
      simp only [evalR, eval, evalRList_eq_evalList ρ args h]
  theorem evalRList_eq_evalList (ρ : Env) :
      ∀ es : Exprs, foldFreeList es = true → evalRList ρ es = evalList ρ es
    | .nil, _ => by simp only [evalRList, evalList]
    | .cons e es, h => by
      simp only [foldFreeList, Bool.and_eq_true] at h
      simp only [evalRList, evalList, evalR_eq_eval ρ e h.1, evalRList_eq_evalList ρ es h.2]
end

theorem leNumber_eq (d : List Nat) : leNumber d = decodeLE d := by
  induction d with
  | nil => rfl
  | cons b r ih => simp only [leNumber, List.foldr_cons, decodeLE] at *; rw [ih]

theorem number_eq (bo : ByteOrder) (d : List Nat) : number bo d = decodeBytes bo d := by
  cases bo <;> simp only [number, decodeBytes, leNumber_eq]

theorem specDecode_eq (k : ScalarKind) (bits raw : Nat) (hk : (k == .uint || k == .int) = true)
    (hb : 0 < bits) : specDecode k bits raw = scalarDecode k bits raw := by
  cases k <;> simp at hk
  · rfl
  · simp only [specDecode, scalarDecode, toSigned]
    congr 2
    by_cases h : raw < 2 ^ (bits - 1)
    · rw [if_pos h, if_neg (by omega)]
    · rw [if_neg h, if_pos ⟨by omega, by omega⟩]

theorem field_mem {sd : StructDef} {x : String} {f : Field} (h : sd.field x = some f) :
    f ∈ sd.fields := by
  unfold StructDef.field at h
  exact List.mem_of_find?_eq_some h

theorem flat_of_field {sd : StructDef} (hflat : flatStruct sd = true) {x : String} {f : Field}
    (h : sd.field x = some f) : flatField f = true := by
  unfold flatStruct at hflat
  simp only [Bool.and_eq_true, List.all_eq_true] at hflat
  exact hflat.2 f (field_mem h)

theorem leaf_root (d : List Nat) (bo : ByteOrder) (bits : Nat) :
    (Storage.bytes (some d)).adaptFor 8 1 bo bits =
      .bits (if d.length * 8 = bits then some (decodeBytes bo d) else none) bits := by
  simp [Storage.adaptFor, Storage.adapt]

/-- what `ρ := envOf o w none` needs to be usable in a rule of `RFact` -/
theorem param_rootView (o : Oracle) (sd : StructDef) (ps : List Val) (buf : List Nat) (n : String) (v : Val)
    (h : (envOf o (rootView sd ps buf) none).param n = some v) : lookupParam sd.params ps n = some v := h

theorem requiresOk_of_valueIsOk {o : Oracle} {w : SView} {req : Option Expr} {v : Val}
    (hff : foldFreeOpt req = true) (h : valueIsOk o w req v = true) :
    requiresOk (envOf o w none) req v := by
  intro r hr
  subst hr
  simp only [foldFreeOpt] at hff
  simp only [valueIsOk, beq_iff_eq] at h
  rw [evalR_eq_eval _ _ hff]
  have : ({ envOf o w none with lv := some v } : Env) = envOf o w (some v) := rfl
  rw [this]
  unfold evalBool at h
  split at h
  · rename_i b hb; simp only [Option.some.injEq] at h; subst h; exact hb
  · cases h

/-- **Soundness of the generated-code model w.r.t. the reference** on flat structures: at every
fuel, everything `G` reports as known — a readable field's value, a presence — is a fact of R. -/
theorem G_sound (m : Module) (sd : StructDef) (hflat : flatStruct sd = true) (ps : List Val)
    (buf : List Nat) : ∀ n,
    (∀ p v, (G m n).read (rootView sd ps buf) p = some v → RFact sd ps buf (.val p v)) ∧
    (∀ p b, (G m n).has (rootView sd ps buf) p = some b → RFact sd ps buf (.pres p b))
  | 0 => by constructor <;> intro p v h <;> simp [G, Oracle.bottom] at h
  | n + 1 => by
    have ih := G_sound m sd hflat ps buf n
    have hpres : ∀ x f b, sd.field x = some f →
        hasField (G m n) (rootView sd ps buf) f = some b → RFact sd ps buf (.pres [x] b) := by
      intro x f b hf hb
      have hff := flat_of_field hflat hf
      unfold flatField at hff
      simp only [Bool.and_eq_true] at hff
      refine RFact.pres (envOf (G m n) (rootView sd ps buf) none) hf ih.1 ih.2
        (param_rootView _ sd ps buf) rfl ?_
      rw [evalR_eq_eval _ _ hff.1]
      unfold hasField evalBool at hb
      split at hb
      · rename_i c hc; simp only [Option.some.injEq] at hb; subst hb; exact hc
      · cases hb
    constructor
    · intro p v h
      cases p with
      | nil => simp [G, step] at h
      | cons x rest =>
        simp only [G, step] at h
        have hsd : (rootView sd ps buf).sd = sd := rfl
        rw [hsd] at h
        cases hf : sd.field x with
        | none => rw [hf] at h; cases h
        | some f =>
          rw [hf] at h
          simp only at h
          have hff := flat_of_field hflat hf
          unfold flatField at hff
          simp only [Bool.and_eq_true] at hff
          obtain ⟨hcond, hkind⟩ := hff
          cases hk : f.kind with
          | alias t => rw [hk] at hkind; cases hkind
          | virt value req =>
            rw [hk] at hkind h
            simp only [Bool.and_eq_true] at hkind
            cases rest with
            | cons y ys => simp at h
            | nil =>
              simp only at h
              unfold virtRead at h
              split at h
              · rename_i v' hv'
                split at h
                · rename_i hok
                  simp only [Option.some.injEq] at h; subst h
                  refine RFact.virt (envOf (G m n) (rootView sd ps buf) none) hf hk ih.1 ih.2
                    (param_rootView _ sd ps buf) rfl ?_ (requiresOk_of_valueIsOk hkind.2 hok)
                  rw [evalR_eq_eval _ _ hkind.1]; exact hv'
                · cases h
              · cases h
          | phys start size ty bo =>
            rw [hk] at hkind h
            cases ty with
            | struct nm b a => cases hkind
            | array e es => cases hkind
            | scalar k bits req =>
              cases rest with
              | cons y ys => simp at h
              | nil =>
                simp only at h
                cases size with
                | const zv =>
                  cases zv with
                  | bool q => simp at hkind
                  | int z =>
                    simp only [Bool.and_eq_true, decide_eq_true_eq, beq_iff_eq] at hkind
                    obtain ⟨⟨⟨⟨hkk, hbits⟩, hfstart⟩, hfreq⟩, hz0, hzb⟩ := hkind
                    cases hst : physStorage (G m n) (rootView sd ps buf) f start (.const (.int z)) with
                    | none => rw [hst] at h; cases h
                    | some st =>
                      rw [hst] at h
                      simp only at h
                      unfold physStorage at hst
                      split at hst
                      · rename_i s' off hhas hsz hoff
                        split at hst
                        · rename_i hnn
                          simp only [Option.some.injEq] at hst
                          have hs'z : s' = z := by
                            unfold evalInt at hsz; simp only [eval] at hsz
                            simp only [Option.some.injEq] at hsz; exact hsz.symm
                          subst hs'z
                          -- the storage handed to the leaf view
                          have hst' : st = .bytes (some ((buf.drop off.toNat).take s'.toNat)) := by
                            rw [← hst]; rfl
                          subst hst'
                          have hunit : sd.unit = 8 := by
                            unfold flatStruct at hflat
                            simp only [Bool.and_eq_true, beq_iff_eq] at hflat
                            exact hflat.1
                          rw [hunit, leaf_root] at h
                          unfold leafRead at h
                          split at h
                          · rename_i raw nb hbitsEq
                            simp only [Storage.bits.injEq] at hbitsEq
                            obtain ⟨hraw, hnb⟩ := hbitsEq
                            split at hraw
                            · rename_i hlen
                              simp only [Option.some.injEq] at hraw
                              split at h
                              · split at h
                                · rename_i xv hdec
                                  split at h
                                  · rename_i hok
                                    simp only [Option.some.injEq] at h; subst h
                                    have hlen' : ((buf.drop off.toNat).take s'.toNat).length = s'.toNat := by
                                      omega
                                    have hin : off.toNat + s'.toNat ≤ buf.length := by
                                      rw [List.length_take, List.length_drop] at hlen'
                                      omega
                                    refine RFact.scalar (s := off) (z := s')
                                      (envOf (G m n) (rootView sd ps buf) none) hf hk
                                      (hpres x f true hf hhas) ih.1 ih.2 (param_rootView _ sd ps buf) rfl
                                      ?_ ?_ hnn.2 hnn.1 hzb hin ?_ (requiresOk_of_valueIsOk hfreq hok)
                                    · rw [evalR_eq_eval _ _ hfstart]
                                      unfold evalInt at hoff
                                      split at hoff
                                      · rename_i i hi; simp only [Option.some.injEq] at hoff; subst hoff; exact hi
                                      · cases hoff
                                    · simp only [evalR]
                                    · rw [number_eq, specDecode_eq k bits _ hkk hbits, hraw]; exact hdec
                                  · cases h
                                · cases h
                              · cases h
                            · cases hraw
                          · cases h
                        · cases hst
                      · cases hst
                | fold a b => simp at hkind
                | ref a => simp at hkind
                | param a => simp at hkind
                | has a => simp at hkind
                | lv => simp at hkind
                | op a b => simp at hkind
    · intro p b h
      cases p with
      | nil => simp [G, step] at h
      | cons x rest =>
        simp only [G, step] at h
        have hsd : (rootView sd ps buf).sd = sd := rfl
        rw [hsd] at h
        cases hf : sd.field x with
        | none => rw [hf] at h; cases h
        | some f =>
          rw [hf] at h
          simp only at h
          cases rest with
          | nil => exact hpres x f b hf h
          | cons y ys =>
            simp only at h
            have hff := flat_of_field hflat hf
            unfold flatField at hff
            simp only [Bool.and_eq_true] at hff
            obtain ⟨_, hkind⟩ := hff
            cases hk : f.kind with
            | alias t => rw [hk] at hkind; cases hkind
            | virt value req => rw [hk] at h; cases h
            | phys start size ty bo =>
              rw [hk] at hkind h
              cases ty with
              | struct nm b a => cases hkind
              | array e es => cases hkind
              | scalar k bits req => cases h

theorem foldFree_sizeClauses : ∀ fs : List Field, fs.all flatField = true →
    foldFreeList (sizeClauses fs) = true
  | [], _ => rfl
  | f :: fs, h => by
    simp only [List.all_cons, Bool.and_eq_true] at h
    have ih := foldFree_sizeClauses fs h.2
    have hf := h.1
    unfold flatField at hf
    simp only [Bool.and_eq_true] at hf
    unfold sizeClauses
    cases hk : f.kind with
    | alias t => simpa only using ih
    | virt a b => simpa only using ih
    | phys start size ty bo =>
      rw [hk] at hf
      cases ty with
      | struct a b c => cases hf.2
      | array a b => cases hf.2
      | scalar k bits req =>
        obtain ⟨hc, hrest⟩ := hf
        simp only [Bool.and_eq_true] at hrest
        have hsz : foldFree size = true := by
          cases size <;> first | rfl | (simp at hrest)
        simp only [foldFreeList, sizeClause, foldFree, hc, hrest.1.1.2, hsz, ih, Bool.and_self]

theorem foldFree_synthSize (fs : List Field) (h : fs.all flatField = true) :
    foldFree (synthSize fs) = true := by
  simp only [synthSize, foldFree, foldFreeList, foldFree_sizeClauses fs h, Bool.and_self]

/-! ### completeness: what R defines, `G` reports once the fuel covers the field's dependencies -/

/-- `ρ1` is below `ρ2` on the references of an expression (and on parameters and `this`). -/
structure LeOn (refs : List (List String)) (ρ1 ρ2 : Env) : Prop where
  read : ∀ p ∈ refs, OLe (ρ1.read p) (ρ2.read p)
  has : ∀ p ∈ refs, OLe (ρ1.has p) (ρ2.has p)
  param : ∀ n, OLe (ρ1.param n) (ρ2.param n)
  lv : OLe ρ1.lv ρ2.lv

theorem LeOn.mono {r1 r2 : List (List String)} {ρ1 ρ2 : Env} (h : LeOn r2 ρ1 ρ2)
    (hs : ∀ p ∈ r1, p ∈ r2) : LeOn r1 ρ1 ρ2 :=
  ⟨fun p hp => h.read p (hs p hp), fun p hp => h.has p (hs p hp), h.param, h.lv⟩

mutual
  theorem eval_le_on {ρ1 ρ2 : Env} : ∀ e : Expr, LeOn (exprRefs e) ρ1 ρ2 → OLe (eval ρ1 e) (eval ρ2 e)
    | .const v, _ => by simp only [eval]; exact OLe.refl _
    | .fold v _, _ => by simp only [eval]; exact OLe.refl _
    | .ref p, h => by simp only [eval]; exact h.read p (by simp [exprRefs])
    | .param n, h => by simp only [eval]; exact h.param n
    | .has p, h => by simp only [eval]; exact OLe.map _ (h.has p (by simp [exprRefs]))
    | .lv, h => by simp only [eval]; exact h.lv
    | .op f args, h => by
      simp only [eval]
      exact applyFn_mono f (evalList_le_on args (by simpa only [exprRefs] using h))
  theorem evalList_le_on {ρ1 ρ2 : Env} :
      ∀ es : Exprs, LeOn (exprsRefs es) ρ1 ρ2 → LLe (evalList ρ1 es) (evalList ρ2 es)
    | .nil, _ => by simp only [evalList]; exact LLe.nil
    | .cons e es, h => by
      simp only [evalList]
      exact LLe.cons
        (eval_le_on e (h.mono (by intro p hp; simp only [exprsRefs, List.mem_append]; exact Or.inl hp)))
        (evalList_le_on es (h.mono (by intro p hp; simp only [exprsRefs, List.mem_append]; exact Or.inr hp)))
end

/-- `[requires]` expressions of the fragment used for completeness mention only `this` and
parameters (the static fuel bound `need` does not follow references inside validators). -/
def reqLocalField (f : Field) : Bool :=
  match f.kind with
  | .phys _ _ (.scalar _ _ req) _ => (optRefs req).isEmpty
  | .virt _ req => (optRefs req).isEmpty
  | _ => true

def reqLocal (sd : StructDef) : Bool := sd.fields.all reqLocalField

theorem need_refs {m : Module} {n : Nat} {sd : StructDef} {x : String} {rest : List String} {f : Field}
    (hf : sd.field x = some f) (h : need m (n + 1) sd (x :: rest) = true) :
    ∀ r ∈ fieldRefs f, need m n sd r = true := by
  simp only [need, hf, Bool.and_eq_true, List.all_eq_true] at h
  exact h.1

theorem valueIsOk_of_requiresOk {o : Oracle} {w : SView} {ρ : Env} {req : Option Expr} {v : Val}
    (hff : foldFreeOpt req = true) (hloc : (optRefs req).isEmpty = true)
    (hp : ∀ n x, ρ.param n = some x → w.param n = some x) (hl : ρ.lv = none)
    (h : requiresOk ρ req v) : valueIsOk o w req v = true := by
  cases req with
  | none => rfl
  | some r =>
    simp only [foldFreeOpt] at hff
    simp only [optRefs, List.isEmpty_iff] at hloc
    have h1 := h r rfl
    rw [evalR_eq_eval _ _ hff] at h1
    have hle : LeOn (exprRefs r) { ρ with lv := some v } (envOf o w (some v)) := by
      rw [hloc]
      exact ⟨fun p hq => (by cases hq), fun p hq => (by cases hq), fun n x hx => hp n x hx, OLe.refl _⟩
    have h2 := eval_le_on r hle _ h1
    simp only [valueIsOk, evalBool, h2, beq_self_eq_true]

/-- **Completeness of `G` w.r.t. the reference** on flat structures: every fact of R is reported
by `G` at every fuel that statically covers the path (`need`, the bound `fuelOK` is built from). -/
theorem G_complete (m : Module) (sd : StructDef) (hflat : flatStruct sd = true)
    (hloc : reqLocal sd = true) (ps : List Val) (buf : List Nat) : ∀ n fact, RFact sd ps buf fact →
    match fact with
    | .val p v => need m n sd p = true → (G m n).read (rootView sd ps buf) p = some v
    | .pres p b => need m n sd p = true → (G m n).has (rootView sd ps buf) p = some b
  | 0, fact, _ => by cases fact <;> simp [need]
  | n + 1, fact, hfact => by
    have ih := G_complete m sd hflat hloc ps buf n
    have hsdu : sd.unit = 8 := by
      unfold flatStruct at hflat
      simp only [Bool.and_eq_true, beq_iff_eq] at hflat
      exact hflat.1
    -- an assignment made of facts is below the model's environment at fuel `n` on covered refs
    have hle : ∀ (ρ : Env) (refs : List (List String)),
        (∀ p v, ρ.read p = some v → RFact sd ps buf (.val p v)) →
        (∀ p c, ρ.has p = some c → RFact sd ps buf (.pres p c)) →
        (∀ k v, ρ.param k = some v → lookupParam sd.params ps k = some v) → ρ.lv = none →
        (∀ r ∈ refs, need m n sd r = true) →
        LeOn refs ρ (envOf (G m n) (rootView sd ps buf) none) := by
      intro ρ refs hr hh hp hl hn
      refine ⟨?_, ?_, ?_, ?_⟩
      · intro p hp' v hv
        exact ih _ (hr p v hv) (hn p hp')
      · intro p hp' c hc
        exact ih _ (hh p c hc) (hn p hp')
      · intro k v hv
        exact hp k v hv
      · rw [hl]; exact OLe.none _
    -- presence
    have hpresence : ∀ x f b, sd.field x = some f → RFact sd ps buf (.pres [x] b) →
        (∀ r ∈ exprRefs f.cond, need m n sd r = true) →
        hasField (G m n) (rootView sd ps buf) f = some b := by
      intro x f b hf hfact hn
      cases hfact with
      | pres ρ hf' hr hh hp hl he =>
        rw [hf] at hf'; cases hf'
        have hff := flat_of_field hflat hf
        unfold flatField at hff
        simp only [Bool.and_eq_true] at hff
        rw [evalR_eq_eval _ _ hff.1] at he
        have := eval_le_on f.cond (hle ρ _ hr hh hp hl hn) _ he
        simp only [hasField, evalBool, this]
    cases hfact with
    | pres ρ hf hr hh hp hl he =>
      rename_i x f b
      intro hneed
      have hrefs := need_refs hf hneed
      have := hpresence x f b hf (RFact.pres ρ hf hr hh hp hl he)
        (fun r hr' => hrefs r (by simp only [fieldRefs, List.mem_append]; exact Or.inl hr'))
      simp only [G, step]
      have hsd : (rootView sd ps buf).sd = sd := rfl
      rw [hsd, hf]
      exact this
    | virt ρ hf hk hr hh hp hl hv hreq =>
      rename_i x f value req v
      intro hneed
      have hrefs := need_refs hf hneed
      have hff := flat_of_field hflat hf
      unfold flatField at hff
      rw [hk] at hff
      simp only [Bool.and_eq_true] at hff
      have hlf : reqLocalField f = true := by
        unfold reqLocal at hloc
        simp only [List.all_eq_true] at hloc
        exact hloc f (field_mem hf)
      unfold reqLocalField at hlf
      rw [hk] at hlf
      rw [evalR_eq_eval _ _ hff.2.1] at hv
      have hv' := eval_le_on value (hle ρ _ hr hh hp hl
        (fun r hr' => hrefs r (by simp only [fieldRefs, hk, List.mem_append]; exact Or.inr hr'))) _ hv
      have hok : valueIsOk (G m n) (rootView sd ps buf) req v = true :=
        valueIsOk_of_requiresOk hff.2.2 hlf (fun k y hy => hp k y hy) hl hreq
      simp only [G, step]
      have hsd : (rootView sd ps buf).sd = sd := rfl
      rw [hsd, hf]
      simp only [hk, virtRead, hv', hok, ↓reduceIte]
    | scalar ρ hf hk hpres hr hh hp hl hs hz hs0 hz0 hsize hin hv hreq =>
      rename_i x f start size k bits req bo s z v
      intro hneed
      have hrefs := need_refs hf hneed
      have hff := flat_of_field hflat hf
      unfold flatField at hff
      rw [hk] at hff
      have hlf : reqLocalField f = true := by
        unfold reqLocal at hloc
        simp only [List.all_eq_true] at hloc
        exact hloc f (field_mem hf)
      unfold reqLocalField at hlf
      rw [hk] at hlf
      cases size with
      | const zv =>
        cases zv with
        | bool q => simp at hff
        | int z' =>
          simp only [Bool.and_eq_true, decide_eq_true_eq, beq_iff_eq] at hff
          obtain ⟨hcond, ⟨⟨⟨hkk, hbits⟩, hfstart⟩, hfreq⟩, hz0', hzb⟩ := hff
          have hzz : z' = z := by
            simp only [evalR, Option.some.injEq, Val.int.injEq] at hz; exact hz
          subst hzz
          rw [evalR_eq_eval _ _ hfstart] at hs
          have hs' := eval_le_on start (hle ρ _ hr hh hp hl
            (fun r hr' => hrefs r (by
              simp only [fieldRefs, hk, List.mem_append]; exact Or.inr (Or.inl (Or.inl hr'))))) _ hs
          have hhas := hpresence x f true hf hpres
            (fun r hr' => hrefs r (by simp only [fieldRefs, List.mem_append]; exact Or.inl hr'))
          have hok : valueIsOk (G m n) (rootView sd ps buf) req v = true :=
            valueIsOk_of_requiresOk hfreq hlf (fun k y hy => hp k y hy) hl hreq
          have hst : physStorage (G m n) (rootView sd ps buf) f start (.const (.int z')) =
              some (.bytes (some ((buf.drop s.toNat).take z'.toNat))) := by
            simp only [physStorage, hhas, evalInt, eval, hs']
            rw [if_pos ⟨hz0, hs0⟩]
            rfl
          have hlen : ((buf.drop s.toNat).take z'.toNat).length * 8 = bits := by
            rw [List.length_take, List.length_drop]; omega
          rw [number_eq, specDecode_eq k bits _ hkk hbits] at hv
          have hsz : leafSizeOk k bits bits = true := by
            unfold leafSizeOk
            cases k <;> simp at hkk ⊢
          simp only [G, step]
          have hsd : (rootView sd ps buf).sd = sd := rfl
          rw [hsd, hf]
          simp only [hk, hst, hsdu, leaf_root, hlen, ↓reduceIte, leafRead, hsz, hv, hok]
      | fold a b => simp at hff
      | ref a => simp at hff
      | param a => simp at hff
      | has a => simp at hff
      | lv => simp at hff
      | op a b => simp at hff

/-! ### `Equals` on flat structures (C20) -/

theorem step_has_field (m : Module) (n : Nat) (sd : StructDef) (ps : List Val) (buf : List Nat)
    {x : String} {f : Field} (hf : sd.field x = some f) :
    (G m (n + 1)).has (rootView sd ps buf) [x] = hasField (G m n) (rootView sd ps buf) f := by
  simp only [G, step]
  have hsd : (rootView sd ps buf).sd = sd := rfl
  rw [hsd, hf]

theorem step_read_scalar (m : Module) (n : Nat) (sd : StructDef) (ps : List Val) (buf : List Nat)
    {x : String} {f : Field} (hf : sd.field x = some f) {start size : Expr} {k : ScalarKind} {bits : Nat}
    {req : Option Expr} {bo : ByteOrder} (hk : f.kind = .phys start size (.scalar k bits req) bo) :
    (G m (n + 1)).read (rootView sd ps buf) [x] =
      match physStorage (G m n) (rootView sd ps buf) f start size with
      | some st => leafRead (G m n) (rootView sd ps buf) k bits req (st.adaptFor sd.unit 1 bo bits)
      | none => none := by
  simp only [G, step]
  have hsd : (rootView sd ps buf).sd = sd := rfl
  rw [hsd, hf]
  simp only [hk]
  cases physStorage (G m n) (rootView sd ps buf) f start size <;> rfl

/-- The per-field clause of the generated `Equals`, for a scalar physical field, in terms of what
the two views report one level up. -/
theorem fieldEquals_scalar (m : Module) (n : Nat) (sd : StructDef) (ps : List Val) (a b : List Nat)
    (eqv : SView → SView → Bool) {f : Field} (hf : sd.field f.name = some f)
    {start size : Expr} {k : ScalarKind} {bits : Nat} {req : Option Expr} {bo : ByteOrder}
    (hk : f.kind = .phys start size (.scalar k bits req) bo) :
    fieldEquals (G m n) m eqv (rootView sd ps a) (rootView sd ps b) f =
      match (G m (n + 1)).has (rootView sd ps a) [f.name], (G m (n + 1)).has (rootView sd ps b) [f.name] with
      | some ha, some hb =>
        ha == hb && (!ha ||
          (match (G m (n + 1)).read (rootView sd ps a) [f.name],
                 (G m (n + 1)).read (rootView sd ps b) [f.name] with
           | some x, some y => x == y
           | _, _ => false))
      | _, _ => false := by
  rw [step_has_field m n sd ps a hf, step_has_field m n sd ps b hf,
    step_read_scalar m n sd ps a hf hk, step_read_scalar m n sd ps b hf hk]
  simp only [fieldEquals, hk, argsKnown, ↓reduceIte]
  have hsda : (rootView sd ps a).sd = sd := rfl
  have hsdb : (rootView sd ps b).sd = sd := rfl
  cases hasField (G m n) (rootView sd ps a) f with
  | none => rfl
  | some ha =>
    cases hasField (G m n) (rootView sd ps b) f with
    | none => rfl
    | some hb =>
      simp only
      congr 2
      cases physStorage (G m n) (rootView sd ps a) f start size with
      | none => simp
      | some sa =>
        cases physStorage (G m n) (rootView sd ps b) f start size with
        | none => simp
        | some sb =>
          simp only [typeEquals, hsda, hsdb]
          cases leafRead (G m n) (rootView sd ps a) k bits req (Storage.adaptFor sd.unit 1 bo bits sa) <;>
            cases leafRead (G m n) (rootView sd ps b) k bits req (Storage.adaptFor sd.unit 1 bo bits sb) <;> rfl

end Emboss.ViewRef
