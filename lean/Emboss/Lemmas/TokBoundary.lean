/-
C10, table-specific: no token of the table ends inside a word run, so every token that
starts with a word character starts at the beginning of a maximal run.
-/
import Emboss.Lemmas.TokTable
namespace Emboss.Tok
open Emboss.Regex Emboss.Tok.Class Emboss.Generated

/-- The piece `seg` and what follows it do not cut a word run in two. -/
def CleanEnd (seg rest' : List Char) : Prop :=
  ∀ a b, seg.getLast? = some a → rest'.head? = some b → ¬ (isWordChar a = true ∧ isWordChar b = true)

theorem punct_nonword : punctLiterals.all (fun l => l.toList.all (fun c => !isWordChar c)) = true := by
  decide

theorem cAny_not_mem {b : Char} (h : cAny.mem b = false) : isWordChar b = false := by
  simp only [cAny, CClass.mem, List.any_cons, List.any_nil, CItem.mem, Bool.or_false, Bool.true_bne,
    Bool.not_eq_false', Bool.and_eq_true, decide_eq_true_eq] at h
  have hb : b = '\n' := toNat_inj (by have : '\n'.toNat = 10 := by decide
                                      omega)
  subst hb; decide

theorem head_dropWhile_not {p : Char → Bool} : ∀ (l : List Char) (b : Char),
    (l.dropWhile p).head? = some b → p b = false := by
  intro l
  induction l with
  | nil => intro b h; simp at h
  | cons x t ih =>
    intro b h
    rw [List.dropWhile_cons] at h
    split at h
    · exact ih b h
    · rename_i hx
      simp only [List.head?_cons, Option.some.injEq] at h
      subst h; simpa using hx

theorem all_takeWhile (p : Char → Bool) : ∀ l : List Char, (l.takeWhile p).all p = true := by
  intro l
  induction l with
  | nil => rfl
  | cons x t ih =>
    rw [List.takeWhile_cons]
    split
    · rename_i hx; simp [hx, ih]
    · rfl

theorem getLast_mem_all {p : Char → Bool} {l : List Char} {a : Char} (h : l.all p = true)
    (ha : l.getLast? = some a) : p a = true :=
  List.all_eq_true.mp h a (List.mem_of_getLast? ha)

/-- A comment / documentation pattern (`prefix` then `.*`) runs up to a `\n` or the end. -/
theorem dotstar_clean (pre : List Char) (s : List Char) (n : Nat)
    (hm : matchLen (litThen pre (star cAny)) s = .ok n) : CleanEnd (s.take n) (s.drop n) := by
  rw [star, litThen_star_value] at hm
  split at hm
  · simp only [MRes.ok.injEq] at hm
    intro a b _ hb hw
    rw [← hm, ← List.drop_drop, drop_span] at hb
    have := cAny_not_mem (head_dropWhile_not _ b hb)
    rw [this] at hw; exact absurd hw.2 (by simp)
  · cases hm

theorem string_last {pre rest : List Char} (h : Lang reString pre rest) : pre.getLast? = some '"' := by
  cases h with
  | seq _ h2 =>
    cases h2 with
    | seq _ h3 =>
      cases h3 with
      | chr c x _ hx =>
        have : x = '"' := by simpa using hx
        subst this
        simp [List.getLast?_append]

/-- No best match of the table ends inside a word run. -/
theorem best_clean_end {s : List Char} {n : Nat} {sy : Option String}
    (h : IsBest tokTable.pats s n sy) (hn : 0 < n) : CleanEnd (s.take n) (s.drop n) := by
  have hle := h.le_length
  cases s with
  | nil => simp at hle; omega
  | cons x t =>
  by_cases hx : isWordChar x = true
  · -- a word run: the token is the whole run
    have hs : (x :: t) = (x :: t).takeWhile isWordChar ++ (x :: t).dropWhile isWordChar :=
      (List.takeWhile_append_dropWhile).symm
    have hr : WordRun ((x :: t).takeWhile isWordChar) ((x :: t).dropWhile isWordChar) := by
      refine ⟨?_, ?_, ?_⟩
      · simp [hx]
      · exact all_takeWhile _ _
      · intro c hc; exact head_dropWhile_not _ c hc
    obtain ⟨sy', _, hbest⟩ := word_run_best hr
    rw [← hs] at hbest
    obtain ⟨hn', _⟩ := h.unique hbest
    intro a b _ hb hw
    rw [hn'] at hb
    conv at hb => lhs; arg 1; arg 2; rw [hs]
    rw [List.drop_left] at hb
    have := hr.stop b hb
    rw [this] at hw; exact absurd hw.2 (by simp)
  · -- the token starts with a non-word character
    have hx' : isWordChar x = false := by simpa using hx
    obtain ⟨pre, p, post, hp, hm, _, _, _⟩ := h
    have hmem : p ∈ tokTable.pats := by rw [hp]; simp
    have hsound := matchLen_sound _ _ _ hm
    have notWO : ¬ WordOnly p.re := by
      intro hw
      have := lang_wordOnly hsound.2 hw
      rw [show n = (n - 1) + 1 by omega, List.take_succ_cons, List.all_cons, hx'] at this
      simp at this
    rw [tokTable_pats, List.mem_append, List.mem_map] at hmem
    rcases hmem with ⟨l, hl, rfl⟩ | hmem
    · rw [List.mem_append] at hl
      rcases hl with hl | hl
      · -- punctuation literal: the text is the literal, all of it non-word
        simp only [mkLit] at hm
        rw [matchLen_litRegex] at hm
        split at hm
        · rename_i hpre
          simp only [MRes.ok.injEq] at hm
          have htake : (x :: t).take n = l.toList := by
            have := List.prefix_iff_eq_take.mp (List.isPrefixOf_iff_prefix.mp hpre)
            rw [hm] at this; exact this.symm
          have hall := List.all_eq_true.mp punct_nonword l hl
          intro a b ha _ hw
          rw [htake] at ha
          have := getLast_mem_all hall ha
          simp only [Bool.not_eq_true'] at this
          rw [this] at hw; exact absurd hw.1 (by simp)
        · cases hm
      · exact (notWO (wordOnly_litRegex _ (List.all_eq_true.mp keywords_words l hl))).elim
    · simp only [expectedRegexes, List.mem_cons, List.not_mem_nil, or_false] at hmem
      rcases hmem with rfl | rfl | rfl | rfl | rfl | rfl | rfl | rfl | rfl | rfl | rfl | rfl | rfl | rfl |
        rfl | rfl | rfl | rfl | rfl | rfl | rfl | rfl | rfl
      · exact (notWO (wordOnly_litThen _ _ (by decide) wo_resCamelTail)).elim
      · exact (notWO (wordOnly_litThen _ _ (by decide) wo_resSnakeTail)).elim
      · exact (notWO (wordOnly_litThen _ _ (by decide) wo_resShoutyTail)).elim
      · -- String: ends with the closing quote
        intro a b ha _ hw
        have := string_last hsound.2
        rw [this] at ha
        cases ha
        exact absurd hw.1 (by decide)
      · exact (notWO wo_digit).elim
      · exact (notWO (wordOnly_grouped wo_digit 3 3)).elim
      · exact (notWO (wordOnly_litThen _ _ (by decide) wo_hex)).elim
      · exact (notWO (wordOnly_litThen _ _ (by decide) ⟨wo_us, wordOnly_grouped wo_hex 4 4⟩)).elim
      · exact (notWO (wordOnly_litThen _ _ (by decide) ⟨wo_us, wordOnly_grouped wo_hex 8 8⟩)).elim
      · exact (notWO (wordOnly_litThen _ _ (by decide) wo_bin)).elim
      · exact (notWO (wordOnly_litThen _ _ (by decide) ⟨wo_us, wordOnly_grouped wo_bin 4 4⟩)).elim
      · exact (notWO (wordOnly_litThen _ _ (by decide) ⟨wo_us, wordOnly_grouped wo_bin 8 8⟩)).elim
      · exact (notWO ⟨wordOnly_litRegex _ (by decide), wordOnly_litRegex _ (by decide)⟩).elim
      · exact (notWO ⟨wo_lower, wo_snakeTail⟩).elim
      · exact (notWO ⟨wo_upper, wo_shoutyTail, wo_shoutyMid, wo_shoutyTail⟩).elim
      · exact (notWO ⟨wo_upper, wo_camelTail, wo_lower, wo_camelTail⟩).elim
      · exact dotstar_clean _ _ _ hm
      · -- `--$`: followed by the end of the line (or a final newline)
        simp only [reDocEmpty] at hm
        rw [matchLen_eq, matchK_litThen] at hm
        split at hm
        · rename_i hpre
          simp only [matchK] at hm
          split at hm
          · rename_i heol
            have hl : "--".toList.length ≤ (x :: t).length := (List.isPrefixOf_iff_prefix.mp hpre).length_le
            rw [kOff_drop _ _ _ hl] at hm
            simp only [MRes.ok.injEq, Nat.zero_add] at hm
            intro a b _ hb hw
            rw [← hm] at hb
            generalize (x :: t).drop "--".toList.length = r at heol hb
            cases r with
            | nil => simp at hb
            | cons c r' =>
              cases r' with
              | nil =>
                simp only [atEol, beq_iff_eq] at heol
                simp only [List.head?_cons, Option.some.injEq] at hb
                subst hb
                have : c = '\n' := toNat_inj (by have : '\n'.toNat = 10 := by decide
                                                 omega)
                subst this
                exact absurd hw.2 (by decide)
              | cons _ _ => simp [atEol] at heol
          · cases hm
        · cases hm
      · exact dotstar_clean _ _ _ hm
      · -- whitespace: the last character is a space
        intro a b ha _ hw
        have hall := lang_rep_chr hsound.2 cSpace 1 none rfl
        have := getLast_mem_all hall ha
        rw [space_not_word a hw.1] at this
        cases this
      · exact dotstar_clean _ _ _ hm
      · exact (notWO ⟨wo_digit, wo_radix, wo_hexUs⟩).elim
      · exact (notWO wo_word).elim

theorem getLast_take (s : List Char) (n : Nat) (hn : 0 < n) (hle : n ≤ s.length) :
    (s.take n).getLast? = s[n - 1]? := by
  rw [List.getLast?_eq_getElem?, List.length_take, Nat.min_eq_left hle, List.getElem?_take]
  simp only [ite_eq_left_iff, Nat.not_lt]
  intro h; omega

/-- Along a cover of the regenerated table, a token that starts with a word character is
never preceded by a word character. -/
theorem covers_run_starts {ln : Nat} {s : List Char} {off : Nat} {segs : List Seg}
    (h : Covers tokTable.pats ln s off segs) :
    ∀ (prev : Option Char),
      (∀ a b, prev = some a → s.head? = some b → ¬ (isWordChar a = true ∧ isWordChar b = true)) →
      ∀ t ∈ tokensOf segs, ∀ c, t.text.head? = some c → isWordChar c = true →
        (t.sc = off + 1 → ∀ a, prev = some a → isWordChar a = false) ∧
        (t.sc ≠ off + 1 → ∃ a, s[t.sc - 2 - off]? = some a ∧ isWordChar a = false) := by
  induction h with
  | nil => intro prev _ t ht; simp at ht
  | @tok s off n name segs hn hle hbest hrest ih =>
    intro prev hb t ht c hc hw
    have hclean := best_clean_end hbest hn
    simp only [tokensOf_tok, List.mem_cons] at ht
    rcases ht with rfl | ht
    · refine ⟨fun _ a ha => ?_, fun hne => absurd rfl hne⟩
      have hs : s.head? = some c := by
        simp only at hc
        cases s with
        | nil => simp at hle; omega
        | cons x u =>
          rw [show n = (n - 1) + 1 by omega, List.take_succ_cons] at hc
          simpa using hc
      have := hb a c ha hs
      cases hwa : isWordChar a with
      | false => rfl
      | true => exact absurd ⟨hwa, hw⟩ this
    · have hfacts := hrest.token_facts t ht
      have hsc : off + n + 1 ≤ t.sc := hfacts.2.2.1
      obtain ⟨i1, i2⟩ := ih ((s.take n).getLast?) hclean t ht c hc hw
      refine ⟨fun h => by omega, fun _ => ?_⟩
      by_cases heq : t.sc = off + n + 1
      · have hl := getLast_take s n hn hle
        cases hg : (s.take n).getLast? with
        | none =>
          rw [hg] at hl
          have : n - 1 < s.length := by omega
          rw [List.getElem?_eq_getElem this] at hl; cases hl
        | some a =>
          refine ⟨a, ?_, i1 heq a hg⟩
          rw [hg] at hl
          rw [show t.sc - 2 - off = n - 1 by omega]; exact hl.symm
      · obtain ⟨a, ha, hwa⟩ := i2 heq
        refine ⟨a, ?_, hwa⟩
        rw [List.getElem?_drop] at ha
        rw [show t.sc - 2 - off = n + (t.sc - 2 - (off + n)) by omega]; exact ha
  | @gap s off n segs hn hle hbest hrest ih =>
    intro prev hb t ht c hc hw
    have hclean := best_clean_end hbest hn
    simp only [tokensOf_gap] at ht
    have hfacts := hrest.token_facts t ht
    have hsc : off + n + 1 ≤ t.sc := hfacts.2.2.1
    obtain ⟨i1, i2⟩ := ih ((s.take n).getLast?) hclean t ht c hc hw
    refine ⟨fun h => by omega, fun _ => ?_⟩
    by_cases heq : t.sc = off + n + 1
    · have hl := getLast_take s n hn hle
      cases hg : (s.take n).getLast? with
      | none =>
        rw [hg] at hl
        have : n - 1 < s.length := by omega
        rw [List.getElem?_eq_getElem this] at hl; cases hl
      | some a =>
        refine ⟨a, ?_, i1 heq a hg⟩
        rw [hg] at hl
        rw [show t.sc - 2 - off = n - 1 by omega]; exact hl.symm
    · obtain ⟨a, ha, hwa⟩ := i2 heq
      refine ⟨a, ?_, hwa⟩
      rw [List.getElem?_drop] at ha
      rw [show t.sc - 2 - off = n + (t.sc - 2 - (off + n)) by omega]; exact ha

end Emboss.Tok
