/-
C14 lemmas, part 4: `$default byte_order` propagation — the model's traversal
(`Forest.ctxs`) against the relational `IsPath` / `nearestDefault`.
-/
import Emboss.Spec.Constraints
namespace Emboss.Constraints

/-- The default carried down a chain of nested types, as the traversal computes it. -/
def chainDefault (d0 : Option AVal) (path : List TypeInfo) : Option AVal :=
  path.foldl (fun d u => gatherDefault u.attrs d) d0

theorem ctxs_iff_path (F : Forest) : ∀ (d0 d : Option AVal) (t : TypeInfo),
    (d, t) ∈ F.ctxs d0 ↔ ∃ path, IsPath F path t ∧ d = chainDefault d0 path := by
  induction F with
  | nil =>
    intro d0 d t
    simp only [Forest.ctxs, List.not_mem_nil, false_iff]
    rintro ⟨path, h, _⟩; cases h
  | node u ch sib ihc ihs =>
    intro d0 d t
    simp only [Forest.ctxs, List.mem_cons, List.mem_append, ihc, ihs]
    constructor
    · rintro (h | ⟨path, hp, hd⟩ | ⟨path, hp, hd⟩)
      · cases h
        exact ⟨[u], IsPath.here u ch sib, rfl⟩
      · exact ⟨u :: path, IsPath.child u ch sib path t hp, by simpa [chainDefault] using hd⟩
      · exact ⟨path, IsPath.sibling u ch sib path t hp, hd⟩
    · rintro ⟨path, hp, hd⟩
      cases hp with
      | here => left; rw [hd]; rfl
      | child _ _ _ path' _ hp' =>
        right; left; exact ⟨path', hp', by simpa [chainDefault] using hd⟩
      | sibling _ _ _ _ _ hp' => right; right; exact ⟨path, hp', hd⟩

theorem gatherDefault_eq (attrs : List Attr) : ∀ d,
    gatherDefault attrs d = (match ownDefault attrs with | some v => some v | none => d) := by
  unfold ownDefault gatherDefault
  induction attrs with
  | nil => intro d; rfl
  | cons a rest ih =>
    intro d
    simp only [List.foldl_cons]
    rw [ih, ih (if a.isByteOrderDefault then some a.val else none)]
    cases List.foldl (fun d a => if a.isByteOrderDefault then some a.val else d) none rest with
    | some v => rfl
    | none =>
      by_cases h : a.isByteOrderDefault <;> simp [h]

theorem chainDefault_eq_nearest (path : List TypeInfo) : ∀ (scope : List Attr),
    chainDefault (gatherDefault scope none) path = nearestDefault (scope :: path.map (·.attrs)) := by
  induction path with
  | nil =>
    intro scope
    simp [chainDefault, nearestDefault, ownDefault]
  | cons u rest ih =>
    intro scope
    have h1 : chainDefault (gatherDefault scope none) (u :: rest) =
        chainDefault (gatherDefault u.attrs (gatherDefault scope none)) rest := by
      simp [chainDefault]
    rw [h1]
    -- generalise: carrying `d` below `u` equals nearest-of-rest falling back to (u's own or d)
    have gen : ∀ (rest : List TypeInfo) (d : Option AVal),
        chainDefault d rest =
          (match nearestDefault (rest.map (·.attrs)) with | some v => some v | none => d) := by
      intro rest
      induction rest with
      | nil => intro d; simp [chainDefault, nearestDefault]
      | cons w ws ihw =>
        intro d
        have : chainDefault d (w :: ws) = chainDefault (gatherDefault w.attrs d) ws := by
          simp [chainDefault]
        rw [this, ihw, gatherDefault_eq]
        simp only [List.map_cons, nearestDefault]
        cases nearestDefault (ws.map (·.attrs)) <;> simp
    rw [gen, gatherDefault_eq u.attrs]
    simp only [List.map_cons, nearestDefault]
    cases nearestDefault (rest.map (·.attrs)) with
    | some v => simp
    | none =>
      simp only
      cases ownDefault u.attrs <;> simp [ownDefault]

end Emboss.Constraints
