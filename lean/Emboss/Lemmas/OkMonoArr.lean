/-
`Ok()` monotonicity with arrays (helper lemmas for `C01_ok_monotone_arrays_partial`).

Key facts: (1) a view over storage that is not Ok (null, or a `BitBlock` that is not Ok) has no
Ok array and is never complete, so it is below every view in the `Ok()` order too; (2) for a fixed
storage, `Ok()` of a typed view is monotone in the enclosing view; (3) when the enclosing view is
complete and its size covers every present field, the field storages over a buffer and over any
extension of it are *identical*.
-/
import Emboss.Lemmas.OkMono
import Emboss.Lemmas.Synth
namespace Emboss.View

theorem Storage.sub_not_ok {s : Storage} (h : s.ok = false) (off size : Nat) :
    (s.sub off size).ok = false := by
  cases s with
  | bytes d => cases d <;> simp_all [Storage.sub, Storage.ok]
  | bits v n =>
    cases v with
    | none => simp [Storage.sub, Storage.ok]
    | some x => simp [Storage.ok] at h

theorem Storage.adapt_not_ok {s : Storage} (h : s.ok = false) (bo : ByteOrder) (n : Nat) :
    (s.adapt bo n).ok = false := by
  cases s with
  | bytes d => cases d <;> simp_all [Storage.adapt, Storage.ok]
  | bits v k => cases v <;> simp_all [Storage.adapt, Storage.ok]

theorem Storage.adaptFor_not_ok {s : Storage} (h : s.ok = false) (pu tu : Nat) (bo : ByteOrder) (n : Nat) :
    (s.adaptFor pu tu bo n).ok = false := by
  unfold Storage.adaptFor
  split
  · exact Storage.adapt_not_ok h bo n
  · exact h

theorem leafRead_not_ok (o : Oracle) (w : SView) (k : ScalarKind) (bits : Nat) (req : Option Expr)
    {s : Storage} (h : s.ok = false) : leafRead o w k bits req s = none := by
  cases s with
  | bytes d => rfl
  | bits v n =>
    cases v with
    | none => rfl
    | some x => simp [Storage.ok] at h

theorem physStorage_not_ok {o : Oracle} {w : SView} {f : Field} {start size : Expr} {st : Storage}
    (hw : w.st.ok = false) (h : physStorage o w f start size = some st) : st.ok = false := by
  unfold physStorage at h
  split at h
  · split at h
    · cases h; exact Storage.sub_not_ok hw _ _
    · cases h
  · cases h

/-- views over storage that is not Ok: below every view also for `Ok()` at every path -/
def NsLe (m : Module) (o : Oracle) : Prop :=
  ∀ a b, VLe a b → structWF m a.sd = true → a.st.ok = false →
    ∀ p, o.okAt a p = true → o.okAt b p = true

theorem typeOk_not_ok (o : Oracle) (m : Module) (w : SView) (bo : ByteOrder) (ho : ∀ v : SView, v.st.ok = false → o.okAt v [] = false) :
    ∀ (ty : PType) (st : Storage), st.ok = false → typeOk o m w bo ty st = false
  | .scalar k bits req, st, h => by
    simp only [typeOk]
    rw [leafRead_not_ok o w k bits req (Storage.adaptFor_not_ok h _ _ _ _)]
    rfl
  | .struct name bits args, st, h => by
    simp only [typeOk]
    cases m.find name with
    | none => rfl
    | some sd =>
      cases evalArgs (envOf o w none) args with
      | none => rfl
      | some vs => exact ho _ (Storage.adaptFor_not_ok h _ _ _ _)
  | .array e es, st, h => by
    simp only [typeOk, h, Bool.false_and]

theorem step_okAt_nil_not_ok (m : Module) (o : Oracle) (v : SView) (h : v.st.ok = false) :
    (step m o).okAt v [] = false := by
  simp only [step, h, Bool.false_and]
  cases o.read v [v.sd.sizeField] with
  | none => simp
  | some x => cases x <;> simp

theorem step_ns {m : Module} (hm : moduleWF m = true) {o : Oracle} (ho : OrLe m o o)
    (hnil : ∀ v : SView, v.st.ok = false → o.okAt v [] = false) (hns : NsLe m o) :
    NsLe m (step m o) := by
  intro a b h hwf hnok p hp
  cases p with
  | nil => rw [step_okAt_nil_not_ok m o a hnok] at hp; cases hp
  | cons x rest =>
    simp only [step] at hp ⊢
    rw [← h.sd]
    cases hf : a.sd.field x with
    | none => rw [hf] at hp; cases hp
    | some f =>
      rw [hf] at hp
      simp only at hp ⊢
      have hfw := field_wf hwf hf
      cases hk : f.kind with
      | virt value req =>
        rw [hk] at hp
        cases rest with
        | cons y ys => cases hp
        | nil =>
          simp only at hp ⊢
          cases hv : virtRead o a value req with
          | none => rw [hv] at hp; cases hp
          | some v => rw [virtRead_mono ho h hwf value req v hv]; rfl
      | alias target =>
        rw [hk] at hp
        simp only [Bool.and_eq_true, decide_eq_true_eq] at hp ⊢
        exact ⟨hasField_mono ho h hwf f true hp.1, hns a b h hwf hnok _ hp.2⟩
      | phys start size ty bo =>
        rw [hk] at hp
        cases ty with
        | array e es =>
          cases rest with
          | cons y ys => simp at hp
          | nil =>
            simp only at hp
            cases h1 : physStorage o a f start size with
            | none => rw [h1] at hp; cases hp
            | some s1 =>
              rw [h1] at hp
              simp only [Bool.and_eq_true] at hp
              have := typeOk_not_ok o m a bo hnil (.array e es) s1 (physStorage_not_ok hnok h1)
              rw [this] at hp
              exact absurd hp.2 (by simp)
        | scalar k bits req =>
          cases rest with
          | cons y ys => simp at hp
          | nil =>
            simp only at hp
            cases h1 : physStorage o a f start size with
            | none => rw [h1] at hp; cases hp
            | some s1 =>
              rw [h1] at hp
              simp only [Bool.and_eq_true] at hp
              have := typeOk_not_ok o m a bo hnil (.scalar k bits req) s1 (physStorage_not_ok hnok h1)
              rw [this] at hp
              exact absurd hp.2 (by simp)
        | struct name bits args =>
          simp only at hp ⊢
          have hsv := subView_mono hm ho h hwf f start size name bits args bo hfw hk
          cases h1 : subView o m a f start size name bits args bo with
          | none => rw [h1] at hp; cases hp
          | some a' =>
            rw [h1] at hp
            cases h2 : subView o m b f start size name bits args bo with
            | none => rw [h1, h2] at hsv; exact absurd hsv (by simp)
            | some b' =>
              rw [h1, h2] at hsv
              simp only at hp ⊢
              have hnok' : a'.st.ok = false := by
                unfold subView at h1
                cases hfind : m.find name with
                | none => simp [hfind] at h1
                | some sd =>
                  simp only [hfind] at h1
                  cases hargs : evalArgs (envOf o a none) args with
                  | none =>
                    simp only [hargs] at h1
                    cases h1
                    unfold nullView; simp only; split <;> rfl
                  | some vs =>
                    cases hps : physStorage o a f start size with
                    | none =>
                      simp only [hargs, hps] at h1
                      cases h1
                      unfold nullView; simp only; split <;> rfl
                    | some st =>
                      simp only [hargs, hps] at h1
                      cases h1
                      exact Storage.adaptFor_not_ok (physStorage_not_ok hnok hps) _ _ _ _
              exact hns a' b' hsv.1 hsv.2 hnok' _ hp

theorem G_nil_not_ok (m : Module) : ∀ n (v : SView), v.st.ok = false → (G m n).okAt v [] = false
  | 0, _, _ => rfl
  | n + 1, v, h => step_okAt_nil_not_ok m (G m n) v h

theorem G_ns {m : Module} (hm : moduleWF m = true) : ∀ n, NsLe m (G m n)
  | 0 => fun _ _ _ _ _ _ hp => by simp [G, Oracle.bottom] at hp
  | n + 1 => step_ns hm (G_mono hm n) (G_nil_not_ok m n) (G_ns hm n)

end Emboss.View

namespace Emboss.View

theorem elemsOk_mono {c1 c2 : Storage → Bool} (h : ∀ s, c1 s = true → c2 s = true) (st : Storage) (es : Nat) :
    ∀ n, elemsOk c1 st es n = true → elemsOk c2 st es n = true
  | 0, _ => rfl
  | n + 1, hp => by
    simp only [elemsOk, Bool.and_eq_true] at hp ⊢
    exact ⟨elemsOk_mono h st es n hp.1, h _ hp.2⟩

/-- for a fixed storage, `Ok()` of a typed view is monotone in the enclosing view -/
theorem typeOk_same {m : Module} {o : Oracle} (ho : OrLe m o o) {w1 w2 : SView} (h : VLe w1 w2)
    (hwf : structWF m w1.sd = true) (bo : ByteOrder) :
    ∀ (ty : PType) (st : Storage), typeOk o m w1 bo ty st = true → typeOk o m w2 bo ty st = true
  | .scalar k bits req, st, hp => by
    have hu : w2.sd.unit = w1.sd.unit := by rw [h.sd]
    simp only [typeOk] at hp ⊢
    rw [hu]
    cases hl : leafRead o w1 k bits req (st.adaptFor w1.sd.unit 1 bo bits) with
    | none => rw [hl] at hp; cases hp
    | some v => rw [leafRead_mono ho h hwf k bits req (StLe.refl _) v hl]; rfl
  | .struct name bits args, st, hp => by
    have hu : w2.sd.unit = w1.sd.unit := by rw [h.sd]
    simp only [typeOk] at hp ⊢
    cases hfind : m.find name with
    | none => rw [hfind] at hp; cases hp
    | some sd =>
      rw [hfind] at hp
      cases ha : evalArgs (envOf o w1 none) args with
      | none => rw [ha] at hp; cases hp
      | some vs =>
        rw [ha] at hp
        rw [evalArgs_mono (envOf_mono ho h hwf none) args vs ha, hu]
        exact hp
  | .array e es, st, hp => by
    simp only [typeOk, Bool.and_eq_true] at hp ⊢
    exact ⟨hp.1, elemsOk_mono (fun s hs => typeOk_same ho h hwf bo e s hs) st es _ hp.2⟩

theorem argsKnown_mono {e1 e2 : Env} (h : EnvLe e1 e2) :
    ∀ ty : PType, argsKnown e1 ty = true → argsKnown e2 ty = true
  | .scalar _ _ _, _ => rfl
  | .struct _ _ args, hp => by
    simp only [argsKnown] at hp ⊢
    cases ha : evalArgs e1 args with
    | none => rw [ha] at hp; cases hp
    | some vs => rw [evalArgs_mono h args vs ha]; rfl
  | .array e _, hp => by
    simp only [argsKnown] at hp ⊢
    exact argsKnown_mono h e hp

/-- inside the part of the storage that is already there, `GetOffsetStorage` of a buffer and of
any extension of it return the same bytes -/
theorem StLe.sub_eq {a b : Storage} (h : StLe a b) (hok : a.ok = true) (off s : Nat)
    (hb : off + s ≤ a.size) : a.sub off s = b.sub off s := by
  cases a with
  | bytes d1 =>
    cases d1 with
    | none => simp [Storage.ok] at hok
    | some d1 =>
      cases b with
      | bytes d2 =>
        cases d2 with
        | none => simp [StLe] at h
        | some d2 =>
          simp only [StLe] at h
          obtain ⟨t, rfl⟩ := h
          simp only [Storage.size] at hb
          simp only [Storage.sub]
          rw [List.drop_append, List.take_append]
          have : s - (d1.drop off).length = 0 := by rw [List.length_drop]; omega
          rw [this, List.take_zero, List.append_nil]
      | bits v n => simp [StLe] at h
  | bits v1 n1 =>
    cases v1 with
    | none => simp [Storage.ok] at hok
    | some v1 =>
      cases b with
      | bytes d2 => simp [StLe] at h
      | bits v2 n2 =>
        simp only [StLe] at h
        obtain ⟨rfl, rfl⟩ := h
        rfl

theorem physStorage_some {o : Oracle} {w : SView} {f : Field} {start size : Expr} {st : Storage}
    (h : physStorage o w f start size = some st) :
    ∃ off s : Int, hasField o w f = some true ∧ evalInt (envOf o w none) size = some s ∧
      evalInt (envOf o w none) start = some off ∧ 0 ≤ s ∧ 0 ≤ off ∧ st = w.st.sub off.toNat s.toNat := by
  unfold physStorage at h
  cases h1 : hasField o w f with
  | none => simp [h1] at h
  | some b =>
    cases b with
    | false => simp [h1] at h
    | true =>
      cases h2 : evalInt (envOf o w none) size with
      | none => simp [h1, h2] at h
      | some s =>
        cases h3 : evalInt (envOf o w none) start with
        | none => simp [h1, h2, h3] at h
        | some off =>
          simp only [h1, h2, h3] at h
          by_cases hc : 0 ≤ s ∧ 0 ≤ off
          · rw [if_pos hc] at h
            cases h
            exact ⟨off, s, rfl, rfl, rfl, hc.1, hc.2, rfl⟩
          · rw [if_neg hc] at h; cases h

theorem physStorage_of {o : Oracle} {w : SView} {f : Field} {start size : Expr} {off s : Int}
    (h1 : hasField o w f = some true) (h2 : evalInt (envOf o w none) size = some s)
    (h3 : evalInt (envOf o w none) start = some off) (hs : 0 ≤ s) (hoff : 0 ≤ off) :
    physStorage o w f start size = some (w.st.sub off.toNat s.toNat) := by
  unfold physStorage
  simp only [h1, h2, h3]
  rw [if_pos ⟨hs, hoff⟩]

theorem OrLe.trans' {m : Module} {o1 o2 o3 : Oracle} (h12 : OrLe m o1 o2) (h23 : OrLe m o2 o3) :
    OrLe m o1 o3 := by
  intro w1 w2 h hwf
  have a := h12 w1 w1 (VLe.refl w1) hwf
  have b := h23 w1 w2 h hwf
  exact ⟨fun p => OLe.trans (a.1 p) (b.1 p), fun p => OLe.trans (a.2 p) (b.2 p)⟩

theorem G_le {m : Module} (hm : moduleWF m = true) (j : Nat) : ∀ d, OrLe m (G m j) (G m (j + d))
  | 0 => G_mono hm j
  | d + 1 => OrLe.trans' (G_le hm j d) (G_fuel_mono hm (j + d))

/-- Semantic hypothesis of the array case (soundness of the compiler's size expression incl. its
constant folding, i.e. C05 territory): whenever a view knows its size, every present physical field
with a known non-negative location ends at or before that size.  For an un-folded synthesized
size expression this is `C01_size_covers_present_fields`. -/
def SizeCovers (m : Module) (sd : StructDef) : Prop :=
  ∀ (k : Nat) (w : SView) (sz : Int), w.sd = sd →
    (G m (k + 1)).read w [w.sd.sizeField] = some (.int sz) →
    ∀ (f : Field) (start size : Expr) (ty : PType) (bo : ByteOrder),
      f ∈ w.sd.fields → f.kind = .phys start size ty bo →
      ∀ (j : Nat), j ≤ k → ∀ off s : Int,
        hasField (G m j) w f = some true →
        evalInt (envOf (G m j) w none) start = some off →
        evalInt (envOf (G m j) w none) size = some s → 0 ≤ off → 0 ≤ s → off + s ≤ sz

/-- the `[]` case of `step.okAt` is monotone once the per-field `Ok()`s are -/
theorem okAt_nil_mono {m : Module} {o : Oracle} (ho : OrLe m o o) {w1 w2 : SView} (h : VLe w1 w2)
    (hwf : structWF m w1.sd = true)
    (hfields : ∀ f : Field, f ∈ w1.sd.fields → o.okAt w1 [f.name] = true → o.okAt w2 [f.name] = true)
    (hp : (step m o).okAt w1 [] = true) : (step m o).okAt w2 [] = true := by
  simp only [step, Bool.and_eq_true] at hp ⊢
  obtain ⟨⟨⟨hc, hpar⟩, hfs⟩, hreq⟩ := hp
  have hor := ho w1 w2 h hwf
  refine ⟨⟨⟨?_, ?_⟩, ?_⟩, ?_⟩
  · rw [← h.sd]
    cases hr : o.read w1 [w1.sd.sizeField] with
    | none => rw [hr] at hc; cases hc
    | some v =>
      rw [hr] at hc
      rw [hor.1 _ v hr]
      cases v with
      | bool b => cases hc
      | int sz =>
        simp only [Bool.and_eq_true, decide_eq_true_eq] at hc ⊢
        have := StLe.ok_size h.st hc.1
        exact ⟨this.1, by omega⟩
  · rw [← h.sd]
    cases hpe : w1.sd.params.isEmpty with
    | true => simp
    | false =>
      simp only [hpe, Bool.false_or] at hpar ⊢
      cases hp1 : w1.params with
      | none => rw [hp1] at hpar; cases hpar
      | some vs => rw [h.params vs hp1]; rfl
  · rw [← h.sd]
    rw [List.all_eq_true] at hfs ⊢
    intro f hf
    have h1 := hfs f hf
    cases hh : o.has w1 [f.name] with
    | none => rw [hh] at h1; cases h1
    | some b =>
      rw [hor.2 _ b hh]
      cases b with
      | false => rfl
      | true => rw [hh] at h1; exact hfields f hf h1
  · rw [← h.sd]
    cases hrq : w1.sd.requires with
    | none => rfl
    | some r =>
      rw [hrq] at hreq
      simp only [beq_iff_eq] at hreq ⊢
      exact evalBool_mono (envOf_mono ho h hwf none) r true hreq

end Emboss.View

namespace Emboss.View

/-- under a complete view whose size covers the fields, a present field's storage over the
buffer and over an extension are the same bytes -/
theorem physStorage_tight {m : Module} (hm : moduleWF m = true) {w1 w2 : SView} (hcov : SizeCovers m w1.sd)
    (h : VLe w1 w2) (hwf : structWF m w1.sd = true)
    (K : Nat) (sz : Int) (hsz : (G m (K + 1)).read w1 [w1.sd.sizeField] = some (.int sz))
    (hok : w1.st.ok = true) (hlen : (w1.st.size : Int) ≥ sz)
    (k : Nat) (hk : k ≤ K) {x : String} {f : Field} {start size : Expr} {ty : PType} {bo : ByteOrder}
    (hf : w1.sd.field x = some f) (hkind : f.kind = .phys start size ty bo) {st1 : Storage}
    (h1 : physStorage (G m k) w1 f start size = some st1) :
    physStorage (G m k) w2 f start size = some st1 := by
  obtain ⟨off, s, hh, hs, hst, hs0, ho0, rfl⟩ := physStorage_some h1
  have hmem : f ∈ w1.sd.fields := by unfold StructDef.field at hf; exact List.mem_of_find?_eq_some hf
  have hle := hcov K w1 sz rfl hsz f start size ty bo hmem hkind k hk off s hh hst hs ho0 hs0
  have ho := G_mono hm k
  have hh2 := hasField_mono ho h hwf f true hh
  have hs2 := evalInt_mono (envOf_mono ho h hwf none) size s hs
  have hst2 := evalInt_mono (envOf_mono ho h hwf none) start off hst
  rw [physStorage_of hh2 hs2 hst2 hs0 ho0]
  congr 1
  exact (StLe.sub_eq h.st hok _ _ (by omega)).symm

theorem tight_path_mono {m : Module} (hm : moduleWF m = true) {w1 w2 : SView} (hcov : SizeCovers m w1.sd)
    (h : VLe w1 w2) (hwf : structWF m w1.sd = true)
    (K : Nat) (sz : Int) (hsz : (G m (K + 1)).read w1 [w1.sd.sizeField] = some (.int sz))
    (hok : w1.st.ok = true) (hlen : (w1.st.size : Int) ≥ sz) :
    ∀ k, k ≤ K + 1 → ∀ p, (G m k).okAt w1 p = true → (G m k).okAt w2 p = true := by
  intro k
  induction k with
  | zero => intro _ p hp; simp [G, Oracle.bottom] at hp
  | succ k ih =>
    intro hk p hp
    have hkK : k ≤ K := by omega
    have ihk := ih (by omega)
    have ho := G_mono hm k
    show (step m (G m k)).okAt w2 p = true
    have hp' : (step m (G m k)).okAt w1 p = true := hp
    cases p with
    | nil => exact okAt_nil_mono ho h hwf (fun f _ hpf => ihk [f.name] hpf) hp'
    | cons x rest =>
      simp only [step] at hp' ⊢
      rw [← h.sd]
      cases hf : w1.sd.field x with
      | none => rw [hf] at hp'; cases hp'
      | some f =>
        rw [hf] at hp'
        simp only at hp' ⊢
        have hfw := field_wf hwf hf
        cases hkind : f.kind with
        | virt value req =>
          rw [hkind] at hp'
          cases rest with
          | cons y ys => cases hp'
          | nil =>
            simp only at hp' ⊢
            cases hv : virtRead (G m k) w1 value req with
            | none => rw [hv] at hp'; cases hp'
            | some v => rw [virtRead_mono ho h hwf value req v hv]; rfl
        | alias target =>
          rw [hkind] at hp'
          simp only [Bool.and_eq_true, decide_eq_true_eq] at hp' ⊢
          exact ⟨hasField_mono ho h hwf f true hp'.1, ihk _ hp'.2⟩
        | phys start size ty bo =>
          rw [hkind] at hp'
          cases ty with
          | scalar kk bits req =>
            cases rest with
            | cons y ys => simp at hp'
            | nil =>
              simp only at hp' ⊢
              cases h1 : physStorage (G m k) w1 f start size with
              | none => rw [h1] at hp'; cases hp'
              | some st1 =>
                rw [h1] at hp'
                rw [physStorage_tight hm hcov h hwf K sz hsz hok hlen k hkK hf hkind h1]
                simp only [Bool.and_eq_true] at hp' ⊢
                exact ⟨argsKnown_mono (envOf_mono ho h hwf none) _ hp'.1,
                       typeOk_same ho h hwf bo _ st1 hp'.2⟩
          | array e es =>
            cases rest with
            | cons y ys => simp at hp'
            | nil =>
              simp only at hp' ⊢
              cases h1 : physStorage (G m k) w1 f start size with
              | none => rw [h1] at hp'; cases hp'
              | some st1 =>
                rw [h1] at hp'
                rw [physStorage_tight hm hcov h hwf K sz hsz hok hlen k hkK hf hkind h1]
                simp only [Bool.and_eq_true] at hp' ⊢
                exact ⟨argsKnown_mono (envOf_mono ho h hwf none) _ hp'.1,
                       typeOk_same ho h hwf bo _ st1 hp'.2⟩
          | struct name bits args =>
            simp only at hp' ⊢
            have hsv := subView_mono hm ho h hwf f start size name bits args bo hfw hkind
            cases ha1 : subView (G m k) m w1 f start size name bits args bo with
            | none => rw [ha1] at hp'; cases hp'
            | some a1 =>
              rw [ha1] at hp'
              cases ha2 : subView (G m k) m w2 f start size name bits args bo with
              | none => rw [ha1, ha2] at hsv; exact absurd hsv (by simp)
              | some a2 =>
                rw [ha1, ha2] at hsv
                simp only at hp' ⊢
                by_cases hnok : a1.st.ok = false
                · exact G_ns hm k a1 a2 hsv.1 hsv.2 hnok _ hp'
                · -- real storage: the two sub-views are the same view
                  have heq : a2 = a1 := by
                    unfold subView at ha1 ha2
                    cases hfind : m.find name with
                    | none => simp [hfind] at ha1
                    | some sd =>
                      simp only [hfind] at ha1 ha2
                      cases hargs : evalArgs (envOf (G m k) w1 none) args with
                      | none =>
                        simp only [hargs] at ha1
                        cases ha1
                        exfalso; apply hnok
                        unfold nullView; simp only; split <;> rfl
                      | some vs =>
                        cases hps : physStorage (G m k) w1 f start size with
                        | none =>
                          simp only [hargs, hps] at ha1
                          cases ha1
                          exfalso; apply hnok
                          unfold nullView; simp only; split <;> rfl
                        | some st1 =>
                          simp only [hargs, hps] at ha1
                          have hargs2 := evalArgs_mono (envOf_mono ho h hwf none) args vs hargs
                          have hps2 := physStorage_tight hm hcov h hwf K sz hsz hok hlen k hkK hf hkind hps
                          simp only [hargs2, hps2] at ha2
                          cases ha1; cases ha2
                          have hu : w2.sd.unit = w1.sd.unit := by rw [h.sd]
                          rw [hu]
                  rw [heq]; exact hp'

/-- `Ok()` of a structure is monotone under buffer extension, arrays included, given that known
sizes cover the present fields. -/
theorem G_ok_mono_arr {m : Module} (hm : moduleWF m = true) {w1 w2 : SView} (hcov : SizeCovers m w1.sd)
    (h : VLe w1 w2) (hwf : structWF m w1.sd = true) (n : Nat)
    (hp : (G m n).okAt w1 [] = true) : (G m n).okAt w2 [] = true := by
  cases n with
  | zero => simp [G, Oracle.bottom] at hp
  | succ n =>
    cases n with
    | zero =>
      -- level 1 reads the size through the empty oracle: never complete
      have : (step m (G m 0)).okAt w1 [] = true := hp
      simp [step, G, Oracle.bottom] at this
    | succ K =>
      have hp' : (step m (G m (K + 1))).okAt w1 [] = true := hp
      have hc := hp'
      simp only [step, Bool.and_eq_true] at hc
      obtain ⟨⟨⟨hcomp, _⟩, _⟩, _⟩ := hc
      cases hr : (G m (K + 1)).read w1 [w1.sd.sizeField] with
      | none => rw [hr] at hcomp; cases hcomp
      | some v =>
        rw [hr] at hcomp
        cases v with
        | bool b => cases hcomp
        | int sz =>
          simp only [Bool.and_eq_true, decide_eq_true_eq] at hcomp
          have key := tight_path_mono hm hcov h hwf K sz hr hcomp.1 hcomp.2
          exact okAt_nil_mono (G_mono hm (K + 1)) h hwf
            (fun f _ hpf => key (K + 1) (Nat.le_refl _) [f.name] hpf) hp'

/-- the structure's size field is literally the synthesized expression (no folding) -/
def plainSize (sd : StructDef) : Prop :=
  ∃ fs, sd.field sd.sizeField = some fs ∧ fs.kind = .virt (synthSize sd.fields) none

theorem mem_extents {env : Env} {f : Field} {start size : Expr} {ty : PType} {bo : ByteOrder}
    (hk : f.kind = .phys start size ty bo) :
    ∀ fs : List Field, f ∈ fs → (evalBool env f.cond, evalInt env start, evalInt env size) ∈ extents env fs
  | [], h => by cases h
  | g :: gs, h => by
    cases h with
    | head =>
      simp only [extents, hk]
      exact List.mem_cons_self
    | tail _ h' =>
      have ih := mem_extents (env := env) hk gs h'
      simp only [extents]
      cases g.kind <;> first | exact List.mem_cons_of_mem _ ih | exact ih

/-- `SizeCovers` holds for every structure whose size field is the un-folded synthesized
expression: the hypothesis of `C01_ok_monotone_arrays_partial` is about constant folding only. -/
theorem sizeCovers_of_plain {m : Module} (hm : moduleWF m = true) {sd : StructDef}
    (hwf : structWF m sd = true) (hp : plainSize sd) : SizeCovers m sd := by
  intro k w sz hsd hsz f start size ty bo hf hkind j hj off s hh hst hs ho0 hs0
  obtain ⟨fs, hfs, hfk⟩ := hp
  subst hsd
  -- the size is the value of the synthesized expression in the environment of level k
  have hval : eval (envOf (G m k) w none) (synthSize w.sd.fields) = some (.int sz) := by
    have : (step m (G m k)).read w [w.sd.sizeField] = some (.int sz) := hsz
    simp only [step, hfs, hfk, virtRead, valueIsOk] at this
    cases he : eval (envOf (G m k) w none) (synthSize w.sd.fields) with
    | none => rw [he] at this; cases this
    | some v => rw [he] at this; simpa using this
  have hcov := (C01_size_covers_present_fields_aux (envOf (G m k) w none) w.sd.fields sz hval).2
  -- values known at level j are the same at level k
  obtain ⟨d, rfl⟩ : ∃ d, k = j + d := ⟨k - j, by omega⟩
  have hle := G_le hm j d
  have henv := envOf_mono hle (VLe.refl w) hwf none
  have hh' := evalBool_mono henv f.cond true hh
  have hst' := evalInt_mono henv start off hst
  have hs' := evalInt_mono henv size s hs
  have hmem := mem_extents (env := envOf (G m (j + d)) w none) hkind w.sd.fields hf
  rw [hh', hst', hs'] at hmem
  exact hcov off s hmem

end Emboss.View
