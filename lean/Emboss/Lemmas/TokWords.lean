/-
Table-specific lemmas for C10: at the start of a maximal word run the token is the whole
run, and its symbol is that of the first pattern matching the whole run; exact
characterisation of the name patterns.
-/
import Emboss.Lemmas.RegexShapes
import Emboss.Lemmas.TokFile
import Emboss.Spec.TokClass
import Emboss.Generated.TokTable
namespace Emboss.Tok
open Emboss.Regex Emboss.Tok.Class Emboss.Generated

/-- `w` is a maximal run of word characters in front of `rest`. -/
structure WordRun (w rest : List Char) : Prop where
  ne : w ≠ []
  word : w.all isWordChar = true
  stop : ∀ c, rest.head? = some c → isWordChar c = false

/-! ### The table, with names -/

def cLower : CClass := ⟨false, [.range 97 122]⟩
def cUpper : CClass := ⟨false, [.range 65 90]⟩
def cDigit : CClass := ⟨false, [.range 48 57]⟩
def cResCamelTail : CClass := ⟨false, [.range 65 90, .range 97 122, .range 48 57]⟩
def cResSnakeTail : CClass := ⟨false, [.range 95 95, .range 97 122, .range 48 57]⟩
def cResShoutyTail : CClass := ⟨false, [.range 95 95, .range 65 90, .range 48 57]⟩
def cSnakeTail : CClass := ⟨false, [.range 97 122, .range 95 95, .range 48 57]⟩
def cShoutyTail : CClass := ⟨false, [.range 65 90, .range 95 95, .range 48 57]⟩
def cShoutyMid : CClass := ⟨false, [.range 65 90, .range 95 95]⟩
def cCamelTail : CClass := ⟨false, [.range 97 122, .range 65 90, .range 48 57]⟩
def cWord : CClass := ⟨false, [.range 97 122, .range 65 90, .range 95 95, .range 36 36, .range 48 57]⟩
def cHex : CClass := ⟨false, [.range 48 57, .range 97 102, .range 65 70]⟩
def cBin : CClass := ⟨false, [.range 48 48, .range 49 49]⟩
def cRadix : CClass := ⟨false, [.range 98 98, .range 120 120, .range 66 66, .range 88 88]⟩
def cHexUs : CClass := ⟨false, [.range 48 57, .range 97 102, .range 65 70, .range 95 95]⟩
def cAny : CClass := ⟨true, [.range 10 10]⟩
def cSpace : CClass := ⟨false, [.space]⟩
def cStrPlain : CClass := ⟨true, [.range 34 34, .range 10 10, .range 92 92]⟩
def cStrEsc : CClass := ⟨false, [.range 110 110, .range 92 92, .range 34 34]⟩

def star (c : CClass) : Regex := .rep (.chr c) 0 none
def plus (c : CClass) : Regex := .rep (.chr c) 1 none

def reResCamel : Regex := litThen "EmbossReserved".toList (star cResCamelTail)
def reResSnake : Regex := litThen "emboss_reserved".toList (star cResSnakeTail)
def reResShouty : Regex := litThen "EMBOSS_RESERVED".toList (star cResShoutyTail)
def reString : Regex :=
  .seq (.chr (litC '"')) (.seq (.rep (.alt (.chr cStrPlain) (.seq (.chr (litC '\\')) (.chr cStrEsc))) 0 none)
    (.chr (litC '"')))
def reDec : Regex := plus cDigit
/-- `D{1,first}(?:_D{len})*` -/
def grouped (c : CClass) (first len : Nat) : Regex :=
  .seq (.rep (.chr c) 1 (some first))
    (.rep (.seq (.chr (litC '_')) (.rep (.chr c) len (some len))) 0 none)
def reDecGrouped : Regex := grouped cDigit 3 3
def opt (c : CClass) : Regex := .rep (.chr c) 0 (some 1)
def reHex : Regex := litThen "0x".toList (plus cHex)
def reHex4 : Regex := litThen "0x".toList (.seq (opt (litC '_')) (grouped cHex 4 4))
def reHex8 : Regex := litThen "0x".toList (.seq (opt (litC '_')) (grouped cHex 8 8))
def reBin : Regex := litThen "0b".toList (plus cBin)
def reBin4 : Regex := litThen "0b".toList (.seq (opt (litC '_')) (grouped cBin 4 4))
def reBin8 : Regex := litThen "0b".toList (.seq (opt (litC '_')) (grouped cBin 8 8))
def reBool : Regex := .alt (litRegex "true".toList) (litRegex "false".toList)
def reSnake : Regex := .seq (.chr cLower) (star cSnakeTail)
def reShouty : Regex := .seq (.chr cUpper) (.seq (star cShoutyTail) (.seq (.chr cShoutyMid) (star cShoutyTail)))
def reCamel : Regex := .seq (.chr cUpper) (.seq (star cCamelTail) (.seq (.chr cLower) (star cCamelTail)))
def reDoc : Regex := litThen "-- ".toList (star cAny)
def reDocEmpty : Regex := litThen "--".toList .eol
def reBadDoc : Regex := litThen "--".toList (star cAny)
def reSpace : Regex := plus cSpace
def reComment : Regex := litThen "#".toList (star cAny)
def reBadNumber : Regex := .seq (.chr cDigit) (.seq (opt cRadix) (star cHexUs))
def reBadWord : Regex := plus cWord

def expectedRegexes : List Pat := [
  ⟨reResCamel, some "BadWord"⟩, ⟨reResSnake, some "BadWord"⟩, ⟨reResShouty, some "BadWord"⟩,
  ⟨reString, some "String"⟩,
  ⟨reDec, some "Number"⟩, ⟨reDecGrouped, some "Number"⟩,
  ⟨reHex, some "Number"⟩, ⟨reHex4, some "Number"⟩, ⟨reHex8, some "Number"⟩,
  ⟨reBin, some "Number"⟩, ⟨reBin4, some "Number"⟩, ⟨reBin8, some "Number"⟩,
  ⟨reBool, some "BooleanConstant"⟩, ⟨reSnake, some "SnakeWord"⟩, ⟨reShouty, some "ShoutyWord"⟩,
  ⟨reCamel, some "CamelWord"⟩,
  ⟨reDoc, some "Documentation"⟩, ⟨reDocEmpty, some "Documentation"⟩, ⟨reBadDoc, some "BadDocumentation"⟩,
  ⟨reSpace, none⟩, ⟨reComment, some "Comment"⟩,
  ⟨reBadNumber, some "BadNumber"⟩, ⟨reBadWord, some "BadWord"⟩]

/-- The regenerated table is the one the lemmas below talk about.  Breaks (on purpose)
whenever a pattern, a symbol or the order changes. -/
theorem tokRegexes_eq : tokRegexes = expectedRegexes := by decide +kernel

def punctLiterals : List String :=
  ["[", "]", "(", ")", ":", "=", "+", "-", "*", ".", "?", "==", "!=", "&&", "||", "<", ">", "<=", ">=", ","]

theorem tokLiterals_eq : tokLiterals = punctLiterals ++ keywords := by decide +kernel

/-! ### Class membership in terms of the reference's character predicates -/

theorem range_single (a n : Nat) : (decide (a ≤ n) && decide (n ≤ a)) = (n == a) := by
  by_cases h : n = a
  · subst h; simp
  · have : (n == a) = false := by simp [h]
    rw [this]; simp only [Bool.and_eq_false_iff, decide_eq_false_iff_not]; omega

theorem cLower_mem (c : Char) : cLower.mem c = isLower c := by
  simp [cLower, CClass.mem, CItem.mem, isLower, between]
theorem cUpper_mem (c : Char) : cUpper.mem c = isUpper c := by
  simp [cUpper, CClass.mem, CItem.mem, isUpper, between]
theorem cDigit_mem (c : Char) : cDigit.mem c = isDigit c := by
  simp [cDigit, CClass.mem, CItem.mem, isDigit, between]
theorem cResCamelTail_mem (c : Char) : cResCamelTail.mem c = (isUpper c || isLower c || isDigit c) := by
  simp [cResCamelTail, CClass.mem, CItem.mem, isLower, isUpper, isDigit, between, Bool.or_assoc]
theorem cResSnakeTail_mem (c : Char) : cResSnakeTail.mem c = (isUs c || isLower c || isDigit c) := by
  simp [cResSnakeTail, CClass.mem, CItem.mem, isLower, isUs, isDigit, between, range_single, Bool.or_assoc]
theorem cResShoutyTail_mem (c : Char) : cResShoutyTail.mem c = (isUs c || isUpper c || isDigit c) := by
  simp [cResShoutyTail, CClass.mem, CItem.mem, isUpper, isUs, isDigit, between, range_single, Bool.or_assoc]
theorem cSnakeTail_mem (c : Char) : cSnakeTail.mem c = (isLower c || isUs c || isDigit c) := by
  simp [cSnakeTail, CClass.mem, CItem.mem, isLower, isUs, isDigit, between, range_single, Bool.or_assoc]
theorem cShoutyTail_mem (c : Char) : cShoutyTail.mem c = (isUpper c || isUs c || isDigit c) := by
  simp [cShoutyTail, CClass.mem, CItem.mem, isUpper, isUs, isDigit, between, range_single, Bool.or_assoc]
theorem cShoutyMid_mem (c : Char) : cShoutyMid.mem c = (isUpper c || isUs c) := by
  simp [cShoutyMid, CClass.mem, CItem.mem, isUpper, isUs, between, range_single]
theorem cCamelTail_mem (c : Char) : cCamelTail.mem c = (isLower c || isUpper c || isDigit c) := by
  simp [cCamelTail, CClass.mem, CItem.mem, isLower, isUpper, isDigit, between, Bool.or_assoc]
theorem cWord_mem (c : Char) : cWord.mem c = isWordChar c := by
  simp [cWord, CClass.mem, CItem.mem, isWordChar, isLower, isUpper, isUs, isDigit, between, range_single,
    Bool.or_assoc, Bool.or_comm, Bool.or_left_comm]

/-- Every class of the name/number patterns only contains word characters. -/
theorem isWordChar_of (c : Char) :
    (isLower c = true → isWordChar c = true) ∧ (isUpper c = true → isWordChar c = true) ∧
    (isDigit c = true → isWordChar c = true) ∧ (isUs c = true → isWordChar c = true) := by
  simp only [isWordChar, Bool.or_eq_true]
  refine ⟨?_, ?_, ?_, ?_⟩ <;> intro h <;> simp [h]

/-! ### Patterns that consume only word characters never overrun the run -/

def wordOnlyC (c : CClass) : Prop := ∀ x, c.mem x = true → isWordChar x = true

def WordOnly : Regex → Prop
  | .eps => True
  | .chr c => wordOnlyC c
  | .seq a b => WordOnly a ∧ WordOnly b
  | .alt a b => WordOnly a ∧ WordOnly b
  | .rep r _ _ => WordOnly r
  | .eol => True

theorem lang_wordOnly {r pre rest} (h : Lang r pre rest) (hw : WordOnly r) :
    pre.all isWordChar = true := by
  induction h with
  | eps => simp
  | chr c x rest hm => simpa using hw x hm
  | seq _ _ iha ihb => simp only [List.all_append, Bool.and_eq_true]; exact ⟨iha hw.1, ihb hw.2⟩
  | altL _ ih => exact ih hw.1
  | altR _ ih => exact ih hw.2
  | repStop => simp
  | repIter _ _ _ iha ihb =>
    simp only [List.all_append, Bool.and_eq_true]; exact ⟨iha hw, ihb hw⟩
  | eol => simp

theorem matchLen_le_run {r : Regex} (hw : WordOnly r) {w rest : List Char} (h : WordRun w rest)
    {m : Nat} (hm : matchLen r (w ++ rest) = .ok m) : m ≤ w.length := by
  obtain ⟨hle, hl⟩ := matchLen_sound _ _ _ hm
  have hall := lang_wordOnly hl hw
  refine Nat.le_of_not_lt fun hgt => ?_
  cases rest with
  | nil => simp at hle; omega
  | cons c rest' =>
    have hc := h.stop c rfl
    have : c ∈ (w ++ c :: rest').take m := by
      rw [List.take_append]
      simp only [List.mem_append]
      right
      rw [show m - w.length = (m - w.length - 1) + 1 by omega, List.take_succ_cons]
      simp
    have := List.all_eq_true.mp hall c this
    rw [hc] at this; cases this

/-- A pattern whose first character must be a non-word character fails on a word run. -/
theorem WordRun.cons {w rest} (h : WordRun w rest) : ∃ x t, w = x :: t ∧ isWordChar x = true := by
  cases w with
  | nil => exact absurd rfl h.ne
  | cons x t => exact ⟨x, t, rfl, by have := h.word; simp only [List.all_cons, Bool.and_eq_true] at this; exact this.1⟩

theorem matchLen_head_fail (c : CClass) (r : Regex) {w rest : List Char} (h : WordRun w rest)
    (hc : ∀ x, isWordChar x = true → c.mem x = false) :
    matchLen (.seq (.chr c) r) (w ++ rest) = .fail := by
  obtain ⟨x, t, rfl, hx⟩ := h.cons
  simp [matchLen, matchK, hc x hx]

theorem litC_nonword (q : Char) (hq : isWordChar q = false) :
    ∀ x, isWordChar x = true → (litC q).mem x = false := by
  intro x hx
  rw [litC_mem]
  by_cases h : x = q
  · subst h; rw [hq] at hx; cases hx
  · simp [h]

/-! ### Every pattern of the table stays within the run -/

theorem wordOnly_litC {c : Char} (h : isWordChar c = true) : wordOnlyC (litC c) := by
  intro x hx
  rw [litC_mem] at hx
  have : x = c := by simpa using hx
  rw [this]; exact h

theorem wordOnly_litThen : ∀ (l : List Char) (r : Regex), l.all isWordChar = true → WordOnly r →
    WordOnly (litThen l r) := by
  intro l
  induction l with
  | nil => intro r _ hr; exact hr
  | cons c cs ih =>
    intro r hl hr
    simp only [List.all_cons, Bool.and_eq_true] at hl
    exact ⟨wordOnly_litC hl.1, ih r hl.2 hr⟩

theorem wordOnly_litRegex : ∀ (l : List Char), l.all isWordChar = true → WordOnly (litRegex l) := by
  intro l
  induction l with
  | nil => intro _; trivial
  | cons c cs ih =>
    intro hl
    simp only [List.all_cons, Bool.and_eq_true] at hl
    cases cs with
    | nil => exact wordOnly_litC hl.1
    | cons d ds => exact ⟨wordOnly_litC hl.1, ih hl.2⟩

theorem wo_lower : wordOnlyC cLower := fun x h => (isWordChar_of x).1 (by rwa [cLower_mem] at h)
theorem wo_upper : wordOnlyC cUpper := fun x h => (isWordChar_of x).2.1 (by rwa [cUpper_mem] at h)
theorem wo_digit : wordOnlyC cDigit := fun x h => (isWordChar_of x).2.2.1 (by rwa [cDigit_mem] at h)
theorem wo_word : wordOnlyC cWord := fun x h => by rwa [cWord_mem] at h

theorem wo_of_or3 {c : CClass} {f g k : Char → Bool} (hm : ∀ x, c.mem x = (f x || g x || k x))
    (hf : ∀ x, f x = true → isWordChar x = true) (hg : ∀ x, g x = true → isWordChar x = true)
    (hk : ∀ x, k x = true → isWordChar x = true) : wordOnlyC c := by
  intro x h
  rw [hm] at h
  simp only [Bool.or_eq_true] at h
  rcases h with (h | h) | h
  · exact hf x h
  · exact hg x h
  · exact hk x h

theorem w_lower (x : Char) : isLower x = true → isWordChar x = true := (isWordChar_of x).1
theorem w_upper (x : Char) : isUpper x = true → isWordChar x = true := (isWordChar_of x).2.1
theorem w_digit (x : Char) : isDigit x = true → isWordChar x = true := (isWordChar_of x).2.2.1
theorem w_us (x : Char) : isUs x = true → isWordChar x = true := (isWordChar_of x).2.2.2

theorem wo_resCamelTail : wordOnlyC cResCamelTail := wo_of_or3 cResCamelTail_mem w_upper w_lower w_digit
theorem wo_resSnakeTail : wordOnlyC cResSnakeTail := wo_of_or3 cResSnakeTail_mem w_us w_lower w_digit
theorem wo_resShoutyTail : wordOnlyC cResShoutyTail := wo_of_or3 cResShoutyTail_mem w_us w_upper w_digit
theorem wo_snakeTail : wordOnlyC cSnakeTail := wo_of_or3 cSnakeTail_mem w_lower w_us w_digit
theorem wo_shoutyTail : wordOnlyC cShoutyTail := wo_of_or3 cShoutyTail_mem w_upper w_us w_digit
theorem wo_camelTail : wordOnlyC cCamelTail := wo_of_or3 cCamelTail_mem w_lower w_upper w_digit
theorem wo_shoutyMid : wordOnlyC cShoutyMid := by
  intro x h; rw [cShoutyMid_mem] at h; simp only [Bool.or_eq_true] at h
  rcases h with h | h
  · exact w_upper x h
  · exact w_us x h

theorem cHex_mem (c : Char) : cHex.mem c = isHexDigit c := by
  simp [cHex, CClass.mem, CItem.mem, isHexDigit, isDigit, between, Bool.or_assoc]
theorem cBin_mem (c : Char) : cBin.mem c = isBinDigit c := by
  simp only [cBin, CClass.mem, CItem.mem, isBinDigit, between, List.any_cons, List.any_nil,
    Bool.or_false, Bool.false_bne]
  have h0 : '0'.toNat = 48 := by decide
  have h1 : '1'.toNat = 49 := by decide
  rw [h0, h1]
  rw [Bool.eq_iff_iff]; simp only [Bool.or_eq_true, Bool.and_eq_true, decide_eq_true_eq]; omega
theorem cHexUs_mem (c : Char) : cHexUs.mem c = (isHexDigit c || isUs c) := by
  simp [cHexUs, CClass.mem, CItem.mem, isHexDigit, isDigit, isUs, between, range_single, Bool.or_assoc]

theorem w_hex (x : Char) : isHexDigit x = true → isWordChar x = true := by
  simp only [isHexDigit, isWordChar, isLower, isUpper, isDigit, between, Bool.or_eq_true, Bool.and_eq_true,
    decide_eq_true_eq]
  have ha : 'a'.toNat = 97 := by decide
  have hz : 'z'.toNat = 122 := by decide
  have hf : 'f'.toNat = 102 := by decide
  have hA : 'A'.toNat = 65 := by decide
  have hZ : 'Z'.toNat = 90 := by decide
  have hF : 'F'.toNat = 70 := by decide
  rw [ha, hz, hf, hA, hZ, hF]
  omega
theorem w_bin (x : Char) : isBinDigit x = true → isWordChar x = true := by
  intro h; apply w_digit
  simp only [isBinDigit, isDigit, between, Bool.and_eq_true, decide_eq_true_eq] at h ⊢
  have h0 : '0'.toNat = 48 := by decide
  have h1 : '1'.toNat = 49 := by decide
  have h9 : '9'.toNat = 57 := by decide
  rw [h0, h1] at h; rw [h0, h9]; omega
theorem wo_hex : wordOnlyC cHex := fun x h => w_hex x (by rwa [cHex_mem] at h)
theorem wo_bin : wordOnlyC cBin := fun x h => w_bin x (by rwa [cBin_mem] at h)
theorem wo_hexUs : wordOnlyC cHexUs := by
  intro x h; rw [cHexUs_mem] at h; simp only [Bool.or_eq_true] at h
  rcases h with h | h
  · exact w_hex x h
  · exact w_us x h
theorem wo_radix : wordOnlyC cRadix := by
  intro x h
  simp only [cRadix, CClass.mem, CItem.mem, List.any_cons, List.any_nil, Bool.or_false, Bool.false_bne,
    Bool.or_eq_true, Bool.and_eq_true, decide_eq_true_eq] at h
  simp only [isWordChar, isLower, isUpper, between, Bool.or_eq_true, Bool.and_eq_true, decide_eq_true_eq]
  have ha : 'a'.toNat = 97 := by decide
  have hz : 'z'.toNat = 122 := by decide
  have hA : 'A'.toNat = 65 := by decide
  have hZ : 'Z'.toNat = 90 := by decide
  rw [ha, hz, hA, hZ]
  omega
theorem wo_us : wordOnlyC (litC '_') := wordOnly_litC (by decide)

theorem wordOnly_grouped {c : CClass} (h : wordOnlyC c) (a b : Nat) : WordOnly (grouped c a b) :=
  ⟨h, wo_us, h⟩

theorem space_not_word (x : Char) (hx : isWordChar x = true) : cSpace.mem x = false := by
  simp only [cSpace, CClass.mem, List.any_cons, List.any_nil, CItem.mem, Bool.or_false, Bool.false_bne]
  simp only [isWordChar, isLower, isUpper, isDigit, isUs, between, Bool.or_eq_true, Bool.and_eq_true,
    decide_eq_true_eq, beq_iff_eq] at hx
  have ha : 'a'.toNat = 97 := by decide
  have hz : 'z'.toNat = 122 := by decide
  have hA : 'A'.toNat = 65 := by decide
  have hZ : 'Z'.toNat = 90 := by decide
  have h0 : '0'.toNat = 48 := by decide
  have h9 : '9'.toNat = 57 := by decide
  have hu : '_'.toNat = 95 := by decide
  have hd : '$'.toNat = 36 := by decide
  rw [ha, hz, hA, hZ, h0, h9, hu, hd] at hx
  simp only [isSpaceNat, Bool.or_eq_false_iff, Bool.and_eq_false_iff, decide_eq_false_iff_not, beq_eq_false_iff_ne]
  omega

theorem plus_head_fail (c : CClass) {w rest : List Char} (h : WordRun w rest)
    (hc : ∀ x, isWordChar x = true → c.mem x = false) : matchLen (plus c) (w ++ rest) = .fail := by
  obtain ⟨x, t, rfl, hx⟩ := h.cons
  rw [matchLen_eq, plus, plus_end, List.cons_append, span_cons, hc x hx]; simp

/-- Either the pattern only consumes word characters, or it cannot start at a word
character at all. -/
theorem expected_le_run {w rest : List Char} (h : WordRun w rest) :
    ∀ p ∈ expectedRegexes, ∀ m, matchLen p.re (w ++ rest) = .ok m → m ≤ w.length := by
  have wo : ∀ r, WordOnly r → ∀ m, matchLen r (w ++ rest) = .ok m → m ≤ w.length :=
    fun r hr m hm => matchLen_le_run hr h hm
  have hf : ∀ r, matchLen r (w ++ rest) = .fail → ∀ m, matchLen r (w ++ rest) = .ok m → m ≤ w.length := by
    intro r hr m hm; rw [hr] at hm; cases hm
  intro p hp
  simp only [expectedRegexes, List.mem_cons, List.not_mem_nil, or_false] at hp
  rcases hp with rfl | rfl | rfl | rfl | rfl | rfl | rfl | rfl | rfl | rfl | rfl | rfl | rfl | rfl | rfl |
    rfl | rfl | rfl | rfl | rfl | rfl | rfl | rfl
  · exact wo _ (wordOnly_litThen _ _ (by decide) wo_resCamelTail)
  · exact wo _ (wordOnly_litThen _ _ (by decide) wo_resSnakeTail)
  · exact wo _ (wordOnly_litThen _ _ (by decide) wo_resShoutyTail)
  · exact hf _ (matchLen_head_fail _ _ h (litC_nonword _ (by decide)))
  · exact wo _ wo_digit
  · exact wo _ (wordOnly_grouped wo_digit 3 3)
  · exact wo _ (wordOnly_litThen _ _ (by decide) wo_hex)
  · exact wo _ (wordOnly_litThen _ _ (by decide) ⟨wo_us, wordOnly_grouped wo_hex 4 4⟩)
  · exact wo _ (wordOnly_litThen _ _ (by decide) ⟨wo_us, wordOnly_grouped wo_hex 8 8⟩)
  · exact wo _ (wordOnly_litThen _ _ (by decide) wo_bin)
  · exact wo _ (wordOnly_litThen _ _ (by decide) ⟨wo_us, wordOnly_grouped wo_bin 4 4⟩)
  · exact wo _ (wordOnly_litThen _ _ (by decide) ⟨wo_us, wordOnly_grouped wo_bin 8 8⟩)
  · exact wo _ ⟨wordOnly_litRegex _ (by decide), wordOnly_litRegex _ (by decide)⟩
  · exact wo _ ⟨wo_lower, wo_snakeTail⟩
  · exact wo _ ⟨wo_upper, wo_shoutyTail, wo_shoutyMid, wo_shoutyTail⟩
  · exact wo _ ⟨wo_upper, wo_camelTail, wo_lower, wo_camelTail⟩
  · exact hf _ (matchLen_head_fail _ _ h (litC_nonword _ (by decide)))
  · exact hf _ (matchLen_head_fail _ _ h (litC_nonword _ (by decide)))
  · exact hf _ (matchLen_head_fail _ _ h (litC_nonword _ (by decide)))
  · exact hf _ (plus_head_fail _ h space_not_word)
  · exact hf _ (matchLen_head_fail _ _ h (litC_nonword _ (by decide)))
  · exact wo _ ⟨wo_digit, wo_radix, wo_hexUs⟩
  · exact wo _ wo_word

/-! ### Literals -/

def mkLit (l : String) : Pat := ⟨litRegex l.toList, some ("\"" ++ l ++ "\"")⟩

theorem tokTable_pats : tokTable.pats = (punctLiterals ++ keywords).map mkLit ++ expectedRegexes := by
  simp only [Table.pats, tokTable, tokLiterals_eq, tokRegexes_eq]
  rfl

theorem punct_heads : punctLiterals.all (fun l => match l.toList with
    | q :: _ => !isWordChar q | [] => false) = true := by decide

theorem keywords_words : keywords.all (fun l => l.toList.all isWordChar) = true := by decide

theorem punct_fail {w rest : List Char} (h : WordRun w rest) :
    ∀ l ∈ punctLiterals, matchLen (litRegex l.toList) (w ++ rest) = .fail := by
  intro l hl
  have := List.all_eq_true.mp punct_heads l hl
  obtain ⟨x, t, rfl, hx⟩ := h.cons
  rw [matchLen_litRegex]
  cases hq : l.toList with
  | nil => rw [hq] at this; cases this
  | cons q ls =>
    rw [hq] at this
    simp only [Bool.not_eq_true'] at this
    have : (q == x) = false := by
      simp only [beq_eq_false_iff_ne, ne_eq]
      intro hh; subst hh; rw [hx] at this; cases this
    simp [List.isPrefixOf, this]

theorem all_le_run {w rest : List Char} (h : WordRun w rest) :
    ∀ p ∈ tokTable.pats, ∀ m, matchLen p.re (w ++ rest) = .ok m → m ≤ w.length := by
  intro p hp m hm
  rw [tokTable_pats, List.mem_append, List.mem_map] at hp
  rcases hp with ⟨l, hl, rfl⟩ | hp
  · rw [List.mem_append] at hl
    rcases hl with hl | hl
    · simp only [mkLit] at hm
      rw [punct_fail h l hl] at hm; cases hm
    · have := List.all_eq_true.mp keywords_words l hl
      exact matchLen_le_run (wordOnly_litRegex _ this) h hm
  · exact expected_le_run h p hp m hm

theorem badWord_full {w rest : List Char} (h : WordRun w rest) :
    matchLen reBadWord (w ++ rest) = .ok w.length := by
  have hs : span cWord (w ++ rest) = w.length := by
    rw [span_append_full]
    · have := h.word
      rw [List.all_eq_true] at this ⊢
      intro x hx; rw [cWord_mem]; exact this x hx
    · intro x hx; rw [cWord_mem]; exact h.stop x hx
  have hpos : 1 ≤ w.length := by
    cases w with
    | nil => exact absurd rfl h.ne
    | cons _ _ => simp
  rw [matchLen_eq, reBadWord, plus, plus_end, hs]
  simp [hpos]

theorem badWord_mem : (⟨reBadWord, some "BadWord"⟩ : Pat) ∈ tokTable.pats := by
  rw [tokTable_pats]; simp [expectedRegexes]

/-- At the start of a maximal word run the chosen token is exactly the run. -/
theorem word_run_best {w rest : List Char} (h : WordRun w rest) :
    ∃ sy, bestMatch tokTable.pats (w ++ rest) 0 none = some (w.length, sy) ∧
      IsBest tokTable.pats (w ++ rest) w.length sy := by
  cases hb : bestMatch tokTable.pats (w ++ rest) 0 none with
  | none => exact absurd hb (bestMatch_ne_none _ _ _ _)
  | some r =>
    obtain ⟨n, sy⟩ := r
    have hpos : 1 ≤ w.length := by
      cases w with
      | nil => exact absurd rfl h.ne
      | cons _ _ => simp
    rcases bestMatch_spec _ _ _ _ _ _ hb with ⟨h1, _, h3⟩ | ⟨_, hbest⟩
    · have := h3 _ badWord_mem _ (badWord_full h)
      omega
    · have hbest' := hbest
      obtain ⟨pre, p, post, hp, hm, hs, hpre, hpost⟩ := hbest
      have hle : n ≤ w.length := all_le_run h p (by rw [hp]; simp) n hm
      have hge : w.length ≤ n := by
        have hmem := badWord_mem
        rw [hp, List.mem_append, List.mem_cons] at hmem
        rcases hmem with hmem | hmem | hmem
        · have := hpre _ hmem _ (badWord_full h); omega
        · rw [← hmem] at hm; simp only at hm; rw [badWord_full h] at hm; cases hm; omega
        · exact hpost _ hmem _ (badWord_full h)
      have : n = w.length := by omega
      subst this
      exact ⟨sy, rfl, hbest'⟩

end Emboss.Tok
