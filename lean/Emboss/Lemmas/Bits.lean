/-
Helper lemmas about the fixed-width arithmetic model (`Emboss.Model.Bits`).
-/
import Emboss.Model.Bits
namespace Emboss.Bits

theorem two_pow_pos' (n : Nat) : 0 < 2 ^ n := Nat.pos_of_ne_zero (by simp)

theorem wrap_of_lt {W x : Nat} (h : x < 2 ^ W) : wrap W x = x := Nat.mod_eq_of_lt h

theorem wrap_lt (W x : Nat) : wrap W x < 2 ^ W := Nat.mod_lt _ (two_pow_pos' W)

theorem pow_le_pow {a b : Nat} (h : a ≤ b) : 2 ^ a ≤ 2 ^ b := Nat.pow_le_pow_right (by decide) h

theorem pow_lt_pow {a b : Nat} (h : a < b) : 2 ^ a < 2 ^ b := Nat.pow_lt_pow_right (by decide) h

theorem lt_pow_of_lt_of_le {x a b : Nat} (h : x < 2 ^ a) (hab : a ≤ b) : x < 2 ^ b :=
  Nat.lt_of_lt_of_le h (pow_le_pow hab)

theorem le_arithW (W : Nat) : W ≤ arithW W := by unfold arithW; split <;> omega

theorem shl_eq {W x n : Nat} (h : x * 2 ^ n < 2 ^ W) : shl W x n = x * 2 ^ n := by
  unfold shl; rw [Nat.shiftLeft_eq]; exact wrap_of_lt h

theorem shl_one {W n : Nat} (h : n < W) : shl W 1 n = 2 ^ n := by
  rw [shl_eq] <;> simp [pow_lt_pow h]

theorem subW_eq {W a b : Nat} (ha : a < 2 ^ W) (hb : b ≤ a) : subW W a b = a - b := by
  unfold subW
  have hb' : b < 2 ^ W := Nat.lt_of_le_of_lt hb ha
  rw [wrap_of_lt ha, wrap_of_lt hb']
  have : a + (2 ^ W - b) = (a - b) + 2 ^ W := by omega
  rw [this]; unfold wrap; rw [Nat.add_mod_right]; exact Nat.mod_eq_of_lt (by omega)

theorem notW_eq {W x : Nat} (h : x < 2 ^ W) : notW W x = 2 ^ W - 1 - x := by
  unfold notW; rw [wrap_of_lt h]

/-- `MaskToNBits` keeps exactly the low `bits` bits (for every `bits ≤ W`, including the
guarded case `bits = W` where a shift by the full width would be undefined). -/
theorem maskToNBits_eq {W value bits : Nat} (hv : value < 2 ^ W) (hb : bits ≤ W) :
    maskToNBits W value bits = value % 2 ^ bits := by
  unfold maskToNBits
  split
  · rename_i hlt
    have hA : bits < arithW W := Nat.lt_of_lt_of_le hlt (le_arithW W)
    rw [shl_one hA, subW_eq (pow_lt_pow hA) (two_pow_pos' bits), Nat.and_two_pow_sub_one_eq_mod]
    exact wrap_of_lt (Nat.lt_of_le_of_lt (Nat.mod_le _ _) hv)
  · have : bits = W := by omega
    subst this; exact (Nat.mod_eq_of_lt hv).symm

theorem maskToNBits_ge {W value bits : Nat} (hb : W ≤ bits) : maskToNBits W value bits = value := by
  unfold maskToNBits; rw [if_neg (by omega)]

/-- Shift-and-mask extraction of bits `[o, o+s)`. -/
theorem mod_shiftRight (x o s : Nat) : (x % 2 ^ (o + s)) >>> o = x / 2 ^ o % 2 ^ s := by
  rw [Nat.shiftRight_eq_div_pow, Nat.pow_add, Nat.mod_mul_right_div_self]

theorem or_eq_add_shift {r b n : Nat} (hr : r < 2 ^ n) : r ||| b * 2 ^ n = r + b * 2 ^ n := by
  have := Nat.shiftLeft_add_eq_or_of_lt hr b
  rw [Nat.shiftLeft_eq] at this
  rw [Nat.or_comm, ← this, Nat.add_comm]

theorem leastWidth_cases (k : Nat) :
    leastWidth k = 8 ∨ leastWidth k = 16 ∨ leastWidth k = 32 ∨ leastWidth k = 64 := by
  unfold leastWidth; repeat' split
  all_goals simp

theorem le_leastWidth {k : Nat} (h : k ≤ 64) : k ≤ leastWidth k := by
  unfold leastWidth; repeat' split
  all_goals omega

theorem leastWidth_mono {a b : Nat} (h : a ≤ b) : leastWidth a ≤ leastWidth b := by
  unfold leastWidth
  repeat' split
  all_goals omega

end Emboss.Bits
