/-
C10, table-specific: which pattern matches a maximal word run that starts with a digit,
in terms of the language reference's numeric-constant rules.
-/
import Emboss.Lemmas.TokClassify
import Emboss.Lemmas.RegexGroups
namespace Emboss.Tok
open Emboss.Regex Emboss.Tok.Class Emboss.Generated

theorem grouped_eq (c : CClass) (a b : Nat) : grouped c a b = groupedRe c a b := rfl

/-- `_?` in front of a pattern that cannot start with `_`. -/
theorem opt_then (c : CClass) (K : List Char → MRes)
    (hK : ∀ x t, c.mem x = true → K (x :: t) = .fail) (s : List Char) :
    matchK (opt c) s K = match s with
      | x :: t => if c.mem x then K t else K (x :: t)
      | [] => K [] := by
  cases s with
  | nil => rw [opt, rep_chr_nil]; simp
  | cons x t =>
    rw [opt, rep_chr_cons_zero]
    by_cases hc : c.mem x = true
    · have h0 : (some 1 : Option Nat) ≠ some 0 := by simp
      simp only [ne_eq, h0, not_false_eq_true, hc, and_self, if_true, Option.map_some]
      rw [matchK_rep]
      simp only [Nat.sub_self, if_true]
      split
      · rename_i hf; rw [hK x t hc, hf]
      · rfl
    · simp [hc]

section
variable {w rest : List Char} (h : WordRun w rest)
include h

theorem stop_us : ∀ x, rest.head? = some x → x ≠ '_' := by
  intro x hx hc
  subst hc
  have := h.stop '_' hx
  revert this; decide

theorem full_dec : full reDec w rest = isPlain isDigit w := by
  have hstop := stop_of_wo h wo_digit
  have hne : w.isEmpty = false := by
    cases w with
    | nil => exact absurd rfl h.ne
    | cons _ _ => rfl
  have hm : cDigit.mem = isDigit := funext cDigit_mem
  rw [Bool.eq_iff_iff, full_iff, reDec, plus, matchLen_eq, plus_end]
  simp only [isPlain, hne, Bool.not_false, Bool.true_and, Nat.zero_add]
  rw [← hm, ← span_append_full cDigit w rest hstop]
  have hpos : 1 ≤ w.length := by
    cases w with
    | nil => exact absurd rfl h.ne
    | cons _ _ => simp
  constructor
  · intro hh
    split at hh
    · simpa using hh
    · cases hh
  · intro hh
    rw [hh, if_pos hpos]

theorem full_decGrouped : full reDecGrouped w rest = true ↔ Grouped isDigit 3 3 w := by
  have hm : cDigit.mem = isDigit := funext cDigit_mem
  rw [full_iff, reDecGrouped, grouped_eq, matchLen_eq]
  have := grouped_full cDigit 3 3 0 (by omega) w rest (stop_of_wo h wo_digit) (stop_us h) (by decide)
  rw [Nat.zero_add, hm] at this
  exact this

/-- Two literal characters in front of `r`. -/
theorem full_lit2 (p1 p2 : Char) (hp2 : isWordChar p2 = true) (r : Regex) :
    full (litThen [p1, p2] r) w rest = true ↔
      ∃ body, w = p1 :: p2 :: body ∧
        matchK r (body ++ rest) (kOff 2 (body ++ rest)) = .ok (2 + body.length) := by
  rw [full_iff, matchLen_eq]
  obtain ⟨a, t, rfl, _⟩ := h.cons
  cases t with
  | nil =>
    constructor
    · intro hh
      exfalso
      simp only [litThen, List.cons_append, List.nil_append, matchK_seq, matchK_chr_cons, litC_mem] at hh
      split at hh
      · cases rest with
        | nil => simp at hh
        | cons b rest' =>
          have hb := h.stop b rfl
          simp only [matchK_chr_cons, litC_mem] at hh
          split at hh
          · rename_i hbp
            have : b = p2 := by simpa using hbp
            subst this; rw [hp2] at hb; cases hb
          · cases hh
      · cases hh
    · rintro ⟨body, hb, _⟩
      simp at hb
  | cons b body =>
    simp only [litThen, List.cons_append, matchK_seq, matchK_chr_cons, litC_mem, kOff_cons, List.length_cons,
      Nat.zero_add]
    constructor
    · intro hh
      split at hh
      · rename_i ha
        split at hh
        · rename_i hb
          have ha' : a = p1 := by simpa using ha
          have hb' : b = p2 := by simpa using hb
          subst ha' hb'
          refine ⟨body, rfl, ?_⟩
          rw [hh]; congr 1; omega
        · cases hh
      · cases hh
    · rintro ⟨body', hb, hv⟩
      simp only [List.cons.injEq] at hb
      obtain ⟨rfl, rfl, rfl⟩ := hb
      simp only [beq_self_eq_true, if_true]
      rw [hv]; congr 1; omega

/-- `0x[0-9a-fA-F]+`, `0b[01]+`. -/
theorem full_radix_plain (p : Char) (hp : isWordChar p = true) (c : CClass) (dig : Char → Bool)
    (hm : c.mem = dig) (hc : wordOnlyC c) :
    full (litThen ['0', p] (plus c)) w rest = true ↔
      ∃ body, w = '0' :: p :: body ∧ isPlain dig body = true := by
  rw [full_lit2 h '0' p hp]
  have hstop := stop_of_wo h hc
  constructor
  · rintro ⟨body, hw, hv⟩
    refine ⟨body, hw, ?_⟩
    rw [plus, plus_end] at hv
    split at hv
    · rename_i hpos
      simp only [MRes.ok.injEq] at hv
      have hs : span c (body ++ rest) = body.length := by omega
      have hall := (span_append_full c body rest hstop).mp hs
      rw [hm] at hall
      have : body ≠ [] := by
        rintro rfl
        simp only [List.nil_append, List.length_nil] at hs hpos
        omega
      cases body with
      | nil => exact absurd rfl this
      | cons _ _ => simpa [isPlain] using hall
    · cases hv
  · rintro ⟨body, hw, hpl⟩
    refine ⟨body, hw, ?_⟩
    simp only [isPlain, Bool.and_eq_true, Bool.not_eq_true', List.isEmpty_eq_false_iff] at hpl
    rw [← hm] at hpl
    have hs := (span_append_full c body rest hstop).mpr hpl.2
    have hpos : 1 ≤ body.length := List.length_pos_iff.mpr hpl.1
    rw [plus, plus_end, hs, if_pos hpos]

/-- `0x_?D{1,n}(?:_D{n})*`, `0b_?…`. -/
theorem full_radix_grouped (p : Char) (hp : isWordChar p = true) (c : CClass) (dig : Char → Bool)
    (hm : c.mem = dig) (hc : wordOnlyC c) (hus : c.mem '_' = false) (n : Nat) (hn : 1 ≤ n) :
    full (litThen ['0', p] (.seq (opt (litC '_')) (grouped c n n))) w rest = true ↔
      ∃ body, (w = '0' :: p :: body ∨ w = '0' :: p :: '_' :: body) ∧ Grouped dig n n body := by
  rw [full_lit2 h '0' p hp]
  have hstop := stop_of_wo h hc
  have hru := stop_us h
  have hK : ∀ (kf : List Char → MRes) (x : Char) (t : List Char), (litC '_').mem x = true →
      matchK (grouped c n n) (x :: t) kf = .fail := by
    intro kf x t hx
    have : x = '_' := by simpa using hx
    subst this
    simp only [grouped, matchK_seq]
    rw [rep_chr_cons_succ, hus]; simp
  have key : ∀ (m : Nat) (b : List Char),
      matchK (grouped c n n) (b ++ rest) (kOff m (b ++ rest)) = .ok (m + b.length) ↔ Grouped dig n n b := by
    intro m b
    rw [grouped_eq, grouped_full c n n m hn b rest hstop hru hus, hm]
    rfl
  constructor
  · rintro ⟨body, hw, hv⟩
    rw [matchK_seq, opt_then _ _ (hK _)] at hv
    cases body with
    | nil =>
      exfalso
      simp only [List.nil_append] at hv
      have k0 := key 2 []
      simp only [List.nil_append, List.length_nil, Nat.add_zero] at k0
      have hG : ¬ Grouped dig n n [] := by
        rintro ⟨g0, gs, hb, h1, _⟩
        have := congrArg List.length hb
        simp at this; omega
      cases rest with
      | nil => exact hG (k0.mp hv)
      | cons y rest' =>
        simp only at hv
        have hy : (litC '_').mem y = false := by
          rw [litC_mem]; simpa using hru y rfl
        rw [hy] at hv
        exact hG (k0.mp hv)
    | cons y body' =>
      simp only [List.cons_append] at hv
      by_cases hy : (litC '_').mem y = true
      · have : y = '_' := by simpa using hy
        subst this
        simp only [hy, if_true] at hv
        refine ⟨body', .inr hw, ?_⟩
        rw [kOff_cons] at hv
        apply (key 3 body').mp
        rw [hv]; congr 1; simp only [List.length_cons]; omega
      · simp only [hy, Bool.false_eq_true, if_false] at hv
        refine ⟨y :: body', .inl hw, ?_⟩
        exact (key 2 (y :: body')).mp hv
  · rintro ⟨body, hw | hw, hG⟩
    · refine ⟨body, hw, ?_⟩
      rw [matchK_seq, opt_then _ _ (hK _)]
      have hv := (key 2 body).mpr hG
      cases body with
      | nil =>
        exfalso
        obtain ⟨g0, gs, hb, h1, _⟩ := hG
        have := congrArg List.length hb
        simp at this; omega
      | cons y body' =>
        have hy : (litC '_').mem y = false := by
          rw [litC_mem]
          cases hyy : (y == '_') with
          | false => rfl
          | true =>
            exfalso
            have : y = '_' := by simpa using hyy
            subst this
            rw [List.cons_append, hK _ _ _ (by simp)] at hv
            cases hv
        simp only [List.cons_append, hy, Bool.false_eq_true, if_false]
        exact hv
    · refine ⟨'_' :: body, hw, ?_⟩
      rw [matchK_seq, opt_then _ _ (hK _)]
      have hv := (key 3 body).mpr hG
      simp only [List.cons_append, litC_mem, beq_self_eq_true, if_true, kOff_cons]
      rw [hv]; congr 1; simp only [List.length_cons]; omega

omit h in
theorem cRadix_mem (y : Char) : cRadix.mem y =
    (y.toNat == 'b'.toNat || y.toNat == 'x'.toNat || y.toNat == 'B'.toNat || y.toNat == 'X'.toNat) := by
  simp [cRadix, CClass.mem, CItem.mem, range_single, Bool.or_assoc]

omit h in
theorem span_stop {c : CClass} (hstop : ∀ x, rest.head? = some x → c.mem x = false) : span c rest = 0 := by
  cases rest with
  | nil => rfl
  | cons y r => rw [span_cons, hstop y rfl]; simp

theorem full_badNumber : full reBadNumber w rest = isBadNumberShape w := by
  obtain ⟨x, t, rfl, _⟩ := h.cons
  have hsR := stop_of_wo h wo_radix
  have hsH := stop_of_wo h wo_hexUs
  have hmH : cHexUs.mem = fun c => isHexDigit c || isUs c := funext cHexUs_mem
  simp only [full, reBadNumber, matchLen_eq, List.cons_append, matchK_seq, matchK_chr_cons, kOff_cons,
    cDigit_mem, isBadNumberShape, List.length_cons, Nat.zero_add]
  by_cases hd : isDigit x = true
  · simp only [hd, if_true, Bool.true_and]
    have hK : ∀ u, matchK (star cHexUs) u (kOff 1 (t ++ rest)) ≠ .fail :=
      fun u => rep_chr_zero_ne_fail _ _ (kOff_ne_fail _ _) u none
    rw [opt, rep_chr_zero_nofail cRadix _ hK]
    simp only [takeUpTo]
    have hm : min 1 (span cRadix (t ++ rest)) ≤ (t ++ rest).length := by
      have := span_le cRadix (t ++ rest); omega
    rw [kOff_drop' 1 _ _ hm, star, star_end]
    simp only [takeUpTo]
    cases t with
    | nil =>
      simp only [List.nil_append, span_stop hsR, Nat.min_zero, List.drop_zero, span_stop hsH]
      simp
    | cons y t' =>
      simp only [List.cons_append, span_cons]
      rw [← cRadix_mem y]
      by_cases hr : cRadix.mem y = true
      · simp only [hr, if_true, Bool.true_and]
        have : min 1 (span cRadix (t' ++ rest) + 1) = 1 := by omega
        rw [this, List.drop_succ_cons, List.drop_zero]
        rw [Bool.eq_iff_iff]
        simp only [beq_iff_eq, MRes.ok.injEq, List.length_cons, Bool.or_eq_true, List.all_cons,
          Bool.and_eq_true]
        rw [← hmH, ← span_append_full cHexUs t' rest hsH]
        constructor
        · intro hh; right; omega
        · rintro (⟨_, hh⟩ | hh) <;> omega
      · have hr' : cRadix.mem y = false := by simpa using hr
        simp only [hr', Bool.false_eq_true, if_false, Nat.min_zero, List.drop_zero, Bool.false_and,
          Bool.or_false]
        rw [Bool.eq_iff_iff]
        simp only [beq_iff_eq, MRes.ok.injEq, List.length_cons]
        rw [← hmH, ← List.cons_append, ← span_append_full cHexUs (y :: t') rest hsH]
        simp only [List.length_cons]
        constructor <;> intro hh <;> omega
  · simp [hd]

end

end Emboss.Tok
