/-
Lemmas about the three-valued evaluator on the shapes of requirement that occur in the
regenerated prelude (C14).
-/
import Emboss.Model.SExpr
namespace Emboss.Constraints

theorem evalS_and (s : Option Int) (a b : SExpr) :
    evalS s (.and a b) = and3 (evalS s a) (evalS s b) := rfl

theorem evalS_or (s : Option Int) (a b : SExpr) :
    evalS s (.or a b) = or3 (evalS s a) (evalS s b) := rfl

theorem evalS_isStatic_some (n : Int) : evalS (some n) .isStatic = some (.bool true) := rfl

theorem evalS_isStatic_none : evalS none .isStatic = some (.bool false) := rfl

theorem reqMet_none_isStatic_and (e : SExpr) : reqMet (.and .isStatic e) none = false := by
  simp [reqMet, evalS, and3, Val.truthy]

theorem evalS_le_num_size (n k : Int) :
    evalS (some n) (.le (.num k) .size) = some (.bool (decide (k ≤ n))) := rfl

theorem evalS_le_size_num (n k : Int) :
    evalS (some n) (.le .size (.num k)) = some (.bool (decide (n ≤ k))) := rfl

theorem evalS_eq_size_num (n k : Int) :
    evalS (some n) (.eq .size (.num k)) = some (.bool (decide (n = k))) := rfl

theorem and3_bools (a b : Bool) : and3 (some (.bool a)) (some (.bool b)) = some (.bool (a && b)) := by
  cases a <;> cases b <;> simp [and3]

theorem or3_bools (a b : Bool) : or3 (some (.bool a)) (some (.bool b)) = some (.bool (a || b)) := by
  cases a <;> cases b <;> simp [or3]

theorem reqMet_of_eval (e : SExpr) (s : Option Int) (b : Bool) (h : evalS s e = some (.bool b)) :
    reqMet e s = b := by
  simp [reqMet, h, Val.truthy]

end Emboss.Constraints
