import Emboss.Lemmas.TypesSub
namespace Emboss.Types

/-! Positional requirements (`check_types`) and attribute values, spec side.
`coded = false`: the requirements of the property statement / language reference;
`coded = true` adds what the code accepts beyond them (ordering on enums inside the
expressions, `HasType true`; enum values of enum type) — both open findings pinned by
emboss's own tests. -/

/-- passed parameters: same arity; where the declared parameter has a value type (integer,
enum) the argument has exactly that type — for enums: the same enum, module included. -/
def PassedArgsOk (coded : Bool) : List (Ty × Loc) → List Expr → Prop
  | tl :: ts, g :: gs => (tl.1.isValue = false ∨ HasType coded g tl.1) ∧ PassedArgsOk coded ts gs
  | [], [] => True
  | _, _ => False

structure PositionsOk (coded : Bool) (m : Module) : Prop where
  /-- field start and size are integers -/
  locations : ∀ p ∈ m.locations, HasType coded p.2.1 .int ∧ HasType coded p.2.2 .int
  /-- array lengths are integers -/
  arrays : ∀ a ∈ m.arrays, HasType coded a.2 .int
  /-- existence conditions are booleans -/
  conds : ∀ c ∈ m.conds, HasType coded c.2 .bool
  /-- enum values are integers (AS CODED ALSO: expressions of an enum type, `TEN = TEN2`) -/
  enumValues : ∀ v ∈ m.enumValues,
    HasType coded v.2 .int ∨ (coded = true ∧ ∃ n, HasType coded v.2 (.enum n))
  /-- runtime parameters are integers or enums (and not arrays) -/
  params : ∀ p ∈ m.params, p.ty = .int ∨ ∃ n, p.ty = .enum n
  passed : ∀ p ∈ m.passed, PassedArgsOk coded p.expected p.given

/-- the expressions `check_types` looks at -/
def inspected (m : Module) : List FExpr :=
  m.locations.flatMap (fun p => [(p.1, p.2.1), (p.1, p.2.2)]) ++ m.arrays ++ m.conds ++
    m.enumValues ++ m.passed.flatMap (fun p => p.given.map (fun g => (p.file, g)))

/-- the expressions the attribute validators look at -/
def attrExprs : List Attr → List FExpr
  | [] => []
  | a :: as => (match a.val with | .expr e => [(a.file, e)] | .str _ => []) ++ attrExprs as

/-- every position's expression is one of the module's top-level expressions (what
`annotate_types` traverses): guaranteed by the IR's shape. -/
def Module.wf (m : Module) : Prop := ∀ e ∈ inspected m ++ attrExprs m.attrs, e ∈ m.exprs

/-- `annotate_types` raised no objection to the expression -/
def Typed (e : FExpr) : Prop := (tc e.1 e.2).errs = []

instance (e : FExpr) : Decidable (Typed e) := by unfold Typed; infer_instance

theorem typed_hasType {e : FExpr} (h : Typed e) : HasType true e.2 (tc e.1 e.2).ty :=
  (tc_iff e.2 e.1 _).1 ⟨h, rfl⟩

theorem hasType_ty {e : Expr} {file : FileId} {τ : Ty} (h : HasType true e τ) : (tc file e).ty = τ :=
  ((tc_iff e file τ).2 h).2

theorem wantTy_nil {want : Ty} {c : Cls} {e : FExpr} (h : Typed e) :
    wantTy want c e = [] ↔ HasType true e.2 want := by
  unfold wantTy
  constructor
  · intro h'
    split at h'
    · rename_i ht; exact (tc_iff e.2 e.1 want).1 ⟨h, ht⟩
    · simp at h'
  · intro h'
    simp [hasType_ty h']

theorem tcAll_nil : ∀ (es : List FExpr), tcAll es = [] ↔ ∀ e ∈ es, Typed e
  | [] => by simp [tcAll]
  | e :: es => by simp [tcAll, tcAll_nil es, Typed]

theorem flatMap_nil {α β} {l : List α} {f : α → List β} : l.flatMap f = [] ↔ ∀ x ∈ l, f x = [] := by
  induction l with
  | nil => simp
  | cons a l ih => simp [List.flatMap_cons, ih]

/-- `annotate_types` is silent iff every expression is typed and no parameter is an array -/
theorem annotate_nil (m : Module) :
    annotate m = [] ↔ (∀ e ∈ m.exprs, Typed e) ∧ ∀ p ∈ m.params, p.pty ≠ .array := by
  simp only [annotate, List.append_eq_nil_iff, tcAll_nil, flatMap_nil]
  constructor
  · rintro ⟨h1, h2⟩
    refine ⟨h1, fun p hp hpa => ?_⟩
    have := h2 p hp; simp [hpa] at this
  · rintro ⟨h1, h2⟩
    refine ⟨h1, fun p hp => ?_⟩
    simp [h2 p hp]

theorem paramAll_ok : ∀ (ps : List Param),
    (((paramAll ps).errs = [] ∧ (paramAll ps).crash = none) ↔ ∀ p ∈ ps, p.ty = .int ∨ ∃ n, p.ty = .enum n)
  | [] => by simp [paramAll]
  | p :: ps => by
    have ih := paramAll_ok ps
    simp only [paramAll, PassRes.app, List.append_eq_nil_iff, orCrash_none, List.mem_cons,
      forall_eq_or_imp]
    rw [← ih]
    have h1 : ((paramOne p).errs = [] ∧ (paramOne p).crash = none) ↔ (p.ty = .int ∨ ∃ n, p.ty = .enum n) := by
      unfold paramOne
      cases hty : p.ty <;> simp
    rw [← h1]
    constructor
    · rintro ⟨⟨a, b⟩, c, d⟩; exact ⟨⟨a, c⟩, b, d⟩
    · rintro ⟨⟨a, c⟩, b, d⟩; exact ⟨⟨a, b⟩, c, d⟩

theorem paramAll_crash : ∀ (ps : List Param), (∀ p ∈ ps, p.pty ≠ .array) → (paramAll ps).crash = none
  | [], _ => by simp [paramAll]
  | p :: ps, h => by
    have ih := paramAll_crash ps (fun q hq => h q (by simp [hq]))
    have hp := h p (by simp)
    simp only [paramAll, PassRes.app, orCrash_none, ih, and_true]
    unfold paramOne Param.ty
    cases hpt : p.pty with
    | array => exact absurd hpt hp
    | atomic t => cases t <;> simp [DTy.toTy]

theorem passedArgs_ok (p : Passed) : ∀ (i : Nat) (ts : List (Ty × Loc)) (gs : List Expr),
    ts.length = gs.length → (∀ g ∈ gs, Typed (p.file, g)) →
    (((passedArgs p i ts gs).errs = [] ∧ (passedArgs p i ts gs).crash = none) ↔ PassedArgsOk true ts gs)
  | _, [], [], _, _ => by simp [passedArgs, PassedArgsOk]
  | _, [], _ :: _, h, _ => by simp at h
  | _, _ :: _, [], h, _ => by simp at h
  | i, (t, pl) :: ts, g :: gs, h, ht => by
    have ih := passedArgs_ok p (i + 1) ts gs (by simpa using h) (fun x hx => ht x (by simp [hx]))
    have hg : Typed (p.file, g) := ht g (by simp)
    simp only [passedArgs, PassedArgsOk]
    by_cases hv : t.isValue = true
    · simp only [hv, Bool.not_true, Bool.false_eq_true, if_false]
      by_cases hs : (tc p.file g).ty = t
      · simp only [hs, if_true, ih]
        constructor
        · intro h'; exact ⟨.inr (hs ▸ typed_hasType hg), h'⟩
        · intro h'; exact h'.2
      · simp only [hs, if_false]
        have hno : ¬ HasType true g t := fun h1 => hs (hasType_ty h1)
        split <;> simp_all
    · simp only [hv, Bool.not_false, if_true, ih]
      simp at hv
      simp

theorem passedArgs_crash (p : Passed) : ∀ (i : Nat) (ts : List (Ty × Loc)) (gs : List Expr),
    (∀ g ∈ gs, Typed (p.file, g)) → (passedArgs p i ts gs).crash = none
  | _, [], _, _ => by simp [passedArgs]
  | _, _ :: _, [], _ => by simp [passedArgs]
  | i, (t, pl) :: ts, g :: gs, ht => by
    have ih := passedArgs_crash p (i + 1) ts gs (fun x hx => ht x (by simp [hx]))
    have hg : Typed (p.file, g) := ht g (by simp)
    have hne : (tc p.file g).ty ≠ .none := fun h => tc_none_err g p.file h hg
    simp only [passedArgs]
    repeat' split
    all_goals simp_all

theorem passedOne_ok (p : Passed) (ht : ∀ g ∈ p.given, Typed (p.file, g)) :
    ((passedOne p).errs = [] ∧ (passedOne p).crash = none) ↔ PassedArgsOk true p.expected p.given := by
  unfold passedOne
  by_cases hl : p.expected.length = p.given.length
  · simp only [hl, ne_eq, not_true_eq_false, if_false]
    exact passedArgs_ok p 0 _ _ hl ht
  · simp only [ne_eq, hl, not_false_eq_true, if_true]
    constructor
    · intro h; simp at h
    · intro h
      exfalso
      revert hl h
      generalize p.expected = ts
      generalize p.given = gs
      intro hl h
      induction ts generalizing gs with
      | nil => cases gs <;> simp_all [PassedArgsOk]
      | cons t ts ih =>
        cases gs with
        | nil => simp [PassedArgsOk] at h
        | cons g gs => exact ih gs (by simpa using hl) h.2

theorem passedAll_ok : ∀ (ps : List Passed), (∀ p ∈ ps, ∀ g ∈ p.given, Typed (p.file, g)) →
    (((passedAll ps).errs = [] ∧ (passedAll ps).crash = none) ↔
      ∀ p ∈ ps, PassedArgsOk true p.expected p.given)
  | [], _ => by simp [passedAll]
  | p :: ps, ht => by
    have ih := passedAll_ok ps (fun q hq => ht q (by simp [hq]))
    have h1 := passedOne_ok p (ht p (by simp))
    simp only [passedAll, PassRes.app, List.append_eq_nil_iff, orCrash_none, List.mem_cons, forall_eq_or_imp]
    rw [← h1, ← ih]
    constructor
    · rintro ⟨⟨a, b⟩, c, d⟩; exact ⟨⟨a, c⟩, b, d⟩
    · rintro ⟨⟨a, c⟩, b, d⟩; exact ⟨⟨a, b⟩, c, d⟩

theorem passedAll_crash : ∀ (ps : List Passed), (∀ p ∈ ps, ∀ g ∈ p.given, Typed (p.file, g)) →
    (passedAll ps).crash = none
  | [], _ => by simp [passedAll]
  | p :: ps, ht => by
    have ih := passedAll_crash ps (fun q hq => ht q (by simp [hq]))
    simp only [passedAll, PassRes.app, orCrash_none, ih, and_true]
    unfold passedOne
    split
    · rfl
    · exact passedArgs_crash p 0 _ _ (ht p (by simp))

theorem enumValueOk_iff {e : FExpr} (h : Typed e) :
    enumValueOk (tc e.1 e.2).ty = true ↔
      (HasType true e.2 .int ∨ ((true : Bool) = true ∧ ∃ n, HasType true e.2 (.enum n))) := by
  have ht := typed_hasType h
  constructor
  · intro h'
    cases hty : (tc e.1 e.2).ty <;> simp [hty, enumValueOk] at h'
    · exact .inl (hty ▸ ht)
    · exact .inr ⟨rfl, _, hty ▸ ht⟩
  · rintro (h' | ⟨_, n, h'⟩) <;> simp [hasType_ty h', enumValueOk]

structure InspTyped (m : Module) : Prop where
  locations : ∀ p ∈ m.locations, Typed (p.1, p.2.1) ∧ Typed (p.1, p.2.2)
  arrays : ∀ a ∈ m.arrays, Typed a
  conds : ∀ a ∈ m.conds, Typed a
  enumValues : ∀ a ∈ m.enumValues, Typed a
  passed : ∀ p ∈ m.passed, ∀ g ∈ p.given, Typed (p.file, g)

theorem inspTyped_of (m : Module) (ht : ∀ e ∈ inspected m, Typed e) : InspTyped m := by
  refine ⟨fun p hp => ⟨ht _ ?_, ht _ ?_⟩, fun a ha => ht _ ?_, fun a ha => ht _ ?_,
    fun a ha => ht _ ?_, fun p hp g hg => ht _ ?_⟩
  all_goals simp only [inspected, List.mem_append, List.mem_flatMap, List.mem_map]
  · exact .inl (.inl (.inl (.inl ⟨p, hp, by simp⟩)))
  · exact .inl (.inl (.inl (.inl ⟨p, hp, by simp⟩)))
  · exact .inl (.inl (.inl (.inr ha)))
  · exact .inl (.inl (.inr ha))
  · exact .inl (.inr ha)
  · exact .inr ⟨p, hp, g, hg, rfl⟩

theorem checkTypes_ok (m : Module) (ht : ∀ e ∈ inspected m, Typed e) :
    ((checkTypes m).errs = [] ∧ (checkTypes m).crash = none) ↔ PositionsOk true m := by
  have it := inspTyped_of m ht
  have hp := passedAll_ok m.passed it.passed
  have hq := paramAll_ok m.params
  simp only [checkTypes, PassRes.app, List.append_eq_nil_iff, orCrash_none, true_and, flatMap_nil, and_assoc]
  constructor
  · rintro ⟨h1, h2, h3, h4, h5, h6, h7, h8⟩
    refine ⟨?_, ?_, ?_, ?_, hq.1 ⟨h5, h7⟩, hp.1 ⟨h6, h8⟩⟩
    · intro p hp'
      have := h1 p hp'
      exact ⟨(wantTy_nil (it.locations p hp').1).1 this.1, (wantTy_nil (it.locations p hp').2).1 this.2⟩
    · intro a ha; exact (wantTy_nil (it.arrays a ha)).1 (h2 a ha)
    · intro c hc; exact (wantTy_nil (it.conds c hc)).1 (h3 c hc)
    · intro v hv
      have := h4 v hv
      apply (enumValueOk_iff (it.enumValues v hv)).1
      cases hok : enumValueOk (tc v.1 v.2).ty
      · simp [hok] at this
      · rfl
  · intro h
    obtain ⟨h5, h7⟩ := hq.2 h.params
    obtain ⟨h6, h8⟩ := hp.2 h.passed
    refine ⟨?_, ?_, ?_, ?_, h5, h6, h7, h8⟩
    · intro p hp'
      exact ⟨(wantTy_nil (it.locations p hp').1).2 (h.locations p hp').1,
        (wantTy_nil (it.locations p hp').2).2 (h.locations p hp').2⟩
    · intro a ha; exact (wantTy_nil (it.arrays a ha)).2 (h.arrays a ha)
    · intro c hc; exact (wantTy_nil (it.conds c hc)).2 (h.conds c hc)
    · intro v hv
      simp [(enumValueOk_iff (it.enumValues v hv)).2 (h.enumValues v hv)]

theorem checkTypes_crash (m : Module) (ht : ∀ e ∈ inspected m, Typed e)
    (hp : ∀ p ∈ m.params, p.pty ≠ .array) : (checkTypes m).crash = none := by
  have it := inspTyped_of m ht
  simp only [checkTypes, PassRes.app, orCrash_none, true_and]
  exact ⟨paramAll_crash m.params hp, passedAll_crash m.passed it.passed⟩

/-! ### attribute values -/

/-- what each kind of attribute demands of its value -/
def AttrOk (a : Attr) : Prop :=
  match a.kind, a.val with
  | .boolConst, .expr e => HasType true e .bool ∧ a.constOk e = true
  | .bool, .expr e => HasType true e .bool
  | .intConst, .expr e => HasType true e .int ∧ a.constOk e = true
  | .strList, .str v => v = true
  | .backEnds, .str v => v = true
  | _, _ => False

theorem attrOne_ok (a : Attr) (ht : ∀ e, a.val = .expr e → Typed (a.file, e)) :
    ((attrOne a).errs = [] ∧ (attrOne a).crash = none) ↔ AttrOk a := by
  rcases a with ⟨file, l, k, sg, v, c⟩
  cases v with
  | str s => cases k <;> simp [attrOne, AttrOk]
  | expr e =>
    have hte : Typed (file, e) := ht e rfl
    have hne : (tc file e).ty ≠ .none := fun h => tc_none_err e file h hte
    have hh := typed_hasType hte
    simp only at hh
    cases k <;> simp only [attrOne, AttrOk, hne, if_false]
    · constructor
      · intro h
        by_cases hb : (tc file e).ty = .bool
        · rw [hb] at hh
          cases hc : Attr.constOk ⟨file, l, .boolConst, sg, .expr e, c⟩ e <;> simp_all
        · simp_all
      · rintro ⟨h1, h2⟩
        simp [hasType_ty h1, h2]
    · constructor
      · intro h
        by_cases hb : (tc file e).ty = .bool
        · rw [hb] at hh; exact hh
        · simp_all
      · intro h1
        simp [hasType_ty h1]
    · constructor
      · intro h
        by_cases hb : (tc file e).ty = .int
        · rw [hb] at hh
          cases hc : Attr.constOk ⟨file, l, .intConst, sg, .expr e, c⟩ e <;> simp_all
        · simp_all
      · rintro ⟨h1, h2⟩
        simp [hasType_ty h1, h2]
    · simp
    · simp

theorem attrOne_crash (a : Attr) (ht : ∀ e, a.val = .expr e → Typed (a.file, e)) :
    (attrOne a).crash = none := by
  rcases a with ⟨file, l, k, sg, v, c⟩
  cases v with
  | str s => cases k <;> simp [attrOne]
  | expr e =>
    have hte : Typed (file, e) := ht e rfl
    have hne : (tc file e).ty ≠ .none := fun h => tc_none_err e file h hte
    cases k <;> simp only [attrOne, hne, if_false] <;> (try split) <;> rfl

theorem attrAll_ok : ∀ (as : List Attr), (∀ e ∈ attrExprs as, Typed e) →
    (((attrAll as).errs = [] ∧ (attrAll as).crash = none) ↔ ∀ a ∈ as, AttrOk a)
  | [], _ => by simp [attrAll]
  | a :: as, ht => by
    have ih := attrAll_ok as (fun e he => ht e (by simp [attrExprs, he]))
    have h1 := attrOne_ok a (fun e he => ht (a.file, e) (by simp [attrExprs, he]))
    simp only [attrAll, PassRes.app, List.append_eq_nil_iff, orCrash_none, List.mem_cons, forall_eq_or_imp]
    rw [← h1, ← ih]
    constructor
    · rintro ⟨⟨a, b⟩, c, d⟩; exact ⟨⟨a, c⟩, b, d⟩
    · rintro ⟨⟨a, c⟩, b, d⟩; exact ⟨⟨a, b⟩, c, d⟩

theorem attrAll_crash : ∀ (as : List Attr), (∀ e ∈ attrExprs as, Typed e) → (attrAll as).crash = none
  | [], _ => by simp [attrAll]
  | a :: as, ht => by
    have ih := attrAll_crash as (fun e he => ht e (by simp [attrExprs, he]))
    have h1 := attrOne_crash a (fun e he => ht (a.file, e) (by simp [attrExprs, he]))
    simp [attrAll, PassRes.app, orCrash_none, ih, h1]

/-! ### the pipeline -/

theorem filter_split_nil {l : List Err} :
    (l.filter (fun e => !e.hidden) = [] ∧ l.filter (fun e => e.hidden) = []) ↔ l = [] := by
  induction l with
  | nil => simp
  | cons a l ih => cases h : a.hidden <;> simp [h]

/-- `run` accepts iff every pass is silent and nothing raises -/
theorem run_accepted (m : Module) :
    run m = .accepted ↔
      annotate m = [] ∧ ((checkTypes m).errs = [] ∧ (checkTypes m).crash = none) ∧
      ((attrAll m.attrs).errs = [] ∧ (attrAll m.attrs).crash = none) ∧ attrLate m.attrs = none := by
  unfold run
  simp only
  constructor
  · intro h
    split at h; · cases h
    split at h; · cases h
    split at h; · cases h
    split at h; · cases h
    split at h; · cases h
    split at h; · cases h
    split at h; · cases h
    rename_i h1 _ hc h2 _ ht h3 _ hl h4
    simp only [ne_eq, Decidable.not_not, List.filter_append, List.append_eq_nil_iff] at h1 h2 h3 h4
    exact ⟨filter_split_nil.1 ⟨h1, h4.1.1⟩, ⟨filter_split_nil.1 ⟨h2, h4.1.2⟩, hc⟩,
      ⟨filter_split_nil.1 ⟨h3, h4.2⟩, ht⟩, hl⟩
  · rintro ⟨h1, ⟨h2, hc⟩, ⟨h3, ht⟩, hl⟩
    simp [h1, h2, hc, h3, ht, hl]

/-- `run` raises only the open `is_signed` finding, or (through one of the three unguarded
`.type.which_type` reads) after `annotate_types` reported errors all of which are hidden -/
theorem run_crashed (m : Module) (wf : m.wf) (k : Crash) (h : run m = .crashed k) :
    k = .attrSignedNotLiteral ∨ (annotate m ≠ [] ∧ ∀ er ∈ annotate m, er.hidden = true) := by
  by_cases ha : annotate m = []
  · left
    have ⟨hte, hpa⟩ := (annotate_nil m).1 ha
    have hti : ∀ e ∈ inspected m, Typed e := fun e he => hte e (wf e (by simp [he]))
    have hta : ∀ e ∈ attrExprs m.attrs, Typed e := fun e he => hte e (wf e (by simp [he]))
    have c1 := checkTypes_crash m hti hpa
    have c2 := attrAll_crash m.attrs hta
    unfold run at h
    simp only [ha, c1, c2] at h
    revert h
    simp only [List.filter_nil, ne_eq, not_true_eq_false, if_false]
    repeat' split
    all_goals (intro h; try cases h)
    rename_i hl
    revert hl
    generalize m.attrs = as
    intro hl
    induction as with
    | nil => simp [attrLate] at hl
    | cons a as ih =>
      simp only [attrLate] at hl
      exact ih hl
  · right
    refine ⟨ha, ?_⟩
    unfold run at h
    simp only at h
    split at h; · cases h
    rename_i h1
    simp only [ne_eq, Decidable.not_not, List.filter_eq_nil_iff] at h1
    intro er her
    simpa using h1 er her

end Emboss.Types
