import Emboss.Lemmas.TypesIff
namespace Emboss.Types

/-! Positional requirements (`check_types`), spec side.  As for expressions, the relation is
the one the *code* implements; where the reference / property statement differs the
difference is a named finding (see Properties/C13.lean). -/

/-- passed parameters, as coded: same arity; where the declared parameter has a value type,
the argument's type agrees with it in *kind* (`which_type`: any enum for any enum). -/
def PassedArgsOk : List (Ty × Loc) → List Expr → Prop
  | tl :: ts, g :: gs =>
    (tl.1.isValue = false ∨ ∃ τ, HasType true g τ ∧ sameWhich τ tl.1 = true) ∧ PassedArgsOk ts gs
  | [], [] => True
  | _, _ => False

structure PositionsOk (m : Module) : Prop where
  /-- field start and size are integers -/
  locations : ∀ p ∈ m.locations, HasType true p.1 .int ∧ HasType true p.2 .int
  /-- AS CODED: every sub-expression of an array length is an integer (documented: the length is) -/
  arrays : ∀ a ∈ m.arrays, ∀ s ∈ subexprs a, HasType true s .int
  /-- existence conditions are booleans -/
  conds : ∀ c ∈ m.conds, HasType true c .bool
  /-- runtime parameters are integers or enums (and not arrays) -/
  params : ∀ p ∈ m.params, p.ty = .int ∨ ∃ n, p.ty = .enum n
  passed : ∀ p ∈ m.passed, PassedArgsOk p.expected p.given

/-- the expressions `check_types` looks at -/
def inspected (m : Module) : List Expr :=
  m.locations.flatMap (fun p => [p.1, p.2]) ++ m.arrays.flatMap subexprs ++ m.conds ++
    m.passed.flatMap (·.given)

/-- `annotate_types` raised no objection to the expression (it has *some* type) -/
def Typed (e : Expr) : Prop := (tc e).errs = [] ∧ (tc e).crash = none

instance (e : Expr) : Decidable (Typed e) := by unfold Typed; infer_instance

theorem wantTy_nil {want : Ty} {c : Cls} {e : Expr} (h : Typed e) :
    wantTy want c e = [] ↔ HasType true e want := by
  unfold wantTy
  constructor
  · intro h'
    split at h'
    · rename_i ht; exact (tc_iff e want).1 ⟨h.1, h.2, ht⟩
    · simp at h'
  · intro h'
    have := ((tc_iff e want).2 h').2.2
    simp [this]

theorem passedArgs_ok : ∀ (i : Nat) (ts : List (Ty × Loc)) (gs : List Expr), ts.length = gs.length →
    (∀ g ∈ gs, Typed g) →
    (((passedArgs i ts gs).errs = [] ∧ (passedArgs i ts gs).crash = none) ↔ PassedArgsOk ts gs)
  | _, [], [], _, _ => by simp [passedArgs, PassedArgsOk]
  | _, [], _ :: _, h, _ => by simp at h
  | _, _ :: _, [], h, _ => by simp at h
  | i, (t, pl) :: ts, g :: gs, h, ht => by
    have ih := passedArgs_ok (i + 1) ts gs (by simpa using h) (fun x hx => ht x (by simp [hx]))
    have hg := ht g (by simp)
    simp only [passedArgs, PassedArgsOk]
    by_cases hv : t.isValue = true
    · simp only [hv, Bool.not_true, Bool.false_eq_true, if_false]
      by_cases hs : sameWhich (tc g).ty t = true
      · simp only [hs, if_true, ih]
        constructor
        · intro h'; exact ⟨.inr ⟨_, (tc_iff g _).1 ⟨hg.1, hg.2, rfl⟩, hs⟩, h'⟩
        · intro h'; exact h'.2
      · simp only [hs, Bool.false_eq_true, if_false]
        have hno : ¬ ∃ τ, HasType true g τ ∧ sameWhich τ t = true := by
          rintro ⟨τ, h1, h2⟩
          have := ((tc_iff g τ).2 h1).2.2
          rw [this] at hs; exact hs h2
        split <;> simp_all
    · simp only [hv, Bool.not_false, if_true, ih]
      simp at hv
      simp

theorem passedOne_ok (p : Passed) (ht : ∀ g ∈ p.given, Typed g) :
    ((passedOne p).errs = [] ∧ (passedOne p).crash = none) ↔ PassedArgsOk p.expected p.given := by
  unfold passedOne
  by_cases hl : p.expected.length = p.given.length
  · simp only [hl, ne_eq, not_true_eq_false, if_false]
    exact passedArgs_ok 0 _ _ hl ht
  · simp only [ne_eq, hl, not_false_eq_true, if_true]
    constructor
    · intro h; simp at h
    · intro h
      exfalso
      revert hl h
      generalize p.expected = ts
      generalize p.given = gs
      intro hl h
      induction ts generalizing gs with
      | nil => cases gs <;> simp_all [PassedArgsOk]
      | cons t ts ih =>
        cases gs with
        | nil => simp [PassedArgsOk] at h
        | cons g gs => exact ih gs (by simpa using hl) h.2

theorem passedAll_ok : ∀ (ps : List Passed), (∀ p ∈ ps, ∀ g ∈ p.given, Typed g) →
    (((passedAll ps).errs = [] ∧ (passedAll ps).crash = none) ↔ ∀ p ∈ ps, PassedArgsOk p.expected p.given)
  | [], _ => by simp [passedAll]
  | p :: ps, ht => by
    have ih := passedAll_ok ps (fun q hq => ht q (by simp [hq]))
    have h1 := passedOne_ok p (ht p (by simp))
    simp only [passedAll, PassRes.app, List.append_eq_nil_iff, orCrash_none, List.mem_cons, forall_eq_or_imp]
    rw [← h1, ← ih]
    constructor
    · rintro ⟨⟨a, b⟩, c, d⟩; exact ⟨⟨a, c⟩, b, d⟩
    · rintro ⟨⟨a, c⟩, b, d⟩; exact ⟨⟨a, b⟩, c, d⟩

theorem flatMap_nil {α β} {l : List α} {f : α → List β} : l.flatMap f = [] ↔ ∀ x ∈ l, f x = [] := by
  induction l with
  | nil => simp
  | cons a l ih => simp [List.flatMap_cons, ih]

theorem checkTypes_ok (m : Module) (ht : ∀ e ∈ inspected m, Typed e) :
    ((checkTypes m).errs = [] ∧ (checkTypes m).crash = none) ↔ PositionsOk m := by
  have htl : ∀ p ∈ m.locations, Typed p.1 ∧ Typed p.2 := fun p hp =>
    ⟨ht _ (by simp only [inspected, List.mem_append, List.mem_flatMap]; exact .inl (.inl (.inl ⟨p, hp, by simp⟩))),
     ht _ (by simp only [inspected, List.mem_append, List.mem_flatMap]; exact .inl (.inl (.inl ⟨p, hp, by simp⟩)))⟩
  have hta : ∀ a ∈ m.arrays, ∀ s ∈ subexprs a, Typed s := fun a ha s hs =>
    ht _ (by simp only [inspected, List.mem_append, List.mem_flatMap]; exact .inl (.inl (.inr ⟨a, ha, hs⟩)))
  have htc : ∀ c ∈ m.conds, Typed c := fun c hc =>
    ht _ (by simp only [inspected, List.mem_append]; exact .inl (.inr hc))
  have htp : ∀ p ∈ m.passed, ∀ g ∈ p.given, Typed g := fun p hp g hg =>
    ht _ (by simp only [inspected, List.mem_append, List.mem_flatMap]; exact .inr ⟨p, hp, hg⟩)
  have hp := passedAll_ok m.passed htp
  simp only [checkTypes, PassRes.app, List.append_eq_nil_iff, orCrash_none, true_and, flatMap_nil, and_assoc]
  constructor
  · rintro ⟨h1, h2, h3, h4, h5, h6⟩
    refine ⟨?_, ?_, ?_, ?_, hp.1 ⟨h5, h6⟩⟩
    · intro p hp'
      have := h1 p hp'
      exact ⟨(wantTy_nil (htl p hp').1).1 this.1, (wantTy_nil (htl p hp').2).1 this.2⟩
    · intro a ha s hs
      exact (wantTy_nil (hta a ha s hs)).1 (h2 a ha s hs)
    · intro c hc; exact (wantTy_nil (htc c hc)).1 (h3 c hc)
    · intro p hp'
      have := h4 p hp'
      cases hty : p.ty <;> simp_all
  · intro h
    obtain ⟨h5, h6⟩ := hp.2 h.passed
    refine ⟨?_, ?_, ?_, ?_, h5, h6⟩
    · intro p hp'
      exact ⟨(wantTy_nil (htl p hp').1).2 (h.locations p hp').1, (wantTy_nil (htl p hp').2).2 (h.locations p hp').2⟩
    · intro a ha s hs; exact (wantTy_nil (hta a ha s hs)).2 (h.arrays a ha s hs)
    · intro c hc; exact (wantTy_nil (htc c hc)).2 (h.conds c hc)
    · intro p hp'
      rcases h.params p hp' with h' | ⟨n, h'⟩ <;> simp [h']

end Emboss.Types
