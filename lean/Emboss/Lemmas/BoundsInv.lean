/-
The invariant `InvOk` (Spec/BoundsInv.lean) in structural form, and its semantic
consequences: finite ends belong to γ, a non-constant value has two distinct members.
-/
import Emboss.Spec.BoundsInv
import Emboss.Lemmas.BoundsOps
namespace Emboss.Bounds
open ExtInt

/-- structural form of `InvOk` for a finite modulus -/
structure InvVar (a : AVal) (m : Nat) (v : Int) : Prop where
  hm : a.modulus = .fin m
  mpos : 0 < m
  hv : a.mv = .fin v
  v0 : 0 ≤ v
  vlt : v < (m : Int)
  hmin : ∀ x, a.min = .fin x → x % (m : Int) = v
  hmax : ∀ y, a.max = .fin y → y % (m : Int) = v
  minNe : a.min ≠ .posInf
  maxNe : a.max ≠ .negInf
  ne : a.min ≠ a.max
  le : ∀ x y, a.min = .fin x → a.max = .fin y → x ≤ y

/-- structural form of `InvOk` -/
def InvS (a : AVal) : Prop := (∃ c, a = constRange c) ∨ (∃ m v, InvVar a m v)

theorem InvOk_const (c : Int) : InvOk (constRange c) = true := by
  simp [InvOk, invPy, constRange, CanonMv, FiniteConst]

theorem InvOk_of_var {a : AVal} {m : Nat} {v : Int} (h : InvVar a m v) : InvOk a = true := by
  obtain ⟨hm, mpos, hv, v0, vlt, hmin, hmax, minNe, maxNe, ne, le⟩ := h
  obtain ⟨mn, mx, md, mv⟩ := a
  simp only at hm hv hmin hmax minNe maxNe ne le
  subst hm hv
  have hm0 : m ≠ 0 := by omega
  cases mn with
  | posInf => exact absurd rfl minNe
  | negInf =>
    cases mx with
    | negInf => exact absurd rfl maxNe
    | posInf => simp [InvOk, invPy, CanonMv, FiniteConst, hm0, v0, vlt]
    | fin y =>
      have := hmax y rfl
      simp [InvOk, invPy, CanonMv, FiniteConst, hm0, v0, vlt, this]
  | fin x =>
    have hx := hmin x rfl
    cases mx with
    | negInf => exact absurd rfl maxNe
    | posInf => simp [InvOk, invPy, CanonMv, FiniteConst, hm0, v0, vlt, hx]
    | fin y =>
      have hy := hmax y rfl
      have hle := le x y rfl rfl
      have hne : x ≠ y := fun h => ne (by rw [h])
      simp [InvOk, invPy, CanonMv, FiniteConst, hm0, v0, vlt, hx, hy, hle, hne]

theorem InvOk_of_InvS {a : AVal} (h : InvS a) : InvOk a = true := by
  rcases h with ⟨c, rfl⟩ | ⟨m, v, h⟩
  · exact InvOk_const c
  · exact InvOk_of_var h

theorem InvS_of_InvOk {a : AVal} (h : InvOk a = true) : InvS a := by
  obtain ⟨mn, mx, md, mv⟩ := a
  simp only [InvOk, Bool.and_eq_true, beq_iff_eq] at h
  obtain ⟨⟨h1, h2⟩, h3⟩ := h
  cases md with
  | inf =>
    left
    cases mv with
    | negInf => simp [FiniteConst] at h3
    | posInf => simp [FiniteConst] at h3
    | fin c =>
      simp [invPy] at h1
      exact ⟨c, by simp [constRange, h1.1, h1.2]⟩
  | fin m =>
    right
    cases mv with
    | negInf => simp [CanonMv] at h2
    | posInf => simp [CanonMv] at h2
    | fin v =>
      simp [CanonMv] at h2
      refine ⟨m, v, ?_⟩
      simp only [invPy] at h1
      split at h1
      · cases h1
      · rename_i hm0
        have mpos : 0 < m := Nat.pos_of_ne_zero hm0
        cases mn with
        | posInf => simp at h1
        | negInf =>
          cases mx with
          | negInf => simp at h1
          | posInf =>
            exact ⟨rfl, mpos, rfl, h2.1, h2.2, by simp, by simp, by simp, by simp, by simp, by simp⟩
          | fin y =>
            simp at h1
            exact ⟨rfl, mpos, rfl, h2.1, h2.2, by simp, by simpa using h1, by simp, by simp, by simp, by simp⟩
        | fin x =>
          cases mx with
          | negInf => simp at h1; split at h1 <;> simp_all
          | posInf =>
            simp at h1
            exact ⟨rfl, mpos, rfl, h2.1, h2.2, by simpa using h1, by simp, by simp, by simp, by simp, by simp⟩
          | fin y =>
            simp at h1
            split at h1
            · cases h1
            · rename_i hc
              simp at hc
              split at h1
              · cases h1
              · rename_i hne
                simp at h1
                exact ⟨rfl, mpos, rfl, h2.1, h2.2, by simpa using hc.1, by simpa using hc.2,
                  by simp, by simp, by simpa using hne, by
                    intro x' y' hx' hy'; cases hx'; cases hy'; exact h1⟩

theorem InvOk_iff {a : AVal} : InvOk a = true ↔ InvS a := ⟨InvS_of_InvOk, InvOk_of_InvS⟩

/-! ### congruence ↔ remainder -/

theorem emod_of_dvd_sub {m x v : Int} (h0 : 0 ≤ v) (h1 : v < m) (hd : m ∣ x - v) : x % m = v := by
  obtain ⟨t, ht⟩ := hd
  have : x = v + m * t := by omega
  rw [this, Int.add_mul_emod_self_left, Int.emod_eq_of_lt h0 h1]

theorem dvd_sub_of_emod {m x v : Int} (h : x % m = v) : m ∣ x - v := by
  rw [← h]; exact dvd_sub_emod m x

namespace InvVar

theorem cong {a : AVal} {m : Nat} {v : Int} (h : InvVar a m v) {x : Int}
    (hx : x % (m : Int) = v) : CongOk a.modulus a.mv x := by
  refine ⟨v, h.hv, ?_⟩
  rw [h.hm]; exact dvd_sub_of_emod hx

theorem emod_of_cong {a : AVal} {m : Nat} {v : Int} (h : InvVar a m v) {x : Int}
    (hc : CongOk a.modulus a.mv x) : x % (m : Int) = v := by
  obtain ⟨c, hc1, hc2⟩ := hc
  rw [h.hv] at hc1; cases hc1
  rw [h.hm] at hc2
  exact emod_of_dvd_sub h.v0 h.vlt hc2

theorem low_of_max {a : AVal} {m : Nat} {v : Int} (h : InvVar a m v) {y : Int}
    (hy : a.max = .fin y) : LowOk a.min y := by
  cases hmn : a.min with
  | negInf => trivial
  | posInf => exact absurd hmn h.minNe
  | fin x => exact h.le x y hmn hy

theorem high_of_min {a : AVal} {m : Nat} {v : Int} (h : InvVar a m v) {x : Int}
    (hx : a.min = .fin x) : HighOk a.max x := by
  cases hmx : a.max with
  | posInf => trivial
  | negInf => exact absurd hmx h.maxNe
  | fin y => exact h.le x y hx hmx

theorem min_mem {a : AVal} {m : Nat} {v : Int} (h : InvVar a m v) {x : Int}
    (hx : a.min = .fin x) : Gamma a x :=
  ⟨by rw [hx]; exact Int.le_refl x, h.high_of_min hx, h.cong (h.hmin x hx)⟩

theorem max_mem {a : AVal} {m : Nat} {v : Int} (h : InvVar a m v) {y : Int}
    (hy : a.max = .fin y) : Gamma a y :=
  ⟨h.low_of_max hy, by rw [hy]; exact Int.le_refl y, h.cong (h.hmax y hy)⟩

/-- two congruent, different, ordered numbers are at least a modulus apart -/
theorem gap {m : Nat} {x y v : Int} (hx : x % (m : Int) = v) (hy : y % (m : Int) = v)
    (hlt : x < y) : x + m ≤ y := by
  have h1 := dvd_sub_of_emod hx
  have h2 := dvd_sub_of_emod hy
  have h3 : (m : Int) ∣ y - x := by
    have : y - x = (y - v) - (x - v) := by omega
    rw [this]; exact Int.dvd_sub h2 h1
  have := Int.le_of_dvd (by omega) h3
  omega

theorem shift {m : Nat} {x v : Int} (hx : x % (m : Int) = v) : (x + m) % (m : Int) = v := by
  rw [Int.add_emod_right]; exact hx

theorem shift' {m : Nat} {x v : Int} (hx : x % (m : Int) = v) : (x - m) % (m : Int) = v := by
  rw [Int.sub_emod_right]; exact hx

/-- a non-constant annotation satisfying the invariant describes at least two values -/
theorem two {a : AVal} {m : Nat} {v : Int} (h : InvVar a m v) :
    ∃ x1 x2, x1 < x2 ∧ Gamma a x1 ∧ Gamma a x2 := by
  have mpos : (0 : Int) < m := by have := h.mpos; omega
  cases hmn : a.min with
  | posInf => exact absurd hmn h.minNe
  | fin x =>
    refine ⟨x, x + m, by omega, h.min_mem hmn, ?_⟩
    refine ⟨by rw [hmn]; show x ≤ x + m; omega, ?_, h.cong (shift (h.hmin x hmn))⟩
    cases hmx : a.max with
    | posInf => trivial
    | negInf => exact absurd hmx h.maxNe
    | fin y =>
      have hle := h.le x y hmn hmx
      have hne : x ≠ y := fun e => h.ne (by rw [hmn, hmx, e])
      exact gap (h.hmin x hmn) (h.hmax y hmx) (by omega)
  | negInf =>
    cases hmx : a.max with
    | negInf => exact absurd hmx h.maxNe
    | fin y =>
      refine ⟨y - m, y, by omega, ?_, h.max_mem hmx⟩
      exact ⟨by rw [hmn]; trivial, by rw [hmx]; show y - m ≤ y; omega,
        h.cong (shift' (h.hmax y hmx))⟩
    | posInf =>
      have hv : v % (m : Int) = v := Int.emod_eq_of_lt h.v0 h.vlt
      exact ⟨v, v + m, by omega,
        ⟨by rw [hmn]; trivial, by rw [hmx]; trivial, h.cong hv⟩,
        ⟨by rw [hmn]; trivial, by rw [hmx]; trivial, h.cong (shift hv)⟩⟩

/-- how the invariant is established for a result: the finite ends are congruent, and
    two different values lie between the ends -/
theorem of_witness {a : AVal} {m : Nat} {v : Int} (hm : a.modulus = .fin m) (mpos : 0 < m)
    (hv : a.mv = .fin v) (v0 : 0 ≤ v) (vlt : v < (m : Int))
    (hmin : ∀ x, a.min = .fin x → CongOk a.modulus a.mv x)
    (hmax : ∀ y, a.max = .fin y → CongOk a.modulus a.mv y)
    {p1 p2 : Int} (hlt : p1 < p2) (hl1 : LowOk a.min p1) (hh2 : HighOk a.max p2) :
    InvVar a m v := by
  have conv : ∀ x, CongOk a.modulus a.mv x → x % (m : Int) = v := by
    intro x ⟨c, hc1, hc2⟩
    rw [hv] at hc1; cases hc1
    rw [hm] at hc2
    exact emod_of_dvd_sub v0 vlt hc2
  refine ⟨hm, mpos, hv, v0, vlt, fun x hx => conv x (hmin x hx), fun y hy => conv y (hmax y hy),
    ?_, ?_, ?_, ?_⟩
  · intro e; rw [e] at hl1; exact hl1
  · intro e; rw [e] at hh2; exact hh2
  · intro e
    cases hmn : a.min with
    | posInf => rw [hmn] at hl1; exact hl1
    | negInf => rw [← e, hmn] at hh2; exact hh2
    | fin x =>
      rw [hmn] at hl1; rw [← e, hmn] at hh2
      simp only [LowOk, HighOk] at hl1 hh2; omega
  · intro x y hx hy
    rw [hx] at hl1; rw [hy] at hh2
    simp only [LowOk, HighOk] at hl1 hh2; omega

end InvVar

theorem gamma_const (c : Int) : Gamma (constRange c) c := constRange_sound c

theorem InvS.one {a : AVal} (h : InvS a) : ∃ x, Gamma a x := by
  rcases h with ⟨c, rfl⟩ | ⟨m, v, h⟩
  · exact ⟨c, gamma_const c⟩
  · obtain ⟨x, _, _, hx, _⟩ := h.two; exact ⟨x, hx⟩

theorem InvS.min_mem {a : AVal} (h : InvS a) {x : Int} (hx : a.min = .fin x) : Gamma a x := by
  rcases h with ⟨c, rfl⟩ | ⟨m, v, h⟩
  · simp [constRange] at hx; subst hx; exact gamma_const c
  · exact h.min_mem hx

theorem InvS.max_mem {a : AVal} (h : InvS a) {x : Int} (hx : a.max = .fin x) : Gamma a x := by
  rcases h with ⟨c, rfl⟩ | ⟨m, v, h⟩
  · simp [constRange] at hx; subst hx; exact gamma_const c
  · exact h.max_mem hx

theorem InvS.minNe {a : AVal} (h : InvS a) : a.min ≠ .posInf := by
  rcases h with ⟨c, rfl⟩ | ⟨m, v, h⟩
  · simp [constRange]
  · exact h.minNe

theorem InvS.maxNe {a : AVal} (h : InvS a) : a.max ≠ .negInf := by
  rcases h with ⟨c, rfl⟩ | ⟨m, v, h⟩
  · simp [constRange]
  · exact h.maxNe

/-- the `modular_value` of a value satisfying the invariant is a finite integer -/
theorem InvS.mv_fin {a : AVal} (h : InvS a) : ∃ v, a.mv = .fin v := by
  rcases h with ⟨c, rfl⟩ | ⟨m, v, h⟩
  · exact ⟨c, rfl⟩
  · exact ⟨v, h.hv⟩

end Emboss.Bounds
