/-
The SWAR test of `IsBcd`: `((~x - 0x66…6) & x & 0x88…8) == 0` holds exactly when every
nibble of `x` is at most 9.  Kernel proof by induction over the nibbles, carrying the borrow
of the subtraction.
-/
import Emboss.Lemmas.ScalarBcd
namespace Emboss.Scalar
open Emboss.Bits Emboss.Scalar.Spec

/-- `0x11…1` with `n` nibbles. -/
def rep1 : Nat → Nat
  | 0 => 0
  | n + 1 => 1 + 16 * rep1 n

theorem rep1_spec (n : Nat) : 15 * rep1 n + 1 = 16 ^ n := by
  induction n with
  | zero => rfl
  | succ n ih => rw [rep1, Nat.pow_succ]; omega

/-- `(~x - 0x66…6 - borrow) mod 16ⁿ`, written without negative intermediate values:
`~x = 16ⁿ - 1 - x` and `16ⁿ - 1 - 0x66…6 = 0x99…9`. -/
def swarD (n x b : Nat) : Nat := (16 ^ n + 9 * rep1 n - x - b) % 16 ^ n

theorem swarD_succ (n x b : Nat) (hx : x < 16 ^ (n + 1)) (hb : b ≤ 1) :
    (x % 16 + b ≤ 9 → swarD (n + 1) x b % 16 = 9 - x % 16 - b ∧
        swarD (n + 1) x b / 16 = swarD n (x / 16) 0) ∧
    (9 < x % 16 + b → swarD (n + 1) x b % 16 = 25 - x % 16 - b ∧
        swarD (n + 1) x b / 16 = swarD n (x / 16) 1) := by
  have hs := rep1_spec n
  have hp : 16 ^ (n + 1) = 16 * 16 ^ n := by rw [Nat.pow_succ, Nat.mul_comm]
  have hx' : x / 16 < 16 ^ n := by omega
  unfold swarD
  rw [hp, rep1, Nat.mod_mul]
  generalize 16 ^ n = P at *
  generalize rep1 n = S at *
  have hx0 := Nat.mod_lt x (show 0 < 16 by decide)
  have hdm := Nat.div_add_mod x 16
  constructor
  · intro hc
    have hT : 16 * P + 9 * (1 + 16 * S) - x - b = 16 * (P + 9 * S - x / 16) + (9 - x % 16 - b) := by
      omega
    rw [hT]
    have h1 : (16 * (P + 9 * S - x / 16) + (9 - x % 16 - b)) % 16 = 9 - x % 16 - b := by omega
    have h2 : (16 * (P + 9 * S - x / 16) + (9 - x % 16 - b)) / 16 = P + 9 * S - x / 16 := by omega
    rw [h1, h2]
    constructor
    · omega
    · have : (9 - x % 16 - b + 16 * ((P + 9 * S - x / 16) % P)) / 16 = (P + 9 * S - x / 16) % P := by
        omega
      rw [this, Nat.sub_zero]
  · intro hc
    have hT : 16 * P + 9 * (1 + 16 * S) - x - b =
        16 * (P + 9 * S - x / 16 - 1) + (25 - x % 16 - b) := by omega
    rw [hT]
    have h1 : (16 * (P + 9 * S - x / 16 - 1) + (25 - x % 16 - b)) % 16 = 25 - x % 16 - b := by omega
    have h2 : (16 * (P + 9 * S - x / 16 - 1) + (25 - x % 16 - b)) / 16 = P + 9 * S - x / 16 - 1 := by
      omega
    rw [h1, h2]
    constructor
    · omega
    · omega

theorem nibble_succ (i x : Nat) : nibble (i + 1) x = nibble i (x / 16) := by
  unfold nibble; rw [Nat.pow_succ, Nat.mul_comm, Nat.div_div_eq_div_mul]

theorem nibble_zero (x : Nat) : nibble 0 x = x % 16 := by simp [nibble]

theorem and3_mod16 (a b c : Nat) : (a &&& b &&& c) % 16 = a % 16 &&& b % 16 &&& c % 16 := by
  rw [show (16 : Nat) = 2 ^ 4 from rfl, Nat.and_mod_two_pow, Nat.and_mod_two_pow]

theorem and3_div16 (a b c : Nat) : (a &&& b &&& c) / 16 = a / 16 &&& b / 16 &&& c / 16 := by
  rw [show (16 : Nat) = 2 ^ 4 from rfl, Nat.and_div_two_pow, Nat.and_div_two_pow]

theorem small_bad : ∀ d, d < 16 → ∀ x, x < 16 → 9 ≤ d → 10 ≤ x → d &&& x &&& 8 ≠ 0 := by decide

theorem small_good : ∀ x, x < 10 → (9 - x) &&& x &&& 8 = 0 := by decide

/-- Some nibble above 9 ⇒ the SWAR word is non-zero, whatever borrow comes in. -/
theorem swar_bad (n : Nat) : ∀ x b, x < 16 ^ n → b ≤ 1 → (∃ i, i < n ∧ 10 ≤ nibble i x) →
    swarD n x b &&& x &&& (8 * rep1 n) ≠ 0 := by
  induction n with
  | zero => intro x b _ _ ⟨i, hi, _⟩; omega
  | succ n ih =>
    intro x b hx hb ⟨i, hi, hbad⟩ hzero
    have hm := congrArg (· % 16) hzero
    have hd := congrArg (· / 16) hzero
    simp only [and3_mod16, and3_div16, Nat.zero_mod, Nat.zero_div] at hm hd
    have h8m : 8 * rep1 (n + 1) % 16 = 8 := by rw [rep1]; omega
    have h8d : 8 * rep1 (n + 1) / 16 = 8 * rep1 n := by rw [rep1]; omega
    rw [h8m] at hm; rw [h8d] at hd
    have hx0 := Nat.mod_lt x (show 0 < 16 by decide)
    have hx' : x / 16 < 16 ^ n := by rw [Nat.pow_succ] at hx; omega
    obtain ⟨hA, hB⟩ := swarD_succ n x b hx hb
    by_cases hlow : 10 ≤ x % 16
    · obtain ⟨h1, _⟩ := hB (by omega)
      rw [h1] at hm
      exact small_bad (25 - x % 16 - b) (by omega) (x % 16) hx0 (by omega) hlow hm
    · have hi0 : i ≠ 0 := by
        intro h0; subst h0; rw [nibble_zero] at hbad; omega
      obtain ⟨j, rfl⟩ : ∃ j, i = j + 1 := ⟨i - 1, by omega⟩
      rw [nibble_succ] at hbad
      by_cases hc : x % 16 + b ≤ 9
      · rw [(hA hc).2] at hd
        exact ih (x / 16) 0 hx' (by omega) ⟨j, by omega, hbad⟩ hd
      · rw [(hB (by omega)).2] at hd
        exact ih (x / 16) 1 hx' (by omega) ⟨j, by omega, hbad⟩ hd

/-- All nibbles at most 9 ⇒ no borrow ever occurs and the SWAR word is zero. -/
theorem swar_good (n : Nat) : ∀ x, x < 16 ^ n → (∀ i, i < n → nibble i x ≤ 9) →
    swarD n x 0 &&& x &&& (8 * rep1 n) = 0 := by
  induction n with
  | zero => intro x _ _; simp [rep1]
  | succ n ih =>
    intro x hx hall
    have h0 := hall 0 (by omega)
    rw [nibble_zero] at h0
    have hx' : x / 16 < 16 ^ n := by rw [Nat.pow_succ] at hx; omega
    obtain ⟨hA, _⟩ := swarD_succ n x 0 hx (by omega)
    obtain ⟨h1, h2⟩ := hA (by omega)
    have h8m : 8 * rep1 (n + 1) % 16 = 8 := by rw [rep1]; omega
    have h8d : 8 * rep1 (n + 1) / 16 = 8 * rep1 n := by rw [rep1]; omega
    have hm : (swarD (n + 1) x 0 &&& x &&& (8 * rep1 (n + 1))) % 16 = 0 := by
      rw [and3_mod16, h1, h8m, Nat.sub_zero]; exact small_good _ (by omega)
    have hd : (swarD (n + 1) x 0 &&& x &&& (8 * rep1 (n + 1))) / 16 = 0 := by
      rw [and3_div16, h2, h8d]
      exact ih (x / 16) hx' (fun i hi => by have := hall (i + 1) (by omega); rwa [nibble_succ] at this)
    omega

theorem swar_iff (n x : Nat) (hx : x < 16 ^ n) :
    swarD n x 0 &&& x &&& (8 * rep1 n) = 0 ↔ ∀ i, i < n → nibble i x ≤ 9 := by
  constructor
  · intro h i hi
    apply Nat.le_of_not_lt; intro hbad
    exact swar_bad n x 0 hx (by omega) ⟨i, hi, hbad⟩ h
  · exact swar_good n x hx

/-- The model's `isBcd` (the C++ expression, evaluated at `unsigned` for narrow types) is the
SWAR word over `arithW W / 4` nibbles. -/
theorem isBcd_eq_swar {W x : Nat} (hW : W = 8 ∨ W = 16 ∨ W = 32 ∨ W = 64) (hx : x < 2 ^ arithW W) :
    isBcd W x = decide (swarD (arithW W / 4) x 0 &&& x &&& (8 * rep1 (arithW W / 4)) = 0) := by
  have hE : arithW W = 32 ∨ arithW W = 64 := by
    rcases hW with rfl | rfl | rfl | rfl <;> simp [arithW]
  have hpow : 2 ^ arithW W = 16 ^ (arithW W / 4) := by
    rcases hE with h | h <;> rw [h] <;> decide
  have hs := rep1_spec (arithW W / 4)
  unfold isBcd
  generalize arithW W = E at *
  generalize E / 4 = n at *
  simp only []
  rw [notW_eq hx, notW_eq (x := 0) (by rw [hpow]; omega), Nat.sub_zero]
  have hones : (2 ^ E - 1) / 15 = rep1 n := by rw [hpow]; omega
  rw [hones]
  have h6 : mulW E (rep1 n) 6 = rep1 n * 6 := wrap_of_lt (by rw [hpow]; omega)
  have h8 : mulW E (rep1 n) 8 = 8 * rep1 n := by
    rw [Nat.mul_comm 8]; exact wrap_of_lt (by rw [hpow]; omega)
  rw [h6, h8]
  have hsub : subW E (2 ^ E - 1 - x) (rep1 n * 6) = swarD n x 0 := by
    unfold subW swarD
    have hw1 : wrap E (2 ^ E - 1 - x) = 2 ^ E - 1 - x := wrap_of_lt (by omega)
    have hw2 : wrap E (rep1 n * 6) = rep1 n * 6 := wrap_of_lt (by rw [hpow]; omega)
    rw [hw1, hw2]
    unfold wrap
    rw [hpow] at hx ⊢
    congr 1; omega
  rw [hsub]
  cases h : decide (swarD n x 0 &&& x &&& 8 * rep1 n = 0) <;> simp_all

theorem nibble_eq_zero_of_lt {x i : Nat} (h : x < 16 ^ i) : nibble i x = 0 := by
  unfold nibble; rw [Nat.div_eq_of_lt h]

/-- **`IsBcd` is exact**: for a `w`-bit value, the SWAR test succeeds iff each of the
`⌈w/4⌉` nibbles is a decimal digit. -/
theorem isBcd_iff {W w x : Nat} (hW : W = 8 ∨ W = 16 ∨ W = 32 ∨ W = 64) (hw : w ≤ W)
    (hx : x < 2 ^ w) : isBcd W x = true ↔ BcdOk (nibbles w) x := by
  have hA := le_arithW W
  have hE : arithW W = 32 ∨ arithW W = 64 := by
    rcases hW with rfl | rfl | rfl | rfl <;> simp [arithW]
  have hpow : 2 ^ arithW W = 16 ^ (arithW W / 4) := by
    rcases hE with h | h <;> rw [h] <;> decide
  have hxE : x < 2 ^ arithW W := lt_pow_of_lt_of_le hx (by omega)
  rw [isBcd_eq_swar hW hxE, decide_eq_true_iff, swar_iff _ _ (by rw [← hpow]; exact hxE)]
  unfold BcdOk nibbles
  constructor
  · intro h i hi; exact h i (by rcases hE with h | h <;> rw [h] <;> omega)
  · intro h i hi
    by_cases hiw : i < (w + 3) / 4
    · exact h i hiw
    · have : x < 16 ^ i := by
        have h4 : (16 : Nat) ^ i = 2 ^ (4 * i) := by
          rw [Nat.pow_mul]
        rw [h4]; exact lt_pow_of_lt_of_le hx (by omega)
      rw [nibble_eq_zero_of_lt this]; omega

end Emboss.Scalar
