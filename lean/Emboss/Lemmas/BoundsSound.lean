/-
Whole-expression soundness: mutual induction over expressions and argument lists.
-/
import Emboss.Lemmas.BoundsNodes
namespace Emboss.Bounds
open ExtInt

theorem atypeConstCV_sound {ty : AType} {v x : CVal} (hg : GammaT ty v)
    (h : atypeConstCV (some ty) = .val x) : v = x := by
  unfold atypeConstCV at h
  split at h <;> try cases h
  · rename_i mn mx c heq
    cases heq
    obtain ⟨n, rfl, -, -, c', hc', hd⟩ := GammaT_int_inv hg
    cases hc'
    rw [zero_dvd_sub hd]
  · rename_i b heq; cases heq
    cases v <;> simp [GammaT] at hg
    rw [hg]
  · rename_i n heq; cases heq
    cases v <;> simp [GammaT] at hg
    rw [hg]

mutual
theorem sound_aux (ρ : Env) : (e : Expr) → EnvOk ρ e →
    (∀ ty v, abs e = some ty → eval ρ e = some v → GammaT ty v) ∧
    (∀ v, eval ρ e = some v → CvOk (cv e) v)
  | .const c, _ => by
    refine ⟨?_, ?_⟩
    · intro ty v h1 h2
      simp only [abs, Option.some.injEq] at h1; simp only [eval, Option.some.injEq] at h2
      subst h1 h2; exact constRange_sound c
    · intro v h2 x hx
      simp only [eval, Option.some.injEq] at h2; simp only [cv, CV.val.injEq] at hx
      subst h2 hx; rfl
  | .bconst c, _ => by
    refine ⟨?_, ?_⟩
    · intro ty v h1 h2
      simp only [abs, Option.some.injEq] at h1; simp only [eval, Option.some.injEq] at h2
      subst h1 h2; simp [GammaT]
    · intro v h2 x hx
      simp only [eval, Option.some.injEq] at h2; simp only [cv, CV.val.injEq] at hx
      subst h2 hx; rfl
  | .econst c, _ => by
    refine ⟨?_, ?_⟩
    · intro ty v h1 h2
      simp only [abs, Option.some.injEq] at h1; simp only [eval, Option.some.injEq] at h2
      subst h1 h2; simp [GammaT]
    · intro v h2 x hx
      simp only [eval, Option.some.injEq] at h2; simp only [cv, CV.val.injEq] at hx
      subst h2 hx; rfl
  | .ileaf id k size, henv => by
    refine ⟨?_, ?_⟩
    · intro ty v h1 h2
      simp only [abs, Option.some.injEq] at h1; simp only [eval, Option.some.injEq] at h2
      subst h1 h2; exact leafRange_sound henv
    · intro v _ x hx; simp [cv] at hx
  | .ssize id, henv => by
    refine ⟨?_, ?_⟩
    · intro ty v h1 h2
      simp only [abs, Option.some.injEq] at h1; simp only [eval, Option.some.injEq] at h2
      subst h1 h2; exact staticSize_sound henv
    · intro v _ x hx; simp [cv] at hx
  | .given id a, henv => by
    refine ⟨?_, ?_⟩
    · intro ty v h1 h2
      simp only [abs, Option.some.injEq] at h1; simp only [eval, Option.some.injEq] at h2
      subst h1 h2; exact henv
    · intro v _ x hx; simp [cv] at hx
  | .bleaf id, _ => by
    refine ⟨?_, ?_⟩
    · intro ty v h1 h2
      simp only [abs, Option.some.injEq] at h1; simp only [eval, Option.some.injEq] at h2
      subst h1 h2; simp [GammaT]
    · intro v _ x hx; simp [cv] at hx
  | .eleaf id, _ => by
    refine ⟨?_, ?_⟩
    · intro ty v h1 h2
      simp only [abs, Option.some.injEq] at h1; simp only [eval, Option.some.injEq] at h2
      subst h1 h2; simp [GammaT]
    · intro v _ x hx; simp [cv] at hx
  | .bin op l r, henv => by
    have ihl := sound_aux ρ l henv.1
    have ihr := sound_aux ρ r henv.2
    refine ⟨?_, ?_⟩
    · intro ty v h1 h2
      simp only [abs] at h1; simp only [eval] at h2
      split at h1 <;> try cases h1
      split at h2 <;> try cases h2
      rename_i a b ha hb _ _ vl vr hvl hvr
      exact absBin_sound (ihl.1 _ _ ha hvl) (ihr.1 _ _ hb hvr) (ihl.2 _ hvl) (ihr.2 _ hvr) h1 h2
    · intro v h2 x hx
      simp only [eval] at h2; simp only [cv] at hx
      split at h2 <;> try cases h2
      rename_i vl vr hvl hvr
      exact cvBin_sound (ihl.2 _ hvl) (ihr.2 _ hvr) hx h2
  | .choice c t f, henv => by
    have ihc := sound_aux ρ c henv.1
    have iht := sound_aux ρ t henv.2.1
    have ihf := sound_aux ρ f henv.2.2
    refine ⟨?_, ?_⟩
    · intro ty v h1 h2
      simp only [abs] at h1; simp only [eval] at h2
      split at h1 <;> try cases h1
      split at h2 <;> try cases h2
      rename_i a b d ha hb hd _ _ _ bb x y hc hx hy
      exact absChoice_sound (ihc.1 _ _ ha hc) (iht.1 _ _ hb hx) (ihf.1 _ _ hd hy) h1
    · intro v h2 x hx
      simp only [eval] at h2; simp only [cv] at hx
      split at h2 <;> try cases h2
      rename_i bb x' y' hc hx' hy'
      exact cvChoice_sound (ihc.2 _ hc) (iht.2 _ hx') (ihf.2 _ hy') hx
  | .max args, henv => by
    have ih := soundList_aux ρ args henv
    refine ⟨?_, ?_⟩
    · intro ty v h1 h2
      simp only [abs] at h1; simp only [eval] at h2
      split at h1 <;> try cases h1
      split at h2 <;> try cases h2
      split at h2 <;> try cases h2
      rename_i tys htys _ vs hvs _ l hl
      simp only [Option.map_eq_some_iff] at h2
      obtain ⟨m, hm, rfl⟩ := h2
      exact absMax_sound (ih.1 _ _ htys hvs) h1 hl hm
    · intro v h2 x hx
      simp only [eval] at h2; simp only [cv] at hx
      split at h2 <;> try cases h2
      split at h2 <;> try cases h2
      rename_i vs hvs _ l hl
      simp only [Option.map_eq_some_iff] at h2
      obtain ⟨m, hm, rfl⟩ := h2
      exact cvMax_sound (ih.2 _ hvs) hx hl hm
  | .upper e, henv => by
    refine ⟨?_, ?_⟩
    · intro ty v h1 h2
      simp only [abs] at h1; simp only [eval] at h2
      split at h1 <;> try cases h1
      rename_i a ha
      rw [ha] at h2
      cases a <;> simp only [absBound, Option.some.injEq] at h1 <;> try cases h1
      simp only [Option.map_eq_some_iff] at h2
      obtain ⟨c, hc, rfl⟩ := h2
      rename_i a
      have : a.max = .fin c := by cases hh : a.max <;> simp_all [ExtInt.toInt?]
      simp only [boundFn, if_true, this]
      exact constRange_sound c
    · intro v hev x hx
      simp only [cv] at hx
      simp only [eval] at hev
      cases ha : abs e with
      | none => rw [ha] at hx; simp [cvBound] at hx
      | some a =>
        rw [ha] at hx hev
        cases a with
        | int a =>
          simp only [absBound] at hx
          simp only at hev
          cases hm : a.max with
          | fin c =>
            simp [boundFn, hm, ExtInt.isInf, cvBound] at hx
            simp [hm, ExtInt.toInt?] at hev
            rw [← hx, ← hev]
          | posInf => simp [boundFn, hm, ExtInt.isInf, cvBound] at hx
          | negInf => simp [boundFn, hm, ExtInt.isInf, cvBound] at hx
        | bool _ => simp [absBound, cvBound] at hx
        | enum _ => simp [absBound, cvBound] at hx
  | .lower e, henv => by
    refine ⟨?_, ?_⟩
    · intro ty v h1 h2
      simp only [abs] at h1; simp only [eval] at h2
      split at h1 <;> try cases h1
      rename_i a ha
      rw [ha] at h2
      cases a <;> simp only [absBound, Option.some.injEq] at h1 <;> try cases h1
      simp only [Option.map_eq_some_iff] at h2
      obtain ⟨c, hc, rfl⟩ := h2
      rename_i a
      have : a.min = .fin c := by cases hh : a.min <;> simp_all [ExtInt.toInt?]
      simp only [boundFn, Bool.false_eq_true, if_false, this]
      exact constRange_sound c
    · intro v hev x hx
      simp only [cv] at hx
      simp only [eval] at hev
      cases ha : abs e with
      | none => rw [ha] at hx; simp [cvBound] at hx
      | some a =>
        rw [ha] at hx hev
        cases a with
        | int a =>
          simp only [absBound] at hx
          simp only at hev
          cases hm : a.min with
          | fin c =>
            simp [boundFn, hm, ExtInt.isInf, cvBound] at hx
            simp [hm, ExtInt.toInt?] at hev
            rw [← hx, ← hev]
          | posInf => simp [boundFn, hm, ExtInt.isInf, cvBound] at hx
          | negInf => simp [boundFn, hm, ExtInt.isInf, cvBound] at hx
        | bool _ => simp [absBound, cvBound] at hx
        | enum _ => simp [absBound, cvBound] at hx
  | .cref e, henv => by
    have ih := sound_aux ρ e henv
    refine ⟨?_, ?_⟩
    · intro ty v h1 h2
      simp only [abs] at h1; simp only [eval] at h2
      exact ih.1 _ _ h1 h2
    · intro v h2 x hx
      simp only [eval] at h2; simp only [cv] at hx
      cases ha : abs e with
      | none => rw [ha] at hx; simp [atypeConstCV] at hx
      | some ty =>
        rw [ha] at hx
        exact atypeConstCV_sound (ih.1 _ _ ha h2) hx
  | .vref e, henv => by
    have ih := sound_aux ρ e henv
    refine ⟨?_, ?_⟩
    · intro ty v h1 h2
      simp only [abs] at h1; simp only [eval] at h2
      exact ih.1 _ _ h1 h2
    · intro v _ x hx; simp [cv] at hx
  | .present a c, henv => by
    have ih := sound_aux ρ c henv
    refine ⟨?_, ?_⟩
    · intro ty v h1 h2
      simp only [abs] at h1; simp only [eval] at h2
      exact ih.1 _ _ h1 h2
    · intro v _ x hx; simp [cv] at hx
theorem soundList_aux (ρ : Env) : (es : List Expr) → EnvOkList ρ es →
    (∀ tys vs, absList es = some tys → evalList ρ es = some vs → Forall2 GammaT tys vs) ∧
    (∀ vs, evalList ρ es = some vs → Forall2 CvOk (cvList es) vs)
  | [], _ => by
    refine ⟨?_, ?_⟩
    · intro tys vs h1 h2
      simp only [absList, Option.some.injEq] at h1; simp only [evalList, Option.some.injEq] at h2
      subst h1 h2; exact .nil
    · intro vs h2
      simp only [evalList, Option.some.injEq] at h2
      subst h2; exact .nil
  | e :: es, henv => by
    have ih1 := sound_aux ρ e henv.1
    have ih2 := soundList_aux ρ es henv.2
    refine ⟨?_, ?_⟩
    · intro tys vs h1 h2
      simp only [absList] at h1; simp only [evalList] at h2
      split at h1 <;> try cases h1
      split at h2 <;> try cases h2
      rename_i a l ha hl _ _ v vs' hv hvs
      exact .cons (ih1.1 _ _ ha hv) (ih2.1 _ _ hl hvs)
    · intro vs h2
      simp only [evalList] at h2
      split at h2 <;> try cases h2
      rename_i v vs' hv hvs
      exact .cons (ih1.2 _ hv) (ih2.2 _ hvs)
end
end Emboss.Bounds
