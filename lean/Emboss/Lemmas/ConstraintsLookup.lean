/-
C14 — the front end's attribute lookup (`getAttr`, stated through `Attr.named`) against the
documented one (`declared`).  Kept independent of how `Attr.named` treats the back-end
qualifier beyond what the hypotheses say.
-/
import Emboss.Spec.Constraints
namespace Emboss.Constraints

theorem find?_ext {α} (p q : α → Bool) (l : List α) (h : ∀ a ∈ l, p a = q a) :
    l.find? p = l.find? q := by
  induction l with
  | nil => rfl
  | cons a rest ih =>
    simp only [List.find?_cons, h a (List.mem_cons_self ..)]
    rw [ih (fun b hb => h b (List.mem_cons_of_mem _ hb))]

/-- On an attribute list without back-end-qualified attributes the front end's lookup is the
documented one. -/
theorem getAttr_eq_declared (attrs : List Attr) (n : String) (h : UnqAttrs attrs) :
    getAttr attrs n = declared attrs n := by
  have hf : attrs.find? (fun a => a.named n)
      = attrs.find? (fun a => decide (a.name = n ∧ a.isDefault = false ∧ a.backEnd = "")) := by
    apply find?_ext
    intro a ha
    have hq : a.backEnd = "" := h a ha
    simp [Attr.named, hq]
  unfold getAttr declared
  rw [hf]

end Emboss.Constraints
