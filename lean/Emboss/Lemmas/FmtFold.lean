/-
C11 helper lemmas, part 4: every handler at every signature (`run_ok`).
(The case list is mechanical: one block per handler, opening `HasKinds` into the
arguments and applying the handler's lemma.  Handlers that ignore an argument do not
depend on it: definedness and kind are obtained at a blank argument, the content
equation under the hypothesis that the ignored arguments are blank.)
-/
import Emboss.Lemmas.FmtHandlers
namespace Emboss.Fmt

theorem hasKinds_cons {args : List Fmt} {k : Kind} {ks : List Kind} (h : HasKinds args (k :: ks)) :
    ∃ a rest, args = a :: rest ∧ HasKind a k ∧ HasKinds rest ks := by
  cases args with
  | nil => simp [HasKinds] at h
  | cons a rest => exact ⟨a, rest, rfl, h.1, h.2⟩

theorem hasKinds_nil {args : List Fmt} (h : HasKinds args []) : args = [] := by
  cases args with
  | nil => rfl
  | cons a rest => simp [HasKinds] at h

theorem HasKind.weaken {v : Fmt} {k k' : Kind} (h : HasKind v k) (hle : k.le k' = true) : HasKind v k' := by
  cases k <;> cases k' <;> simp [Kind.le] at hle <;> try exact h
  obtain ⟨l, hl, _, p⟩ := h
  exact ⟨l, hl, p⟩

theorem ite_some_eq {α : Type} {c : Prop} [Decidable c] {a k : α}
    (h : (if c then some a else none) = some k) : c ∧ a = k := by
  split at h
  · exact ⟨by assumption, Option.some.inj h⟩
  · cases h

/-- "The arguments the handler ignores are blank." -/
def DroppedBlank (h : Handler) (args : List Fmt) : Prop :=
  ∀ i ∈ h.dropped, ∀ v, args[i]? = some v → content v = []

theorem run_ok (iw : Nat) (h : Handler) (args : List Fmt) (ks : List Kind) (k : Kind)
    (hne : h ≠ .docLine) (hk : HasKinds args ks) (hs : h.sig ks = some k) :
    ∃ v, h.run iw args = some v ∧ HasKind v k ∧ (DroppedBlank h args → content v = contents args) := by
  cases h <;> simp only [Handler.sig] at hs
  case docLine => exact absurd rfl hne
  case module =>
    obtain ⟨rfl, rfl⟩ := ite_some_eq hs
    obtain ⟨a, _, rfl, ha, hk⟩ := hasKinds_cons hk
    obtain ⟨b, _, rfl, hb, hk⟩ := hasKinds_cons hk
    obtain ⟨c, _, rfl, hc, hk⟩ := hasKinds_cons hk
    obtain ⟨d, _, rfl, hd, hk⟩ := hasKinds_cons hk
    obtain ⟨e, _, rfl, he, hk⟩ := hasKinds_cons hk
    cases hasKinds_nil hk
    obtain ⟨v, hv, hkv, hcv⟩ := hModule_ok iw ha hb hc hd he
    exact ⟨v, hv, hkv, fun _ => hcv⟩
  case importLine =>
    obtain ⟨rfl, rfl⟩ := ite_some_eq hs
    obtain ⟨a, _, rfl, ha, hk⟩ := hasKinds_cons hk
    obtain ⟨b, _, rfl, hb, hk⟩ := hasKinds_cons hk
    obtain ⟨c, _, rfl, hc, hk⟩ := hasKinds_cons hk
    obtain ⟨d, _, rfl, hd, hk⟩ := hasKinds_cons hk
    obtain ⟨e, _, rfl, he, hk⟩ := hasKinds_cons hk
    obtain ⟨f, _, rfl, hf, hk⟩ := hasKinds_cons hk
    cases hasKinds_nil hk
    obtain ⟨v, hv, hkv, hcv⟩ := hImportLine_ok ha hb hc hd he hf
    exact ⟨v, hv, hkv, fun _ => hcv⟩
  case attributeLine =>
    obtain ⟨rfl, rfl⟩ := ite_some_eq hs
    obtain ⟨a, _, rfl, ha, hk⟩ := hasKinds_cons hk
    obtain ⟨b, _, rfl, hb, hk⟩ := hasKinds_cons hk
    obtain ⟨c, _, rfl, hc, hk⟩ := hasKinds_cons hk
    cases hasKinds_nil hk
    obtain ⟨v, hv, hkv, hcv⟩ := hAttributeLine_ok ha hb hc
    exact ⟨v, hv, hkv, fun _ => hcv⟩
  case «attribute» =>
    obtain ⟨rfl, rfl⟩ := ite_some_eq hs
    obtain ⟨a, _, rfl, ha, hk⟩ := hasKinds_cons hk
    obtain ⟨b, _, rfl, hb, hk⟩ := hasKinds_cons hk
    obtain ⟨c, _, rfl, hc, hk⟩ := hasKinds_cons hk
    obtain ⟨d, _, rfl, hd, hk⟩ := hasKinds_cons hk
    obtain ⟨e, _, rfl, he, hk⟩ := hasKinds_cons hk
    obtain ⟨f, _, rfl, hf, hk⟩ := hasKinds_cons hk
    obtain ⟨g, _, rfl, hg, hk⟩ := hasKinds_cons hk
    cases hasKinds_nil hk
    obtain ⟨v, hv, hkv, hcv⟩ := hAttribute_ok ha hb hc hd he hf hg
    exact ⟨v, hv, hkv, fun _ => hcv⟩
  case parameterDefinition =>
    obtain ⟨rfl, rfl⟩ := ite_some_eq hs
    obtain ⟨a, _, rfl, ha, hk⟩ := hasKinds_cons hk
    obtain ⟨b, _, rfl, hb, hk⟩ := hasKinds_cons hk
    obtain ⟨c, _, rfl, hc, hk⟩ := hasKinds_cons hk
    cases hasKinds_nil hk
    obtain ⟨v, hv, hkv, hcv⟩ := hParameterDefinition_ok ha hb hc
    exact ⟨v, hv, hkv, fun _ => hcv⟩
  case typeDefinitions =>
    obtain ⟨rfl, rfl⟩ := ite_some_eq hs
    obtain ⟨a, _, rfl, ha, hk⟩ := hasKinds_cons hk
    obtain ⟨b, _, rfl, hb, hk⟩ := hasKinds_cons hk
    cases hasKinds_nil hk
    obtain ⟨v, hv, hkv, hcv⟩ := hTypeDefinitions_ok ha hb
    exact ⟨v, hv, hkv, fun _ => hcv⟩
  case structureType =>
    obtain ⟨rfl, rfl⟩ := ite_some_eq hs
    obtain ⟨a, _, rfl, ha, hk⟩ := hasKinds_cons hk
    obtain ⟨b, _, rfl, hb, hk⟩ := hasKinds_cons hk
    obtain ⟨c, _, rfl, hc, hk⟩ := hasKinds_cons hk
    obtain ⟨d, _, rfl, hd, hk⟩ := hasKinds_cons hk
    obtain ⟨e, _, rfl, he, hk⟩ := hasKinds_cons hk
    obtain ⟨f, _, rfl, hf, hk⟩ := hasKinds_cons hk
    obtain ⟨g, _, rfl, hg, hk⟩ := hasKinds_cons hk
    cases hasKinds_nil hk
    obtain ⟨v, hv, hkv, hcv⟩ := hStructureType_ok ha hb hc hd he hf hg
    exact ⟨v, hv, hkv, fun _ => hcv⟩
  case type_ =>
    obtain ⟨rfl, rfl⟩ := ite_some_eq hs
    obtain ⟨a, _, rfl, ha, hk⟩ := hasKinds_cons hk
    obtain ⟨b, _, rfl, hb, hk⟩ := hasKinds_cons hk
    obtain ⟨c, _, rfl, hc, hk⟩ := hasKinds_cons hk
    obtain ⟨d, _, rfl, hd, hk⟩ := hasKinds_cons hk
    obtain ⟨e, _, rfl, he, hk⟩ := hasKinds_cons hk
    obtain ⟨f, _, rfl, hf, hk⟩ := hasKinds_cons hk
    cases hasKinds_nil hk
    obtain ⟨v, hv, hkv, hcv⟩ := hType_ok ha hb hc hd he hf
    exact ⟨v, hv, hkv, fun _ => hcv⟩
  case fieldLocation =>
    obtain ⟨rfl, rfl⟩ := ite_some_eq hs
    obtain ⟨a, _, rfl, ha, hk⟩ := hasKinds_cons hk
    obtain ⟨b, _, rfl, hb, hk⟩ := hasKinds_cons hk
    obtain ⟨c, _, rfl, hc, hk⟩ := hasKinds_cons hk
    obtain ⟨d, _, rfl, hd, hk⟩ := hasKinds_cons hk
    obtain ⟨e, _, rfl, he, hk⟩ := hasKinds_cons hk
    cases hasKinds_nil hk
    obtain ⟨v, hv, hkv, hcv⟩ := hFieldLocation_ok ha hb hc hd he
    exact ⟨v, hv, hkv, fun _ => hcv⟩
  case virtualField =>
    obtain ⟨rfl, rfl⟩ := ite_some_eq hs
    obtain ⟨a, _, rfl, ha, hk⟩ := hasKinds_cons hk
    obtain ⟨b, _, rfl, hb, hk⟩ := hasKinds_cons hk
    obtain ⟨c, _, rfl, hc, hk⟩ := hasKinds_cons hk
    obtain ⟨d, _, rfl, hd, hk⟩ := hasKinds_cons hk
    obtain ⟨e, _, rfl, he, hk⟩ := hasKinds_cons hk
    obtain ⟨f, _, rfl, hf, hk⟩ := hasKinds_cons hk
    obtain ⟨g, _, rfl, hg, hk⟩ := hasKinds_cons hk
    cases hasKinds_nil hk
    obtain ⟨v, hv, hkv, hcv⟩ := hVirtualField_ok ha hb hc hd he hf hg
    exact ⟨v, hv, hkv, fun _ => hcv⟩
  case unconditionalField =>
    obtain ⟨rfl, rfl⟩ := ite_some_eq hs
    obtain ⟨a, _, rfl, ha, hk⟩ := hasKinds_cons hk
    obtain ⟨b, _, rfl, hb, hk⟩ := hasKinds_cons hk
    obtain ⟨c, _, rfl, hc, hk⟩ := hasKinds_cons hk
    obtain ⟨d, _, rfl, hd, hk⟩ := hasKinds_cons hk
    obtain ⟨e, _, rfl, he, hk⟩ := hasKinds_cons hk
    obtain ⟨f, _, rfl, hf, hk⟩ := hasKinds_cons hk
    obtain ⟨g, _, rfl, hg, hk⟩ := hasKinds_cons hk
    obtain ⟨h', _, rfl, hh, hk⟩ := hasKinds_cons hk
    obtain ⟨i, _, rfl, hi, hk⟩ := hasKinds_cons hk
    cases hasKinds_nil hk
    obtain ⟨v, hv, hkv, hcv⟩ := hUnconditionalField_ok ha hb hc hd he hf hg hh hi
    exact ⟨v, hv, hkv, fun _ => hcv⟩
  case inlineBits =>
    obtain ⟨rfl, rfl⟩ := ite_some_eq hs
    obtain ⟨a, _, rfl, ha, hk⟩ := hasKinds_cons hk
    obtain ⟨b, _, rfl, hb, hk⟩ := hasKinds_cons hk
    obtain ⟨c, _, rfl, hc, hk⟩ := hasKinds_cons hk
    obtain ⟨d, _, rfl, hd, hk⟩ := hasKinds_cons hk
    obtain ⟨e, _, rfl, he, hk⟩ := hasKinds_cons hk
    obtain ⟨f, _, rfl, hf, hk⟩ := hasKinds_cons hk
    cases hasKinds_nil hk
    obtain ⟨v, hv, hkv, hcv⟩ := hInlineBits_ok ha hb hc hd he hf
    exact ⟨v, hv, hkv, fun _ => hcv⟩
  case inlineType =>
    obtain ⟨rfl, rfl⟩ := ite_some_eq hs
    obtain ⟨a, _, rfl, ha, hk⟩ := hasKinds_cons hk
    obtain ⟨b, _, rfl, hb, hk⟩ := hasKinds_cons hk
    obtain ⟨c, _, rfl, hc, hk⟩ := hasKinds_cons hk
    obtain ⟨d, _, rfl, hd, hk⟩ := hasKinds_cons hk
    obtain ⟨e, _, rfl, he, hk⟩ := hasKinds_cons hk
    obtain ⟨f, _, rfl, hf, hk⟩ := hasKinds_cons hk
    obtain ⟨g, _, rfl, hg, hk⟩ := hasKinds_cons hk
    obtain ⟨h', _, rfl, hh, hk⟩ := hasKinds_cons hk
    cases hasKinds_nil hk
    obtain ⟨v, hv, hkv, hcv⟩ := hInlineType_ok ha hb hc hd he hf hg hh
    exact ⟨v, hv, hkv, fun _ => hcv⟩
  case enumValues =>
    obtain ⟨rfl, rfl⟩ := ite_some_eq hs
    obtain ⟨a, _, rfl, ha, hk⟩ := hasKinds_cons hk
    obtain ⟨b, _, rfl, hb, hk⟩ := hasKinds_cons hk
    cases hasKinds_nil hk
    obtain ⟨v, hv, hkv, hcv⟩ := hAdd_EE ha hb
    exact ⟨v, hv, hkv, fun _ => hcv⟩
  case enumValue =>
    obtain ⟨rfl, rfl⟩ := ite_some_eq hs
    obtain ⟨a, _, rfl, ha, hk⟩ := hasKinds_cons hk
    obtain ⟨b, _, rfl, hb, hk⟩ := hasKinds_cons hk
    obtain ⟨c, _, rfl, hc, hk⟩ := hasKinds_cons hk
    obtain ⟨d, _, rfl, hd, hk⟩ := hasKinds_cons hk
    obtain ⟨e, _, rfl, he, hk⟩ := hasKinds_cons hk
    obtain ⟨f, _, rfl, hf, hk⟩ := hasKinds_cons hk
    obtain ⟨g, _, rfl, hg, hk⟩ := hasKinds_cons hk
    obtain ⟨h', _, rfl, hh, hk⟩ := hasKinds_cons hk
    cases hasKinds_nil hk
    obtain ⟨v, hv, hkv, hcv⟩ := hEnumValue_ok ha hb hc hd he hf hg hh
    exact ⟨v, hv, hkv, fun _ => hcv⟩
  case concatenateLists =>
    obtain ⟨rfl, rfl⟩ := ite_some_eq hs
    obtain ⟨a, _, rfl, ha, hk⟩ := hasKinds_cons hk
    obtain ⟨b, _, rfl, hb, hk⟩ := hasKinds_cons hk
    cases hasKinds_nil hk
    obtain ⟨v, hv, hkv, hcv⟩ := hAdd_rows ha hb
    exact ⟨v, hv, hkv, fun _ => hcv⟩
  case docRstrip =>
    obtain ⟨rfl, rfl⟩ := ite_some_eq hs
    obtain ⟨a, _, rfl, ha, hk⟩ := hasKinds_cons hk
    cases hasKinds_nil hk
    obtain ⟨v, hv, hkv, hcv⟩ := hDocRstrip_ok ha
    exact ⟨v, hv, hkv, fun _ => hcv⟩
  case additiveExpressionRight =>
    obtain ⟨rfl, rfl⟩ := ite_some_eq hs
    obtain ⟨a, _, rfl, ha, hk⟩ := hasKinds_cons hk
    obtain ⟨b, _, rfl, hb, hk⟩ := hasKinds_cons hk
    cases hasKinds_nil hk
    obtain ⟨v, hv, hkv, hcv⟩ := hAdditiveExpressionRight_ok ha hb
    exact ⟨v, hv, hkv, fun _ => hcv⟩
  case structureBody =>
    obtain ⟨rfl, rfl⟩ := ite_some_eq hs
    obtain ⟨a, _, rfl, ha, hk⟩ := hasKinds_cons hk
    obtain ⟨b, _, rfl, hb, hk⟩ := hasKinds_cons hk
    obtain ⟨c, _, rfl, hc, hk⟩ := hasKinds_cons hk
    obtain ⟨d, _, rfl, hd, hk⟩ := hasKinds_cons hk
    obtain ⟨e, _, rfl, he, hk⟩ := hasKinds_cons hk
    obtain ⟨f, _, rfl, hf, hk⟩ := hasKinds_cons hk
    cases hasKinds_nil hk
    obtain ⟨v, hv, hkv, hcv⟩ := hStructureBody_ok iw (a := .str []) (f := .str []) hb hc hd he rfl rfl
    refine ⟨v, hv, hkv, fun hdrop => ?_⟩
    have h0 := hdrop 0 (by simp [Handler.dropped]) a rfl
    have h5 := hdrop 5 (by simp [Handler.dropped]) f rfl
    simp [hcv, h0, h5]
  case fieldBody =>
    obtain ⟨rfl, rfl⟩ := ite_some_eq hs
    obtain ⟨a, _, rfl, ha, hk⟩ := hasKinds_cons hk
    obtain ⟨b, _, rfl, hb, hk⟩ := hasKinds_cons hk
    obtain ⟨c, _, rfl, hc, hk⟩ := hasKinds_cons hk
    obtain ⟨d, _, rfl, hd, hk⟩ := hasKinds_cons hk
    cases hasKinds_nil hk
    obtain ⟨v, hv, hkv, hcv⟩ := hFieldBody_ok (a := .str []) (d := .str []) hb hc rfl rfl
    refine ⟨v, hv, hkv, fun hdrop => ?_⟩
    have h0 := hdrop 0 (by simp [Handler.dropped]) a rfl
    have h3 := hdrop 3 (by simp [Handler.dropped]) d rfl
    simp [hcv, h0, h3]
  case conditionalField =>
    obtain ⟨rfl, rfl⟩ := ite_some_eq hs
    obtain ⟨a, _, rfl, ha, hk⟩ := hasKinds_cons hk
    obtain ⟨b, _, rfl, hb, hk⟩ := hasKinds_cons hk
    obtain ⟨c, _, rfl, hc, hk⟩ := hasKinds_cons hk
    obtain ⟨d, _, rfl, hd, hk⟩ := hasKinds_cons hk
    obtain ⟨e, _, rfl, he, hk⟩ := hasKinds_cons hk
    obtain ⟨f, _, rfl, hf, hk⟩ := hasKinds_cons hk
    obtain ⟨g, _, rfl, hg, hk⟩ := hasKinds_cons hk
    obtain ⟨h', _, rfl, hh, hk⟩ := hasKinds_cons hk
    cases hasKinds_nil hk
    obtain ⟨v, hv, hkv, hcv⟩ := hConditionalField_ok (f := .str []) (h := .str []) ha hb hc hd he hg rfl rfl
    refine ⟨v, hv, hkv, fun hdrop => ?_⟩
    have h5 := hdrop 5 (by simp [Handler.dropped]) f rfl
    have h7 := hdrop 7 (by simp [Handler.dropped]) h' rfl
    simp [hcv, h5, h7]
  case inlineBitsBody =>
    obtain ⟨rfl, rfl⟩ := ite_some_eq hs
    obtain ⟨a, _, rfl, ha, hk⟩ := hasKinds_cons hk
    obtain ⟨b, _, rfl, hb, hk⟩ := hasKinds_cons hk
    obtain ⟨c, _, rfl, hc, hk⟩ := hasKinds_cons hk
    obtain ⟨d, _, rfl, hd, hk⟩ := hasKinds_cons hk
    cases hasKinds_nil hk
    obtain ⟨v, hv, hkv, hcv⟩ := hInlineBitsBody_ok (a := .str []) (d := .str []) hb hc rfl rfl
    refine ⟨v, hv, hkv, fun hdrop => ?_⟩
    have h0 := hdrop 0 (by simp [Handler.dropped]) a rfl
    have h3 := hdrop 3 (by simp [Handler.dropped]) d rfl
    simp [hcv, h0, h3]
  case enumBody =>
    obtain ⟨rfl, rfl⟩ := ite_some_eq hs
    obtain ⟨a, _, rfl, ha, hk⟩ := hasKinds_cons hk
    obtain ⟨b, _, rfl, hb, hk⟩ := hasKinds_cons hk
    obtain ⟨c, _, rfl, hc, hk⟩ := hasKinds_cons hk
    obtain ⟨d, _, rfl, hd, hk⟩ := hasKinds_cons hk
    obtain ⟨e, _, rfl, he, hk⟩ := hasKinds_cons hk
    cases hasKinds_nil hk
    obtain ⟨v, hv, hkv, hcv⟩ := hEnumBody_ok iw (a := .str []) (e := .str []) hb hc hd rfl rfl
    refine ⟨v, hv, hkv, fun hdrop => ?_⟩
    have h0 := hdrop 0 (by simp [Handler.dropped]) a rfl
    have h4 := hdrop 4 (by simp [Handler.dropped]) e rfl
    simp [hcv, h0, h4]
  case enumValueBody =>
    obtain ⟨rfl, rfl⟩ := ite_some_eq hs
    obtain ⟨a, _, rfl, ha, hk⟩ := hasKinds_cons hk
    obtain ⟨b, _, rfl, hb, hk⟩ := hasKinds_cons hk
    obtain ⟨c, _, rfl, hc, hk⟩ := hasKinds_cons hk
    obtain ⟨d, _, rfl, hd, hk⟩ := hasKinds_cons hk
    cases hasKinds_nil hk
    obtain ⟨v, hv, hkv, hcv⟩ := hFieldBody_ok (a := .str []) (d := .str []) hb hc rfl rfl
    refine ⟨v, hv, hkv, fun hdrop => ?_⟩
    have h0 := hdrop 0 (by simp [Handler.dropped]) a rfl
    have h3 := hdrop 3 (by simp [Handler.dropped]) d rfl
    simp [hcv, h0, h3]
  case externalBody =>
    obtain ⟨rfl, rfl⟩ := ite_some_eq hs
    obtain ⟨a, _, rfl, ha, hk⟩ := hasKinds_cons hk
    obtain ⟨b, _, rfl, hb, hk⟩ := hasKinds_cons hk
    obtain ⟨c, _, rfl, hc, hk⟩ := hasKinds_cons hk
    obtain ⟨d, _, rfl, hd, hk⟩ := hasKinds_cons hk
    cases hasKinds_nil hk
    obtain ⟨v, hv, hkv, hcv⟩ := hExternalBody_ok (a := .str []) (d := .str []) hb hc rfl rfl
    refine ⟨v, hv, hkv, fun hdrop => ?_⟩
    have h0 := hdrop 0 (by simp [Handler.dropped]) a rfl
    have h3 := hdrop 3 (by simp [Handler.dropped]) d rfl
    simp [hcv, h0, h3]
  case commentLine =>
    obtain ⟨rfl, rfl⟩ := ite_some_eq hs
    obtain ⟨a, _, rfl, ha, hk⟩ := hasKinds_cons hk
    obtain ⟨b, _, rfl, hb, hk⟩ := hasKinds_cons hk
    cases hasKinds_nil hk
    obtain ⟨v, hv, hkv, hcv⟩ := hCommentLine_ok (b := .str []) ha rfl
    refine ⟨v, hv, hkv, fun hdrop => ?_⟩
    have h1 := hdrop 1 (by simp [Handler.dropped]) b rfl
    simp [hcv, h1]
  case eol =>
    obtain ⟨rfl, rfl⟩ := ite_some_eq hs
    obtain ⟨a, _, rfl, ha, hk⟩ := hasKinds_cons hk
    obtain ⟨b, _, rfl, hb, hk⟩ := hasKinds_cons hk
    cases hasKinds_nil hk
    obtain ⟨v, hv, hkv, hcv⟩ := hEol_ok (a := .str []) hb rfl
    refine ⟨v, hv, hkv, fun hdrop => ?_⟩
    have h0 := hdrop 0 (by simp [Handler.dropped]) a rfl
    simp [hcv, h0]
  case structureBlock =>
    split at hs
    · rename_i hks
      cases hs; subst hks
      obtain ⟨a, _, rfl, ha, hk⟩ := hasKinds_cons hk
      obtain ⟨b, _, rfl, hb, hk⟩ := hasKinds_cons hk
      cases hasKinds_nil hk
      obtain ⟨v, hv, hkv, hcv⟩ := hAdd_F1F ha hb
      exact ⟨v, hv, hkv, fun _ => hcv⟩
    · obtain ⟨rfl, rfl⟩ := ite_some_eq hs
      obtain ⟨a, _, rfl, ha, hk⟩ := hasKinds_cons hk
      obtain ⟨b, _, rfl, hb, hk⟩ := hasKinds_cons hk
      cases hasKinds_nil hk
      obtain ⟨v, hv, hkv, hcv⟩ := hAdd_FF ha hb
      exact ⟨v, hv, hkv, fun _ => hcv⟩
  case emptyList =>
    obtain ⟨rfl, rfl⟩ := ite_some_eq hs
    cases hasKinds_nil hk
    exact ⟨.nil, rfl, ⟨[], rfl, PlainRows.nil⟩, fun _ => rfl⟩
  case emptyString =>
    obtain ⟨rfl, rfl⟩ := ite_some_eq hs
    cases hasKinds_nil hk
    exact ⟨.str [], rfl, ⟨_, rfl⟩, fun _ => rfl⟩
  case identity =>
    split at hs
    · cases hs
      obtain ⟨a, _, rfl, ha, hk⟩ := hasKinds_cons hk
      cases hasKinds_nil hk
      exact ⟨a, rfl, ha, fun _ => by simp⟩
    · cases hs
  case concatenate =>
    obtain ⟨hall, rfl⟩ := ite_some_eq hs
    obtain ⟨l, hl, hc⟩ := allStrs_ok args ks hk hall
    exact ⟨.str l.flatten, by simp [Handler.run, hl], ⟨_, rfl⟩, fun _ => by simp [hc]⟩
  case concatenateWithPrefixSpaces =>
    obtain ⟨hall, rfl⟩ := ite_some_eq hs
    obtain ⟨l, hl, hc⟩ := allStrs_ok args ks hk hall
    exact ⟨.str (concatPrefixSpaces l), by simp [Handler.run, hl], ⟨_, rfl⟩, fun _ => by simp [hc]⟩
  case concatenateWithSpaces =>
    obtain ⟨hall, rfl⟩ := ite_some_eq hs
    obtain ⟨l, hl, hc⟩ := allStrs_ok args ks hk hall
    exact ⟨.str (concatWith sp l), by simp [Handler.run, hl], ⟨_, rfl⟩, fun _ => by simp [hc]⟩

end Emboss.Fmt
