/-
C11 helper lemmas, part 4: every handler at every signature (`run_ok`).
(The case list is mechanical: one block per handler, opening `HasKinds` into the
arguments and applying the handler's lemma.)
-/
import Emboss.Lemmas.FmtHandlers
namespace Emboss.Fmt

theorem hasKinds_cons {args : List Fmt} {k : Kind} {ks : List Kind} (h : HasKinds args (k :: ks)) :
    ∃ a rest, args = a :: rest ∧ HasKind a k ∧ HasKinds rest ks := by
  cases args with
  | nil => simp [HasKinds] at h
  | cons a rest => exact ⟨a, rest, rfl, h.1, h.2⟩

theorem hasKinds_nil {args : List Fmt} (h : HasKinds args []) : args = [] := by
  cases args with
  | nil => rfl
  | cons a rest => simp [HasKinds] at h

theorem HasKind.weaken {v : Fmt} {k k' : Kind} (h : HasKind v k) (hle : k.le k' = true) : HasKind v k' := by
  cases k <;> cases k' <;> simp [Kind.le] at hle <;> try exact h
  obtain ⟨l, hl, _, p⟩ := h
  exact ⟨l, hl, p⟩

theorem ite_some_eq {α : Type} {c : Prop} [Decidable c] {a k : α}
    (h : (if c then some a else none) = some k) : c ∧ a = k := by
  split at h
  · exact ⟨by assumption, Option.some.inj h⟩
  · cases h

theorem run_ok (iw : Nat) (h : Handler) (args : List Fmt) (ks : List Kind) (k : Kind)
    (hne : h ≠ .docLine) (hk : HasKinds args ks) (hs : h.sig ks = some k)
    (hdrop : ∀ i ∈ h.dropped, ∀ v, args[i]? = some v → content v = []) :
    ∃ v, h.run iw args = some v ∧ HasKind v k ∧ content v = contents args := by
  cases h <;> simp only [Handler.sig] at hs
  case docLine => exact absurd rfl hne
  case module =>
    obtain ⟨rfl, rfl⟩ := ite_some_eq hs
    obtain ⟨a, _, rfl, ha, hk⟩ := hasKinds_cons hk
    obtain ⟨b, _, rfl, hb, hk⟩ := hasKinds_cons hk
    obtain ⟨c, _, rfl, hc, hk⟩ := hasKinds_cons hk
    obtain ⟨d, _, rfl, hd, hk⟩ := hasKinds_cons hk
    obtain ⟨e, _, rfl, he, hk⟩ := hasKinds_cons hk
    cases hasKinds_nil hk
    exact hModule_ok iw ha hb hc hd he
  case importLine =>
    obtain ⟨rfl, rfl⟩ := ite_some_eq hs
    obtain ⟨a, _, rfl, ha, hk⟩ := hasKinds_cons hk
    obtain ⟨b, _, rfl, hb, hk⟩ := hasKinds_cons hk
    obtain ⟨c, _, rfl, hc, hk⟩ := hasKinds_cons hk
    obtain ⟨d, _, rfl, hd, hk⟩ := hasKinds_cons hk
    obtain ⟨e, _, rfl, he, hk⟩ := hasKinds_cons hk
    obtain ⟨f, _, rfl, hf, hk⟩ := hasKinds_cons hk
    cases hasKinds_nil hk
    exact hImportLine_ok ha hb hc hd he hf
  case attributeLine =>
    obtain ⟨rfl, rfl⟩ := ite_some_eq hs
    obtain ⟨a, _, rfl, ha, hk⟩ := hasKinds_cons hk
    obtain ⟨b, _, rfl, hb, hk⟩ := hasKinds_cons hk
    obtain ⟨c, _, rfl, hc, hk⟩ := hasKinds_cons hk
    cases hasKinds_nil hk
    exact hAttributeLine_ok ha hb hc
  case «attribute» =>
    obtain ⟨rfl, rfl⟩ := ite_some_eq hs
    obtain ⟨a, _, rfl, ha, hk⟩ := hasKinds_cons hk
    obtain ⟨b, _, rfl, hb, hk⟩ := hasKinds_cons hk
    obtain ⟨c, _, rfl, hc, hk⟩ := hasKinds_cons hk
    obtain ⟨d, _, rfl, hd, hk⟩ := hasKinds_cons hk
    obtain ⟨e, _, rfl, he, hk⟩ := hasKinds_cons hk
    obtain ⟨f, _, rfl, hf, hk⟩ := hasKinds_cons hk
    obtain ⟨g, _, rfl, hg, hk⟩ := hasKinds_cons hk
    cases hasKinds_nil hk
    exact hAttribute_ok ha hb hc hd he hf hg
  case parameterDefinition =>
    obtain ⟨rfl, rfl⟩ := ite_some_eq hs
    obtain ⟨a, _, rfl, ha, hk⟩ := hasKinds_cons hk
    obtain ⟨b, _, rfl, hb, hk⟩ := hasKinds_cons hk
    obtain ⟨c, _, rfl, hc, hk⟩ := hasKinds_cons hk
    cases hasKinds_nil hk
    exact hParameterDefinition_ok ha hb hc
  case typeDefinitions =>
    obtain ⟨rfl, rfl⟩ := ite_some_eq hs
    obtain ⟨a, _, rfl, ha, hk⟩ := hasKinds_cons hk
    obtain ⟨b, _, rfl, hb, hk⟩ := hasKinds_cons hk
    cases hasKinds_nil hk
    exact hTypeDefinitions_ok ha hb
  case structureType =>
    obtain ⟨rfl, rfl⟩ := ite_some_eq hs
    obtain ⟨a, _, rfl, ha, hk⟩ := hasKinds_cons hk
    obtain ⟨b, _, rfl, hb, hk⟩ := hasKinds_cons hk
    obtain ⟨c, _, rfl, hc, hk⟩ := hasKinds_cons hk
    obtain ⟨d, _, rfl, hd, hk⟩ := hasKinds_cons hk
    obtain ⟨e, _, rfl, he, hk⟩ := hasKinds_cons hk
    obtain ⟨f, _, rfl, hf, hk⟩ := hasKinds_cons hk
    obtain ⟨g, _, rfl, hg, hk⟩ := hasKinds_cons hk
    cases hasKinds_nil hk
    exact hStructureType_ok ha hb hc hd he hf hg
  case type_ =>
    obtain ⟨rfl, rfl⟩ := ite_some_eq hs
    obtain ⟨a, _, rfl, ha, hk⟩ := hasKinds_cons hk
    obtain ⟨b, _, rfl, hb, hk⟩ := hasKinds_cons hk
    obtain ⟨c, _, rfl, hc, hk⟩ := hasKinds_cons hk
    obtain ⟨d, _, rfl, hd, hk⟩ := hasKinds_cons hk
    obtain ⟨e, _, rfl, he, hk⟩ := hasKinds_cons hk
    obtain ⟨f, _, rfl, hf, hk⟩ := hasKinds_cons hk
    cases hasKinds_nil hk
    exact hType_ok ha hb hc hd he hf
  case structureBody =>
    obtain ⟨rfl, rfl⟩ := ite_some_eq hs
    obtain ⟨a, _, rfl, ha, hk⟩ := hasKinds_cons hk
    obtain ⟨b, _, rfl, hb, hk⟩ := hasKinds_cons hk
    obtain ⟨c, _, rfl, hc, hk⟩ := hasKinds_cons hk
    obtain ⟨d, _, rfl, hd, hk⟩ := hasKinds_cons hk
    obtain ⟨e, _, rfl, he, hk⟩ := hasKinds_cons hk
    obtain ⟨f, _, rfl, hf, hk⟩ := hasKinds_cons hk
    cases hasKinds_nil hk
    exact hStructureBody_ok iw hb hc hd he (hdrop 0 (by simp [Handler.dropped]) a rfl) (hdrop 5 (by simp [Handler.dropped]) f rfl)
  case fieldLocation =>
    obtain ⟨rfl, rfl⟩ := ite_some_eq hs
    obtain ⟨a, _, rfl, ha, hk⟩ := hasKinds_cons hk
    obtain ⟨b, _, rfl, hb, hk⟩ := hasKinds_cons hk
    obtain ⟨c, _, rfl, hc, hk⟩ := hasKinds_cons hk
    obtain ⟨d, _, rfl, hd, hk⟩ := hasKinds_cons hk
    obtain ⟨e, _, rfl, he, hk⟩ := hasKinds_cons hk
    cases hasKinds_nil hk
    exact hFieldLocation_ok ha hb hc hd he
  case virtualField =>
    obtain ⟨rfl, rfl⟩ := ite_some_eq hs
    obtain ⟨a, _, rfl, ha, hk⟩ := hasKinds_cons hk
    obtain ⟨b, _, rfl, hb, hk⟩ := hasKinds_cons hk
    obtain ⟨c, _, rfl, hc, hk⟩ := hasKinds_cons hk
    obtain ⟨d, _, rfl, hd, hk⟩ := hasKinds_cons hk
    obtain ⟨e, _, rfl, he, hk⟩ := hasKinds_cons hk
    obtain ⟨f, _, rfl, hf, hk⟩ := hasKinds_cons hk
    obtain ⟨g, _, rfl, hg, hk⟩ := hasKinds_cons hk
    cases hasKinds_nil hk
    exact hVirtualField_ok ha hb hc hd he hf hg
  case unconditionalField =>
    obtain ⟨rfl, rfl⟩ := ite_some_eq hs
    obtain ⟨a, _, rfl, ha, hk⟩ := hasKinds_cons hk
    obtain ⟨b, _, rfl, hb, hk⟩ := hasKinds_cons hk
    obtain ⟨c, _, rfl, hc, hk⟩ := hasKinds_cons hk
    obtain ⟨d, _, rfl, hd, hk⟩ := hasKinds_cons hk
    obtain ⟨e, _, rfl, he, hk⟩ := hasKinds_cons hk
    obtain ⟨f, _, rfl, hf, hk⟩ := hasKinds_cons hk
    obtain ⟨g, _, rfl, hg, hk⟩ := hasKinds_cons hk
    obtain ⟨h', _, rfl, hh, hk⟩ := hasKinds_cons hk
    obtain ⟨i, _, rfl, hi, hk⟩ := hasKinds_cons hk
    cases hasKinds_nil hk
    exact hUnconditionalField_ok ha hb hc hd he hf hg hh hi
  case fieldBody =>
    obtain ⟨rfl, rfl⟩ := ite_some_eq hs
    obtain ⟨a, _, rfl, ha, hk⟩ := hasKinds_cons hk
    obtain ⟨b, _, rfl, hb, hk⟩ := hasKinds_cons hk
    obtain ⟨c, _, rfl, hc, hk⟩ := hasKinds_cons hk
    obtain ⟨d, _, rfl, hd, hk⟩ := hasKinds_cons hk
    cases hasKinds_nil hk
    exact hFieldBody_ok hb hc (hdrop 0 (by simp [Handler.dropped]) a rfl) (hdrop 3 (by simp [Handler.dropped]) d rfl)
  case inlineBits =>
    obtain ⟨rfl, rfl⟩ := ite_some_eq hs
    obtain ⟨a, _, rfl, ha, hk⟩ := hasKinds_cons hk
    obtain ⟨b, _, rfl, hb, hk⟩ := hasKinds_cons hk
    obtain ⟨c, _, rfl, hc, hk⟩ := hasKinds_cons hk
    obtain ⟨d, _, rfl, hd, hk⟩ := hasKinds_cons hk
    obtain ⟨e, _, rfl, he, hk⟩ := hasKinds_cons hk
    obtain ⟨f, _, rfl, hf, hk⟩ := hasKinds_cons hk
    cases hasKinds_nil hk
    exact hInlineBits_ok ha hb hc hd he hf
  case inlineType =>
    obtain ⟨rfl, rfl⟩ := ite_some_eq hs
    obtain ⟨a, _, rfl, ha, hk⟩ := hasKinds_cons hk
    obtain ⟨b, _, rfl, hb, hk⟩ := hasKinds_cons hk
    obtain ⟨c, _, rfl, hc, hk⟩ := hasKinds_cons hk
    obtain ⟨d, _, rfl, hd, hk⟩ := hasKinds_cons hk
    obtain ⟨e, _, rfl, he, hk⟩ := hasKinds_cons hk
    obtain ⟨f, _, rfl, hf, hk⟩ := hasKinds_cons hk
    obtain ⟨g, _, rfl, hg, hk⟩ := hasKinds_cons hk
    obtain ⟨h', _, rfl, hh, hk⟩ := hasKinds_cons hk
    cases hasKinds_nil hk
    exact hInlineType_ok ha hb hc hd he hf hg hh
  case conditionalField =>
    obtain ⟨rfl, rfl⟩ := ite_some_eq hs
    obtain ⟨a, _, rfl, ha, hk⟩ := hasKinds_cons hk
    obtain ⟨b, _, rfl, hb, hk⟩ := hasKinds_cons hk
    obtain ⟨c, _, rfl, hc, hk⟩ := hasKinds_cons hk
    obtain ⟨d, _, rfl, hd, hk⟩ := hasKinds_cons hk
    obtain ⟨e, _, rfl, he, hk⟩ := hasKinds_cons hk
    obtain ⟨f, _, rfl, hf, hk⟩ := hasKinds_cons hk
    obtain ⟨g, _, rfl, hg, hk⟩ := hasKinds_cons hk
    obtain ⟨h', _, rfl, hh, hk⟩ := hasKinds_cons hk
    cases hasKinds_nil hk
    exact hConditionalField_ok ha hb hc hd he hg (hdrop 5 (by simp [Handler.dropped]) f rfl) (hdrop 7 (by simp [Handler.dropped]) h' rfl)
  case inlineBitsBody =>
    obtain ⟨rfl, rfl⟩ := ite_some_eq hs
    obtain ⟨a, _, rfl, ha, hk⟩ := hasKinds_cons hk
    obtain ⟨b, _, rfl, hb, hk⟩ := hasKinds_cons hk
    obtain ⟨c, _, rfl, hc, hk⟩ := hasKinds_cons hk
    obtain ⟨d, _, rfl, hd, hk⟩ := hasKinds_cons hk
    cases hasKinds_nil hk
    exact hInlineBitsBody_ok hb hc (hdrop 0 (by simp [Handler.dropped]) a rfl) (hdrop 3 (by simp [Handler.dropped]) d rfl)
  case enumBody =>
    obtain ⟨rfl, rfl⟩ := ite_some_eq hs
    obtain ⟨a, _, rfl, ha, hk⟩ := hasKinds_cons hk
    obtain ⟨b, _, rfl, hb, hk⟩ := hasKinds_cons hk
    obtain ⟨c, _, rfl, hc, hk⟩ := hasKinds_cons hk
    obtain ⟨d, _, rfl, hd, hk⟩ := hasKinds_cons hk
    obtain ⟨e, _, rfl, he, hk⟩ := hasKinds_cons hk
    cases hasKinds_nil hk
    exact hEnumBody_ok iw hb hc hd (hdrop 0 (by simp [Handler.dropped]) a rfl) (hdrop 4 (by simp [Handler.dropped]) e rfl)
  case enumValues =>
    obtain ⟨rfl, rfl⟩ := ite_some_eq hs
    obtain ⟨a, _, rfl, ha, hk⟩ := hasKinds_cons hk
    obtain ⟨b, _, rfl, hb, hk⟩ := hasKinds_cons hk
    cases hasKinds_nil hk
    exact hAdd_EE ha hb
  case enumValue =>
    obtain ⟨rfl, rfl⟩ := ite_some_eq hs
    obtain ⟨a, _, rfl, ha, hk⟩ := hasKinds_cons hk
    obtain ⟨b, _, rfl, hb, hk⟩ := hasKinds_cons hk
    obtain ⟨c, _, rfl, hc, hk⟩ := hasKinds_cons hk
    obtain ⟨d, _, rfl, hd, hk⟩ := hasKinds_cons hk
    obtain ⟨e, _, rfl, he, hk⟩ := hasKinds_cons hk
    obtain ⟨f, _, rfl, hf, hk⟩ := hasKinds_cons hk
    obtain ⟨g, _, rfl, hg, hk⟩ := hasKinds_cons hk
    obtain ⟨h', _, rfl, hh, hk⟩ := hasKinds_cons hk
    cases hasKinds_nil hk
    exact hEnumValue_ok ha hb hc hd he hf hg hh
  case enumValueBody =>
    obtain ⟨rfl, rfl⟩ := ite_some_eq hs
    obtain ⟨a, _, rfl, ha, hk⟩ := hasKinds_cons hk
    obtain ⟨b, _, rfl, hb, hk⟩ := hasKinds_cons hk
    obtain ⟨c, _, rfl, hc, hk⟩ := hasKinds_cons hk
    obtain ⟨d, _, rfl, hd, hk⟩ := hasKinds_cons hk
    cases hasKinds_nil hk
    exact hFieldBody_ok hb hc (hdrop 0 (by simp [Handler.dropped]) a rfl) (hdrop 3 (by simp [Handler.dropped]) d rfl)
  case externalBody =>
    obtain ⟨rfl, rfl⟩ := ite_some_eq hs
    obtain ⟨a, _, rfl, ha, hk⟩ := hasKinds_cons hk
    obtain ⟨b, _, rfl, hb, hk⟩ := hasKinds_cons hk
    obtain ⟨c, _, rfl, hc, hk⟩ := hasKinds_cons hk
    obtain ⟨d, _, rfl, hd, hk⟩ := hasKinds_cons hk
    cases hasKinds_nil hk
    exact hExternalBody_ok hb hc (hdrop 0 (by simp [Handler.dropped]) a rfl) (hdrop 3 (by simp [Handler.dropped]) d rfl)
  case commentLine =>
    obtain ⟨rfl, rfl⟩ := ite_some_eq hs
    obtain ⟨a, _, rfl, ha, hk⟩ := hasKinds_cons hk
    obtain ⟨b, _, rfl, hb, hk⟩ := hasKinds_cons hk
    cases hasKinds_nil hk
    exact hCommentLine_ok ha (hdrop 1 (by simp [Handler.dropped]) b rfl)
  case eol =>
    obtain ⟨rfl, rfl⟩ := ite_some_eq hs
    obtain ⟨a, _, rfl, ha, hk⟩ := hasKinds_cons hk
    obtain ⟨b, _, rfl, hb, hk⟩ := hasKinds_cons hk
    cases hasKinds_nil hk
    exact hEol_ok hb (hdrop 0 (by simp [Handler.dropped]) a rfl)
  case concatenateLists =>
    obtain ⟨rfl, rfl⟩ := ite_some_eq hs
    obtain ⟨a, _, rfl, ha, hk⟩ := hasKinds_cons hk
    obtain ⟨b, _, rfl, hb, hk⟩ := hasKinds_cons hk
    cases hasKinds_nil hk
    exact hAdd_rows ha hb
  case structureBlock =>
    split at hs
    · rename_i hks
      cases hs; subst hks
      obtain ⟨a, _, rfl, ha, hk⟩ := hasKinds_cons hk
      obtain ⟨b, _, rfl, hb, hk⟩ := hasKinds_cons hk
      cases hasKinds_nil hk
      exact hAdd_F1F ha hb
    · obtain ⟨rfl, rfl⟩ := ite_some_eq hs
      obtain ⟨a, _, rfl, ha, hk⟩ := hasKinds_cons hk
      obtain ⟨b, _, rfl, hb, hk⟩ := hasKinds_cons hk
      cases hasKinds_nil hk
      exact hAdd_FF ha hb
  case emptyList =>
    obtain ⟨rfl, rfl⟩ := ite_some_eq hs
    cases hasKinds_nil hk
    exact ⟨.nil, rfl, ⟨[], rfl, PlainRows.nil⟩, rfl⟩
  case emptyString =>
    obtain ⟨rfl, rfl⟩ := ite_some_eq hs
    cases hasKinds_nil hk
    exact ⟨.str [], rfl, ⟨_, rfl⟩, rfl⟩
  case identity =>
    split at hs
    · cases hs
      obtain ⟨a, _, rfl, ha, hk⟩ := hasKinds_cons hk
      cases hasKinds_nil hk
      exact ⟨a, rfl, ha, by simp⟩
    · cases hs
  case concatenate =>
    obtain ⟨hall, rfl⟩ := ite_some_eq hs
    obtain ⟨l, hl, hc⟩ := allStrs_ok args ks hk hall
    exact ⟨.str l.flatten, by simp [Handler.run, hl], ⟨_, rfl⟩, by simp [hc]⟩
  case concatenateWithPrefixSpaces =>
    obtain ⟨hall, rfl⟩ := ite_some_eq hs
    obtain ⟨l, hl, hc⟩ := allStrs_ok args ks hk hall
    exact ⟨.str (concatPrefixSpaces l), by simp [Handler.run, hl], ⟨_, rfl⟩, by simp [hc]⟩
  case concatenateWithSpaces =>
    obtain ⟨hall, rfl⟩ := ite_some_eq hs
    obtain ⟨l, hl, hc⟩ := allStrs_ok args ks hk hall
    exact ⟨.str (concatWith sp l), by simp [Handler.run, hl], ⟨_, rfl⟩, by simp [hc]⟩

end Emboss.Fmt
