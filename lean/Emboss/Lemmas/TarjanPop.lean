import Emboss.Lemmas.TarjanFinish
namespace Emboss.Deps

theorem nontrivial_cyclic {g : Graph} {v : Nat} {seg : List Nat}
    (hnd : (seg ++ [v]).Nodup) (hscc : ∀ b, b ∈ seg ++ [v] ↔ Mutual g v b)
    (hnt : nontrivial g (seg ++ [v]) = true) : ∀ a ∈ seg ++ [v], cyclic g a := by
  intro a ha
  cases seg with
  | nil =>
    simp only [List.nil_append, List.mem_singleton] at ha
    subst ha
    simp [nontrivial] at hnt
    exact .single hnt
  | cons x xs =>
    have hxv : x ≠ v := by
      intro e; subst e
      simp at hnd
    have hmx : Mutual g v x := (hscc x).mp (by simp)
    have hma : Mutual g v a := (hscc a).mp ha
    by_cases hav : a = v
    · subst hav
      exact cyclic_of_mutual_ne hmx (Ne.symm hxv)
    · exact cyclic_of_mutual_ne hma.symm hav

theorem trivial_not_cyclic {g : Graph} {v : Nat} {seg : List Nat}
    (hscc : ∀ b, b ∈ seg ++ [v] ↔ Mutual g v b)
    (hnt : nontrivial g (seg ++ [v]) = false) : ∀ a ∈ seg ++ [v], ¬ cyclic g a := by
  intro a ha hc
  cases seg with
  | cons x xs => simp [nontrivial] at hnt
  | nil =>
    simp only [List.nil_append, List.mem_singleton] at ha
    subst ha
    simp [nontrivial] at hnt
    obtain ⟨b, he, hr⟩ := ReachP.head hc
    have hb : b ∈ [] ++ [a] := (hscc b).mpr ⟨.single he, hr⟩
    simp only [List.nil_append, List.mem_singleton] at hb
    subst hb
    exact hnt he

/-- Popping the finished component establishes the postcondition of the call. -/
theorem popped_post {g : Graph} {v : Nat} {s0 t : TState} {seg : List Nat} {cs : List (List Nat)}
    (hL : LoopInv g v s0 t (fun d => Edge g v d)) (hstk : t.stack = seg ++ v :: s0.stack)
    (hseg : ∀ w ∈ seg, indexed s0 w = false ∧ w ≠ v ∧ Reach g v w ∧ lw t w < ix t w ∧
      lw t v ≤ lw t w ∧ ∀ y ∈ t.stack, Edge g w y → lw t v ≤ ix t y)
    (heq : lw t v = ix t v)
    (hcs : (cs = t.comps ++ [seg ++ [v]] ∧ nontrivial g (seg ++ [v]) = true) ∨
           (cs = t.comps ∧ nontrivial g (seg ++ [v]) = false)) :
    Post g v s0 (popped t s0.stack cs) := by
  have F := popFacts hL hstk hseg heq
  have hsub : ∀ y ∈ s0.stack, y ∈ t.stack := fun y hy => by simp [hstk, hy]
  have hcompstk : ∀ y ∈ seg ++ [v], y ∈ t.stack := fun y hy => by
    simp only [List.mem_append, List.mem_singleton] at hy
    rw [hstk]; simp only [List.mem_append, List.mem_cons]
    rcases hy with hy | hy
    · exact .inl hy
    · exact .inr (.inl hy)
  have hsplit : ∀ y ∈ t.stack, y ∈ seg ++ [v] ∨ y ∈ s0.stack := fun y hy => by
    rw [hstk] at hy
    simp only [List.mem_append, List.mem_cons] at hy
    simp only [List.mem_append, List.mem_singleton]
    rcases hy with hy | hy | hy
    · exact .inl (.inl hy)
    · exact .inl (.inr hy)
    · exact .inr hy
  have hcompold : ∀ y ∈ seg ++ [v], y ∉ s0.stack := fun y hy => by
    simp only [List.mem_append, List.mem_singleton] at hy
    rcases hy with hy | rfl
    · exact F.disj y hy
    · exact F.vold
  have hsccC : IsSCC g (seg ++ [v]) := by
    refine ⟨by simp, fun a ha b => ?_⟩
    have hma := (F.scc a).mp ha
    rw [F.scc b]
    exact ⟨fun h => hma.symm.trans h, fun h => hma.trans h⟩
  have hinv : Inv g (popped t s0.stack cs) := by
    refine { onst := rfl, sorted := ?_, stkIdx := ?_, idxLt := hL.inv.idxLt, low := ?_,
             doneClosed := ?_, compsOk := ?_, compsDisj := ?_, compsAll := ?_, noOof := hL.inv.noOof }
    · have := hL.inv.sorted
      rw [hstk] at this
      exact (List.pairwise_cons.mp (List.pairwise_append.mp this).2.1).2
    · exact fun w hw => hL.inv.stkIdx w (hsub w hw)
    · intro w hw
      obtain ⟨h1, y, hy1, hy2, hy3⟩ := hL.inv.low w (hsub w hw)
      refine ⟨h1, y, ?_, hy2, hy3⟩
      have hwlt := F.lt w hw
      rcases hsplit y hy1 with hy | hy
      · simp only [List.mem_append, List.mem_singleton] at hy
        rcases hy with hy | rfl
        · have := F.gt y hy
          have : getN t.idx y = getN t.low w := hy2
          have : getN t.low w ≤ getN t.idx w := h1
          omega
        · have : getN t.idx y = getN t.low w := hy2
          have : getN t.low w ≤ getN t.idx w := h1
          omega
      · exact hy
    · intro w d hw hws he
      by_cases hwt : w ∈ t.stack
      · rcases hsplit w hwt with hc | hc
        · exact F.edges w hc d he
        · exact absurd hc hws
      · obtain ⟨e1, e2⟩ := hL.inv.doneClosed w d hw hwt he
        exact ⟨e1, fun h => e2 (hsub d h)⟩
    · intro C hC
      have hold : C ∈ t.comps → (∀ a ∈ C, indexed t a = true ∧ a ∉ s0.stack) ∧ IsSCC g C ∧ C.Nodup ∧
          (∀ a ∈ C, cyclic g a) := by
        intro hC
        obtain ⟨h1, h2, h3, h4⟩ := hL.inv.compsOk C hC
        exact ⟨fun a ha => ⟨(h1 a ha).1, fun h => (h1 a ha).2 (hsub a h)⟩, h2, h3, h4⟩
      rcases hcs with ⟨rfl, hnt⟩ | ⟨rfl, _⟩
      · rcases List.mem_append.mp hC with hC | hC
        · exact hold hC
        · simp only [List.mem_singleton] at hC
          subst hC
          exact ⟨fun a ha => ⟨hL.inv.stkIdx a (hcompstk a ha), hcompold a ha⟩, hsccC, F.nodup,
            nontrivial_cyclic F.nodup F.scc hnt⟩
      · exact hold hC
    · rcases hcs with ⟨rfl, _⟩ | ⟨rfl, _⟩
      · show (t.comps ++ [seg ++ [v]]).Pairwise _
        rw [List.pairwise_append]
        refine ⟨hL.inv.compsDisj, by simp, ?_⟩
        intro C hC D hD a ha
        simp only [List.mem_singleton] at hD
        subst hD
        intro had
        exact ((hL.inv.compsOk C hC).1 a ha).2 (hcompstk a had)
      · exact hL.inv.compsDisj
    · intro w hw hws hc
      show ∃ C ∈ cs, w ∈ C
      by_cases hwt : w ∈ t.stack
      · rcases hsplit w hwt with hcomp | hcomp
        · rcases hcs with ⟨rfl, _⟩ | ⟨rfl, hnt⟩
          · exact ⟨seg ++ [v], by simp, hcomp⟩
          · exact absurd hc (trivial_not_cyclic F.scc hnt w hcomp)
        · exact absurd hcomp hws
      · obtain ⟨C, hC, hwC⟩ := hL.inv.compsAll w hw hwt hc
        rcases hcs with ⟨rfl, _⟩ | ⟨rfl, _⟩
        · exact ⟨C, by simp [hC], hwC⟩
        · exact ⟨C, hC, hwC⟩
  refine { inv := hinv, old := hL.old, vidx := hL.vidx, succIdx := ?_, stk := ?_, vlow := .inr heq }
  · intro w d hw hws he
    by_cases hwv : w = v
    · subst hwv; exact (hL.proc d he).1
    · exact hL.succIdx w d hw hws hwv he
  · exact ⟨[], rfl, by simp⟩

end Emboss.Deps
