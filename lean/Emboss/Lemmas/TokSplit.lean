/-
C10: `splitLines` (model of `str.splitlines`) loses nothing but line terminators, and no
line contains one.
-/
import Emboss.Model.Tok
namespace Emboss.Tok

def isBreakChar (c : Char) : Bool := isLineBreakNat c.toNat

theorem cr_is_break {c : Char} (h : (c.toNat == 13) = true) : isBreakChar c = true := by
  have : c.toNat = 13 := by simpa using h
  simp [isBreakChar, isLineBreakNat, this]

theorem lf_is_break {c : Char} (h : (c.toNat == 10) = true) : isBreakChar c = true := by
  have : c.toNat = 10 := by simpa using h
  simp [isBreakChar, isLineBreakNat, this]

theorem splitLinesAux_nil (cur : List Char) :
    splitLinesAux cur [] = if cur.isEmpty then [] else [cur.reverse] := by rw [splitLinesAux]

theorem splitLinesAux_cons (cur : List Char) (c : Char) (rest : List Char) :
    splitLinesAux cur (c :: rest) =
      if c.toNat == 13 then
        match rest with
        | d :: rest2 => if d.toNat == 10 then cur.reverse :: splitLinesAux [] rest2
                        else cur.reverse :: splitLinesAux [] (d :: rest2)
        | [] => [cur.reverse]
      else if isLineBreakNat c.toNat then cur.reverse :: splitLinesAux [] rest
      else splitLinesAux (c :: cur) rest := by
  conv => lhs; rw [splitLinesAux.eq_def]
  rfl

theorem splitLinesAux_flatten : ∀ (t cur : List Char),
    (splitLinesAux cur t).flatten = cur.reverse ++ t.filter (fun c => !isBreakChar c) := by
  intro t
  induction t using List.rec with
  | nil =>
    intro cur
    rw [splitLinesAux_nil]
    cases cur with
    | nil => simp
    | cons a cur => simp
  | cons c rest ih =>
    intro cur
    rw [splitLinesAux_cons]
    by_cases hcr : (c.toNat == 13) = true
    · have hb := cr_is_break hcr
      simp only [hcr, if_true, List.filter_cons, hb, Bool.not_true, Bool.false_eq_true, if_false]
      cases rest with
      | nil => simp
      | cons d rest2 =>
        simp only
        by_cases hlf : (d.toNat == 10) = true
        · have hb2 := lf_is_break hlf
          simp only [hlf, if_true, List.flatten_cons, List.filter_cons, hb2, Bool.not_true,
            Bool.false_eq_true, if_false]
          have := ih []
          rw [splitLinesAux_cons] at this
          -- `ih` is about `d :: rest2`; unfold one step: `d` is a break
          have hd13 : (d.toNat == 13) = false := by
            have : d.toNat = 10 := by simpa using hlf
            simp [this]
          have hbb : isLineBreakNat d.toNat = true := hb2
          simp only [hd13, Bool.false_eq_true, if_false, hbb, if_true, List.flatten_cons, List.reverse_nil,
            List.nil_append, List.filter_cons, hb2, Bool.not_true] at this
          simpa using this
        · simp only [hlf, Bool.false_eq_true, if_false, List.flatten_cons]
          rw [ih []]
          simp
    · simp only [hcr, Bool.false_eq_true, if_false]
      by_cases hb : isLineBreakNat c.toNat = true
      · have hb' : isBreakChar c = true := hb
        simp only [hb, if_true, List.flatten_cons, List.filter_cons, hb', Bool.not_true, Bool.false_eq_true,
          if_false]
        rw [ih []]; simp
      · have hb' : isBreakChar c = false := by simpa [isBreakChar] using hb
        simp only [hb, Bool.false_eq_true, if_false, List.filter_cons, hb', Bool.not_false, if_true]
        rw [ih (c :: cur)]; simp

/-- Concatenating the lines gives the text with exactly the line-boundary characters
(`\n \r \v \f \x1c \x1d \x1e \x85 U+2028 U+2029`) removed: nothing else is lost or reordered. -/
theorem splitLines_flatten (text : List Char) :
    (splitLines text).flatten = text.filter (fun c => !isBreakChar c) := by
  simpa [splitLines] using splitLinesAux_flatten text []

theorem splitLinesAux_no_break : ∀ (t cur : List Char), (∀ c ∈ cur, isBreakChar c = false) →
    ∀ l ∈ splitLinesAux cur t, ∀ c ∈ l, isBreakChar c = false := by
  intro t
  induction t using List.rec with
  | nil =>
    intro cur hcur l hl c hc
    rw [splitLinesAux_nil] at hl
    split at hl
    · simp at hl
    · simp only [List.mem_singleton] at hl
      subst hl
      exact hcur c (by simpa using hc)
  | cons x rest ih =>
    intro cur hcur l hl c hc
    have hrev : ∀ c ∈ cur.reverse, isBreakChar c = false := fun c hc => hcur c (by simpa using hc)
    rw [splitLinesAux_cons] at hl
    split at hl
    · cases rest with
      | nil =>
        simp only [List.mem_singleton] at hl
        subst hl; exact hrev c hc
      | cons d rest2 =>
        simp only at hl
        split at hl
        · rename_i hlf
          rcases List.mem_cons.mp hl with rfl | hl
          · exact hrev c hc
          · -- the tail of the recursion on `d :: rest2`, one step unfolded
            have := ih [] (by simp) l
            rw [splitLinesAux_cons] at this
            have hd13 : (d.toNat == 13) = false := by
              have : d.toNat = 10 := by simpa using hlf
              simp [this]
            have hbb : isLineBreakNat d.toNat = true := lf_is_break hlf
            simp only [hd13, Bool.false_eq_true, if_false, hbb, if_true, List.reverse_nil, List.mem_cons] at this
            exact this (.inr hl) c hc
        · rcases List.mem_cons.mp hl with rfl | hl
          · exact hrev c hc
          · exact ih [] (by simp) l hl c hc
    · split at hl
      · rcases List.mem_cons.mp hl with rfl | hl
        · exact hrev c hc
        · exact ih [] (by simp) l hl c hc
      · rename_i hnb
        refine ih (x :: cur) ?_ l hl c hc
        intro c' hc'
        rcases List.mem_cons.mp hc' with rfl | hc'
        · simpa [isBreakChar] using hnb
        · exact hcur c' hc'

/-- No line contains a line-boundary character. -/
theorem splitLines_no_break (text : List Char) :
    ∀ l ∈ splitLines text, ∀ c ∈ l, isBreakChar c = false :=
  splitLinesAux_no_break text [] (by simp)

end Emboss.Tok
