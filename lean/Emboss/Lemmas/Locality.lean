/-
Locality: a complete view whose size covers its present fields reports exactly what the view over
its first `size` bytes reports (helper lemmas for `C01_locality_partial`, `C20_copy_post_ok_partial`).
-/
import Emboss.Lemmas.OkMonoArr
import Emboss.Model.ViewObs
namespace Emboss.View

/-- two views of one definition on which an oracle answers identically -/
structure Agree (o : Oracle) (w0 w : SView) : Prop where
  read : ∀ p, o.read w0 p = o.read w p
  has : ∀ p, o.has w0 p = o.has w p
  okAt : ∀ p, o.okAt w0 p = o.okAt w p

theorem param_eq {w0 w : SView} (hsd : w0.sd = w.sd) (hpar : w0.params = w.params) :
    w0.param = w.param := by
  funext x
  unfold SView.param
  rw [hsd, hpar]

theorem envOf_eq {o : Oracle} {w0 w : SView} (hsd : w0.sd = w.sd) (hpar : w0.params = w.params)
    (ha : Agree o w0 w) (lv : Option Val) : envOf o w0 lv = envOf o w lv := by
  unfold envOf
  have h1 : o.read w0 = o.read w := funext ha.read
  have h2 : o.has w0 = o.has w := funext ha.has
  rw [h1, h2, param_eq hsd hpar]

theorem typeOk_eq {m : Module} {o : Oracle} {w0 w : SView} (hsd : w0.sd = w.sd)
    (henv : ∀ lv, envOf o w0 lv = envOf o w lv) (bo : ByteOrder) :
    ∀ (ty : PType) (st : Storage), typeOk o m w0 bo ty st = typeOk o m w bo ty st
  | .scalar k bits req, st => by
    have he : envOf o w0 = envOf o w := funext henv
    unfold typeOk leafRead valueIsOk
    rw [he, hsd]
  | .struct name bits args, st => by
    have he : envOf o w0 = envOf o w := funext henv
    unfold typeOk
    rw [he, hsd]
  | .array e es, st => by
    simp only [typeOk]
    have : typeOk o m w0 bo e = typeOk o m w bo e := funext (typeOk_eq hsd henv bo e)
    rw [this]

theorem argsKnown_eq {e1 e2 : Env} (h : e1 = e2) (ty : PType) : argsKnown e1 ty = argsKnown e2 ty := by
  rw [h]

/-- one step preserves agreement, given agreement of the accessors' storages -/
theorem step_agree {m : Module} {o : Oracle} {w0 w : SView} (hsd : w0.sd = w.sd)
    (hpar : w0.params = w.params) (ha : Agree o w0 w)
    (hphys : ∀ (x : String) (f : Field) (start size : Expr) (ty : PType) (bo : ByteOrder),
      w.sd.field x = some f → f.kind = .phys start size ty bo →
      physStorage o w0 f start size = physStorage o w f start size)
    (hcomp : ∀ sz : Int, o.read w [w.sd.sizeField] = some (.int sz) →
      (w0.st.ok && decide ((w0.st.size : Int) ≥ sz)) = (w.st.ok && decide ((w.st.size : Int) ≥ sz))) :
    Agree (step m o) w0 w := by
  have henv := envOf_eq hsd hpar ha
  have he : envOf o w0 = envOf o w := funext henv
  have hhas : ∀ f, hasField o w0 f = hasField o w f := fun f => by unfold hasField; rw [henv]
  have hvirt : ∀ value req, virtRead o w0 value req = virtRead o w value req := fun value req => by
    unfold virtRead valueIsOk; rw [he]
  have hleaf : ∀ k bits req st, leafRead o w0 k bits req st = leafRead o w k bits req st :=
    fun k bits req st => by unfold leafRead valueIsOk; rw [he]
  have hsub : ∀ (x : String) (f : Field) (start size : Expr) (name : String) (bits : Nat) (args : Exprs)
      (bo : ByteOrder), w.sd.field x = some f → f.kind = .phys start size (.struct name bits args) bo →
      subView o m w0 f start size name bits args bo = subView o m w f start size name bits args bo := by
    intro x f start size name bits args bo hf hk
    simp only [subView, henv, hphys x f start size _ bo hf hk, hsd]
  refine ⟨?_, ?_, ?_⟩
  · intro p
    cases p with
    | nil => rfl
    | cons x rest =>
      simp only [step]
      rw [hsd]
      cases hf : w.sd.field x with
      | none => rfl
      | some f =>
        simp only
        cases hk : f.kind with
        | virt value req => cases rest <;> simp only [hvirt]
        | alias target => simp only [hhas, ha.read]
        | phys start size ty bo =>
          cases ty with
          | array e es => cases rest <;> rfl
          | scalar k bits req =>
            cases rest with
            | cons y ys => rfl
            | nil => simp only [hphys x f start size _ bo hf hk, hleaf]
          | struct name bits args =>
            cases rest with
            | nil => rfl
            | cons y ys => simp only [hsub x f start size name bits args bo hf hk]
  · intro p
    cases p with
    | nil => rfl
    | cons x rest =>
      simp only [step]
      rw [hsd]
      cases hf : w.sd.field x with
      | none => rfl
      | some f =>
        simp only
        cases rest with
        | nil => exact hhas f
        | cons y ys =>
          simp only
          cases hk : f.kind with
          | virt value req => rfl
          | alias target => simp only [hhas, ha.has]
          | phys start size ty bo =>
            cases ty with
            | array e es => rfl
            | scalar k bits req => rfl
            | struct name bits args => simp only [hsub x f start size name bits args bo hf hk]
  · intro p
    cases p with
    | nil =>
      simp only [step]
      have h1 : o.has w0 = o.has w := funext ha.has
      have h2 : o.okAt w0 = o.okAt w := funext ha.okAt
      have h3 : o.read w0 = o.read w := funext ha.read
      rw [hsd, hpar, he, h1, h2, h3]
      cases hr : o.read w [w.sd.sizeField] with
      | none => rfl
      | some v =>
        cases v with
        | bool b => rfl
        | int sz => simp only [hcomp sz hr]
    | cons x rest =>
      simp only [step]
      rw [hsd]
      cases hf : w.sd.field x with
      | none => rfl
      | some f =>
        simp only
        cases hk : f.kind with
        | virt value req => cases rest <;> simp only [hvirt]
        | alias target => simp only [hhas, ha.okAt]
        | phys start size ty bo =>
          cases ty with
          | struct name bits args => simp only [hsub x f start size name bits args bo hf hk]
          | scalar k bits req =>
            cases rest with
            | cons y ys => rfl
            | nil =>
              simp only [hphys x f start size _ bo hf hk, henv]
              cases physStorage o w f start size with
              | none => rfl
              | some st => simp only [typeOk_eq hsd henv bo _ st]
          | array e es =>
            cases rest with
            | cons y ys => rfl
            | nil =>
              simp only [hphys x f start size _ bo hf hk, henv]
              cases physStorage o w f start size with
              | none => rfl
              | some st => simp only [typeOk_eq hsd henv bo _ st]

end Emboss.View

namespace Emboss.View

theorem bottom_agree (w0 w : SView) : Agree Oracle.bottom w0 w :=
  ⟨fun _ => rfl, fun _ => rfl, fun _ => rfl⟩

/-- A view `w` that knows its size `sz`, and the same view over storage `w0.st ⊑ w.st` that still
holds at least `sz` bytes, agree on everything (values, presence, `Ok()` at every path). -/
theorem tight_agree {m : Module} (hm : moduleWF m = true) {w0 w : SView} (hsd : w0.sd = w.sd)
    (hpar : w0.params = w.params) (hst : StLe w0.st w.st) (hok0 : w0.st.ok = true)
    (hwf : structWF m w.sd = true) (hcov : SizeCovers m w.sd)
    (K : Nat) (sz : Int) (hsz : (G m (K + 1)).read w [w.sd.sizeField] = some (.int sz))
    (hlen0 : (w0.st.size : Int) ≥ sz) :
    ∀ k, k ≤ K + 1 → Agree (G m k) w0 w := by
  intro k
  induction k with
  | zero => intro _; exact bottom_agree w0 w
  | succ k ih =>
    intro hk
    have ha := ih (by omega)
    have henv := envOf_eq hsd hpar ha
    show Agree (step m (G m k)) w0 w
    apply step_agree hsd hpar ha
    · -- accessor storages
      intro x f start size ty bo hf hkind
      unfold physStorage
      have hh : hasField (G m k) w0 f = hasField (G m k) w f := by unfold hasField; rw [henv]
      rw [hh, henv]
      cases h1 : hasField (G m k) w f with
      | none => rfl
      | some b =>
        cases b with
        | false => rfl
        | true =>
          cases h2 : evalInt (envOf (G m k) w none) size with
          | none => rfl
          | some s =>
            cases h3 : evalInt (envOf (G m k) w none) start with
            | none => rfl
            | some off =>
              simp only
              by_cases hc : 0 ≤ s ∧ 0 ≤ off
              · rw [if_pos hc, if_pos hc]
                have hmem : f ∈ w.sd.fields := by
                  unfold StructDef.field at hf; exact List.mem_of_find?_eq_some hf
                have hle := hcov K w sz rfl hsz f start size ty bo hmem hkind k (by omega) off s h1 h3 h2
                  hc.2 hc.1
                congr 1
                exact StLe.sub_eq hst hok0 _ _ (by omega)
              · rw [if_neg hc, if_neg hc]
    · -- IsComplete
      intro sz' hr
      have hkle : ∃ d, K + 1 = k + d := ⟨K + 1 - k, by omega⟩
      obtain ⟨d, hd⟩ := hkle
      have hle := G_le hm k d
      have := (hle w w (VLe.refl w) hwf).1 _ _ hr
      rw [← hd, hsz] at this
      have hsz' : sz' = sz := by
        injection this with h1; injection h1 with h2; exact h2.symm
      subst hsz'
      have := StLe.ok_size hst hok0
      simp only [hok0, this.1, Bool.true_and, decide_eq_decide]
      constructor <;> intro _ <;> omega

/-- storage of a root view over a prefix -/
theorem rootView_take_le (sd : StructDef) (ps : List Val) (b : List Nat) (n : Nat) :
    StLe (rootView sd ps (b.take n)).st (rootView sd ps b).st := by
  simp only [rootView, StLe]
  exact List.take_prefix n b

end Emboss.View

namespace Emboss.View

/-- under the hypotheses of `tight_agree` the accessors hand out identical storage -/
theorem tight_phys {m : Module} (hm : moduleWF m = true) {w0 w : SView} (hsd : w0.sd = w.sd)
    (hpar : w0.params = w.params) (hst : StLe w0.st w.st) (hok0 : w0.st.ok = true)
    (hwf : structWF m w.sd = true) (hcov : SizeCovers m w.sd)
    (K : Nat) (sz : Int) (hsz : (G m (K + 1)).read w [w.sd.sizeField] = some (.int sz))
    (hlen0 : (w0.st.size : Int) ≥ sz) (k : Nat) (hk : k ≤ K)
    (f : Field) (start size : Expr) (ty : PType) (bo : ByteOrder)
    (hf : f ∈ w.sd.fields) (hkind : f.kind = .phys start size ty bo) :
    physStorage (G m k) w0 f start size = physStorage (G m k) w f start size := by
  have ha := tight_agree hm hsd hpar hst hok0 hwf hcov K sz hsz hlen0 k (by omega)
  have henv := envOf_eq hsd hpar ha
  unfold physStorage
  have hh : hasField (G m k) w0 f = hasField (G m k) w f := by unfold hasField; rw [henv]
  rw [hh, henv]
  cases h1 : hasField (G m k) w f with
  | none => rfl
  | some b =>
    cases b with
    | false => rfl
    | true =>
      cases h2 : evalInt (envOf (G m k) w none) size with
      | none => rfl
      | some s =>
        cases h3 : evalInt (envOf (G m k) w none) start with
        | none => rfl
        | some off =>
          simp only
          by_cases hc : 0 ≤ s ∧ 0 ≤ off
          · rw [if_pos hc, if_pos hc]
            have hle := hcov K w sz rfl hsz f start size ty bo hf hkind k hk off s h1 h3 h2 hc.2 hc.1
            congr 1
            exact StLe.sub_eq hst hok0 _ _ (by omega)
          · rw [if_neg hc, if_neg hc]

theorem typeEquals_congr_left {m : Module} {o : Oracle} (eqView : SView → SView → Bool) {w0 w : SView}
    (hsd : w0.sd = w.sd) (he : envOf o w0 = envOf o w) (wb : SView) (bo : ByteOrder) :
    ∀ (ty : PType) (sa sb : Storage),
      typeEquals o m eqView w0 wb bo ty sa sb = typeEquals o m eqView w wb bo ty sa sb
  | .scalar k bits req, sa, sb => by
    unfold typeEquals leafRead valueIsOk
    rw [he, hsd]
  | .struct name bits args, sa, sb => by
    unfold typeEquals
    rw [he, hsd]
  | .array e es, sa, sb => by
    unfold typeEquals
    have : (fun i => typeEquals o m eqView w0 wb bo e (sa.sub (es * i) es) (sb.sub (es * i) es)) =
        (fun i => typeEquals o m eqView w wb bo e (sa.sub (es * i) es) (sb.sub (es * i) es)) := by
      funext i
      exact typeEquals_congr_left eqView hsd he wb bo e _ _
    rw [this]

theorem all_congr_mem {α : Type} {p q : α → Bool} : ∀ (l : List α), (∀ a ∈ l, p a = q a) → l.all p = l.all q
  | [], _ => rfl
  | a :: l, h => by
    simp only [List.all_cons]
    rw [h a List.mem_cons_self, all_congr_mem l (fun b hb => h b (List.mem_cons_of_mem _ hb))]

/-- under the hypotheses of `tight_agree`, `Equals` against any third view cannot tell the two
views apart -/
theorem tight_equals {m : Module} (hm : moduleWF m = true) {w0 w : SView} (hsd : w0.sd = w.sd)
    (hpar : w0.params = w.params) (hst : StLe w0.st w.st) (hok0 : w0.st.ok = true)
    (hwf : structWF m w.sd = true) (hcov : SizeCovers m w.sd)
    (K : Nat) (sz : Int) (hsz : (G m (K + 1)).read w [w.sd.sizeField] = some (.int sz))
    (hlen0 : (w0.st.size : Int) ≥ sz) (k : Nat) (hk : k ≤ K) (wx : SView) :
    ∀ fuel, viewEquals (G m k) m fuel w0 wx = viewEquals (G m k) m fuel w wx
  | 0 => rfl
  | fuel + 1 => by
    have ha := tight_agree hm hsd hpar hst hok0 hwf hcov K sz hsz hlen0 k (by omega)
    have henv := envOf_eq hsd hpar ha
    have he : envOf (G m k) w0 = envOf (G m k) w := funext henv
    simp only [viewEquals]
    rw [hsd, hpar]
    congr 1
    apply all_congr_mem
    intro f hf
    unfold fieldEquals
    cases hkind : f.kind with
    | virt v r => rfl
    | alias t => rfl
    | phys start size ty bo =>
      simp only
      have hh : hasField (G m k) w0 f = hasField (G m k) w f := by unfold hasField; rw [henv]
      rw [hh, henv, tight_phys hm hsd hpar hst hok0 hwf hcov K sz hsz hlen0 k hk f start size ty bo hf hkind]
      cases hasField (G m k) w f with
      | none => rfl
      | some ha' =>
        cases hasField (G m k) wx f with
        | none => rfl
        | some hb' =>
          simp only
          congr 1
          congr 1
          cases (if argsKnown (envOf (G m k) w none) ty = true then physStorage (G m k) w f start size
              else none) with
          | none => rfl
          | some sa =>
            cases (if argsKnown (envOf (G m k) wx none) ty = true then physStorage (G m k) wx f start size
                else none) with
            | none => rfl
            | some sb => exact typeEquals_congr_left _ hsd he wx bo ty sa sb

end Emboss.View
