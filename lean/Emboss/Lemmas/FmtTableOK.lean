/-
C11 helper lemmas, part 8: the kernel evaluation of the table obligations over the
regenerated registry (kept in a file of its own: it is re-elaborated whenever
Generated/FmtTable.lean changes, and takes ≈ 20 s).
-/
import Emboss.Lemmas.FmtTable
import Emboss.Lemmas.FmtTree
namespace Emboss.Fmt
open Emboss.Generated.FmtTable

/-- Statement and meaning: `C11_table_ok` in Properties/C11.lean. -/
theorem table_ok :
    tableTyped formatters = true ∧ formatters.map prodOf = grammar ∧ kindOf startSymbol = .str :=
  ⟨tableTypedN_sound symbols formattersN formatters (by decide +kernel) (by decide +kernel),
   by decide +kernel, by decide +kernel⟩

end Emboss.Fmt
