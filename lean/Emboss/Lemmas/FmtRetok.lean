/-
C11 helper lemmas (round 3): the formatter's renderer (`_render_rows_to_text`, model
Emboss/Model/Fmt.lean) composed with the tokenizer (model Emboss/Model/Tok.lean, C10) —
one object.  Uses C10's join lemmas (`tokLine_blank_prefix`, `tokLine_concat_blank`).

`LineToks s L`: the text `s` (the content of one rendered row: no indentation, no trailing
blank) is tokenized to the leaves `L` (symbol, text).  `expectLeaves`: the token sequence
(as leaves) a list of rows with given indentation levels and leaves must tokenize to —
Indent / Dedent / end-of-line tokens determined by the block structure only.
-/
import Emboss.Spec.FmtRetok
import Emboss.Lemmas.TokBlankJoin
import Emboss.Lemmas.TokSplit
import Emboss.Lemmas.FmtIdem
import Emboss.Lemmas.FmtBlank
namespace Emboss.FmtTok
open Emboss.Tok Emboss.Generated

theorem map_leafOf_shift (k : Nat) (ts : List Token) :
    (ts.map (Token.shift k)).map leafOf = ts.map leafOf := by
  simp only [List.map_map]; rfl

theorem isPySpace_eq (c : Char) : Fmt.isPySpace c = isSpaceChar c := rfl

/-- The content `s` of a rendered line tokenizes to the leaves `L`: it neither starts nor
ends with a blank, contains no line terminator, and `_tokenize_line` cuts it into tokens
with these symbols and texts (on any line number). -/
structure LineToks (s : List Char) (L : List Leaf) : Prop where
  head : ∀ y, s.head? = some y → isSpaceChar y = false
  last : ∀ y, s.getLast? = some y → isSpaceChar y = false
  nobreak : ∀ c ∈ s, isBreakChar c = false
  toks : ∀ ln, ∃ ts, tokLine tokTable.pats ln s.length s 0 = .ok ts ∧ ts.map leafOf = L

theorem LineToks.nil : LineToks [] [] :=
  ⟨(by intro y h; cases h), (by intro y h; cases h), (by intro c h; cases h), fun _ => ⟨[], rfl, rfl⟩⟩

/-! ### One line -/

theorem space_blank : isSpaceChar ' ' = true := by decide

theorem spaces_all_blank (n : Nat) : (Fmt.spaces n).all isSpaceChar = true := by
  simp only [Fmt.spaces, List.all_replicate, space_blank]
  simp

theorem spaces_succ (n : Nat) : Fmt.spaces (n + 1) = ' ' :: Fmt.spaces n := by
  simp [Fmt.spaces, List.replicate_succ]

theorem tokLine_indented (ln n : Nat) {s : List Char} {ts : List Token}
    (hs : ∀ y, s.head? = some y → isSpaceChar y = false)
    (h : tokLine tokTable.pats ln s.length s 0 = .ok ts) :
    tokLine tokTable.pats ln (Fmt.spaces n ++ s).length (Fmt.spaces n ++ s) 0 =
      .ok (ts.map (Token.shift n)) := by
  cases n with
  | zero =>
    have : ts.map (Token.shift 0) = ts := by
      rw [List.map_congr_left (fun t _ => Token.shift_zero t)]; simp
    simpa [Fmt.spaces, this] using h
  | succ m =>
    have hb : (' ' :: Fmt.spaces m).all isSpaceChar = true := by
      simp only [List.all_cons, space_blank, spaces_all_blank, Bool.and_self]
    have := (tokLine_blank_prefix ln (c := ' ') (ws := Fmt.spaces m) (b := s) hb hs).1 ts h
    have hl : (' ' :: Fmt.spaces m).length = m + 1 := by simp [Fmt.spaces]
    rw [hl] at this
    rw [spaces_succ]
    exact this

theorem leadingWs_indented (n : Nat) {s : List Char} (hne : s ≠ [])
    (hs : ∀ y, s.head? = some y → isSpaceChar y = false) :
    leadingWs (Fmt.spaces n ++ s) = Fmt.spaces n := by
  induction n with
  | zero =>
    cases s with
    | nil => exact absurd rfl hne
    | cons y t =>
      simp only [Fmt.spaces, List.replicate_zero, List.nil_append, leadingWs, List.takeWhile_cons,
        hs y rfl, Bool.false_eq_true, if_false]
  | succ m ih =>
    rw [spaces_succ]
    simp only [leadingWs, List.cons_append, List.takeWhile_cons, space_blank, if_true] at ih ⊢
    rw [ih]

/-! ### The indentation stack as a list of levels -/

def stackOf (iw top : Nat) (below : List Nat) : IStack :=
  ⟨Fmt.spaces (iw * top), below.map (fun j => Fmt.spaces (iw * j))⟩

theorem spaces_inj {a b : Nat} : Fmt.spaces a = Fmt.spaces b ↔ a = b := by
  constructor
  · intro h
    have := congrArg List.length h
    simpa [Fmt.spaces] using this
  · intro h; rw [h]

theorem level_inj {iw a b : Nat} (hiw : 0 < iw) : Fmt.spaces (iw * a) = Fmt.spaces (iw * b) ↔ a = b := by
  rw [spaces_inj]
  constructor
  · intro h; exact Nat.eq_of_mul_eq_mul_left hiw h
  · intro h; rw [h]

theorem dedentTo_levels (iw : Nat) (hiw : 0 < iw) (j : Nat) : ∀ (below : List Nat) (k : Nat),
    dedentTo (Fmt.spaces (iw * j)) (below.map (fun t => Fmt.spaces (iw * t))) k =
      (dedentLv j below k).map (fun r => (r.1, stackOf iw r.2.1 r.2.2)) := by
  intro below
  induction below with
  | nil => intro k; rfl
  | cons t below ih =>
    intro k
    simp only [List.map_cons, dedentTo, dedentLv, level_inj hiw]
    by_cases h : j = t
    · simp only [h, if_true, Option.map_some]; rfl
    · simp only [h, if_false]; exact ih (k + 1)

theorem spaces_prefix {a b : Nat} : (Fmt.spaces a).isPrefixOf (Fmt.spaces b) = decide (a ≤ b) := by
  by_cases h : a ≤ b
  · simp only [h, decide_true, List.isPrefixOf_iff_prefix]
    refine ⟨Fmt.spaces (b - a), ?_⟩
    simp only [Fmt.spaces, List.replicate_append_replicate]
    congr 1; omega
  · simp only [h, decide_false]
    cases hp : (Fmt.spaces a).isPrefixOf (Fmt.spaces b) with
    | false => rfl
    | true =>
      rw [List.isPrefixOf_iff_prefix] at hp
      have := hp.length_le
      simp only [Fmt.spaces, List.length_replicate] at this
      exact absurd this h

theorem all_comment_leaves (ts : List Token) :
    ts.all (fun t => t.sym == "Comment") = allComment (ts.map leafOf) := by
  simp only [allComment, List.all_map]; rfl

/-- What `lineStep` does with one rendered row. -/
theorem lineStep_row (iw : Nat) (hiw : 0 < iw) (ln j top : Nat) (below : List Nat)
    {s : List Char} {L : List Leaf} (h : LineToks s L) :
    ∃ lts : List Token, lts.map leafOf = L ∧
      lineStep tokTable.pats ln (lineText iw j s) (stackOf iw top below) =
        if allComment L then
          .ok (lts ++ [newlineTok ln (lineText iw j s).length]) (stackOf iw top below)
        else if j = top then
          .ok (lts ++ [newlineTok ln (lineText iw j s).length]) (stackOf iw top below)
        else if top < j then
          .ok (⟨"Indent", Fmt.spaces (iw * (j - top)), ln, (Fmt.spaces (iw * top)).length + 1, ln,
                (Fmt.spaces (iw * j)).length + 1⟩
                :: (lts ++ [newlineTok ln (lineText iw j s).length])) (stackOf iw j (top :: below))
        else
          match dedentLv j below 1 with
          | none => .err "Bad indentation" ln 1 ln ((Fmt.spaces (iw * j)).length + 1)
          | some (k, t', b') =>
            .ok (List.replicate k (dedentTok ln ((Fmt.spaces (iw * j)).length + 1)) ++
                  (lts ++ [newlineTok ln (lineText iw j s).length])) (stackOf iw t' b') := by
  obtain ⟨ts, hts, hL⟩ := h.toks ln
  by_cases hs : s = []
  · subst hs
    simp only [tokLine] at hts
    cases hts
    simp only [List.map_nil] at hL
    subst hL
    refine ⟨[], rfl, ?_⟩
    simp [lineText, lineStep, tokLine, allComment]
  · refine ⟨ts.map (Token.shift (iw * j)), by rw [map_leafOf_shift, hL], ?_⟩
    have htl := tokLine_indented ln (iw * j) h.head hts
    have hlw := leadingWs_indented (iw * j) hs h.head
    simp only [lineText, hs, if_false]
    simp only [lineStep, htl, hlw]
    rw [all_comment_leaves, map_leafOf_shift, hL]
    by_cases hc : allComment L = true
    · simp only [hc, if_true]
    · simp only [hc, Bool.false_eq_true, if_false]
      simp only [stackOf, level_inj hiw]
      by_cases hj : j = top
      · simp only [hj, if_true]
      · simp only [hj, if_false, spaces_prefix, decide_eq_true_eq]
        by_cases hlt : top < j
        · have hle : iw * top ≤ iw * j := Nat.mul_le_mul_left iw (Nat.le_of_lt hlt)
          simp only [hlt, hle, if_true]
          have : List.drop (Fmt.spaces (iw * top)).length (Fmt.spaces (iw * j)) =
              Fmt.spaces (iw * (j - top)) := by
            simp only [Fmt.spaces, List.length_replicate, List.drop_replicate, Nat.mul_sub]
          rw [this]
          rfl
        · have hnle : ¬ iw * top ≤ iw * j := by
            intro hle
            have := Nat.le_of_mul_le_mul_left hle hiw
            omega
          simp only [hlt, hnle, if_false]
          rw [dedentTo_levels iw hiw]
          cases dedentLv j below 1 with
          | none => rfl
          | some r => rfl

/-! ### A list of rows -/

theorem prepend_ok (em : List Token) (r : TokRes) (toks : List Token) (h : r = .ok toks) :
    r.prepend em = .ok (em ++ toks) := by subst h; rfl

theorem map_leafOf_replicate (k : Nat) (ln c : Nat) :
    (List.replicate k (dedentTok ln c)).map leafOf = List.replicate k dedentLeaf := by
  simp only [List.map_replicate]; rfl

/-- **Rendered rows, tokenized**: rows given by indentation level, content and the leaves
the content tokenizes to. -/
theorem tokLines_rows (iw : Nat) (hiw : 0 < iw) :
    ∀ (rs : List (Nat × List Char × List Leaf)), (∀ x ∈ rs, LineToks x.2.1 x.2.2) →
    ∀ (ln top : Nat) (below : List Nat) (E : List Leaf),
      expectLeaves iw top below (rs.map (fun x => (x.1, x.2.2))) = some E →
      ∃ toks, tokLines tokTable.pats (rs.map (fun x => lineText iw x.1 x.2.1)) ln (stackOf iw top below) =
          .ok toks ∧ toks.map leafOf = E := by
  intro rs
  induction rs with
  | nil =>
    intro _ ln top below E hE
    simp only [List.map_nil, expectLeaves, Option.some.injEq] at hE
    subst hE
    refine ⟨_, rfl, ?_⟩
    simp only [IStack.depth, stackOf, List.length_map, map_leafOf_replicate]
  | cons x rest ih =>
    intro hok ln top below E hE
    obtain ⟨j, s, L⟩ := x
    have hx : LineToks s L := hok (j, s, L) (by simp)
    have hrest : ∀ y ∈ rest, LineToks y.2.1 y.2.2 := fun y hy => hok y (by simp [hy])
    obtain ⟨lts, hlts, hstep⟩ := lineStep_row iw hiw ln j top below hx
    simp only [List.map_cons, expectLeaves] at hE
    simp only [List.map_cons, tokLines, hstep]
    have hnl : ∀ n, leafOf (newlineTok ln n) = nlLeaf := fun _ => rfl
    by_cases hc : allComment L = true
    · simp only [hc, if_true] at hE ⊢
      cases hr : expectLeaves iw top below (rest.map (fun x => (x.1, x.2.2))) with
      | none => simp [hr] at hE
      | some E' =>
        simp only [hr, Option.map_some, Option.some.injEq] at hE
        obtain ⟨toks, ht, hl⟩ := ih hrest (ln + 1) top below E' hr
        refine ⟨_, prepend_ok _ _ _ ht, ?_⟩
        simp only [List.map_append, List.map_cons, List.map_nil, hlts, hnl, hl, ← hE,
          List.append_assoc, List.singleton_append]
    · simp only [hc, Bool.false_eq_true, if_false] at hE ⊢
      by_cases hj : j = top
      · simp only [hj, if_true] at hE ⊢
        cases hr : expectLeaves iw top below (rest.map (fun x => (x.1, x.2.2))) with
        | none => simp [hr] at hE
        | some E' =>
          simp only [hr, Option.map_some, Option.some.injEq] at hE
          obtain ⟨toks, ht, hl⟩ := ih hrest (ln + 1) top below E' hr
          refine ⟨_, prepend_ok _ _ _ ht, ?_⟩
          simp only [List.map_append, List.map_cons, List.map_nil, hlts, hnl, hl, ← hE,
            List.append_assoc, List.singleton_append]
      · simp only [hj, if_false] at hE ⊢
        by_cases hlt : top < j
        · simp only [hlt, if_true] at hE ⊢
          cases hr : expectLeaves iw j (top :: below) (rest.map (fun x => (x.1, x.2.2))) with
          | none => simp [hr] at hE
          | some E' =>
            simp only [hr, Option.map_some, Option.some.injEq] at hE
            obtain ⟨toks, ht, hl⟩ := ih hrest (ln + 1) j (top :: below) E' hr
            refine ⟨_, prepend_ok _ _ _ ht, ?_⟩
            simp only [List.map_append, List.map_cons, List.map_nil, hlts, hnl, hl, ← hE,
              List.append_assoc, List.singleton_append, List.cons_append]
            rfl
        · simp only [hlt, if_false] at hE ⊢
          cases hd : dedentLv j below 1 with
          | none => simp [hd] at hE
          | some r =>
            obtain ⟨k, t', b'⟩ := r
            simp only [hd] at hE ⊢
            cases hr : expectLeaves iw t' b' (rest.map (fun x => (x.1, x.2.2))) with
            | none => simp [hr] at hE
            | some E' =>
              simp only [hr, Option.map_some, Option.some.injEq] at hE
              obtain ⟨toks, ht, hl⟩ := ih hrest (ln + 1) t' b' E' hr
              refine ⟨_, prepend_ok _ _ _ ht, ?_⟩
              simp only [List.map_append, List.map_cons, List.map_nil, hlts, hnl, hl, ← hE,
                List.append_assoc, List.singleton_append, map_leafOf_replicate]

/-! ### `splitLines` of a text made of terminated lines -/

theorem splitLinesAux_line (l : List Char) : ∀ (cur rest : List Char),
    (∀ c ∈ l, isBreakChar c = false) →
    splitLinesAux cur (l ++ '\n' :: rest) = (cur.reverse ++ l) :: splitLinesAux [] rest := by
  induction l with
  | nil =>
    intro cur rest _
    rw [List.nil_append, splitLinesAux_cons]
    simp [isLineBreakNat]
  | cons c l ih =>
    intro cur rest h
    have hc : isBreakChar c = false := h c (by simp)
    have h13 : (c.toNat == 13) = false := by
      cases h13 : (c.toNat == 13) with
      | false => rfl
      | true => rw [cr_is_break h13] at hc; cases hc
    rw [List.cons_append, splitLinesAux_cons]
    simp only [h13, Bool.false_eq_true, if_false]
    simp only [isBreakChar] at hc
    simp only [hc, Bool.false_eq_true, if_false]
    rw [ih (c :: cur) rest (fun y hy => h y (by simp [hy]))]
    simp

theorem splitLines_lines : ∀ (lines : List (List Char)),
    (∀ l ∈ lines, ∀ c ∈ l, isBreakChar c = false) →
    splitLines (lines.map (fun l => l ++ ['\n'])).flatten = lines := by
  intro lines
  induction lines with
  | nil => intro _; simp [splitLines, splitLinesAux_nil]
  | cons l rest ih =>
    intro h
    simp only [splitLines, List.map_cons, List.flatten_cons, List.append_assoc, List.singleton_append] at ih ⊢
    rw [splitLinesAux_line l [] _ (h l (by simp))]
    simp only [List.reverse_nil, List.nil_append, List.cons.injEq, true_and]
    exact ih (fun l' hl' => h l' (by simp [hl']))

/-! ### `_render_rows_to_text` -/

theorem dropWhile_append_ite {α : Type} (p : α → Bool) : ∀ (x y : List α),
    (x ++ y).dropWhile p = if x.dropWhile p = [] then y.dropWhile p else x.dropWhile p ++ y := by
  intro x
  induction x with
  | nil => intro y; simp
  | cons a x ih =>
    intro y
    simp only [List.cons_append, List.dropWhile_cons]
    by_cases h : p a = true
    · simp only [h, if_true]; exact ih y
    · simp [h]

theorem rstrip_spaces_append (n : Nat) (c : List Char) :
    Fmt.rstrip (Fmt.spaces n ++ c) = if Fmt.rstrip c = [] then [] else Fmt.spaces n ++ Fmt.rstrip c := by
  simp only [Fmt.rstrip, List.reverse_append, dropWhile_append_ite, List.reverse_eq_nil_iff]
  by_cases h : c.reverse.dropWhile Fmt.isPySpace = []
  · simp only [h, if_true]
    have : (Fmt.spaces n).reverse.dropWhile Fmt.isPySpace = [] := by
      simp only [Fmt.spaces, List.reverse_replicate]
      induction n with
      | zero => rfl
      | succ m ih => simp only [List.replicate_succ, List.dropWhile_cons]; exact ih
    rw [this]; rfl
  · simp only [h, if_false, List.reverse_append, List.reverse_reverse]

theorem renderRow_lineText (iw : Nat) (r : Fmt.Row) (h : r.columns.length < 2) :
    Fmt.renderRow iw r = some (lineText iw r.indent (rowText r)) := by
  simp only [Fmt.renderRow, h, if_true, rstrip_spaces_append, lineText, rowText]
  congr

theorem renderRows_lines (iw : Nat) : ∀ (rows : List Fmt.Row), (∀ r ∈ rows, r.columns.length < 2) →
    Fmt.renderRows iw rows =
      some ((rows.map (fun r => lineText iw r.indent (rowText r))).map (fun l => l ++ ['\n'])).flatten := by
  intro rows
  induction rows with
  | nil => intro _; rfl
  | cons r rest ih =>
    intro h
    simp only [Fmt.renderRows, renderRow_lineText iw r (h r (by simp)),
      ih (fun r' hr' => h r' (by simp [hr'])), Option.pure_def, Option.bind_eq_bind, Option.bind_some,
      List.map_cons, List.flatten_cons, List.append_assoc, List.singleton_append]

theorem space_not_break : isBreakChar ' ' = false := by decide

theorem lineText_nobreak (iw j : Nat) {s : List Char} (h : ∀ c ∈ s, isBreakChar c = false) :
    ∀ c ∈ lineText iw j s, isBreakChar c = false := by
  intro c hc
  simp only [lineText] at hc
  split at hc
  · cases hc
  · rcases List.mem_append.mp hc with hc | hc
    · simp only [Fmt.spaces, List.mem_replicate] at hc
      rw [hc.2]; exact space_not_break
    · exact h c hc

/-- **The renderer composed with the tokenizer.**  Rows with fewer than two columns (what
`_columnize` leaves) whose contents tokenize to the leaves `x.2`: the rendered text is
tokenized, without error, to the leaves `expectLeaves` computes from the rows' indentation
levels and leaves. -/
theorem tokenize_renderRows (iw : Nat) (hiw : 0 < iw) (rows : List (Fmt.Row × List Leaf))
    (hr : ∀ x ∈ rows, x.1.columns.length < 2 ∧ LineToks (rowText x.1) x.2) (E : List Leaf)
    (hE : expectLeaves iw 0 [] (rows.map (fun x => (x.1.indent, x.2))) = some E) :
    ∃ text toks, Fmt.renderRows iw (rows.map Prod.fst) = some text ∧
      tokenize tokTable.pats text = .ok toks ∧ toks.map leafOf = E := by
  have hrender := renderRows_lines iw (rows.map Prod.fst) (by
    intro r hr'
    obtain ⟨x, hx, rfl⟩ := List.mem_map.mp hr'
    exact (hr x hx).1)
  refine ⟨_, ?_, hrender, ?_⟩
  · exact (tokLines_rows iw hiw (rows.map (fun x => (x.1.indent, rowText x.1, x.2))) (by
      intro y hy
      obtain ⟨x, hx, rfl⟩ := List.mem_map.mp hy
      exact (hr x hx).2) 1 0 [] E (by simpa [List.map_map, Function.comp_def] using hE)).choose
  · have hsp := tokLines_rows iw hiw (rows.map (fun x => (x.1.indent, rowText x.1, x.2))) (by
      intro y hy
      obtain ⟨x, hx, rfl⟩ := List.mem_map.mp hy
      exact (hr x hx).2) 1 0 [] E (by simpa [List.map_map, Function.comp_def] using hE)
    have hspec := hsp.choose_spec
    refine ⟨?_, hspec.2⟩
    rw [tokenize, splitLines_lines]
    · have : stackOf iw 0 [] = ⟨[], []⟩ := by simp [stackOf, Fmt.spaces]
      rw [← this]
      simpa [List.map_map, Function.comp_def] using hspec.1
    · intro l hl c hc
      simp only [List.map_map, List.mem_map, Function.comp_def] at hl
      obtain ⟨x, hx, rfl⟩ := hl
      exact lineText_nobreak iw _ (hr x hx).2.nobreak c hc

/-! ### The line number only ends up in the positions -/

def setLn (ln : Nat) (t : Token) : Token := { t with sl := ln, el := ln }

def resSetLn (ln : Nat) : LineRes → LineRes
  | .ok ts => .ok (ts.map (FmtTok.setLn ln))
  | e => e

theorem tokLine_ln (pats : List Pat) (ln : Nat) :
    ∀ fuel s off, tokLine pats ln fuel s off = resSetLn ln (tokLine pats 0 fuel s off) := by
  intro fuel
  induction fuel with
  | zero => intro s off; cases s <;> simp [tokLine, resSetLn]
  | succ f ih =>
    intro s off
    cases s with
    | nil => simp [tokLine, resSetLn]
    | cons c cs =>
      simp only [tokLine]
      split
      · rfl
      · rfl
      · rename_i n sy hb
        rw [ih]
        cases hrec : tokLine pats 0 f (List.drop (n + 1) (c :: cs)) (off + (n + 1)) with
        | fuel => rfl
        | err o => rfl
        | ok ts =>
          cases sy with
          | none => rfl
          | some name => rfl

/-- `LineToks` from one evaluation of the tokenizer model (line number 0). -/
theorem LineToks.of_eval {s : List Char} {ts : List Token}
    (hh : ∀ y, s.head? = some y → isSpaceChar y = false)
    (hl : ∀ y, s.getLast? = some y → isSpaceChar y = false)
    (hb : s.all (fun c => !isBreakChar c) = true)
    (ht : tokLine tokTable.pats 0 s.length s 0 = .ok ts) : LineToks s (ts.map leafOf) := by
  refine ⟨hh, hl, ?_, ?_⟩
  · intro c hc
    have := List.all_eq_true.mp hb c hc
    simpa using this
  · intro ln
    refine ⟨ts.map (setLn ln), ?_, ?_⟩
    · rw [tokLine_ln, ht]; rfl
    · simp only [List.map_map]; rfl

theorem LineToks.of_evalLeaves {s : List Char} {L : List Leaf}
    (hh : ∀ y, s.head? = some y → isSpaceChar y = false)
    (hl : ∀ y, s.getLast? = some y → isSpaceChar y = false)
    (hb : s.all (fun c => !isBreakChar c) = true)
    (ht : evalLeaves s = some L) : LineToks s L := by
  simp only [evalLeaves] at ht
  split at ht
  · rename_i ts hts
    cases ht
    exact LineToks.of_eval hh hl hb hts
  · cases ht

/-! ### The rows `_module` renders -/

theorem hModule_eq (iw : Nat) (c d i a : List Fmt.Row) (ty : List (List Fmt.Row)) :
    Fmt.Handler.run iw .module [.rows c, .rows d, .rows i, .rows a, .sections ty] =
      (Fmt.renderRows iw (moduleRows c d i a ty)).map Fmt.Fmt.str := by
  simp only [Fmt.Handler.run, Fmt.hModule, Fmt.asRows, Fmt.asSections, Option.pure_def,
    Option.bind_eq_bind, Option.bind_some, moduleRows]
  cases Fmt.renderRows iw _ <;> rfl

/-! ### The evaluated hypotheses (`retokExpect`) are sound -/

theorem headOK_spec {s : List Char} (h : headOK s = true) :
    ∀ y, s.head? = some y → isSpaceChar y = false := by
  intro y hy
  simp only [headOK, hy] at h
  simpa using h

theorem lastOK_spec {s : List Char} (h : lastOK s = true) :
    ∀ y, s.getLast? = some y → isSpaceChar y = false := by
  intro y hy
  simp only [lastOK, hy] at h
  simpa using h

theorem rowCheck_sound {r : Fmt.Row} {x : Nat × List Leaf} (h : rowCheck r = some x) :
    r.columns.length < 2 ∧ x.1 = r.indent ∧ LineToks (rowText r) x.2 := by
  simp only [rowCheck] at h
  split at h
  · rename_i hlen
    split at h
    · rename_i hc
      simp only [Bool.and_eq_true] at hc
      cases he : evalLeaves (rowText r) with
      | none => simp [he] at h
      | some L =>
        simp only [he, Option.map_some, Option.some.injEq] at h
        subst h
        exact ⟨hlen, rfl, LineToks.of_evalLeaves (headOK_spec hc.1.1) (lastOK_spec hc.1.2) hc.2 he⟩
    · cases h
  · cases h

theorem rowsCheck_sound : ∀ (rows : List Fmt.Row) (xs : List (Nat × List Leaf)), rowsCheck rows = some xs →
    ∃ pairs : List (Fmt.Row × List Leaf), pairs.map Prod.fst = rows ∧
      (∀ x ∈ pairs, x.1.columns.length < 2 ∧ LineToks (rowText x.1) x.2) ∧
      pairs.map (fun x => (x.1.indent, x.2)) = xs := by
  intro rows
  induction rows with
  | nil =>
    intro xs h
    simp only [rowsCheck, Option.some.injEq] at h
    subst h
    exact ⟨[], rfl, (by intro x hx; cases hx), rfl⟩
  | cons r rest ih =>
    intro xs h
    simp only [rowsCheck] at h
    split at h
    · rename_i x xr hx hxr
      cases h
      obtain ⟨pairs, hp1, hp2, hp3⟩ := ih xr hxr
      obtain ⟨h1, h2, h3⟩ := rowCheck_sound hx
      refine ⟨(r, x.2) :: pairs, by simp [hp1], ?_, ?_⟩
      · intro y hy
        rcases List.mem_cons.mp hy with rfl | hy
        · exact ⟨h1, h3⟩
        · exact hp2 y hy
      · simp only [List.map_cons, hp3, ← h2]
    · cases h

/-- Whenever `retokExpect` answers `some E`, `_module` returns a text that `tokenize` accepts
with exactly the leaves `E`. -/
theorem retokExpect_sound (iw : Nat) (hiw : 0 < iw) (c d i a : List Fmt.Row) (ty : List (List Fmt.Row))
    (E : List Leaf) (h : retokExpect iw c d i a ty = some E) :
    ∃ text toks, Fmt.Handler.run iw .module [.rows c, .rows d, .rows i, .rows a, .sections ty] =
        some (.str text) ∧
      tokenize tokTable.pats text = .ok toks ∧ toks.map leafOf = E := by
  simp only [retokExpect] at h
  split at h
  · rename_i xs hxs
    obtain ⟨pairs, hp1, hp2, hp3⟩ := rowsCheck_sound _ xs hxs
    obtain ⟨text, toks, h1, h2, h3⟩ := tokenize_renderRows iw hiw pairs hp2 E (by rw [hp3]; exact h)
    refine ⟨text, toks, ?_, h2, h3⟩
    rw [hModule_eq, ← hp1, h1]; rfl
  · cases h

theorem hModule_asRows (iw : Nat) {vc vd vi va vty : Fmt.Fmt} {c d i a : List Fmt.Row} {ty : List (List Fmt.Row)}
    (h1 : Fmt.asRows vc = some c) (h2 : Fmt.asRows vd = some d) (h3 : Fmt.asRows vi = some i)
    (h4 : Fmt.asRows va = some a) (h5 : Fmt.asSections vty = some ty) :
    Fmt.Handler.run iw .module [vc, vd, vi, va, vty] =
      Fmt.Handler.run iw .module [.rows c, .rows d, .rows i, .rows a, .sections ty] := by
  have e (l : List Fmt.Row) : Fmt.asRows (.rows l) = some l := rfl
  have e' : Fmt.asSections (.sections ty) = some ty := rfl
  simp only [Fmt.Handler.run, Fmt.hModule, h1, h2, h3, h4, h5, e, e']

/-- **`retokTree` is a sound certificate**: whenever it answers `some E` for a parse tree, the
model formats the tree to a text that the tokenizer model accepts with exactly the leaves `E`. -/
theorem retokTree_sound (iw : Nat) (hiw : 0 < iw) (t : Fmt.Tree) (E : List Leaf)
    (h : retokTree iw t = some E) :
    ∃ text toks, Fmt.formatTree iw t = some (.str text) ∧
      tokenize tokTable.pats text = .ok toks ∧ toks.map leafOf = E := by
  cases t with
  | tok s x => simp [retokTree] at h
  | node p cs =>
    simp only [retokTree] at h
    split at h
    · rename_i hp
      split at h
      · rename_i vc vd vi va vty hargs
        split at h
        · rename_i c d i a ty h1 h2 h3 h4 h5
          obtain ⟨text, toks, hm, h2', h3'⟩ := retokExpect_sound iw hiw c d i a ty E h
          refine ⟨text, toks, ?_, h2', h3'⟩
          rw [Fmt.formatTree, Fmt.handlerAt_fold hp, hargs, Option.bind_some,
            hModule_asRows iw h1 h2 h3 h4 h5]
          exact hm
        · cases h
      · cases h
    · cases h

end Emboss.FmtTok
