/-
C11 helper lemmas, part 2: the global passes (`_intersperse`, `_columnize`,
`_indent_blocks`, `_indent_blanks_and_comments`, `_add_blank_rows_on_dedent`,
`_render_rows_to_text`) keep the content and keep rows renderable; the `assert`s of
`_columnize` and `_render_row_to_text` cannot fire on well-kinded input.
-/
import Emboss.Lemmas.FmtStr
namespace Emboss.Fmt

/-! ### `_intersperse` -/

theorem rowsContent_intersperseAux (sep : List Row) (hsep : rowsContent sep = []) :
    ∀ (secs : List (List Row)) (acc : List Row),
      rowsContent (intersperseAux sep acc secs) = rowsContent acc ++ (secs.map rowsContent).flatten := by
  intro secs
  induction secs with
  | nil => intro acc; simp [intersperseAux]
  | cons s rest ih =>
    intro acc
    unfold intersperseAux
    split
    · rename_i h
      have : s = [] := by simpa using h
      simp [ih, this]
    · split <;> simp [ih, hsep]

theorem rowsContent_intersperse (sep : List Row) (hsep : rowsContent sep = []) (secs : List (List Row)) :
    rowsContent (intersperse sep secs) = (secs.map rowsContent).flatten := by
  simp [intersperse, rowsContent_intersperseAux sep hsep]

theorem PlainRows.intersperseAux {sep : List Row} (hsep : PlainRows sep) :
    ∀ (secs : List (List Row)) (acc : List Row), PlainRows acc → (∀ s ∈ secs, PlainRows s) →
      PlainRows (Emboss.Fmt.intersperseAux sep acc secs) := by
  intro secs
  induction secs with
  | nil => intro acc ha _; simpa [Emboss.Fmt.intersperseAux] using ha
  | cons s rest ih =>
    intro acc ha hs
    have h1 : PlainRows s := hs s (List.mem_cons_self ..)
    have h2 : ∀ x ∈ rest, PlainRows x := fun x hx => hs x (List.mem_cons_of_mem _ hx)
    unfold Emboss.Fmt.intersperseAux
    split
    · exact ih acc ha h2
    · split
      · exact ih _ (ha.append h1) h2
      · exact ih _ ((ha.append hsep).append h1) h2

theorem PlainRows.intersperse {sep : List Row} (hsep : PlainRows sep) {secs : List (List Row)}
    (hs : ∀ s ∈ secs, PlainRows s) : PlainRows (Emboss.Fmt.intersperse sep secs) :=
  PlainRows.intersperseAux hsep secs [] PlainRows.nil hs

theorem plain_single (n : RowName) : PlainRows [({ name := n } : Row)] := by
  intro r hr; simp at hr; subst hr; simp

theorem content_single (n : RowName) : rowsContent [({ name := n } : Row)] = [] := by
  simp [Row.content]

/-! ### blocks -/

@[simp] theorem blocksContent_nil : blocksContent [] = [] := rfl
@[simp] theorem blocksContent_cons (b : Block) (l : List Block) :
    blocksContent (b :: l) = b.content ++ blocksContent l := by simp [blocksContent]
@[simp] theorem blocksContent_append (a b : List Block) :
    blocksContent (a ++ b) = blocksContent a ++ blocksContent b := by simp [blocksContent]

@[simp] theorem content_indentRow (r : Row) : (indentRow r).content = r.content := rfl

@[simp] theorem content_indentBlock (b : Block) : (indentBlock b).content = b.content := by
  simp [indentBlock, Block.content]

@[simp] theorem blocksContent_indentBlocks (l : List Block) :
    blocksContent (indentBlocks l) = blocksContent l := by
  induction l with
  | nil => rfl
  | cons b r ih =>
    have : indentBlocks (b :: r) = indentBlock b :: indentBlocks r := rfl
    rw [this]; simp [ih]

theorem BlockOK.indent {names : List RowName} {b : Block} (h : BlockOK names b) :
    BlockOK names (indentBlock b) :=
  ⟨h.1.indent, h.2.1.indent, h.2.2⟩

theorem blocksOK_indent {names : List RowName} {l : List Block} (h : ∀ b ∈ l, BlockOK names b) :
    ∀ b ∈ indentBlocks l, BlockOK names b := by
  intro b hb
  obtain ⟨b', hb', rfl⟩ := List.mem_map.mp hb
  exact (h b' hb').indent

/-! ### `_columnize` -/

theorem despace_padCols (blocks : List Block) (iw ic : Nat) (h : Row) :
    ∀ (cols : List Str) (i : Nat),
      despace (padCols blocks iw ic h i cols).flatten = despace cols.flatten := by
  intro cols
  induction cols with
  | nil => intro i; rfl
  | cons c rest ih => intro i; simp [padCols, ih]

theorem rowsContent_columnizeBlock (blocks : List Block) (iw ic : Nat) (b : Block) :
    rowsContent (columnizeBlock blocks iw ic b) = b.content := by
  simp [columnizeBlock, Block.content, Row.content, despace_padCols]

theorem PlainRows.columnizeBlock {names : List RowName} (blocks : List Block) (iw ic : Nat) {b : Block}
    (h : BlockOK names b) : PlainRows (Emboss.Fmt.columnizeBlock blocks iw ic b) := by
  unfold Emboss.Fmt.columnizeBlock
  exact (h.1.append (PlainRows.cons (by simp) PlainRows.nil)).append h.2.1

theorem headerNames_nodup : ∀ l : List Block, (headerNames l).Nodup := by
  intro l
  induction l with
  | nil => simp [headerNames]
  | cons b r ih =>
    simp only [headerNames]
    split
    · exact ih
    · rename_i h
      exact List.nodup_cons.mpr ⟨by simpa using h, ih⟩

theorem headerNames_subset {names : List RowName} :
    ∀ l : List Block, (∀ b ∈ l, b.header.name ∈ names) → ∀ n ∈ headerNames l, n ∈ names := by
  intro l
  induction l with
  | nil => intro _ n hn; simp [headerNames] at hn
  | cons b r ih =>
    intro h n hn
    have hr := ih (fun x hx => h x (List.mem_cons_of_mem _ hx))
    simp only [headerNames] at hn
    split at hn
    · exact hr n hn
    · rcases List.mem_cons.mp hn with rfl | h'
      · exact h b (List.mem_cons_self ..)
      · exact hr n h'

/-- `assert len(row_types) < 3` cannot fire when every header is one of at most two names. -/
theorem columnize_some {names : List RowName} (hn : names.length ≤ 2) (blocks : List Block) (iw ic : Nat)
    (h : ∀ b ∈ blocks, BlockOK names b) :
    columnize blocks iw ic = some (blocks.map (columnizeBlock blocks iw ic)) := by
  have hlen : (headerNames blocks).length ≤ names.length :=
    (headerNames_nodup blocks).length_le_of_subset
      (fun n hn' => headerNames_subset blocks (fun b hb => (h b hb).2.2) n hn')
  have : (headerNames blocks).length < 3 := by omega
  simp [columnize, this]

theorem content_columnized (blocks all : List Block) (iw ic : Nat) :
    ((blocks.map (columnizeBlock all iw ic)).map rowsContent).flatten = blocksContent blocks := by
  induction blocks with
  | nil => rfl
  | cons b r ih =>
    simp only [List.map_cons, List.flatten_cons, rowsContent_columnizeBlock, blocksContent_cons, ih]

theorem plain_columnized {names : List RowName} (blocks all : List Block) (iw ic : Nat)
    (h : ∀ b ∈ blocks, BlockOK names b) :
    ∀ s ∈ blocks.map (columnizeBlock all iw ic), PlainRows s := by
  intro s hs
  obtain ⟨b, hb, rfl⟩ := List.mem_map.mp hs
  exact PlainRows.columnizeBlock all iw ic (h b hb)

/-! ### `_indent_blanks_and_comments`, `_add_blank_rows_on_dedent` -/

theorem indentBlanksRev_columns : ∀ (l : List Row) (p : Nat),
    (indentBlanksRev p l).map (·.columns) = l.map (·.columns) := by
  intro l
  induction l with
  | nil => intro p; rfl
  | cons r rest ih =>
    intro p
    unfold indentBlanksRev
    split <;> simp [ih]

theorem indentBlanksAndComments_columns (l : List Row) :
    (indentBlanksAndComments l).map (·.columns) = l.map (·.columns) := by
  simp [indentBlanksAndComments, indentBlanksRev_columns]

theorem rowsContent_addBlankRowsAux : ∀ (l : List Row) (p : Nat) (b : Bool),
    rowsContent (addBlankRowsAux p b l) = rowsContent l := by
  intro l
  induction l with
  | nil => intro p b; rfl
  | cons r rest ih =>
    intro p b
    unfold addBlankRowsAux
    simp only []
    split <;> simp [ih, Row.content]

theorem PlainRows.addBlankRowsAux : ∀ (l : List Row) (p : Nat) (b : Bool), PlainRows l →
    PlainRows (Emboss.Fmt.addBlankRowsAux p b l) := by
  intro l
  induction l with
  | nil => intro p b h; simpa [Emboss.Fmt.addBlankRowsAux] using h
  | cons r rest ih =>
    intro p b h
    unfold Emboss.Fmt.addBlankRowsAux
    simp only []
    have ht := PlainRows.cons h.head (ih r.indent (rowBlank r) h.tail)
    split
    · exact PlainRows.cons (by simp) ht
    · exact ht

/-! ### `_render_rows_to_text` -/

theorem renderRows_total : ∀ (l : List Row) (iw : Nat), PlainRows l →
    ∃ t, renderRows iw l = some t ∧ despace t = rowsContent l := by
  intro l
  induction l with
  | nil => intro iw _; exact ⟨[], rfl, rfl⟩
  | cons r rest ih =>
    intro iw h
    obtain ⟨t, ht, hc⟩ := ih iw h.tail
    have hr : r.columns.length < 2 := h.head
    refine ⟨rstrip (spaces (iw * r.indent) ++ r.columns.flatten) ++ '\n' :: t, ?_, ?_⟩
    · simp [renderRows, renderRow, hr, ht]
    · simp [hc, Row.content]

end Emboss.Fmt
