/-
`Ok()` is monotone in the information order for modules without array fields (helper lemmas for
`C01_ok_monotone_partial`).  Arrays are excluded because a *truncated* array can be Ok while a
longer one is not; for them monotonicity needs the in-bounds argument (IsComplete ⇒ no present
field was clamped, `C01_size_covers_present_fields`) which is not carried out here.
-/
import Emboss.Lemmas.ViewMono2
namespace Emboss.View

theorem find_noarr {m : Module} (hm : moduleNoArrays m = true) {name : String} {sd : StructDef}
    (h : m.find name = some sd) : structNoArrays sd = true := by
  unfold moduleNoArrays at hm
  unfold Module.find at h
  exact List.all_eq_true.mp hm sd (List.mem_of_find?_eq_some h)

theorem field_noarr {sd : StructDef} (h : structNoArrays sd = true) {x : String} {f : Field}
    (hf : sd.field x = some f) : fieldNoArray f = true := by
  unfold structNoArrays at h
  unfold StructDef.field at hf
  exact List.all_eq_true.mp h f (List.mem_of_find?_eq_some hf)

theorem StLe.ok_size {s1 s2 : Storage} (h : StLe s1 s2) (hok : s1.ok = true) :
    s2.ok = true ∧ s1.size ≤ s2.size := by
  cases s1 with
  | bytes d1 =>
    cases d1 with
    | none => simp [Storage.ok] at hok
    | some d1 =>
      cases s2 with
      | bytes d2 =>
        cases d2 with
        | none => simp [StLe] at h
        | some d2 => simp only [StLe] at h; exact ⟨rfl, h.length_le⟩
      | bits v n => simp [StLe] at h
  | bits v1 n1 =>
    cases v1 with
    | none => simp [Storage.ok] at hok
    | some v1 =>
      cases s2 with
      | bytes d2 => simp [StLe] at h
      | bits v2 n2 =>
        simp only [StLe] at h
        obtain ⟨rfl, rfl⟩ := h
        exact ⟨rfl, Nat.le_refl _⟩

/-- path-level `Ok()` monotonicity for one oracle that is monotone in values/presence and in
`okAt` at the level below -/
def OkLe (m : Module) (o : Oracle) : Prop :=
  ∀ w1 w2, VLe w1 w2 → structWF m w1.sd = true → structNoArrays w1.sd = true →
    ∀ p, o.okAt w1 p = true → o.okAt w2 p = true

theorem step_ok_mono {m : Module} (hm : moduleWF m = true) (hna : moduleNoArrays m = true)
    {o : Oracle} (ho : OrLe m o o) (hok : OkLe m o) : OkLe m (step m o) := by
  intro w1 w2 h hwf hnarr p hp
  cases p with
  | nil =>
    simp only [step, Bool.and_eq_true] at hp ⊢
    obtain ⟨⟨⟨hc, hpar⟩, hfields⟩, hreq⟩ := hp
    have hor := ho w1 w2 h hwf
    refine ⟨⟨⟨?_, ?_⟩, ?_⟩, ?_⟩
    · -- IsComplete
      rw [← h.sd]
      cases hr : o.read w1 [w1.sd.sizeField] with
      | none => rw [hr] at hc; cases hc
      | some v =>
        rw [hr] at hc
        rw [hor.1 _ v hr]
        cases v with
        | bool b => cases hc
        | int sz =>
          simp only [Bool.and_eq_true, decide_eq_true_eq] at hc ⊢
          have := StLe.ok_size h.st hc.1
          exact ⟨this.1, by omega⟩
    · -- parameters
      rw [← h.sd]
      cases hpe : w1.sd.params.isEmpty with
      | true => simp
      | false =>
        simp only [hpe, Bool.false_or] at hpar ⊢
        cases hp1 : w1.params with
        | none => rw [hp1] at hpar; cases hpar
        | some vs => rw [h.params vs hp1]; rfl
    · -- fields
      rw [← h.sd]
      rw [List.all_eq_true] at hfields ⊢
      intro f hf
      have h1 := hfields f hf
      cases hh : o.has w1 [f.name] with
      | none => rw [hh] at h1; cases h1
      | some b =>
        rw [hor.2 _ b hh]
        cases b with
        | false => rfl
        | true =>
          rw [hh] at h1
          exact hok w1 w2 h hwf hnarr _ h1
    · -- [requires]
      rw [← h.sd]
      cases hrq : w1.sd.requires with
      | none => rfl
      | some r =>
        rw [hrq] at hreq
        simp only [beq_iff_eq] at hreq ⊢
        exact evalBool_mono (envOf_mono ho h hwf none) r true hreq
  | cons x rest =>
    simp only [step] at hp ⊢
    rw [← h.sd]
    cases hf : w1.sd.field x with
    | none => rw [hf] at hp; cases hp
    | some f =>
      rw [hf] at hp
      simp only at hp ⊢
      have hfw := field_wf hwf hf
      have hfn := field_noarr hnarr hf
      cases hk : f.kind with
      | virt value req =>
        rw [hk] at hp
        cases rest with
        | cons y ys => cases hp
        | nil =>
          simp only at hp ⊢
          cases hv : virtRead o w1 value req with
          | none => rw [hv] at hp; cases hp
          | some v => rw [virtRead_mono ho h hwf value req v hv]; rfl
      | alias target =>
        rw [hk] at hp
        simp only [Bool.and_eq_true, decide_eq_true_eq] at hp ⊢
        exact ⟨hasField_mono ho h hwf f true hp.1, hok w1 w2 h hwf hnarr _ hp.2⟩
      | phys start size ty bo =>
        rw [hk] at hp
        cases ty with
        | array e es => simp [fieldNoArray, hk] at hfn
        | struct name bits args =>
          simp only at hp ⊢
          have hsv := subView_mono hm ho h hwf f start size name bits args bo hfw hk
          cases h1 : subView o m w1 f start size name bits args bo with
          | none => rw [h1] at hp; cases hp
          | some a =>
            rw [h1] at hp
            cases h2 : subView o m w2 f start size name bits args bo with
            | none => rw [h1, h2] at hsv; exact absurd hsv (by simp)
            | some b =>
              rw [h1, h2] at hsv
              simp only at hp ⊢
              have hasd : structNoArrays a.sd = true := by
                unfold subView at h1
                cases hfind : m.find name with
                | none => simp [hfind] at h1
                | some sd =>
                  simp only [hfind] at h1
                  have := find_noarr hna hfind
                  split at h1 <;> (cases h1; first | exact this | (simp only [nullView]; exact this))
              exact hok a b hsv.1 hsv.2 hasd _ hp
        | scalar k bits req =>
          cases rest with
          | cons y ys => simp at hp
          | nil =>
            simp only at hp ⊢
            have hsz : w1.sd.unit ≠ 8 ∨ (1 : Nat) = 8 ∨
                ∃ k : Int, constInt? size = some k ∧ 0 ≤ k ∧ k.toNat * 8 = bits := by
              unfold fieldWF at hfw
              rw [hk] at hfw
              simp only [Bool.or_eq_true, bne_iff_ne, ne_eq] at hfw
              rcases hfw with h1 | h3
              · exact Or.inl h1
              · right; right
                cases hc : constInt? size with
                | none => simp [hc] at h3
                | some k =>
                  simp only [hc, Bool.and_eq_true, decide_eq_true_eq, beq_iff_eq] at h3
                  exact ⟨k, rfl, h3.1, h3.2⟩
            have hst := physStorage_adaptFor_mono ho h hwf f start size 1 bo bits hsz
            cases h1 : physStorage o w1 f start size with
            | none => rw [h1] at hp; cases hp
            | some s1 =>
              rw [h1] at hp
              cases h2 : physStorage o w2 f start size with
              | none => rw [h1, h2] at hst; simp [OStLe] at hst
              | some s2 =>
                rw [h1, h2] at hst
                simp only [Option.map, OStLe] at hst
                have hu : w2.sd.unit = w1.sd.unit := by rw [h.sd]
                rw [hu] at hst
                simp only [argsKnown, typeOk, Bool.true_and] at hp ⊢
                cases hl : leafRead o w1 k bits req (s1.adaptFor w1.sd.unit 1 bo bits) with
                | none => rw [hl] at hp; cases hp
                | some v => rw [hu, leafRead_mono ho h hwf k bits req hst v hl]; rfl

theorem bottom_okle (m : Module) : OkLe m Oracle.bottom :=
  fun _ _ _ _ _ _ hp => by simp [Oracle.bottom] at hp

theorem G_ok_mono {m : Module} (hm : moduleWF m = true) (hna : moduleNoArrays m = true) :
    ∀ n, OkLe m (G m n)
  | 0 => bottom_okle m
  | n + 1 => step_ok_mono hm hna (G_mono hm n) (G_ok_mono hm hna n)

end Emboss.View
