/-
Per-operator soundness of the transfer functions of Model/Bounds.lean with respect to
the concretisation γ of Spec/Bounds.lean.  None of these assume the invariant
`_assert_integer_constraints`: whenever a transfer function returns (does not raise),
its result describes every value the operation can produce.
-/
import Emboss.Lemmas.BoundsMul
namespace Emboss.Bounds
open ExtInt

theorem additive_mv_sound {m : Modulus} {u : Int} {mv : ExtInt} {v : Int}
    (hmv : (match m, ExtInt.fin u with
      | .inf, u => some u
      | .fin k, .fin v => if k = 0 then none else some (.fin (v % (k : Int)))
      | .fin _, _ => none) = some mv)
    (hd : ((m.toNat : Nat) : Int) ∣ v - u) : CongOk m mv v := by
  cases m with
  | inf =>
    simp at hmv; subst hmv
    exact ⟨u, rfl, hd⟩
  | fin k =>
    simp at hmv
    obtain ⟨hk, rfl⟩ := hmv
    exact ⟨u % (k:Int), rfl, dvd_sub_emod_of_dvd hd⟩

theorem additive_sound {isSub : Bool} {l r a : AVal} {x y : Int}
    (h : additive isSub l r = some a) (hl : Gamma l x) (hr : Gamma r y) :
    Gamma a (if isSub then x - y else x + y) := by
  obtain ⟨hl1, hl2, cl, hcl, hdl⟩ := hl
  obtain ⟨hr1, hr2, cr, hcr, hdr⟩ := hr
  have hgl := gcdM_dvd_left l.modulus r.modulus
  have hgr := gcdM_dvd_right l.modulus r.modulus
  cases isSub with
  | false =>
    simp only [Bool.false_eq_true, if_false]
    simp only [additive, hcl, hcr, eadd, Bool.false_eq_true, if_false] at h
    split at h
    · cases h
    · rename_i mv hmv
      split at h
      · rename_i mn mx hmn hmx
        cases h
        refine ⟨eadd_low hmn hl1 hr1, eadd_high hmx hl2 hr2, ?_⟩
        apply additive_mv_sound hmv
        have : x + y - (cl + cr) = (x - cl) + (y - cr) := by omega
        rw [this]
        exact Int.dvd_add (Int.dvd_trans hgl hdl) (Int.dvd_trans hgr hdr)
      · cases h
  | true =>
    simp only [if_true]
    simp only [additive, hcl, hcr, esub, ExtInt.neg, eadd, if_true] at h
    split at h
    · cases h
    · rename_i mv hmv
      split at h
      · rename_i mn mx hmn hmx
        cases h
        refine ⟨esub_low hmn hl1 hr2, esub_high hmx hl2 hr1, ?_⟩
        apply additive_mv_sound hmv
        have : x - y - (cl + -cr) = (x - cl) - (y - cr) := by omega
        rw [this]
        exact Int.dvd_sub (Int.dvd_trans hgl hdl) (Int.dvd_trans hgr hdr)
      · cases h

/-- algebraic core of doc/modular_congruence_multiplication_proof.tex -/
theorem varvar_core (lm rm lz rz lnz rnz g : Nat) (lv rv x y : Int)
    (hlm : lm = lnz * lz) (hrm : rm = rnz * rz)
    (hlz : (lz : Int) ∣ lv) (hrz : (rz : Int) ∣ rv)
    (hg1 : g ∣ lnz) (hg2 : g ∣ rnz)
    (hx : (lm : Int) ∣ x - lv) (hy : (rm : Int) ∣ y - rv) :
    ((g * (lz * rz) : Nat) : Int) ∣ x * y - lv * rv := by
  obtain ⟨s, hs⟩ := hx
  obtain ⟨t, ht⟩ := hy
  obtain ⟨p, hp⟩ := hlz
  obtain ⟨q, hq⟩ := hrz
  obtain ⟨L, hL⟩ := hg1
  obtain ⟨R, hR⟩ := hg2
  subst hlm hrm hL hR
  have hx' : x = lv + ((g * L * lz : Nat) : Int) * s := by omega
  have hy' : y = rv + ((g * R * rz : Nat) : Int) * t := by omega
  refine ⟨p * R * t + L * s * q + L * s * (g * R) * t, ?_⟩
  subst hx' hy' hp hq
  simp only [Int.natCast_mul]
  grind

theorem mulSide_spec {m : Nat} {mv : ExtInt} {z nz : Nat} {v : Int}
    (h : mulSide m mv = some (z, nz, v)) :
    mv = .fin v ∧ m = nz * z ∧ (z : Int) ∣ v := by
  unfold mulSide at h
  cases mv with
  | negInf => simp [mvAsModulus] at h
  | posInf =>
    simp only [mvAsModulus] at h
    split at h
    · cases h
    · split at h
      · cases h
      · split at h
        · cases h
        · simp [ExtInt.toInt?] at h
  | fin c =>
    simp only [mvAsModulus] at h
    split at h
    · cases h
    · rename_i mvm hc
      have hc' : ¬ c < 0 ∧ mvm = .fin c.toNat := by
        split at hc
        · cases hc
        · rename_i hh; cases hc; exact ⟨hh, rfl⟩
      obtain ⟨hcnn, rfl⟩ := hc'
      split at h
      · cases h
      · rename_i z' hz'
        split at h
        · cases h
        · split at h
          · cases h
          · rename_i hz0 hmod
            simp only [ExtInt.toInt?, Option.some.injEq, Prod.mk.injEq] at h
            obtain ⟨rfl, rfl, rfl⟩ := h
            have hz : z' = Nat.gcd m c.toNat := by
              have := gcdM_toNat (.fin m) (.fin c.toNat)
              rw [hz'] at this; simpa [Modulus.toNat] using this
            have hmod' : m % z' = 0 := by simpa using hmod
            refine ⟨rfl, (Nat.div_mul_cancel (Nat.dvd_of_mod_eq_zero hmod')).symm, ?_⟩
            have h1 : z' ∣ c.toNat := hz ▸ Nat.gcd_dvd_right _ _
            have h2 : ((c.toNat : Nat) : Int) = c := Int.toNat_of_nonneg (by omega)
            rw [← h2]; exact Int.ofNat_dvd.mpr h1

theorem zero_dvd_sub {x c : Int} (h : ((0 : Nat) : Int) ∣ x - c) : x = c := by
  have := Int.zero_dvd.mp (by simpa using h); omega

theorem mulConstVar_sound {mn mx : ExtInt} {c v : Int} {m : Nat} {a : AVal} {x y : Int}
    (h : mulConstVar mn mx (.fin c) m (.fin v) = some a)
    (hx : x = c) (hy : (m : Int) ∣ y - v) :
    a.min = mn ∧ a.max = mx ∧ CongOk a.modulus a.mv (x * y) := by
  subst hx
  simp only [mulConstVar, ExtInt.toInt?] at h
  split at h
  · rename_i hc0
    cases h
    refine ⟨rfl, rfl, 0, rfl, ?_⟩
    simp [hc0]
  · rename_i hc0
    split at h
    · cases h
    · cases h
      refine ⟨rfl, rfl, _, rfl, ?_⟩
      apply dvd_sub_emod_of_dvd
      simp only [Modulus.toNat, Int.natCast_mul]
      obtain ⟨t, ht⟩ := hy
      have h1 : ((x.natAbs : Nat) : Int) ∣ x := Int.natAbs_dvd.mpr (Int.dvd_refl x)
      obtain ⟨u, hu⟩ := h1
      have h2 : x ∣ ((x.natAbs : Nat) : Int) := Int.dvd_natAbs.mpr (Int.dvd_refl x)
      obtain ⟨w, hw⟩ := h2
      refine ⟨t * w * u * u, ?_⟩
      have : x * y - v * x = x * (y - v) := by grind
      rw [this, ht]
      generalize ((x.natAbs : Nat) : Int) = n at *
      subst hw
      have hx0 : x ≠ 0 := hc0
      have : w * u = 1 := by
        have h3 : x * (w * u) = x * 1 := by grind
        exact Int.eq_of_mul_eq_mul_left hx0 h3
      grind

theorem multiplicative_sound {l r a : AVal} {x y : Int}
    (h : multiplicative l r = some a) (hl : Gamma l x) (hr : Gamma r y) : Gamma a (x * y) := by
  obtain ⟨hl1, hl2, cl, hcl, hdl⟩ := hl
  obtain ⟨hr1, hr2, cr, hcr, hdr⟩ := hr
  have hlo := mul_corners_low hl1 hl2 hr1 hr2
  have hhi := mul_corners_high hl1 hl2 hr1 hr2
  unfold multiplicative at h
  simp only [hcl, hcr] at h
  split at h
  · -- const × const
    rename_i hlm hrm
    simp only [ExtInt.toInt?] at h
    cases h
    rw [hlm] at hdl; rw [hrm] at hdr
    have := zero_dvd_sub hdl; have := zero_dvd_sub hdr
    subst_vars
    exact ⟨hlo, hhi, _, rfl, by simp [Modulus.toNat]⟩
  · rename_i m hlm hrm
    rw [hlm] at hdl; rw [hrm] at hdr
    obtain ⟨h1, h2, h3⟩ := mulConstVar_sound h (zero_dvd_sub hdl) hdr
    exact ⟨h1 ▸ hlo, h2 ▸ hhi, h3⟩
  · rename_i m hlm hrm
    rw [hlm] at hdl; rw [hrm] at hdr
    obtain ⟨h1, h2, h3⟩ := mulConstVar_sound h (zero_dvd_sub hdr) hdl
    rw [Int.mul_comm] at h3
    exact ⟨h1 ▸ hlo, h2 ▸ hhi, h3⟩
  · rename_i lm rm hlm hrm
    rw [hlm] at hdl; rw [hrm] at hdr
    split at h
    · rename_i lz lnz lv rz rnz rv hls hrs
      obtain ⟨e1, e2, e3⟩ := mulSide_spec hls
      obtain ⟨f1, f2, f3⟩ := mulSide_spec hrs
      cases e1; cases f1
      split at h
      · cases h
      · rename_i g hg
        split at h
        · cases h
        · cases h
          refine ⟨hlo, hhi, _, rfl, ?_⟩
          apply dvd_sub_emod_of_dvd
          have hg' : g = Nat.gcd lnz rnz := by
            have := gcdM_toNat (.fin lnz) (.fin rnz)
            rw [hg] at this; simpa [Modulus.toNat] using this
          exact varvar_core lm rm lz rz lnz rnz g cl cr x y e2 f2 e3 f3
            (hg' ▸ Nat.gcd_dvd_left _ _) (hg' ▸ Nat.gcd_dvd_right _ _) hdl hdr
    · cases h

/-- `_shared_modular_value`: the result is implied by either argument. -/
theorem shared_sound {l r res : Modulus × ExtInt} (h : shared l r = some res) (v : Int) :
    (CongOk l.1 l.2 v → CongOk res.1 res.2 v) ∧ (CongOk r.1 r.2 v → CongOk res.1 res.2 v) := by
  unfold shared at h
  split at h
  · rename_i a b ha hb
    have hla : l.2 = .fin a := by cases hh : l.2 <;> simp_all [ExtInt.toInt?]
    have hrb : r.2 = .fin b := by cases hh : r.2 <;> simp_all [ExtInt.toInt?]
    have hg := gcdM_toNat (gcdM l.1 r.1) (.fin (a - b).natAbs)
    have hgl := gcdM_dvd_left l.1 r.1
    have hgr := gcdM_dvd_right l.1 r.1
    simp only at h
    generalize hnew : gcdM (gcdM l.1 r.1) (.fin (a - b).natAbs) = new at h hg
    cases new with
    | inf =>
      simp only at h
      split at h
      · rename_i hc
        cases h
        obtain ⟨h1, h2, h3⟩ := hc
        simp only
        constructor
        · intro hc; rw [h2] at hc; exact hc
        · intro hc; rw [h3, ← h1] at hc; exact hc
      · cases h
    | fin k =>
      simp only at h
      split at h
      · cases h
      · split at h
        · cases h
        · cases h
          simp only [Modulus.toNat] at hg
          have hk1 : (k : Int) ∣ (((gcdM l.1 r.1).toNat : Nat) : Int) :=
            Int.ofNat_dvd.mpr (hg ▸ Nat.gcd_dvd_left _ _)
          have hk2 : (k : Int) ∣ a - b := by
            have : k ∣ (a - b).natAbs := hg ▸ Nat.gcd_dvd_right _ _
            exact Int.dvd_natAbs.mp (Int.ofNat_dvd.mpr this)
          simp only
          constructor
          · rintro ⟨c, hc, hd⟩
            rw [hla] at hc; cases hc
            exact ⟨_, rfl, dvd_sub_emod_of_dvd (Int.dvd_trans hk1 (Int.dvd_trans hgl hd))⟩
          · rintro ⟨c, hc, hd⟩
            rw [hrb] at hc; cases hc
            refine ⟨_, rfl, dvd_sub_emod_of_dvd ?_⟩
            have : v - a = (v - b) - (a - b) := by omega
            rw [this]
            exact Int.dvd_sub (Int.dvd_trans hk1 (Int.dvd_trans hgr hd)) hk2
  · cases h

theorem choiceHull_sound {t f a : AVal} {v : Int} (h : choiceHull t f = some a)
    (hv : Gamma t v ∨ Gamma f v) : Gamma a v := by
  unfold choiceHull at h
  split at h
  · cases h
  · rename_i m c hs
    cases h
    have hs' := shared_sound hs v
    rcases hv with ⟨h1, h2, h3⟩ | ⟨h1, h2, h3⟩
    · exact ⟨eminL_low (x := t.min) (by simp) h1, emaxL_high (x := t.max) (by simp) h2, hs'.1 h3⟩
    · exact ⟨eminL_low (x := f.min) (by simp) h1, emaxL_high (x := f.max) (by simp) h2, hs'.2 h3⟩

theorem sharedFold_sound {acc res : Modulus × ExtInt} {l : List AVal}
    (h : sharedFold acc l = some res) (v : Int) :
    (CongOk acc.1 acc.2 v → CongOk res.1 res.2 v) ∧
    (∀ a ∈ l, CongOk a.modulus a.mv v → CongOk res.1 res.2 v) := by
  induction l generalizing acc with
  | nil => simp [sharedFold] at h; subst h; simp
  | cons a as ih =>
    simp only [sharedFold] at h
    split at h
    · cases h
    · rename_i acc' hs
      have h1 := shared_sound hs v
      have h2 := ih h
      refine ⟨fun hc => h2.1 (h1.1 hc), ?_⟩
      intro b hb hc
      rcases List.mem_cons.mp hb with rfl | hm
      · exact h2.1 (h1.2 hc)
      · exact h2.2 b hm hc

inductive Forall2 {α β : Type} (R : α → β → Prop) : List α → List β → Prop
  | nil : Forall2 R [] []
  | cons {a b as bs} : R a b → Forall2 R as bs → Forall2 R (a :: as) (b :: bs)

/-- `$max`: `v` is the greatest of values `vs`, one per argument, each in γ of its argument. -/
theorem maxFn_sound {args : List AVal} {a : AVal} {vs : List Int} {v : Int}
    (h : maxFn args = some a) (hvs : Forall2 Gamma args vs) (hmax : IsMaxOf vs v) :
    Gamma a v := by
  obtain ⟨hmem, hge⟩ := hmax
  -- the argument that attains the maximum
  have hex : ∃ b ∈ args, Gamma b v := by
    clear h hge
    induction hvs with
    | nil => cases hmem
    | cons hab _ ih =>
      rcases List.mem_cons.mp hmem with rfl | hm
      · exact ⟨_, List.mem_cons_self, hab⟩
      · obtain ⟨b, hb, hg⟩ := ih hm
        exact ⟨b, List.mem_cons_of_mem _ hb, hg⟩
  have hall : ∀ b ∈ args, LowOk b.min v := by
    clear h hmem hex
    induction hvs with
    | nil => intro b hb; cases hb
    | cons hab _ ih =>
      rename_i a0 v0 as0 vs0
      intro b hb
      rcases List.mem_cons.mp hb with rfl | hm
      · exact hab.1.mono (hge _ List.mem_cons_self)
      · exact ih (fun x hx => hge x (List.mem_cons_of_mem _ hx)) b hm
  obtain ⟨b, hb, hb1, hb2, hb3⟩ := hex
  have hlow : LowOk (emaxL (args.map (·.min))) v := by
    apply emaxL_low
    intro x hx
    obtain ⟨c, hc, rfl⟩ := List.mem_map.mp hx
    exact hall c hc
  have hhigh : HighOk (emaxL (args.map (·.max))) v :=
    emaxL_high (x := b.max) (List.mem_map.mpr ⟨b, hb, rfl⟩) hb2
  cases args with
  | nil => cases hb
  | cons a0 as =>
    simp only [maxFn] at h
    split at h
    · rename_i heq
      cases h
      refine ⟨hlow, heq ▸ hhigh, ?_⟩
      simp only
      rw [← heq] at hhigh
      generalize emaxL (List.map (fun x => x.min) (a0 :: as)) = e at *
      cases e with
      | negInf => simp [HighOk] at hhigh
      | posInf => simp [LowOk] at hlow
      | fin c =>
        simp only [LowOk, HighOk] at hlow hhigh
        exact ⟨c, rfl, ⟨0, by omega⟩⟩
    · split at h
      · cases h
      · rename_i m c hs
        cases h
        refine ⟨hlow, hhigh, ?_⟩
        have := sharedFold_sound hs v
        rcases List.mem_cons.mp hb with rfl | hm
        · exact this.1 hb3
        · exact this.2 b hm hb3

theorem pow_pos' (b : Int) (hb : 0 < b) (n : Nat) : 0 < b ^ n := Int.pow_pos hb

theorem leafRange_sound {k : LeafKind} {size : Option Int} {v : Int} (h : InPhys k size v) :
    Gamma (leafRange k size) v := by
  have hc : CongOk (.fin 1) (.fin 0) v := ⟨0, rfl, by simp [Modulus.toNat]⟩
  unfold leafRange
  unfold InPhys at h
  cases size with
  | none => exact ⟨trivial, trivial, hc⟩
  | some s =>
    simp only at h ⊢
    split
    · exact ⟨trivial, trivial, hc⟩
    · rename_i hs
      simp only [hs, if_false] at h
      cases k <;> simp only at h ⊢ <;> refine ⟨?_, ?_, hc⟩ <;> simp only [LowOk, HighOk] <;> omega

theorem constRange_sound (v : Int) : Gamma (constRange v) v :=
  ⟨by simp [constRange, LowOk], by simp [constRange, HighOk], v, rfl, by simp⟩

theorem staticSize_sound {v : Int} (h : 0 ≤ v) : Gamma staticSizeRange v :=
  ⟨h, trivial, 0, rfl, by simp [staticSizeRange, Modulus.toNat]⟩

end Emboss.Bounds
