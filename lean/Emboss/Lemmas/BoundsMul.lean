/-
Interval multiplication on the extended integers: the product of x ∈ [a,b] and
y ∈ [c,d] lies between the minimum and the maximum of the four corner products
computed with `_mul` (∞·0 = 0).
-/
import Emboss.Lemmas.BoundsExt
namespace Emboss.Bounds
open ExtInt

theorem emul_comm (a b : ExtInt) : emul a b = emul b a := by
  cases a <;> cases b <;> simp [emul, Int.mul_comm]

theorem HighOk.mono {e : ExtInt} {v w : Int} (h : HighOk e v) (hw : w ≤ v) : HighOk e w := by
  cases e <;> simp_all [HighOk] ; omega

theorem LowOk.mono {e : ExtInt} {v w : Int} (h : LowOk e v) (hw : v ≤ w) : LowOk e w := by
  cases e <;> simp_all [LowOk] ; omega

theorem emax2_high_iff {a b : ExtInt} {v : Int} : HighOk (emax2 a b) v ↔ HighOk a v ∨ HighOk b v := by
  cases a <;> cases b <;> simp [emax2, HighOk] <;> split <;> omega

theorem emin2_low_iff {a b : ExtInt} {v : Int} : LowOk (emin2 a b) v ↔ LowOk a v ∨ LowOk b v := by
  cases a <;> cases b <;> simp [emin2, LowOk] <;> split <;> omega


theorem esign_fin_pos {y : Int} (h : 0 < y) : esign (.fin y) = 1 := by
  simp [esign, h]
theorem esign_fin_neg {y : Int} (h : y < 0) : esign (.fin y) = -1 := by
  have h2 : ¬ (y > 0) := by omega
  simp [esign, h, h2]
theorem emul_posInf_pos {y : Int} (h : 0 < y) : emul .posInf (.fin y) = .posInf := by
  simp only [emul, esign_fin_pos h]; simp [esign]
theorem emul_posInf_neg {y : Int} (h : y < 0) : emul .posInf (.fin y) = .negInf := by
  simp only [emul, esign_fin_neg h]; simp [esign]
theorem emul_negInf_pos {y : Int} (h : 0 < y) : emul .negInf (.fin y) = .negInf := by
  simp only [emul, esign_fin_pos h]; simp [esign]
theorem emul_negInf_neg {y : Int} (h : y < 0) : emul .negInf (.fin y) = .posInf := by
  simp only [emul, esign_fin_neg h]; simp [esign]
theorem emul_posInf_zero : emul .posInf (.fin 0) = .fin 0 := by simp [emul, esign]
theorem emul_negInf_zero : emul .negInf (.fin 0) = .fin 0 := by simp [emul, esign]

theorem mul_high_fin {a b : ExtInt} {x y : Int} (ha : LowOk a x) (hb : HighOk b x) :
    HighOk (emax2 (emul a (.fin y)) (emul b (.fin y))) (x * y) := by
  rcases Int.lt_trichotomy y 0 with hy | hy | hy
  · -- y < 0: x*y ≤ a*y
    apply emax2_high_left
    cases a with
    | negInf => simp [emul_negInf_neg hy, HighOk]
    | posInf => simp [LowOk] at ha
    | fin a' =>
      simp only [LowOk] at ha
      simp only [emul, HighOk]
      exact Int.mul_le_mul_of_nonpos_right ha (by omega)
  · subst hy
    apply emax2_high_left
    cases a <;> simp [emul, esign, HighOk]
  · apply emax2_high_right
    cases b with
    | posInf => simp [emul_posInf_pos hy, HighOk]
    | negInf => simp [HighOk] at hb
    | fin b' =>
      simp only [HighOk] at hb
      simp only [emul, HighOk]
      exact Int.mul_le_mul_of_nonneg_right hb (by omega)

theorem mul_low_fin {a b : ExtInt} {x y : Int} (ha : LowOk a x) (hb : HighOk b x) :
    LowOk (emin2 (emul a (.fin y)) (emul b (.fin y))) (x * y) := by
  rcases Int.lt_trichotomy y 0 with hy | hy | hy
  · -- y < 0: b*y ≤ x*y
    apply emin2_low_right
    cases b with
    | posInf => simp [emul_posInf_neg hy, LowOk]
    | negInf => simp [HighOk] at hb
    | fin b' =>
      simp only [HighOk] at hb
      simp only [emul, LowOk]
      exact Int.mul_le_mul_of_nonpos_right hb (by omega)
  · subst hy
    apply emin2_low_left
    cases a <;> simp [emul, esign, LowOk]
  · apply emin2_low_left
    cases a with
    | negInf => simp [emul_negInf_pos hy, LowOk]
    | posInf => simp [LowOk] at ha
    | fin a' =>
      simp only [LowOk] at ha
      simp only [emul, LowOk]
      exact Int.mul_le_mul_of_nonneg_right ha (by omega)

/-- `emul e y ≤ max (emul e c) (emul e d)` for `y ∈ [c, d]`, in `HighOk` form -/
theorem emul_high_ends {e c d : ExtInt} {y w : Int} (hc : LowOk c y) (hd : HighOk d y)
    (h : HighOk (emul e (.fin y)) w) : HighOk (emax2 (emul e c) (emul e d)) w := by
  cases e with
  | fin x =>
    have h1 : HighOk (emax2 (emul c (.fin x)) (emul d (.fin x))) (y * x) := mul_high_fin hc hd
    rw [emul_comm c, emul_comm d] at h1
    simp only [emul, HighOk] at h
    exact h1.mono (by rw [Int.mul_comm]; exact h)
  | posInf =>
    rcases Int.lt_trichotomy y 0 with hy | hy | hy
    · simp [emul_posInf_neg hy, HighOk] at h
    · subst hy
      apply emax2_high_right
      cases d with
      | negInf => simp [HighOk] at hd
      | posInf => simp [emul, esign, HighOk]
      | fin d' =>
        simp only [HighOk] at hd
        rw [emul_posInf_zero] at h
        rcases (Int.lt_or_le 0 d') with hp | hp
        · simp [emul_posInf_pos hp, HighOk]
        · have : d' = 0 := by omega
          subst this; rw [emul_posInf_zero]; exact h
    · apply emax2_high_right
      cases d with
      | negInf => simp [HighOk] at hd
      | posInf => simp [emul, esign, HighOk]
      | fin d' =>
        simp only [HighOk] at hd
        simp [emul_posInf_pos (show 0 < d' by omega), HighOk]
  | negInf =>
    rcases Int.lt_trichotomy y 0 with hy | hy | hy
    · apply emax2_high_left
      cases c with
      | posInf => simp [LowOk] at hc
      | negInf => simp [emul, esign, HighOk]
      | fin c' =>
        simp only [LowOk] at hc
        simp [emul_negInf_neg (show c' < 0 by omega), HighOk]
    · subst hy
      apply emax2_high_left
      cases c with
      | posInf => simp [LowOk] at hc
      | negInf => simp [emul, esign, HighOk]
      | fin c' =>
        simp only [LowOk] at hc
        rw [emul_negInf_zero] at h
        rcases (Int.lt_or_le c' 0) with hp | hp
        · simp [emul_negInf_neg hp, HighOk]
        · have : c' = 0 := by omega
          subst this; rw [emul_negInf_zero]; exact h
    · simp [emul_negInf_pos hy, HighOk] at h

theorem emul_low_ends {e c d : ExtInt} {y w : Int} (hc : LowOk c y) (hd : HighOk d y)
    (h : LowOk (emul e (.fin y)) w) : LowOk (emin2 (emul e c) (emul e d)) w := by
  cases e with
  | fin x =>
    have h1 : LowOk (emin2 (emul c (.fin x)) (emul d (.fin x))) (y * x) := mul_low_fin hc hd
    rw [emul_comm c, emul_comm d] at h1
    simp only [emul, LowOk] at h
    exact h1.mono (by rw [Int.mul_comm]; exact h)
  | posInf =>
    rcases Int.lt_trichotomy y 0 with hy | hy | hy
    · apply emin2_low_left
      cases c with
      | posInf => simp [LowOk] at hc
      | negInf => simp [emul, esign, LowOk]
      | fin c' =>
        simp only [LowOk] at hc
        simp [emul_posInf_neg (show c' < 0 by omega), LowOk]
    · subst hy
      apply emin2_low_left
      cases c with
      | posInf => simp [LowOk] at hc
      | negInf => simp [emul, esign, LowOk]
      | fin c' =>
        simp only [LowOk] at hc
        rw [emul_posInf_zero] at h
        rcases (Int.lt_or_le c' 0) with hp | hp
        · simp [emul_posInf_neg hp, LowOk]
        · have : c' = 0 := by omega
          subst this; rw [emul_posInf_zero]; exact h
    · simp [emul_posInf_pos hy, LowOk] at h
  | negInf =>
    rcases Int.lt_trichotomy y 0 with hy | hy | hy
    · simp [emul_negInf_neg hy, LowOk] at h
    · subst hy
      apply emin2_low_right
      cases d with
      | negInf => simp [HighOk] at hd
      | posInf => simp [emul, esign, LowOk]
      | fin d' =>
        simp only [HighOk] at hd
        rw [emul_negInf_zero] at h
        rcases (Int.lt_or_le 0 d') with hp | hp
        · simp [emul_negInf_pos hp, LowOk]
        · have : d' = 0 := by omega
          subst this; rw [emul_negInf_zero]; exact h
    · apply emin2_low_right
      cases d with
      | negInf => simp [HighOk] at hd
      | posInf => simp [emul, esign, LowOk]
      | fin d' =>
        simp only [HighOk] at hd
        simp [emul_negInf_pos (show 0 < d' by omega), LowOk]

/-- interval product: the four-corner maximum bounds `x*y` from above … -/
theorem mul_corners_high {a b c d : ExtInt} {x y : Int}
    (ha : LowOk a x) (hb : HighOk b x) (hc : LowOk c y) (hd : HighOk d y) :
    HighOk (emaxL [emul b d, emul a d, emul b c, emul a c]) (x * y) := by
  rcases emax2_high_iff.mp (mul_high_fin (y := y) ha hb) with h | h
  · rcases emax2_high_iff.mp (emul_high_ends hc hd h) with h' | h'
    · exact emaxL_high (x := emul a c) (by simp) h'
    · exact emaxL_high (x := emul a d) (by simp) h'
  · rcases emax2_high_iff.mp (emul_high_ends hc hd h) with h' | h'
    · exact emaxL_high (x := emul b c) (by simp) h'
    · exact emaxL_high (x := emul b d) (by simp) h'

/-- … and the four-corner minimum from below. -/
theorem mul_corners_low {a b c d : ExtInt} {x y : Int}
    (ha : LowOk a x) (hb : HighOk b x) (hc : LowOk c y) (hd : HighOk d y) :
    LowOk (eminL [emul b d, emul a d, emul b c, emul a c]) (x * y) := by
  rcases emin2_low_iff.mp (mul_low_fin (y := y) ha hb) with h | h
  · rcases emin2_low_iff.mp (emul_low_ends hc hd h) with h' | h'
    · exact eminL_low (x := emul a c) (by simp) h'
    · exact eminL_low (x := emul a d) (by simp) h'
  · rcases emin2_low_iff.mp (emul_low_ends hc hd h) with h' | h'
    · exact eminL_low (x := emul b c) (by simp) h'
    · exact eminL_low (x := emul b d) (by simp) h'

end Emboss.Bounds
