import Emboss.Lemmas.TarjanPop
namespace Emboss.Deps

/-- The part of `strong_connect` after the loop establishes the postcondition. -/
theorem finish_post {g : Graph} {v : Nat} {s0 t : TState}
    (hL : LoopInv g v s0 t (fun d => Edge g v d)) : Post g v s0 (finish g v t) := by
  obtain ⟨seg, hstk, hseg⟩ := hL.stk
  have vseg : v ∉ seg := fun h => (hseg v h).2.1 rfl
  by_cases heq : lw t v = ix t v
  · have hpop : popUntil v t.stack = (seg ++ [v], s0.stack) := by
      rw [hstk]; exact popUntil_append v seg s0.stack vseg
    have hon : (seg ++ [v]).foldl List.erase t.onStack = s0.stack := by
      rw [hL.inv.onst, hstk]
      have : seg ++ v :: s0.stack = (seg ++ [v]) ++ s0.stack := by simp
      rw [this]; exact foldl_erase_append _ _
    cases hnt : nontrivial g (seg ++ [v])
    · have : finish g v t = popped t s0.stack t.comps := by
        simp [finish, heq, hpop, hon, hnt, popped]
      rw [this]
      exact popped_post hL hstk hseg heq (.inr ⟨rfl, hnt⟩)
    · have : finish g v t = popped t s0.stack (t.comps ++ [seg ++ [v]]) := by
        simp [finish, heq, hpop, hon, hnt, popped]
      rw [this]
      exact popped_post hL hstk hseg heq (.inl ⟨rfl, hnt⟩)
  · have : finish g v t = t := by simp [finish, heq]
    rw [this]
    have hlv := (hL.inv.low v hL.v_mem).1
    refine { inv := hL.inv, old := hL.old, vidx := hL.vidx, succIdx := ?_, stk := ?_,
             vlow := .inl hL.v_mem }
    · intro w d hw hws he
      by_cases hwv : w = v
      · subst hwv; exact (hL.proc d he).1
      · exact hL.succIdx w d hw hws hwv he
    · refine ⟨seg ++ [v], by simp [hstk], fun w hw => ?_⟩
      simp only [List.mem_append, List.mem_singleton] at hw
      rcases hw with hw | rfl
      · obtain ⟨b1, _, b3, b4, b5, b6⟩ := hseg w hw
        exact ⟨b1, b3, b4, b5, b6⟩
      · exact ⟨hL.vnew, .refl _, by omega, Nat.le_refl _, fun y hy he => (hL.proc y he).2 hy⟩

theorem unvisited_pos {g : Graph} {s : TState} {v : Nat} (hv : v ∈ keys g)
    (hi : indexed s v = false) : 0 < unvisited g s := by
  unfold unvisited
  rw [List.countP_pos_iff]
  exact ⟨v, hv, by simp [hi]⟩

/-- `strong_connect` meets its specification for every fuel (recursion depth) that is at
least the number of keys not yet indexed. -/
theorem strongConnect_spec {g : Graph} (hcl : ∀ a b, Edge g a b → b ∈ keys g) :
    ∀ fuel, SCSpec g fuel (strongConnect g fuel) := by
  intro fuel
  induction fuel with
  | zero =>
    intro v s _ hi hv hf
    have := unvisited_pos (g := g) hv hi
    omega
  | succ n ih =>
    intro v s hinv hi hv hf
    show Post g v s (finish g v (visitEdges (strongConnect g n) v (succs g v) (push v s)))
    have h0 := LoopInv.init hinv v hi
    have hlt : unvisited g (push v s) < unvisited g s :=
      unvisited_lt g (fun w hw => by simp [hw]) v hv hi (by simp)
    have h1 := visitEdges_spec ih hcl v s (succs g v) (push v s) _ h0 (fun d hd => hd) (by omega)
    exact finish_post (h1.mono (fun d hd => .inr hd))

theorem Inv.init (g : Graph) : Inv g TState.init := by
  refine { onst := rfl, sorted := by simp [TState.init], stkIdx := by simp [TState.init],
           idxLt := ?_, low := by simp [TState.init], doneClosed := ?_, compsOk := by simp [TState.init],
           compsDisj := by simp [TState.init], compsAll := ?_, noOof := rfl }
  · intro w hw; simp [indexed, TState.init] at hw
  · intro w d hw; simp [indexed, TState.init] at hw
  · intro w hw; simp [indexed, TState.init] at hw

/-- A top-level call (empty stack) returns with an empty stack. -/
theorem Post.stack_nil {g : Graph} {v : Nat} {s s' : TState} (h : Post g v s s')
    (hs : s.stack = []) : s'.stack = [] := by
  obtain ⟨new, hstk, hnew⟩ := h.stk
  rw [hs, List.append_nil] at hstk
  have key : ∀ n, ∀ w ∈ new, ix s' w ≤ n → False := by
    intro n
    induction n with
    | zero =>
      intro w hw hle
      have := (hnew w hw).2.2.1
      omega
    | succ n ih =>
      intro w hw hle
      obtain ⟨_, y, hy1, hy2, _⟩ := h.inv.low w (by rw [hstk]; exact hw)
      have := (hnew w hw).2.2.1
      rw [hstk] at hy1
      exact ih y hy1 (by omega)
  cases hn : new with
  | nil => rw [hstk, hn]
  | cons w ws => exact (key _ w (by simp [hn]) (Nat.le_refl _)).elim

theorem tarjanLoop_spec {g : Graph} (hcl : ∀ a b, Edge g a b → b ∈ keys g) (fuel : Nat) :
    ∀ (vs : List Nat) (s : TState), Inv g s → s.stack = [] → (∀ v ∈ vs, v ∈ keys g) →
      unvisited g s ≤ fuel →
      Inv g (tarjanLoop g fuel vs s) ∧ (tarjanLoop g fuel vs s).stack = [] ∧
      (∀ w, indexed s w = true → indexed (tarjanLoop g fuel vs s) w = true) ∧
      (∀ v ∈ vs, indexed (tarjanLoop g fuel vs s) v = true) := by
  intro vs
  induction vs with
  | nil => intro s hinv hs _ _; exact ⟨hinv, hs, fun w hw => hw, by simp⟩
  | cons v vs ih =>
    intro s hinv hs hk hf
    unfold tarjanLoop
    by_cases hi : indexed s v = false
    · simp only [hi, if_true]
      have hP := strongConnect_spec hcl fuel v s hinv hi (hk v (by simp)) hf
      have hmono : ∀ w, indexed s w = true → indexed (strongConnect g fuel v s) w = true :=
        fun w hw => (hP.old w hw).1
      obtain ⟨a1, a2, a3, a4⟩ := ih _ hP.inv (hP.stack_nil hs) (fun x hx => hk x (by simp [hx]))
        (Nat.le_trans (unvisited_mono g hmono) hf)
      refine ⟨a1, a2, fun w hw => a3 w (hmono w hw), fun x hx => ?_⟩
      rcases List.mem_cons.mp hx with rfl | hx
      · exact a3 x hP.vidx.1
      · exact a4 x hx
    · have hi' : indexed s v = true := by simpa using hi
      simp only [hi', Bool.true_eq_false, if_false]
      obtain ⟨a1, a2, a3, a4⟩ := ih s hinv hs (fun x hx => hk x (by simp [hx])) hf
      refine ⟨a1, a2, a3, fun x hx => ?_⟩
      rcases List.mem_cons.mp hx with rfl | hx
      · exact a3 x hi'
      · exact a4 x hx

/-! ### From `closed` / `lookup` to the abstract graph -/

theorem lookup_mem {g : Graph} {a : Nat} {ds : List Nat} (h : g.lookup a = some ds) : (a, ds) ∈ g := by
  induction g with
  | nil => simp [List.lookup] at h
  | cons p t ih =>
    obtain ⟨k, x⟩ := p
    by_cases hk : a = k
    · subst hk; simp [List.lookup] at h; subst h; simp
    · have : (a == k) = false := by simpa using hk
      simp [List.lookup, this] at h
      exact List.mem_cons_of_mem _ (ih h)

theorem edge_src_key {g : Graph} {a b : Nat} (h : Edge g a b) : a ∈ keys g := by
  unfold Edge succs at h
  split at h
  · rename_i ds hl
    have := lookup_mem hl
    exact List.mem_map.mpr ⟨(a, ds), this, rfl⟩
  · simp at h

theorem closed_edge {g : Graph} (hc : closed g = true) : ∀ a b, Edge g a b → b ∈ keys g := by
  intro a b h
  unfold Edge succs at h
  split at h
  · rename_i ds hl
    have hm := lookup_mem hl
    unfold closed at hc
    rw [List.all_eq_true] at hc
    have := hc (a, ds) hm
    rw [List.all_eq_true] at this
    simpa using this b h
  · simp at h

theorem ReachP.congr {g g' : Graph} (he : ∀ a b, Edge g a b → Edge g' a b) {a b : Nat}
    (h : ReachP g a b) : ReachP g' a b := by
  induction h with
  | single e => exact .single (he _ _ e)
  | step e _ ih => exact .step (he _ _ e) ih

theorem Reach.congr {g g' : Graph} (he : ∀ a b, Edge g a b → Edge g' a b) {a b : Nat}
    (h : Reach g a b) : Reach g' a b := by
  induction h with
  | refl => exact .refl _
  | step e _ ih => exact .step (he _ _ e) ih

end Emboss.Deps
