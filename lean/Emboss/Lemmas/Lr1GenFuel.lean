/-
Level B, part 5: the fuel bounds of the generator model suffice.

* FIRST: every round that does not stop adds a (nonterminal, terminal) pair or a nullable bit;
  there are at most `n·n + n` of them (`n` = number of symbol codes) — `firstFuel`.
* closure: every iteration of the worklist takes one item off the list; only dot-0 items with a
  production index `< |rules|` and a lookahead `< n` are ever added, each once — `itemBound`.
-/
import Emboss.Lemmas.Lr1GenBfs
namespace Emboss.Lr1
namespace Gen

/-! ### counting -/

theorem countP_succ_le {α} {p q : α → Bool} {l : List α} (hmono : ∀ x ∈ l, q x = true → p x = true)
    {a : α} (ha : a ∈ l) (hp : p a = true) (hq : q a = false) : l.countP q + 1 ≤ l.countP p := by
  induction l with
  | nil => cases ha
  | cons b l ih =>
    have hm' : ∀ x ∈ l, q x = true → p x = true := fun x hx => hmono x (List.mem_cons_of_mem _ hx)
    simp only [List.countP_cons]
    rcases List.mem_cons.mp ha with rfl | ha
    · have := List.countP_mono_left hm'
      simp only [hp, hq, if_true, Bool.false_eq_true, if_false]
      omega
    · have := ih hm' ha
      by_cases hqb : q b = true
      · have hpb := hmono b List.mem_cons_self hqb
        simp only [hqb, hpb, if_true]
        omega
      · have hqb' : q b = false := by simpa using hqb
        by_cases hpb : p b = true
        · simp only [hqb', hpb, if_true, Bool.false_eq_true, if_false]; omega
        · simp only [hqb', hpb, Bool.false_eq_true, if_false]; omega

def pairs (n : Nat) : List (Nat × Nat) := (List.range n).flatMap fun x => (List.range n).map fun c => (x, c)

theorem mem_pairs {n x c : Nat} (hx : x < n) (hc : c < n) : (x, c) ∈ pairs n :=
  List.mem_flatMap.mpr ⟨x, List.mem_range.mpr hx, List.mem_map.mpr ⟨c, List.mem_range.mpr hc, rfl⟩⟩

theorem length_flatMap_const {α β} (n : Nat) (f : α → List β) (hf : ∀ a, (f a).length = n) :
    ∀ l : List α, (l.flatMap f).length = l.length * n
  | [] => by simp
  | a :: l => by
    simp only [List.flatMap_cons, List.length_append, hf, length_flatMap_const n f hf l, List.length_cons]
    rw [Nat.add_mul, Nat.one_mul, Nat.add_comm]

theorem length_pairs (n : Nat) : (pairs n).length = n * n := by
  unfold pairs
  rw [length_flatMap_const n _ (by intro a; simp)]
  simp

/-! ### FIRST -/

def freeF (C : Cert) : Nat :=
  (pairs C.nt.size).countP fun xc => decide (xc.2 ∉ (C.first[xc.1]?).getD [])
def freeN (C : Cert) : Nat :=
  (List.range C.nt.size).countP fun x => !((C.nullable[x]?).getD false)

theorem free_le (C : Cert) : freeF C + freeN C ≤ C.nt.size * C.nt.size + C.nt.size := by
  have h1 : freeF C ≤ (pairs C.nt.size).length := List.countP_le_length
  have h2 : freeN C ≤ (List.range C.nt.size).length := List.countP_le_length
  rw [length_pairs] at h1
  simp only [List.length_range] at h2
  omega

structure InvF (C : Cert) : Prop where
  ntLhs : ∀ p ∈ C.rules.toList, C.isNT p.lhs = true
  rhsS : ∀ p ∈ C.rules.toList, ∀ x ∈ p.rhs, x < C.nt.size
  fS : ∀ x : Nat, ∀ c ∈ (C.first[x]?).getD [], c < C.nt.size

theorem isNT_lt {C : Cert} {x : Nat} (h : C.isNT x = true) : x < C.nt.size := by
  unfold Cert.isNT at h
  by_cases hx : x < C.nt.size
  · exact hx
  · rw [Array.getElem?_eq_none (Nat.le_of_not_lt hx)] at h
    cases h

theorem InvF.firstOf {C : Cert} (h : InvF C) {x c : Nat} (hx : x < C.nt.size) (hc : c ∈ C.firstOf x) :
    c < C.nt.size := by
  unfold Cert.firstOf at hc
  split at hc
  · exact h.fS x c hc
  · simp only [List.mem_singleton] at hc
    rw [hc]; exact hx

theorem InvF.firstSeq {C : Cert} (h : InvF C) {β t : List Nat} {c : Nat} (hc : c ∈ C.firstSeq β t)
    (hβ : ∀ x ∈ β, x < C.nt.size) (ht : ∀ a ∈ t, a < C.nt.size) : c < C.nt.size := by
  rcases mem_firstSeq hc with h1 | ⟨x, hx, h1⟩
  · exact ht c h1
  · exact h.firstOf (hβ x hx) h1

theorem first_round (C : Cert) (x : Nat) : (firstRound C).first[x]? =
    if x < C.nt.size then some (unionL ((C.first[x]?).getD [])
      ((C.rules.toList.filter fun p => p.lhs == x).flatMap fun p => C.firstSeq p.rhs [])) else none := by
  simp only [firstRound, tab_get]

theorem nullable_round (C : Cert) (x : Nat) : (firstRound C).nullable[x]? =
    if x < C.nt.size then some ((C.nullable[x]?).getD false ||
      C.rules.toList.any fun p => p.lhs == x && p.rhs.all C.nullableOf) else none := by
  simp only [firstRound, tab_get]

theorem firstRound_invF {C : Cert} (h : InvF C) : InvF (firstRound C) := by
  refine ⟨h.ntLhs, h.rhsS, ?_⟩
  intro x c hc
  show c < C.nt.size
  rw [first_round] at hc
  split at hc
  · simp only [Option.getD_some, mem_unionL, List.mem_flatMap, List.mem_filter] at hc
    rcases hc with hc | ⟨p, ⟨hp, _⟩, hc⟩
    · exact h.fS x c hc
    · exact h.firstSeq hc (h.rhsS p hp) (by simp)
  · simp at hc

theorem firstRound_freeF_le (C : Cert) : freeF (firstRound C) ≤ freeF C := by
  unfold freeF
  show List.countP _ (pairs C.nt.size) ≤ _
  refine List.countP_mono_left ?_
  intro xc hxc hq
  simp only [decide_eq_true_eq] at hq ⊢
  intro hmem
  apply hq
  rw [first_round]
  have hx : xc.1 < C.nt.size := by
    obtain ⟨x, hx, hm⟩ := List.mem_flatMap.mp hxc
    obtain ⟨c, _, rfl⟩ := List.mem_map.mp hm
    exact List.mem_range.mp hx
  rw [if_pos hx]
  exact mem_unionL.mpr (Or.inl hmem)

theorem firstRound_freeN_le (C : Cert) : freeN (firstRound C) ≤ freeN C := by
  unfold freeN
  show List.countP _ (List.range C.nt.size) ≤ _
  refine List.countP_mono_left ?_
  intro x hx hq
  have hx' : x < C.nt.size := List.mem_range.mp hx
  rw [nullable_round, if_pos hx'] at hq
  simp only [Option.getD_some, Bool.not_eq_true', Bool.or_eq_false_iff] at hq
  simp [hq.1]

/-- a round that does not meet the stop test adds something -/
theorem firstRound_progress {C : Cert} (h : InvF C) (hv : ¬ VFirst C) :
    freeF (firstRound C) + freeN (firstRound C) < freeF C + freeN C := by
  have hF := firstRound_freeF_le C
  have hN := firstRound_freeN_le C
  by_cases h1 : ∃ p ∈ C.rules.toList, ∃ c ∈ C.firstSeq p.rhs [], c ∉ C.firstOf p.lhs
  · obtain ⟨p, hp, c, hc, hnc⟩ := h1
    have hnt := h.ntLhs p hp
    have hl := isNT_lt hnt
    have hcs : c < C.nt.size := h.firstSeq hc (h.rhsS p hp) (by simp)
    have hfo : C.firstOf p.lhs = (C.first[p.lhs]?).getD [] := by simp [Cert.firstOf, hnt]
    rw [hfo] at hnc
    have : freeF (firstRound C) + 1 ≤ freeF C := by
      unfold freeF
      show List.countP _ (pairs C.nt.size) + 1 ≤ _
      refine countP_succ_le ?_ (mem_pairs hl hcs) (by simpa using hnc) ?_
      · intro xc hxc hq
        simp only [decide_eq_true_eq] at hq ⊢
        intro hmem
        apply hq
        rw [first_round]
        have hx : xc.1 < C.nt.size := by
          obtain ⟨x, hx, hm⟩ := List.mem_flatMap.mp hxc
          obtain ⟨c, _, rfl⟩ := List.mem_map.mp hm
          exact List.mem_range.mp hx
        rw [if_pos hx]
        exact mem_unionL.mpr (Or.inl hmem)
      · simp only [decide_eq_false_iff_not, Decidable.not_not]
        rw [first_round, if_pos hl]
        refine mem_unionL.mpr (Or.inr (List.mem_flatMap.mpr ⟨p, List.mem_filter.mpr ⟨hp, by simp⟩, hc⟩))
    omega
  · by_cases h2 : ∃ p ∈ C.rules.toList, p.rhs.all C.nullableOf = true ∧ C.nullableOf p.lhs = false
    · obtain ⟨p, hp, hall, hnl⟩ := h2
      have hnt := h.ntLhs p hp
      have hl := isNT_lt hnt
      have hold : (C.nullable[p.lhs]?).getD false = false := by
        simpa [Cert.nullableOf, hnt] using hnl
      have : freeN (firstRound C) + 1 ≤ freeN C := by
        unfold freeN
        show List.countP _ (List.range C.nt.size) + 1 ≤ _
        refine countP_succ_le ?_ (List.mem_range.mpr hl) (by simp [hold]) ?_
        · intro x hx hq
          have hx' : x < C.nt.size := List.mem_range.mp hx
          rw [nullable_round, if_pos hx'] at hq
          simp only [Option.getD_some, Bool.not_eq_true', Bool.or_eq_false_iff] at hq
          simp [hq.1]
        · rw [nullable_round, if_pos hl]
          simp only [Option.getD_some, Bool.not_eq_false', Bool.or_eq_true]
          exact Or.inr (List.any_eq_true.mpr ⟨p, hp, by simp [hall]⟩)
      omega
    · exfalso
      apply hv
      intro p hp
      constructor
      · intro hall
        cases hn : C.nullableOf p.lhs with
        | true => rfl
        | false => exact absurd ⟨p, hp, hall, hn⟩ h2
      · intro c hc
        by_cases hm : c ∈ C.firstOf p.lhs
        · exact hm
        · exact absurd ⟨p, hp, c, hc, hm⟩ h1

theorem firstFix_some : ∀ (f : Nat) (C : Cert), InvF C → freeF C + freeN C < f →
    ∃ C', firstFix f C = some C'
  | 0, _, _, h => by omega
  | f + 1, C, hi, h => by
    simp only [firstFix]
    split
    · exact ⟨C, rfl⟩
    · rename_i hv
      have := firstRound_progress hi hv
      exact firstFix_some f _ (firstRound_invF hi) (by omega)

theorem firstFix_invF : ∀ (f : Nat) (C C' : Cert), firstFix f C = some C' → InvF C → InvF C'
  | 0, _, _, h, _ => by simp [firstFix] at h
  | f + 1, C, C', h, hi => by
    simp only [firstFix] at h
    split at h
    · cases h; exact hi
    · exact firstFix_invF f _ C' h (firstRound_invF hi)

theorem tables0_invF (G : Grammar) : InvF (tables0 G) := by
  have hsz : (tables0 G).nt.size = nsym G := by simp [tables0]
  refine ⟨?_, ?_, ?_⟩
  · intro p hp
    have hp' : p ∈ G.all := by simpa [tables0] using hp
    simp only [Cert.isNT, tables0, tab_get, if_pos (lhs_lt_nsym hp'), Option.getD_some]
    exact List.any_eq_true.mpr ⟨p, hp', by simp⟩
  · intro p hp x hx
    have hp' : p ∈ G.all := by simpa [tables0] using hp
    rw [hsz]; exact rhs_lt_nsym hp' hx
  · intro x c hc
    simp only [tables0, tab_get] at hc
    split at hc <;> simp at hc

/-- **The FIRST iteration terminates within its fuel.** -/
theorem tables_some (G : Grammar) : ∃ C, tables G = some C := by
  unfold tables
  refine firstFix_some _ _ (tables0_invF G) ?_
  have := free_le (tables0 G)
  have hsz : (tables0 G).nt.size = nsym G := by simp [tables0]
  rw [hsz] at this
  unfold firstFuel
  have : nsym G * (nsym G + 1) = nsym G * nsym G + nsym G := by rw [Nat.mul_add, Nat.mul_one]
  omega

theorem tables_invF {G : Grammar} {C : Cert} (h : tables G = some C) : InvF C :=
  firstFix_invF _ _ _ h (tables0_invF G)

/-! ### closure -/

/-- the dot-0 items the closure can add -/
def univ0 (C : Cert) : List Item :=
  (List.range C.rules.size).flatMap fun j => (List.range C.nt.size).map fun c => (⟨j, 0, c⟩ : Item)

theorem length_univ0 (C : Cert) : (univ0 C).length = C.rules.size * C.nt.size := by
  unfold univ0
  rw [length_flatMap_const C.nt.size _ (by intro a; simp)]
  simp

def freeI (C : Cert) (acc : List Item) : Nat := (univ0 C).countP fun y => decide (y ∉ acc)

theorem freeI_le (C : Cert) (acc : List Item) : freeI C acc ≤ itemBound C := by
  have h1 : freeI C acc ≤ (univ0 C).length := List.countP_le_length
  rw [length_univ0] at h1
  unfold itemBound
  have : C.rules.size * C.nt.size ≤ C.rules.size * (maxRhs C + 1) * C.nt.size :=
    Nat.mul_le_mul_right _ (Nat.le_mul_of_pos_right _ (Nat.succ_pos _))
  omega

theorem addNew_measure (C : Cert) : ∀ (js acc todo : List Item), (∀ j ∈ js, j ∈ univ0 C) →
    (addNew acc todo js).2.length + freeI C (addNew acc todo js).1 ≤ todo.length + freeI C acc
  | [], _, _, _ => Nat.le_refl _
  | j :: js, acc, todo, hj => by
    unfold addNew
    split
    · exact addNew_measure C js acc todo (fun k hk => hj k (List.mem_cons_of_mem _ hk))
    · rename_i hc
      have hnm : j ∉ acc := by simpa using hc
      have ih := addNew_measure C js (j :: acc) (j :: todo) (fun k hk => hj k (List.mem_cons_of_mem _ hk))
      have hdec : freeI C (j :: acc) + 1 ≤ freeI C acc := by
        unfold freeI
        refine countP_succ_le ?_ (hj j List.mem_cons_self) (by simpa using hnm) (by simp)
        intro y _ hq
        simp only [decide_eq_true_eq, List.mem_cons, not_or] at hq ⊢
        exact hq.2
      simp only [List.length_cons] at ih
      omega

/-- lookahead in range -/
def Small (C : Cert) (it : Item) : Prop := it.la < C.nt.size

structure InvC (C : Cert) : Prop where
  invF : InvF C
  prodsS : ∀ x j, j ∈ C.prodsFor x → j < C.rules.size

theorem succs_univ {C : Cert} (h : InvC C) {it y : Item} (hit : Small C it) (hy : y ∈ succsOf C it) :
    y ∈ univ0 C ∧ Small C y := by
  obtain ⟨p, x, hp, hx, k, hk, c, hc, rfl⟩ := mem_succsOf.mp hy
  have hpm : p ∈ C.rules.toList := by
    unfold Cert.ruleAt at hp
    rw [← Array.getElem?_toList] at hp
    exact List.mem_of_getElem? hp
  have hcs : c < C.nt.size := by
    refine h.invF.firstSeq hc ?_ ?_
    · intro z hz
      exact h.invF.rhsS p hpm z (List.mem_of_mem_drop hz)
    · intro a ha
      simp only [List.mem_singleton] at ha
      rw [ha]; exact hit
  exact ⟨List.mem_flatMap.mpr ⟨k, List.mem_range.mpr (h.prodsS x k hk),
    List.mem_map.mpr ⟨c, List.mem_range.mpr hcs, rfl⟩⟩, hcs⟩

theorem closeLoop_some {C : Cert} (h : InvC C) : ∀ (f : Nat) (todo acc : List Item),
    (∀ x ∈ todo, Small C x) → todo.length + freeI C acc ≤ f → ∃ S, closeLoop C f todo acc = some S
  | _, [], acc, _, _ => ⟨acc, by simp [closeLoop]⟩
  | 0, _ :: _, _, _, hf => by simp at hf
  | f + 1, it :: todo, acc, hs, hf => by
    simp only [closeLoop]
    have hit := hs it List.mem_cons_self
    have hm := addNew_measure C (succsOf C it) acc todo (fun j hj => (succs_univ h hit hj).1)
    obtain ⟨_, _, _, h4, h5, _⟩ := addNew_spec (succsOf C it) acc todo
    refine closeLoop_some h f _ _ ?_ (by simp only [List.length_cons] at hf; omega)
    intro x hx
    -- everything on the new worklist is old worklist or a successor
    have : x ∈ todo ∨ x ∈ succsOf C it := by
      clear hm hf
      have key : ∀ (js acc todo : List Item), ∀ x ∈ (addNew acc todo js).2, x ∈ todo ∨ x ∈ js := by
        intro js
        induction js with
        | nil => intro acc todo x hx; exact Or.inl hx
        | cons j js ih =>
          intro acc todo x hx
          unfold addNew at hx
          split at hx
          · rcases ih acc todo x hx with h | h
            · exact Or.inl h
            · exact Or.inr (List.mem_cons_of_mem _ h)
          · rcases ih (j :: acc) (j :: todo) x hx with h | h
            · rcases List.mem_cons.mp h with rfl | h
              · exact Or.inr List.mem_cons_self
              · exact Or.inl h
            · exact Or.inr (List.mem_cons_of_mem _ h)
      exact key _ _ _ x hx
    rcases this with ht | hsucc
    · exact hs x (List.mem_cons_of_mem _ ht)
    · exact (succs_univ h hit hsucc).2

/-- **The worklist closure terminates within its fuel** (for seeds with lookaheads in range). -/
theorem closure_some {C : Cert} (h : InvC C) {seed : List Item} (hs : ∀ x ∈ seed, Small C x) :
    ∃ S, closure C seed = some S := by
  unfold closure
  refine closeLoop_some h _ seed seed hs ?_
  have := freeI_le C seed
  omega

theorem tables_invC {G : Grammar} {C : Cert} (h : tables G = some C) : InvC C := by
  refine ⟨tables_invF h, ?_⟩
  intro x j hj
  obtain ⟨p, hp, _⟩ := (tables_ok h).prodsS x j hj
  unfold Cert.ruleAt at hp
  exact (Array.getElem?_eq_some_iff.mp hp).1

end Gen
end Emboss.Lr1
