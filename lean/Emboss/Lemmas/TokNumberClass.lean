/-
C10, table-specific: classification of a maximal word run that starts with a digit.
-/
import Emboss.Lemmas.TokNumbers
namespace Emboss.Tok
open Emboss.Regex Emboss.Tok.Class Emboss.Generated

theorem reHex_eq : reHex = litThen ['0', 'x'] (plus cHex) := by decide
theorem reHex4_eq : reHex4 = litThen ['0', 'x'] (.seq (opt (litC '_')) (grouped cHex 4 4)) := by decide
theorem reHex8_eq : reHex8 = litThen ['0', 'x'] (.seq (opt (litC '_')) (grouped cHex 8 8)) := by decide
theorem reBin_eq : reBin = litThen ['0', 'b'] (plus cBin) := by decide
theorem reBin4_eq : reBin4 = litThen ['0', 'b'] (.seq (opt (litC '_')) (grouped cBin 4 4)) := by decide
theorem reBin8_eq : reBin8 = litThen ['0', 'b'] (.seq (opt (litC '_')) (grouped cBin 8 8)) := by decide

theorem digit_facts (x : Char) (hx : isDigit x = true) :
    isLower x = false ∧ isUpper x = false ∧ ('E' == x) = false ∧ ('e' == x) = false ∧
    (x == 't') = false ∧ (x == 'f') = false := by
  simp only [isDigit, between, Bool.and_eq_true, decide_eq_true_eq] at hx
  have h0 : '0'.toNat = 48 := by decide
  have h9 : '9'.toNat = 57 := by decide
  rw [h0, h9] at hx
  have ne : ∀ q : Char, (q.toNat < 48 ∨ 57 < q.toNat) → x ≠ q := by
    intro q hq hxq; subst hxq; omega
  refine ⟨?_, ?_, ?_, ?_, ?_, ?_⟩
  · simp only [isLower, between, Bool.and_eq_false_iff, decide_eq_false_iff_not]
    have : 'a'.toNat = 97 := by decide
    rw [this]; omega
  · simp only [isUpper, between, Bool.and_eq_false_iff, decide_eq_false_iff_not]
    have : 'Z'.toNat = 90 := by decide
    have : 'A'.toNat = 65 := by decide
    omega
  · have := ne 'E' (by decide); simpa using this.symm
  · have := ne 'e' (by decide); simpa using this.symm
  · have := ne 't' (by decide); simpa using this
  · have := ne 'f' (by decide); simpa using this

theorem keywords_no_digit : keywords.all (fun l => match l.toList with
    | q :: _ => !isDigit q | [] => true) = true := by decide

section
variable {w rest : List Char} (h : WordRun w rest)
include h

/-- The eight Number patterns together accept exactly `IsNumberDoc`. -/
theorem number_patterns_iff :
    (full reDec w rest = true ∨ full reDecGrouped w rest = true ∨ full reHex w rest = true ∨
      full reHex4 w rest = true ∨ full reHex8 w rest = true ∨ full reBin w rest = true ∨
      full reBin4 w rest = true ∨ full reBin8 w rest = true) ↔ IsNumberDoc w := by
  rw [full_dec h, full_decGrouped h, reHex_eq, reHex4_eq, reHex8_eq, reBin_eq, reBin4_eq, reBin8_eq,
    full_radix_plain h 'x' (by decide) cHex isHexDigit (funext cHex_mem) wo_hex,
    full_radix_grouped h 'x' (by decide) cHex isHexDigit (funext cHex_mem) wo_hex (by decide) 4 (by omega),
    full_radix_grouped h 'x' (by decide) cHex isHexDigit (funext cHex_mem) wo_hex (by decide) 8 (by omega),
    full_radix_plain h 'b' (by decide) cBin isBinDigit (funext cBin_mem) wo_bin,
    full_radix_grouped h 'b' (by decide) cBin isBinDigit (funext cBin_mem) wo_bin (by decide) 4 (by omega),
    full_radix_grouped h 'b' (by decide) cBin isBinDigit (funext cBin_mem) wo_bin (by decide) 8 (by omega)]
  simp only [IsNumberDoc, IsNumberNoPrefixUnderscore, IsNumberRadixUnderscore, IsDecimal, IsRadixBody]
  constructor
  · rintro (h1 | h1 | ⟨b, hw, hp⟩ | ⟨b, hw | hw, hg⟩ | ⟨b, hw | hw, hg⟩ | ⟨b, hw, hp⟩ | ⟨b, hw | hw, hg⟩ |
      ⟨b, hw | hw, hg⟩)
    · exact .inl (.inl (.inl h1))
    · exact .inl (.inl (.inr h1))
    · exact .inl (.inr (.inl ⟨b, hw, .inl hp⟩))
    · exact .inl (.inr (.inl ⟨b, hw, .inr (.inl hg)⟩))
    · exact .inr (.inl ⟨b, hw, .inl hg⟩)
    · exact .inl (.inr (.inl ⟨b, hw, .inr (.inr hg)⟩))
    · exact .inr (.inl ⟨b, hw, .inr hg⟩)
    · exact .inl (.inr (.inr ⟨b, hw, .inl hp⟩))
    · exact .inl (.inr (.inr ⟨b, hw, .inr (.inl hg)⟩))
    · exact .inr (.inr ⟨b, hw, .inl hg⟩)
    · exact .inl (.inr (.inr ⟨b, hw, .inr (.inr hg)⟩))
    · exact .inr (.inr ⟨b, hw, .inr hg⟩)
  · rintro (((h1 | h1) | ⟨b, hw, hp | hg | hg⟩ | ⟨b, hw, hp | hg | hg⟩) | ⟨b, hw, hg | hg⟩ | ⟨b, hw, hg | hg⟩)
    · exact .inl h1
    · exact .inr (.inl h1)
    · exact .inr (.inr (.inl ⟨b, hw, hp⟩))
    · exact .inr (.inr (.inr (.inl ⟨b, .inl hw, hg⟩)))
    · exact .inr (.inr (.inr (.inr (.inl ⟨b, .inl hw, hg⟩))))
    · exact .inr (.inr (.inr (.inr (.inr (.inl ⟨b, hw, hp⟩)))))
    · exact .inr (.inr (.inr (.inr (.inr (.inr (.inl ⟨b, .inl hw, hg⟩))))))
    · exact .inr (.inr (.inr (.inr (.inr (.inr (.inr ⟨b, .inl hw, hg⟩))))))
    · exact .inr (.inr (.inr (.inl ⟨b, .inr hw, hg⟩)))
    · exact .inr (.inr (.inr (.inr (.inl ⟨b, .inr hw, hg⟩))))
    · exact .inr (.inr (.inr (.inr (.inr (.inr (.inl ⟨b, .inr hw, hg⟩))))))
    · exact .inr (.inr (.inr (.inr (.inr (.inr (.inr ⟨b, .inr hw, hg⟩))))))

end

/-- **Numbers.**  At the start of a maximal word run that begins with a digit the pattern
loop returns the whole run; the symbol is `Number` iff the run is a numeric constant in
one of the accepted forms, else `BadNumber` if it has the catch-all number shape, else
`BadWord`. -/
theorem bestMatch_digit {w rest : List Char} (h : WordRun w rest) (x : Char) (t : List Char)
    (hw : w = x :: t) (hx : isDigit x = true) :
    ∃ sym, bestMatch tokTable.pats (w ++ rest) 0 none = some (w.length, some sym) ∧
      (IsNumberDoc w → sym = "Number") ∧
      (¬ IsNumberDoc w → isBadNumberShape w = true → sym = "BadNumber") ∧
      (¬ IsNumberDoc w → isBadNumberShape w = false → sym = "BadWord") := by
  obtain ⟨sy, hb, hbest⟩ := word_run_best h
  obtain ⟨p, hfind, hsym⟩ := hbest.find
  have hfind' : tokTable.pats.find? (fun p => full p.re w rest) = some p := hfind
  rw [tokTable_pats, List.find?_append, literal_find h] at hfind'
  obtain ⟨hl, hu, hE, he, ht, hf⟩ := digit_facts x hx
  have hk : keywordOf w = none := by
    simp only [keywordOf, List.find?_eq_none]
    intro l hl' hc
    have := List.all_eq_true.mp keywords_no_digit l hl'
    have hlw : l.toList = w := by simpa using hc
    rw [hlw, hw] at this
    simp only [Bool.not_eq_true'] at this
    rw [hx] at this; cases this
  obtain ⟨m1, m2, m3, m4, m5, m6⟩ := nonword_patterns_fail h
  have r1 : full reResCamel w rest = false := by
    rw [full_resCamel h, hw]; simp [List.isPrefixOf, hE]
  have r2 : full reResSnake w rest = false := by
    rw [full_resSnake h, hw]; simp [List.isPrefixOf, he]
  have r3 : full reResShouty w rest = false := by
    rw [full_resShouty h, hw]; simp [List.isPrefixOf, hE]
  have b1 : full reBool w rest = false := by
    rw [full_bool h, hw]
    have e1 : (x :: t == "true".toList) = false := by
      show (x :: t == ['t', 'r', 'u', 'e']) = false
      simp only [List.cons_beq_cons, ht, Bool.false_and]
    have e2 : (x :: t == "false".toList) = false := by
      show (x :: t == ['f', 'a', 'l', 's', 'e']) = false
      simp only [List.cons_beq_cons, hf, Bool.false_and]
    rw [e1, e2]; rfl
  have s1 : full reSnake w rest = false := by rw [full_snake h, hw]; simp [isSnake, hl]
  have s2 : full reShouty w rest = false := by rw [full_shouty h, hw]; simp [isShouty, hu]
  have s3 : full reCamel w rest = false := by rw [full_camel h, hw]; simp [isCamel, hu]
  rw [hk] at hfind'
  simp only [Option.map_none, Option.none_or, expectedRegexes, List.find?_cons, r1, r2, r3, b1, s1, s2, s3,
    m1, m2, m3, m4, m5, m6, full_badWord h, full_badNumber h] at hfind'
  have hN := number_patterns_iff h
  rw [hb]
  -- walk down the eight Number patterns
  by_cases c1 : full reDec w rest = true
  · rw [c1] at hfind'; simp only [Option.some.injEq] at hfind'
    refine ⟨"Number", by rw [← hsym, ← hfind'], fun _ => rfl, ?_, ?_⟩ <;>
      exact fun hn => absurd (hN.mp (.inl c1)) hn
  have c1' := (Bool.not_eq_true _).mp c1
  rw [c1'] at hfind'
  by_cases c2 : full reDecGrouped w rest = true
  · rw [c2] at hfind'; simp only [Option.some.injEq] at hfind'
    refine ⟨"Number", by rw [← hsym, ← hfind'], fun _ => rfl, ?_, ?_⟩ <;>
      exact fun hn => absurd (hN.mp (.inr (.inl c2))) hn
  have c2' := (Bool.not_eq_true _).mp c2
  rw [c2'] at hfind'
  by_cases c3 : full reHex w rest = true
  · rw [c3] at hfind'; simp only [Option.some.injEq] at hfind'
    refine ⟨"Number", by rw [← hsym, ← hfind'], fun _ => rfl, ?_, ?_⟩ <;>
      exact fun hn => absurd (hN.mp (.inr (.inr (.inl c3)))) hn
  have c3' := (Bool.not_eq_true _).mp c3
  rw [c3'] at hfind'
  by_cases c4 : full reHex4 w rest = true
  · rw [c4] at hfind'; simp only [Option.some.injEq] at hfind'
    refine ⟨"Number", by rw [← hsym, ← hfind'], fun _ => rfl, ?_, ?_⟩ <;>
      exact fun hn => absurd (hN.mp (.inr (.inr (.inr (.inl c4))))) hn
  have c4' := (Bool.not_eq_true _).mp c4
  rw [c4'] at hfind'
  by_cases c5 : full reHex8 w rest = true
  · rw [c5] at hfind'; simp only [Option.some.injEq] at hfind'
    refine ⟨"Number", by rw [← hsym, ← hfind'], fun _ => rfl, ?_, ?_⟩ <;>
      exact fun hn => absurd (hN.mp (.inr (.inr (.inr (.inr (.inl c5)))))) hn
  have c5' := (Bool.not_eq_true _).mp c5
  rw [c5'] at hfind'
  by_cases c6 : full reBin w rest = true
  · rw [c6] at hfind'; simp only [Option.some.injEq] at hfind'
    refine ⟨"Number", by rw [← hsym, ← hfind'], fun _ => rfl, ?_, ?_⟩ <;>
      exact fun hn => absurd (hN.mp (.inr (.inr (.inr (.inr (.inr (.inl c6))))))) hn
  have c6' := (Bool.not_eq_true _).mp c6
  rw [c6'] at hfind'
  by_cases c7 : full reBin4 w rest = true
  · rw [c7] at hfind'; simp only [Option.some.injEq] at hfind'
    refine ⟨"Number", by rw [← hsym, ← hfind'], fun _ => rfl, ?_, ?_⟩ <;>
      exact fun hn => absurd (hN.mp (.inr (.inr (.inr (.inr (.inr (.inr (.inl c7)))))))) hn
  have c7' := (Bool.not_eq_true _).mp c7
  rw [c7'] at hfind'
  by_cases c8 : full reBin8 w rest = true
  · rw [c8] at hfind'; simp only [Option.some.injEq] at hfind'
    refine ⟨"Number", by rw [← hsym, ← hfind'], fun _ => rfl, ?_, ?_⟩ <;>
      exact fun hn => absurd (hN.mp (.inr (.inr (.inr (.inr (.inr (.inr (.inr c8)))))))) hn
  have c8' := (Bool.not_eq_true _).mp c8
  rw [c8'] at hfind'
  have hnot : ¬ IsNumberDoc w := by
    intro hn
    rcases hN.mpr hn with q | q | q | q | q | q | q | q
    · exact c1 q
    · exact c2 q
    · exact c3 q
    · exact c4 q
    · exact c5 q
    · exact c6 q
    · exact c7 q
    · exact c8 q
  by_cases c9 : isBadNumberShape w = true
  · rw [c9] at hfind'; simp only [Option.some.injEq] at hfind'
    refine ⟨"BadNumber", by rw [← hsym, ← hfind'], fun hn => absurd hn hnot, fun _ _ => rfl, ?_⟩
    intro _ hc; rw [c9] at hc; cases hc
  have c9' := (Bool.not_eq_true _).mp c9
  rw [c9'] at hfind'
  simp only [Option.some.injEq] at hfind'
  refine ⟨"BadWord", by rw [← hsym, ← hfind'], fun hn => absurd hn hnot, ?_, fun _ _ => rfl⟩
  intro _ hc; rw [c9'] at hc; cases hc

end Emboss.Tok
