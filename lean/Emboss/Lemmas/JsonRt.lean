/-
C18 helper lemmas, part 2: `_from_dict ∘ to_dict = id` on well-formed messages, for every
schema satisfying `SchemaOk`.
-/
import Emboss.Lemmas.JsonLoc
namespace Emboss.Json

/-! ### the oneof constructor is the identity on reachable states -/

theorem construct_id : ∀ (fs : List FieldSpec) (vs : List Val),
    fs.length = vs.length → oneofOk fs vs = true → construct fs vs = vs
  | [], [], _, _ => rfl
  | [], _ :: _, h, _ => by cases h
  | _ :: _, [], h, _ => by cases h
  | f :: fs, v :: vs, hl, ho => by
    simp only [oneofOk, Bool.and_eq_true] at ho
    have ih := construct_id fs vs (by simpa using hl) ho.2
    simp only [construct, ih]
    cases hg : f.oneof with
    | none => rfl
    | some g =>
      have h1 := ho.1
      simp only [hg, Bool.or_eq_true, Bool.not_eq_true'] at h1
      rcases h1 with h1 | h1
      · cases v <;> simp_all [Val.isNone]
      · simp [h1]

/-! ### what `_from_dict` sees: the fields that were not dropped -/

def dropped : Val → Bool
  | .none => true
  | .list [] => true
  | _ => false

def expected : List FieldSpec → List Val → List (String × Val)
  | f :: fs, v :: vs => if dropped v then expected fs vs else (f.name, v) :: expected fs vs
  | _, _ => []

theorem lookup_append (k : String) (a b : List (String × Val)) :
    lookup k (a ++ b) = match lookup k a with
      | some v => some v
      | none => lookup k b := by
  induction a with
  | nil => simp [lookup]
  | cons p a ih =>
    obtain ⟨k', v⟩ := p
    simp only [List.cons_append, lookup]
    split <;> simp_all

theorem lookup_none_of_not_mem (k : String) (l : List (String × Val))
    (h : ∀ p ∈ l, p.1 ≠ k) : lookup k l = none := by
  induction l with
  | nil => rfl
  | cons p l ih =>
    obtain ⟨k', v⟩ := p
    have hk : k' ≠ k := h (k', v) List.mem_cons_self
    simp only [lookup, beq_iff_eq, hk, if_false]
    exact ih (fun p hp => h p (List.mem_cons_of_mem _ hp))

theorem expected_keys (fs : List FieldSpec) (vs : List Val) :
    ∀ p ∈ expected fs vs, ∃ f ∈ fs, f.name = p.1 := by
  induction fs generalizing vs with
  | nil => intro p hp; simp [expected] at hp
  | cons f fs ih =>
    cases vs with
    | nil => intro p hp; simp [expected] at hp
    | cons v vs =>
      intro p hp
      simp only [expected] at hp
      split at hp
      · obtain ⟨g, hg, e⟩ := ih vs p hp
        exact ⟨g, List.mem_cons_of_mem _ hg, e⟩
      · rcases List.mem_cons.mp hp with rfl | hp
        · exact ⟨f, List.mem_cons_self, rfl⟩
        · obtain ⟨g, hg, e⟩ := ih vs p hp
          exact ⟨g, List.mem_cons_of_mem _ hg, e⟩

theorem not_mem_names_of_distinct {f : FieldSpec} {fs : List FieldSpec}
    (h : (fs.any (fun g => g.name == f.name)) = false) : ∀ g ∈ fs, g.name ≠ f.name := by
  intro g hg e
  have : fs.any (fun g => g.name == f.name) = true :=
    List.any_eq_true.mpr ⟨g, hg, by simp [e]⟩
  rw [h] at this
  cases this

/-- Every dropped value is exactly what the constructor defaults to. -/
def defaultsBack : List FieldSpec → List Val → Prop
  | f :: fs, v :: vs => (dropped v = true → defaultOf f = some v) ∧ defaultsBack fs vs
  | [], [] => True
  | _, _ => False

theorem buildArgs_expected : ∀ (fs : List FieldSpec) (vs : List Val) (pre : List (String × Val)),
    namesDistinct fs = true → defaultsBack fs vs →
    (∀ p ∈ pre, ∀ f ∈ fs, p.1 ≠ f.name) →
    buildArgs (pre ++ expected fs vs) fs = some vs
  | [], [], _, _, _, _ => rfl
  | [], _ :: _, _, _, h, _ => by cases h
  | _ :: _, [], _, _, h, _ => by cases h
  | f :: fs, v :: vs, pre, hd, hb, hpre => by
    simp only [namesDistinct, Bool.and_eq_true, Bool.not_eq_true'] at hd
    obtain ⟨hd1, hd2⟩ := hd
    obtain ⟨hb1, hb2⟩ := hb
    have hfs := not_mem_names_of_distinct hd1
    have hpre_none : lookup f.name pre = none :=
      lookup_none_of_not_mem _ _ (fun p hp => hpre p hp f List.mem_cons_self)
    have hexp_none : lookup f.name (expected fs vs) = none :=
      lookup_none_of_not_mem _ _ (fun p hp e => by
        obtain ⟨g, hg, e'⟩ := expected_keys fs vs p hp
        exact hfs g hg (e' ▸ e))
    by_cases hdv : dropped v = true
    · have ih := buildArgs_expected fs vs pre hd2 hb2
        (fun p hp g hg => hpre p hp g (List.mem_cons_of_mem _ hg))
      simp only [expected, hdv, if_true, buildArgs, lookup_append, hpre_none, hexp_none, hb1 hdv, ih]
    · have hdv' : dropped v = false := by simpa using hdv
      have ih := buildArgs_expected fs vs (pre ++ [(f.name, v)]) hd2 hb2 (by
        intro p hp g hg
        rcases List.mem_append.mp hp with hp | hp
        · exact hpre p hp g (List.mem_cons_of_mem _ hg)
        · simp only [List.mem_singleton] at hp
          subst hp
          exact fun e => hfs g hg e.symm)
      have e1 : pre ++ (f.name, v) :: expected fs vs = (pre ++ [(f.name, v)]) ++ expected fs vs := by simp
      simp only [expected, hdv', Bool.false_eq_true, if_false, buildArgs]
      rw [e1, ih]
      simp only [lookup_append, List.append_assoc, List.cons_append, List.nil_append, hpre_none, lookup,
        beq_self_eq_true, if_true]

theorem findField_self : ∀ (F : List FieldSpec), namesDistinct F = true →
    ∀ f ∈ F, findField F f.name = some f
  | [], _, f, hf => by cases hf
  | g :: gs, hd, f, hf => by
    simp only [namesDistinct, Bool.and_eq_true, Bool.not_eq_true'] at hd
    rcases List.mem_cons.mp hf with rfl | hf
    · simp [findField]
    · have hne : g.name ≠ f.name := fun e => not_mem_names_of_distinct hd.1 f hf e.symm
      have ih := findField_self gs hd.2 f hf
      have hb : (g.name == f.name) = false := by simp [hne]
      unfold findField at ih ⊢
      simp only [List.find?_cons, hb]
      exact ih

/-! ### schema facts -/

theorem classOk_of_find {S : Schema} (hS : SchemaOk S) {c : String} {cs : ClassSpec}
    (h : S.findClass c = some cs) : classOk cs = true := by
  have hm : cs ∈ S.classes := List.mem_of_find?_eq_some h
  exact List.all_eq_true.mp hS cs hm

theorem kindOk_of_wfVal (S : Schema) (t : DType) (v : Val) (h : wfVal S t v = true) :
    kindOk t v = true := by
  cases v <;> simp only [wfVal, kindOk] at h ⊢
  · cases h
  · exact h
  · exact h
  · exact h
  · cases t <;> simp_all
  · simp only [Bool.and_eq_true] at h; exact h.1
  · simp only [Bool.and_eq_true] at h
    have := h.1
    simp only [beq_iff_eq] at this
    subst this
    rfl
  · cases h

theorem kindOk_of_wfList (S : Schema) (t : DType) : ∀ (xs : List Val), wfList S t xs = true →
    xs.all (kindOk t) = true
  | [], _ => rfl
  | v :: vs, h => by
    simp only [wfList, Bool.and_eq_true] at h
    simp only [List.all_cons, Bool.and_eq_true]
    exact ⟨kindOk_of_wfVal S t v h.1, kindOk_of_wfList S t vs h.2⟩

theorem length_of_wfFields (S : Schema) : ∀ (fs : List FieldSpec) (vs : List Val),
    wfFields S fs vs = true → fs.length = vs.length
  | [], [], _ => rfl
  | [], _ :: _, h => by simp [wfFields] at h
  | _ :: _, [], h => by simp [wfFields] at h
  | f :: fs, v :: vs, h => by
    have h2 : wfFields S fs vs = true := by
      cases v <;> simp only [wfFields, Bool.and_eq_true] at h <;> exact h.2
    simp [length_of_wfFields S fs vs h2]

theorem defaultsBack_of_wf (S : Schema) : ∀ (fs : List FieldSpec) (vs : List Val),
    wfFields S fs vs = true → fs.all fieldOk = true → defaultsBack fs vs
  | [], [], _, _ => trivial
  | [], _ :: _, h, _ => by simp [wfFields] at h
  | _ :: _, [], h, _ => by simp [wfFields] at h
  | f :: fs, v :: vs, h, ho => by
    simp only [List.all_cons, Bool.and_eq_true] at ho
    have hf := ho.1
    simp only [fieldOk, Bool.and_eq_true] at hf
    have h1 := hf.1.1
    cases v with
    | none =>
      simp only [wfFields, Bool.and_eq_true, beq_iff_eq] at h
      refine ⟨?_, defaultsBack_of_wf S fs vs h.2 ho.2⟩
      intro _
      simp only [h.1, beq_iff_eq] at h1
      simp [defaultOf, h1]
    | list xs =>
      simp only [wfFields, Bool.and_eq_true, beq_iff_eq] at h
      refine ⟨?_, defaultsBack_of_wf S fs vs h.2 ho.2⟩
      intro hd
      cases xs with
      | nil =>
        simp only [h.1.1, Bool.and_eq_true, beq_iff_eq] at h1
        simp [defaultOf, h1.1]
      | cons _ _ => simp [dropped] at hd
    | str _ =>
      simp only [wfFields, Bool.and_eq_true] at h
      exact ⟨fun hd => by simp [dropped] at hd, defaultsBack_of_wf S fs vs h.2 ho.2⟩
    | int _ =>
      simp only [wfFields, Bool.and_eq_true] at h
      exact ⟨fun hd => by simp [dropped] at hd, defaultsBack_of_wf S fs vs h.2 ho.2⟩
    | bool _ =>
      simp only [wfFields, Bool.and_eq_true] at h
      exact ⟨fun hd => by simp [dropped] at hd, defaultsBack_of_wf S fs vs h.2 ho.2⟩
    | enum _ =>
      simp only [wfFields, Bool.and_eq_true] at h
      exact ⟨fun hd => by simp [dropped] at hd, defaultsBack_of_wf S fs vs h.2 ho.2⟩
    | loc _ =>
      simp only [wfFields, Bool.and_eq_true] at h
      exact ⟨fun hd => by simp [dropped] at hd, defaultsBack_of_wf S fs vs h.2 ho.2⟩
    | msg _ _ =>
      simp only [wfFields, Bool.and_eq_true] at h
      exact ⟨fun hd => by simp [dropped] at hd, defaultsBack_of_wf S fs vs h.2 ho.2⟩

theorem finish_expected (S : Schema) (c : String) (F : List FieldSpec) (vs : List Val)
    (hw : wfFields S F vs = true) (ho : oneofOk F vs = true) (hok : F.all fieldOk = true)
    (hd : namesDistinct F = true) :
    finish c F (expected F vs) = some (.msg c vs) := by
  have hb := buildArgs_expected F vs [] hd (defaultsBack_of_wf S F vs hw hok) (by intro p hp; cases hp)
  simp only [List.nil_append] at hb
  simp only [finish, hb, Option.map_some, construct_id F vs (length_of_wfFields S F vs hw) ho]

end Emboss.Json
