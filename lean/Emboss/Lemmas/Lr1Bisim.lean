/-
Soundness of the bisimulation checker (C09): if `Bisim A B π` holds, the two parsers run in
lock-step on every token list — stacks related pointwise by the state pairing `π` with equal
trees, equal cursors — and produce related results.
-/
import Emboss.Lemmas.Lr1Basic
import Emboss.Model.Lr1Bisim
namespace Emboss.Lr1

variable {A B : Automaton} {π : Array (Option Nat)}

theorem lookup_none_of_not_mem {β} {a : Nat} : ∀ {l : List (Nat × β)}, a ∉ l.map (·.1) → l.lookup a = none
  | [], _ => rfl
  | (k, v) :: l, h => by
    simp only [List.map_cons, List.mem_cons, not_or] at h
    simp only [List.lookup]
    have : (a == k) = false := by simpa using h.1
    rw [this]
    exact lookup_none_of_not_mem h.2

theorem lookup_some_mem_keys {β} {a : Nat} {b : β} {l : List (Nat × β)} (h : l.lookup a = some b) :
    a ∈ l.map (·.1) := List.mem_map.mpr ⟨(a, b), lookup_mem h, rfl⟩

theorem entry_some_key {s a : Nat} {x : Action} (h : A.entry s a = some x) : a ∈ rowKeys (A.row s) := by
  unfold Automaton.entry at h
  split at h
  · rename_i r hr; rw [hr]; exact lookup_some_mem_keys h
  · cases h

theorem entry_none_of_not_key {s a : Nat} (h : a ∉ rowKeys (A.row s)) : A.entry s a = none := by
  cases he : A.entry s a with
  | none => rfl
  | some x => exact absurd (entry_some_key he) h

theorem goto_some_key {s x s' : Nat} (h : A.gotoOf s x = some s') : x ∈ A.gotoKeys s :=
  lookup_some_mem_keys h

theorem pairOf_lt {s t : Nat} (h : pairOf π s = some t) : s < π.size := by
  by_cases hs : s < π.size
  · exact hs
  · simp [pairOf, Array.getElem?_eq_none (Nat.le_of_not_lt hs)] at h

/-- paired states act alike on *every* symbol -/
theorem actRel_all (hb : Bisim A B π) {s t : Nat} (hp : pairOf π s = some t) (a : Nat) :
    ActRel A B π (A.actionOf s a) (B.actionOf t a) := by
  have hok := hb.2.2 s (pairOf_lt hp) t hp
  by_cases hk : a ∈ rowKeys (A.row s) ++ rowKeys (B.row t)
  · exact hok.2.2.1 a hk
  · simp only [List.mem_append, not_or] at hk
    simp only [Automaton.actionOf, Automaton.defaultAction, entry_none_of_not_key hk.1,
      entry_none_of_not_key hk.2, ← hok.2.2.2.1]
    cases A.defaultErrors.lookup s <;> simp [ActRel]

theorem gotoRel_all (hb : Bisim A B π) {s t : Nat} (hp : pairOf π s = some t) (x : Nat) :
    GotoRel π (A.gotoOf s x) (B.gotoOf t x) := by
  have hok := hb.2.2 s (pairOf_lt hp) t hp
  by_cases hk : x ∈ A.gotoKeys s ++ B.gotoKeys t
  · exact hok.2.2.2.2 x hk
  · simp only [List.mem_append, not_or] at hk
    have h1 : A.gotoOf s x = none := by
      cases h : A.gotoOf s x with
      | none => rfl
      | some _ => exact absurd (goto_some_key h) hk.1
    have h2 : B.gotoOf t x = none := by
      cases h : B.gotoOf t x with
      | none => rfl
      | some _ => exact absurd (goto_some_key h) hk.2
    simp [h1, h2, GotoRel]

/-! ### expected sets -/

def Automaton.expectedOf (A : Automaton) (s : Nat) : List Nat :=
  match A.row s with
  | some r => expectedOfRow r
  | none => []

theorem mem_expectedOfRow {r : Row} {x : Nat} :
    x ∈ expectedOfRow r ↔ ∃ a, r.lookup x = some a ∧ a.isError = false := by
  simp only [expectedOfRow, List.mem_filter]
  constructor
  · intro ⟨_, h⟩
    cases hl : r.lookup x with
    | none => simp [hl] at h
    | some a => exact ⟨a, rfl, by simpa [hl] using h⟩
  · intro ⟨a, hl, ha⟩
    exact ⟨lookup_some_mem_keys hl, by simp [hl, ha]⟩

theorem mem_expectedOf {s x : Nat} :
    x ∈ A.expectedOf s ↔ ∃ a, A.entry s x = some a ∧ a.isError = false := by
  unfold Automaton.expectedOf Automaton.entry
  cases A.row s with
  | none => simp
  | some r => exact mem_expectedOfRow

theorem actRel_nonerror {x y : Action} (h : ActRel A B π x y) (hx : x.isError = false) : y.isError = false := by
  cases x <;> cases y <;> simp_all [ActRel, Action.isError]

theorem actRel_nonerror' {x y : Action} (h : ActRel A B π x y) (hy : y.isError = false) : x.isError = false := by
  cases x <;> cases y <;> simp_all [ActRel, Action.isError]

theorem actionOf_of_entry {s a : Nat} {x : Action} (h : A.entry s a = some x) : A.actionOf s a = x := by
  simp [Automaton.actionOf, h]

theorem expected_iff (hb : Bisim A B π) {s t : Nat} (hp : pairOf π s = some t) (x : Nat) :
    x ∈ A.expectedOf s ↔ x ∈ B.expectedOf t := by
  have hr := actRel_all hb hp x
  rw [mem_expectedOf, mem_expectedOf]
  constructor
  · intro ⟨a, ha, hne⟩
    rw [actionOf_of_entry ha] at hr
    exact ⟨_, Automaton.actionOf_nonerror rfl (actRel_nonerror hr hne), actRel_nonerror hr hne⟩
  · intro ⟨b, hb', hne⟩
    rw [actionOf_of_entry hb'] at hr
    exact ⟨_, Automaton.actionOf_nonerror rfl (actRel_nonerror' hr hne), actRel_nonerror' hr hne⟩

/-! ### the simulation -/

def StackRel (π : Array (Option Nat)) : List (Nat × Tree) → List (Nat × Tree) → Prop
  | [], [] => True
  | (s, t) :: r₁, (s', t') :: r₂ => pairOf π s = some s' ∧ t = t' ∧ StackRel π r₁ r₂
  | _, _ => False

def ConfigRel (π : Array (Option Nat)) (c₁ c₂ : Config) : Prop :=
  StackRel π c₁.stack c₂.stack ∧ c₁.cursor = c₂.cursor

/-- results equal up to the state renaming: same accept/reject, tree, error code and index,
paired error states, expected sets with the same members, same Python exception -/
def ResultRel (π : Array (Option Nat)) : Result → Result → Prop
  | .accept t, .accept t' => t = t'
  | .error c i s e, .error c' i' s' e' => c = c' ∧ i = i' ∧ pairOf π s = some s' ∧ ∀ x, x ∈ e ↔ x ∈ e'
  | .internal m, .internal m' => m = m'
  | .outOfFuel, .outOfFuel => True
  | _, _ => False

def StepRel (π : Array (Option Nat)) : StepOut → StepOut → Prop
  | .next c₁, .next c₂ => ConfigRel π c₁ c₂
  | .done r₁, .done r₂ => ResultRel π r₁ r₂
  | _, _ => False

theorem StackRel.top (hb : Bisim A B π) : ∀ {s₁ s₂ : List (Nat × Tree)}, StackRel π s₁ s₂ →
    pairOf π (topState s₁) = some (topState s₂)
  | [], [], _ => hb.2.1
  | (_, _) :: _, (_, _) :: _, h => h.1
  | [], _ :: _, h => by cases h
  | _ :: _, [], h => by cases h

theorem StackRel.length : ∀ {s₁ s₂ : List (Nat × Tree)}, StackRel π s₁ s₂ → s₁.length = s₂.length
  | [], [], _ => rfl
  | (_, _) :: _, (_, _) :: _, h => by simp [StackRel.length h.2.2]
  | [], _ :: _, h => by cases h
  | _ :: _, [], h => by cases h

theorem StackRel.drop : ∀ {s₁ s₂ : List (Nat × Tree)} (n : Nat), StackRel π s₁ s₂ →
    StackRel π (s₁.drop n) (s₂.drop n)
  | _, _, 0, h => by simpa using h
  | [], [], _ + 1, _ => by simp [StackRel]
  | (_, _) :: _, (_, _) :: _, n + 1, h => by simpa using StackRel.drop n h.2.2
  | [], _ :: _, _ + 1, h => by cases h
  | _ :: _, [], _ + 1, h => by cases h

theorem StackRel.take_trees : ∀ {s₁ s₂ : List (Nat × Tree)} (n : Nat), StackRel π s₁ s₂ →
    (s₁.take n).map (·.2) = (s₂.take n).map (·.2)
  | _, _, 0, _ => by simp
  | [], [], _ + 1, _ => by simp
  | (_, _) :: _, (_, _) :: _, n + 1, h => by
    simp only [List.take_succ_cons, List.map_cons, h.2.1, StackRel.take_trees n h.2.2]
  | [], _ :: _, _ + 1, h => by cases h
  | _ :: _, [], _ + 1, h => by cases h

theorem step_bisim (hb : Bisim A B π) (w : List Token) {c₁ c₂ : Config} (hc : ConfigRel π c₁ c₂) :
    StepRel π (step A w c₁) (step B w c₂) := by
  obtain ⟨hst, hcur⟩ := hc
  have htop := hst.top hb
  have hla : lookahead A w c₁.cursor = lookahead B w c₂.cursor := by
    simp only [lookahead, hcur, hb.1]
  have hok := hb.2.2 _ (pairOf_lt htop) _ htop
  have hrel : ActRel A B π (nextAction A w (topState c₁.stack) c₁.cursor)
      (nextAction B w (topState c₂.stack) c₁.cursor) := by
    have hce : clientEoi B w c₁.cursor = clientEoi A w c₁.cursor := by simp only [clientEoi, hb.1]
    have hla' : lookahead B w c₁.cursor = lookahead A w c₁.cursor := by simp only [lookahead, hb.1]
    unfold nextAction
    rw [hce, hla']
    by_cases hc : clientEoi A w c₁.cursor = true
    · simp only [hc, if_true, Automaton.defaultAction, ← hok.2.2.2.1]
      cases A.defaultErrors.lookup (topState c₁.stack) <;> simp [ActRel]
    · simp only [hc, Bool.false_eq_true, if_false]
      exact actRel_all hb htop _
  unfold step
  simp only []
  rw [← hla, ← hcur]
  cases ha : nextAction A w (topState c₁.stack) c₁.cursor <;>
    cases hbb : nextAction B w (topState c₂.stack) c₁.cursor <;>
    rw [ha, hbb] at hrel <;> simp only [ActRel] at hrel
  · -- shift / shift
    cases w[c₁.cursor]? with
    | none => simp [StepRel, ResultRel]
    | some t => exact ⟨⟨hrel, rfl, hst⟩, by simp [hcur]⟩
  · -- reduce / reduce
    obtain ⟨p, hp, hq⟩ := hrel
    have hp' : A.prods[_]? = some p := hp
    simp only [hp', hq, ← hst.length]
    by_cases hle : p.rhs.length ≤ c₁.stack.length
    · simp only [hle, if_true]
      have hd := hst.drop p.rhs.length
      have hg := gotoRel_all hb (hd.top hb) p.lhs
      cases h1 : A.gotoOf (topState (List.drop p.rhs.length c₁.stack)) p.lhs <;>
        cases h2 : B.gotoOf (topState (List.drop p.rhs.length c₂.stack)) p.lhs <;>
        rw [h1, h2] at hg <;> simp only [GotoRel] at hg
      · simp [StepRel, ResultRel]
      · exact ⟨⟨hg, by rw [hst.take_trees], hd⟩, rfl⟩
    · simp [hle, StepRel, ResultRel]
  · -- accept / accept
    match h1 : c₁.stack, h2 : c₂.stack, hst with
    | [], [], _ => simp [StepRel, ResultRel]
    | [(s, t)], [(s', t')], h =>
      have : t = t' := h.2.1
      subst this
      simp only [hb.1]
      split <;> simp [StepRel, ResultRel]
    | (_, _) :: _ :: _, (_, _) :: _ :: _, _ => simp [StepRel, ResultRel]
    | [_], _ :: _ :: _, h => exact absurd h.2.2 (by simp [StackRel])
    | _ :: _ :: _, [_], h => exact absurd h.2.2 (by simp [StackRel])
  · -- error / error
    have hexp := expected_iff hb htop
    subst hrel
    cases hr1 : A.row (topState c₁.stack) with
    | some r₁ =>
      cases hr2 : B.row (topState c₂.stack) with
      | some r₂ =>
        refine ⟨rfl, rfl, htop, fun x => ?_⟩
        have := hexp x
        simpa [Automaton.expectedOf, hr1, hr2] using this
      | none =>
        have hs : B.strict = false := by
          cases h : B.strict with
          | false => rfl
          | true => have := hok.2.1 h; rw [hr2] at this; cases this
        simp only [hs, Bool.false_eq_true, if_false]
        refine ⟨rfl, rfl, htop, fun x => ?_⟩
        have := hexp x
        simpa [Automaton.expectedOf, hr1, hr2] using this
    | none =>
      have hs : A.strict = false := by
        cases h : A.strict with
        | false => rfl
        | true => have := hok.1 h; rw [hr1] at this; cases this
      simp only [hs, Bool.false_eq_true, if_false]
      cases hr2 : B.row (topState c₂.stack) with
      | some r₂ =>
        refine ⟨rfl, rfl, htop, fun x => ?_⟩
        have := hexp x
        simpa [Automaton.expectedOf, hr1, hr2] using this
      | none =>
        have hs2 : B.strict = false := by
          cases h : B.strict with
          | false => rfl
          | true => have := hok.2.1 h; rw [hr2] at this; cases this
        simp only [hs2, Bool.false_eq_true, if_false]
        exact ⟨rfl, rfl, htop, fun x => Iff.rfl⟩

theorem runFrom_bisim (hb : Bisim A B π) (w : List Token) : ∀ (f : Nat) {c₁ c₂ : Config},
    ConfigRel π c₁ c₂ → ResultRel π (runFrom A w f c₁) (runFrom B w f c₂)
  | 0, _, _, _ => by simp [runFrom, ResultRel]
  | f + 1, c₁, c₂, hc => by
    have hs := step_bisim hb w hc
    simp only [runFrom]
    cases h1 : step A w c₁ <;> cases h2 : step B w c₂ <;> rw [h1, h2] at hs <;>
      simp only [StepRel] at hs
    · exact runFrom_bisim hb w f hs
    · exact hs

end Emboss.Lr1
