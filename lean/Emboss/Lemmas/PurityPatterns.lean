/-
C17 — each order-independence pattern is invariant under permutation of the order in
which the underlying set was iterated.
-/
import Emboss.Model.PurityPatterns
namespace Emboss.Purity
open List

/-- A total order given as a Boolean `≤` (what Python's `<` on homogeneous strings /
tuples / ints provides; trusted). -/
structure TotalLE (le : α → α → Bool) : Prop where
  trans : ∀ a b c, le a b → le b c → le a c
  total : ∀ a b, le a b || le b a
  antisymm : ∀ a b, le a b → le b a → a = b

theorem pySorted_perm (le : α → α → Bool) (h : TotalLE le) {l₁ l₂ : List α} (p : l₁ ~ l₂) :
    pySorted le l₁ = pySorted le l₂ := by
  unfold pySorted
  apply Perm.eq_of_pairwise (le := fun a b => le a b)
  · intro a b _ _ hab hba; exact h.antisymm a b hab hba
  · exact pairwise_mergeSort h.trans h.total l₁
  · exact pairwise_mergeSort h.trans h.total l₂
  · exact (mergeSort_perm l₁ le).trans (p.trans (mergeSort_perm l₂ le).symm)

theorem pySortedBy_perm (le : κ → κ → Bool) (h : TotalLE le) (key : α → κ) {l₁ l₂ : List α}
    (p : l₁ ~ l₂) (inj : ∀ a ∈ l₁, ∀ b ∈ l₁, key a = key b → a = b) :
    pySortedBy le key l₁ = pySortedBy le key l₂ := by
  unfold pySortedBy
  apply Perm.eq_of_pairwise (le := fun a b => le (key a) (key b))
  · intro a b ha hb hab hba
    have ha' : a ∈ l₁ := (mem_mergeSort).1 ha
    have hb' : b ∈ l₁ := p.symm.subset ((mem_mergeSort).1 hb)
    exact inj a ha' b hb' (h.antisymm _ _ hab hba)
  · exact pairwise_mergeSort (le := fun a b => le (key a) (key b))
      (fun a b c => h.trans (key a) (key b) (key c)) (fun a b => h.total (key a) (key b)) l₁
  · exact pairwise_mergeSort (le := fun a b => le (key a) (key b))
      (fun a b c => h.trans (key a) (key b) (key c)) (fun a b => h.total (key a) (key b)) l₂
  · exact (mergeSort_perm l₁ _).trans (p.trans (mergeSort_perm l₂ _).symm)

/-- The key used at both `sorted(cycles, key=sorted)` sites: two frozensets (given by
any of their iteration orders) with the same sorted element list are the same set. -/
theorem sortedKey_injective (le : α → α → Bool) {s₁ s₂ : List α}
    (h : pySorted le s₁ = pySorted le s₂) : s₁ ~ s₂ := by
  unfold pySorted at h
  exact (mergeSort_perm s₁ le).symm.trans (h ▸ mergeSort_perm s₂ le)

theorem setBuild_perm (f : α → List β) {l₁ l₂ : List α} (p : l₁ ~ l₂) (y : β) :
    y ∈ setBuild f l₁ ↔ y ∈ setBuild f l₂ := by
  simp only [setBuild, mem_flatMap]
  constructor
  · rintro ⟨x, hx, hy⟩; exact ⟨x, p.subset hx, hy⟩
  · rintro ⟨x, hx, hy⟩; exact ⟨x, p.symm.subset hx, hy⟩

theorem fold_perm (op : β → α → β) (comm : ∀ z x y, op (op z x) y = op (op z y) x)
    (init : β) {l₁ l₂ : List α} (p : l₁ ~ l₂) : fold op init l₁ = fold op init l₂ :=
  p.foldl_eq' (fun x _ y _ z => comm z x y) init

private theorem foldl_min_comm (z x y : Nat) : min (min z x) y = min (min z y) x := by
  omega

private theorem foldl_max_comm (z x y : Nat) : max (max z x) y = max (max z y) x := by
  omega

private theorem foldl_min_cons (a b : Nat) (l : List Nat) :
    l.foldl min (min a b) = (b :: l).foldl min a := rfl

/-- `min` of a non-empty list written as a fold from any start element is the fold over
the whole list started at one of its own elements: make the head irrelevant. -/
private theorem pyMin_eq_fold (a : Nat) (l : List Nat) :
    pyMin (a :: l) = some ((a :: l).foldl min a) := by
  simp [pyMin, List.foldl]

private theorem pyMax_eq_fold (a : Nat) (l : List Nat) :
    pyMax (a :: l) = some ((a :: l).foldl max a) := by
  simp [pyMax, List.foldl]

private theorem foldl_min_start (l : List Nat) (a b : Nat) (ha : a ∈ l) (hb : b ∈ l) :
    l.foldl min a = l.foldl min b := by
  -- both equal the fold started at `min a b`, because folding in an element that is
  -- already a member changes nothing
  have key : ∀ (l : List Nat) (z x : Nat), x ∈ l → l.foldl min z = l.foldl min (min z x) := by
    intro l
    induction l with
    | nil => intro z x hx; cases hx
    | cons c l ih =>
      intro z x hx
      simp only [List.foldl]
      rcases List.mem_cons.1 hx with rfl | hx
      · congr 1; omega
      · rw [ih (min z c) x hx, ih (min (min z x) c) x hx]
        congr 1; omega
  rw [key l a b hb, key l b a ha]
  congr 1; omega

private theorem foldl_max_start (l : List Nat) (a b : Nat) (ha : a ∈ l) (hb : b ∈ l) :
    l.foldl max a = l.foldl max b := by
  have key : ∀ (l : List Nat) (z x : Nat), x ∈ l → l.foldl max z = l.foldl max (max z x) := by
    intro l
    induction l with
    | nil => intro z x hx; cases hx
    | cons c l ih =>
      intro z x hx
      simp only [List.foldl]
      rcases List.mem_cons.1 hx with rfl | hx
      · congr 1; omega
      · rw [ih (max z c) x hx, ih (max (max z x) c) x hx]
        congr 1; omega
  rw [key l a b hb, key l b a ha]
  congr 1; omega

theorem pyMin_perm {l₁ l₂ : List Nat} (p : l₁ ~ l₂) : pyMin l₁ = pyMin l₂ := by
  match l₁, l₂, p with
  | [], [], _ => rfl
  | [], _ :: _, p => exact absurd p.length_eq (by simp)
  | _ :: _, [], p => exact absurd p.length_eq (by simp)
  | a :: l₁, b :: l₂, p =>
    rw [pyMin_eq_fold, pyMin_eq_fold]
    congr 1
    have hb : b ∈ a :: l₁ := p.symm.subset mem_cons_self
    rw [foldl_min_start (a :: l₁) a b mem_cons_self hb]
    exact p.foldl_eq' (fun x _ y _ z => foldl_min_comm z x y) b

theorem pyMax_perm {l₁ l₂ : List Nat} (p : l₁ ~ l₂) : pyMax l₁ = pyMax l₂ := by
  match l₁, l₂, p with
  | [], [], _ => rfl
  | [], _ :: _, p => exact absurd p.length_eq (by simp)
  | _ :: _, [], p => exact absurd p.length_eq (by simp)
  | a :: l₁, b :: l₂, p =>
    rw [pyMax_eq_fold, pyMax_eq_fold]
    congr 1
    have hb : b ∈ a :: l₁ := p.symm.subset mem_cons_self
    rw [foldl_max_start (a :: l₁) a b mem_cons_self hb]
    exact p.foldl_eq' (fun x _ y _ z => foldl_max_comm z x y) b

theorem onlyElement_perm {l₁ l₂ : List α} (p : l₁ ~ l₂) : onlyElement l₁ = onlyElement l₂ := by
  match l₁, l₂, p with
  | [], [], _ => rfl
  | [a], [b], p =>
    have : a ∈ [b] := p.subset mem_cons_self
    simp only [mem_singleton] at this
    subst this; rfl
  | [], _ :: _, p => exact absurd p.length_eq (by simp)
  | _ :: _, [], p => exact absurd p.length_eq (by simp)
  | [_], _ :: _ :: _, p => exact absurd p.length_eq (by simp)
  | _ :: _ :: _, [_], p => exact absurd p.length_eq (by simp)
  | _ :: _ :: _, _ :: _ :: _, _ => rfl

/-- Invariant of a memo table: every stored value is what the function computes. -/
def MemoOk [BEq κ] (f : κ → ν) (cache : List (κ × ν)) : Prop :=
  ∀ k v, cache.lookup k = some v → v = f k

theorem memoStep_value [BEq κ] (f : κ → ν) (cache : List (κ × ν)) (h : MemoOk f cache) (k : κ) :
    (memoStep f cache k).2 = f k := by
  unfold memoStep
  split
  · rename_i v hv; exact h k v hv
  · rfl

theorem memoStep_ok [BEq κ] [LawfulBEq κ] (f : κ → ν) (cache : List (κ × ν)) (h : MemoOk f cache)
    (k : κ) : MemoOk f (memoStep f cache k).1 := by
  unfold memoStep
  split
  · exact h
  · intro k' v hv
    simp only [List.lookup_cons] at hv
    split at hv
    · rename_i heq
      have : k' = k := by simpa using heq
      subst this; cases hv; rfl
    · exact h k' v hv

end Emboss.Purity
