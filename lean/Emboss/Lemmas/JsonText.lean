/-
C18 (round 2) helper lemmas for the JSON text layer, part 2: the mutual induction over
`Dv` / `List Dv` / `List (String × Dv)`: `parseVal` inverts `Dv.renderChars`.
-/
import Emboss.Lemmas.JsonTextStr
namespace Emboss.Json

theorem stop_nil : Stop [] := by
  intro c h
  simp at h

theorem stop_comma (r : List Char) : Stop (',' :: r) := by
  intro c h
  simp only [List.head?_cons, Option.mem_def, Option.some.injEq] at h
  subst h
  decide

theorem stop_rbracket (r : List Char) : Stop (']' :: r) := by
  intro c h
  simp only [List.head?_cons, Option.mem_def, Option.some.injEq] at h
  subst h
  decide

theorem stop_rbrace (r : List Char) : Stop ('}' :: r) := by
  intro c h
  simp only [List.head?_cons, Option.mem_def, Option.some.injEq] at h
  subst h
  decide

/-- A rendered value never starts with a closing bracket. -/
theorem renderChars_head (d : Dv) : ∃ c tl, d.renderChars = c :: tl ∧ c ≠ ']' := by
  cases d with
  | null => exact ⟨'n', ['u', 'l', 'l'], by simp [Dv.renderChars], by decide⟩
  | str s => exact ⟨'"', s.toList.flatMap escChar ++ ['"'], by simp [Dv.renderChars, renderStr], by decide⟩
  | int i =>
    cases h : intChars i with
    | nil => exact absurd h (intChars_ne_nil i)
    | cons c tl =>
      refine ⟨c, tl, by simp [Dv.renderChars, h], ?_⟩
      have hc : intCh c = true := intCh_of_mem_intChars (i := i) (by simp [h])
      rintro rfl
      revert hc
      decide
  | bool b =>
    cases b with
    | true => exact ⟨'t', ['r', 'u', 'e'], by simp [Dv.renderChars], by decide⟩
    | false => exact ⟨'f', ['a', 'l', 's', 'e'], by simp [Dv.renderChars], by decide⟩
  | list xs => exact ⟨'[', renderList xs ++ [']'], by simp [Dv.renderChars], by decide⟩
  | dict kvs => exact ⟨'{', renderKvs kvs ++ ['}'], by simp [Dv.renderChars], by decide⟩

theorem parseVal_intCh (c : Char) (cs : List Char) (f : Nat) (hc : intCh c = true) :
    parseVal (f + 1) (c :: cs) =
      match parseIntPrefix (c :: cs) with
      | some (i, rest) => .ok (.int i) rest
      | none => .err := by
  rw [parseVal]
  · cases parseIntPrefix (c :: cs) with
    | none => rfl
    | some p => rfl
  all_goals
    intro rest h
    simp only [List.cons.injEq] at h
    obtain ⟨rfl, _⟩ := h
    exact absurd hc (by decide)

theorem parseVal_int (i : Int) (f : Nat) (rest : List Char) (hs : Stop rest) :
    parseVal (f + 1) (intChars i ++ rest) = .ok (.int i) rest := by
  have hp := parseIntPrefix_render i rest hs
  cases h : intChars i with
  | nil => exact absurd h (intChars_ne_nil i)
  | cons c tl =>
    have hc : intCh c = true := intCh_of_mem_intChars (i := i) (by simp [h])
    rw [h] at hp
    rw [List.cons_append] at hp ⊢
    rw [parseVal_intCh c _ f hc, hp]

theorem parseVal_str (s : String) (f : Nat) (rest : List Char) :
    parseVal (f + 1) (renderStr s ++ rest) = .ok (.str s) rest := by
  have hp := parseStrBody_render s rest
  have : renderStr s ++ rest = '"' :: (s.toList.flatMap escChar ++ '"' :: rest) := by
    simp [renderStr]
  rw [this, parseVal, hp]

mutual
theorem parseVal_render : ∀ (d : Dv) (fuel : Nat) (rest : List Char), d.nodes ≤ fuel → Stop rest →
    parseVal fuel (d.renderChars ++ rest) = .ok d rest
  | .null, fuel, rest, hf, _ => by
    cases fuel with
    | zero => simp [Dv.nodes] at hf
    | succ f => simp [Dv.renderChars, parseVal]
  | .bool b, fuel, rest, hf, _ => by
    cases fuel with
    | zero => simp [Dv.nodes] at hf
    | succ f => cases b <;> simp [Dv.renderChars, parseVal]
  | .str s, fuel, rest, hf, _ => by
    cases fuel with
    | zero => simp [Dv.nodes] at hf
    | succ f => simpa [Dv.renderChars] using parseVal_str s f rest
  | .int i, fuel, rest, hf, hs => by
    cases fuel with
    | zero => simp [Dv.nodes] at hf
    | succ f => simpa [Dv.renderChars] using parseVal_int i f rest hs
  | .list xs, fuel, rest, hf, _ => by
    cases fuel with
    | zero => simp [Dv.nodes] at hf
    | succ f =>
      cases xs with
      | nil => simp [Dv.renderChars, renderList, parseVal]
      | cons x xs' =>
        have hn : Dv.nodes.nodesList (x :: xs') ≤ f := by simp [Dv.nodes] at hf; omega
        have ih := parseElems_render (x :: xs') f rest (by simp) hn
        obtain ⟨c, tl, hc, hne⟩ : ∃ c tl, renderList (x :: xs') = c :: tl ∧ c ≠ ']' := by
          obtain ⟨c, tl, h1, h2⟩ := renderChars_head x
          cases xs' with
          | nil => exact ⟨c, tl, by simp [renderList, h1], h2⟩
          | cons y ys => exact ⟨c, tl ++ ',' :: ' ' :: renderList (y :: ys), by simp [renderList, h1], h2⟩
        have e : (Dv.list (x :: xs')).renderChars ++ rest = '[' :: (renderList (x :: xs') ++ ']' :: rest) := by
          simp [Dv.renderChars]
        rw [hc, List.cons_append] at ih
        rw [e, hc, List.cons_append, parseVal]
        · rw [ih]
        · intro r h
          simp only [List.cons.injEq] at h
          exact hne h.1
  | .dict kvs, fuel, rest, hf, _ => by
    cases fuel with
    | zero => simp [Dv.nodes] at hf
    | succ f =>
      cases kvs with
      | nil => simp [Dv.renderChars, renderKvs, parseVal]
      | cons kv kvs' =>
        have hn : Dv.nodes.nodesKvs (kv :: kvs') ≤ f := by simp [Dv.nodes] at hf; omega
        have ih := parseMembers_render (kv :: kvs') f rest (by simp) hn
        obtain ⟨tl, hc⟩ : ∃ tl, renderKvs (kv :: kvs') = '"' :: tl := by
          obtain ⟨k, d⟩ := kv
          cases kvs' with
          | nil => simp only [renderKvs, renderStr, List.cons_append]; exact ⟨_, rfl⟩
          | cons y ys => simp only [renderKvs, renderStr, List.cons_append]; exact ⟨_, rfl⟩
        have e : (Dv.dict (kv :: kvs')).renderChars ++ rest = '{' :: (renderKvs (kv :: kvs') ++ '}' :: rest) := by
          simp [Dv.renderChars]
        rw [hc, List.cons_append] at ih
        rw [e, hc, List.cons_append, parseVal]
        · rw [ih]
        · intro r h
          simp only [List.cons.injEq] at h
          exact absurd h.1 (by decide)
theorem parseElems_render : ∀ (l : List Dv) (fuel : Nat) (rest : List Char), l ≠ [] →
    Dv.nodes.nodesList l ≤ fuel → parseElems fuel (renderList l ++ ']' :: rest) = .ok l rest
  | [], _, _, h, _ => absurd rfl h
  | [x], fuel, rest, _, hf => by
    cases fuel with
    | zero => simp [Dv.nodes.nodesList] at hf
    | succ f =>
      have h1 := parseVal_render x f (']' :: rest) (by simp [Dv.nodes.nodesList] at hf; omega)
        (stop_rbracket rest)
      simp [renderList, parseElems, h1]
  | x :: y :: ys, fuel, rest, _, hf => by
    cases fuel with
    | zero => simp [Dv.nodes.nodesList] at hf
    | succ f =>
      have hf' : x.nodes + (1 + y.nodes + Dv.nodes.nodesList ys) ≤ f := by
        simp [Dv.nodes.nodesList] at hf; omega
      have h1 := parseVal_render x f (',' :: ' ' :: (renderList (y :: ys) ++ ']' :: rest)) (by omega)
        (stop_comma _)
      have h2 := parseElems_render (y :: ys) f rest (by simp) (by simp [Dv.nodes.nodesList]; omega)
      simp [renderList, parseElems, h1, h2]
theorem parseMembers_render : ∀ (l : List (String × Dv)) (fuel : Nat) (rest : List Char), l ≠ [] →
    Dv.nodes.nodesKvs l ≤ fuel → parseMembers fuel (renderKvs l ++ '}' :: rest) = .ok l rest
  | [], _, _, h, _ => absurd rfl h
  | [(k, d)], fuel, rest, _, hf => by
    cases fuel with
    | zero => simp [Dv.nodes.nodesKvs] at hf
    | succ f =>
      have h1 := parseVal_render d f ('}' :: rest) (by simp [Dv.nodes.nodesKvs] at hf; omega)
        (stop_rbrace rest)
      have h0 := parseStrBody_render k (':' :: ' ' :: (d.renderChars ++ '}' :: rest))
      simp [renderKvs, renderStr, parseMembers, h0, h1]
  | (k, d) :: kv :: kvs, fuel, rest, _, hf => by
    cases fuel with
    | zero => simp [Dv.nodes.nodesKvs] at hf
    | succ f =>
      obtain ⟨k2, d2⟩ := kv
      have hf' : d.nodes + (1 + d2.nodes + Dv.nodes.nodesKvs kvs) ≤ f := by
        simp [Dv.nodes.nodesKvs] at hf; omega
      have h1 := parseVal_render d f (',' :: ' ' :: (renderKvs ((k2, d2) :: kvs) ++ '}' :: rest))
        (by omega) (stop_comma _)
      have h2 := parseMembers_render ((k2, d2) :: kvs) f rest (by simp)
        (by simp [Dv.nodes.nodesKvs]; omega)
      have h0 := parseStrBody_render k
        (':' :: ' ' :: (d.renderChars ++ ',' :: ' ' :: (renderKvs ((k2, d2) :: kvs) ++ '}' :: rest)))
      simp [renderKvs, renderStr, parseMembers, h0, h1, h2]
end

/-- Fuel bound: the rendering of `d` has at least half as many characters as `d` has nodes. -/
theorem nodes_le_length : ∀ d : Dv, d.nodes ≤ 2 * d.renderChars.length
  | .null => by simp [Dv.nodes, Dv.renderChars]
  | .bool b => by cases b <;> simp [Dv.nodes, Dv.renderChars]
  | .str s => by simp [Dv.nodes, Dv.renderChars, renderStr]; omega
  | .int i => by
    have := intChars_ne_nil i
    cases h : intChars i with
    | nil => exact absurd h this
    | cons c tl => simp [Dv.nodes, Dv.renderChars, h]; omega
  | .list xs => by
    have := nodesList_le xs
    simp [Dv.nodes, Dv.renderChars]; omega
  | .dict kvs => by
    have := nodesKvs_le kvs
    simp [Dv.nodes, Dv.renderChars]; omega
where
  nodesList_le : ∀ l : List Dv, Dv.nodes.nodesList l ≤ 2 * (renderList l).length + 2
    | [] => by simp [Dv.nodes.nodesList]
    | [x] => by
      have := nodes_le_length x
      simp [Dv.nodes.nodesList, renderList]; omega
    | x :: y :: ys => by
      have := nodes_le_length x
      have := nodesList_le (y :: ys)
      simp [Dv.nodes.nodesList, renderList] at *; omega
  nodesKvs_le : ∀ l : List (String × Dv), Dv.nodes.nodesKvs l ≤ 2 * (renderKvs l).length + 2
    | [] => by simp [Dv.nodes.nodesKvs]
    | [(k, d)] => by
      have := nodes_le_length d
      simp [Dv.nodes.nodesKvs, renderKvs]; omega
    | (k, d) :: kv :: kvs => by
      have := nodes_le_length d
      have := nodesKvs_le (kv :: kvs)
      simp [Dv.nodes.nodesKvs, renderKvs] at *; omega

theorem parseJson_render (d : Dv) : parseJson d.render = .ok d [] := by
  have h := parseVal_render d (2 * d.renderChars.length + 2) [] (by have := nodes_le_length d; omega) stop_nil
  simp only [List.append_nil] at h
  simp [parseJson, parseJsonFuel, Dv.render, h]

end Emboss.Json
