/-
Impl model for C07 (naming half): every identifier the C++ back end introduces for a
structure (`struct`/`bits`) and for the types of one namespace scope, as
`header_generator.py` + `generated_code_templates` spell them, and the rule by which two
declarations of one C++ scope clash.

Mirrors: `_cpp_field_name`, `_generate_structure_virtual_field_methods`
(`EmbossReservedVirtual<Camel>View` / `EmbossReservedDollarVirtual<Name>View`),
`_generate_validator_type_for` (`EmbossReservedValidatorFor<Camel>`), templates
`structure_view_class` (fixed members, `${name}_` parameter members, `using <Enum> = …`),
`structure_single_const_virtual_field_method_definitions` (free function `<field>()` in
`namespace <Struct>`), `structure_view_declaration`/`enum_definition`/`enum_traits`.

Import-free apart from `Emboss.Model.Enum` (for `snakeToCamel`).
-/
import Emboss.Model.Enum
namespace Emboss.Names
open Emboss.Enum (snakeToCamel)

abbrev Name := List Char

def s (x : String) : Name := x.toList

/-- `_cpp_field_name`: `$`-names map to fixed CamelCase names (`none` = `KeyError`). -/
def cppFieldName (n : Name) : Option Name :=
  match n with
  | '$' :: _ =>
    if n = s "$size_in_bits" then some (s "IntrinsicSizeInBits")
    else if n = s "$size_in_bytes" then some (s "IntrinsicSizeInBytes")
    else if n = s "$max_size_in_bits" then some (s "MaxSizeInBits")
    else if n = s "$min_size_in_bits" then some (s "MinSizeInBits")
    else if n = s "$max_size_in_bytes" then some (s "MaxSizeInBytes")
    else if n = s "$min_size_in_bytes" then some (s "MinSizeInBytes")
    else none
  | _ => some n

/-- Name of the nested class generated for a (non-alias) virtual field. -/
def virtualViewName (n : Name) : Option Name :=
  match n with
  | '$' :: _ => (cppFieldName n).map (fun c => s "EmbossReservedDollarVirtual" ++ c ++ s "View")
  | _ => some (s "EmbossReservedVirtual" ++ snakeToCamel n ++ s "View")

/-- Name of the validator struct of a physical field with `[requires]`. -/
def validatorName (n : Name) : Name := s "EmbossReservedValidatorFor" ++ snakeToCamel n

structure Field where
  name : Name
  /-- virtual field that is not an alias: gets its own nested view class -/
  ownView : Bool := false
  /-- physical field with a `[requires]` attribute -/
  validator : Bool := false
  /-- constant virtual field: also a free function in `namespace <Struct>` -/
  constant : Bool := false
deriving Repr

/-- One declaration in a C++ scope.  Two declarations of the same identifier are compatible
only when both belong to the same overload/redeclaration `group` (`EnumTraits` forward
declarations, the ADL helper overloads, one structure's `Make…View` overloads). -/
structure Decl where
  ident : Name
  group : Option Nat := none
  what : String := ""
deriving Repr

structure Struct where
  name : Name
  isBits : Bool := false
  params : List Name := []
  fields : List Field := []
  nestedEnums : List Name := []
  nestedStructs : List Name := []
  /-- generated with enum traits / text methods (`Config.include_enum_traits`) -/
  traits : Bool := true
deriving Repr

def units (st : Struct) : String := if st.isBits then "Bits" else "Bytes"

/-- Members every generated view class has (template `structure_view_class`); the two text
methods (template `struct_text_stream`) only when enum traits are generated. -/
def fixedMembers (st : Struct) : List Name :=
  [s "Ok", s "BackingStorage", s "IsComplete", s ("SizeIn" ++ units st), s "SizeIsKnown", s "Equals",
   s "UncheckedEquals", s "UncheckedCopyFrom", s "CopyFrom", s "TryToCopyFrom", s "IsAggregate", s "backing_",
   s "Storage", s "Generic" ++ st.name ++ s "View"] ++
  (if st.traits then [s "UpdateFromTextStream", s "WriteToTextStream"] else []) ++
  (if st.params.isEmpty then [] else [s "parameters_initialized_"])

/-- Declarations in the scope of `class Generic<Name>View`. -/
def classScope (st : Struct) : List Decl :=
  (fixedMembers st).map (fun n => { ident := n, what := "fixed member" }) ++
  st.params.flatMap (fun p =>
    [{ ident := p, what := "parameter accessor" }, { ident := s "has_" ++ p, what := "parameter has_" },
     { ident := p ++ s "_", what := "parameter member" }]) ++
  st.fields.flatMap (fun f =>
    match cppFieldName f.name with
    | none => []
    | some c =>
      [{ ident := c, what := "field accessor" }, { ident := s "has_" ++ c, what := "field has_" }] ++
      (if f.ownView then
        match virtualViewName f.name with
        | some v => [{ ident := v, what := "virtual view class" }]
        | none => []
       else [])) ++
  st.nestedEnums.map (fun e => { ident := e, what := "using <enum>" })

/-- Unqualified references to `namespace <Struct>` from inside the view class: the constant
virtual fields' `Read()` is defined as `return <Struct>::<field>();` (template
`structure_single_const_virtual_field_method_definitions`) and validators are named
`<Struct>::EmbossReservedValidatorFor…` inside the class.  Every structure has such a reference
(`$min_size_in_…` is always a constant).  Qualified-name lookup of `<Struct>::` considers type
names only and finds, before `namespace <Struct>`:
* in the view class: the template parameter `Storage` and the `using <Enum> = …;` of the nested
  enums (`typeRefScope`);
* in the nested view class of a virtual field: its `using ValueType = …;` (`nestedRefScope`). -/
def typeRefScope (st : Struct) : List Decl :=
  [{ ident := st.name, what := "own namespace reference" },
   { ident := s "Storage", what := "captures reference" }] ++
  st.nestedEnums.map (fun e => { ident := e, what := "using <enum>" })

def nestedRefScope (st : Struct) : List Decl :=
  [{ ident := st.name, what := "own namespace reference" },
   { ident := s "ValueType", what := "captures reference" }]

def referenceScopes (st : Struct) : List (List Decl) := [typeRefScope st, nestedRefScope st]

/-- The `EmbossReserved…` type names a structure's fields give rise to: nested view classes
of the non-alias virtual fields, validator structs of the fields with `[requires]`. -/
def reservedNames (fs : List Field) : List Name :=
  fs.filterMap (fun f => if f.ownView then virtualViewName f.name else none) ++
  (fs.filter (·.validator)).map (fun f => validatorName f.name)

/-- Declarations a structure contributes to the namespace scope it is defined in. -/
def structDecls (n : Name) (id : Nat) : List Decl :=
  [{ ident := s "Generic" ++ n ++ s "View", what := "view class template" },
   { ident := n ++ s "View", what := "View alias" }, { ident := n ++ s "Writer", what := "Writer alias" },
   { ident := s "EmbossReservedInternalIsGeneric" ++ n ++ s "View", what := "trait" },
   { ident := s "Make" ++ n ++ s "View", group := some (100 + id), what := "Make…View" },
   { ident := s "MakeAligned" ++ n ++ s "View", what := "MakeAligned…View" },
   { ident := n, group := some (1000 + id), what := "namespace" }]

/-- Declarations an enum contributes (with traits). -/
def enumDecls (n : Name) (traits : Bool) : List Decl :=
  { ident := n, what := "enum" } ::
  (if traits then
    [{ ident := s "EnumTraits", group := some 1, what := "EnumTraits" },
     { ident := s "TryToGetEnumFromName", group := some 2, what := "helper" },
     { ident := s "TryToGetNameFromEnum", group := some 3, what := "helper" },
     { ident := s "EnumIsKnown", group := some 4, what := "helper" }]
   else [])

/-- A namespace scope: a C++ namespace — the namespace of one *or several* modules (modules
compiled together share a scope when their `(cpp) namespace` is the same), or `namespace
<Struct>` (which also holds the validators and the constant-virtual-field functions of that
structure).  `structs`/`enums` list every type any module declares there. -/
structure Scope where
  structs : List Name := []
  enums : List Name := []
  /-- the structure whose `namespace <Struct>` this is, if any -/
  owner : Option Struct := none
  traits : Bool := true
  /-- `external` types: the hand-written `<Name>View` template is expected in this namespace -/
  externals : List Name := []
deriving Repr

def zipIdx {α : Type} (l : List α) : List (α × Nat) := l.zip (List.range l.length)

def namespaceScope (sc : Scope) : List Decl :=
  (zipIdx sc.structs).flatMap (fun p => structDecls p.1 p.2) ++
  sc.enums.flatMap (fun e => enumDecls e sc.traits) ++
  (match sc.owner with
   | none => []
   | some st =>
     st.fields.flatMap (fun f =>
       (if f.validator then [{ ident := validatorName f.name, what := "validator" }] else []) ++
       (if f.constant then
         match cppFieldName f.name with
         | some c => [{ ident := c, what := "constant function" }]
         | none => []
        else []))) ++
  sc.externals.map (fun e => { ident := e ++ s "View", what := "external view" })

def compatible (a b : Decl) : Bool :=
  a.ident != b.ident || (match a.group, b.group with
    | some g, some h => g == h
    | _, _ => false)

/-- Pairs of clashing declarations, first occurrence first. -/
def clashes : List Decl → List (Decl × Decl)
  | [] => []
  | d :: ds => (ds.filter (fun e => !compatible d e)).map (fun e => (d, e)) ++ clashes ds

/-- The scope is well-formed as far as names go. -/
def clean (ds : List Decl) : Bool := (clashes ds).isEmpty

/-! ## `_verify_generated_field_names_are_distinct` (back end, since commit dca9b37) -/

def isDollar : Name → Bool
  | '$' :: _ => true
  | _ => false

/-- Names entered into the `virtual_view_names` dictionary, in field order: non-alias virtual
fields whose name does not start with `$`. -/
def checkedVirtualNames (fs : List Field) : List Name :=
  (fs.filter (fun f => f.ownView && !isDollar f.name)).map
    (fun f => s "EmbossReservedVirtual" ++ snakeToCamel f.name ++ s "View")

/-- Names entered into the `validator_names` dictionary: physical fields with `[requires]`. -/
def checkedValidatorNames (fs : List Field) : List Name :=
  (fs.filter (fun f => f.validator && !isDollar f.name)).map (fun f => validatorName f.name)

/-- No "… would both be named '…' in the generated C++ code." error for the structure. -/
def fieldNamesDistinct (fs : List Field) : Bool :=
  Emboss.Enum.distinctLoop [] (checkedVirtualNames fs) && Emboss.Enum.distinctLoop [] (checkedValidatorNames fs)

/-! ## `(cpp) namespace`: `_NS_RE`, `_get_namespace_components`, `_verify_namespace_attribute`

`_NS_COMPONENT_RE = (?:^\s*|::)\s*([a-zA-Z_][a-zA-Z0-9_]*)\s*(?=\s*$|::)` and
`_NS_RE = ^\s*(?:component)+\s*$` describe the regular language
`ws* (:: ws*)? ident ws* (:: ws* ident ws*)*`; the scanner below is its deterministic
automaton, collecting the identifiers (`re.findall` returns exactly them for a text that
matches `_NS_RE`).  `\s` on `str` patterns = `str.isspace()` (`Emboss.Enum.isSpace`). -/

def isIdentStart (c : Char) : Bool := c.isAlpha || c == '_'
def isIdentChar (c : Char) : Bool := c.isAlphanum || c == '_'

inductive NsState where
  /-- only whitespace so far -/
  | lead
  /-- the first `:` of a `::` has been read -/
  | colon1
  /-- after a `::` (and whitespace): an identifier must follow -/
  | sep
  /-- inside an identifier (characters reversed) -/
  | ident (cur : List Char)
  /-- whitespace after an identifier: `::` or the end of the text -/
  | trail
deriving Repr

/-- `acc`: components so far, reversed. -/
def nsScan : NsState → List Name → List Char → Option (List Name)
  | .ident cur, acc, [] => some (cur.reverse :: acc).reverse
  | .trail, acc, [] => some acc.reverse
  | _, _, [] => none
  | .lead, acc, c :: cs =>
    if Emboss.Enum.isSpace c then nsScan .lead acc cs
    else if c = ':' then nsScan .colon1 acc cs
    else if isIdentStart c then nsScan (.ident [c]) acc cs
    else none
  | .colon1, acc, c :: cs => if c = ':' then nsScan .sep acc cs else none
  | .sep, acc, c :: cs =>
    if Emboss.Enum.isSpace c then nsScan .sep acc cs
    else if isIdentStart c then nsScan (.ident [c]) acc cs
    else none
  | .ident cur, acc, c :: cs =>
    if isIdentChar c then nsScan (.ident (c :: cur)) acc cs
    else if Emboss.Enum.isSpace c then nsScan .trail (cur.reverse :: acc) cs
    else if c = ':' then nsScan .colon1 (cur.reverse :: acc) cs
    else none
  | .trail, acc, c :: cs =>
    if Emboss.Enum.isSpace c then nsScan .trail acc cs
    else if c = ':' then nsScan .colon1 acc cs
    else none

/-- `re.fullmatch(_NS_RE, text)` and, when it matches, `_get_namespace_components(text)`. -/
def nsParse (text : List Char) : Option (List Name) := nsScan .lead [] text

/-- `_NS_GLOBAL_RE = ^\s*::\s*$`. -/
def nsIsGlobal (text : List Char) : Bool :=
  match text.dropWhile Emboss.Enum.isSpace with
  | ':' :: ':' :: rest => rest.all Emboss.Enum.isSpace
  | _ => false

inductive NsVerdict where
  | ok (components : List Name)
  | empty | global | invalid
  | reserved (words : List Name)
deriving Repr, DecidableEq

/-- `_verify_namespace_attribute` against a list of reserved words (the real one is
`Emboss.Generated.cppReservedWords`, regenerated from `_CPP_RESERVED_WORDS` on every run). -/
def verifyNamespace (reservedWords : List String) (text : List Char) : NsVerdict :=
  match nsParse text with
  | none =>
    if text.all Emboss.Enum.isSpace then .empty
    else if nsIsGlobal text then .global
    else .invalid
  | some cs =>
    match cs.filter (fun c => reservedWords.contains (String.ofList c)) with
    | [] => .ok cs
    | ws => .reserved ws

end Emboss.Names
