/-
C17 — order-independence patterns (impl models).

A Python `set`/`frozenset` yields its elements in an order that depends on the hash
seed.  Everywhere below the argument `l : List α` is *the order in which the set
happened to be iterated*; a different hash seed gives a permutation of `l`.  Each
pattern is the model of one idiom by which emboss consumes such an iteration; the
lemmas in `Emboss/Lemmas/PurityPatterns.lean` prove each invariant under `List.Perm`.

The `Site`/`Pattern` types are what `harness/translate/itersites.py` regenerates
`Emboss/Generated/IterSites.lean` against.
-/
namespace Emboss.Purity

/-- How one iteration site consumes a hash-ordered collection. -/
inductive Pattern
  /-- `sorted(S)` / `for x in sorted(S)` — no key. -/
  | sortedFirst
  /-- `sorted(S, key=k)` with `k` injective on `S` (reviewed per site). -/
  | sortedByKey
  /-- `any(...)`, `all(...)`, or a loop whose every `return` gives the same constant. -/
  | anyAll
  /-- `min(S)`, `max(S)` (no key). -/
  | minMax
  /-- `len(S)`, truth value. -/
  | lenOnly
  /-- the iteration only builds another set (comprehension, `.add`, `.update`, `|=`). -/
  | setBuild
  /-- `sum(...)` / fold with a commutative, associative operation. -/
  | commFold
  /-- guarded by `len(S) == 1`. -/
  | singleton
  /-- memo of a pure function: a hit returns what a miss would compute. -/
  | memoPure
  /-- module-level table filled while the module is imported, constant afterwards. -/
  | writeOnceConst
  /-- process state that `Emboss.Model.Purity` models explicitly (cache, counter). -/
  | modelledState
  /-- reviewed exception (harness/translate/itersites_allow.json), no proof. -/
  | allowed
  /-- nothing matched: the obligation is broken. -/
  | unmatched
  deriving DecidableEq, Repr, Inhabited

structure Site where
  key : String
  pattern : Pattern
  deriving DecidableEq, Repr

def Pattern.discharged : Pattern → Bool
  | .unmatched => false
  | _ => true

/-- Python's `sorted(l)`: a stable sort (modelled by core's stable `mergeSort`). -/
def pySorted (le : α → α → Bool) (l : List α) : List α := l.mergeSort le

/-- Python's `sorted(l, key=k)`: stable sort comparing keys only. -/
def pySortedBy (le : κ → κ → Bool) (key : α → κ) (l : List α) : List α :=
  l.mergeSort (fun a b => le (key a) (key b))

/-- `", ".join(sorted(S))`-style rendering of a hash-ordered collection. -/
def joinSorted (le : String → String → Bool) (sep : String) (l : List String) : String :=
  sep.intercalate (pySorted le l)

/-- `for x in S: T.update(f x)` / `{y for x in S for y in f x}`: what ends up in `T`. -/
def setBuild (f : α → List β) (l : List α) : List β := l.flatMap f

/-- `for x in S: acc = op acc x`. -/
def fold (op : β → α → β) (init : β) (l : List α) : β := l.foldl op init

/-- `min(S)` on naturals (the empty case raises in Python: `none`). -/
def pyMin : List Nat → Option Nat
  | [] => none
  | a :: l => some (l.foldl min a)

def pyMax : List Nat → Option Nat
  | [] => none
  | a :: l => some (l.foldl max a)

/-- `list(S)[0]` under the guard `len(S) == 1`. -/
def onlyElement : List α → Option α
  | [a] => some a
  | _ => none

/-- `simple_memoizer.memoize` / a lazily initialised module constant: association list
of already computed results. -/
def memoStep [BEq κ] (f : κ → ν) (cache : List (κ × ν)) (k : κ) : List (κ × ν) × ν :=
  match cache.lookup k with
  | some v => (cache, v)
  | none => ((k, f k) :: cache, f k)

/-- Python ≥ 3.7 `dict`: keys iterate in first-insertion order (a language guarantee,
trusted); building a dict from an ordered source. -/
def dictKeys [BEq κ] (items : List (κ × ν)) : List κ :=
  items.foldl (fun ks kv => if ks.contains kv.1 then ks else ks ++ [kv.1]) []

end Emboss.Purity
