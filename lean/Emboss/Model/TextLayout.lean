/-
Concrete field descriptions for the abstract structure round trip of Emboss/Model/TextStruct.lean
(property C06): the locations, sizes and existence conditions the generated views compute are
*layout expressions* over the bytes of the buffer (`let` fields inlined down to the physical
fields they are computed from), and a structure is a list of *leaves* in the order of its write
clauses:

  * a scalar field = one leaf,
  * a conditional field `if c: …` = leaves whose `present` is `c`,
  * an array `o [+n*s] T[]` = one leaf per index `i` below a static bound, present iff `i < n`
    (the check `index < ElementCount()` of `ReadArrayFromTextStream` on the buffer being updated),
    located at `o + i*s`,
  * a nested structure = its leaves, offsets added,
  * a writable virtual field (`let a = n`, `let a = n + k`) = a leaf at the location of its
    source: reading it from text writes the source.

A leaf that does not fit into the buffer is absent (`IsComplete()` fails, `TryToWrite` refuses).
The driver op `SRT` runs `update zeroBuf (writeText …)` on such a description and a concrete
buffer; the harness compares the outcome with the real `UpdateFromText(WriteToString(view))`
byte for byte.
-/
import Emboss.Model.TextStruct
namespace Emboss.Text

inductive LExpr where
  | const (n : Nat)
  /-- value of the `UInt:8` at (static) byte offset `k` -/
  | byte (k : Nat)
  | add (a b : LExpr)
  | mul (a b : LExpr)
  /-- comparisons and connectives yield 1 / 0 -/
  | gt (a b : LExpr)
  | eq (a b : LExpr)
  | and (a b : LExpr)
  | not (a : LExpr)
  deriving Repr

def bitVal (b : Buf) (a : Nat) (w : Nat) : Nat := if b a then w else 0

/-- Little-endian bit numbering inside a byte: address `8k + i` holds bit `i`. -/
def byteVal (b : Buf) (k : Nat) : Nat :=
  bitVal b (8 * k) 1 + bitVal b (8 * k + 1) 2 + bitVal b (8 * k + 2) 4 + bitVal b (8 * k + 3) 8 +
  bitVal b (8 * k + 4) 16 + bitVal b (8 * k + 5) 32 + bitVal b (8 * k + 6) 64 + bitVal b (8 * k + 7) 128

def LExpr.eval (b : Buf) : LExpr → Nat
  | .const n => n
  | .byte k => byteVal b k
  | .add x y => x.eval b + y.eval b
  | .mul x y => x.eval b * y.eval b
  | .gt x y => if x.eval b > y.eval b then 1 else 0
  | .eq x y => if x.eval b = y.eval b then 1 else 0
  | .and x y => if x.eval b ≠ 0 ∧ y.eval b ≠ 0 then 1 else 0
  | .not x => if x.eval b = 0 then 1 else 0

/-- The bytes an expression reads. -/
def LExpr.reads : LExpr → List Nat
  | .const _ => []
  | .byte k => [k]
  | .add x y => x.reads ++ y.reads
  | .mul x y => x.reads ++ y.reads
  | .gt x y => x.reads ++ y.reads
  | .eq x y => x.reads ++ y.reads
  | .and x y => x.reads ++ y.reads
  | .not x => x.reads

structure Leaf where
  /-- existence condition (≠ 0: the field exists) -/
  present : LExpr
  /-- bit address of the first bit -/
  offset : LExpr
  width : Nat
  /-- has a write clause and is not read-only -/
  emitted : Bool
  deriving Repr

/-- Where the leaf lives in buffer `b` of `size` bits; `none`: absent or not inside the buffer. -/
def Leaf.loc (size : Nat) (l : Leaf) (b : Buf) : Option (List Nat) :=
  if l.present.eval b ≠ 0 ∧ l.offset.eval b + l.width ≤ size then
    some ((List.range l.width).map (· + l.offset.eval b))
  else none

def Leaf.sem (size : Nat) (l : Leaf) : FieldSem := ⟨l.loc size, l.emitted⟩

/-- Byte `k` is *established* by `p`: `p` is written to the text, exists unconditionally at a
constant place inside the buffer and covers the whole byte. -/
def Leaf.establishes (size : Nat) (p : Leaf) (k : Nat) : Bool :=
  p.emitted &&
    match p.present, p.offset with
    | .const c, .const o => c != 0 && decide (o ≤ 8 * k) && decide (8 * k + 8 ≤ o + p.width) &&
        decide (o + p.width ≤ size)
    | _, _ => false

/-- Syntactic sufficient condition for `DepOk`: everything the location of an emitted leaf reads
has been established by leaves that stand earlier in the text. -/
def depCheck (size : Nat) : List Leaf → List Leaf → Bool
  | _, [] => true
  | pre, l :: rest =>
    (!l.emitted || (l.present.reads ++ l.offset.reads).all fun k => pre.any fun p => p.establishes size k) &&
      depCheck size (pre ++ [l]) rest

/-- Buffer of a byte list (bit `i` of byte `k` at address `8k + i`); addresses beyond the list
read `false` — `Leaf.loc` never yields such an address for `size = 8 * bytes.length`. -/
def bufOfBytes (bytes : List Nat) : Buf := fun a =>
  match bytes[a / 8]? with
  | some v => v.testBit (a % 8)
  | none => false

def bytesOfBuf (b : Buf) (n : Nat) : List Nat := (List.range n).map (byteVal b)

/-- `UpdateFromText(WriteToString(view over bytes))` into a zeroed buffer of the same size:
the bytes afterwards, or `none` when the update returns false. -/
def structRoundTrip (leaves : List Leaf) (bytes : List Nat) : Option (List Nat) :=
  let size := 8 * bytes.length
  let fs := leaves.map (Leaf.sem size)
  (update zeroBuf (writeText fs (bufOfBytes bytes))).map fun b1 => bytesOfBuf b1 bytes.length

end Emboss.Text
