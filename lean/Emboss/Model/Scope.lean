/-
Model of compiler/front_end/symbol_resolver.py (+ the parts of compiler/util/ir_util.py it
relies on: `find_object_or_none`, `field_is_virtual`) — property C12.

Import-free (core Lean only) so that the driver links as a plain `lean_exe`.

Representation.  The Python symbol table is a tree of `_Scope` dicts.  Here it is a *flat*
list of entries keyed by the path of dict keys that leads to them
(`[module_file, name₁, …, nameₖ]`); `table[m][n₁]…[nₖ]` is `lookup T [m, n₁, …, nₖ]`.  An entry
keeps what `_Scope` keeps: canonical name (≠ key for abbreviations, `this` and import
aliases), visibility, alias, and the (opaque) id of its source location.
-/
namespace Emboss.Scope

/-- `[module_file, object_path…]`; a scope is named by the path of its dict keys. -/
abbrev Path := List String

/-- `_Scope.LOCAL | PRIVATE | SEARCHABLE`. -/
inductive Vis
  | loc | priv | search
  deriving DecidableEq, Repr

structure Entry where
  key : Path
  canon : Path
  vis : Vis
  alias : Option Path
  loc : Nat
  deriving DecidableEq, Repr

abbrev Table := List Entry

/-- `table[k₀][k₁]…` / `name in scoped_table`. -/
def lookup (T : Table) (k : Path) : Option Entry :=
  T.find? (fun e => decide (e.key = k))

inductive Err
  | duplicate (name : String) (loc orig : Nat)
  | missing (name : String) (loc : Nat)
  | ambiguous (name : String) (loc first other : Nat)
  | arrayMember (name : String) (loc : Nat)
  | noncomposite (name : String) (loc : Nat)
  /-- `assert not referenced_table.alias` / KeyError in the alias loop (never observed). -/
  | badAlias (name : String) (loc : Nat)
  /-- `Cannot use imported module '…' as a field`: the head of a field reference is bound to an
  import alias, i.e. to a whole module (repair of `_resolve_head_of_field_reference`) -/
  | moduleAsField (name : String) (loc : Nat)
  deriving DecidableEq, Repr

/-! ## `_construct_symbol_tables` -/

/-- One `_add_name_to_scope` / `_add_alias_to_scope` call. -/
structure Decl where
  scope : Path
  name : String
  canon : Path
  vis : Vis
  alias : Option Path
  loc : Nat
  deriving DecidableEq, Repr

def Decl.key (d : Decl) : Path := d.scope ++ [d.name]

def Decl.entry (d : Decl) : Entry :=
  { key := d.key, canon := d.canon, vis := d.vis, alias := d.alias, loc := d.loc }

/-- `_add_name_to_scope`: a name already present keeps its first definition and a
`duplicate_name_error` is recorded. -/
def insert (st : Table × List Err) (d : Decl) : Table × List Err :=
  match lookup st.1 d.key with
  | some o => (st.1, st.2 ++ [Err.duplicate d.name d.loc o.loc])
  | none => (st.1 ++ [d.entry], st.2)

def insertAll (st : Table × List Err) (ds : List Decl) : Table × List Err :=
  ds.foldl insert st

/-! ### The module description the passes of `_construct_symbol_tables` walk over.

`scope` is the key path of the enclosing scope.  (For children of a *duplicate* type the
Python adds names to a detached `_Scope`; the harness marks that by a `#k` suffix in the
scope path, so those names only collide among themselves — relevant only for which further
`Duplicate name` errors an already rejected module gets.) -/

structure TypeDecl where
  scope : Path
  name : String
  loc : Nat
  deriving Repr

structure ValueDecl where
  scope : Path
  name : String
  loc : Nat
  deriving Repr

/-- What `_resolve_field_reference` needs to know about a field
(`field_is_virtual`, `read_transform.which_expression`, `type.which_type`). -/
inductive FieldShape
  /-- physical, `atomic_type`; index of the type `Reference` in the module's reference list -/
  | atomic (typeRef : Nat)
  /-- physical, `array_type` -/
  | array
  /-- virtual, `read_transform` is a bare field reference; index in the field-reference list -/
  | virtAlias (fref : Nat)
  /-- virtual, any other expression -/
  | virtOther
  deriving DecidableEq, Repr

structure FieldDecl where
  scope : Path
  name : String
  loc : Nat
  abbr : Option (String × Nat)
  thisLoc : Nat
  shape : FieldShape
  deriving Repr

structure ParamDecl where
  scope : Path
  name : String
  loc : Nat
  deriving Repr

structure ImportDecl where
  module : String
  file : String
  /-- `local_name.text`; `""` for the prelude import -/
  alias : String
  loc : Nat
  deriving Repr

structure ModuleDesc where
  modules : List String
  types : List TypeDecl
  values : List ValueDecl
  fields : List FieldDecl
  params : List ParamDecl
  imports : List ImportDecl
  deriving Repr

/-- `_add_module_to_scope` (modelled as an ordinary insertion: a file is parsed once). -/
def moduleDecl (m : String) : Decl :=
  { scope := [], name := m, canon := [m], vis := .search, alias := none, loc := 0 }

/-- `_add_type_name_to_scope`: SEARCHABLE. -/
def typeDecl (t : TypeDecl) : Decl :=
  { scope := t.scope, name := t.name, canon := t.scope ++ [t.name], vis := .search,
    alias := none, loc := t.loc }

/-- `_add_enum_value_to_scope`: LOCAL. -/
def valueDecl (v : ValueDecl) : Decl :=
  { scope := v.scope, name := v.name, canon := v.scope ++ [v.name], vis := .loc,
    alias := none, loc := v.loc }

/-- `_add_parameter_name_to_scope`: LOCAL. -/
def paramDecl (p : ParamDecl) : Decl :=
  { scope := p.scope, name := p.name, canon := p.scope ++ [p.name], vis := .loc,
    alias := none, loc := p.loc }

def fieldNameDecl (f : FieldDecl) : Decl :=
  { scope := f.scope, name := f.name, canon := f.scope ++ [f.name], vis := .loc,
    alias := none, loc := f.loc }

/-- the abbreviation: PRIVATE, same canonical name as the field, an (empty) scope of its own -/
def abbrevDecl (f : FieldDecl) (a : String × Nat) : Decl :=
  { scope := f.scope, name := a.1, canon := f.scope ++ [f.name], vis := .priv,
    alias := none, loc := a.2 }

/-- `this` inside the field's own scope: PRIVATE, canonical name of the field -/
def thisDecl (f : FieldDecl) : Decl :=
  { scope := f.scope ++ [f.name], name := "this", canon := f.scope ++ [f.name], vis := .priv,
    alias := none, loc := f.thisLoc }

/-- `_add_struct_field_to_scope`: the field name (LOCAL), its abbreviation (PRIVATE), and
`this` (PRIVATE) inside the field's own scope.

Deviation kept deliberately small: in the Python `this` goes into the `_Scope` object just
created for the field, which is *detached* from the table when the field name was a
duplicate; in the flat table the second `this` collides with the first one and yields one more
`Duplicate name 'this'` error.  Its location is synthetic, so `error.split_errors` would hide
it, and a duplicate field name has already produced a visible error at that point: nothing
observable changes (the harness drops groups with a synthetic location exactly like
`glue.process_ir`). -/
def fieldDecls (f : FieldDecl) : List Decl :=
  fieldNameDecl f :: (match f.abbr with
    | some a => [abbrevDecl f a]
    | none => []) ++ [thisDecl f]

/-- `_add_import_to_scope` → `_add_alias_to_scope` (the prelude import is skipped). -/
def importDecl (i : ImportDecl) : Decl :=
  { scope := [i.module], name := i.alias, canon := [i.module, i.alias], vis := .search,
    alias := some [i.file], loc := i.loc }

def namedImports (M : ModuleDesc) : List ImportDecl :=
  M.imports.filter (fun i => i.alias != "")

/-- names added before the early exit: modules, then type names -/
def stage1 (M : ModuleDesc) : List Decl :=
  M.modules.map moduleDecl ++ M.types.map typeDecl

/-- names added after it: enum values, fields (+ abbreviation, `this`), parameters -/
def stage2 (M : ModuleDesc) : List Decl :=
  M.values.map valueDecl ++ M.fields.flatMap fieldDecls ++ M.params.map paramDecl

/-- `_construct_symbol_tables`: module pass, type pass, *early return on errors*, then enum
values, fields, parameters. -/
def construct (M : ModuleDesc) : Table × List Err :=
  let st := insertAll ([], []) (stage1 M)
  if st.2 ≠ [] then st else insertAll st (stage2 M)

/-! ## `_find_target_of_reference` -/

/-- `name in scoped_table and (scope == current_scope or visibility == SEARCHABLE)` -/
def isHit (T : Table) (cur : Path) (name : String) (s : Path) : Bool :=
  match lookup T (s ++ [name]) with
  | some e => decide (s = cur) || decide (e.vis = Vis.search)
  | none => false

/-- The `for scope in visible_scopes` loop.  Result: the scope of the first hit
(`found_in_table`) and the scopes of the later hits (one `ambiguous_name_error` each).
`isLocal` ⇒ `break` at the first hit. -/
def searchLoop (T : Table) (cur : Path) (name : String) (isLocal : Bool) :
    List Path → Option Path → Option Path × List Path
  | [], found => (found, [])
  | s :: rest, found =>
    if isHit T cur name s then
      match found with
      | some f =>
        let r := searchLoop T cur name isLocal rest (some f)
        (r.1, s :: r.2)
      | none => if isLocal then (some s, []) else searchLoop T cur name isLocal rest (some s)
    else searchLoop T cur name isLocal rest found

/-- `while found_in_table.alias:` (import aliases point at a module, which has no alias;
anything else trips the Python `assert`). -/
def deref (T : Table) (e : Entry) : Option Entry :=
  match e.alias with
  | none => some e
  | some a =>
    match lookup T a with
    | some m => if m.alias.isNone then some m else none
    | none => none

inductive WalkRes
  | ok (e : Entry)
  | missing (name : String) (loc : Nat)
  | badAlias (name : String) (loc : Nat)
  deriving Repr

/-- `for subname in reference.source_name:` — every component, the head included, is looked
up as a key of the current `_Scope`; visibility is *not* consulted here. -/
def walk (T : Table) : Path → Option Entry → List (String × Nat) → WalkRes
  | _, some e, [] => .ok e
  | _, none, [] => .badAlias "" 0
  | K, _, (n, l) :: ns =>
    match lookup T (K ++ [n]) with
    | none => .missing n l
    | some e0 =>
      match deref T e0 with
      | none => .badAlias n l
      | some e => walk T e.key (some e) ns

/-- Where a reference sits (`_set_visible_scopes_for_module / _type_definition / _attribute`). -/
structure Ctx where
  module : String
  /-- enclosing type names, outermost first -/
  types : List String
  /-- the field whose attribute contains the reference, if any -/
  attrField : Option String
  /-- anonymously imported files (the prelude) -/
  anon : List String
  deriving Repr

/-- the enclosing scopes `[m, T₁ … Tₖ], …, [m, T₁], [m]`, innermost first -/
def typeChain (m : String) (ts : List String) : List Path :=
  (List.range (ts.length + 1)).reverse.map (fun k => m :: ts.take k)

/-- `current_scope` -/
def Ctx.cur (c : Ctx) : Path :=
  match c.attrField with
  | some f => c.module :: c.types ++ [f]
  | none => c.module :: c.types

/-- `visible_scopes`, innermost first -/
def Ctx.visible (c : Ctx) : List Path :=
  (match c.attrField with
   | some f => [c.module :: c.types ++ [f]]
   | none => []) ++ typeChain c.module c.types ++ c.anon.map (fun f => [f])

structure Ref where
  ctx : Ctx
  names : List (String × Nat)
  loc : Nat
  isLocal : Bool
  deriving Repr

def locOf (T : Table) (k : Path) : Nat :=
  match lookup T k with
  | some e => e.loc
  | none => 0

/-- `_find_target_of_reference` for one reference.  `clean` = the *shared* error list was
empty on entry (`if not errors:` looks at the list shared by all references of the pass). -/
def resolveRef (T : Table) (clean : Bool) (r : Ref) : Option Path × List Err :=
  match r.names with
  | [] => (none, [])
  | (n, nloc) :: _ =>
    let s := searchLoop T r.ctx.cur n r.isLocal r.ctx.visible none
    match s.1 with
    | none => (none, [Err.missing n nloc])
    | some f =>
      let amb := s.2.map (fun o => Err.ambiguous n r.loc (locOf T (f ++ [n])) (locOf T (o ++ [n])))
      if clean && amb.isEmpty then
        match walk T f none r.names with
        | .ok e => (some e.canon, [])
        | .missing m l => (none, [Err.missing m l])
        | .badAlias m l => (none, [Err.badAlias m l])
      else (none, amb)

/-- The traversal: references in IR order sharing one error list. -/
def resolveRefs (T : Table) : List Ref → List Err → List (Option Path) × List Err
  | [], errs => ([], errs)
  | r :: rs, errs =>
    let x := resolveRef T errs.isEmpty r
    let y := resolveRefs T rs (errs ++ x.2)
    (x.1 :: y.1, y.2)

/-- `_resolve_head_of_field_reference`: `_resolve_reference` on the first element of the path;
a head bound to a canonical name with empty object path — a whole module, reached through an
import alias — is no field: one more error (the head stays bound). -/
def resolveHead (T : Table) (clean : Bool) (r : Ref) : Option Path × List Err :=
  let x := resolveRef T clean r
  match x.1, r.names with
  | some d, (n, _) :: _ =>
    if d.length = 1 then (x.1, x.2 ++ [Err.moduleAsField n r.loc]) else x
  | _, _ => x

/-- The traversal over the heads of the field references (same shared error list). -/
def resolveHeads (T : Table) : List Ref → List Err → List (Option Path) × List Err
  | [], errs => ([], errs)
  | r :: rs, errs =>
    let x := resolveHead T errs.isEmpty r
    let y := resolveHeads T rs (errs ++ x.2)
    (x.1 :: y.1, y.2)

/-! ## `_resolve_field_reference` and `ir_util.find_object_or_none` -/

inductive ObjKind
  | module | type | value | param
  | field (shape : FieldShape)
  deriving DecidableEq, Repr

structure Obj where
  canon : Path
  kind : ObjKind
  deriving DecidableEq, Repr

/-- The definitions `ir_util.find_object` can return.  (The Python searches a type's
parameters, then its fields / enum values, then its subtypes, and returns the first match; the
flat list is searched for the first object with the canonical name.  The two agree whenever
canonical names are unique — `C12_canonical_roundtrip` — which is the only situation in which
the resolver calls `find_object`.) -/
def objects (M : ModuleDesc) : List Obj :=
  M.modules.map (fun m => ⟨[m], .module⟩) ++
  M.types.map (fun t => ⟨t.scope ++ [t.name], .type⟩) ++
  M.values.map (fun v => ⟨v.scope ++ [v.name], .value⟩) ++
  M.fields.map (fun f => ⟨f.scope ++ [f.name], .field f.shape⟩) ++
  M.params.map (fun p => ⟨p.scope ++ [p.name], .param⟩)

/-- `ir_util.find_object_or_none` (lookup by canonical name). -/
def findObject (os : List Obj) (p : Path) : Option Obj :=
  os.find? (fun o => decide (o.canon = p))

/-- one element of `FieldReference.path`: name, location of the name, location of the reference -/
structure PathElem where
  name : String
  nloc : Nat
  rloc : Nat
  deriving Repr

structure FRef where
  ctx : Ctx
  path : List PathElem
  deriving Repr

inductive FRes
  | ok (canons : List Path)
  | err (e : Err)
  /-- the recursive call could not resolve the aliased reference: silent `return` -/
  | bail
  /-- internal inconsistency the Python would answer with an exception (`find_object` assertion
  on the target of an alias, a type reference without canonical name, an empty path).  Member
  access on something that is not a field (parameter, module) used to end here
  (AttributeError in `previous_field.read_transform`); since fix 8da3027 it is a
  `noncomposite` error. -/
  | crash
  /-- the iteration budget of the alias-following `while` loop is used up.  Since fix 22b80e8
  (the loop keeps the list of fields it has visited) this cannot happen any more:
  `C12_member_lookup_total`. -/
  | fuel
  /-- the nesting budget of `_resolve_field_reference` calling itself for the reference a
  renaming field stands for is used up (Python: `RecursionError`) -/
  | recursion
  deriving DecidableEq, Repr

structure FEnv where
  objs : List Obj
  /-- canonical names of the type references (pass A results) -/
  typeCanon : Nat → Option Path
  /-- canonical name of the head of every field reference (pass B results) -/
  headCanon : Nat → Option Path
  frefs : Nat → Option FRef

/-- The `while ir_util.field_is_virtual(previous_field)` loop: follow renaming virtual fields
until a physical field is reached.  `res i` is what the nested call
`_resolve_field_reference(previous_field.read_transform.field_reference, …)` leaves behind for
the `i`-th field reference; `visited` is the list `visited_fields` of fix 22b80e8 (a renaming
that comes back to a field already passed names no field: noncomposite error); the first
argument bounds the number of iterations (`fuel` when it is used up — never, see
`C12_member_lookup_total`). -/
def physLoop (objs : List Obj) (res : Nat → FRes) :
    Nat → Obj → PathElem → List Obj → FRes ⊕ Obj
  | 0, _, _, _ => .inl .fuel
  | n + 1, o, prev, visited =>
    match o.kind with
    | .field (.virtAlias i) =>
      if o ∈ visited then .inl (.err (Err.noncomposite prev.name prev.rloc)) else
      match res i with
      | .ok cs =>
        match cs.getLast? with
        | none => .inl .bail
        | some c =>
          match findObject objs c with
          | some o' => physLoop objs res n o' prev (o :: visited)
          | none => .inl .crash
      | .fuel => .inl .fuel
      | .recursion => .inl .recursion
      | .crash => .inl .crash
      | _ => .inl .bail
    | .field .virtOther => .inl (.err (Err.noncomposite prev.name prev.rloc))
    | .field _ => .inr o
    -- `if not isinstance(previous_field, ir_data.Field)` (fix 8da3027): a runtime parameter, a
    -- module, a type, an enum value has no members
    | _ => .inl (.err (Err.noncomposite prev.name prev.rloc))

/-- `physLoop` with the budget the model gives it: one iteration per definition and one more. -/
def physical (E : FEnv) (res : Nat → FRes) (o : Obj) (prev : PathElem) : FRes ⊕ Obj :=
  physLoop E.objs res (E.objs.length + 1) o prev []

/-- the `for ref in field_reference.path[1:]` loop -/
def members (E : FEnv) (res : Nat → FRes) : Obj → PathElem → List PathElem → List Path → FRes
  | _, _, [], acc => .ok acc
  | o, prev, r :: rest, acc =>
    match physical E res o prev with
    | .inl x => x
    | .inr p =>
      match p.kind with
      | .field .array => .err (Err.arrayMember prev.name prev.rloc)
      | .field (.atomic t) =>
        match E.typeCanon t with
        | none => .crash
        | some tc =>
          let m := tc ++ [r.name]
          match findObject E.objs m with
          | none => .err (Err.missing r.name r.nloc)
          | some o' => members E res o' r rest (acc ++ [m])
      | _ => .crash

/-- `_resolve_field_reference` for the `i`-th field reference of the module; the first argument
bounds the nesting of the function calling itself (`recursion` when it is used up). -/
def resolveFRef (E : FEnv) : Nat → Nat → FRes
  | 0, _ => .recursion
  | depth + 1, i =>
    match E.frefs i, E.headCanon i with
    | some fr, some h =>
      match fr.path with
      | [] => .crash
      | [_] => .ok [h]
      | p0 :: rest =>
        match findObject E.objs h with
        -- `find_object_or_none` gave None, which is not a `Field` either
        | none => .err (Err.noncomposite p0.name p0.rloc)
        | some o => members E (resolveFRef E depth) o p0 rest [h]
    | _, _ => .crash

/-! ## `resolve_symbols` + `resolve_field_references` -/

inductive Outcome
  /-- errors of `resolve_symbols` (construction, imports, or resolution) -/
  | errors (es : List Err)
  /-- `resolve_symbols` succeeded: canonical names of the plain references and of the heads -/
  | resolved (refs : List Path) (heads : List Path)
  /-- not produced any more: a reference outside any type definition (value of a module-level
  attribute) used to have no `current_scope` (`traverse_ir` raised AssertionError); since the
  repair `_set_visible_scopes_for_module` gives it the module as current scope, i.e.
  `Ctx.cur` = `[module]`, `Ctx.visible` = the module and the anonymous imports -/
  | crash
  /-- internal inconsistency (a reference without a result although no error was recorded) -/
  | broken
  deriving Repr

def headRef (f : FRef) : Ref :=
  match f.path with
  | [] => { ctx := f.ctx, names := [], loc := 0, isLocal := false }
  | p :: _ => { ctx := f.ctx, names := [(p.name, p.nloc)], loc := p.rloc, isLocal := false }

def allSome : List (Option Path) → Option (List Path)
  | [] => some []
  | none :: _ => none
  | some p :: rest => (allSome rest).map (p :: ·)

/-- The table `_resolve_symbols_from_table` works with, or the errors that stop before. -/
def fullTable (M : ModuleDesc) : Table × List Err :=
  let st := construct M
  if st.2 ≠ [] then st else
  insertAll st ((namedImports M).map importDecl)

/-- `resolve_symbols`. -/
def resolveSymbols (M : ModuleDesc) (refs : List Ref) (frefs : List FRef) : Outcome :=
  let st := fullTable M
  if st.2 ≠ [] then .errors st.2 else
  let a := resolveRefs st.1 refs []
  let b := resolveHeads st.1 (frefs.map headRef) a.2
  if b.2 ≠ [] then .errors b.2 else
  match allSome a.1, allSome b.1 with
  | some ra, some rb => .resolved ra rb
  | _, _ => .broken

/-- `resolve_field_references`: one result per field reference, in traversal order. -/
def resolveFieldRefs (M : ModuleDesc) (refCanon headCanon : List Path) (frefs : List FRef) :
    List FRes :=
  let E : FEnv := { objs := objects M, typeCanon := fun i => refCanon[i]?,
                    headCanon := fun i => headCanon[i]?, frefs := fun i => frefs[i]? }
  (List.range frefs.length).map (fun i => resolveFRef E (frefs.length + 1) i)

end Emboss.Scope
