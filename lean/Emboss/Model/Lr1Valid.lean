/-
The LR(1) table validator (translation validation of `Grammar.parser()`).

`Valid G A C` is a conjunction of bounded-quantifier statements over the grammar `G`, the
automaton `A` (tables as dumped from the real `lr1.Parser`) and a certificate `C` (the
parser's item sets, in an order in which every closure item is preceded by an item that
introduces it, the FIRST/nullable table, and a nonterminal bitmap).  Every conjunct is
decidable by instance inference, so `validB := decide (Valid G A C)` is the executable
checker and `validB = true → Valid` holds by construction.  The theorems of
`Properties/C08.lean` are proved from `Valid` for all grammars, automata and certificates.
-/
import Emboss.Model.Lr1
namespace Emboss.Lr1

structure Grammar where
  start : Nat
  /-- user productions (`Grammar(start, productions)`) -/
  prods : List Rule
  /-- code of `lr1.START_PRIME` -/
  startPrime : Nat
  /-- code of `lr1.END_OF_INPUT` -/
  eoi : Nat

def Grammar.seed (G : Grammar) : Rule := ⟨G.startPrime, [G.start]⟩
/-- `Grammar.productions = productions + [S' -> start]` -/
def Grammar.all (G : Grammar) : List Rule := G.prods ++ [G.seed]
def Grammar.seedIdx (G : Grammar) : Nat := G.prods.length
def Grammar.prodAt (G : Grammar) (i : Nat) : Option Rule := G.all[i]?
/-- nonterminal = appears as a left-hand side (`_compute_symbols`) -/
def Grammar.isNT (G : Grammar) (x : Nat) : Bool := G.all.any (fun p => p.lhs == x)

structure Item where
  pi : Nat
  dot : Nat
  la : Nat
deriving DecidableEq, Repr

structure Cert where
  items : Array (List Item)
  first : List (Nat × List Nat)
  nullable : List Nat
  nt : Array Bool

def Cert.itemsOf (C : Cert) (s : Nat) : List Item := (C.items[s]?).getD []
def Cert.isNT (C : Cert) (x : Nat) : Bool := (C.nt[x]?).getD false
def Cert.firstOf (C : Cert) (x : Nat) : List Nat :=
  if C.isNT x then (C.first.lookup x).getD [] else [x]
def Cert.nullableOf (C : Cert) (x : Nat) : Bool := C.isNT x && C.nullable.contains x

/-- FIRST of a symbol string followed by `tail` (ALSU p221, over the certificate's table). -/
def Cert.firstSeq (C : Cert) : List Nat → List Nat → List Nat
  | [], tail => tail
  | x :: β, tail => C.firstOf x ++ (if C.nullableOf x then C.firstSeq β tail else [])

def Action.shiftTarget : Action → Option Nat
  | .shift s => some s
  | _ => none

/-! ### the conjuncts -/

def VWf (G : Grammar) (A : Automaton) (C : Cert) : Prop :=
  A.prods = G.all ∧ A.eoi = G.eoi ∧ G.start ≠ G.startPrime ∧ G.eoi ≠ G.startPrime ∧ G.start ≠ G.eoi ∧
  (∀ p ∈ G.all, p.lhs ≠ G.eoi ∧ ∀ x ∈ p.rhs, x ≠ G.eoi) ∧
  (∀ p ∈ G.prods, p.lhs ≠ G.startPrime ∧ ∀ x ∈ p.rhs, x ≠ G.startPrime) ∧
  (∀ p ∈ G.all, C.isNT p.lhs = true) ∧
  (∀ x < C.nt.size, C.isNT x = true → G.isNT x = true) ∧
  (A.strict = true → (A.row 0).isSome = true)

def VStart (G : Grammar) (C : Cert) : Prop :=
  (⟨G.seedIdx, 0, G.eoi⟩ : Item) ∈ C.itemsOf 0 ∧ ∀ it ∈ C.itemsOf 0, it.dot = 0

/-- every item with a symbol after the dot has its shift / goto, leading to a state that
contains the advanced item -/
def TransOK (A : Automaton) (C : Cert) (s : Nat) (it : Item) (x : Nat) : Prop :=
  (C.isNT x = true → ∃ s' ∈ A.gotoOf s x, (⟨it.pi, it.dot + 1, it.la⟩ : Item) ∈ C.itemsOf s') ∧
  (C.isNT x = false → ∃ a ∈ A.entry s x, ∃ s' ∈ a.shiftTarget,
      (⟨it.pi, it.dot + 1, it.la⟩ : Item) ∈ C.itemsOf s')

def VTrans (G : Grammar) (A : Automaton) (C : Cert) : Prop :=
  ∀ s < C.items.size, ∀ it ∈ C.itemsOf s, ∀ p ∈ G.prodAt it.pi, ∀ x ∈ p.rhs[it.dot]?,
    TransOK A C s it x

/-- closure-closedness: `[A → α . X β, a]` brings `[X → . γ, c]` for every `c ∈ FIRST(β a)` -/
def VClosure (G : Grammar) (C : Cert) : Prop :=
  ∀ s < C.items.size, ∀ it ∈ C.itemsOf s, ∀ p ∈ G.prodAt it.pi, ∀ x ∈ p.rhs[it.dot]?,
    ∀ qj ∈ G.all.zipIdx, qj.1.lhs = x →
      ∀ c ∈ C.firstSeq (p.rhs.drop (it.dot + 1)) [it.la], (⟨qj.2, 0, c⟩ : Item) ∈ C.itemsOf s

/-- complete items reduce (or accept) on exactly their lookahead -/
def VComplete (G : Grammar) (A : Automaton) (C : Cert) : Prop :=
  ∀ s < C.items.size, ∀ it ∈ C.itemsOf s, ∀ p ∈ G.prodAt it.pi, it.dot = p.rhs.length →
    A.entry s it.la = some (if it.pi = G.seedIdx then .accept else .reduce it.pi)

/-- a transition `s --x--> s'` of the tables: the target is non-empty, has a row if the
tables are plain dicts, and each of its items is either a closure item (dot 0, not the
seed production) or the advance over `x` of an item of `s` -/
def TargetOK (G : Grammar) (A : Automaton) (C : Cert) (s x s' : Nat) : Prop :=
  C.itemsOf s' ≠ [] ∧ (A.strict = true → (A.row s').isSome = true) ∧
  ∀ it ∈ C.itemsOf s',
    (it.dot = 0 → it.pi ≠ G.seedIdx) ∧
    (it.dot ≠ 0 → (∃ p ∈ G.prodAt it.pi, p.rhs[it.dot - 1]? = some x) ∧
      (⟨it.pi, it.dot - 1, it.la⟩ : Item) ∈ C.itemsOf s)

def VKernel (G : Grammar) (A : Automaton) (C : Cert) : Prop :=
  (∀ s < A.action.size, ∀ r ∈ A.row s, ∀ e ∈ r, ∀ s' ∈ e.2.shiftTarget, TargetOK G A C s e.1 s') ∧
  (∀ s < A.goto.size, ∀ e ∈ (A.goto[s]?).getD [], TargetOK G A C s e.1 e.2)

/-- every closure item (dot 0) other than the seed is introduced by an *earlier* item of the
same list whose next symbol is its left-hand side (well-founded justification) -/
def JustOrder (G : Grammar) : List Item → List Item → Prop
  | _, [] => True
  | pre, it :: rest =>
    (it.dot = 0 → it.pi = G.seedIdx ∨
      ∃ jt ∈ pre, ∃ p ∈ G.prodAt it.pi, ∃ q ∈ G.prodAt jt.pi, q.rhs[jt.dot]? = some p.lhs) ∧
    JustOrder G (it :: pre) rest

def VOrder (G : Grammar) (C : Cert) : Prop :=
  ∀ s < C.items.size, JustOrder G [] (C.itemsOf s)

def ActOK (G : Grammar) (C : Cert) (s a : Nat) : Action → Prop
  | .shift _ => a ≠ G.eoi
  | .reduce pi => pi < G.prods.length ∧ ∃ p ∈ G.prodAt pi, (⟨pi, p.rhs.length, a⟩ : Item) ∈ C.itemsOf s
  | .accept => a = G.eoi ∧ (⟨G.seedIdx, 1, G.eoi⟩ : Item) ∈ C.itemsOf s
  | .error _ => True

/-- every table entry is keyed by a terminal and justified by an item of its state -/
def VActJust (G : Grammar) (A : Automaton) (C : Cert) : Prop :=
  ∀ s < A.action.size, ∀ r ∈ A.row s, ∀ e ∈ r, C.isNT e.1 = false ∧ ActOK G C s e.1 e.2

/-- the FIRST / nullable table is closed under the productions (so it contains the true
FIRST sets; nothing in the theorems needs it to be least) -/
def VFirst (G : Grammar) (C : Cert) : Prop :=
  ∀ p ∈ G.all,
    (p.rhs.all C.nullableOf = true → C.nullableOf p.lhs = true) ∧
    ∀ c ∈ C.firstSeq p.rhs [], c ∈ C.firstOf p.lhs

def Valid (G : Grammar) (A : Automaton) (C : Cert) : Prop :=
  VWf G A C ∧ VStart G C ∧ VTrans G A C ∧ VClosure G C ∧ VComplete G A C ∧ VKernel G A C ∧
  VOrder G C ∧ VActJust G A C ∧ VFirst G C

/-! ### decidability (by instance inference: the checker *is* the definition) -/

instance (G A C) : Decidable (VWf G A C) := by unfold VWf; infer_instance
instance (G C) : Decidable (VStart G C) := by unfold VStart; infer_instance
instance (A C s it x) : Decidable (TransOK A C s it x) := by unfold TransOK; infer_instance
instance (G A C) : Decidable (VTrans G A C) := by unfold VTrans; infer_instance
instance (G C) : Decidable (VClosure G C) := by unfold VClosure; infer_instance
instance (G A C) : Decidable (VComplete G A C) := by unfold VComplete; infer_instance
instance (G A C s x s') : Decidable (TargetOK G A C s x s') := by unfold TargetOK; infer_instance
instance (G A C) : Decidable (VKernel G A C) := by unfold VKernel; infer_instance
instance instDecJustOrder (G : Grammar) : (pre l : List Item) → Decidable (JustOrder G pre l)
  | _, [] => isTrue trivial
  | pre, it :: rest =>
    have := instDecJustOrder G (it :: pre) rest
    by unfold JustOrder; infer_instance
instance (G C) : Decidable (VOrder G C) := by unfold VOrder; infer_instance
instance (G C s a) : (x : Action) → Decidable (ActOK G C s a x)
  | .shift _ => by unfold ActOK; infer_instance
  | .reduce _ => by unfold ActOK; infer_instance
  | .accept => by unfold ActOK; infer_instance
  | .error _ => by unfold ActOK; infer_instance
instance (G A C) : Decidable (VActJust G A C) := by unfold VActJust; infer_instance
instance (G C) : Decidable (VFirst G C) := by unfold VFirst; infer_instance
instance (G A C) : Decidable (Valid G A C) := by unfold Valid; infer_instance

/-- The executable validator (run compiled by the driver; `decide`d in the kernel for the
small examples). -/
def validB (G : Grammar) (A : Automaton) (C : Cert) : Bool := decide (Valid G A C)

theorem validB_sound {G A C} (h : validB G A C = true) : Valid G A C := of_decide_eq_true h

/-- Which conjunct fails first (diagnostics only). -/
def validWhy (G : Grammar) (A : Automaton) (C : Cert) : String :=
  if ¬ VWf G A C then "wf" else if ¬ VStart G C then "start" else if ¬ VTrans G A C then "trans"
  else if ¬ VClosure G C then "closure" else if ¬ VComplete G A C then "complete"
  else if ¬ VKernel G A C then "kernel" else if ¬ VOrder G C then "order"
  else if ¬ VActJust G A C then "actjust" else if ¬ VFirst G C then "first" else "ok"

end Emboss.Lr1
