/-
The LR(1) table validator (translation validation of `Grammar.parser()`).

`Valid G A C` is a conjunction of bounded-quantifier statements over the grammar `G`, the
automaton `A` (tables as dumped from the real `lr1.Parser`) and a certificate `C`: the
parser's item sets (in an order in which every closure item is preceded by an item that
introduces it), a FIRST/nullable table, and lookup arrays (rules by index, productions by
left-hand side, nonterminal bitmap) that are checked against `G`.

Every conjunct is decidable by instance inference, so the checker *is* the definition:
`validB := decide (Valid G A C)` (used by `decide` in the kernel for the small examples).
The conjuncts are parametric in the item-membership test `mem s it`, which occurs only
positively; `Valid` instantiates it with list membership `it ∈ C.itemsOf s`, the compiled
checker `validFast` with hash-set lookups, and `validFast_sound` transfers the result.
The theorems of `Properties/C08.lean` are proved from `Valid` for all G, A, C.
-/
import Emboss.Model.Lr1
import Std.Data.HashSet
namespace Emboss.Lr1

structure Grammar where
  start : Nat
  /-- user productions (`Grammar(start, productions)`) -/
  prods : List Rule
  /-- code of `lr1.START_PRIME` -/
  startPrime : Nat
  /-- code of `lr1.END_OF_INPUT` -/
  eoi : Nat

def Grammar.seed (G : Grammar) : Rule := ⟨G.startPrime, [G.start]⟩
/-- `Grammar.productions = productions + [S' -> start]` -/
def Grammar.all (G : Grammar) : List Rule := G.prods ++ [G.seed]
def Grammar.seedIdx (G : Grammar) : Nat := G.prods.length
def Grammar.prodAt (G : Grammar) (i : Nat) : Option Rule := G.all[i]?
/-- nonterminal = appears as a left-hand side (`_compute_symbols`) -/
def Grammar.isNT (G : Grammar) (x : Nat) : Bool := G.all.any (fun p => p.lhs == x)

structure Item where
  pi : Nat
  dot : Nat
  la : Nat
deriving DecidableEq, Repr, Hashable

structure Cert where
  /-- item set of every state, closure items after an item that introduces them -/
  items : Array (List Item)
  /-- `G.all` as an array (checked) -/
  rules : Array Rule
  /-- left-hand side ↦ indices of its productions (checked to be complete) -/
  prodsOf : Array (List Nat)
  /-- FIRST per nonterminal code (checked to be closed under the productions) -/
  first : Array (List Nat)
  nullable : Array Bool
  /-- nonterminal bitmap (checked) -/
  nt : Array Bool

def Cert.itemsOf (C : Cert) (s : Nat) : List Item := (C.items[s]?).getD []
def Cert.ruleAt (C : Cert) (i : Nat) : Option Rule := C.rules[i]?
def Cert.seedIdx (C : Cert) : Nat := C.rules.size - 1
def Cert.prodsFor (C : Cert) (x : Nat) : List Nat := (C.prodsOf[x]?).getD []
def Cert.isNT (C : Cert) (x : Nat) : Bool := (C.nt[x]?).getD false
def Cert.firstOf (C : Cert) (x : Nat) : List Nat :=
  if C.isNT x then (C.first[x]?).getD [] else [x]
def Cert.nullableOf (C : Cert) (x : Nat) : Bool := C.isNT x && (C.nullable[x]?).getD false

/-- FIRST of a symbol string followed by `tail` (ALSU p221, over the certificate's table). -/
def Cert.firstSeq (C : Cert) : List Nat → List Nat → List Nat
  | [], tail => tail
  | x :: β, tail => C.firstOf x ++ (if C.nullableOf x then C.firstSeq β tail else [])

/-- symbol after the dot, as a list (empty for complete or ill-formed items) -/
def Cert.nextSyms (C : Cert) (it : Item) : List Nat :=
  match C.ruleAt it.pi with
  | some p => (p.rhs[it.dot]?).toList
  | none => []

def Action.shiftTarget : Action → Option Nat
  | .shift s => some s
  | _ => none

/-- the item-membership test the conjuncts are parametric in -/
abbrev Mem := Nat → Item → Prop

/-! ### the conjuncts -/

def VWf (G : Grammar) (A : Automaton) (C : Cert) : Prop :=
  A.prods = G.all ∧ A.eoi = G.eoi ∧ G.start ≠ G.startPrime ∧ G.eoi ≠ G.startPrime ∧ G.start ≠ G.eoi ∧
  (∀ p ∈ G.all, p.lhs ≠ G.eoi ∧ ∀ x ∈ p.rhs, x ≠ G.eoi) ∧
  (∀ p ∈ G.prods, p.lhs ≠ G.startPrime ∧ ∀ x ∈ p.rhs, x ≠ G.startPrime) ∧
  C.rules.toList = G.all ∧
  (∀ qj ∈ G.all.zipIdx, qj.2 ∈ C.prodsFor qj.1.lhs) ∧
  (∀ p ∈ G.all, C.isNT p.lhs = true) ∧
  (∀ x < C.nt.size, C.isNT x = true → G.isNT x = true) ∧
  (A.strict = true → (A.row 0).isSome = true)

def VStart (mem : Mem) (G : Grammar) (C : Cert) : Prop :=
  mem 0 ⟨C.seedIdx, 0, G.eoi⟩ ∧ ∀ it ∈ C.itemsOf 0, it.dot = 0

def TransOK (mem : Mem) (A : Automaton) (C : Cert) (s : Nat) (it : Item) (x : Nat) : Prop :=
  (C.isNT x = true → ∃ s' ∈ A.gotoOf s x, mem s' ⟨it.pi, it.dot + 1, it.la⟩) ∧
  (C.isNT x = false → ∃ a ∈ A.entry s x, ∃ s' ∈ a.shiftTarget, mem s' ⟨it.pi, it.dot + 1, it.la⟩)

/-- every item with a symbol after the dot has its shift / goto, leading to a state that
contains the advanced item -/
def VTrans (mem : Mem) (A : Automaton) (C : Cert) : Prop :=
  ∀ s < C.items.size, ∀ it ∈ C.itemsOf s, ∀ x ∈ C.nextSyms it, TransOK mem A C s it x

/-- closure-closedness: `[A → α . X β, a]` brings `[X → . γ, c]` for every `c ∈ FIRST(β a)` -/
def VClosure (mem : Mem) (C : Cert) : Prop :=
  ∀ s < C.items.size, ∀ it ∈ C.itemsOf s, ∀ p ∈ C.ruleAt it.pi, ∀ x ∈ p.rhs[it.dot]?,
    ∀ j ∈ C.prodsFor x, ∀ c ∈ C.firstSeq (p.rhs.drop (it.dot + 1)) [it.la], mem s ⟨j, 0, c⟩

/-- complete items reduce (or accept) on exactly their lookahead -/
def VComplete (A : Automaton) (C : Cert) : Prop :=
  ∀ s < C.items.size, ∀ it ∈ C.itemsOf s, ∀ p ∈ C.ruleAt it.pi, it.dot = p.rhs.length →
    A.entry s it.la = some (if it.pi = C.seedIdx then .accept else .reduce it.pi)

/-- a transition `s --x--> s'` of the tables: the target is non-empty, has a row if the
tables are plain dicts, and each of its items is either a closure item (dot 0, not the
seed production) or the advance over `x` of an item of `s` -/
def TargetOK (mem : Mem) (A : Automaton) (C : Cert) (s x s' : Nat) : Prop :=
  C.itemsOf s' ≠ [] ∧ (A.strict = true → (A.row s').isSome = true) ∧
  ∀ it ∈ C.itemsOf s',
    (it.dot = 0 → it.pi ≠ C.seedIdx) ∧
    (it.dot ≠ 0 → (∃ p ∈ C.ruleAt it.pi, p.rhs[it.dot - 1]? = some x) ∧
      mem s ⟨it.pi, it.dot - 1, it.la⟩)

def VKernel (mem : Mem) (A : Automaton) (C : Cert) : Prop :=
  (∀ s < A.action.size, ∀ r ∈ A.row s, ∀ e ∈ r, ∀ s' ∈ e.2.shiftTarget, TargetOK mem A C s e.1 s') ∧
  (∀ s < A.goto.size, ∀ e ∈ (A.goto[s]?).getD [], TargetOK mem A C s e.1 e.2)

/-- every closure item (dot 0) other than the seed is introduced by an *earlier* item of the
same list whose next symbol is its left-hand side (`seen` = next symbols of earlier items):
a well-founded justification -/
def JustOrder (C : Cert) : List Nat → List Item → Prop
  | _, [] => True
  | seen, it :: rest =>
    (it.dot = 0 → it.pi = C.seedIdx ∨ ∃ p ∈ C.ruleAt it.pi, p.lhs ∈ seen) ∧
    JustOrder C (C.nextSyms it ++ seen) rest

def VOrder (C : Cert) : Prop :=
  ∀ s < C.items.size, JustOrder C [] (C.itemsOf s)

def ActOK (mem : Mem) (G : Grammar) (C : Cert) (s a : Nat) : Action → Prop
  | .shift _ => a ≠ G.eoi
  | .reduce pi => pi < C.seedIdx ∧ ∃ p ∈ C.ruleAt pi, mem s ⟨pi, p.rhs.length, a⟩
  | .accept => a = G.eoi ∧ mem s ⟨C.seedIdx, 1, G.eoi⟩
  | .error _ => True

/-- every table entry is keyed by a terminal and justified by an item of its state -/
def VActJust (mem : Mem) (G : Grammar) (A : Automaton) (C : Cert) : Prop :=
  ∀ s < A.action.size, ∀ r ∈ A.row s, ∀ e ∈ r, C.isNT e.1 = false ∧ ActOK mem G C s e.1 e.2

/-- the FIRST / nullable table is closed under the productions (so it contains the true
FIRST sets; nothing in the theorems needs it to be least) -/
def VFirst (C : Cert) : Prop :=
  ∀ p ∈ C.rules.toList,
    (p.rhs.all C.nullableOf = true → C.nullableOf p.lhs = true) ∧
    ∀ c ∈ C.firstSeq p.rhs [], c ∈ C.firstOf p.lhs

def ValidM (mem : Mem) (G : Grammar) (A : Automaton) (C : Cert) : Prop :=
  VWf G A C ∧ VStart mem G C ∧ VTrans mem A C ∧ VClosure mem C ∧ VComplete A C ∧ VKernel mem A C ∧
  VOrder C ∧ VActJust mem G A C ∧ VFirst C

def listMem (C : Cert) : Mem := fun s it => it ∈ C.itemsOf s

/-- **The validity predicate** (membership = list membership in the certificate's item sets). -/
def Valid (G : Grammar) (A : Automaton) (C : Cert) : Prop := ValidM (listMem C) G A C

/-! ### decidability (by instance inference: the checker *is* the definition) -/
section
variable (mem : Mem) [∀ s it, Decidable (mem s it)]

instance (G A C) : Decidable (VWf G A C) := by unfold VWf; infer_instance
instance (G C) : Decidable (VStart mem G C) := by unfold VStart; infer_instance
instance (A C s it x) : Decidable (TransOK mem A C s it x) := by unfold TransOK; infer_instance
instance (A C) : Decidable (VTrans mem A C) := by unfold VTrans; infer_instance
instance (C) : Decidable (VClosure mem C) := by unfold VClosure; infer_instance
instance (A C) : Decidable (VComplete A C) := by unfold VComplete; infer_instance
instance (A C s x s') : Decidable (TargetOK mem A C s x s') := by unfold TargetOK; infer_instance
instance (A C) : Decidable (VKernel mem A C) := by unfold VKernel; infer_instance
instance instDecJustOrder (C : Cert) : (seen : List Nat) → (l : List Item) → Decidable (JustOrder C seen l)
  | _, [] => isTrue trivial
  | seen, it :: rest =>
    have := instDecJustOrder C (C.nextSyms it ++ seen) rest
    by unfold JustOrder; infer_instance
instance (C) : Decidable (VOrder C) := by unfold VOrder; infer_instance
instance (G C s a) : (x : Action) → Decidable (ActOK mem G C s a x)
  | .shift _ => by unfold ActOK; infer_instance
  | .reduce _ => by unfold ActOK; infer_instance
  | .accept => by unfold ActOK; infer_instance
  | .error _ => by unfold ActOK; infer_instance
instance (G A C) : Decidable (VActJust mem G A C) := by unfold VActJust; infer_instance
instance (C) : Decidable (VFirst C) := by unfold VFirst; infer_instance
instance (G A C) : Decidable (ValidM mem G A C) := by unfold ValidM; infer_instance
end

instance (C : Cert) : ∀ s it, Decidable (listMem C s it) := by unfold listMem; infer_instance
instance (G A C) : Decidable (Valid G A C) := by unfold Valid; infer_instance

/-- The executable validator, list version (what `decide` evaluates in the kernel). -/
def validB (G : Grammar) (A : Automaton) (C : Cert) : Bool := decide (Valid G A C)
theorem validB_sound {G A C} (h : validB G A C = true) : Valid G A C := of_decide_eq_true h

/-! ### the compiled checker: same conjuncts, membership by hash-set lookup -/

def fastMem (sets : Array (Std.HashSet Item)) : Mem :=
  fun s it => ∃ hs ∈ sets[s]?, hs.contains it = true

instance (sets) : ∀ s it, Decidable (fastMem sets s it) := by unfold fastMem; infer_instance

def Cert.sets (C : Cert) : Array (Std.HashSet Item) := C.items.map Std.HashSet.ofList

def validFast (G : Grammar) (A : Automaton) (C : Cert) : Bool :=
  let sets := C.sets
  decide (ValidM (fastMem sets) G A C)

/-- Which conjunct fails first (diagnostics only). -/
def validWhy (G : Grammar) (A : Automaton) (C : Cert) : String :=
  let m := fastMem C.sets
  if ¬ VWf G A C then "wf" else if ¬ VStart m G C then "start" else if ¬ VTrans m A C then "trans"
  else if ¬ VClosure m C then "closure" else if ¬ VComplete A C then "complete"
  else if ¬ VKernel m A C then "kernel" else if ¬ VOrder C then "order"
  else if ¬ VActJust m G A C then "actjust" else if ¬ VFirst C then "first" else "ok"

end Emboss.Lr1
