/-
Impl model of `lr1.Parser.mark_error` (the "Merr" error marking used by
`make_parser.build_*_parser` with the examples of `front_end/error_examples`).

`mark_error(tokens, error_token, error_code)` parses `tokens`; if the parse fails at the
expected token it records the code for the error state: as the state's default error when
the token is `ANY_TOKEN`, otherwise as an `Error(code)` entry for (state, symbol).  An existing
different code is reported (the model returns `none`); an equal one is accepted.

* `slotOf A fuel e` — where example `e` wants its code: first half of `mark_error` (parse + token
                      checks); `none` = a message is returned ("Input successfully parsed.",
                      "error occurred on … token, not …").
* `put A slot code` — second half: the table update with the overwrite check.
* `markError`, `markAll` — one example / the loop of `make_parser` over the example list.
-/
import Emboss.Model.Lr1
namespace Emboss.Lr1

inductive ErrTok where
  /-- `error_token is None`: the parse must fail at the end-of-input token -/
  | eoi
  /-- `ANY_TOKEN` (it occurs in `tokens` at the error position; its symbol is no table key) -/
  | any (t : Token)
  | tok (t : Token)

structure ErrExample where
  tokens : List Token
  errTok : ErrTok
  code : Nat

inductive Slot where
  /-- `default_errors[s]` -/
  | dflt (s : Nat)
  /-- `action[s][a]` -/
  | entry (s a : Nat)
deriving DecidableEq, Repr

def slotOf (A : Automaton) (fuel : Nat) (e : ErrExample) : Option Slot :=
  match run A fuel e.tokens with
  | .error _ i s _ =>
    match e.errTok with
    | .eoi => if lookahead A e.tokens i = A.eoi then some (.entry s A.eoi) else none
    | .any t => if e.tokens[i]? = some t then some (.dflt s) else none
    | .tok t => if e.tokens[i]? = some t then some (.entry s t.sym) else none
  | _ => none

/-- `action[s][a] = act` on a `defaultdict(dict)`: the row of `s` gets the entry (a missing row
is created), every other row is unchanged -/
def setEntry (rows : Array (Option Row)) (s : Nat) (e : Nat × Action) : Array (Option Row) :=
  Array.ofFn (n := max rows.size (s + 1)) fun j =>
    if j.val = s then some (((rows[j.val]?).join).getD [] ++ [e]) else (rows[j.val]?).join

def put (A : Automaton) (sl : Slot) (code : Nat) : Option Automaton :=
  match sl with
  | .dflt s =>
    match A.defaultErrors.lookup s with
    | some c => if c = code then some A else none
    | none => some { A with defaultErrors := A.defaultErrors ++ [(s, code)] }
  | .entry s a =>
    match A.entry s a with
    | some (.error c) => if c = some code then some A else none
    | some _ => none        -- `assert isinstance(existing_error, Error)`
    | none =>
      if A.strict && (A.row s).isNone then none      -- plain dict without the row: KeyError
      else some { A with action := setEntry A.action s (a, .error (some code)) }

def markError (A : Automaton) (fuel : Nat) (e : ErrExample) : Option Automaton :=
  (slotOf A fuel e).bind fun sl => put A sl e.code

def markAll (A : Automaton) (fuel : Nat) : List ErrExample → Option Automaton
  | [] => some A
  | e :: es => (markError A fuel e).bind fun B => markAll B fuel es

def putAll (A : Automaton) : List (Slot × Nat) → Option Automaton
  | [] => some A
  | p :: ps => (put A p.1 p.2).bind fun B => putAll B ps

/-- the (slot, code) pairs the examples ask for, computed on one fixed table -/
def slotsOf (A : Automaton) (fuel : Nat) : List ErrExample → Option (List (Slot × Nat))
  | [] => some []
  | e :: es =>
    match slotOf A fuel e, slotsOf A fuel es with
    | some sl, some ps => some ((sl, e.code) :: ps)
    | _, _ => none

end Emboss.Lr1
