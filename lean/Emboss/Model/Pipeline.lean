/-
C16 — impl model of the error plumbing of the Emboss front end.

Mirrors (quirks included):
  * compiler/util/error.py      `_Message.format`, `format_errors`, `split_errors`,
                                `location_or_default`, `make_error_from_parse_error`
  * compiler/front_end/glue.py  `process_ir` (control only: the passes are abstract),
                                `only_parse_emboss_file` (import work queue),
                                `parse_emboss_file` (composition)

Python exceptions are made observable: every place where the Python code indexes a
list, asserts, or looks a key up is an explicit `Except Crash` branch here, so "the
function is defined" is the statement "the result is `.ok`".

Text is `List Char` (Python `str` = sequence of code points); file names are `String`.
No imports: this file links into the plain `model_c16` executable.
-/
namespace Emboss.Pipeline

abbrev Text := List Char

/-- `parser_types.SourceLocation` (start line/column, end line/column, `is_synthetic`).
`(0,0)-(0,0)` is the "no location" value `error.location_or_default` substitutes. -/
structure Loc where
  sl : Nat
  sc : Nat
  el : Nat
  ec : Nat
  synthetic : Bool
deriving DecidableEq, Repr

inductive Severity
  | error | warning | note
deriving DecidableEq, Repr

/-- `error._Message`. -/
structure Msg where
  file : String
  loc : Loc
  sev : Severity
  text : Text
deriving DecidableEq, Repr

abbrev Group := List Msg
abbrev Errors := List Group

/-- What an uncaught Python exception would be. -/
inductive Crash
  | indexError      -- `source_lines[line - 1]` out of range
  | emptyGroup      -- `assert error_group, "Found empty error_group!"`
  | badStopStep     -- `assert stop_before_step in [None] + valid_step_names`
  | lateStopAssert  -- `assert stop_before_step is None` at the end of `process_ir`
deriving DecidableEq, Repr

/-! ### `str.splitlines()` -/

/-- The line boundaries of Python's `str.splitlines` (besides `\r\n`). -/
def isLineBreak (c : Char) : Bool :=
  c.toNat == 0x0a || c.toNat == 0x0d || c.toNat == 0x0b || c.toNat == 0x0c ||
  c.toNat == 0x1c || c.toNat == 0x1d || c.toNat == 0x1e || c.toNat == 0x85 ||
  c.toNat == 0x2028 || c.toNat == 0x2029

/-- `cur` is the current line, reversed; `afterCR` = the previous character was a `\r`
that closed a line (a directly following `\n` belongs to the same line break). -/
def splitlinesAux : Text → Text → Bool → List Text
  | [], cur, _ => if cur.isEmpty then [] else [cur.reverse]
  | c :: rest, cur, afterCR =>
    if afterCR && c.toNat == 0x0a then splitlinesAux rest cur false
    else if isLineBreak c then cur.reverse :: splitlinesAux rest [] (c.toNat == 0x0d)
    else splitlinesAux rest (c :: cur) false

def pySplitlines (t : Text) : List Text := splitlinesAux t [] false

/-! ### `error._Message.format` -/

inductive Color
  | bold | brightRed | brightYellow | white | brightGreen
deriving DecidableEq, Repr

def esc : Char := Char.ofNat 27

def Color.code : Color → Text
  | .bold => esc :: "[0;1m".toList
  | .brightRed => esc :: "[0;1;31m".toList
  | .brightYellow => esc :: "[0;1;33m".toList
  | .white => esc :: "[0;37m".toList
  | .brightGreen => esc :: "[0;1;32m".toList

def resetCode : Text := esc :: "[0m".toList

def Severity.name : Severity → Text
  | .error => "error".toList
  | .warning => "warning".toList
  | .note => "note".toList

/-- `severity_colors[severity]`. -/
def Severity.colors : Severity → Color × Color
  | .error => (.brightRed, .bold)
  | .warning => (.brightYellow, .bold)
  | .note => (.white, .white)

/-- `source_code` dict: association list (keys unique in every use). -/
def lookupSource (sources : List (String × Text)) (f : String) : Option Text :=
  match sources.find? (fun p => p.1 == f) with
  | some p => some p.2
  | none => none

/-- `pos`: `"[compiler bug]"` for synthetic locations, else `str(location.start)`. -/
def posText (l : Loc) : Text :=
  if l.synthetic then "[compiler bug]".toList
  else (toString l.sl).toList ++ ':' :: (toString l.sc).toList

/-- `source_name = self.source_file or "[prelude]"`. -/
def sourceName (f : String) : Text :=
  if f.isEmpty then "[prelude]".toList else f.toList

/-- The source line shown under the message ("" = none).  After `fix:` 0ced081 the
lookup `source_lines[line - 1]` is guarded by `1 <= line <= len(source_lines)`; the list
access itself stays an explicit partial lookup so that the guard is what the totality
theorem is about. -/
def sourceLine (m : Msg) (sources : List (String × Text)) : Except Crash Text :=
  if m.loc.synthetic then .ok []
  else
    match lookupSource sources m.file with
    | none => .ok []
    | some src =>
      let lines := pySplitlines src
      if 1 ≤ m.loc.sl ∧ m.loc.sl ≤ lines.length then
        match lines[m.loc.sl - 1]? with
        | some l => .ok l
        | none => .error .indexError
      else .ok []

/-- Python's `seq[i]` for a possibly negative `i`. -/
def pyIndex (l : List α) (i : Int) : Option α :=
  if 0 ≤ i then l[i.toNat]?
  else if i.natAbs ≤ l.length then l[l.length - i.natAbs]? else none

/-- The lookup as it was *before* `fix:` 0ced081: unguarded `source_lines[line - 1]`. -/
def sourceLineUnguarded (m : Msg) (sources : List (String × Text)) : Except Crash Text :=
  if m.loc.synthetic then .ok []
  else
    match lookupSource sources m.file with
    | none => .ok []
    | some src =>
      match pyIndex (pySplitlines src) ((m.loc.sl : Int) - 1) with
      | some l => .ok l
      | none => .error .indexError

/-- The `(colour, text)` triples for the message lines.  `n` = number of message lines,
`i` = index of `line`. -/
def headerLines (name pos : Text) (sev : Severity) (hasSrc : Bool) (n : Nat) :
    Nat → List Text → List (Color × Text)
  | _, [] => []
  | i, line :: rest =>
    let line' := if i ≠ n - 1 ∨ hasSrc then line ++ ['\n'] else line
    let s := if i = 0 then sev else Severity.note
    (Color.bold, name ++ ':' :: pos ++ ": ".toList) ::
    (s.colors.1, s.name ++ ": ".toList) ::
    (s.colors.2, line') :: headerLines name pos sev hasSrc n (i + 1) rest

/-- `"^" * max(1, end.column - start.column)` on one line, `"^"` otherwise.  (Python's
`max(1, negative)` and `" " * negative` coincide with truncated subtraction.) -/
def caret (l : Loc) : Text :=
  if l.sl = l.el then List.replicate (max 1 (l.ec - l.sc)) '^' else ['^']

def indicator (l : Loc) : Text := List.replicate (l.sc - 1) ' ' ++ caret l

def formatWith (srcLine : Except Crash Text) (m : Msg) : Except Crash (List (Color × Text)) :=
  match srcLine with
  | .error c => .error c
  | .ok src =>
    let lines := pySplitlines m.text
    let hdr := headerLines (sourceName m.file) (posText m.loc) m.sev (!src.isEmpty) lines.length 0 lines
    if src.isEmpty then .ok hdr
    else .ok (hdr ++ [(Color.white, src ++ ['\n']), (Color.brightGreen, indicator m.loc)])

/-- `_Message.format(source_code)` on the current tree. -/
def formatMsg (m : Msg) (sources : List (String × Text)) : Except Crash (List (Color × Text)) :=
  formatWith (sourceLine m sources) m

/-- `_Message.format` before the guard was added. -/
def formatMsgUnguarded (m : Msg) (sources : List (String × Text)) :
    Except Crash (List (Color × Text)) :=
  formatWith (sourceLineUnguarded m sources) m

def renderPieces (useColor : Bool) (ps : List (Color × Text)) : Text :=
  if useColor then (ps.map fun p => p.1.code ++ p.2 ++ resetCode).flatten
  else (ps.map fun p => p.2).flatten

/-- `message.format(source_codes)` for every message of one group, in order. -/
def formatMsgs (sources : List (String × Text)) : Group → Except Crash (List (List (Color × Text)))
  | [] => .ok []
  | m :: ms =>
    match formatMsg m sources with
    | .error c => .error c
    | .ok p =>
      match formatMsgs sources ms with
      | .error c => .error c
      | .ok ps => .ok (p :: ps)

/-- The list `result` of `format_errors`, or the failed assertion. -/
def formatGroups (useColor : Bool) (sources : List (String × Text)) :
    Errors → Except Crash (List Text)
  | [] => .ok []
  | g :: gs =>
    if g.isEmpty then .error .emptyGroup
    else
      match formatMsgs sources g with
      | .error c => .error c
      | .ok ps =>
        match formatGroups useColor sources gs with
        | .error c => .error c
        | .ok rest => .ok (ps.map (renderPieces useColor) ++ rest)

def joinLines : List Text → Text
  | [] => []
  | [t] => t
  | t :: rest => t ++ '\n' :: joinLines rest

/-- `error.format_errors(errors, source_codes, use_color)`. -/
def formatErrors (es : Errors) (sources : List (String × Text)) (useColor : Bool) :
    Except Crash Text :=
  match formatGroups useColor sources es with
  | .error c => .error c
  | .ok ts => .ok (joinLines ts)

/-! ### `make_error_from_parse_error` -/

def hexDigit (n : Nat) : Char := (Nat.toDigits 16 n).headD '0'

/-- Python `repr` of one character inside a string literal delimited by `q`, for the
ASCII range (the correspondence only sends ASCII token texts; other characters are kept,
which is what Python does for printable ones). -/
def reprChar (q : Char) (c : Char) : Text :=
  if c == '\\' then ['\\', '\\']
  else if c == q then ['\\', q]
  else if c == '\n' then ['\\', 'n']
  else if c == '\r' then ['\\', 'r']
  else if c == '\t' then ['\\', 't']
  else if c.toNat < 32 ∨ c.toNat = 127 then
    ['\\', 'x', hexDigit (c.toNat / 16), hexDigit (c.toNat % 16)]
  else [c]

/-- Python `repr(str)`: single quotes unless the text has a `'` and no `"`. -/
def pyRepr (t : Text) : Text :=
  let q : Char := if t.contains '\'' ∧ !t.contains '"' then '"' else '\''
  q :: (t.map (reprChar q)).flatten ++ [q]

def joinWith (sep : Text) : List Text → Text
  | [] => []
  | [t] => t
  | t :: rest => t ++ sep ++ joinWith sep rest

/-- `error.location_or_default`. -/
def locOrDefault : Option Loc → Loc
  | some l => if l.sl = 0 then ⟨0, 0, 0, 0, false⟩ else l   -- falsy location ⇒ default
  | none => ⟨0, 0, 0, 0, false⟩

/-- Lexicographic order on code points = Python's `str` order. -/
def textLe (a b : Text) : Bool := !(b < a)

/-- `make_error_from_parse_error(file_name, parse_error)`; `code = none` or `""` gives
"Syntax error"; `expected` is the *set* `expected_tokens` in any order. -/
def makeErrorFromParseError (file : String) (code : Option Text) (tokText tokSymbol : Text)
    (tokLoc : Option Loc) (expected : List Text) : Group :=
  let codeText : Text := match code with
    | some c => if c.isEmpty then "Syntax error".toList else c
    | none => "Syntax error".toList
  [{ file := file, loc := locOrDefault tokLoc, sev := .error,
     text := codeText ++ '\n' :: "Found ".toList ++ pyRepr tokText ++ " (".toList ++ tokSymbol ++
       "), expected ".toList ++ joinWith ", ".toList (expected.mergeSort textLe) ++ ".".toList }]

/-! ### `split_errors` and `process_ir` -/

def Group.isSynthetic (g : Group) : Bool := g.any (fun m => m.loc.synthetic)

/-- `(user_errors, synthetic_errors)`, each in the original order. -/
def splitErrors (es : Errors) : Errors × Errors :=
  (es.filter (fun g => !Group.isSynthetic g), es.filter Group.isSynthetic)

/-- One pass of `process_ir`: it may mutate the IR (state `σ`) and returns error groups. -/
structure Pass (σ : Type) where
  name : String
  run : σ → σ × Errors

inductive Outcome (σ : Type)
  | ir (s : σ)
  | errors (es : Errors)
  | crash (c : Crash)
  | outOfFuel

/-- The `for function in passes` loop and what follows it. -/
def processLoop (stop : Option String) : List (Pass σ) → σ → Errors → Outcome σ
  | [], s, deferred =>
    if !deferred.isEmpty then .errors deferred
    else if stop.isSome then .crash .lateStopAssert
    else .ir s
  | p :: ps, s, deferred =>
    if stop = some p.name then .ir s
    else
      let r := p.run s
      let sp := splitErrors r.2
      if !sp.1.isEmpty then .errors sp.1
      else processLoop stop ps r.1 (deferred ++ sp.2)

/-- `glue.process_ir(ir, stop_before_step)`. -/
def processIr (passes : List (Pass σ)) (stop : Option String) (s : σ) : Outcome σ :=
  match stop with
  | some n => if (passes.map (·.name)).contains n then processLoop stop passes s []
              else .crash .badStopStep
  | none => processLoop stop passes s []

/-! ### import work queue of `only_parse_emboss_file` -/

/-- What parsing one file yields: its errors (truthy ⇒ stop) and the file names of its
`foreign_import`s in order (the implicit prelude import `""` included). -/
structure Parsed where
  errors : Errors
  imports : List String

/-- `get_prelude()` for the name `""`, `parse_module(name, file_reader)` otherwise. -/
def parseOne (reader : String → Parsed) (prelude : Parsed) (f : String) : Parsed :=
  if f.isEmpty then prelude else reader f

/-- The `for import_ in module.foreign_import` loop: append unseen names to the queue
and to `files`. -/
def enqueue : List String → List String → List String → List String × List String
  | [], q, seen => (q, seen)
  | i :: is, q, seen =>
    if seen.contains i then enqueue is q seen else enqueue is (q ++ [i]) (seen ++ [i])

inductive QResult
  | done (files : List String)                     -- modules of the IR, in order
  | errors (es : Errors) (file : String) (parsedBefore : List String)
  | outOfFuel
deriving Repr

/-- `while file_queue:`; `acc` = modules parsed so far, reversed. -/
def queueLoop (parse : String → Parsed) : Nat → List String → List String → List String → QResult
  | 0, _, _, _ => .outOfFuel
  | _ + 1, [], _, acc => .done acc.reverse
  | fuel + 1, f :: q, seen, acc =>
    let r := parse f
    if !r.errors.isEmpty then .errors r.errors f acc.reverse
    else
      let qs := enqueue r.imports q seen
      queueLoop parse fuel qs.1 qs.2 (f :: acc)

/-- `only_parse_emboss_file(file_name, file_reader)`. -/
def onlyParse (parse : String → Parsed) (fuel : Nat) (root : String) : QResult :=
  queueLoop parse fuel [root] [root] []

/-- `parse_emboss_file`: the queue, then `process_ir` on the IR built from the modules. -/
def parseEmbossFile (parse : String → Parsed) (mk : List String → σ) (passes : List (Pass σ))
    (stop : Option String) (fuel : Nat) (root : String) : Outcome σ :=
  match onlyParse parse fuel root with
  | .outOfFuel => .outOfFuel
  | .errors es _ _ => .errors es
  | .done files => processIr passes stop (mk files)

end Emboss.Pipeline
