/-
Model of compiler/front_end/dependency_checker.py (property C15).

Import-free (core Lean only) so that the driver links as a plain `lean_exe`.
Nodes are natural numbers (the harness numbers the hashable reference tuples).
-/
namespace Emboss.Deps

/-- `deps f` = the list of nodes the definition `f` mentions
(`dependencies[field]` in the Python; a set there, a list here — only membership
is ever used by the ordering). -/
abbrev DepFn := Nat → List Nat

/-- `all(dependency in added for dependency in dependencies[field])`. -/
def ready (deps : DepFn) (added : List Nat) (f : Nat) : Bool :=
  (deps f).all (fun d => added.contains d)

/-- The inner `for i in range(len(needed))` loop of
`_find_dependency_ordering_for_fields_in_structure`: find the first needed field
all of whose dependencies are already added; return it and `needed` without it. -/
def pickFirst (deps : DepFn) (added : List Nat) : List Nat → Option (Nat × List Nat)
  | [] => none
  | f :: rest =>
    if ready deps added f then some (f, rest)
    else match pickFirst deps added rest with
      | none => none
      | some (g, r) => some (g, f :: r)

/-- The outer `while True` loop.  Fuel = `len(needed)`: each iteration deletes one
element of `needed`, so the fuel is never the reason for stopping
(`orderAux_fuel_irrelevant`). -/
def orderAux (deps : DepFn) : Nat → List Nat → List Nat → List Nat
  | 0, _, _ => []
  | fuel + 1, added, needed =>
    match pickFirst deps added needed with
    | none => []
    | some (f, rest) => f :: orderAux deps fuel (f :: added) rest

/-- `fields_in_dependency_order` (before the Python `assert len(order) == len(field)`):
`params` are the runtime parameters (pre-added), `fields` the structure's fields in
source order. -/
def order (deps : DepFn) (params fields : List Nat) : List Nat :=
  orderAux deps fields.length params fields

/-- The Python asserts `len(order) == len(structure.field)`; the model makes the
assertion observable. -/
def orderChecked (deps : DepFn) (params fields : List Nat) : Option (List Nat) :=
  let o := order deps params fields
  if o.length = fields.length then some o else none

end Emboss.Deps
