/-
Decidable predicates on the IR delimiting the fragment of the refinement theorems
(`C01_G_equals_R_partial`, `C20_equals_iff_logical_nested_partial`): pure `Bool` functions over
`Emboss.Model.View` so that the driver (`model_c01`, op `IR`) evaluates them on every real IR and
the harness reports how many real structures the theorems' hypotheses hold for.
No imports outside `Emboss.Model.*`.
-/
import Emboss.Model.View
import Emboss.Model.Synth
namespace Emboss.ViewRef
open Emboss.View

/-- Every constant-folding annotation in the expression is a *closed constant*
(`closedFolds`, Model/Synth.lean): the annotated node's source expression evaluates to the
annotated literal in the environment that knows nothing — so the annotation cannot know more than
the source expression, and `evalR` (which looks through annotations) and the generated code (which
uses the literal) agree.  In particular: expressions without annotations. -/
def foldFree (e : Expr) : Bool := closedFolds e

def foldFreeList (es : Exprs) : Bool := closedFoldsList es

def foldFreeOpt : Option Expr → Bool
  | none => true
  | some e => foldFree e

/-- a size that is an integer literal -/
def litInt? : Expr → Option Int
  | .const (.int z) => some z
  | _ => none

/-- scalar kinds R decodes: `UInt`, `Int`, `Flag`, enums with an unsigned underlying type -/
def okKind : ScalarKind → Bool
  | .uint | .int | .flag => true
  | .enum _ false => true
  | _ => false

/-- a fixed-size type of `bits` bits sits in a field whose size is the literal of that many bits
(what the front end enforces: "fixed-size type … cannot be placed in field of size …") -/
def sizeIsBits (unit : Nat) (size : Expr) (bits : Nat) : Bool :=
  match litInt? size with
  | some z => decide (0 ≤ z) && decide (0 < bits) &&
      (if unit = 8 then z.toNat * 8 == bits else z.toNat == bits)
  | none => false

/-- A field of the fragment (in a structure whose addressable unit is `unit`, 8 = bytes, 1 =
bits): a scalar of a kind R decodes, with `[requires]`; a field of structure or `bits` type (any
location expressions; a `bits` type in a byte structure has its fixed size); an array of such
scalars in a byte structure (element size = size of the type; arrays inside `bits` cannot be
instantiated in C++ — side finding of round 1 — and are outside); a virtual field; an alias.  All expressions free of
folding annotations other than closed constants. -/
def refField (m : Module) (unit : Nat) (f : Field) : Bool :=
  foldFree f.cond &&
  match f.kind with
  | .phys start size (.scalar k bits req) _ =>
    okKind k && foldFree start && foldFreeOpt req && sizeIsBits unit size bits
  | .phys start size (.struct name bits args) _ =>
    foldFree start && foldFree size && foldFreeList args &&
    (match m.find name with
     | none => false
     | some sd' =>
       if unit = 8 then sd'.unit == 8 || sizeIsBits 8 size bits
       else sd'.unit != 8)
  | .phys start size (.array (.scalar k bits req) es) _ =>
    okKind k && foldFree start && foldFree size && foldFreeOpt req &&
    decide (0 < bits) && decide (unit = 8) && es * 8 == bits
  | .phys _ _ (.array _ _) _ => false
  | .virt value req => foldFree value && foldFreeOpt req
  | .alias _ => true

def refStruct (m : Module) (sd : StructDef) : Bool :=
  sd.fields.all (refField m sd.unit)

/-- every structure of the module is inside the fragment -/
def refModule (m : Module) : Bool :=
  m.structs.all (refStruct m)

/-- `[requires]` expressions of the fragment used for completeness mention only `this` and
parameters (the static fuel bound `need` does not follow references inside validators). -/
def reqLocalField (f : Field) : Bool :=
  match f.kind with
  | .phys _ _ (.scalar _ _ req) _ => (optRefs req).isEmpty
  | .phys _ _ (.array (.scalar _ _ req) _) _ => (optRefs req).isEmpty
  | .virt _ req => (optRefs req).isEmpty
  | _ => true

def reqLocal (sd : StructDef) : Bool := sd.fields.all reqLocalField

def reqLocalModule (m : Module) : Bool := m.structs.all reqLocal

/-- `sd` and every structure reachable from it through fields of structure / `bits` type satisfy
the per-structure hypotheses of the refinement theorems (depth-bounded search; structure types do
not nest recursively in Emboss, so a depth ≥ the number of structures is exhaustive). -/
def reachOK (m : Module) : Nat → StructDef → Bool
  | 0, _ => false
  | d + 1, sd =>
    refStruct m sd && reqLocal sd &&
    sd.fields.all (fun f =>
      match f.kind with
      | .phys _ _ (.struct name _ _) _ =>
        (match m.find name with
         | some sd' => reachOK m d sd'
         | none => true)
      | _ => true)

/-- the structure satisfies every decidable hypothesis of the refinement theorems -/
def structInFragment (m : Module) (sd : StructDef) : Bool := reachOK m (m.structs.length + 1) sd

def moduleInFragment (m : Module) : Bool := refModule m && reqLocalModule m && moduleWF m

end Emboss.ViewRef
