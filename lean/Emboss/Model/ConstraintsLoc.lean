/-
C14 impl model, error LOCATIONS of the attribute-table rule family
(`attribute_util._check_attributes`): which attribute of the list an error points to, which of
its spans, and which attribute the "Original attribute" note of a duplicate points to.

  * duplicate            → `attr.source_location` (the whole `[...]`), note: the first occurrence
  * unknown / not defaultable → `attr.name.source_location`
  * value of the wrong type / not constant / not in the list / bad back-end list
                         → `attr.value.source_location`

The kinds are those of `checkAttrList` (erasure lemma in Lemmas/ConstraintsLoc.lean), so
everything proved about acceptance carries over; the traversal order of the lists is
`passAttrs`'s.  Only imports the C14 model.
-/
import Emboss.Model.Constraints
namespace Emboss.Constraints

/-- The span of an attribute an error is reported at. -/
inductive Part where
  | whole      -- `attr.source_location`
  | name       -- `attr.name.source_location`
  | value      -- `attr.value.source_location`
  deriving DecidableEq, Repr

/-- One located error of `_check_attributes`: kind, index of the offending attribute in its
list, span, and (duplicates) the index of the attribute the note points to. -/
structure LocEK where
  k : EK
  idx : Nat
  part : Part
  note : Option Nat
  deriving DecidableEq, Repr

/-- `already_seen_attributes.get(attr_key)`: the index of the first attribute with that key. -/
def seenAt (key : String × Bool) : List ((String × Bool) × Nat) → Option Nat
  | [] => none
  | (k, j) :: rest => if k = key then some j else seenAt key rest

/-- `_check_attributes` (with `back_end=None`) with locations; `i` is the index of the head of
the list, `seen` maps the keys met so far to the index of their first occurrence. -/
def checkAttrListL (specs : List (String × Bool)) (seen : List ((String × Bool) × Nat)) (i : Nat) :
    List Attr → List LocEK
  | [] => []
  | a :: rest =>
    if a.backEnd ≠ "" then checkAttrListL specs seen (i + 1) rest
    else
      let key := (a.name, a.isDefault)
      match seenAt key seen with
      | some j => ⟨.dupAttr a.name, i, .whole, some j⟩ :: checkAttrListL specs seen (i + 1) rest
      | none =>
        (if key ∈ specs then (checkAttrType a).map (fun k => ⟨k, i, .value, none⟩)
         else if a.isDefault then [⟨.noDefault a.name, i, .name, none⟩]
         else [⟨.unknownAttr a.name, i, .name, none⟩])
        ++ checkAttrListL specs ((key, i) :: seen) (i + 1) rest

/-! ## `_verify_field_attributes` (byte order, `[requires]` placement): where the errors point

  * "byte_order required"            → `field.source_location` (the whole field)
  * "byte_order not allowed" / "may only be 'Null'" → the value of the field's byte_order
    attribute: its own one, or — for `Null` — the `$default byte_order` in effect, which
    `_add_missing_byte_order_attribute_on_field` copied from an enclosing scope *with its location*
  * `[requires]` on an array / non-scalar → the value of the field's own `[requires]` -/

/-- Where an error of `_verify_field_attributes` is reported. -/
inductive FieldAt where
  | field                 -- `field.source_location`
  | attrValue (i : Nat)   -- `.value.source_location` of the field's own `i`-th attribute
  | inherited             -- the value of the `$default` in effect (an attribute of an enclosing scope)
  deriving DecidableEq, Repr

/-- index of the attribute `ir_util.get_attribute` returns -/
def attrIdxFrom (n : String) (i : Nat) : List Attr → Option Nat
  | [] => none
  | a :: rest => if a.named n then some i else attrIdxFrom n (i + 1) rest

def ownAt (f : Field) (n : String) : FieldAt :=
  match attrIdxFrom n 0 f.attrs with
  | some i => .attrValue i
  | none => .inherited

def fieldErrAt (f : Field) : EK → FieldAt
  | .boRequired => .field
  | .boNotAllowed => ownAt f "byte_order"
  | .boNull => ownAt f "byte_order"
  | .requiresArray => ownAt f "requires"
  | .requiresType => ownAt f "requires"
  | _ => .field

/-- `_verify_field_attributes` with locations. -/
def verifyFieldL (p : Program) (d : Option AVal) (t : TypeInfo) (f : Field) : List (EK × FieldAt) :=
  (verifyByteOrder p d t f ++ verifyRequires p f).map (fun k => (k, fieldErrAt f k))

/-- All located errors of the `Field` traversal of `_verify_attributes_on_ir`:
(type id, field name, kind, where), in the order of `allTypes`. -/
def verifyFieldsL (p : Program) : List (Nat × String × EK × FieldAt) :=
  (allTypes p).flatMap (fun c =>
    c.2.fields.flatMap (fun f => (verifyFieldL p c.1 c.2 f).map (fun e => (c.2.id, f.name, e.1, e.2))))

end Emboss.Constraints
