/-
Model of compiler/front_end/format_emb.py (property C11) and of the bottom-up fold
`parser_util.transform_parse_tree` that drives it.

Import-free apart from the regenerated production → handler table, so the driver
links as a plain `lean_exe`.

Strings are `List Char` (Python `str` = sequence of code points; `len`, `ljust`,
`rstrip`, `+`, `"".join` act on code points).  The values the Python handlers pass
around are `str`, lists of `str` (field-location), lists of `_Row`, lists of
`_Block`, lists of lists of `_Row` (type-definition*), and `_InlineBitsBodyType`.
The Python `[]` returned by `_empty_list` is a value of every list kind: `Fmt.nil`.

What is modelled: every handler, every global pass (`_intersperse`,
`_should_add_blank_lines`, `_columnize` with its separator table, `_indent_*`,
`_indent_blanks_and_comments`, `_add_blank_rows_on_dedent`,
`_strip_empty_leading_trailing_comment_lines`, `_render_rows_to_text` with
`show_line_types = False`), every `assert` (`none` = the Python raises), and
`sanity_check_format_result`'s comparison loop with `_collapse_newline_tokens`.
Where Python's dynamic typing would accept a value of an unexpected kind the model
answers `none`; `C11_total` shows that this never happens on trees of the grammar.
-/
import Emboss.Generated.FmtTable
namespace Emboss.Fmt

abbrev Str := List Char

/-! ## Python string primitives -/

/-- `str.isspace` for one code point (what `rstrip()` / `strip()` remove). -/
def isPySpace (c : Char) : Bool :=
  let n := c.toNat
  (9 ≤ n && n ≤ 13) || (28 ≤ n && n ≤ 32) || n == 0x85 || n == 0xa0 || n == 0x1680 ||
  (0x2000 ≤ n && n ≤ 0x200a) || n == 0x2028 || n == 0x2029 || n == 0x202f || n == 0x205f ||
  n == 0x3000

def rstrip (s : Str) : Str := (s.reverse.dropWhile isPySpace).reverse
def lstrip (s : Str) : Str := s.dropWhile isPySpace
def strip (s : Str) : Str := rstrip (lstrip s)

def spaces (n : Nat) : Str := List.replicate n ' '

/-- `s.ljust(n)` for a Python int `n` (negative or small `n`: unchanged). -/
def ljust (s : Str) (n : Int) : Str := s ++ spaces (n.toNat - s.length)

/-- `joiner.join(l)`. -/
def joinWith (j : Str) : List Str → Str
  | [] => []
  | [a] => a
  | a :: b :: r => a ++ j ++ joinWith j (b :: r)

/-- `_concatenate_with(joiner, *elements)`: join the non-empty elements. -/
def concatWith (j : Str) (l : List Str) : Str := joinWith j (l.filter (fun s => !s.isEmpty))

/-- `_concatenate_with_prefix_spaces`. -/
def concatPrefixSpaces (l : List Str) : Str :=
  ((l.filter (fun s => !s.isEmpty)).map (fun s => ' ' :: s)).flatten

/-! ## Rows, blocks, values -/

/-- The `name` of a `_Row` (a Python string; the strings are given by `RowName.str`). -/
inductive RowName
  | comment | doc | import_ | attribute | typeHeader | field | virtualField | if_
  | enumValue | sectionBreak | topTypeSeparator | fieldSeparator | valueSeparator | dedentSpace
  deriving DecidableEq, Repr, Inhabited

def RowName.str : RowName → String
  | .comment => "comment" | .doc => "doc" | .import_ => "import" | .attribute => "attribute"
  | .typeHeader => "type-header" | .field => "field" | .virtualField => "virtual-field"
  | .if_ => "if" | .enumValue => "enum-value" | .sectionBreak => "section-break"
  | .topTypeSeparator => "top-type-separator" | .fieldSeparator => "field-separator"
  | .valueSeparator => "value-separator" | .dedentSpace => "dedent-space"

/-- `_Row(name, columns, indent)`. -/
structure Row where
  name : RowName
  columns : List Str := []
  indent : Nat := 0
  deriving DecidableEq, Repr, Inhabited

/-- `_Block(prefix, header, body)`. -/
structure Block where
  pre : List Row
  header : Row
  body : List Row
  deriving DecidableEq, Repr, Inhabited

/-- Results of handlers. -/
inductive Fmt
  | str (s : Str)
  | strs (l : List Str)
  | nil
  | rows (l : List Row)
  | blocks (l : List Block)
  | sections (l : List (List Row))
  | inlineBody (headerLines : List Row) (fieldBlocks : List Block)
  deriving DecidableEq, Repr, Inhabited

def asStr : Fmt → Option Str
  | .str s => some s
  | _ => none

def asStrs : Fmt → Option (List Str)
  | .strs l => some l
  | .nil => some []
  | _ => none

def asRows : Fmt → Option (List Row)
  | .rows l => some l
  | .nil => some []
  | _ => none

def asBlocks : Fmt → Option (List Block)
  | .blocks l => some l
  | .nil => some []
  | _ => none

def asSections : Fmt → Option (List (List Row))
  | .sections l => some l
  | .nil => some []
  | _ => none

/-! ## Global passes -/

def indentRow (r : Row) : Row := { r with indent := r.indent + 1 }
def indentRows (l : List Row) : List Row := l.map indentRow
def indentBlock (b : Block) : Block :=
  { pre := indentRows b.pre, header := indentRow b.header, body := indentRows b.body }
def indentBlocks (l : List Block) : List Block := l.map indentBlock

/-- `_intersperse(interspersed, sections)`. -/
def intersperseAux (sep : List Row) : List Row → List (List Row) → List Row
  | acc, [] => acc
  | acc, s :: rest =>
    if s.isEmpty then intersperseAux sep acc rest
    else if acc.isEmpty then intersperseAux sep (acc ++ s) rest
    else intersperseAux sep (acc ++ sep ++ s) rest

def intersperse (sep : List Row) (sections : List (List Row)) : List Row :=
  intersperseAux sep [] sections

/-- `len([line for line in block.body + block.prefix if line.columns])`. -/
def nonEmptyLines (b : Block) : Nat :=
  ((b.body ++ b.pre).filter (fun r => !r.columns.isEmpty)).length

/-- `_should_add_blank_lines(blocks)`. -/
def shouldAddBlankLines (blocks : List Block) : Bool :=
  let other := (blocks.map nonEmptyLines).sum
  let last := match blocks.getLast? with
    | some b => nonEmptyLines b
    | none => 0
  decide ((blocks.length : Int) ≤ (other : Int) - (last : Int))

/-- `row_types[name][i]` after the first loop of `_columnize`. -/
def colWidth (blocks : List Block) (iw indentColumns : Nat) (name : RowName) (i : Nat) : Nat :=
  blocks.foldl (fun m b =>
    if b.header.name = name then
      match b.header.columns[i]? with
      | some c => max m (c.length + (if i + 1 = indentColumns then b.header.indent * iw else 0))
      | none => m
    else m) 0

/-- `single_width_separators.get(name, [])` membership. -/
def singleWidthSep (name : RowName) (i : Nat) : Bool :=
  match name with
  | .enumValue => i == 0 || i == 1
  | .field => i == 0
  | _ => false

/-- The second loop of `_columnize`, for the columns of one header, from index `i` on. -/
def padCols (blocks : List Block) (iw indentColumns : Nat) (h : Row) : Nat → List Str → List Str
  | _, [] => []
  | i, c :: rest =>
    let w : Int := colWidth blocks iw indentColumns h.name i
    let w' : Int :=
      if w = 0 then 0
      else
        let w1 := if i + 1 = indentColumns then w - (h.indent * iw : Nat) else w
        if singleWidthSep h.name i then w1 + 1 else w1 + 2
    ljust c w' :: padCols blocks iw indentColumns h (i + 1) rest

/-- Distinct header names in order of first appearance (`len(row_types)`). -/
def headerNames : List Block → List RowName
  | [] => []
  | b :: rest => let r := headerNames rest
    if r.contains b.header.name then r else b.header.name :: r

def columnizeBlock (blocks : List Block) (iw indentColumns : Nat) (b : Block) : List Row :=
  b.pre ++ [{ name := b.header.name,
              columns := [rstrip (padCols blocks iw indentColumns b.header 0 b.header.columns).flatten],
              indent := b.header.indent }] ++ b.body

/-- `_columnize(blocks, indent_width, indent_columns)`; `none` = `assert len(row_types) < 3`. -/
def columnize (blocks : List Block) (iw indentColumns : Nat) : Option (List (List Row)) :=
  if (headerNames blocks).length < 3 then
    some (blocks.map (columnizeBlock blocks iw indentColumns))
  else none

def rowBlank (r : Row) : Bool := r.columns.flatten.isEmpty

/-- `_indent_blanks_and_comments` on the *reversed* row list. -/
def indentBlanksRev : Nat → List Row → List Row
  | _, [] => []
  | prev, r :: rest =>
    if rowBlank r || r.name = .comment then
      { r with indent := prev } :: indentBlanksRev prev rest
    else r :: indentBlanksRev r.indent rest

def indentBlanksAndComments (rows : List Row) : List Row :=
  (indentBlanksRev 0 rows.reverse).reverse

/-- `_add_blank_rows_on_dedent`. -/
def addBlankRowsAux : Nat → Bool → List Row → List Row
  | _, _, [] => []
  | prevIndent, prevBlank, r :: rest =>
    let blank := rowBlank r
    let tail := r :: addBlankRowsAux r.indent blank rest
    if prevIndent > r.indent && !prevBlank && !blank then
      { name := .dedentSpace, columns := [], indent := r.indent } :: tail
    else tail

def addBlankRowsOnDedent (rows : List Row) : List Row := addBlankRowsAux 0 true rows

/-- `_render_row_to_text`; `none` = `assert len(row.columns) < 2`. -/
def renderRow (iw : Nat) (r : Row) : Option Str :=
  if r.columns.length < 2 then some (rstrip (spaces (iw * r.indent) ++ r.columns.flatten))
  else none

/-- `_render_rows_to_text(rows, indent_width, False)`: every row text followed by "\n". -/
def renderRows (iw : Nat) : List Row → Option Str
  | [] => some []
  | r :: rest => do
    let t ← renderRow iw r
    let ts ← renderRows iw rest
    pure (t ++ '\n' :: ts)

/-- `_strip_empty_leading_trailing_comment_lines`: the slice from the first to the last
row with non-empty `columns`. -/
def stripEmptyRows (l : List Row) : List Row :=
  ((l.dropWhile (fun r => r.columns.isEmpty)).reverse.dropWhile (fun r => r.columns.isEmpty)).reverse

/-! ## Handlers -/

inductive Handler
  | module | docLine | importLine | attributeLine | attribute | parameterDefinition
  | typeDefinitions | structureType | type_ | structureBody | fieldLocation | structureBlock
  | virtualField | unconditionalField | fieldBody | inlineBits | inlineType | conditionalField
  | inlineBitsBody | enumBody | enumValues | enumValue | enumValueBody | externalBody
  | commentLine | eol | emptyList | emptyString | identity | concatenate
  | concatenateWithPrefixSpaces | concatenateWithSpaces | concatenateLists
  | docRstrip | additiveExpressionRight
  deriving DecidableEq, Repr, Inhabited

/-- The Python function names, as they appear in the regenerated table. -/
def Handler.ofName : String → Option Handler
  | "_module" => some .module
  | "_doc_line" => some .docLine
  | "_import_line" => some .importLine
  | "_attribute_line" => some .attributeLine
  | "_attribute" => some .attribute
  | "_parameter_definition" => some .parameterDefinition
  | "_type_defitinions" => some .typeDefinitions
  | "_structure_type" => some .structureType
  | "_type" => some .type_
  | "_structure_body" => some .structureBody
  | "_field_location" => some .fieldLocation
  | "_structure_block" => some .structureBlock
  | "_virtual_field" => some .virtualField
  | "_unconditional_field" => some .unconditionalField
  | "_field_body" => some .fieldBody
  | "_inline_bits" => some .inlineBits
  | "_inline_type" => some .inlineType
  | "_conditional_field" => some .conditionalField
  | "_inline_bits_body" => some .inlineBitsBody
  | "_enum_body" => some .enumBody
  | "_enum_values" => some .enumValues
  | "_enum_value" => some .enumValue
  | "_enum_value_body" => some .enumValueBody
  | "_external_body" => some .externalBody
  | "_comment_line" => some .commentLine
  | "_eol" => some .eol
  | "_empty_list" => some .emptyList
  | "_empty_string" => some .emptyString
  | "_identity" => some .identity
  | "_concatenate" => some .concatenate
  | "_concatenate_with_prefix_spaces" => some .concatenateWithPrefixSpaces
  | "_concatenate_with_spaces" => some .concatenateWithSpaces
  | "_concatenate_lists" => some .concatenateLists
  | "_doc" => some .docRstrip
  | "_additive_expression_right" => some .additiveExpressionRight
  | _ => none

/-- Handlers declared with a trailing `config` parameter (must be registered through
`_formats_with_config`; all others through `_formats`, which drops the config). -/
def Handler.takesConfig : Handler → Bool
  | .module | .structureBody | .enumBody => true
  | _ => false

def sp : Str := [' ']
def sp2 : Str := [' ', ' ']

/-- Python `a + b` on the values that occur (`str + str`, `list + list`). -/
def pyAdd : Fmt → Fmt → Option Fmt
  | .str a, .str b => some (.str (a ++ b))
  | .nil, .nil => some .nil
  | .nil, .strs b => some (.strs b)
  | .strs a, .nil => some (.strs a)
  | .strs a, .strs b => some (.strs (a ++ b))
  | .nil, .rows b => some (.rows b)
  | .rows a, .nil => some (.rows a)
  | .rows a, .rows b => some (.rows (a ++ b))
  | .nil, .blocks b => some (.blocks b)
  | .blocks a, .nil => some (.blocks a)
  | .blocks a, .blocks b => some (.blocks (a ++ b))
  | .nil, .sections b => some (.sections b)
  | .sections a, .nil => some (.sections a)
  | .sections a, .sections b => some (.sections (a ++ b))
  | _, _ => none

def allStrs : List Fmt → Option (List Str)
  | [] => some []
  | a :: r => do
    let a ← asStr a
    let r ← allStrs r
    pure (a :: r)

def hModule (iw : Nat) : List Fmt → Option Fmt
  | [comments, docs, imports, attributes, types] => do
    let comments ← asRows comments
    let docs ← asRows docs
    let imports ← asRows imports
    let attributes ← asRows attributes
    let types ← asSections types
    let headerRows := intersperse [{ name := .sectionBreak }]
      [stripEmptyRows comments, docs, imports, attributes]
    let rows := intersperse [{ name := .topTypeSeparator }, { name := .topTypeSeparator }]
      (headerRows :: types)
    let rows := indentBlanksAndComments rows
    let rows := addBlankRowsOnDedent rows
    let text ← renderRows iw rows
    pure (.str text)
  | _ => none

def hDocLine : List Fmt → Option Fmt
  | [doc, comment, eol] => do
    let doc ← asStr doc
    let comment ← asStr comment
    let eol ← asRows eol
    -- assert not comment
    if comment.isEmpty then pure (.rows ({ name := .doc, columns := [doc] } :: eol)) else none
  | _ => none

def hImportLine : List Fmt → Option Fmt
  | [import_, filename, as_, name, comment, eol] => do
    let import_ ← asStr import_
    let filename ← asStr filename
    let as_ ← asStr as_
    let name ← asStr name
    let comment ← asStr comment
    let eol ← asRows eol
    pure (.rows ({ name := .import_,
                   columns := [import_ ++ sp ++ filename ++ sp ++ as_ ++ sp ++ name ++ sp2 ++ comment] }
                 :: eol))
  | _ => none

def hAttributeLine : List Fmt → Option Fmt
  | [attr, comment, eol] => do
    let attr ← asStr attr
    let comment ← asStr comment
    let eol ← asRows eol
    pure (.rows ({ name := .attribute, columns := [attr ++ sp2 ++ comment] } :: eol))
  | _ => none

def hAttribute : List Fmt → Option Fmt
  | [open_, context, default, name, colon, value, close] => do
    let open_ ← asStr open_
    let context ← asStr context
    let default ← asStr default
    let name ← asStr name
    let colon ← asStr colon
    let value ← asStr value
    let close ← asStr close
    pure (.str (open_ ++ concatWith sp [context, default, name ++ colon, value] ++ close))
  | _ => none

def hParameterDefinition : List Fmt → Option Fmt
  | [name, colon, ty] => do
    let name ← asStr name
    let colon ← asStr colon
    let ty ← asStr ty
    pure (.str (name ++ colon ++ sp ++ ty))
  | _ => none

def hTypeDefinitions : List Fmt → Option Fmt
  | [definition, definitions] => do
    let definition ← asRows definition
    let definitions ← asSections definitions
    pure (.sections (definition :: definitions))
  | _ => none

def hStructureType : List Fmt → Option Fmt
  | [struct, name, parameters, colon, comment, eol, body] => do
    let struct ← asStr struct
    let name ← asStr name
    let parameters ← asStr parameters
    let colon ← asStr colon
    let comment ← asStr comment
    let eol ← asRows eol
    let body ← asRows body
    pure (.rows ({ name := .typeHeader,
                   columns := [struct ++ sp ++ name ++ parameters ++ colon ++ sp2 ++ comment] }
                 :: (eol ++ body)))
  | _ => none

def hType : List Fmt → Option Fmt
  | [struct, name, colon, comment, eol, body] => do
    let struct ← asStr struct
    let name ← asStr name
    let colon ← asStr colon
    let comment ← asStr comment
    let eol ← asRows eol
    let body ← asRows body
    pure (.rows ({ name := .typeHeader, columns := [struct ++ sp ++ name ++ colon ++ sp2 ++ comment] }
                 :: (eol ++ body)))
  | _ => none

def hStructureBody (iw : Nat) : List Fmt → Option Fmt
  | [_indent, docs, attributes, typeDefinitions, fields, _dedent] => do
    let docs ← asRows docs
    let attributes ← asRows attributes
    let typeDefinitions ← asSections typeDefinitions
    let fields ← asBlocks fields
    let spacing : List Row := if shouldAddBlankLines fields then [{ name := .fieldSeparator }] else []
    let columnized ← columnize fields iw 2
    pure (.rows (indentRows (intersperse spacing ([docs, attributes] ++ typeDefinitions ++ columnized))))
  | _ => none

def hFieldLocation : List Fmt → Option Fmt
  | [start, openBracket, plus, size, closeBracket] => do
    let start ← asStr start
    let openBracket ← asStr openBracket
    let plus ← asStr plus
    let size ← asStr size
    let closeBracket ← asStr closeBracket
    pure (.strs [start, openBracket ++ plus ++ size ++ closeBracket])
  | _ => none

def hAdd : List Fmt → Option Fmt
  | [a, b] => pyAdd a b
  | _ => none

def hVirtualField : List Fmt → Option Fmt
  | [letKeyword, name, equals, value, comment, eol, body] => do
    let letKeyword ← asStr letKeyword
    let name ← asStr name
    let equals ← asStr equals
    let value ← asStr value
    let comment ← asStr comment
    let eol ← asRows eol
    let body ← asRows body
    pure (.blocks [{ pre := [],
                     header := { name := .virtualField,
                                 columns := [concatWith sp2
                                   [concatWith sp [letKeyword, name, equals, value], comment]] },
                     body := eol ++ body }])
  | _ => none

def hUnconditionalField : List Fmt → Option Fmt
  | [location, ty, name, abbreviation, attributes, doc, comment, eol, body] => do
    let location ← asStrs location
    let ty ← asStr ty
    let name ← asStr name
    let abbreviation ← asStr abbreviation
    let attributes ← asStr attributes
    let doc ← asStr doc
    let comment ← asStr comment
    let eol ← asRows eol
    let body ← asRows body
    pure (.blocks [{ pre := [],
                     header := { name := .field,
                                 columns := location ++
                                   [ty, concatWith sp [name, abbreviation], attributes, doc, comment] },
                     body := eol ++ body }])
  | _ => none

def hFieldBody : List Fmt → Option Fmt
  | [_indent, docs, attributes, _dedent] => do
    let docs ← asRows docs
    let attributes ← asRows attributes
    pure (.rows (indentRows (docs ++ attributes)))
  | _ => none

def hInlineBits : List Fmt → Option Fmt
  | [location, bits, colon, comment, eol, body] => do
    let location ← asStrs location
    let bits ← asStr bits
    let colon ← asStr colon
    let comment ← asStr comment
    let eol ← asRows eol
    match location, body with
    | l0 :: l1 :: _, .inlineBody headerLines fieldBlocks =>
      pure (.blocks ({ pre := [],
                       header := { name := .field,
                                   columns := [l0, l1 ++ sp2 ++ bits ++ colon, [], [], [], [], comment] },
                       body := eol ++ headerLines } :: fieldBlocks))
    | _, _ => none
  | _ => none

def hInlineType : List Fmt → Option Fmt
  | [location, keyword, name, abbreviation, colon, comment, eol, body] => do
    let location ← asStrs location
    let keyword ← asStr keyword
    let name ← asStr name
    let abbreviation ← asStr abbreviation
    let colon ← asStr colon
    let comment ← asStr comment
    let eol ← asRows eol
    let body ← asRows body
    pure (.blocks [{ pre := [],
                     header := { name := .field,
                                 columns := location ++
                                   [keyword, concatWith sp [name, abbreviation] ++ colon, [], [], comment] },
                     body := eol ++ body }])
  | _ => none

def hConditionalField : List Fmt → Option Fmt
  | [if_, condition, colon, comment, eol, _indent, body, _dedent] => do
    let if_ ← asStr if_
    let condition ← asStr condition
    let colon ← asStr colon
    let comment ← asStr comment
    let eol ← asRows eol
    let body ← asBlocks body
    let headerRow : Row := { name := .if_, columns := [if_ ++ sp ++ condition ++ colon ++ sp2 ++ comment] }
    match indentBlocks body with
    | [] => none   -- assert indented_body
    | b0 :: rest =>
      pure (.blocks ({ pre := headerRow :: (eol ++ b0.pre), header := b0.header, body := b0.body } :: rest))
  | _ => none

def hInlineBitsBody : List Fmt → Option Fmt
  | [_indent, attributes, fields, _dedent] => do
    let attributes ← asRows attributes
    let fields ← asBlocks fields
    pure (.inlineBody (indentRows attributes) (indentBlocks fields))
  | _ => none

def hEnumBody (iw : Nat) : List Fmt → Option Fmt
  | [_indent, docs, attributes, values, _dedent] => do
    let docs ← asRows docs
    let attributes ← asRows attributes
    let values ← asBlocks values
    let spacing : List Row := if shouldAddBlankLines values then [{ name := .valueSeparator }] else []
    let columnized ← columnize values iw 1
    pure (.rows (indentRows (intersperse spacing ([docs, attributes] ++ columnized))))
  | _ => none

def hEnumValue : List Fmt → Option Fmt
  | [name, equals, value, attributes, docs, comment, eol, body] => do
    let name ← asStr name
    let equals ← asStr equals
    let value ← asStr value
    let attributes ← asStr attributes
    let docs ← asStr docs
    let comment ← asStr comment
    let eol ← asRows eol
    let body ← asRows body
    pure (.blocks [{ pre := [],
                     header := { name := .enumValue,
                                 columns := [name, equals, value, attributes, docs, comment] },
                     body := eol ++ body }])
  | _ => none

def hExternalBody : List Fmt → Option Fmt
  | [_indent, docs, attributes, _dedent] => do
    let docs ← asRows docs
    let attributes ← asRows attributes
    pure (.rows (indentRows (intersperse [{ name := .sectionBreak }] [docs, attributes])))
  | _ => none

def hCommentLine : List Fmt → Option Fmt
  | [comment, _eol] => do
    let comment ← asStr comment
    if comment.isEmpty then pure (.rows [{ name := .comment }])
    else pure (.rows [{ name := .comment, columns := [comment] }])
  | _ => none

def hEol : List Fmt → Option Fmt
  | [_eol, comments] => do
    let comments ← asRows comments
    pure (.rows (stripEmptyRows comments))
  | _ => none

def hEmptyList : List Fmt → Option Fmt
  | [] => some .nil
  | _ => none

def hEmptyString : List Fmt → Option Fmt
  | [] => some (.str [])
  | _ => none

def hIdentity : List Fmt → Option Fmt
  | [x] => some x
  | _ => none

/-- `_doc` (`doc -> Documentation`): `documentation.rstrip()` — trailing blanks of the token
must not count towards column widths. -/
def hDocRstrip : List Fmt → Option Fmt
  | [d] => do
    let d ← asStr d
    pure (.str (rstrip d))
  | _ => none

/-- `_additive_expression_right`: a binary `-` and an operand that starts with `-` are kept
apart by one blank (`a - -b` must not become `a--b`, a documentation token). -/
def hAdditiveExpressionRight : List Fmt → Option Fmt
  | [operator, operand] => do
    let operator ← asStr operator
    let operand ← asStr operand
    if operator = ['-'] ∧ operand.head? = some '-' then pure (.str (operator ++ sp ++ operand))
    else pure (.str (operator ++ operand))
  | _ => none

/-- Run one handler on the results of the children.  `iw` = `config.indent_width`. -/
def Handler.run (iw : Nat) : Handler → List Fmt → Option Fmt
  | .module, a => hModule iw a
  | .docLine, a => hDocLine a
  | .importLine, a => hImportLine a
  | .attributeLine, a => hAttributeLine a
  | .attribute, a => hAttribute a
  | .parameterDefinition, a => hParameterDefinition a
  | .typeDefinitions, a => hTypeDefinitions a
  | .structureType, a => hStructureType a
  | .type_, a => hType a
  | .structureBody, a => hStructureBody iw a
  | .fieldLocation, a => hFieldLocation a
  | .structureBlock, a => hAdd a
  | .virtualField, a => hVirtualField a
  | .unconditionalField, a => hUnconditionalField a
  | .fieldBody, a => hFieldBody a
  | .inlineBits, a => hInlineBits a
  | .inlineType, a => hInlineType a
  | .conditionalField, a => hConditionalField a
  | .inlineBitsBody, a => hInlineBitsBody a
  | .enumBody, a => hEnumBody iw a
  | .enumValues, a => hAdd a
  | .enumValue, a => hEnumValue a
  | .enumValueBody, a => hFieldBody a
  | .externalBody, a => hExternalBody a
  | .commentLine, a => hCommentLine a
  | .eol, a => hEol a
  | .emptyList, a => hEmptyList a
  | .emptyString, a => hEmptyString a
  | .identity, a => hIdentity a
  | .concatenate, a => (allStrs a).map (fun l => .str l.flatten)
  | .concatenateWithPrefixSpaces, a => (allStrs a).map (fun l => .str (concatPrefixSpaces l))
  | .concatenateWithSpaces, a => (allStrs a).map (fun l => .str (concatWith sp l))
  | .concatenateLists, a => hAdd a
  | .docRstrip, a => hDocRstrip a
  | .additiveExpressionRight, a => hAdditiveExpressionRight a

/-! ## The fold (`parser_util.transform_parse_tree`) -/

/-- A parse tree: a token (symbol, text) or a production node.  `prod` is the index of
the node's production in the registry `formatters` (the Python looks the production
up in a dict; productions in the registry are pairwise distinct — `C11_table_ok`). -/
inductive Tree
  | tok (sym : String) (text : Str)
  | node (prod : Nat) (children : List Tree)
  deriving Repr, Inhabited

/-- One registry entry resolved to a handler: `none` if the function name is unknown to
the model, or if the way it is registered does not pass the arguments it declares
(the Python would raise `TypeError`). -/
def resolve (e : String × List String × String × Bool) : Option Handler :=
  match Handler.ofName e.2.2.1 with
  | some h => if h.takesConfig = e.2.2.2 then some h else none
  | none => none

abbrev Table := List (String × List String × String × Bool)

mutual
  /-- `transform_parse_tree(tree, lambda n: n.text, formatters)`. -/
  def fold (tbl : Table) (iw : Nat) : Tree → Option Fmt
    | .tok _ text => some (.str text)
    | .node p children =>
      match tbl[p]? with
      | none => none                               -- KeyError
      | some e =>
        match resolve e with
        | none => none
        | some h =>
          match foldList tbl iw children with
          | none => none
          | some args => h.run iw args
  def foldList (tbl : Table) (iw : Nat) : List Tree → Option (List Fmt)
    | [] => some []
    | t :: ts =>
      match fold tbl iw t with
      | none => none
      | some v =>
        match foldList tbl iw ts with
        | none => none
        | some vs => some (v :: vs)
end

/-- `format_emboss_parse_tree(parse_tree, Config(indent_width=iw))` with the live table. -/
def formatTree (iw : Nat) (t : Tree) : Option Fmt :=
  fold Emboss.Generated.FmtTable.formatters iw t

/-! ## `sanity_check_format_result` (after tokenization) -/

structure Tok where
  sym : String
  text : Str
  deriving DecidableEq, Repr, Inhabited

def nlSym : String := "\"\\n\""

/-- `_collapse_newline_tokens`: `itertools.groupby` on the symbol; a run of newline
tokens contributes its first element, and only if the result so far is non-empty.
`resEmpty` = "`result` is empty", `prevNl` = "the previous token was a newline" (so
this one is not the first of its run). -/
def collapseAux : Bool → Bool → List Tok → List Tok
  | _, _, [] => []
  | resEmpty, prevNl, t :: ts =>
    if t.sym = nlSym then
      if prevNl || resEmpty then collapseAux resEmpty true ts
      else t :: collapseAux false true ts
    else t :: collapseAux false false ts

def collapseNewlines (l : List Tok) : List Tok := collapseAux true false l

inductive SanityResult
  | ok                      -- returns []
  | differs (i : Nat)       -- returns ["BUG: Symbol i differs ..."]
  | countDiffers            -- returns ["BUG: Token count differs: …"]
  deriving DecidableEq, Repr

/-- The comparison of the collapsed streams: `for i in range(min(len(o_tokens),
len(f_tokens)))` reports the first position whose symbol or stripped text differs; when
the common prefix agrees, `len(o_tokens) != len(f_tokens)` is reported; otherwise `[]`.
(The length is looked at only after the common prefix, so a differing symbol is still
reported as such.) -/
def sanityLoop : Nat → List Tok → List Tok → SanityResult
  | _, [], [] => .ok
  | _, [], _ :: _ => .countDiffers
  | _, _ :: _, [] => .countDiffers
  | i, o :: os, f :: fs =>
    if o.sym ≠ f.sym ∨ strip o.text ≠ strip f.text then .differs i
    else sanityLoop (i + 1) os fs

def sanityCheck (formatted original : List Tok) : SanityResult :=
  sanityLoop 0 (collapseNewlines original) (collapseNewlines formatted)

end Emboss.Fmt
