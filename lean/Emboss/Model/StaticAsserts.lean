/-
Impl model for C07 (static_assert half): a classification of every `static_assert` of the
C++ runtime (list regenerated into `Emboss.Generated.staticAsserts`) and, for those whose
template arguments are chosen by the code generator, the predicate over the arguments the
back end emits (`header_generator.py`: `_get_cpp_view_type_for_type_definition`,
`_bytes_to_bits_convertor`, `_offset_storage_adapter`, `_render_builtin_operation`) that the
assertion demands.

Import-free apart from `Emboss.Generated.StaticAsserts` and `Emboss.Model.CppInt`.
-/
import Emboss.Generated.StaticAsserts
import Emboss.Model.CppInt
namespace Emboss.StaticAsserts
open Emboss.CppInt

/-- Who decides whether the asserted condition holds. -/
inductive Class where
  /-- a property of the C++ implementation (`CHAR_BIT == 8`, `sizeof(float) == 4`, …): trusted -/
  | platform
  /-- the arguments come from other runtime templates only; holds for every instantiation the
  runtime itself makes (`MaskToNBits` on unsigned types, `IsAliasSafe<Byte>` for the char
  types `Make…View` accepts, …): observed by the compile tie, not modelled -/
  | runtimeInternal
  /-- the arguments are numbers / types the code generator writes into the header: modelled,
  obligation proved below (tag = which predicate) -/
  | generated (tag : String)
deriving DecidableEq, Repr

/-- The classification table (by condition text; the same text in two headers means the same
kind of obligation). -/
def table : List (String × Class) := [
  ("::std::is_same<ResultT, bool>::value", .generated "op-types"),
  ("::std::is_signed<LeftT>::value || ::std::is_signed<RightT>::value", .runtimeInternal),
  ("::std::is_unsigned<LeftT>::value || ::std::is_unsigned<RightT>::value", .runtimeInternal),
  ("::std::is_same<IntermediateT, bool>::value", .generated "op-types"),
  ("::std::is_same<LeftT, bool>::value", .generated "op-types"),
  ("::std::is_same<RightT, bool>::value", .generated "op-types"),
  ("::std::is_same<IntermediateT, ResultT>::value", .generated "choice-types"),
  ("::std::is_same<ConditionT, bool>::value", .generated "op-types"),
  ("!::std::is_signed<T>::value", .runtimeInternal),
  ("sizeof(long long) * CHAR_BIT >= 64", .platform),
  ("kBits == 32 || kBits == 64", .generated "float-bits"),
  ("sizeof(double) * CHAR_BIT == 64", .platform),
  ("sizeof(float) * CHAR_BIT == 32", .platform),
  ("kBits <= 64", .generated "bits-le-64"),
  ("Parameters::kBits <= sizeof(ValueType) * 8", .generated "bits-le-value-type"),
  ("IsPowerOfTwo(kAlignment)", .generated "alignment"),
  ("kOffset < kAlignment", .generated "alignment"),
  ("kBits % 8 == 0", .generated "bitblock"),
  ("IsAliasSafe<CharT>::value", .runtimeInternal),
  ("CHAR_BIT == 8", .platform),
  ("IsAliasSafe<Byte>::value", .runtimeInternal),
  ("kSubAlignment == 0 || kSubAlignment > kSubOffset", .generated "sub-alignment"),
  ("kBits == 8", .generated "null-byte-order"),
  ("kBufferSizeInBits % 8 == 0", .generated "bitblock"),
  ("kBufferSizeInBits <= 64", .generated "bitblock"),
  ("Parameters::kBits == 1", .generated "flag-bits"),
  ("sizeof(ValueType) <= sizeof(typename BitViewType::ValueType)", .runtimeInternal),
  ("!::std::is_signed<ValueType>::value", .runtimeInternal),
  ("Parameters::kBits == 32 || Parameters::kBits == 64", .generated "float-bits"),
  ("::std::numeric_limits< typename ::std::remove_cv<IntegralType>::type>::is_integer", .runtimeInternal),
  ("!::std::is_same<bool, typename ::std::remove_cv<IntegralType>::type>::value", .runtimeInternal),
  ("sizeof(float) == 4", .platform),
  ("sizeof(double) == 8", .platform),
  ("::std::is_same<Float, float>::value || ::std::is_same<Float, double>::value", .runtimeInternal)
]

def classify (cond : String) : Option Class :=
  (table.find? (fun p => p.1 == cond)).map (·.2)

/-- Every extracted static_assert is classified. -/
def allClassified : Bool := Emboss.Generated.staticAsserts.all (fun a => (classify a.2).isSome)

/-- Tags of the generated-argument obligations, for which a lemma must exist. -/
def provedTags : List String :=
  ["op-types", "choice-types", "float-bits", "bits-le-64", "bits-le-value-type", "alignment", "bitblock",
   "sub-alignment", "null-byte-order", "flag-bits"]

def allTagsProved : Bool :=
  table.all (fun p => match p.2 with
    | .generated t => provedTags.contains t
    | _ => true)

/-! ## what the front end accepted (the clauses of C14 that matter here) -/

/-- `static_requirements` of the prelude types (compiler/front_end/prelude.emb), as checked by
`constraints._check_physical_type_requirements` on a field of `bits` bits. -/
inductive Prelude where
  | uint | int | bcd | flag | float
deriving DecidableEq, Repr

def Prelude.accepts : Prelude → Nat → Bool
  | .uint, b | .int, b | .bcd, b => decide (1 ≤ b) && decide (b ≤ 64)
  | .flag, b => b == 1
  | .float, b => b == 32 || b == 64

/-- `LeastWidthInteger<kBits>`: width of `::Unsigned`/`::Signed`; `none` = its own
static_assert (`kBits <= 64`) fails. -/
def leastWidth (kBits : Nat) : Option Nat :=
  if kBits ≤ 8 then some 8 else if kBits ≤ 16 then some 16 else if kBits ≤ 32 then some 32
  else if kBits ≤ 64 then some 64 else none

/-- `OffsetStorageType<kSubAlignment, kSubOffset>` of a `ContiguousBuffer<_, kAlignment, kOffset>`:
`(gcd(kAlignment, kSubAlignment), (kOffset + kSubOffset) % gcd)`. -/
def offsetStorage (al off subAl subOff : Nat) : Nat × Nat :=
  (Nat.gcd al subAl, (off + subOff) % Nat.gcd al subAl)

/-- `_alignment_of_location`: modulus `none` = "infinity" is rendered as alignment 0. -/
def alignmentOf (modulus : Option Nat) (modularValue : Nat) : Nat × Nat :=
  match modulus with
  | none => (0, modularValue)
  | some m => (m, modularValue)

/-- `_render_builtin_operation` for `?:` on integers: `IntermediateT` ranges over the result
and all (integer) arguments, `ResultT` over the result only. -/
def choiceTypes (res a b : Int × Int) : Option IntTy × Option IntTy :=
  (typeForRange (min res.1 (min a.1 b.1)) (max res.2 (max a.2 b.2)), typeForRange res.1 res.2)

/-! ## arithmetic / comparison operations: the intermediate type

`constraints._integer_bounds_errors_for_expression` (front end) and
`header_generator._render_builtin_operation` (back end) on one non-constant operation node.
`clauses` = the `(minimum_value, maximum_value)` of the result (when integer-typed — not for
`==`, `<`, `&&`, …) followed by those of every integer-typed argument. -/

def fitsU64 (c : Int × Int) : Bool := decide (0 ≤ c.1) && decide (c.2 ≤ 18446744073709551615)
def fitsI64 (c : Int × Int) : Bool :=
  decide (-9223372036854775808 ≤ c.1) && decide (c.2 ≤ 9223372036854775807)

/-- "Either all arguments to '…' and its result must fit in a 64-bit unsigned integer, or all
must fit in a 64-bit signed integer": some clause needs `uint64_t` and another `int64_t`. -/
def mixedSignedness (clauses : List (Int × Int)) : Bool :=
  clauses.any (fun c => !fitsI64 c) && clauses.any (fun c => fitsI64 c && !fitsU64 c)

/-- The front end accepts the node: every clause fits one of the two 64-bit types
(`_integer_bounds_errors`, applied to the result and, through the recursion, to each
argument) and they do not need different signedness. -/
def frontAcceptsOp (clauses : List (Int × Int)) : Bool :=
  clauses.all (fun c => fitsU64 c || fitsI64 c) && !mixedSignedness clauses

/-- `min(minimum_integers)`, `max(maximum_integers)`. -/
def hullOf : Int × Int → List (Int × Int) → Int × Int
  | h, [] => h
  | h, c :: cs => hullOf (min h.1 c.1, max h.2 c.2) cs

/-- `IntermediateT` of `_render_builtin_operation`: `_cpp_integer_type_for_range` of the hull;
`none` = the Python `None`, rendered into the header as the text `None` (ill-formed C++).
No integer clause: the intermediate type is `bool` or the enum type (not modelled). -/
def opIntermediate : List (Int × Int) → Option IntTy
  | [] => none
  | c :: cs => typeForRange (hullOf c cs).1 (hullOf c cs).2

end Emboss.StaticAsserts
