/-
Fixed-width C++ integer types as the back end uses them, and the integer literals the
back end renders (`header_generator._render_integer`, `_cpp_integer_type_for_range`).

Shared by C07 (`C07_constants_equal_front_end`) and C19 (enumerator values).
Import-free (core only): links into the line-protocol drivers.
-/
namespace Emboss.CppInt

/-- `::std::[u]intN_t`. -/
structure IntTy where
  signed : Bool
  bits : Nat
deriving DecidableEq, Repr

def pow2 (n : Nat) : Int := (2 : Int) ^ n

def IntTy.minVal (t : IntTy) : Int := if t.signed then -(pow2 (t.bits - 1)) else 0
def IntTy.maxVal (t : IntTy) : Int := if t.signed then pow2 (t.bits - 1) - 1 else pow2 t.bits - 1

/-- Is `v` a value of the type? -/
def IntTy.holds (t : IntTy) (v : Int) : Bool := decide (t.minVal ≤ v) && decide (v ≤ t.maxVal)

/-- Conversion to a fixed-width type (`static_cast`): reduction modulo `2^bits`, into the
signed range for signed types (what every supported compiler does; C++20 makes it the rule). -/
def wrap (t : IntTy) (v : Int) : Int :=
  let m := v % pow2 t.bits
  if t.signed && decide (m ≥ pow2 (t.bits - 1)) then m - pow2 t.bits else m

def i32 : IntTy := ⟨true, 32⟩
def u32 : IntTy := ⟨false, 32⟩
def i64 : IntTy := ⟨true, 64⟩
def u64 : IntTy := ⟨false, 64⟩

/-- `_cpp_integer_type_for_range(min_val, max_val)`: int32, uint32, int64, uint64 in that
order of preference; `none` when nothing fits (the Python returns `None`). -/
def typeForRange (lo hi : Int) : Option IntTy :=
  if lo ≥ -2147483648 ∧ hi ≤ 2147483647 then some i32
  else if lo ≥ 0 ∧ hi ≤ 4294967295 then some u32
  else if lo ≥ -9223372036854775808 ∧ hi ≤ 9223372036854775807 then some i64
  else if lo ≥ 0 ∧ hi ≤ 18446744073709551615 then some u64
  else none

/-- The text `_render_integer` emits, as a small syntax tree:
`static_cast</**/ty>( [-]magnitude[U][LL] [- 1] )`. -/
structure Rendered where
  ty : IntTy
  neg : Bool
  magnitude : Nat
  unsignedSuffix : Bool
  longLongSuffix : Bool
  minusOne : Bool
deriving DecidableEq, Repr

/-- `_render_integer(value)`.  `none` = the Python `assert` fires. -/
def renderInteger (v : Int) : Option Rendered :=
  match typeForRange v v with
  | none => none
  | some ty =>
    if v = -9223372036854775808 then
      some ⟨ty, true, 9223372036854775807, false, true, true⟩
    else
      some ⟨ty, decide (v < 0), v.natAbs, !ty.signed, true, false⟩

/-- What the rendered expression denotes under the C++ rules ([lex.icon], [expr.unary.op],
[expr.add], [conv.integral]).  A decimal literal without `U` must be representable in
`long long` (there is no wider standard type: otherwise ill-formed → `none`); with `U` in
`unsigned long long`.  With or without the `LL` suffix the *value* is the same (only the
rank of the type changes, and every candidate type holds the value), so `longLongSuffix`
does not enter.  Signed arithmetic that overflows is undefined → `none`; unsigned
arithmetic wraps.  The outer `static_cast` wraps. -/
def evalRendered (r : Rendered) : Option Int :=
  let mag : Int := r.magnitude
  if r.unsignedSuffix then
    if mag ≤ 18446744073709551615 then
      let a := if r.neg then wrap u64 (-mag) else mag
      let b := if r.minusOne then wrap u64 (a - 1) else a
      some (wrap r.ty b)
    else none
  else
    if mag ≤ 9223372036854775807 then
      let a := if r.neg then -mag else mag
      if r.minusOne then
        if a - 1 ≥ -9223372036854775808 then some (wrap r.ty (a - 1)) else none
      else some (wrap r.ty a)
    else none

/-- Value of an enumerator `NAME = <rendered v>` of an enum with fixed underlying type `t`:
the initialiser is a converted constant expression, so a value the type cannot hold is a
narrowing conversion, i.e. ill-formed (`none`). -/
def enumeratorValue (t : IntTy) (v : Int) : Option Int :=
  match renderInteger v with
  | none => none
  | some r =>
    match evalRendered r with
    | none => none
    | some x => if t.holds x then some x else none

def IntTy.toString (t : IntTy) : String :=
  (if t.signed then "int" else "uint") ++ Nat.repr t.bits

def Rendered.toString (r : Rendered) : String :=
  "static_cast<" ++ r.ty.toString ++ ">(" ++ (if r.neg then "-" else "") ++ Nat.repr r.magnitude ++
    (if r.unsignedSuffix then "U" else "") ++ (if r.longLongSuffix then "LL" else "") ++
    (if r.minusOne then " - 1" else "") ++ ")"

end Emboss.CppInt
