/-
The typing discipline of the expression language (language reference:
`+ - *` take and return integers; `< <= > >=` compare integers; `== !=` compare two integers,
two booleans or two values of an enum; `&& ||` take booleans; `?:` takes a boolean and two
operands of one type; `$max` takes one or more integers; `$upper_bound`/`$lower_bound` take an
integer).  `tyOf e = some τ` says `e` is well typed with type `τ`.  It is the hypothesis of
"the bounds analysis never raises" (`C05_no_crash`), independent of how the analysis works.
It lives under Model/ (import-free) so that the driver can expose it (`TYOF`): the harness
checks on every generated expression that `tyOf` agrees with the type the real front end
assigned, i.e. that the hypothesis of `C05_no_crash` covers what `type_check.py` accepts.
-/
import Emboss.Model.Bounds
namespace Emboss.Bounds

inductive Ty where
  | int | bool | enum
  deriving DecidableEq, Repr, Inhabited

def AType.tag : AType → Ty
  | .int _ => .int
  | .bool _ => .bool
  | .enum _ => .enum

def CVal.tag : CVal → Ty
  | .int _ => .int
  | .bool _ => .bool
  | .enum _ => .enum

/-- result type of a binary operator on operands of the given types -/
def binTy : BinOp → Ty → Ty → Option Ty
  | .add, .int, .int => some .int
  | .sub, .int, .int => some .int
  | .mul, .int, .int => some .int
  | .eq, .int, .int => some .bool
  | .eq, .bool, .bool => some .bool
  | .eq, .enum, .enum => some .bool
  | .ne, .int, .int => some .bool
  | .ne, .bool, .bool => some .bool
  | .ne, .enum, .enum => some .bool
  | .lt, .int, .int => some .bool
  | .le, .int, .int => some .bool
  | .gt, .int, .int => some .bool
  | .ge, .int, .int => some .bool
  | .and, .bool, .bool => some .bool
  | .or, .bool, .bool => some .bool
  | _, _, _ => none

mutual
/-- the type of a well-typed expression (`none`: ill typed).  A `constant_reference` (`cref`)
    is outside: the front end only creates it for constants, which the generator of the
    annotated IR folds; references to virtual fields are `vref`. -/
def tyOf : Expr → Option Ty
  | .const _ => some .int
  | .bconst _ => some .bool
  | .econst _ => some .enum
  | .ileaf _ _ _ => some .int
  | .ssize _ => some .int
  | .given _ _ => some .int
  | .bleaf _ => some .bool
  | .eleaf _ => some .enum
  | .bin op l r =>
    match tyOf l, tyOf r with
    | some a, some b => binTy op a b
    | _, _ => none
  | .choice c t f =>
    match tyOf c, tyOf t, tyOf f with
    | some .bool, some a, some b => if a = b then some a else none
    | _, _, _ => none
  | .max args => if !args.isEmpty && allInt args then some .int else none
  | .upper e => match tyOf e with | some .int => some .int | _ => none
  | .lower e => match tyOf e with | some .int => some .int | _ => none
  | .vref e => tyOf e
  | .present _ c => match tyOf c with | some .bool => some .bool | _ => none
  | .cref _ => none
def allInt : List Expr → Bool
  | [] => true
  | e :: es => (match tyOf e with | some .int => true | _ => false) && allInt es
end

end Emboss.Bounds
