/-
Model of the cycle-detection half of compiler/front_end/dependency_checker.py
(property C15): `_find_cycles` (Tarjan's SCC algorithm exactly as written there),
the construction of the error groups, the abstract form of `_find_dependencies`
and `_find_module_import_dependencies`.

Import-free (core Lean only) so that the driver links as a plain `lean_exe`.
Nodes are natural numbers: the harness numbers the hashable reference tuples by
their rank in Python's sorted order, so `<` on numbers is `<` on the tuples.
-/
namespace Emboss.Deps

/-- `graph`: a Python dict `node -> set of nodes`.  Keys in dict (insertion) order; each
value is listed in the order in which Python iterates that set (the harness passes the
actual iteration order; `C15_tarjan_sccs` shows the result does not depend on it). -/
abbrev Graph := List (Nat × List Nat)

/-- `graph[v]` for a key; `[]` for a non-key (Python: `KeyError`, see `closed`). -/
def succs (g : Graph) (v : Nat) : List Nat :=
  match g.lookup v with
  | some ds => ds
  | none => []

def keys (g : Graph) : List Nat := g.map (·.1)

/-- Every destination is a key.  `_find_cycles` evaluates `graph[destination]` for every
destination of every key it visits, and it visits all keys, so it raises `KeyError`
exactly when this is false (`findCycles` makes that outcome explicit). -/
def closed (g : Graph) : Bool :=
  g.all fun p => p.2.all fun d => (keys g).contains d

/-- Read of a `dict[node] -> int` at a key that is present (`0` otherwise: the reads the
algorithm performs are all at present keys, lemma `Inv` in Lemmas/Tarjan). -/
def getN (m : List (Nat × Nat)) (k : Nat) : Nat :=
  match m.lookup k with
  | some x => x
  | none => 0

/-- The mutable variables closed over by `strong_connect`. -/
structure TState where
  /-- `next_index[0]` -/
  next : Nat
  /-- `node_indices` (assignment = cons; lookup finds the newest) -/
  idx : List (Nat × Nat)
  /-- `node_lowlinks` -/
  low : List (Nat × Nat)
  /-- `nodes_on_stack` -/
  onStack : List Nat
  /-- `stack`, top first -/
  stack : List Nat
  /-- `nontrivial_components`, in order of addition -/
  comps : List (List Nat)
  /-- the recursion ran out of fuel (never, for fuel ≥ number of keys: `C15_terminates`) -/
  oof : Bool
deriving Repr

def TState.init : TState := ⟨0, [], [], [], [], [], false⟩

def indexed (s : TState) (v : Nat) : Bool := (s.idx.lookup v).isSome

/-- First five statements of `strong_connect`. -/
def push (v : Nat) (s : TState) : TState :=
  { s with next := s.next + 1, idx := (v, s.next) :: s.idx, low := (v, s.next) :: s.low,
           stack := v :: s.stack, onStack := v :: s.onStack }

def setLow (v x : Nat) (s : TState) : TState := { s with low := (v, x) :: s.low }

/-- `while True: popped = stack.pop(); component.append(popped); if popped == node: break`
Returns (component in pop order, remaining stack). -/
def popUntil (v : Nat) : List Nat → List Nat × List Nat
  | [] => ([], [])   -- Python: IndexError; unreachable, `v` is on the stack
  | x :: rest =>
    if x = v then ([x], rest)
    else ((x :: (popUntil v rest).1), (popUntil v rest).2)

/-- `len(c) > 1 or c[0] in graph[c[0]]` -/
def nontrivial (g : Graph) (c : List Nat) : Bool :=
  decide (c.length > 1) ||
    match c with
    | x :: _ => (succs g x).contains x
    | [] => false

/-- The part of `strong_connect` after the `for` loop. -/
def finish (g : Graph) (v : Nat) (s : TState) : TState :=
  if getN s.low v = getN s.idx v then
    let comp := (popUntil v s.stack).1
    let s' := { s with stack := (popUntil v s.stack).2,
                       onStack := comp.foldl List.erase s.onStack }
    if nontrivial g comp then { s' with comps := s'.comps ++ [comp] } else s'
  else s

/-- The `for destination_node in graph[node]` loop; `rec` is the recursive call. -/
def visitEdges (rec : Nat → TState → TState) (v : Nat) : List Nat → TState → TState
  | [], s => s
  | d :: ds, s =>
    if indexed s d = false then
      let s1 := rec d s
      visitEdges rec v ds (setLow v (min (getN s1.low v) (getN s1.low d)) s1)
    else if s.onStack.contains d then
      visitEdges rec v ds (setLow v (min (getN s.low v) (getN s.idx d)) s)
    else visitEdges rec v ds s

/-- `strong_connect(node)`; the fuel bounds the recursion *depth*. -/
def strongConnect (g : Graph) : Nat → Nat → TState → TState
  | 0, _, s => { s with oof := true }
  | fuel + 1, v, s =>
    finish g v (visitEdges (strongConnect g fuel) v (succs g v) (push v s))

/-- `for node in graph: if node not in node_indices: strong_connect(node)` -/
def tarjanLoop (g : Graph) (fuel : Nat) : List Nat → TState → TState
  | [], s => s
  | v :: vs, s =>
    tarjanLoop g fuel vs (if indexed s v = false then strongConnect g fuel v s else s)

def tarjan (g : Graph) (fuel : Nat) : TState := tarjanLoop g fuel (keys g) TState.init

/-- Outcome of `_find_cycles(graph)`. -/
inductive CyclesResult where
  | keyError
  | outOfFuel
  | ok (components : List (List Nat))
deriving Repr, DecidableEq

def findCyclesFuel (g : Graph) (fuel : Nat) : CyclesResult :=
  if closed g = false then .keyError
  else
    let s := tarjan g fuel
    if s.oof then .outOfFuel else .ok s.comps

/-- `_find_cycles(graph)`: recursion depth is at most the number of keys. -/
def findCycles (g : Graph) : CyclesResult := findCyclesFuel g (keys g).length

/-! ### Error construction: `for cycle in sorted(cycles, key=sorted): cycle_list = sorted(cycle)` -/

def insertSorted (le : α → α → Bool) (x : α) : List α → List α
  | [] => [x]
  | y :: ys => if le x y then x :: y :: ys else y :: insertSorted le x ys

/-- Insertion sort (stable; only used on duplicate-free data). -/
def isort (le : α → α → Bool) : List α → List α
  | [] => []
  | x :: xs => insertSorted le x (isort le xs)

/-- Python list comparison `a <= b` on lists of ints. -/
def lexLe : List Nat → List Nat → Bool
  | [], _ => true
  | _ :: _, [] => false
  | a :: as, b :: bs => if a < b then true else if b < a then false else lexLe as bs

/-- The error groups: each component as a sorted list (first = the `error`, others =
`note`s), groups in the order of their sorted member lists. -/
def cycleGroups (comps : List (List Nat)) : List (List Nat) :=
  isort lexLe (comps.map (isort (fun a b => decide (a ≤ b))))

/-! ### `_find_dependencies`, at the level of an abstract reference graph -/

/-- One `Reference` / `FieldReference` occurrence below a definition.
`target = none` encodes one of the keywords `$next`, `$is_statically_sized`,
`$static_size_in_bits` (then `kw` says which, 0/1/2). -/
structure RefOcc where
  /-- head of the reference (`canonical_name` of a `Reference`, or of `path[0]` of a
  `FieldReference`) -/
  target : Option Nat
  kw : Nat := 0
  /-- the occurrence is a `FieldReference` (second traversal) rather than a bare
  `Reference` such as an enum-value constant (first traversal) -/
  isFieldRef : Bool
  /-- below an `Attribute` -/
  inAttr : Bool
  /-- below an `AtomicType` (type name, type-parameter arguments) -/
  inAtomic : Bool
deriving Repr

/-- A `Field`, `EnumValue` or `RuntimeParameter` with the references below it. -/
structure Defn where
  name : Nat
  refs : List RefOcc
deriving Repr

/-- Does the occurrence contribute an edge?  First traversal: `Reference`s outside
`AtomicType`, `Attribute` and `FieldReference`.  Second traversal: `path[0]` of every
`FieldReference` outside `Attribute` (so *inside* an `AtomicType` it still counts). -/
def RefOcc.counts (r : RefOcc) : Bool :=
  if r.isFieldRef then !r.inAttr else !r.inAttr && !r.inAtomic

/-- Keyword errors arise only in the first traversal (bare `Reference`s). -/
def RefOcc.keywordError (r : RefOcc) : Option Nat :=
  if r.target.isNone && !r.isFieldRef && !r.inAttr && !r.inAtomic then some r.kw else none

def dedup : List Nat → List Nat
  | [] => []
  | x :: xs => if xs.contains x then dedup xs else x :: dedup xs

/-- `_find_dependencies`: (dependency graph, keyword errors as (definition, keyword)). -/
def findDependencies (defs : List Defn) : Graph × List (Nat × Nat) :=
  (defs.map fun d => (d.name, dedup ((d.refs.filter RefOcc.counts).filterMap RefOcc.target)),
   defs.flatMap fun d => (d.refs.filterMap RefOcc.keywordError).map fun k => (d.name, k))

/-- Outcome of `_find_object_dependency_cycles`. -/
inductive DepResult where
  | keywordErrors (errs : List (Nat × Nat))
  | crash
  | cycles (groups : List (List Nat))
deriving Repr, DecidableEq

def findObjectDependencyCycles (defs : List Defn) : DepResult :=
  let (g, errs) := findDependencies defs
  if !errs.isEmpty then .keywordErrors errs
  else match findCycles g with
    | .ok comps => .cycles (cycleGroups comps)
    | _ => .crash

/-! ### `_find_module_import_dependencies` -/

/-- A module: its file name (`0` = the empty name of the prelude) and the file names of
its `foreign_import`s, in order. -/
structure ModuleImports where
  name : Nat
  imports : List Nat
deriving Repr

/-- `if foreign_import.file_name.text or module.source_file_name`: only the prelude's
import of `""` (itself) is dropped. -/
def importGraph (mods : List ModuleImports) : Graph :=
  mods.map fun m => (m.name, dedup (m.imports.filter fun i => i != 0 || m.name != 0))

def findModuleDependencyCycles (mods : List ModuleImports) : DepResult :=
  match findCycles (importGraph mods) with
  | .ok comps => .cycles (cycleGroups comps)
  | _ => .crash

end Emboss.Deps
