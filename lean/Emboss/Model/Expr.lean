/-
Impl model of the expression layer of generated C++ views (C01/C04/C20).

Mirrors `header_generator.py:_render_expression` + `runtime/cpp/emboss_arithmetic.h`:
every expression evaluates to a `Maybe<T>` (`Option Val` here);
  * arithmetic / comparison / `$max` go through `MaybeDo`: known iff *all* operands known;
  * `And` / `Or` are symmetric short-circuits: a known `false` (`true`) decides the result
    even if the other operand is unknown;
  * `Choice` is unknown iff the condition is unknown or the *selected* branch is unknown;
  * a node whose inferred type is a single value is rendered as a literal (`fold`): the
    generated code never evaluates the original sub-expression.
Integer arithmetic is on unbounded `Int`: that no C++ intermediate overflows is the separate
theorem `C04_no_overflow` (builder `bounds`, `Emboss/Properties/C04Arith.lean`).
No imports: links into a plain `lean_exe`.
-/
namespace Emboss.View

inductive Val where
  | int (i : Int)
  | bool (b : Bool)
  deriving DecidableEq, Repr, Inhabited

inductive Fn where
  | add | sub | mul | eq | ne | lt | le | gt | ge | and | or | choice | max
  deriving DecidableEq, Repr

mutual
  inductive Expr where
    /-- literal in the source, e.g. `5`, `true`, `Enum.VALUE` -/
    | const (v : Val)
    /-- a node whose type annotation is a single value: rendered as that literal -/
    | fold (v : Val) (orig : Expr)
    /-- `x().y().Ok() ? Maybe(x().y().UncheckedRead()) : Maybe()` -/
    | ref (path : List String)
    /-- a runtime parameter, read through its `MaybeConstantView` -/
    | param (name : String)
    /-- `$present(x.y)` rendered as `x().has_y()` -/
    | has (path : List String)
    /-- `$logical_value` / `this` inside a validator or a write transform -/
    | lv
    | op (f : Fn) (args : Exprs)
  inductive Exprs where
    | nil
    | cons (e : Expr) (es : Exprs)
end

/-- What an expression can observe of the view it is evaluated in. -/
structure Env where
  read : List String → Option Val
  param : String → Option Val
  has : List String → Option Bool
  lv : Option Val

def maybeInt2 (f : Int → Int → Val) : Option Val → Option Val → Option Val
  | some (.int a), some (.int b) => some (f a b)
  | _, _ => none

/-- `Equal`/`NotEqual` compare integers, enums (ints here) or booleans of the same kind. -/
def maybeEq (neg : Bool) : Option Val → Option Val → Option Val
  | some (.int a), some (.int b) => some (.bool ((a == b) != neg))
  | some (.bool a), some (.bool b) => some (.bool ((a == b) != neg))
  | _, _ => none

/-- `And`: `!l.ValueOr(true) || !r.ValueOr(true) ? false : (!l.Known() || !r.Known() ? unknown : true)`. -/
def maybeAnd : Option Val → Option Val → Option Val
  | some (.bool false), _ => some (.bool false)
  | _, some (.bool false) => some (.bool false)
  | some (.bool true), some (.bool true) => some (.bool true)
  | _, _ => none

/-- `Or`: `l.ValueOr(false) || r.ValueOr(false) ? true : (!l.Known() || !r.Known() ? unknown : false)`. -/
def maybeOr : Option Val → Option Val → Option Val
  | some (.bool true), _ => some (.bool true)
  | _, some (.bool true) => some (.bool true)
  | some (.bool false), some (.bool false) => some (.bool false)
  | _, _ => none

/-- `Choice`: unknown iff the condition is unknown, otherwise the selected branch. -/
def maybeChoice : Option Val → Option Val → Option Val → Option Val
  | some (.bool true), t, _ => t
  | some (.bool false), _, e => e
  | _, _, _ => none

/-- `Maximum` through `MaybeDo`: all operands known. -/
def maybeMax : List (Option Val) → Option Int
  | [] => none
  | [some (.int a)] => some a
  | some (.int a) :: rest =>
    match maybeMax rest with
    | some m => some (if a < m then m else a)
    | none => none
  | _ => none

def applyFn : Fn → List (Option Val) → Option Val
  | .add, [a, b] => maybeInt2 (fun x y => .int (x + y)) a b
  | .sub, [a, b] => maybeInt2 (fun x y => .int (x - y)) a b
  | .mul, [a, b] => maybeInt2 (fun x y => .int (x * y)) a b
  | .lt, [a, b] => maybeInt2 (fun x y => .bool (decide (x < y))) a b
  | .le, [a, b] => maybeInt2 (fun x y => .bool (decide (x ≤ y))) a b
  | .gt, [a, b] => maybeInt2 (fun x y => .bool (decide (x > y))) a b
  | .ge, [a, b] => maybeInt2 (fun x y => .bool (decide (x ≥ y))) a b
  | .eq, [a, b] => maybeEq false a b
  | .ne, [a, b] => maybeEq true a b
  | .and, [a, b] => maybeAnd a b
  | .or, [a, b] => maybeOr a b
  | .choice, [c, t, e] => maybeChoice c t e
  | .max, args => (maybeMax args).map Val.int
  | _, _ => none

mutual
  def eval (env : Env) : Expr → Option Val
    | .const v => some v
    | .fold v _ => some v
    | .ref p => env.read p
    | .param n => env.param n
    | .has p => (env.has p).map Val.bool
    | .lv => env.lv
    | .op f args => applyFn f (evalList env args)
  def evalList (env : Env) : Exprs → List (Option Val)
    | .nil => []
    | .cons e es => eval env e :: evalList env es
end

def evalBool (env : Env) (e : Expr) : Option Bool :=
  match eval env e with
  | some (.bool b) => some b
  | _ => none

def evalInt (env : Env) (e : Expr) : Option Int :=
  match eval env e with
  | some (.int i) => some i
  | _ => none

/- Consistency of the literal the compiler folded a node to with the value of the original
expression whenever the latter is computable (checked by the driver on every evaluation). -/
mutual
  def foldsAgree (env : Env) : Expr → Bool
    | .fold v orig =>
      (match eval env orig with
       | some v' => v' == v
       | none => true) && foldsAgree env orig
    | .op _ args => foldsAgreeList env args
    | _ => true
  def foldsAgreeList (env : Env) : Exprs → Bool
    | .nil => true
    | .cons e es => foldsAgree env e && foldsAgreeList env es
end

end Emboss.View
