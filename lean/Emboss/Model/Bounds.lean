/-
C05 impl model: the abstract domain and transfer functions of
`compiler/front_end/expression_bounds.py`, the syntactic constant folder
`ir_util.constant_value`, the 64-bit gate
`constraints._integer_bounds_errors_for_expression` and
`header_generator._cpp_integer_type_for_range`.

Conventions
* Python keeps every number as a decimal string or "infinity"/"-infinity";
  `ExtInt` is that string domain.  `Modulus.inf` is the string "infinity".
* A Python exception (assert, `int("infinity")` ValueError, `"infinity" % n` TypeError,
  ZeroDivisionError, KeyError) is `none`.  Every transfer function is therefore
  `… → Option …`; `none` never means "unknown".
* Nothing here assumes the invariant `_assert_integer_constraints`; it is the
  separate predicate `invPy`.
No imports: links into the `model_c05` driver.
-/
namespace Emboss.Bounds

/-- "-infinity" | decimal integer | "infinity". -/
inductive ExtInt where
  | negInf
  | fin (v : Int)
  | posInf
  deriving DecidableEq, Repr, Inhabited

/-- decimal non-negative integer | "infinity". -/
inductive Modulus where
  | fin (m : Nat)
  | inf
  deriving DecidableEq, Repr, Inhabited

/-- `ir_data.IntegerType`. -/
structure AVal where
  min : ExtInt
  max : ExtInt
  modulus : Modulus
  mv : ExtInt
  deriving DecidableEq, Repr, Inhabited

namespace ExtInt

def isInf : ExtInt → Bool
  | .fin _ => false
  | _ => true

/-- `int(a)`: ValueError on "infinity". -/
def toInt? : ExtInt → Option Int
  | .fin v => some v
  | _ => none

def neg : ExtInt → ExtInt
  | .negInf => .posInf
  | .fin v => .fin (-v)
  | .posInf => .negInf

/-- order on the extended integers (used by specs; the code never compares strings
    numerically except through `_min`/`_max`). -/
def le : ExtInt → ExtInt → Bool
  | .negInf, _ => true
  | _, .posInf => true
  | .fin a, .fin b => a ≤ b
  | _, _ => false

end ExtInt

open ExtInt

/-- `_add`: ∞ + (−∞) trips an `assert`. -/
def eadd : ExtInt → ExtInt → Option ExtInt
  | .fin x, .fin y => some (.fin (x + y))
  | .posInf, .negInf => none
  | .negInf, .posInf => none
  | .posInf, _ => some .posInf
  | _, .posInf => some .posInf
  | .negInf, _ => some .negInf
  | _, .negInf => some .negInf

/-- `_sub`. -/
def esub (a b : ExtInt) : Option ExtInt := eadd a b.neg

/-- `_sign`. -/
def esign : ExtInt → Int
  | .posInf => 1
  | .negInf => -1
  | .fin v => if v > 0 then 1 else if v < 0 then -1 else 0

/-- `_mul`: ∞·0 = 0. -/
def emul (a b : ExtInt) : ExtInt :=
  match a, b with
  | .fin x, .fin y => .fin (x * y)
  | _, _ =>
    let s := esign a * esign b
    if s > 0 then .posInf else if s < 0 then .negInf else .fin 0

def emax2 : ExtInt → ExtInt → ExtInt
  | .posInf, _ => .posInf
  | _, .posInf => .posInf
  | .negInf, b => b
  | a, .negInf => a
  | .fin a, .fin b => .fin (if a ≤ b then b else a)

def emin2 : ExtInt → ExtInt → ExtInt
  | .negInf, _ => .negInf
  | _, .negInf => .negInf
  | .posInf, b => b
  | a, .posInf => a
  | .fin a, .fin b => .fin (if a ≤ b then a else b)

/-- `_max`: any "infinity" ⇒ "infinity"; all "-infinity" ⇒ "-infinity" (also for []);
    otherwise the maximum of the finite members. -/
def emaxL (l : List ExtInt) : ExtInt := l.foldl emax2 .negInf

/-- `_min`. -/
def eminL (l : List ExtInt) : ExtInt := l.foldl emin2 .posInf

/-- `_greatest_common_divisor` with its 0/∞ conventions. -/
def gcdM : Modulus → Modulus → Modulus
  | .fin 0, .fin 0 => .inf
  | .fin 0, b => b
  | a, .fin 0 => a
  | .inf, b => b
  | a, .inf => a
  | .fin a, .fin b => .fin (Nat.gcd a b)

/-- How `_greatest_common_divisor` reads a *modular value* argument: "infinity" is taken
    for the infinite modulus, "-infinity" is a ValueError, negatives trip the assert. -/
def mvAsModulus : ExtInt → Option Modulus
  | .posInf => some .inf
  | .negInf => none
  | .fin v => if v < 0 then none else some (.fin v.toNat)

/-- `_compute_constraints_of_additive_operator`. -/
def additive (isSub : Bool) (l r : AVal) : Option AVal :=
  let f := if isSub then esub else eadd
  match f l.mv r.mv with
  | none => none
  | some u =>
    let m := gcdM l.modulus r.modulus
    let mv? : Option ExtInt :=
      match m, u with
      | .inf, u => some u
      | .fin k, .fin v => if k = 0 then none else some (.fin (v % (k : Int)))
      | .fin _, _ => none          -- "infinity" % n : TypeError
    match mv? with
    | none => none
    | some mv =>
      let rmax := if isSub then r.min else r.max
      let rmin := if isSub then r.max else r.min
      match f l.min rmin, f l.max rmax with
      | some mn, some mx => some ⟨mn, mx, m, mv⟩
      | _, _ => none

/-- const × var branch: `c` the constant's modular value, `(m, v)` the variable's. -/
def mulConstVar (mn mx : ExtInt) (c : ExtInt) (m : Nat) (v : ExtInt) : Option AVal :=
  match c.toInt? with
  | none => none
  | some c =>
    if c = 0 then some ⟨mn, mx, .inf, .fin 0⟩
    else
      let M : Nat := m * c.natAbs
      match v.toInt? with
      | none => none
      | some v => if M = 0 then none else some ⟨mn, mx, .fin M, .fin (v * c % (M : Int))⟩

/-- per-side data of the var × var branch: (zero-congruence modulus z, modulus / z, int(mv)). -/
def mulSide (m : Nat) (mv : ExtInt) : Option (Nat × Nat × Int) :=
  match mvAsModulus mv with
  | none => none
  | some mvm =>
    match gcdM (.fin m) mvm with
    | .inf => none                         -- `int % "infinity"`: TypeError
    | .fin z =>
      if z = 0 then none
      else if m % z ≠ 0 then none          -- the assert
      else match mv.toInt? with
        | none => none
        | some v => some (z, m / z, v)

/-- `_compute_constraints_of_multiplicative_operator`. -/
def multiplicative (l r : AVal) : Option AVal :=
  let ex := [emul l.max r.max, emul l.min r.max, emul l.max r.min, emul l.min r.min]
  let mn := eminL ex
  let mx := emaxL ex
  match l.modulus, r.modulus with
  | .inf, .inf =>
    match l.mv.toInt?, r.mv.toInt? with
    | some a, some b => some ⟨mn, mx, .inf, .fin (a * b)⟩
    | _, _ => none
  | .inf, .fin m => mulConstVar mn mx l.mv m r.mv
  | .fin m, .inf => mulConstVar mn mx r.mv m l.mv
  | .fin lm, .fin rm =>
    match mulSide lm l.mv, mulSide rm r.mv with
    | some (lz, lnz, lv), some (rz, rnz, rv) =>
      match gcdM (.fin lnz) (.fin rnz) with
      | .inf => none                       -- "infinity" * n is a str; `int % str`: TypeError
      | .fin g =>
        let M := g * (lz * rz)
        if M = 0 then none else some ⟨mn, mx, .fin M, .fin (lv * rv % (M : Int))⟩
    | _, _ => none

/-- `_shared_modular_value`. -/
def shared (l r : Modulus × ExtInt) : Option (Modulus × ExtInt) :=
  let common := gcdM l.1 r.1
  match l.2.toInt?, r.2.toInt? with
  | some a, some b =>
    match gcdM common (.fin (a - b).natAbs) with
    | .inf =>
      if l.2 = r.2 ∧ l.1 = .inf ∧ r.1 = .inf then some (.inf, l.2) else none
    | .fin k =>
      if k = 0 then none
      else if a % (k : Int) ≠ b % (k : Int) then none
      else some (.fin k, .fin (a % (k : Int)))
  | _, _ => none

/-- integer `?:` whose condition is not a known constant. -/
def choiceHull (t f : AVal) : Option AVal :=
  match shared (t.modulus, t.mv) (f.modulus, f.mv) with
  | none => none
  | some (m, v) => some ⟨eminL [t.min, f.min], emaxL [t.max, f.max], m, v⟩

def sharedFold : Modulus × ExtInt → List AVal → Option (Modulus × ExtInt)
  | acc, [] => some acc
  | acc, a :: as =>
    match shared acc (a.modulus, a.mv) with
    | none => none
    | some acc' => sharedFold acc' as

/-- `_compute_constraints_of_maximum_function` (`args` non-empty, else IndexError). -/
def maxFn : List AVal → Option AVal
  | [] => none
  | a :: as =>
    let mn := emaxL ((a :: as).map (·.min))
    let mx := emaxL ((a :: as).map (·.max))
    if mn = mx then some ⟨mn, mx, .inf, mn⟩
    else match sharedFold (a.modulus, a.mv) as with
      | none => none
      | some (m, v) => some ⟨mn, mx, m, v⟩

/-- `_compute_constraints_of_bound_function`: a finite bound is a constant; an infinite
    one says nothing (unbounded, modulus 1) — never a "constant infinity". -/
def boundFn (upper : Bool) (a : AVal) : AVal :=
  let v := if upper then a.max else a.min
  if v.isInf then ⟨.negInf, .posInf, .fin 1, .fin 0⟩ else ⟨v, v, .inf, v⟩

inductive LeafKind where
  | uint | sint | bcd
  deriving DecidableEq, Repr, Inhabited

def unboundedLeaf : AVal := ⟨.negInf, .posInf, .fin 1, .fin 0⟩

/-- `_set_integer_constraints_from_physical_type` after modulus/modular_value := 1/0;
    `size = none` is "size not a constant". -/
def leafRange (k : LeafKind) (size : Option Int) : AVal :=
  match size with
  | none => unboundedLeaf
  | some s =>
    if s < 1 then unboundedLeaf
    else
      let n := s.toNat
      match k with
      | .uint => ⟨.fin 0, .fin ((2 : Int) ^ n - 1), .fin 1, .fin 0⟩
      | .sint => ⟨.fin (-((2 : Int) ^ (n - 1))), .fin ((2 : Int) ^ (n - 1) - 1), .fin 1, .fin 0⟩
      | .bcd => ⟨.fin 0, .fin ((10 : Int) ^ (n / 4) * (2 : Int) ^ (n % 4) - 1), .fin 1, .fin 0⟩

/-- `$static_size_in_bits`. -/
def staticSizeRange : AVal := ⟨.fin 0, .posInf, .fin 1, .fin 0⟩

def constRange (v : Int) : AVal := ⟨.fin v, .fin v, .inf, .fin v⟩

/-- `_assert_integer_constraints` as a predicate: `some true` = all asserts pass,
    `some false` = an assert fails, `none` = an `int()` conversion inside it raises. -/
def invPy (a : AVal) : Option Bool :=
  match a.modulus with
  | .inf => some (a.min = a.mv ∧ a.max = a.mv)
  | .fin m =>
    if m = 0 then some false
    else
      let c1 : Option Bool :=
        match a.min with
        | .negInf => some true
        | .posInf => none
        | .fin x => match a.mv with | .fin v => some (x % (m : Int) = v) | _ => none
      let c2 : Option Bool :=
        match a.max with
        | .posInf => some true
        | .negInf => none
        | .fin x => match a.mv with | .fin v => some (x % (m : Int) = v) | _ => none
      match c1, c2 with
      | some b1, some b2 =>
        if !b1 || !b2 then some false
        else if a.min = a.max then some false   -- would need modulus = "infinity"
        else match a.min, a.max with
          | .fin x, .fin y => some (x ≤ y)
          | _, _ => some true
      | some false, none => some false
      | _, _ => none

/-! ## Expressions -/

inductive BinOp where
  | add | sub | mul | eq | ne | lt | le | gt | ge | and | or
  deriving DecidableEq, Repr, Inhabited

/-- values of `ir_util.constant_value` / concrete evaluation -/
inductive CVal where
  | int (v : Int)
  | bool (b : Bool)
  | enum (v : Int)
  deriving DecidableEq, Repr, Inhabited

/-- `ir_data.ExpressionType` (integer / boolean / enumeration), value absent = `none`. -/
inductive AType where
  | int (a : AVal)
  | bool (v : Option Bool)
  | enum (v : Option Int)
  deriving DecidableEq, Repr, Inhabited

/-- Expression trees.  `vref e` is a `field_reference` to a virtual field whose
    `read_transform` is `e`: the code copies the type of `e`, `ir_util.constant_value` says
    "unknown", the 64-bit gate and the back end see a leaf (the definition `e` is gated and
    compiled as a separate top-level expression).  `present a c` is `$present(a)` for a field `a`
    whose existence condition is `c`: the code copies the type of `c`, `constant_value` says
    "unknown" (its argument is a field reference), the gate sees a function node over the
    field reference `a`, the back end emits `has_a()`.  `cref` is a `constant_reference` to a virtual field, which
    differs only for `constant_value`. -/
inductive Expr where
  | const (v : Int)
  | bconst (b : Bool)
  | econst (v : Int)                                   -- constant_reference to an enum value
  | ileaf (id : Nat) (k : LeafKind) (size : Option Int) -- physical integer field / parameter
  | ssize (id : Nat)                                    -- $static_size_in_bits
  | given (id : Nat) (a : AVal)                         -- $logical_value: annotation preset
  | bleaf (id : Nat)                                    -- boolean field
  | eleaf (id : Nat)                                    -- enum field / parameter
  | bin (op : BinOp) (l r : Expr)
  | choice (c t f : Expr)
  | max (args : List Expr)
  | upper (e : Expr)
  | lower (e : Expr)
  | cref (e : Expr)
  | vref (e : Expr)
  | present (a c : Expr)
  deriving Repr, Inhabited

/-- an environment: values of integer leaves, boolean leaves, enum leaves, by id -/
structure Env where
  i : Nat → Int
  b : Nat → Bool
  e : Nat → Int

/-- Three-way result of `ir_util.constant_value`. -/
inductive CV where
  | crash
  | unknown
  | val (v : CVal)
  deriving DecidableEq, Repr, Inhabited

/-- the `functions[...]` table of `_constant_value_of_function` for two known operands;
    ill-typed operand pairs cannot pass type_check and give `none`. -/
def applyBin : BinOp → CVal → CVal → Option CVal
  | .add, .int a, .int b => some (.int (a + b))
  | .sub, .int a, .int b => some (.int (a - b))
  | .mul, .int a, .int b => some (.int (a * b))
  | .eq, .int a, .int b => some (.bool (a == b))
  | .ne, .int a, .int b => some (.bool (a != b))
  | .lt, .int a, .int b => some (.bool (a < b))
  | .le, .int a, .int b => some (.bool (a ≤ b))
  | .gt, .int a, .int b => some (.bool (a > b))
  | .ge, .int a, .int b => some (.bool (a ≥ b))
  | .eq, .enum a, .enum b => some (.bool (a == b))
  | .ne, .enum a, .enum b => some (.bool (a != b))
  | .eq, .bool a, .bool b => some (.bool (a == b))
  | .ne, .bool a, .bool b => some (.bool (a != b))
  | .and, .bool a, .bool b => some (.bool (a && b))
  | .or, .bool a, .bool b => some (.bool (a || b))
  | _, _, _ => none

def maxInts : List Int → Option Int
  | [] => none
  | a :: as => some (as.foldl (fun m x => if m ≤ x then x else m) a)

/-- all values known integers -/
def cvInts : List CV → Option (List Int)
  | [] => some []
  | .val (.int v) :: r => (cvInts r).map (v :: ·)
  | _ :: _ => none

/-- the generic tail of `_constant_value_of_function`: any unknown operand ⇒ unknown,
    otherwise the `functions[...]` table -/
def cvTable (op : BinOp) (a b : CV) : CV :=
  match a, b with
  | .val x, .val y => match applyBin op x y with | some v => .val v | none => .crash
  | _, _ => .unknown

def cvAnd (a b : CV) : CV :=
  if a = .val (.bool false) ∨ b = .val (.bool false) then .val (.bool false)
  else if a = .unknown ∨ b = .unknown then .unknown
  else .val (.bool true)

def cvOr (a b : CV) : CV :=
  if a = .val (.bool true) ∨ b = .val (.bool true) then .val (.bool true)
  else if a = .unknown ∨ b = .unknown then .unknown
  else .val (.bool false)

/-- `_constant_value_of_function` for a binary function, given the operand results
    (both operands are always evaluated first). -/
def cvBin (op : BinOp) (a b : CV) : CV :=
  if a = .crash ∨ b = .crash then .crash
  else match op with
    | .and => cvAnd a b
    | .or => cvOr a b
    | op => cvTable op a b

def cvChoice (c t f : CV) : CV :=
  match c, t, f with
  | .crash, _, _ => .crash
  | _, .crash, _ => .crash
  | _, _, .crash => .crash
  | .unknown, _, _ => .unknown
  | .val (.bool b), t, f => if b then t else f
  | .val _, _, _ => .crash

def cvMax (vs : List CV) : CV :=
  if vs.any (· == .crash) then .crash
  else if vs.any (· == .unknown) then .unknown
  else match cvInts vs with
    | some l => match maxInts l with | some m => .val (.int m) | none => .crash
    | none => .crash

/-- `$upper_bound`/`$lower_bound` in `ir_util.constant_value`: read from the node's own type
    annotation (like constant references): known iff that is a finite constant; the
    operand's `constant_value` is not computed. -/
def cvBound : Option AType → CV
  | some (.int ⟨_, _, .inf, .fin v⟩) => .val (.int v)
  | _ => .unknown

def atypeConstCV : Option AType → CV
  | some (.int ⟨_, _, .inf, .fin v⟩) => .val (.int v)
  | some (.bool (some b)) => .val (.bool b)
  | some (.enum (some v)) => .val (.enum v)
  | _ => .crash

/-- `_compute_constant_value_of_comparison_operator` (also used for `&&`, `||`), given
    the `constant_value`s of the operands.  `all(is_constant(arg) …)` short-circuits:
    the right operand's `constant_value` is not computed when the left one is unknown. -/
def absCmp (op : BinOp) (cl cr : CV) : Option AType :=
  match cl with
  | .crash => none
  | .unknown => some (.bool none)
  | .val x =>
    match cr with
    | .crash => none
    | .unknown => some (.bool none)
    | .val y =>
      match applyBin op x y with
      | some (.bool b) => some (.bool (some b))
      | _ => none

def absArith (op : BinOp) (a b : AVal) : Option AVal :=
  match op with
  | .add => additive false a b
  | .sub => additive true a b
  | .mul => multiplicative a b
  | _ => none

def isArith : BinOp → Bool
  | .add | .sub | .mul => true
  | _ => false

/-- node-level transfer of a binary function given child types and the
    `constant_value`s of the children. -/
def absBin (op : BinOp) (l r : AType) (cl cr : CV) : Option AType :=
  if isArith op then
    match l, r with
    | .int a, .int b => (absArith op a b).map .int
    | _, _ => none
  else absCmp op cl cr

/-- `_compute_constraints_of_choice_operator`. -/
def absChoice (c t f : AType) : Option AType :=
  match c with
  | .bool (some b) => some (if b then t else f)
  | .bool none =>
    match t, f with
    | .int a, .int b => (choiceHull a b).map .int
    | .bool _, .bool _ => some (.bool none)
    | .enum _, .enum _ => some (.enum none)
    | _, _ => none
  | _ => none

def atypeInts : List AType → Option (List AVal)
  | [] => some []
  | .int a :: r => (atypeInts r).map (a :: ·)
  | _ :: _ => none

def absMax (args : List AType) : Option AType :=
  match atypeInts args with
  | none => none
  | some l => (maxFn l).map .int

def absBound (upper : Bool) (a : AType) : Option AType :=
  match a with
  | .int a => some (.int (boundFn upper a))
  | _ => none

mutual
/-- `ir_util.constant_value` (no bindings). -/
def cv : Expr → CV
  | .const v => .val (.int v)
  | .bconst b => .val (.bool b)
  | .econst v => .val (.enum v)
  | .ileaf _ _ _ => .unknown
  | .ssize _ => .unknown
  | .given _ _ => .unknown
  | .bleaf _ => .unknown
  | .eleaf _ => .unknown
  | .bin op l r => cvBin op (cv l) (cv r)
  | .choice c t f => cvChoice (cv c) (cv t) (cv f)
  | .max args => cvMax (cvList args)
  | .upper e => cvBound (match abs e with | some a => absBound true a | none => none)
  | .lower e => cvBound (match abs e with | some a => absBound false a | none => none)
  | .cref e => atypeConstCV (abs e)
  | .vref _ => .unknown
  | .present _ _ => .unknown
def cvList : List Expr → List CV
  | [] => []
  | e :: es => cv e :: cvList es
/-- `compute_constraints_of_expression`: the type the code attaches to the node. -/
def abs : Expr → Option AType
  | .const v => some (.int (constRange v))
  | .bconst b => some (.bool (some b))
  | .econst v => some (.enum (some v))
  | .ileaf _ k size => some (.int (leafRange k size))
  | .ssize _ => some (.int staticSizeRange)
  | .given _ a => some (.int a)
  | .bleaf _ => some (.bool none)
  | .eleaf _ => some (.enum none)
  | .bin op l r =>
    match abs l, abs r with
    | some a, some b => absBin op a b (cv l) (cv r)
    | _, _ => none
  | .choice c t f =>
    match abs c, abs t, abs f with
    | some a, some b, some d => absChoice a b d
    | _, _, _ => none
  | .max args =>
    match absList args with
    | some l => absMax l
    | none => none
  | .upper e => match abs e with | some a => absBound true a | none => none
  | .lower e => match abs e with | some a => absBound false a | none => none
  | .cref e => abs e
  | .vref e => abs e
  | .present _ c => abs c
def absList : List Expr → Option (List AType)
  | [] => some []
  | e :: es =>
    match abs e, absList es with
    | some a, some l => some (a :: l)
    | _, _ => none
end

/-! ## The 64-bit gate and the C++ type choice -/

abbrev two63 : Int := 9223372036854775808
abbrev two64 : Int := 18446744073709551616

def fitsU64 (lo hi : Int) : Bool := lo ≥ 0 && hi ≤ two64 - 1
def fitsI64 (lo hi : Int) : Bool := lo ≥ -two63 && hi ≤ two63 - 1
def fitsAny64 (lo hi : Int) : Bool := fitsU64 lo hi || fitsI64 lo hi

/-- error kinds of `_integer_bounds_errors` / the mixed-signedness check -/
inductive GateErr where
  | unbounded | constTooBig | rangeTooBig | mixed
  deriving DecidableEq, Repr, Inhabited

/-- `_integer_bounds_errors`. -/
def boundsErrors (a : AVal) : List GateErr :=
  match a.min, a.max with
  | .negInf, _ => [.unbounded]
  | _, .posInf => [.unbounded]
  | .fin lo, .fin hi =>
    if fitsAny64 lo hi then [] else if lo = hi then [.constTooBig] else [.rangeTooBig]
  -- min = "infinity" / max = "-infinity": `int()` raises; never an annotation of a
  -- reachable node (`gate` returns `none` there)
  | _, _ => []

def boundsCrash (a : AVal) : Bool :=
  match a.min, a.max with
  | .negInf, _ => false
  | _, .posInf => false
  | .fin _, .fin _ => false
  | _, _ => true

def isConstType : AType → Bool
  | .int a => a.modulus == .inf
  | .bool v => v.isSome
  | .enum v => v.isSome

/-- The annotated IR as the gate and the back end see it. -/
inductive ATree where
  | node (isFn : Bool) (ty : AType) (args : List ATree)
  deriving Repr, Inhabited

def ATree.ty : ATree → AType
  | .node _ t _ => t

/-- classification of a clause by the mixed-signedness check:
    0 fits both, 1 uint64-only, 2 int64-only; `none` = `int("infinity")` -/
def clauseClass (t : AType) : Option Nat :=
  match t with
  | .int a =>
    match a.min, a.max with
    | .fin lo, .fin hi =>
      if !fitsI64 lo hi then some 1 else if !fitsU64 lo hi then some 2 else some 0
    | _, _ => none
  | _ => some 0

def clauseClasses : List AType → Option (List Nat)
  | [] => some []
  | t :: r => match clauseClass t, clauseClasses r with
    | some c, some l => some (c :: l)
    | _, _ => none

mutual
/-- `_integer_bounds_errors_for_expression`; `none` = the function raises. -/
def gate : ATree → Option (List GateErr)
  | .node isFn ty args =>
    let rt := isFn && !isConstType ty
    match (if rt then gateArgs args else some []) with
    | none => none
    | some (e :: es) => some (e :: es)
    | some [] =>
      let own : Option (List GateErr) :=
        match ty with
        | .int a => if boundsCrash a then none else some (boundsErrors a)
        | _ => some []
      match own with
      | none => none
      | some (e :: es) => some (e :: es)
      | some [] =>
        if rt then
          match clauseClasses (ty :: argTys args) with
          | none => none
          | some cls => if cls.contains 1 && cls.contains 2 then some [.mixed] else some []
        else some []
def gateArgs : List ATree → Option (List GateErr)
  | [] => some []
  | a :: as =>
    match gate a, gateArgs as with
    | some e, some es => some (e ++ es)
    | _, _ => none
def argTys : List ATree → List AType
  | [] => []
  | a :: as => a.ty :: argTys as
end

mutual
/-- the annotated tree the front end builds (virtual references inlined) -/
def annot : Expr → Option ATree
  | .bin op l r =>
    match abs (.bin op l r), annot l, annot r with
    | some t, some a, some b => some (.node true t [a, b])
    | _, _, _ => none
  | .choice c t f =>
    match abs (.choice c t f), annot c, annot t, annot f with
    | some ty, some a, some b, some d => some (.node true ty [a, b, d])
    | _, _, _, _ => none
  | .max args =>
    match abs (.max args), annotList args with
    | some ty, some l => some (.node true ty l)
    | _, _ => none
  | .upper e =>
    match abs (.upper e), annot e with
    | some ty, some a => some (.node true ty [a])
    | _, _ => none
  | .lower e =>
    match abs (.lower e), annot e with
    | some ty, some a => some (.node true ty [a])
    | _, _ => none
  | .cref e =>
    -- a constant_reference to a non-constant virtual field is rejected by type_check.py:
    -- no annotated IR exists
    match abs e with
    | some ty => if isConstType ty then some (.node false ty []) else none
    | none => none
  | .present a c =>
    match abs c, annot a with
    | some ty, some t => some (.node true ty [t])
    | _, _ => none
  | e => match abs e with
    | some ty => some (.node false ty [])
    | none => none
def annotList : List Expr → Option (List ATree)
  | [] => some []
  | e :: es =>
    match annot e, annotList es with
    | some a, some l => some (a :: l)
    | _, _ => none
end

mutual
/-- every virtual field referenced (transitively) from the expression has a definition that
    the front end annotates and the 64-bit gate accepts — part of "the module is accepted":
    each `read_transform` is a top-level expression of its own -/
def vrefsGated : Expr → Bool
  | .bin _ l r => vrefsGated l && vrefsGated r
  | .choice c t f => vrefsGated c && vrefsGated t && vrefsGated f
  | .max args => vrefsGatedList args
  | .upper e => vrefsGated e
  | .lower e => vrefsGated e
  | .cref e => vrefsGated e
  | .vref e => vrefsGated e &&
      (match annot e with | some t => decide (gate t = some []) | none => false)
  -- the existence condition is a top-level expression of its own, gated and compiled separately
  | .present _ c => vrefsGated c &&
      (match annot c with | some t => decide (gate t = some []) | none => false)
  | _ => true
def vrefsGatedList : List Expr → Bool
  | [] => true
  | e :: es => vrefsGated e && vrefsGatedList es
end

/-- the four C++ types `_cpp_integer_type_for_range` can return -/
inductive CType where
  | i32 | u32 | i64 | u64
  deriving DecidableEq, Repr, Inhabited

def CType.lo : CType → Int
  | .i32 => -2147483648
  | .u32 => 0
  | .i64 => -two63
  | .u64 => 0

def CType.hi : CType → Int
  | .i32 => 2147483647
  | .u32 => 4294967295
  | .i64 => two63 - 1
  | .u64 => two64 - 1

/-- `_cpp_integer_type_for_range`: int32, uint32, int64, uint64 in that order. -/
def cppTypeForRange (lo hi : Int) : Option CType :=
  if lo ≥ -2147483648 && hi ≤ 2147483647 then some .i32
  else if lo ≥ 0 && hi ≤ 4294967295 then some .u32
  else if lo ≥ -two63 && hi ≤ two63 - 1 then some .i64
  else if lo ≥ 0 && hi ≤ two64 - 1 then some .u64
  else none

end Emboss.Bounds
